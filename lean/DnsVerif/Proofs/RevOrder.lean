/-
Helper lemmas for C02: the byte order on v2 ("reversed name") keys, the two prefix scanners
`commonPrefix` / `lengthWithoutLastLabel`, and the specification of `Store.seekForPrev`.

A name is a list of labels; `flat` is its wire form without the terminating zero and
`Name.pack ls = flat ls ++ [0]`. All v2 keys have the shape `pre ++ pack ls ++ suf`
(`pre` a marker / map type, `ls` the REVERSED label list, `suf` a location or a map suffix).
-/
import DnsVerif.Model.Serve
import DnsVerif.Proofs.MultiStore

namespace DnsVerif.RevOrder
open DnsVerif DnsVerif.Rdb DnsVerif.Name

/-! ### the byte order: small facts -/

theorem bytesLt_append_left (p x y : Bytes) : bytesLt (p ++ x) (p ++ y) = bytesLt x y := by
  induction p with
  | nil => rfl
  | cons a p ih =>
    simp only [List.cons_append, bytesLt]
    rw [if_neg (Nat.lt_irrefl _), if_neg (Nat.lt_irrefl _), ih]

theorem bytesLt_cons_of_lt {a b : UInt8} (h : a.toNat < b.toNat) (x y : Bytes) :
    bytesLt (a :: x) (b :: y) = true := by
  simp only [bytesLt]; rw [if_pos h]

theorem bytesLt_cons_of_gt {a b : UInt8} (h : b.toNat < a.toNat) (x y : Bytes) :
    bytesLt (a :: x) (b :: y) = false := by
  simp only [bytesLt]; rw [if_neg (by omega), if_pos h]

theorem bytesLe_iff {a b : Bytes} : bytesLe a b = true ↔ bytesLt b a = false := by
  unfold bytesLe; cases bytesLt b a <;> simp

theorem bytesLe_false_iff {a b : Bytes} : bytesLe a b = false ↔ bytesLt b a = true := by
  unfold bytesLe; cases bytesLt b a <;> simp

theorem bytesLe_refl (a : Bytes) : bytesLe a a = true := bytesLe_iff.2 (bytesLt_irrefl a)

theorem bytesLe_of_lt {a b : Bytes} (h : bytesLt a b = true) : bytesLe a b = true :=
  bytesLe_iff.2 (bytesLt_asymm h)

theorem bytesLe_trans {a b c : Bytes} (h1 : bytesLe a b = true) (h2 : bytesLe b c = true) :
    bytesLe a c = true :=
  bytesLe_iff.2 (bytesLe_trans' (bytesLe_iff.1 h1) (bytesLe_iff.1 h2))

theorem bytesLe_antisymm {a b : Bytes} (h1 : bytesLe a b = true) (h2 : bytesLe b a = true) : a = b :=
  bytesLt_total (bytesLe_iff.1 h2) (bytesLe_iff.1 h1)

theorem bytesLe_append_left (p x y : Bytes) : bytesLe (p ++ x) (p ++ y) = bytesLe x y := by
  unfold bytesLe; rw [bytesLt_append_left]

/-- two byte strings that differ at a definite position: the order of any extensions is decided there -/
def Div (X Y : Bytes) : Prop :=
  ∃ (c : Bytes) (u v : UInt8) (X' Y' : Bytes), X = c ++ u :: X' ∧ Y = c ++ v :: Y' ∧ u ≠ v

theorem Div.symm {X Y : Bytes} (h : Div X Y) : Div Y X := by
  obtain ⟨c, u, v, X', Y', h1, h2, h3⟩ := h
  exact ⟨c, v, u, Y', X', h2, h1, fun e => h3 e.symm⟩

/-- the order of two diverging strings does not depend on what follows them -/
theorem Div.lt_indep {X Y : Bytes} (h : Div X Y) :
    ∃ b : Bool, (∀ s t, bytesLt (X ++ s) (Y ++ t) = b) ∧ (∀ s t, bytesLt (Y ++ t) (X ++ s) = !b) := by
  obtain ⟨c, u, v, X', Y', rfl, rfl, huv⟩ := h
  have hne : u.toNat ≠ v.toNat := fun e => huv (UInt8.toNat_inj.1 e)
  by_cases hlt : u.toNat < v.toNat
  · refine ⟨true, fun s t => ?_, fun s t => ?_⟩
    · rw [List.append_assoc, List.append_assoc, bytesLt_append_left]
      exact bytesLt_cons_of_lt hlt _ _
    · rw [List.append_assoc, List.append_assoc, bytesLt_append_left]
      exact bytesLt_cons_of_gt hlt _ _
  · have hgt : v.toNat < u.toNat := by omega
    refine ⟨false, fun s t => ?_, fun s t => ?_⟩
    · rw [List.append_assoc, List.append_assoc, bytesLt_append_left]
      exact bytesLt_cons_of_gt hgt _ _
    · rw [List.append_assoc, List.append_assoc, bytesLt_append_left]
      exact bytesLt_cons_of_lt hgt _ _

theorem div_of_ne_same_length : ∀ (x y : Bytes), x.length = y.length → x ≠ y → Div x y
  | [], [], _, h => absurd rfl h
  | [], _ :: _, h, _ => by simp at h
  | _ :: _, [], h, _ => by simp at h
  | a :: x, b :: y, hl, hne => by
    by_cases hab : a = b
    · subst hab
      have hl' : x.length = y.length := by simpa using hl
      have hne' : x ≠ y := fun e => hne (by rw [e])
      obtain ⟨c, u, v, X', Y', h1, h2, h3⟩ := div_of_ne_same_length x y hl' hne'
      exact ⟨a :: c, u, v, X', Y', by rw [h1]; rfl, by rw [h2]; rfl, h3⟩
    · exact ⟨[], a, b, x, y, rfl, rfl, hab⟩

/-! ### names -/

/-- one label on the wire -/
def tok (l : Bytes) : Bytes := UInt8.ofNat l.length :: l

/-- wire form without the terminating zero -/
def flat (ls : List Bytes) : Bytes := ls.flatMap tok

theorem pack_eq (ls : List Bytes) : pack ls = flat ls ++ [0] := rfl

@[simp] theorem flat_nil : flat [] = [] := rfl
theorem flat_cons (x : Bytes) (ls : List Bytes) : flat (x :: ls) = tok x ++ flat ls := by
  simp [flat]
theorem flat_append (a b : List Bytes) : flat (a ++ b) = flat a ++ flat b := by
  simp [flat]
theorem pack_append (a b : List Bytes) : pack (a ++ b) = flat a ++ pack b := by
  rw [pack_eq, pack_eq, flat_append, List.append_assoc]
theorem pack_cons (x : Bytes) (ls : List Bytes) : pack (x :: ls) = tok x ++ pack ls := by
  rw [pack_eq, pack_eq, flat_cons, List.append_assoc]
theorem pack_nil : pack [] = [0] := rfl
theorem pack_length (ls : List Bytes) : (pack ls).length = (flat ls).length + 1 := by
  rw [pack_eq]; simp
theorem tok_length (x : Bytes) : (tok x).length = x.length + 1 := by simp [tok]

/-- a label that can be written with a one-byte length -/
def LabelOK (l : Bytes) : Prop := 0 < l.length ∧ l.length < 256

instance (l : Bytes) : Decidable (LabelOK l) := by unfold LabelOK; infer_instance

/-- every label is non-empty and shorter than 256 bytes -/
def NameOK (ls : List Bytes) : Prop := ∀ l ∈ ls, LabelOK l

instance (ls : List Bytes) : Decidable (NameOK ls) := by unfold NameOK; infer_instance

theorem NameOK.nil : NameOK [] := fun _ h => by simp at h
theorem NameOK.of_append_left {a b : List Bytes} (h : NameOK (a ++ b)) : NameOK a :=
  fun l hl => h l (List.mem_append_left _ hl)
theorem NameOK.of_append_right {a b : List Bytes} (h : NameOK (a ++ b)) : NameOK b :=
  fun l hl => h l (List.mem_append_right _ hl)
theorem NameOK.head {x : Bytes} {a : List Bytes} (h : NameOK (x :: a)) : LabelOK x :=
  h x (List.mem_cons_self ..)
theorem NameOK.tail {x : Bytes} {a : List Bytes} (h : NameOK (x :: a)) : NameOK a :=
  fun l hl => h l (List.mem_cons_of_mem _ hl)
theorem NameOK.reverse {a : List Bytes} (h : NameOK a) : NameOK a.reverse :=
  fun l hl => h l (List.mem_reverse.1 hl)
theorem NameOK.prefix {a n : List Bytes} (h : NameOK n) (hp : a <+: n) : NameOK a := by
  obtain ⟨t, rfl⟩ := hp; exact h.of_append_left

theorem LabelOK.toNat {l : Bytes} (h : LabelOK l) : (UInt8.ofNat l.length).toNat = l.length := by
  rw [UInt8.toNat_ofNat']; exact Nat.mod_eq_of_lt h.2

theorem tok_div {x y : Bytes} (hx : LabelOK x) (hy : LabelOK y) (hne : x ≠ y) : Div (tok x) (tok y) := by
  by_cases hl : x.length = y.length
  · obtain ⟨c, u, v, X', Y', h1, h2, h3⟩ := div_of_ne_same_length x y hl hne
    refine ⟨UInt8.ofNat x.length :: c, u, v, X', Y', ?_, ?_, h3⟩
    · unfold tok; exact congrArg _ h1
    · unfold tok; rw [← hl]; exact congrArg _ h2
  · refine ⟨[], UInt8.ofNat x.length, UInt8.ofNat y.length, x, y, rfl, rfl, ?_⟩
    intro e
    have := congrArg UInt8.toNat e
    rw [hx.toNat, hy.toNat] at this
    exact hl this

/-- a key of the v2 layout -/
def K (pre : Bytes) (ls : List Bytes) (suf : Bytes) : Bytes := pre ++ pack ls ++ suf

/-- the resource-record key of the reversed name `ls` for location `loc` -/
def Key (ls : List Bytes) (loc : Bytes) : Bytes := K Generated.dnsdata_ResourceRecordsKeyMarker ls loc

theorem K_append (pre : Bytes) (a t : List Bytes) (suf : Bytes) :
    K pre (a ++ t) suf = (pre ++ flat a) ++ (pack t ++ suf) := by
  unfold K; rw [pack_append]; simp [List.append_assoc]

theorem K_self (pre : Bytes) (a : List Bytes) (suf : Bytes) :
    K pre a suf = (pre ++ flat a) ++ (0 :: suf) := by
  unfold K; rw [pack_eq]; simp [List.append_assoc]

/-- (O1) the key of a proper ancestor is below every key of a descendant, whatever the suffixes -/
theorem key_lt_of_proper_prefix (pre : Bytes) (a : List Bytes) (x : Bytes) (t : List Bytes)
    (hx : LabelOK x) (s s' : Bytes) :
    bytesLt (K pre a s') (K pre (a ++ x :: t) s) = true := by
  rw [K_append, K_self, bytesLt_append_left, pack_cons]
  unfold tok
  simp only [List.cons_append]
  apply bytesLt_cons_of_lt
  rw [hx.toNat]; exact hx.1

/-- (O2) keys of one name are ordered by their suffixes -/
theorem key_lt_same_name (pre : Bytes) (n : List Bytes) (l l' : Bytes) :
    bytesLt (K pre n l) (K pre n l') = bytesLt l l' := by
  unfold K; rw [bytesLt_append_left]

theorem key_le_same_name (pre : Bytes) (n : List Bytes) (l l' : Bytes) :
    bytesLe (K pre n l) (K pre n l') = bytesLe l l' := by
  unfold bytesLe; rw [key_lt_same_name]

/-- how two names relate -/
theorem name_cases : ∀ (a m : List Bytes),
    a <+: m ∨ (∃ x t, a = m ++ x :: t) ∨
    (∃ p x y a' m', a = p ++ x :: a' ∧ m = p ++ y :: m' ∧ x ≠ y)
  | [], m => Or.inl (List.nil_prefix)
  | x :: a, [] => Or.inr (Or.inl ⟨x, a, rfl⟩)
  | x :: a, y :: m => by
    by_cases hxy : x = y
    · subst hxy
      rcases name_cases a m with h | ⟨z, t, h⟩ | ⟨p, u, v, a', m', h1, h2, h3⟩
      · exact Or.inl ((List.prefix_cons_inj x).2 h)
      · exact Or.inr (Or.inl ⟨z, t, by rw [h]; rfl⟩)
      · exact Or.inr (Or.inr ⟨x :: p, u, v, a', m', by rw [h1]; rfl, by rw [h2]; rfl, h3⟩)
    · exact Or.inr (Or.inr ⟨[], x, y, a, m, rfl, rfl, hxy⟩)

/-- keys of names that part at a label: the order is decided by the two labels alone -/
theorem key_div (pre : Bytes) (p : List Bytes) {x y : Bytes} (hx : LabelOK x) (hy : LabelOK y)
    (hne : x ≠ y) :
    ∃ b : Bool, (∀ a' m' s t, bytesLt (K pre (p ++ x :: a') s) (K pre (p ++ y :: m') t) = b) ∧
      (∀ a' m' s t, bytesLt (K pre (p ++ y :: m') t) (K pre (p ++ x :: a') s) = !b) := by
  obtain ⟨b, h1, h2⟩ := (tok_div hx hy hne).lt_indep
  refine ⟨b, fun a' m' s t => ?_, fun a' m' s t => ?_⟩
  · rw [K_append, K_append, bytesLt_append_left, pack_cons, pack_cons, List.append_assoc,
      List.append_assoc]
    exact h1 _ _
  · rw [K_append, K_append, bytesLt_append_left, pack_cons, pack_cons, List.append_assoc,
      List.append_assoc]
    exact h2 _ _

/-- (O3, sandwich) a key between a key of `a` and a key of a descendant-or-self `n` of `a`
belongs to a descendant-or-self of `a` -/
theorem key_sandwich (pre : Bytes) {a n m : List Bytes} (hn : NameOK n) (hm : NameOK m)
    (han : a <+: n) {l l' l'' : Bytes}
    (h1 : bytesLe (K pre a l') (K pre m l'') = true)
    (h2 : bytesLe (K pre m l'') (K pre n l) = true) : a <+: m := by
  rcases name_cases a m with h | ⟨x, t, h⟩ | ⟨p, x, y, a', m', ha, hm', hxy⟩
  · exact h
  · -- `m` a proper ancestor of `a`: its keys are below those of `a`
    exfalso
    have hx : LabelOK x := by
      have : NameOK a := hn.prefix han
      rw [h] at this
      exact this.of_append_right.head
    have := key_lt_of_proper_prefix pre m x t hx l' l''
    rw [← h] at this
    rw [bytesLe_iff.1 h1] at this; cases this
  · exfalso
    obtain ⟨t, rfl⟩ := han
    have hx : LabelOK x := by
      have : NameOK a := hn.of_append_left
      rw [ha] at this
      exact this.of_append_right.head
    have hy : LabelOK y := by
      rw [hm'] at hm
      exact hm.of_append_right.head
    obtain ⟨b, hb1, hb2⟩ := key_div pre p hx hy hxy
    have e1 := hb2 a' m' l' l''
    rw [← ha, ← hm', bytesLe_iff.1 h1] at e1
    have e2 := hb1 (a' ++ t) m' l l''
    have hn' : p ++ x :: (a' ++ t) = a ++ t := by rw [ha]; simp
    rw [hn', ← hm', bytesLe_iff.1 h2] at e2
    rw [← e2] at e1; cases e1

/-! ### longest common label prefix -/

def lcp : List Bytes → List Bytes → List Bytes
  | x :: a, y :: b => if x = y then x :: lcp a b else []
  | _, _ => []

theorem lcp_cons_same (x : Bytes) (a b : List Bytes) : lcp (x :: a) (x :: b) = x :: lcp a b := by
  simp [lcp]

theorem lcp_cons_ne {x y : Bytes} (h : x ≠ y) (a b : List Bytes) : lcp (x :: a) (y :: b) = [] := by
  simp [lcp, h]

theorem lcp_spec : ∀ (n m : List Bytes), ∃ n' m', n = lcp n m ++ n' ∧ m = lcp n m ++ m' ∧
    (n' = [] ∨ m' = [] ∨ ∃ x y n'' m'', n' = x :: n'' ∧ m' = y :: m'' ∧ x ≠ y)
  | [], m => ⟨[], m, by simp [lcp]⟩
  | x :: a, [] => ⟨x :: a, [], by simp [lcp]⟩
  | x :: a, y :: b => by
    by_cases hxy : x = y
    · subst hxy
      obtain ⟨n', m', h1, h2, h3⟩ := lcp_spec a b
      refine ⟨n', m', ?_, ?_, h3⟩
      · rw [lcp_cons_same]; exact congrArg _ h1
      · rw [lcp_cons_same]; exact congrArg _ h2
    · refine ⟨x :: a, y :: b, ?_, ?_, Or.inr (Or.inr ⟨x, y, a, b, rfl, rfl, hxy⟩)⟩
      · simp [lcp, if_neg hxy]
      · simp [lcp, if_neg hxy]

theorem lcp_prefix_left (n m : List Bytes) : lcp n m <+: n := by
  obtain ⟨n', _, h, _, _⟩ := lcp_spec n m; exact ⟨n', h.symm⟩

theorem lcp_prefix_right (n m : List Bytes) : lcp n m <+: m := by
  obtain ⟨_, m', _, h, _⟩ := lcp_spec n m; exact ⟨m', h.symm⟩

theorem prefix_lcp : ∀ {p n m : List Bytes}, p <+: n → p <+: m → p <+: lcp n m
  | [], _, _, _, _ => List.nil_prefix
  | z :: p, [], _, h, _ => by simp at h
  | z :: p, _ :: _, [], _, h => by simp at h
  | z :: p, x :: a, y :: b, h1, h2 => by
    rw [List.cons_prefix_cons] at h1 h2
    obtain ⟨rfl, h1⟩ := h1
    obtain ⟨rfl, h2⟩ := h2
    rw [lcp_cons_same, List.cons_prefix_cons]
    exact ⟨rfl, prefix_lcp h1 h2⟩

theorem lcp_self (n : List Bytes) : lcp n n = n := by
  induction n with
  | nil => rfl
  | cons x a ih => simp [lcp, ih]

theorem lcp_eq_left_iff {n m : List Bytes} : lcp n m = n ↔ n <+: m := by
  constructor
  · intro h; rw [← h]; exact lcp_prefix_right n m
  · intro h
    have h1 : n <+: lcp n m := prefix_lcp (List.prefix_refl n) h
    have h2 := lcp_prefix_left n m
    exact List.IsPrefix.eq_of_length_le h2 h1.length_le

/-- two prefixes of one list are comparable -/
theorem prefix_total {a b n : List Bytes} (ha : a <+: n) (hb : b <+: n) : a <+: b ∨ b <+: a := by
  rcases Nat.le_total a.length b.length with h | h
  · exact Or.inl (List.prefix_of_prefix_length_le ha hb h)
  · exact Or.inr (List.prefix_of_prefix_length_le hb ha h)

theorem proper_prefix_of {a n : List Bytes} (h : a <+: n) (hne : a ≠ n) : ∃ x t, n = a ++ x :: t := by
  obtain ⟨t, rfl⟩ := h
  cases t with
  | nil => simp at hne
  | cons x t => exact ⟨x, t, rfl⟩

/-! ### (O4) `findCommonLongestPrefix` and `getLengthWithoutLastLabel` -/

theorem getElem?_append_at (A : Bytes) (x : UInt8) (R : Bytes) : (A ++ x :: R)[A.length]? = some x := by
  rw [List.getElem?_append_right (Nat.le_refl _)]; simp

theorem getElem?_at_end (A : Bytes) : A[A.length]? = none := by simp

theorem labelMatch_spec : ∀ (x y A B R1 R2 : Bytes), A.length = B.length → x.length = y.length →
    Loc.labelMatch (A ++ x ++ R1) (B ++ y ++ R2) A.length x.length = some (decide (x = y))
  | [], [], A, B, R1, R2, _, _ => by simp [Loc.labelMatch]
  | [], _ :: _, _, _, _, _, _, h => by simp at h
  | _ :: _, [], _, _, _, _, _, h => by simp at h
  | a :: x, b :: y, A, B, R1, R2, hAB, hxy => by
    have hxy' : x.length = y.length := by simpa using hxy
    simp only [List.length_cons, Loc.labelMatch]
    have e1 : (A ++ a :: x ++ R1)[A.length]? = some a := by
      rw [List.append_assoc]; exact getElem?_append_at A a (x ++ R1)
    have e2 : (B ++ b :: y ++ R2)[A.length]? = some b := by
      rw [hAB, List.append_assoc]; exact getElem?_append_at B b (y ++ R2)
    rw [e1, e2]
    by_cases hab : a = b
    · subst hab
      simp only [ne_eq, not_true_eq_false, if_false]
      have := labelMatch_spec x y (A ++ [a]) (B ++ [a]) R1 R2 (by simp [hAB]) hxy'
      simp only [List.length_append, List.length_cons, List.length_nil, List.append_assoc,
        List.cons_append, List.nil_append] at this
      simp only [List.append_assoc, List.cons_append]
      rw [this]
      simp
    · simp [hab]

theorem commonPrefix_ne {s1 s2 : Bytes} {i : Nat} {a b : UInt8} (f : Nat) (h1 : s1[i]? = some a)
    (h2 : s2[i]? = some b) (hab : a ≠ b) : Loc.commonPrefix s1 s2 (f + 1) i = some i := by
  simp only [Loc.commonPrefix, h1, h2]; rw [if_pos hab]

theorem commonPrefix_match {s1 s2 : Bytes} {i : Nat} {a : UInt8} (f : Nat) (h1 : s1[i]? = some a)
    (h2 : s2[i]? = some a) (hm : Loc.labelMatch s1 s2 (i + 1) a.toNat = some true) :
    Loc.commonPrefix s1 s2 (f + 1) i = Loc.commonPrefix s1 s2 f (i + a.toNat + 1) := by
  simp only [Loc.commonPrefix, h1, h2, hm]; rw [if_neg (by simp)]

theorem commonPrefix_mismatch {s1 s2 : Bytes} {i : Nat} {a : UInt8} (f : Nat) (h1 : s1[i]? = some a)
    (h2 : s2[i]? = some a) (hm : Loc.labelMatch s1 s2 (i + 1) a.toNat = some false) :
    Loc.commonPrefix s1 s2 (f + 1) i = some i := by
  simp only [Loc.commonPrefix, h1, h2, hm]; rw [if_neg (by simp)]

theorem commonPrefix_end {s1 s2 : Bytes} {i : Nat} (f : Nat) (h1 : s1[i]? = none) :
    Loc.commonPrefix s1 s2 f i = some i := by
  cases f with
  | zero => rfl
  | succ f => simp only [Loc.commonPrefix, h1]

theorem ofNat_len_ne_zero {x : Bytes} (hx : LabelOK x) : UInt8.ofNat x.length ≠ 0 := by
  intro e; have := congrArg UInt8.toNat e; rw [hx.toNat] at this
  have h0 := hx.1
  have h2 : (0 : UInt8).toNat = 0 := rfl
  omega

/-- (O4a) `commonPrefix` on two packed names, started at the beginning of a label in both:
the byte length of the common label prefix; the whole length (zero included) when they are equal -/
theorem commonPrefix_spec : ∀ (n m : List Bytes) (A B : Bytes) (fuel : Nat), NameOK n → NameOK m →
    A.length = B.length → n.length + 2 ≤ fuel →
    Loc.commonPrefix (A ++ pack n) (B ++ pack m) fuel A.length =
      some (A.length + if n = m then (pack n).length else (flat (lcp n m)).length)
  | [], [], A, B, fuel, _, _, hAB, hf => by
    obtain ⟨f, rfl⟩ : ∃ f, fuel = f + 1 := ⟨fuel - 1, by simp at hf; omega⟩
    have h1 : (A ++ pack [])[A.length]? = some 0 := getElem?_append_at A 0 []
    have h2 : (B ++ pack [])[A.length]? = some 0 := by rw [hAB]; exact getElem?_append_at B 0 []
    rw [commonPrefix_match f h1 h2 (by simp [Loc.labelMatch])]
    rw [commonPrefix_end]
    · simp [pack_nil]
    · simp [pack_nil]
  | [], y :: m, A, B, fuel, _, hm, hAB, hf => by
    obtain ⟨f, rfl⟩ : ∃ f, fuel = f + 1 := ⟨fuel - 1, by simp at hf; omega⟩
    have h1 : (A ++ pack [])[A.length]? = some 0 := getElem?_append_at A 0 []
    have h2 : (B ++ pack (y :: m))[A.length]? = some (UInt8.ofNat y.length) := by
      rw [hAB, pack_cons]; exact getElem?_append_at B _ _
    rw [commonPrefix_ne f h1 h2 (fun e => ofNat_len_ne_zero hm.head e.symm)]
    simp [lcp]
  | x :: n, [], A, B, fuel, hn, _, hAB, hf => by
    obtain ⟨f, rfl⟩ : ∃ f, fuel = f + 1 := ⟨fuel - 1, by simp at hf; omega⟩
    have h1 : (A ++ pack (x :: n))[A.length]? = some (UInt8.ofNat x.length) := by
      rw [pack_cons]; exact getElem?_append_at A _ _
    have h2 : (B ++ pack [])[A.length]? = some 0 := by rw [hAB]; exact getElem?_append_at B 0 []
    rw [commonPrefix_ne f h1 h2 (ofNat_len_ne_zero hn.head)]
    simp [lcp]
  | x :: n, y :: m, A, B, fuel, hn, hm, hAB, hf => by
    obtain ⟨f, rfl⟩ : ∃ f, fuel = f + 1 := ⟨fuel - 1, by simp at hf; omega⟩
    have hx := hn.head
    have hy := hm.head
    have h1 : (A ++ pack (x :: n))[A.length]? = some (UInt8.ofNat x.length) := by
      rw [pack_cons]; exact getElem?_append_at A _ _
    have h2 : (B ++ pack (y :: m))[A.length]? = some (UInt8.ofNat y.length) := by
      rw [hAB, pack_cons]; exact getElem?_append_at B _ _
    by_cases hl : x.length = y.length
    · have hm1 := labelMatch_spec x y (A ++ [UInt8.ofNat x.length]) (B ++ [UInt8.ofNat y.length])
        (pack n) (pack m) (by simp [hAB]) hl
      have e1 : A ++ [UInt8.ofNat x.length] ++ x ++ pack n = A ++ pack (x :: n) := by
        rw [pack_cons]; simp [tok]
      have e2 : B ++ [UInt8.ofNat y.length] ++ y ++ pack m = B ++ pack (y :: m) := by
        rw [pack_cons]; simp [tok]
      rw [e1, e2] at hm1
      simp only [List.length_append, List.length_cons, List.length_nil, Nat.zero_add] at hm1
      rw [← hl] at h2
      by_cases hxy : x = y
      · subst hxy
        rw [commonPrefix_match f h1 h2 (by rw [hx.toNat, hm1]; simp)]
        have ih := commonPrefix_spec n m (A ++ tok x) (B ++ tok x) f hn.tail hm.tail
          (by simp [hAB]) (by simp at hf ⊢; omega)
        have e3 : A ++ tok x ++ pack n = A ++ pack (x :: n) := by rw [pack_cons]; simp
        have e4 : B ++ tok x ++ pack m = B ++ pack (x :: m) := by rw [pack_cons]; simp
        rw [e3, e4] at ih
        have e5 : (A ++ tok x).length = A.length + (UInt8.ofNat x.length).toNat + 1 := by
          rw [hx.toNat]; simp [tok]; omega
        rw [e5] at ih
        rw [ih]
        have e6 : lcp (x :: n) (x :: m) = x :: lcp n m := by simp [lcp]
        rw [e6, flat_cons, pack_cons, hx.toNat]
        by_cases hnm : n = m
        · simp [hnm, tok]; omega
        · simp [hnm, tok]; omega
      · rw [commonPrefix_mismatch f h1 h2 (by rw [hx.toNat, hm1]; simp [hxy])]
        simp [lcp, hxy]
    · have hlen : UInt8.ofNat x.length ≠ UInt8.ofNat y.length := by
        intro e; have := congrArg UInt8.toNat e; rw [hx.toNat, hy.toNat] at this; exact hl this
      rw [commonPrefix_ne f h1 h2 hlen]
      have hxy : x ≠ y := fun e => hl (by rw [e])
      simp [lcp, hxy]

theorem lwl_step {q : Bytes} {qLength i : Nat} {n : UInt8} (f last : Nat)
    (hi : i < (qLength % 256 + 255) % 256) (hq : q[i]? = some n) :
    Loc.lengthWithoutLastLabel q qLength (f + 1) i last =
      Loc.lengthWithoutLastLabel q qLength f ((i + n.toNat + 1) % 256) i := by
  simp only [Loc.lengthWithoutLastLabel]; rw [if_pos hi, hq]

theorem lwl_stop {q : Bytes} {qLength i : Nat} (f last : Nat)
    (hi : ¬ i < (qLength % 256 + 255) % 256) :
    Loc.lengthWithoutLastLabel q qLength f i last = some (last + 1) := by
  cases f with
  | zero => rfl
  | succ f => simp only [Loc.lengthWithoutLastLabel]; rw [if_neg hi]

theorem length_le_flat_length : ∀ (c : List Bytes), c.length ≤ (flat c).length
  | [] => Nat.le_refl _
  | x :: c => by
    have := length_le_flat_length c
    rw [flat_cons, List.length_append, tok_length, List.length_cons]; omega

theorem lwl_spec : ∀ (e d : List Bytes) (R : Bytes) (fuel last : Nat), NameOK e →
    (flat (d ++ e)).length ≤ 255 → e.length < fuel →
    Loc.lengthWithoutLastLabel (flat d ++ flat e ++ R) ((flat (d ++ e)).length + 1) fuel
        (flat d).length last =
      some ((match e with | [] => last | _ :: _ => (flat (d ++ e.dropLast)).length) + 1)
  | [], d, R, fuel, last, _, hB, _ => by
    rw [lwl_stop]
    simp only [List.append_nil]
    omega
  | x :: e, d, R, fuel, last, he, hB, hf => by
    obtain ⟨f, rfl⟩ : ∃ f, fuel = f + 1 := ⟨fuel - 1, by simp at hf; omega⟩
    have hx := he.head
    have hlen : (flat (d ++ x :: e)).length = (flat d).length + (x.length + 1) + (flat e).length := by
      rw [flat_append, flat_cons]; simp [tok_length]; omega
    have hi : (flat d).length < (((flat (d ++ x :: e)).length + 1) % 256 + 255) % 256 := by omega
    have hq : (flat d ++ flat (x :: e) ++ R)[(flat d).length]? = some (UInt8.ofNat x.length) := by
      rw [flat_cons, List.append_assoc]
      exact getElem?_append_at (flat d) _ _
    rw [lwl_step f last hi hq, hx.toNat]
    have e1 : flat d ++ flat (x :: e) ++ R = flat (d ++ [x]) ++ flat e ++ R := by
      rw [flat_append, flat_cons, flat_cons]; simp
    have e2 : ((flat d).length + x.length + 1) % 256 = (flat (d ++ [x])).length := by
      rw [flat_append, flat_cons]; simp [tok_length]; omega
    have e3 : d ++ x :: e = (d ++ [x]) ++ e := by simp
    rw [e1, e2, e3]
    rw [lwl_spec e (d ++ [x]) R f (flat d).length he.tail (by rw [← e3]; exact hB)
      (by simp at hf; omega)]
    cases e with
    | nil => simp
    | cons y e => simp

/-- (O4b) `getLengthWithoutLastLabel` on the reversed query at the length of a non-root prefix `c`
returns the length of the parent's packed form -/
theorem lwl_prefix {c t : List Bytes} (hc : NameOK c) (hne : c ≠ []) (hlen : (pack c).length ≤ 256) :
    Loc.lengthWithoutLastLabel (pack (c ++ t)) (pack c).length 256 0 0 =
      some (pack c.dropLast).length := by
  have h := lwl_spec c [] (pack t) 256 0 hc (by rw [pack_length] at hlen; simpa using hlen)
    (by have := length_le_flat_length c; rw [pack_length] at hlen; omega)
  simp only [flat_nil, List.nil_append, List.length_nil] at h
  rw [pack_append, pack_length, h]
  cases c with
  | nil => exact absurd rfl hne
  | cons x c => simp [pack_length]

/-! ### `SeekForPrev` -/

/-- one step of the fold in `Store.seekForPrev` -/
def seekStep (k : Bytes) (best : Option (Bytes × List Bytes)) (e : Bytes × List Bytes) :
    Option (Bytes × List Bytes) :=
  if bytesLe e.1 k then
    match best with
    | none => some e
    | some b => if bytesLt b.1 e.1 then some e else some b
  else best

theorem seekForPrev_eq (s : Store) (k : Bytes) : s.seekForPrev k = s.foldl (seekStep k) none := rfl

theorem seekStep_cases (k : Bytes) (best : Option (Bytes × List Bytes)) (e : Bytes × List Bytes) :
    (seekStep k best e = best ∧ (bytesLe e.1 k = false ∨ ∃ b, best = some b ∧ bytesLt b.1 e.1 = false)) ∨
    (seekStep k best e = some e ∧ bytesLe e.1 k = true ∧ ∀ b, best = some b → bytesLt b.1 e.1 = true) := by
  unfold seekStep
  by_cases hle : bytesLe e.1 k = true
  · rw [if_pos hle]
    cases best with
    | none => exact Or.inr ⟨rfl, hle, fun b hb => by cases hb⟩
    | some b =>
      by_cases hlt : bytesLt b.1 e.1 = true
      · dsimp only; rw [if_pos hlt]
        exact Or.inr ⟨rfl, hle, fun b' hb' => by cases hb'; exact hlt⟩
      · have hlt' : bytesLt b.1 e.1 = false := by simpa using hlt
        dsimp only; rw [if_neg hlt]
        exact Or.inl ⟨rfl, Or.inr ⟨b, rfl, hlt'⟩⟩
  · have hle' : bytesLe e.1 k = false := by simpa using hle
    rw [if_neg hle]
    exact Or.inl ⟨rfl, Or.inl hle'⟩

theorem foldl_seek_none (k : Bytes) : ∀ (s : Store) (init : Option (Bytes × List Bytes)),
    s.foldl (seekStep k) init = none ↔ init = none ∧ ∀ e ∈ s, bytesLe e.1 k = false
  | [], init => by simp
  | e :: s, init => by
    rw [List.foldl_cons, foldl_seek_none k s]
    rcases seekStep_cases k init e with ⟨h, hc⟩ | ⟨h, hle, _⟩
    · rw [h]
      constructor
      · rintro ⟨hi, hs⟩
        refine ⟨hi, fun e' he' => ?_⟩
        rcases List.mem_cons.1 he' with rfl | he'
        · rcases hc with hc | ⟨b, hb, _⟩
          · exact hc
          · rw [hi] at hb; cases hb
        · exact hs e' he'
      · rintro ⟨hi, hs⟩
        exact ⟨hi, fun e' he' => hs e' (List.mem_cons_of_mem _ he')⟩
    · rw [h]
      constructor
      · rintro ⟨hi, _⟩; cases hi
      · rintro ⟨_, hs⟩
        have := hs e (List.mem_cons_self ..)
        rw [hle] at this; cases this

/-- the result is the initial candidate or the first entry of the list with its key -/
theorem foldl_seek_first (k : Bytes) : ∀ (s : Store) (init : Option (Bytes × List Bytes)) (r : Bytes × List Bytes),
    s.foldl (seekStep k) init = some r →
    init = some r ∨ (s.find? (·.1 = r.1) = some r ∧ bytesLe r.1 k = true ∧
      ∀ b, init = some b → bytesLt b.1 r.1 = true)
  | [], init, r, h => Or.inl h
  | e :: s, init, r, h => by
    rw [List.foldl_cons] at h
    rcases foldl_seek_first k s _ r h with hr | ⟨hfind, hle, hlt⟩
    · rcases seekStep_cases k init e with ⟨h1, _⟩ | ⟨h1, hle1, hlt1⟩
      · rw [h1] at hr; exact Or.inl hr
      · rw [h1] at hr; cases hr
        exact Or.inr ⟨by simp, hle1, hlt1⟩
    · right
      have hne : e.1 ≠ r.1 := by
        intro heq
        rcases seekStep_cases k init e with ⟨h1, hc⟩ | ⟨h1, _, _⟩
        · rcases hc with hc | ⟨b, hb, hbe⟩
          · rw [heq, hle] at hc; cases hc
          · have := hlt b (by rw [h1]; exact hb)
            rw [← heq, hbe] at this; cases this
        · have := hlt e h1
          rw [heq, bytesLt_irrefl] at this; cases this
      refine ⟨?_, hle, fun b hb => ?_⟩
      · rw [List.find?_cons_of_neg (by simpa using hne)]; exact hfind
      · rcases seekStep_cases k init e with ⟨h1, _⟩ | ⟨h1, _, hlt1⟩
        · exact hlt b (by rw [h1]; exact hb)
        · exact bytesLt_trans (hlt1 b hb) (hlt e h1)

/-- the result dominates the initial candidate and every admissible entry -/
theorem foldl_seek_max (k : Bytes) : ∀ (s : Store) (init : Option (Bytes × List Bytes)) (r : Bytes × List Bytes),
    s.foldl (seekStep k) init = some r →
    (∀ b, init = some b → bytesLe b.1 r.1 = true) ∧
    (∀ e ∈ s, bytesLe e.1 k = true → bytesLe e.1 r.1 = true)
  | [], init, r, h => by
    simp only [List.foldl_nil] at h
    exact ⟨fun b hb => by rw [h] at hb; cases hb; exact bytesLe_refl _, fun e he => by simp at he⟩
  | e :: s, init, r, h => by
    rw [List.foldl_cons] at h
    obtain ⟨h1, h2⟩ := foldl_seek_max k s _ r h
    rcases seekStep_cases k init e with ⟨hs, hc⟩ | ⟨hs, hle, hlt⟩
    · rw [hs] at h1
      refine ⟨h1, fun e' he' hle' => ?_⟩
      rcases List.mem_cons.1 he' with rfl | he'
      · rcases hc with hc | ⟨b, hb, hbe⟩
        · rw [hc] at hle'; cases hle'
        · exact bytesLe_trans (bytesLe_iff.2 hbe) (h1 b hb)
      · exact h2 e' he' hle'
    · rw [hs] at h1
      have her := h1 e rfl
      refine ⟨fun b hb => bytesLe_trans (bytesLe_of_lt (hlt b hb)) her, fun e' he' hle' => ?_⟩
      rcases List.mem_cons.1 he' with rfl | he'
      · exact her
      · exact h2 e' he' hle'

theorem get_of_find {s : Store} {r : Bytes × List Bytes} (h : s.find? (·.1 = r.1) = some r) :
    s.get r.1 = r.2 := by
  unfold Store.get; rw [h]

theorem seekForPrev_none {s : Store} {k : Bytes} :
    s.seekForPrev k = none ↔ ∀ e ∈ s, bytesLe e.1 k = false := by
  rw [seekForPrev_eq, foldl_seek_none]; simp

/-- `SeekForPrev` returns the greatest key `≤ k`, with that key's values -/
theorem seekForPrev_some {s : Store} {k : Bytes} {r : Bytes × List Bytes} (h : s.seekForPrev k = some r) :
    r ∈ s ∧ bytesLe r.1 k = true ∧ s.get r.1 = r.2 ∧
    ∀ e ∈ s, bytesLe e.1 k = true → bytesLe e.1 r.1 = true := by
  rw [seekForPrev_eq] at h
  rcases foldl_seek_first k s none r h with h0 | ⟨hfind, hle, _⟩
  · cases h0
  · exact ⟨List.mem_of_find?_eq_some hfind, hle, get_of_find hfind, (foldl_seek_max k s none r h).2⟩

theorem get_ne_nil_mem {s : Store} {k : Bytes} (h : s.get k ≠ []) : ∃ e ∈ s, e.1 = k := by
  unfold Store.get at h
  cases hf : s.find? (·.1 = k) with
  | none => rw [hf] at h; exact absurd rfl h
  | some e =>
    refine ⟨e, List.mem_of_find?_eq_some hf, ?_⟩
    have := List.find?_some hf
    simpa using this

/-- a key that is present is found by seeking it -/
theorem seekForPrev_of_mem {s : Store} {k : Bytes} (h : ∃ e ∈ s, e.1 = k) :
    ∃ vals, s.seekForPrev k = some (k, vals) ∧ s.get k = vals := by
  obtain ⟨e, he, hek⟩ := h
  cases hs : s.seekForPrev k with
  | none =>
    have := seekForPrev_none.1 hs e he
    rw [hek, bytesLe_refl] at this; cases this
  | some r =>
    obtain ⟨_, hle, hget, hmax⟩ := seekForPrev_some hs
    have h1 := hmax e he (by rw [hek]; exact bytesLe_refl _)
    rw [hek] at h1
    have : r.1 = k := bytesLe_antisymm hle h1
    refine ⟨r.2, ?_, by rw [← this]; exact hget⟩
    rw [← this]

/-- a key that is absent is not what seeking it returns -/
theorem seekForPrev_key_mem {s : Store} {k : Bytes} {r : Bytes × List Bytes}
    (h : s.seekForPrev k = some r) : ∃ e ∈ s, e.1 = r.1 :=
  ⟨r, (seekForPrev_some h).1, rfl⟩

theorem get_eq_nil_of_not_mem {s : Store} {k : Bytes} (h : ∀ e ∈ s, e.1 ≠ k) : s.get k = [] := by
  unfold Store.get
  have : s.find? (·.1 = k) = none := by
    rw [List.find?_eq_none]; intro e he; simpa using h e he
  rw [this]

/-- keys with a common prefix form an interval of the byte order -/
theorem prefix_convex : ∀ (P x z y : Bytes), bytesLe (P ++ x) y = true → bytesLe y (P ++ z) = true →
    ∃ w, y = P ++ w
  | [], _, _, y, _, _ => ⟨y, rfl⟩
  | a :: P, x, z, [], h1, _ => by
    rw [bytesLe_iff] at h1; simp [bytesLt] at h1
  | a :: P, x, z, b :: y, h1, h2 => by
    rw [bytesLe_iff] at h1 h2
    simp only [List.cons_append, bytesLt] at h1 h2
    by_cases hba : b.toNat < a.toNat
    · rw [if_pos hba] at h1; cases h1
    · by_cases hab : a.toNat < b.toNat
      · rw [if_pos hab] at h2; cases h2
      · rw [if_neg hba, if_neg hab] at h1
        rw [if_neg hab, if_neg hba] at h2
        have : a = b := UInt8.toNat_inj.1 (by omega)
        subst this
        obtain ⟨w, hw⟩ := prefix_convex P x z y (bytesLe_iff.2 h1) (bytesLe_iff.2 h2)
        exact ⟨w, by rw [hw]; rfl⟩

theorem take_prefix_of_length {P w : Bytes} {j : Nat} (h : P.length = j) : (P ++ w).take j = P := by
  rw [← h]; simp

/-! ### name → map: the two layouts -/

/-- the last byte of a map key: `*` for a wildcard map, `=` for an exact one -/
def sfx (w : Bool) : UInt8 := if w then 0x2a else 0x3d

/-- map declarations: owner (labels, in query order) → wildcard? → map id -/
abbrev Maps := List Bytes → Bool → Option Bytes

/-- the v1 store holds exactly the declared maps under `mtype` (other keys are arbitrary) -/
def RepMapsV1 (s : Store) (mtype : Bytes) (maps : Maps) : Prop :=
  ∀ z w, NameOK z → Loc.first s (mtype ++ pack z ++ [sfx w]) = maps z w

/-- the v2 store: every key that starts with `mtype` is a map key of a well-formed owner holding a
single value, and the declared maps are exactly these; keys that do not start with `mtype`
(resource records, the other map type, range points, features) are arbitrary -/
structure RepMapsV2 (s : Store) (mtype : Bytes) (maps : Maps) : Prop where
  keys : ∀ e ∈ s, e.1.take 2 = mtype →
    ∃ z w v, NameOK z ∧ e.1 = K mtype (List.reverse z) [sfx w] ∧ e.2 = [v]
  get : ∀ z w, NameOK z → s.get (K mtype (List.reverse z) [sfx w]) = (maps z w).toList

/-- wildcard maps from `z` upwards -/
def wildUp (maps : Maps) : List Bytes → Option Bytes
  | [] => maps [] true
  | x :: z => match maps (x :: z) true with
    | some v => some v
    | none => wildUp maps z

/-- the label-by-label search, on declarations -/
def mapSpec (maps : Maps) (ql : List Bytes) : Option Bytes :=
  match maps ql false with
  | some v => some v
  | none => match ql with
    | [] => none
    | _ :: z => wildUp maps z

theorem drop_tok_pack (x : Bytes) (hx : LabelOK x) (R : Bytes) :
    (x ++ R).drop (UInt8.ofNat x.length).toNat = R := by
  rw [hx.toNat]; simp

theorem take_tok_pack (x : Bytes) (hx : LabelOK x) (R : Bytes) :
    (x ++ R).take (UInt8.ofNat x.length).toNat = x := by
  rw [hx.toNat]; simp

theorem mapKeys_wild {s : Store} {mtype : Bytes} {maps : Maps} (hrep : RepMapsV1 s mtype maps) :
    ∀ (z : List Bytes) (fuel : Nat), NameOK z → z.length < fuel →
      (Loc.mapKeys mtype fuel (pack z) false).findSome? (Loc.first s) = wildUp maps z
  | [], fuel, hz, hf => by
    obtain ⟨f, rfl⟩ : ∃ f, fuel = f + 1 := ⟨fuel - 1, by simp at hf; omega⟩
    have := hrep [] true hz
    simp only [sfx, if_true] at this
    simp only [Loc.mapKeys, pack_nil, wildUp, List.findSome?_cons, if_true, List.findSome?_nil,
      Bool.false_eq_true, if_false]
    rw [pack_nil] at this
    rw [this]
    cases maps [] true <;> rfl
  | x :: z, fuel, hz, hf => by
    obtain ⟨f, rfl⟩ : ∃ f, fuel = f + 1 := ⟨fuel - 1, by simp at hf; omega⟩
    have hx := hz.head
    have h1 := hrep (x :: z) true hz
    simp only [sfx, if_true] at h1
    have ih := mapKeys_wild hrep z f hz.tail (by simp at hf; omega)
    have e : pack (x :: z) = UInt8.ofNat x.length :: (x ++ pack z) := by rw [pack_cons]; rfl
    rw [e]
    simp only [Loc.mapKeys]
    rw [if_neg (ofNat_len_ne_zero hx), drop_tok_pack x hx, List.findSome?_cons, ← e]
    simp only [Bool.false_eq_true, if_false]
    rw [h1, ih]
    simp only [wildUp]
    cases maps (x :: z) true <;> rfl

theorem findMapV1_eq_spec {s : Store} {mtype : Bytes} {maps : Maps} (hrep : RepMapsV1 s mtype maps)
    (ql : List Bytes) (hq : NameOK ql) : Loc.findMapV1 s (pack ql) mtype = mapSpec maps ql := by
  unfold Loc.findMapV1
  have h0 := hrep ql false hq
  simp only [sfx, Bool.false_eq_true, if_false] at h0
  cases ql with
  | nil =>
    simp only [pack_nil, List.length_cons, List.length_nil, Loc.mapKeys, if_true]
    simp only [pack_nil] at h0
    simp only [List.findSome?_cons, List.findSome?_nil, mapSpec]
    rw [h0]
    cases maps [] false <;> rfl
  | cons x z =>
    have hx := hq.head
    have e : pack (x :: z) = UInt8.ofNat x.length :: (x ++ pack z) := by rw [pack_cons]; rfl
    have hlen : (pack (x :: z)).length + 1 = ((pack (x :: z)).length) + 1 := rfl
    rw [e]
    simp only [Loc.mapKeys]
    rw [if_neg (ofNat_len_ne_zero hx), drop_tok_pack x hx, List.findSome?_cons, ← e]
    simp only [if_true]
    rw [h0, mapKeys_wild hrep z _ hq.tail (by
      have := length_le_flat_length z
      rw [e, List.length_cons, List.length_append, pack_length]; omega)]
    simp only [mapSpec]
    cases maps (x :: z) false <;> rfl

theorem sfx_cases (w : Bool) : sfx w = 0x2a ∨ sfx w = 0x3d := by cases w <;> simp [sfx]

theorem unpack_pack : ∀ (ql : List Bytes) (fuel : Nat), NameOK ql → ql.length < fuel →
    labels fuel (pack ql) = some ql
  | [], fuel, _, hf => by
    obtain ⟨f, rfl⟩ : ∃ f, fuel = f + 1 := ⟨fuel - 1, by simp at hf; omega⟩
    simp [labels, pack_nil]
  | x :: z, fuel, hq, hf => by
    obtain ⟨f, rfl⟩ : ∃ f, fuel = f + 1 := ⟨fuel - 1, by simp at hf; omega⟩
    have hx := hq.head
    have e : pack (x :: z) = UInt8.ofNat x.length :: (x ++ pack z) := by rw [pack_cons]; rfl
    rw [e]
    simp only [labels]
    rw [if_neg (ofNat_len_ne_zero hx), drop_tok_pack x hx, take_tok_pack x hx,
      unpack_pack z f hq.tail (by simp at hf; omega)]
    rw [if_neg (by rw [hx.toNat]; simp)]

theorem reverseWire_pack (ql : List Bytes) (hq : NameOK ql) :
    reverseWire (pack ql) = some (pack ql.reverse) := by
  unfold reverseWire unpack
  rw [unpack_pack ql _ hq (by have := length_le_flat_length ql; rw [pack_length]; omega)]
  rfl

section MapsV2
variable {s : Store} {mtype : Bytes} {maps : Maps}

theorem RepMapsV2.get_rev (hrep : RepMapsV2 s mtype maps) {a : List Bytes} (ha : NameOK a) (w : Bool) :
    s.get (K mtype a [sfx w]) = (maps a.reverse w).toList := by
  have := hrep.get a.reverse w ha.reverse
  rwa [List.reverse_reverse] at this

theorem RepMapsV2.absent (hrep : RepMapsV2 s mtype maps) {a : List Bytes} (ha : NameOK a) (w : Bool)
    (h : ∀ e ∈ s, e.1 ≠ K mtype a [sfx w]) : maps a.reverse w = none := by
  have h1 := hrep.get_rev ha w
  rw [get_eq_nil_of_not_mem h] at h1
  cases hm : maps a.reverse w with
  | none => rfl
  | some v => rw [hm] at h1; simp at h1

theorem RepMapsV2.present (hrep : RepMapsV2 s mtype maps) {a : List Bytes} (ha : NameOK a) (w : Bool)
    (h : maps a.reverse w ≠ none) : ∃ e ∈ s, e.1 = K mtype a [sfx w] := by
  apply get_ne_nil_mem
  rw [hrep.get_rev ha w]
  cases hm : maps a.reverse w with
  | none => exact absurd hm h
  | some v => simp

/-- what a seek at a key under `mtype` can return -/
theorem map_seek_cases (hrep : RepMapsV2 s mtype maps) (hmt : mtype.length = 2) (k : Bytes)
    (hk' : ∃ x, k = mtype ++ x) :
    -- nothing at or below: every declared map key `≤ k` is absent
    ((s.seekForPrev k = none ∨
        ∃ fk vals, s.seekForPrev k = some (fk, vals) ∧ fk ≠ k ∧ fk.take 2 ≠ mtype) ∧
      ∀ a w, NameOK a → bytesLe (K mtype a [sfx w]) k = true → maps a.reverse w = none) ∨
    -- the key itself
    (∃ vals, s.seekForPrev k = some (k, vals) ∧ (k, vals) ∈ s) ∨
    -- another map key, which is then above every present map key `≤ k`
    (∃ m w' vals, NameOK m ∧ s.seekForPrev k = some (K mtype m [sfx w'], vals) ∧
      K mtype m [sfx w'] ≠ k ∧ bytesLe (K mtype m [sfx w']) k = true ∧
      ∀ a w, NameOK a → bytesLe (K mtype a [sfx w]) k = true → maps a.reverse w ≠ none →
        bytesLe (K mtype a [sfx w]) (K mtype m [sfx w']) = true) := by
  cases hs : s.seekForPrev k with
  | none =>
    left
    refine ⟨Or.inl rfl, fun a w ha hle => hrep.absent ha w fun e he heq => ?_⟩
    have := seekForPrev_none.1 hs e he
    rw [heq, hle] at this; cases this
  | some r =>
    obtain ⟨hmem, hle, hget, hmax⟩ := seekForPrev_some hs
    by_cases hk : r.1 = k
    · right; left
      refine ⟨r.2, ?_, by rw [← hk]; exact hmem⟩
      rw [← hk]
    · by_cases hpre : r.1.take 2 = mtype
      · right; right
        obtain ⟨z, w', v, hz, hkey, _⟩ := hrep.keys r hmem hpre
        refine ⟨z.reverse, w', r.2, hz.reverse, ?_, by rw [← hkey]; exact hk, by rw [← hkey]; exact hle,
          fun a w ha hale hne => ?_⟩
        · rw [← hkey]
        · obtain ⟨e, he, heq⟩ := hrep.present ha w hne
          have := hmax e he (by rw [heq]; exact hale)
          rw [heq, hkey] at this; exact this
      · left
        refine ⟨Or.inr ⟨r.1, r.2, rfl, hk, hpre⟩, fun a w ha hale => ?_⟩
        cases hm : maps a.reverse w with
        | none => rfl
        | some v =>
          exfalso
          obtain ⟨e, he, heq⟩ := hrep.present ha w (by rw [hm]; simp)
          have h1 := hmax e he (by rw [heq]; exact hale)
          rw [heq] at h1
          have e1 : K mtype a [sfx w] = mtype ++ (pack a ++ [sfx w]) := by simp [K]
          rw [e1] at h1
          obtain ⟨x, rfl⟩ := hk'
          obtain ⟨w2, hw2⟩ := prefix_convex mtype _ _ _ h1 hle
          apply hpre
          rw [hw2]; exact take_prefix_of_length hmt

end MapsV2

theorem flat_length_le_of_prefix {a n : List Bytes} (h : a <+: n) : (flat a).length ≤ (flat n).length := by
  obtain ⟨t, rfl⟩ := h; rw [flat_append, List.length_append]; omega

theorem K_le_of_prefix (pre : Bytes) {a p : List Bytes} (hp : NameOK p) (h : a <+: p) {s1 s2 : Bytes}
    (hs : a = p → bytesLe s1 s2 = true) : bytesLe (K pre a s1) (K pre p s2) = true := by
  by_cases hap : a = p
  · subst hap; rw [key_le_same_name]; exact hs rfl
  · obtain ⟨x, t, rfl⟩ := proper_prefix_of h hap
    exact bytesLe_of_lt (key_lt_of_proper_prefix pre a x t hp.of_append_right.head _ _)

theorem K_lt_of_proper_prefix (pre : Bytes) {a p : List Bytes} (hp : NameOK p) (h : a <+: p) (hne : a ≠ p)
    (s1 s2 : Bytes) : bytesLt (K pre a s1) (K pre p s2) = true := by
  obtain ⟨x, t, rfl⟩ := proper_prefix_of h hne
  exact key_lt_of_proper_prefix pre a x t hp.of_append_right.head _ _

theorem prefix_antisymm' {a b : List Bytes} (h1 : a <+: b) (h2 : b <+: a) : a = b :=
  h1.eq_of_length (Nat.le_antisymm h1.length_le h2.length_le)

theorem prefix_dropLast_of_proper {a n : List Bytes} (h : a <+: n) (hne : a ≠ n) : a <+: n.dropLast := by
  have hl : a.length < n.length := by
    rcases Nat.lt_or_ge a.length n.length with h' | h'
    · exact h'
    · exact absurd (h.eq_of_length (Nat.le_antisymm h.length_le h')) hne
  exact List.prefix_of_prefix_length_le h (List.dropLast_prefix n) (by simp; omega)

theorem wildUp_hit {maps : Maps} {z : List Bytes} {v : Bytes} (h : maps z true = some v) :
    wildUp maps z = some v := by
  cases z with
  | nil => exact h
  | cons x z => simp only [wildUp]; rw [h]

theorem wildUp_skip {maps : Maps} : ∀ (t z : List Bytes),
    (∀ t1 t2, t = t1 ++ t2 → t2 ≠ [] → maps (t2 ++ z) true = none) → wildUp maps (t ++ z) = wildUp maps z
  | [], z, _ => rfl
  | x :: t, z, h => by
    have h1 := h [] (x :: t) rfl (by simp)
    simp only [List.cons_append] at h1 ⊢
    simp only [wildUp]; rw [h1]
    exact wildUp_skip t z fun t1 t2 ht hne => h (x :: t1) t2 (by rw [ht]; rfl) hne

/-- no wildcard map between `p'` and `q`: the upward search from `q` continues from `p'` -/
theorem wild_skip {maps : Maps} {q p' : List Bytes} (hp : p' <+: q)
    (h : ∀ a, a <+: q → maps a.reverse true ≠ none → a <+: p') :
    wildUp maps q.reverse = wildUp maps p'.reverse := by
  obtain ⟨u, rfl⟩ := hp
  rw [List.reverse_append]
  apply wildUp_skip
  intro t1 t2 ht hne
  cases hm : maps (t2 ++ p'.reverse) true with
  | none => rfl
  | some v =>
    exfalso
    have hu : u = t2.reverse ++ t1.reverse := by
      have := congrArg List.reverse ht; simpa using this
    have ha : (p' ++ t2.reverse) <+: (p' ++ u) := by
      rw [hu, ← List.append_assoc]; exact List.prefix_append _ _
    have := h (p' ++ t2.reverse) ha (by simp [hm])
    have hl := this.length_le
    simp at hl
    exact hne (List.eq_nil_of_length_eq_zero (by omega))

theorem wildUp_none {maps : Maps} : ∀ (z : List Bytes),
    (∀ t1 t2, z = t1 ++ t2 → maps t2 true = none) → wildUp maps z = none
  | [], h => h [] [] rfl
  | x :: z, h => by
    simp only [wildUp]; rw [h [] (x :: z) rfl]
    exact wildUp_none z fun t1 t2 ht => h (x :: t1) t2 (by rw [ht]; rfl)

theorem wild_none {maps : Maps} {q : List Bytes} (h : ∀ a, a <+: q → maps a.reverse true = none) :
    wildUp maps q.reverse = none := by
  apply wildUp_none
  intro t1 t2 ht
  have hq : q = t2.reverse ++ t1.reverse := by
    have := congrArg List.reverse ht; simpa using this
  have := h t2.reverse (by rw [hq]; exact List.prefix_append _ _)
  rwa [List.reverse_reverse] at this

theorem mapSpec_eq (maps : Maps) (ql : List Bytes) :
    mapSpec maps ql = match maps ql false with
      | some v => some v
      | none => if ql = [] then none else wildUp maps ql.tail := by
  unfold mapSpec
  cases maps ql false with
  | some v => rfl
  | none => cases ql <;> simp

section GoV2
variable {s : Store} {mtype : Bytes} {maps : Maps}

theorem go_stop {rev : Bytes} {cap f : Nat} {kBody : Bytes} {c : UInt8}
    (h : s.seekForPrev (kBody ++ [c]) = none ∨ ∃ fk vals, s.seekForPrev (kBody ++ [c]) = some (fk, vals) ∧
      fk ≠ kBody ++ [c] ∧ fk.take 2 ≠ mtype) :
    Loc.findMapSorted.go s mtype rev cap (f + 1) kBody c = .ok none := by
  rw [Loc.findMapSorted.go]
  rcases h with h | ⟨fk, vals, h, hne, hpre⟩
  · simp only [h]
  · simp only [h]; rw [if_neg hne, if_pos (Or.inr hpre)]

theorem go_hit {rev : Bytes} {cap f : Nat} {kBody : Bytes} {c : UInt8} {v : Bytes}
    (h : s.seekForPrev (kBody ++ [c]) = some (kBody ++ [c], [v])) :
    Loc.findMapSorted.go s mtype rev cap (f + 1) kBody c = .ok (some v) := by
  rw [Loc.findMapSorted.go]
  simp only [h]
  rw [if_pos trivial]
  have : Loc.rawValue [v] = le32 v.length ++ v := by simp [Loc.rawValue, appendValues]
  rw [this, if_neg (by simp [le32_length])]
  have : (le32 v.length ++ v).drop 4 = v := by
    rw [List.drop_append_of_le_length (by simp [le32_length])]; simp [le32]
  rw [this]

theorem mapkey_parts (hmt : mtype.length = 2) (m : List Bytes) (c' : UInt8) :
    ¬ ((K mtype m [c']).length < 2 ∨ (K mtype m [c']).take 2 ≠ mtype) ∧
    ((K mtype m [c']).drop 2).take ((K mtype m [c']).length - 3) = pack m := by
  have e : K mtype m [c'] = mtype ++ (pack m ++ [c']) := by simp [K]
  refine ⟨?_, ?_⟩
  · rw [e]
    intro h
    rcases h with h | h
    · simp [hmt] at h; omega
    · exact h (take_prefix_of_length hmt)
  · rw [e, ← hmt, List.drop_left]
    have : (mtype ++ (pack m ++ [c'])).length - 3 = (pack m).length := by simp [hmt]; omega
    rw [this]; simp

theorem go_after {rev : Bytes} {cap f : Nat} {kBody : Bytes} {c c' : UInt8} {m : List Bytes}
    {vals : List Bytes} {length0 length : Nat} (hmt : mtype.length = 2)
    (h : s.seekForPrev (kBody ++ [c]) = some (K mtype m [c'], vals))
    (hne : K mtype m [c'] ≠ kBody ++ [c])
    (hcp : Loc.commonPrefix rev (pack m) (rev.length + 1) 0 = some length0)
    (hlen : (if length0 = rev.length then (Loc.lengthWithoutLastLabel rev length0 256 0 0).map (· - 1)
      else some length0) = some length) :
    Loc.findMapSorted.go s mtype rev cap (f + 1) kBody c =
      if length = 0 ∧ kBody.length = 3 then .ok none
      else if 2 + length + 2 > cap then .panic
      else Loc.findMapSorted.go s mtype rev cap f (mtype ++ rev.take length ++ [0]) 0x2a := by
  rw [Loc.findMapSorted.go]
  simp only [h]
  obtain ⟨h1, h2⟩ := mapkey_parts hmt m c'
  rw [if_neg hne, if_neg h1, h2, hcp]
  simp only []
  rw [hlen]

theorem go_next {rev : Bytes} {cap f : Nat} {kBody : Bytes} {c c' : UInt8} {m : List Bytes}
    {vals : List Bytes} {length0 length : Nat} (hmt : mtype.length = 2)
    (h : s.seekForPrev (kBody ++ [c]) = some (K mtype m [c'], vals))
    (hne : K mtype m [c'] ≠ kBody ++ [c])
    (hcp : Loc.commonPrefix rev (pack m) (rev.length + 1) 0 = some length0)
    (hlen : (if length0 = rev.length then (Loc.lengthWithoutLastLabel rev length0 256 0 0).map (· - 1)
      else some length0) = some length)
    (h3 : ¬ (length = 0 ∧ kBody.length = 3)) (hcap : ¬ (2 + length + 2 > cap)) :
    Loc.findMapSorted.go s mtype rev cap (f + 1) kBody c =
      Loc.findMapSorted.go s mtype rev cap f (mtype ++ rev.take length ++ [0]) 0x2a := by
  rw [go_after hmt h hne hcp hlen, if_neg h3, if_neg hcap]

end GoV2

section MainV2
variable {s : Store} {mtype : Bytes} {maps : Maps}

theorem sfx_true : sfx true = 0x2a := rfl
theorem sfx_false : sfx false = 0x3d := rfl

/-- a present wildcard key at a prefix `a` of both `q` and `n`, below `k = K q [c]`, when the seek at
`k` found the key of `m`: then `a` is a prefix of `lcp n m` -/
theorem cand_prefix (hn : NameOK n) {q a m : List Bytes} (hq : q <+: n) (hm : NameOK m) (ha : a <+: q)
    {c : UInt8} {w' : Bool}
    (hle : bytesLe (K mtype m [sfx w']) (K mtype q [c]) = true)
    (hak : bytesLe (K mtype a [sfx true]) (K mtype q [c]) = true)
    (hmax : ∀ a w, NameOK a → bytesLe (K mtype a [sfx w]) (K mtype q [c]) = true → maps a.reverse w ≠ none →
        bytesLe (K mtype a [sfx w]) (K mtype m [sfx w']) = true)
    (hpres : maps a.reverse true ≠ none) : a <+: lcp n m := by
  have hqn : NameOK q := hn.prefix hq
  have h1 := hmax a true (hqn.prefix ha) hak hpres
  have h2 : a <+: m := key_sandwich mtype hqn hm ha h1 hle
  exact prefix_lcp (ha.trans hq) h2

theorem go_wild (hrep : RepMapsV2 s mtype maps) (hmt : mtype.length = 2) {n : List Bytes} (hn : NameOK n) :
    ∀ (fuel : Nat) (p : List Bytes), p <+: n → p ≠ n → p.length < fuel →
      Loc.findMapSorted.go s mtype (pack n) ((pack n).length + 3) fuel (mtype ++ pack p) 0x2a =
        .ok (wildUp maps p.reverse) := by
  intro fuel
  induction fuel with
  | zero => intro p _ _ h; simp at h
  | succ f ih =>
    intro p hp hpn hpf
    have hpo : NameOK p := hn.prefix hp
    have hk : mtype ++ pack p ++ [0x2a] = K mtype p [sfx true] := rfl
    rcases map_seek_cases hrep hmt (mtype ++ pack p ++ [0x2a]) ⟨pack p ++ [0x2a], by simp⟩ with
      ⟨hA, habs⟩ | ⟨vals, hB, hmem⟩ | ⟨m, w', vals, hm, hC, hne, hle, hmax⟩
    · rw [go_stop hA]
      rw [wild_none]
      intro a ha
      exact habs a true (hpo.prefix ha) (by rw [hk]; exact K_le_of_prefix mtype hpo ha fun _ => bytesLe_refl _)
    · obtain ⟨z, w, v, hz, _, hv⟩ := hrep.keys _ hmem (by
        show (mtype ++ pack p ++ [0x2a]).take 2 = mtype
        rw [List.append_assoc]; exact take_prefix_of_length hmt)
      simp only at hv
      subst hv
      rw [go_hit hB]
      have h1 := hrep.get_rev hpo true
      obtain ⟨vals', hs', hg'⟩ := seekForPrev_of_mem ⟨_, hmem, rfl⟩
      rw [hB] at hs'
      cases hs'
      rw [← hk, hg'] at h1
      cases hm : maps p.reverse true with
      | none => rw [hm] at h1; simp at h1
      | some v' =>
        rw [hm] at h1; simp at h1; subst h1
        rw [wildUp_hit hm]
    · rw [hk] at hC hne hle hmax
      -- `p` is not a prefix of `m`
      have hpm : ¬ p <+: m := by
        intro hpm
        by_cases he : p = m
        · subst he
          rw [key_le_same_name] at hle
          rcases sfx_cases w' with h | h
          · rw [h] at hne; exact hne rfl
          · rw [h] at hle; revert hle; decide
        · have := K_lt_of_proper_prefix mtype hm hpm he [sfx true] [sfx w']
          rw [bytesLe_iff.1 hle] at this; cases this
      have hmn : n ≠ m := fun e => hpm (e ▸ hp)
      have hp'p : lcp n m <+: p := by
        rcases prefix_total (lcp_prefix_left n m) hp with h | h
        · exact h
        · exact absurd (h.trans (lcp_prefix_right n m)) hpm
      have hp'ne : lcp n m ≠ p := fun e => hpm (e ▸ lcp_prefix_right n m)
      have hp'n : lcp n m <+: n := lcp_prefix_left n m
      obtain ⟨t, ht⟩ := hp'n
      have hcp := commonPrefix_spec n m [] [] ((pack n).length + 1) hn hm rfl
        (by have := length_le_flat_length n; rw [pack_length]; omega)
      simp only [List.nil_append, List.length_nil, Nat.zero_add] at hcp
      rw [if_neg hmn] at hcp
      have hfl : (flat (lcp n m)).length ≤ (flat n).length := flat_length_le_of_prefix (lcp_prefix_left n m)
      have hplen : 1 ≤ (flat p).length := by
        have h1 := length_le_flat_length p
        have h2 : (lcp n m).length < p.length := by
          rcases Nat.lt_or_ge (lcp n m).length p.length with h | h
          · exact h
          · exact absurd (hp'p.eq_of_length (Nat.le_antisymm hp'p.length_le h)) hp'ne
        omega
      rw [go_next (rev := pack n) (cap := (pack n).length + 3) (f := f) (kBody := mtype ++ pack p)
        (c := 0x2a) hmt hC hne hcp (length := (flat (lcp n m)).length)
        (by rw [if_neg (by rw [pack_length]; omega)])
        (by rw [List.length_append, hmt, pack_length]; omega)
        (by rw [pack_length]; omega)]
      have e1 : (pack n).take (flat (lcp n m)).length = flat (lcp n m) := by
        have : pack n = flat (lcp n m) ++ pack t := by rw [← pack_append, ht]
        rw [this]; simp
      have e2 : mtype ++ flat (lcp n m) ++ [0] = mtype ++ pack (lcp n m) := by
        rw [pack_eq, List.append_assoc]
      rw [e1, e2]
      have hlt : (lcp n m).length < f := by
        have h2 : (lcp n m).length < p.length := by
          rcases Nat.lt_or_ge (lcp n m).length p.length with h | h
          · exact h
          · exact absurd (hp'p.eq_of_length (Nat.le_antisymm hp'p.length_le h)) hp'ne
        omega
      rw [ih (lcp n m) (lcp_prefix_left n m) (fun e => hpn (prefix_antisymm' hp (e ▸ hp'p))) hlt]
      rw [wild_skip hp'p]
      intro a ha hpres
      exact cand_prefix hn hp hm ha hle (K_le_of_prefix mtype hpo ha fun _ => bytesLe_refl _) hmax hpres

end MainV2

theorem flat_reverse_length : ∀ (ls : List Bytes), (flat ls.reverse).length = (flat ls).length
  | [] => rfl
  | x :: ls => by
    rw [List.reverse_cons, flat_append, flat_cons, flat_cons, flat_nil, List.append_nil,
      List.length_append, List.length_append, flat_reverse_length ls]; omega

theorem pack_reverse_length (ls : List Bytes) : (pack ls.reverse).length = (pack ls).length := by
  rw [pack_length, pack_length, flat_reverse_length]

section FirstV2
variable {s : Store} {mtype : Bytes} {maps : Maps}

theorem go_first (hrep : RepMapsV2 s mtype maps) (hmt : mtype.length = 2) {n : List Bytes} (hn : NameOK n)
    (hlen : (pack n).length ≤ 256) :
    Loc.findMapSorted.go s mtype (pack n) ((pack n).length + 3) ((pack n).length + 2) (mtype ++ pack n) 0x3d =
      .ok (mapSpec maps n.reverse) := by
  have hk : mtype ++ pack n ++ [0x3d] = K mtype n [sfx false] := rfl
  have hfuel : ∀ p : List Bytes, p <+: n → p.length < (pack n).length + 1 := fun p hp => by
    have h1 := hp.length_le
    have h2 := length_le_flat_length n
    rw [pack_length]; omega
  have hdl : ∀ a : List Bytes, n ≠ [] → a <+: n.dropLast → a <+: n ∧ a ≠ n := fun a hne ha => by
    refine ⟨ha.trans (List.dropLast_prefix n), fun e => ?_⟩
    have h1 := ha.length_le
    have h2 : n.length ≠ 0 := fun h => hne (List.eq_nil_of_length_eq_zero h)
    rw [e] at h1; simp at h1; omega
  rw [mapSpec_eq, List.tail_reverse]
  rcases map_seek_cases hrep hmt (mtype ++ pack n ++ [0x3d]) ⟨pack n ++ [0x3d], by simp⟩ with
    ⟨hA, habs⟩ | ⟨vals, hB, hmem⟩ | ⟨m, w', vals, hm, hC, hne, hle, hmax⟩
  · rw [go_stop hA, habs n false hn (by rw [hk]; exact bytesLe_refl _)]
    simp only []
    by_cases hnil : n.reverse = []
    · rw [if_pos hnil]
    · rw [if_neg hnil]
      have hne : n ≠ [] := fun e => hnil (by rw [e]; rfl)
      rw [wild_none]
      intro a ha
      obtain ⟨h1, h2⟩ := hdl a hne ha
      exact habs a true (hn.prefix h1) (by
        rw [hk]; exact bytesLe_of_lt (K_lt_of_proper_prefix mtype hn h1 h2 _ _))
  · obtain ⟨z, w, v, hz, _, hv⟩ := hrep.keys _ hmem (by
      show (mtype ++ pack n ++ [0x3d]).take 2 = mtype
      rw [List.append_assoc]; exact take_prefix_of_length hmt)
    simp only at hv
    subst hv
    rw [go_hit hB]
    have h1 := hrep.get_rev hn false
    obtain ⟨vals', hs', hg'⟩ := seekForPrev_of_mem ⟨_, hmem, rfl⟩
    rw [hB] at hs'
    cases hs'
    rw [← hk, hg'] at h1
    cases hm : maps n.reverse false with
    | none => rw [hm] at h1; simp at h1
    | some v' => rw [hm] at h1; simp at h1; subst h1; rfl
  · rw [hk] at hC hne hle hmax
    have hexact : maps n.reverse false = none := by
      cases hmm : maps n.reverse false with
      | none => rfl
      | some v =>
        exfalso
        have := hmax n false hn (bytesLe_refl _) (by rw [hmm]; simp)
        exact hne (bytesLe_antisymm hle this)
    rw [hexact]
    simp only []
    have hcp := commonPrefix_spec n m [] [] ((pack n).length + 1) hn hm rfl
      (by have := length_le_flat_length n; rw [pack_length]; omega)
    simp only [List.nil_append, List.length_nil, Nat.zero_add] at hcp
    by_cases hmn : n = m
    · subst hmn
      rw [if_pos rfl] at hcp
      by_cases hnil : n = []
      · subst hnil
        rw [go_after (rev := pack []) (cap := (pack ([] : List Bytes)).length + 3)
          (f := (pack ([] : List Bytes)).length + 1)
          (kBody := mtype ++ pack []) (c := 0x3d) hmt hC hne hcp (length := 0) (by decide)]
        rw [if_pos ⟨rfl, by simp [hmt, pack_nil]⟩]
        rfl
      · have hrn : n.reverse ≠ [] := fun e => hnil (by simpa using e)
        rw [if_neg hrn]
        have hl := lwl_prefix (c := n) (t := []) hn hnil hlen
        rw [List.append_nil] at hl
        have h1flat : 1 ≤ (flat n).length := by
          have := length_le_flat_length n
          have h2 : n.length ≠ 0 := fun h => hnil (List.eq_nil_of_length_eq_zero h)
          omega
        rw [go_next (rev := pack n) (cap := (pack n).length + 3) (f := (pack n).length + 1)
          (kBody := mtype ++ pack n) (c := 0x3d) hmt hC hne hcp (length := (flat n.dropLast).length)
          (by rw [if_pos rfl, hl]; simp [pack_length])
          (by rw [List.length_append, hmt, pack_length]; omega)
          (by have := flat_length_le_of_prefix (List.dropLast_prefix n); rw [pack_length]; omega)]
        have e1 : (pack n).take (flat n.dropLast).length = flat n.dropLast := by
          have : pack n = flat n.dropLast ++ pack [n.getLast hnil] := by
            rw [← pack_append, List.dropLast_concat_getLast]
          rw [this]; simp
        have e2 : mtype ++ flat n.dropLast ++ [0] = mtype ++ pack n.dropLast := by
          rw [pack_eq, List.append_assoc]
        rw [e1, e2]
        obtain ⟨h1, h2⟩ := hdl n.dropLast hnil (List.prefix_refl _)
        rw [go_wild hrep hmt hn _ _ h1 h2 (hfuel _ h1)]
    · have hp'ne : lcp n m ≠ n := by
        intro e
        have hnm : n <+: m := e ▸ lcp_prefix_right n m
        have := K_lt_of_proper_prefix mtype hm hnm hmn [sfx false] [sfx w']
        rw [bytesLe_iff.1 hle] at this; cases this
      have hnil : n ≠ [] := by
        intro e; apply hp'ne; rw [e]; rfl
      have hrn : n.reverse ≠ [] := fun e => hnil (by simpa using e)
      rw [if_neg hrn]
      rw [if_neg hmn] at hcp
      have hp'n := lcp_prefix_left n m
      obtain ⟨t, ht⟩ := hp'n
      have hfl : (flat (lcp n m)).length ≤ (flat n).length := flat_length_le_of_prefix (lcp_prefix_left n m)
      have h1flat : 1 ≤ (flat n).length := by
        have := length_le_flat_length n
        have h2 : n.length ≠ 0 := fun h => hnil (List.eq_nil_of_length_eq_zero h)
        omega
      rw [go_next (rev := pack n) (cap := (pack n).length + 3) (f := (pack n).length + 1)
        (kBody := mtype ++ pack n) (c := 0x3d) hmt hC hne hcp (length := (flat (lcp n m)).length)
        (by rw [if_neg (by rw [pack_length]; omega)])
        (by rw [List.length_append, hmt, pack_length]; omega)
        (by rw [pack_length]; omega)]
      have e1 : (pack n).take (flat (lcp n m)).length = flat (lcp n m) := by
        have : pack n = flat (lcp n m) ++ pack t := by rw [← pack_append, ht]
        rw [this]; simp
      have e2 : mtype ++ flat (lcp n m) ++ [0] = mtype ++ pack (lcp n m) := by
        rw [pack_eq, List.append_assoc]
      rw [e1, e2]
      rw [go_wild hrep hmt hn _ _ (lcp_prefix_left n m) hp'ne (hfuel _ (lcp_prefix_left n m))]
      have hp'd : lcp n m <+: n.dropLast := prefix_dropLast_of_proper (lcp_prefix_left n m) hp'ne
      rw [wild_skip hp'd]
      intro a ha hpres
      obtain ⟨h1, h2⟩ := hdl a hnil ha
      exact cand_prefix hn (List.prefix_refl n) hm h1 hle
        (bytesLe_of_lt (K_lt_of_proper_prefix mtype hn h1 h2 _ _)) hmax hpres

/-- the two map searches on the declarations -/
theorem findMapSorted_eq_spec (hrep : RepMapsV2 s mtype maps) (hmt : mtype.length = 2) (ql : List Bytes)
    (hq : NameOK ql) (hlen : (pack ql).length ≤ 256) :
    Loc.findMapSorted s (pack ql) mtype = .ok (mapSpec maps ql) := by
  unfold Loc.findMapSorted
  rw [reverseWire_pack ql hq]
  simp only []
  have := go_first hrep hmt hq.reverse (by rw [pack_reverse_length]; exact hlen)
  rw [List.reverse_reverse] at this
  exact this

end FirstV2

end DnsVerif.RevOrder
