/-
C03.4, database side: the RocksDB location lookup of the model (`Loc.getLocationRdb`, a
`SeekForPrev` on `marker ++ map ++ ip16 ++ [masklen]`) equals the abstract predecessor search
`Lpm.lookupRes` over the range points stored for that map. Core Lean only.
-/
import DnsVerif.Model.Location
import DnsVerif.Proofs.LpmTable
import DnsVerif.Proofs.LpmBytes
namespace DnsVerif.Lpm
open DnsVerif DnsVerif.Rearr DnsVerif.Loc DnsVerif.Rdb

/-- well-formed table: addresses in range, mask lengths are bytes, locations are 2 bytes, distinct
database keys, and the table starts with a point at address 0, byte 0 -/
structure TableWF (P : List Point) : Prop where
  ip_lt : ∀ p ∈ P, p.ip < 2 ^ 128
  ml_lt : ∀ p ∈ P, p.maskLen < 256
  loc_len : ∀ p ∈ P, ∀ l, p.loc = some l → l.length = 2
  keys_distinct : P.Pairwise fun u v => pkey u ≠ pkey v
  has_zero : ∃ p ∈ P, pkey p = (0, 0)

/-- the store holds, among the keys that start with `marker ++ mapID`, exactly the points of `P`
(one value each); keys of the store are distinct -/
structure RdbRep (s : Store) (mapID : Bytes) (P : List Point) : Prop where
  keys_nodup : s.Pairwise fun e e' => e.1 ≠ e'.1
  complete : ∀ p ∈ P, ((pointKV mapID p).1, [(pointKV mapID p).2]) ∈ s
  sound : ∀ e ∈ s, e.1.take 6 = Generated.dnsdata_RangePointKeyMarker ++ mapID →
    ∃ p ∈ P, e = ((pointKV mapID p).1, [(pointKV mapID p).2])

/-! ### the "keep the greatest qualifying element" fold, generically -/

/-- one step of the fold in `Store.seekForPrev` and `lookup` -/
def pickMax {α : Type} (q : α → Bool) (lt : α → α → Bool) (best : Option α) (e : α) : Option α :=
  if q e then
    match best with
    | none => some e
    | some b => if lt b e then some e else some b
  else best

theorem foldl_pickMax_spec {α : Type} (q : α → Bool) (lt : α → α → Bool)
    (hirr : ∀ a, lt a a = false)
    (htr : ∀ a b c, lt a b = true → lt b c = true → lt a c = true)
    (hntr : ∀ a b c, lt a b = false → lt b c = false → lt a c = false) :
    ∀ (l : List α) (best : Option α), (∀ b, best = some b → q b = true) →
      (l.foldl (pickMax q lt) best = none → best = none ∧ ∀ e ∈ l, q e = false) ∧
      (∀ r, l.foldl (pickMax q lt) best = some r →
        (best = some r ∨ r ∈ l) ∧ q r = true ∧ (∀ b, best = some b → lt r b = false) ∧
          ∀ e ∈ l, q e = true → lt r e = false) := by
  intro l
  induction l with
  | nil =>
    intro best hb
    refine ⟨fun h => ⟨h, fun e he => by cases he⟩, fun r h => ?_⟩
    rw [List.foldl_nil] at h
    refine ⟨Or.inl h, hb r h, ?_, fun e he => by cases he⟩
    intro b hb'
    rw [h] at hb'
    cases hb'
    exact hirr r
  | cons e l ih =>
    intro best hb
    rw [List.foldl_cons]
    cases hq : q e with
    | false =>
      have hp : pickMax q lt best e = best := by unfold pickMax; rw [hq]; rfl
      rw [hp]
      obtain ⟨h1, h2⟩ := ih best hb
      refine ⟨fun h => ?_, fun r h => ?_⟩
      · obtain ⟨a, b⟩ := h1 h
        refine ⟨a, ?_⟩
        intro e' he'
        rcases List.mem_cons.1 he' with rfl | h'
        · exact hq
        · exact b e' h'
      · obtain ⟨a, b, c, d⟩ := h2 r h
        refine ⟨a.imp id (List.mem_cons_of_mem _), b, c, ?_⟩
        intro e' he' hqe'
        rcases List.mem_cons.1 he' with rfl | h'
        · rw [hq] at hqe'; cases hqe'
        · exact d e' h' hqe'
    | true =>
      -- in the three remaining cases the new accumulator is `some m`, `m` qualifies, `e ≤ m`, and
      -- the old accumulator (if any) is `≤ m`
      have key : ∀ m, pickMax q lt best e = some m → q m = true → (m = e ∨ best = some m) →
          lt m e = false → (∀ b, best = some b → lt m b = false) →
          (l.foldl (pickMax q lt) (pickMax q lt best e) = none →
              best = none ∧ ∀ e' ∈ e :: l, q e' = false) ∧
          (∀ r, l.foldl (pickMax q lt) (pickMax q lt best e) = some r →
            (best = some r ∨ r ∈ e :: l) ∧ q r = true ∧ (∀ b, best = some b → lt r b = false) ∧
              ∀ e' ∈ e :: l, q e' = true → lt r e' = false) := by
        intro m hp hqm hm hme hmb
        rw [hp]
        obtain ⟨h1, h2⟩ := ih (some m) (by intro b h; cases h; exact hqm)
        refine ⟨fun h => ?_, fun r h => ?_⟩
        · have := (h1 h).1; cases this
        · obtain ⟨a, b, c, d⟩ := h2 r h
          have hrm : lt r m = false := c m rfl
          refine ⟨?_, b, ?_, ?_⟩
          · rcases a with a | a
            · cases a
              rcases hm with rfl | hm
              · exact Or.inr List.mem_cons_self
              · exact Or.inl hm
            · exact Or.inr (List.mem_cons_of_mem _ a)
          · intro b0 hb0
            exact hntr _ _ _ hrm (hmb b0 hb0)
          · intro e' he' hqe'
            rcases List.mem_cons.1 he' with rfl | h'
            · exact hntr _ _ _ hrm hme
            · exact d e' h' hqe'
      cases best with
      | none =>
        refine key e ?_ hq (Or.inl rfl) (hirr e) (by intro b h; cases h)
        unfold pickMax; rw [hq]; rfl
      | some b0 =>
        cases hlt : lt b0 e with
        | true =>
          refine key e ?_ hq (Or.inl rfl) (hirr e) ?_
          · unfold pickMax; rw [hq]; simp only [hlt, if_true]
          · intro b h; cases h
            cases hx : lt e b0 with
            | false => rfl
            | true => have := htr _ _ _ hlt hx; rw [hirr] at this; cases this
        | false =>
          refine key b0 ?_ (hb b0 rfl) (Or.inr rfl) hlt ?_
          · unfold pickMax; rw [hq]; simp only [hlt, if_true]; rfl
          · intro b h; cases h; exact hirr _

theorem seekForPrev_eq_fold (s : Store) (k : Bytes) :
    s.seekForPrev k = s.foldl (pickMax (fun e => bytesLe e.1 k) (fun a b => bytesLt a.1 b.1)) none := by
  unfold Store.seekForPrev
  congr 1
  funext best e
  unfold pickMax
  cases best <;> rfl

/-- `SeekForPrev` returns an entry with the greatest key `≤ k`; nothing when no key is `≤ k` -/
theorem seekForPrev_spec (s : Store) (k : Bytes) :
    (s.seekForPrev k = none → ∀ e ∈ s, bytesLe e.1 k = false) ∧
    (∀ r, s.seekForPrev k = some r →
      r ∈ s ∧ bytesLe r.1 k = true ∧ ∀ e ∈ s, bytesLe e.1 k = true → bytesLt r.1 e.1 = false) := by
  rw [seekForPrev_eq_fold]
  obtain ⟨h1, h2⟩ := foldl_pickMax_spec (fun e : Bytes × List Bytes => bytesLe e.1 k)
    (fun a b => bytesLt a.1 b.1) (fun a => bytesLt_irrefl a.1)
    (fun a b c h h' => bytesLt_trans h h') (fun a b c h h' => bytesLe_trans' h' h) s none
    (by intro b h; cases h)
  refine ⟨fun h => (h1 h).2, fun r h => ?_⟩
  obtain ⟨a, b, _, d⟩ := h2 r h
  refine ⟨?_, b, d⟩
  rcases a with a | a
  · cases a
  · exact a

theorem lookup_eq_fold (P : List Point) (a req : Nat) :
    lookup P a req
      = P.foldl (pickMax (fun p => keyLe (pkey p) (a, req)) (fun u v => keyLt (pkey u) (pkey v))) none := by
  unfold lookup
  congr 1
  funext best p
  unfold pickMax
  cases best <;> rfl

theorem keyLt_irrefl (k : Nat × Nat) : keyLt k k = false := by
  unfold keyLt
  apply decide_eq_false
  omega

theorem keyLt_trans {a b c : Nat × Nat} (h : keyLt a b = true) (h' : keyLt b c = true) :
    keyLt a c = true := by
  unfold keyLt at *
  rw [decide_eq_true_iff] at *
  omega

theorem keyLt_ntrans {a b c : Nat × Nat} (h : keyLt a b = false) (h' : keyLt b c = false) :
    keyLt a c = false := by
  unfold keyLt at *
  rw [decide_eq_false_iff_not] at *
  omega

/-- `lookup` returns a point with the greatest key `≤ (a, req)`; nothing when no key is `≤` -/
theorem lookup_spec (P : List Point) (a req : Nat) :
    (lookup P a req = none → ∀ p ∈ P, keyLe (pkey p) (a, req) = false) ∧
    (∀ r, lookup P a req = some r →
      r ∈ P ∧ keyLe (pkey r) (a, req) = true ∧
        ∀ p ∈ P, keyLe (pkey p) (a, req) = true → keyLt (pkey r) (pkey p) = false) := by
  rw [lookup_eq_fold]
  obtain ⟨h1, h2⟩ := foldl_pickMax_spec (fun p : Point => keyLe (pkey p) (a, req))
    (fun u v => keyLt (pkey u) (pkey v)) (fun a => keyLt_irrefl _)
    (fun a b c h h' => keyLt_trans h h') (fun a b c h h' => keyLt_ntrans h h') P none
    (by intro b h; cases h)
  refine ⟨fun h => (h1 h).2, fun r h => ?_⟩
  obtain ⟨a, b, _, d⟩ := h2 r h
  refine ⟨?_, b, d⟩
  rcases a with a | a
  · cases a
  · exact a

/-! ### database keys of points vs pair keys -/

/-- the database key for address `a`, mask-length byte `b` -/
def skey (mapID : Bytes) (a b : Nat) : Bytes :=
  Generated.dnsdata_RangePointKeyMarker ++ mapID ++ natToIP a ++ [UInt8.ofNat b]

theorem toNat_ofNat_lt {n : Nat} (h : n < 256) : (UInt8.ofNat n).toNat = n := by
  rw [UInt8.toNat_ofNat']; omega

theorem skey_split (mapID : Bytes) (a b : Nat) :
    skey mapID a b
      = (Generated.dnsdata_RangePointKeyMarker ++ mapID) ++ (natToIP a ++ [UInt8.ofNat b]) := by
  unfold skey
  rw [List.append_assoc]

theorem pointKV_fst (mapID : Bytes) (p : Point) (hml : p.maskLen < 256) :
    (pointKV mapID p).1 = skey mapID p.ip (pkey p).2 := by
  obtain ⟨ip, ml, loc, kind⟩ := p
  cases loc with
  | none => rfl
  | some l =>
    show _ ++ [UInt8.ofNat ml] = _ ++ [UInt8.ofNat (ml % 256)]
    rw [Nat.mod_eq_of_lt hml]

theorem pointKV_snd (mapID : Bytes) (p : Point) : (pointKV mapID p).2 = p.loc.getD [] := by
  obtain ⟨ip, ml, loc, kind⟩ := p
  cases loc <;> rfl

theorem pkey_snd_lt (p : Point) : (pkey p).2 < 256 := by
  obtain ⟨ip, ml, loc, kind⟩ := p
  cases loc with
  | none => show 0 < 256; omega
  | some l => exact Nat.mod_lt _ (by omega)

theorem pkey_fst (p : Point) : (pkey p).1 = p.ip := rfl

theorem bytesLt_skey (mapID : Bytes) {a b x y : Nat} (ha : a < 2 ^ 128) (hb : b < 2 ^ 128)
    (hx : x < 256) (hy : y < 256) :
    bytesLt (skey mapID a x) (skey mapID b y) = keyLt (a, x) (b, y) := by
  rw [skey_split, skey_split, bytesLt_append_left,
    bytesLt_append_eqlen _ _ (by rw [natToIP_length, natToIP_length])]
  unfold keyLt
  by_cases hab : a = b
  · subst hab
    rw [if_pos rfl, bytesLt_singleton, toNat_ofNat_lt hx, toNat_ofNat_lt hy]
    apply decide_eq_decide.2
    show x < y ↔ (a < a ∨ a = a ∧ x < y)
    omega
  · rw [if_neg (fun h => hab ((natToIP_inj ha hb).1 h)), bytesLt_natToIP ha hb]
    apply decide_eq_decide.2
    show a < b ↔ (a < b ∨ a = b ∧ x < y)
    omega

theorem bytesLe_skey (mapID : Bytes) {a b x y : Nat} (ha : a < 2 ^ 128) (hb : b < 2 ^ 128)
    (hx : x < 256) (hy : y < 256) :
    bytesLe (skey mapID a x) (skey mapID b y) = keyLe (a, x) (b, y) := by
  unfold bytesLe keyLe
  rw [bytesLt_skey mapID hb ha hy hx]

theorem marker_length : Generated.dnsdata_RangePointKeyMarker.length = 4 := rfl

theorem skey_length (mapID : Bytes) (a b : Nat) : (skey mapID a b).length = mapID.length + 21 := by
  unfold skey
  rw [List.length_append, List.length_append, List.length_append, natToIP_length, marker_length,
    List.length_singleton]
  omega

theorem skey_take (mapID : Bytes) (hmap : mapID.length = 2) (a b : Nat) :
    (skey mapID a b).take 6 = Generated.dnsdata_RangePointKeyMarker ++ mapID := by
  rw [skey_split]
  exact List.take_left' (by rw [List.length_append, marker_length, hmap])

theorem skey_getLast (mapID : Bytes) (a b : Nat) :
    (skey mapID a b).getLast? = some (UInt8.ofNat b) := by
  unfold skey
  exact List.getLast?_concat

/-- lexicographic sandwich: a string between two strings with a common prefix has that prefix -/
theorem prefix_of_sandwich (p : Bytes) : ∀ (y x' z' : Bytes),
    bytesLt y (p ++ x') = false → bytesLt (p ++ z') y = false → ∃ y', y = p ++ y' := by
  induction p with
  | nil => intro y _ _ _ _; exact ⟨y, rfl⟩
  | cons a p ih =>
    intro y x' z' h1 h2
    cases y with
    | nil => simp [bytesLt] at h1
    | cons b ys =>
      simp only [List.cons_append, bytesLt] at h1 h2
      by_cases hba : b.toNat < a.toNat
      · rw [if_pos hba] at h1; cases h1
      · by_cases hab : a.toNat < b.toNat
        · rw [if_pos hab] at h2; cases h2
        · rw [if_neg hba, if_neg hab] at h1
          rw [if_neg hab, if_neg hba] at h2
          obtain ⟨y', rfl⟩ := ih ys x' z' h1 h2
          have : a = b := UInt8.toNat_inj.1 (by omega)
          exact ⟨y', by rw [this]; rfl⟩

theorem eq_of_pairwise_ne {α β : Type} {f : α → β} {l : List α}
    (h : l.Pairwise fun u v => f u ≠ f v) {u v : α} (hu : u ∈ l) (hv : v ∈ l) (e : f u = f v) :
    u = v := by
  induction l with
  | nil => cases hu
  | cons x l ih =>
    obtain ⟨hx, hl⟩ := List.pairwise_cons.1 h
    rcases List.mem_cons.1 hu with rfl | hu'
    · rcases List.mem_cons.1 hv with rfl | hv'
      · rfl
      · exact absurd e (hx v hv')
    · rcases List.mem_cons.1 hv with rfl | hv'
      · exact absurd e.symm (hx u hu')
      · exact ih hl hu' hv'

/-! ### decoding the hit -/

/-- the part of `getLocationRdb` after the seek -/
def decodeHit (key : Bytes) (hit : Option (Bytes × List Bytes)) : Res (Option Bytes × Nat) :=
  match hit with
  | none => .ok (none, 0)
  | some (fk, vals) =>
    let raw := rawValue vals
    if raw.isEmpty then .ok (none, 0)
    else if fk.length ≠ key.length ∨ fk.take 6 ≠ key.take 6 then .ok (none, 0)
    else if raw.length < 4 then .err
    else
      let v := raw.drop 4
      let mlen := (fk.getLast?.getD 0).toNat
      if v.length = 2 then .ok (some v, mlen)
      else if v.length = 0 then .ok (none, mlen)
      else .err

theorem getLocationRdb_eq_decodeHit (s : Store) (c : ClientNet) (mapID : Bytes) :
    getLocationRdb s c mapID
      = decodeHit (Generated.dnsdata_RangePointKeyMarker ++ mapID ++ maskedClientIP c ++
            [UInt8.ofNat ((c.maskOnes + (if isIPv4 c then 96 else 0)) % 256)])
          (s.seekForPrev (Generated.dnsdata_RangePointKeyMarker ++ mapID ++ maskedClientIP c ++
            [UInt8.ofNat ((c.maskOnes + (if isIPv4 c then 96 else 0)) % 256)])) := by
  unfold getLocationRdb decodeHit
  rfl

theorem decodeHit_point (mapID : Bytes) (hmap : mapID.length = 2) (a req : Nat) (p : Point)
    (hloc : ∀ l, p.loc = some l → l.length = 2) (hml : p.maskLen < 256) :
    decodeHit (skey mapID a req) (some ((pointKV mapID p).1, [(pointKV mapID p).2]))
      = .ok (p.loc, (pkey p).2) := by
  rw [pointKV_fst mapID p hml, pointKV_snd]
  unfold decodeHit
  have hraw : ∀ v : Bytes, rawValue [v] = UInt8.ofNat (v.length % 256) ::
      UInt8.ofNat (v.length / 256 % 256) :: UInt8.ofNat (v.length / 65536 % 256) ::
      UInt8.ofNat (v.length / 16777216 % 256) :: v := fun _ => rfl
  simp only [hraw, List.isEmpty_cons, skey_length, skey_take mapID hmap, skey_getLast,
    Option.getD_some, toNat_ofNat_lt (pkey_snd_lt p), List.length_cons, List.drop_succ_cons,
    List.drop_zero, ne_eq, not_true_eq_false, or_self, if_false, Bool.false_eq_true]
  cases hl : p.loc with
  | none => simp
  | some l => simp [hloc l hl]

/-! ### the main theorem -/

theorem getLocationRdb_core {s : Store} {mapID : Bytes} {P : List Point}
    (hrep : RdbRep s mapID P) (hwf : TableWF P) (hmap : mapID.length = 2)
    (c : ClientNet) (a : Nat) (ha : a < 2 ^ 128) (hip : maskedClientIP c = natToIP a) :
    getLocationRdb s c mapID =
      .ok (lookupRes P a ((c.maskOnes + (if isIPv4 c then 96 else 0)) % 256)) := by
  rw [getLocationRdb_eq_decodeHit, hip]
  have hreq : (c.maskOnes + (if isIPv4 c then 96 else 0)) % 256 < 256 := Nat.mod_lt _ (by omega)
  generalize (c.maskOnes + (if isIPv4 c then 96 else 0)) % 256 = req at hreq ⊢
  show decodeHit (skey mapID a req) (s.seekForPrev (skey mapID a req)) = _
  -- comparisons of stored point keys with the search key
  have hle : ∀ p ∈ P, bytesLe (pointKV mapID p).1 (skey mapID a req) = keyLe (pkey p) (a, req) := by
    intro p hp
    rw [pointKV_fst mapID p (hwf.ml_lt p hp)]
    exact bytesLe_skey mapID (hwf.ip_lt p hp) ha (pkey_snd_lt p) hreq
  have hlt : ∀ u ∈ P, ∀ v ∈ P,
      bytesLt (pointKV mapID u).1 (pointKV mapID v).1 = keyLt (pkey u) (pkey v) := by
    intro u hu v hv
    rw [pointKV_fst mapID u (hwf.ml_lt u hu), pointKV_fst mapID v (hwf.ml_lt v hv)]
    exact bytesLt_skey mapID (hwf.ip_lt u hu) (hwf.ip_lt v hv) (pkey_snd_lt u) (pkey_snd_lt v)
  obtain ⟨z, hzP, hz⟩ := hwf.has_zero
  have hzle : keyLe (pkey z) (a, req) = true := by
    rw [hz]; unfold keyLe keyLt
    simp
  obtain ⟨sn, ss⟩ := seekForPrev_spec s (skey mapID a req)
  obtain ⟨ln, ls⟩ := lookup_spec P a req
  cases hseek : s.seekForPrev (skey mapID a req) with
  | none =>
    have := sn hseek _ (hrep.complete z hzP)
    rw [hle z hzP, hzle] at this
    cases this
  | some e =>
    obtain ⟨hes, hek, hemax⟩ := ss e hseek
    -- the hit lies between the zero point's key and the search key, so it has the map's prefix
    have hze : bytesLt e.1 (pointKV mapID z).1 = false :=
      hemax _ (hrep.complete z hzP) (by rw [hle z hzP, hzle])
    have hpre : e.1.take 6 = Generated.dnsdata_RangePointKeyMarker ++ mapID := by
      rw [pointKV_fst mapID z (hwf.ml_lt z hzP), skey_split] at hze
      have hek' : bytesLt (skey mapID a req) e.1 = false := by
        unfold bytesLe at hek
        cases hx : bytesLt (skey mapID a req) e.1 with
        | false => rfl
        | true => rw [hx] at hek; cases hek
      rw [skey_split] at hek'
      obtain ⟨y', hy'⟩ := prefix_of_sandwich _ _ _ _ hze hek'
      rw [hy']
      exact List.take_left' (by rw [List.length_append, marker_length, hmap])
    obtain ⟨p, hpP, hep⟩ := hrep.sound e hes hpre
    subst hep
    have hpk : keyLe (pkey p) (a, req) = true := by rw [← hle p hpP]; exact hek
    cases hlook : lookup P a req with
    | none =>
      have := ln hlook p hpP
      rw [hpk] at this; cases this
    | some p0 =>
      obtain ⟨h0P, h0k, h0max⟩ := ls p0 hlook
      have h1 : keyLt (pkey p0) (pkey p) = false := h0max p hpP hpk
      have h2 : keyLt (pkey p) (pkey p0) = false := by
        rw [← hlt p hpP p0 h0P]
        exact hemax _ (hrep.complete p0 h0P) (by rw [hle p0 h0P, h0k])
      have hkeq : pkey p = pkey p0 := by
        unfold keyLt at h1 h2
        rw [decide_eq_false_iff_not] at h1 h2
        apply Prod.ext <;> omega
      have hpp : p = p0 := eq_of_pairwise_ne hwf.keys_distinct hpP h0P hkeq
      subst hpp
      rw [decodeHit_point mapID hmap a req p (hwf.loc_len p hpP) (hwf.ml_lt p hpP)]
      unfold lookupRes
      rw [hlook]

/-- **C03.4, database side**: the RocksDB lookup is the predecessor search over the map's points -/
theorem getLocationRdb_eq_lookupRes {s : Store} {mapID : Bytes} {P : List Point}
    (hrep : RdbRep s mapID P) (hwf : TableWF P) (hmap : mapID.length = 2)
    (c : ClientNet) (hc : (maskedClientIP c).length = 16) :
    getLocationRdb s c mapID =
      .ok (lookupRes P (ipToNat (maskedClientIP c))
        ((c.maskOnes + (if isIPv4 c then 96 else 0)) % 256)) := by
  have hlt := ipToNat_lt (maskedClientIP c)
  rw [hc] at hlt
  exact getLocationRdb_core hrep hwf hmap c _ (by omega) (natToIP_ipToNat hc).symm

/-! ### satisfiability: the single-map database built from the table -/

theorem insert_fresh (s : Store) (k v : Bytes) (h : ∀ e ∈ s, e.1 ≠ k) :
    s.insert k v = s ++ [(k, [v])] := by
  unfold Store.insert
  have : s.any (fun e => decide (e.1 = k)) = false := by
    rw [List.any_eq_false]
    intro e he
    simpa using h e he
  rw [this]
  rfl

theorem ofKVs_fresh (kvs : List (Bytes × Bytes)) :
    ∀ s : Store, kvs.Pairwise (fun u v => u.1 ≠ v.1) → (∀ kv ∈ kvs, ∀ e ∈ s, e.1 ≠ kv.1) →
      kvs.foldl (fun s kv => s.insert kv.1 kv.2) s = s ++ kvs.map fun kv => (kv.1, [kv.2]) := by
  induction kvs with
  | nil => intro s _ _; simp
  | cons kv kvs ih =>
    intro s hpw hs
    obtain ⟨hkv, hpw'⟩ := List.pairwise_cons.1 hpw
    rw [List.foldl_cons, insert_fresh s kv.1 kv.2 (hs kv List.mem_cons_self), ih _ hpw', List.map_cons,
      List.append_assoc]
    · rfl
    · intro kv' hkv' e he
      rcases List.mem_append.1 he with he | he
      · exact hs kv' (List.mem_cons_of_mem _ hkv') e he
      · rw [List.mem_singleton] at he
        rw [he]
        exact hkv kv' hkv'

theorem pointKV_fst_ne (mapID : Bytes) {u v : Point} (hu : u.ip < 2 ^ 128) (hv : v.ip < 2 ^ 128)
    (hmu : u.maskLen < 256) (hmv : v.maskLen < 256) (hne : pkey u ≠ pkey v) :
    (pointKV mapID u).1 ≠ (pointKV mapID v).1 := by
  rw [pointKV_fst mapID u hmu, pointKV_fst mapID v hmv]
  have h1 := bytesLt_skey mapID hu hv (pkey_snd_lt u) (pkey_snd_lt v)
  have h2 := bytesLt_skey mapID hv hu (pkey_snd_lt v) (pkey_snd_lt u)
  intro heq
  rw [heq, bytesLt_irrefl] at h1
  rw [heq, bytesLt_irrefl] at h2
  apply hne
  unfold keyLt at h1 h2
  have h1' := of_decide_eq_false h1.symm
  have h2' := of_decide_eq_false h2.symm
  apply Prod.ext
  · show u.ip = v.ip; omega
  · omega

/-- the database that holds just the table's points represents the table -/
theorem rdbRep_ofKVs {mapID : Bytes} {P : List Point} (hwf : TableWF P) :
    RdbRep (Store.ofKVs (P.map (pointKV mapID))) mapID P := by
  have hpw : (P.map (pointKV mapID)).Pairwise (fun u v => u.1 ≠ v.1) := by
    rw [List.pairwise_map]
    have := hwf.keys_distinct
    have hall : P.Pairwise fun u v => u ∈ P ∧ v ∈ P ∧ pkey u ≠ pkey v :=
      List.Pairwise.and_mem.1 this
    exact hall.imp fun {u v} h =>
      pointKV_fst_ne mapID (hwf.ip_lt u h.1) (hwf.ip_lt v h.2.1) (hwf.ml_lt u h.1)
        (hwf.ml_lt v h.2.1) h.2.2
  have hs : Store.ofKVs (P.map (pointKV mapID))
      = P.map fun p => ((pointKV mapID p).1, [(pointKV mapID p).2]) := by
    unfold Store.ofKVs
    rw [ofKVs_fresh _ [] hpw (by intro _ _ e he; cases he), List.nil_append, List.map_map]
    rfl
  rw [hs]
  refine ⟨?_, ?_, ?_⟩
  · rw [List.pairwise_map]
    rw [List.pairwise_map] at hpw
    exact hpw
  · intro p hp
    exact List.mem_map.2 ⟨p, hp, rfl⟩
  · intro e he _
    obtain ⟨p, hp, rfl⟩ := List.mem_map.1 he
    exact ⟨p, hp, rfl⟩

/-- a concrete 3-point table: 10.0.0.0/8 → location `[1, 1]` -/
def exampleTable : List Point :=
  [⟨0, 0, none, .start⟩, ⟨0xffff0a000000, 104, some [1, 1], .start⟩, ⟨0xffff0b000000, 0, none, .stop⟩]

/-- non-vacuity: the concrete table is well-formed … -/
theorem exampleTable_wf : TableWF exampleTable :=
  ⟨by decide, by decide, by decide, by decide, ⟨⟨0, 0, none, .start⟩, by decide, rfl⟩⟩

/-- … so all hypotheses of the main theorem hold for its database, for every client -/
example (c : ClientNet) (hc : (maskedClientIP c).length = 16) :
    getLocationRdb (Store.ofKVs (exampleTable.map (pointKV [0, 7]))) c [0, 7] =
      .ok (lookupRes exampleTable (ipToNat (maskedClientIP c))
        ((c.maskOnes + (if isIPv4 c then 96 else 0)) % 256)) :=
  getLocationRdb_eq_lookupRes (rdbRep_ofKVs exampleTable_wf) exampleTable_wf rfl c hc

/-- and the search finds 10.0.0.0/8 for 10.1.2.0/24 -/
example : lookupRes exampleTable 0xffff0a010200 120 = (some [1, 1], 104) := by decide

end DnsVerif.Lpm
