/-
Helper lemmas for C02, the per-request context cache (`Model/CtxCache.lean`): which cache entries
tell the truth (`CleanEntry`), the one kind that does not (`PoisonEntry`: what an exact lookup of an
absent key leaves behind), and the invariant of a run of lookups through one context.
-/
import DnsVerif.Model.CtxCache
import DnsVerif.Proofs.RevOrder

namespace DnsVerif.CtxCache
open DnsVerif DnsVerif.Rdb DnsVerif.RevOrder

/-- the key exists in the database -/
def Present (s : Store) (k : Bytes) : Prop := ∃ e ∈ s, e.1 = k

instance (s : Store) (k : Bytes) : Decidable (Present s k) := by unfold Present; infer_instance

/-- an entry under search key `k` that is right for both kinds of lookup: it is what `SeekForPrev k`
delivers -/
def CleanEntry (s : Store) (k : Bytes) (e : Entry) : Prop := s.seekForPrev k = some (e.key, e.data)

/-- the entry an exact lookup of an absent key leaves behind: "found `k` itself, no data" -/
def PoisonEntry (s : Store) (k : Bytes) (e : Entry) : Prop := ¬ Present s k ∧ e = ⟨k, []⟩

/-- no poisoned entry -/
def Clean (s : Store) (c : Cache) : Prop := ∀ k e, lookup c k = some e → CleanEntry s k e

/-- every entry is clean, or is the poisoned entry of a key in `P` -/
def Inv (s : Store) (c : Cache) (P : Bytes → Prop) : Prop :=
  ∀ k e, lookup c k = some e → CleanEntry s k e ∨ (PoisonEntry s k e ∧ P k)

/-! ### the association list -/

theorem lookup_nil (k : Bytes) : lookup [] k = none := rfl

theorem lookup_set (c : Cache) (k : Bytes) (e : Entry) (k' : Bytes) :
    lookup (set c k e) k' = if k = k' then some e else lookup c k' := by
  unfold lookup set
  rw [List.find?_cons]
  by_cases h : k = k'
  · rw [if_pos h]; simp [h]
  · rw [if_neg h]; simp [h]

theorem lookup_cupdate (c : Cache) (sk fk : Bytes) (d : List Bytes) (k' : Bytes) :
    lookup (cupdate c sk fk d) k' =
      if fk = k' ∨ sk = k' then some ⟨fk, d⟩ else lookup c k' := by
  unfold cupdate
  by_cases hne : sk ≠ fk
  · simp only [if_pos hne]
    rw [lookup_set, lookup_set]
    by_cases h1 : fk = k'
    · rw [if_pos h1, if_pos (Or.inl h1)]
    · rw [if_neg h1]
      by_cases h2 : sk = k'
      · rw [if_pos h2, if_pos (Or.inr h2)]
      · rw [if_neg h2, if_neg (by rintro (h | h); exact h1 h; exact h2 h)]
  · have heq : sk = fk := Classical.not_not.1 hne
    simp only [if_neg hne]
    rw [lookup_set]
    by_cases h2 : sk = k'
    · rw [if_pos h2, if_pos (Or.inr h2)]
    · rw [if_neg h2, if_neg (by rintro (h | h); exact h2 (heq.trans h); exact h2 h)]

/-! ### the uncached results -/

theorem uncached_exact (s : Store) (k : Bytes) : uncached s (.exact k) = .data (s.get k) := rfl

theorem uncached_exactReused (s : Store) (k k' : Bytes) :
    uncached s (.exactReused k k') = .data (s.get k) := rfl

theorem cfindClosest_nil (s : Store) (k : Bytes) : (cfindClosest s [] k).2 = s.seekForPrev k := by
  unfold cfindClosest
  simp only [lookup_nil]
  cases s.seekForPrev k with
  | none => rfl
  | some r => rfl

theorem uncached_closest (s : Store) (k : Bytes) :
    uncached s (.closest k) = .ofClosest (s.seekForPrev k) := by
  unfold uncached step
  dsimp only
  rw [cfindClosest_nil]

/-! ### entries that tell the truth -/

theorem get_eq_nil_of_absent {s : Store} {k : Bytes} (h : ¬ Present s k) : s.get k = [] :=
  get_eq_nil_of_not_mem fun e he hk => h ⟨e, he, hk⟩

/-- a clean entry answers an exact lookup correctly (`get`'s comparison of the found key) -/
theorem clean_exact {s : Store} {k : Bytes} {e : Entry} (h : CleanEntry s k e) :
    (if e.key = k then e.data else []) = s.get k := by
  have hs := seekForPrev_some h
  by_cases hk : e.key = k
  · rw [if_pos hk, ← hk]; exact hs.2.2.1.symm
  · rw [if_neg hk]
    by_cases hp : Present s k
    · obtain ⟨vals, hv, _⟩ := seekForPrev_of_mem hp
      rw [h] at hv
      exact absurd (congrArg (fun o => (o.map (·.1))) hv) (by simpa using hk)
    · exact (get_eq_nil_of_absent hp).symm

/-- a poisoned entry answers an exact lookup correctly, too -/
theorem poison_exact {s : Store} {k : Bytes} {e : Entry} (h : PoisonEntry s k e) :
    (if e.key = k then e.data else []) = s.get k := by
  obtain ⟨hp, rfl⟩ := h
  rw [if_pos rfl]; exact (get_eq_nil_of_absent hp).symm

/-- … but not a closest-key lookup -/
theorem poison_not_clean {s : Store} {k : Bytes} {e : Entry} (h : PoisonEntry s k e) :
    ¬ CleanEntry s k e := by
  intro hc
  obtain ⟨hp, rfl⟩ := h
  exact hp (seekForPrev_key_mem hc)

/-- what `SeekForPrev` found is a clean entry under the found key as well -/
theorem clean_found {s : Store} {k f : Bytes} {d : List Bytes} (h : s.seekForPrev k = some (f, d)) :
    CleanEntry s f ⟨f, d⟩ := by
  obtain ⟨vals, hv, hg⟩ := seekForPrev_of_mem (seekForPrev_key_mem h)
  have := (seekForPrev_some h).2.2.1
  dsimp only at this hv hg
  unfold CleanEntry
  rw [hv, ← hg, this]

/-- the entry an exact lookup of a PRESENT key stores is clean -/
theorem clean_exact_present {s : Store} {k : Bytes} (h : Present s k) : CleanEntry s k ⟨k, s.get k⟩ := by
  obtain ⟨vals, hv, hg⟩ := seekForPrev_of_mem h
  unfold CleanEntry
  rw [hv, hg]

theorem inv_nil (s : Store) (P : Bytes → Prop) : Inv s [] P := by
  intro k e h; rw [lookup_nil] at h; cases h

theorem clean_nil (s : Store) : Clean s [] := by
  intro k e h; rw [lookup_nil] at h; cases h

theorem Inv.mono {s : Store} {c : Cache} {P Q : Bytes → Prop} (h : Inv s c P) (hpq : ∀ k, P k → Q k) :
    Inv s c Q := fun k e hl =>
  (h k e hl).imp id fun ⟨hp, hk⟩ => ⟨hp, hpq k hk⟩

theorem Clean.inv {s : Store} {c : Cache} (h : Clean s c) (P : Bytes → Prop) : Inv s c P :=
  fun k e hl => Or.inl (h k e hl)

/-! ### one lookup -/

/-- an exact lookup is always answered correctly; it may leave a poisoned entry for its own key -/
theorem cget_inv {s : Store} {c : Cache} {P : Bytes → Prop} (h : Inv s c P) (k : Bytes) :
    (cget s c k).2 = s.get k ∧ Inv s (cget s c k).1 (fun x => P x ∨ x = k) := by
  unfold cget
  cases hl : lookup c k with
  | some e =>
    dsimp only
    refine ⟨?_, h.mono fun _ => Or.inl⟩
    rcases h k e hl with hc | ⟨hp, _⟩
    · exact clean_exact hc
    · exact poison_exact hp
  | none =>
    dsimp only
    refine ⟨rfl, fun k' e' hl' => ?_⟩
    rw [lookup_cupdate] at hl'
    by_cases hk : k = k'
    · rw [if_pos (Or.inl hk)] at hl'
      cases hl'
      subst hk
      by_cases hp : Present s k
      · exact Or.inl (clean_exact_present hp)
      · exact Or.inr ⟨⟨hp, by rw [get_eq_nil_of_absent hp]⟩, Or.inr rfl⟩
    · rw [if_neg (by rintro (h' | h') <;> exact hk h')] at hl'
      exact (h k' e' hl').imp id fun ⟨hp, hP⟩ => ⟨hp, Or.inl hP⟩

/-- an exact lookup of a present key (or of a key the cache knows) keeps the cache clean -/
theorem cget_clean {s : Store} {c : Cache} (h : Clean s c) {k : Bytes}
    (hk : Present s k ∨ lookup c k ≠ none) :
    (cget s c k).2 = s.get k ∧ Clean s (cget s c k).1 := by
  refine ⟨(cget_inv (h.inv fun _ => False) k).1, ?_⟩
  unfold cget
  cases hl : lookup c k with
  | some e => exact h
  | none =>
    dsimp only
    have hp : Present s k := hk.resolve_right (fun hne => hne hl)
    intro k' e' hl'
    rw [lookup_cupdate] at hl'
    by_cases hkk : k = k'
    · rw [if_pos (Or.inl hkk)] at hl'
      cases hl'; subst hkk
      exact clean_exact_present hp
    · rw [if_neg (by rintro (h' | h') <;> exact hkk h')] at hl'
      exact h k' e' hl'

/-- a closest-key lookup is answered correctly unless the entry of its key is poisoned; it never
poisons anything -/
theorem cfindClosest_inv {s : Store} {c : Cache} {P : Bytes → Prop} (h : Inv s c P) (k : Bytes)
    (hk : ∀ e, lookup c k = some e → ¬ PoisonEntry s k e) :
    (cfindClosest s c k).2 = s.seekForPrev k ∧ Inv s (cfindClosest s c k).1 P := by
  unfold cfindClosest
  cases hl : lookup c k with
  | some e =>
    dsimp only
    refine ⟨?_, h⟩
    rcases h k e hl with hc | ⟨hp, _⟩
    · exact hc.symm
    · exact absurd hp (hk e hl)
  | none =>
    dsimp only
    cases hs : s.seekForPrev k with
    | none => exact ⟨rfl, h⟩
    | some r =>
      obtain ⟨f, d⟩ := r
      dsimp only
      refine ⟨rfl, fun k' e' hl' => ?_⟩
      rw [lookup_cupdate] at hl'
      by_cases h1 : f = k'
      · rw [if_pos (Or.inl h1)] at hl'
        cases hl'; subst h1
        exact Or.inl (clean_found hs)
      · by_cases h2 : k = k'
        · rw [if_pos (Or.inr h2)] at hl'
          cases hl'; subst h2
          exact Or.inl hs
        · rw [if_neg (by rintro (h' | h'); exact h1 h'; exact h2 h')] at hl'
          exact h k' e' hl'

theorem cfindClosest_clean {s : Store} {c : Cache} (h : Clean s c) (k : Bytes) :
    (cfindClosest s c k).2 = s.seekForPrev k ∧ Clean s (cfindClosest s c k).1 := by
  have hi := cfindClosest_inv (h.inv fun _ => False) k
    (fun e hl hp => poison_not_clean hp (h k e hl))
  refine ⟨hi.1, fun k' e' hl' => ?_⟩
  rcases hi.2 k' e' hl' with hc | ⟨_, hf⟩
  · exact hc
  · exact hf.elim

/-- after a closest-key lookup that found something, the cache knows the search key -/
theorem cfindClosest_known {s : Store} {c : Cache} {k : Bytes}
    (h : (cfindClosest s c k).2 ≠ none) : lookup (cfindClosest s c k).1 k ≠ none := by
  unfold cfindClosest at h ⊢
  cases hl : lookup c k with
  | some e => dsimp only; rw [hl]; exact Option.some_ne_none _
  | none =>
    rw [hl] at h
    dsimp only at h ⊢
    cases hs : s.seekForPrev k with
    | none => rw [hs] at h; exact absurd rfl h
    | some r =>
      obtain ⟨f, d⟩ := r
      dsimp only
      rw [lookup_cupdate, if_pos (Or.inr rfl)]
      exact Option.some_ne_none _

/-! ### `TryForEach` -/

/-- on a clean cache `TryForEach` is what it is on the database, and it keeps the cache clean: the
exact lookup it issues is of a key the closest-key lookup has just found -/
theorem ctryForEach_clean {s : Store} {c : Cache} (h : Clean s c) (k : Bytes) :
    (ctryForEach s c k).2 = tryForEach s k ∧ Clean s (ctryForEach s c k).1 := by
  obtain ⟨h1, h2⟩ := cfindClosest_clean h k
  have hkn := @cfindClosest_known s c k
  unfold ctryForEach tryForEach
  rw [← h1]
  rcases hc : cfindClosest s c k with ⟨c1, r⟩
  rw [hc] at h2 hkn
  dsimp only at h2 hkn ⊢
  cases r with
  | none => exact ⟨rfl, h2⟩
  | some fd =>
    obtain ⟨f, d⟩ := fd
    dsimp only
    by_cases hf : f = k
    · rw [if_pos hf, if_pos hf]
      obtain ⟨g1, g2⟩ := cget_clean h2 (k := k) (Or.inr (hkn (Option.some_ne_none _)))
      refine ⟨?_, g2⟩
      dsimp only
      rw [g1]
      have hs : s.seekForPrev k = some (f, d) := by rw [← h1, hc]
      have := (seekForPrev_some hs).2.2.1
      dsimp only at this
      rw [← hf, this]
    · rw [if_neg hf, if_neg hf]
      exact ⟨rfl, h2⟩

/-! ### runs -/

theorem runFrom_nil (s : Store) (c : Cache) : runFrom s c [] = [] := rfl

theorem runFrom_cons (s : Store) (c : Cache) (l : Lookup) (ls : List Lookup) :
    runFrom s c (l :: ls) = (step s c l).2 :: runFrom s (step s c l).1 ls := rfl

theorem step_exact (s : Store) (c : Cache) (k : Bytes) :
    step s c (.exact k) = ((cget s c k).1, .data (cget s c k).2) := rfl

theorem step_closest (s : Store) (c : Cache) (k : Bytes) :
    step s c (.closest k) = ((cfindClosest s c k).1, .ofClosest (cfindClosest s c k).2) := rfl

/-- the general run lemma: from a cache whose poisoned keys are in `P`, a run of plain lookups in
which no closest-key lookup is of an absent key that is in `P` or was looked up exactly earlier in
the run gives the uncached results -/
theorem runFrom_transparent (s : Store) : ∀ (ls : List Lookup) (c : Cache) (P : Bytes → Prop),
    Inv s c P → (∀ l ∈ ls, l.plain = true) →
    (∀ pre k post, ls = pre ++ Lookup.closest k :: post → (P k ∨ Lookup.exact k ∈ pre) → Present s k) →
    runFrom s c ls = runUncached s ls
  | [], _, _, _, _, _ => rfl
  | l :: ls, c, P, hinv, hplain, hok => by
    rw [runFrom_cons]
    unfold runUncached
    rw [List.map_cons]
    have hplain' : ∀ l' ∈ ls, l'.plain = true := fun l' hl' => hplain l' (List.mem_cons_of_mem _ hl')
    cases l with
    | exactReused k k' => exact absurd (hplain _ (List.mem_cons_self ..)) (by simp [Lookup.plain])
    | exact k =>
      obtain ⟨h1, h2⟩ := cget_inv hinv k
      rw [step_exact, uncached_exact]
      dsimp only
      rw [h1]
      congr 1
      refine runFrom_transparent s ls _ _ h2 hplain' fun pre k' post hls hP => ?_
      refine hok (Lookup.exact k :: pre) k' post (by rw [hls]; rfl) ?_
      rcases hP with (hP | hP) | hP
      · exact Or.inl hP
      · exact Or.inr (by rw [hP]; exact List.mem_cons_self ..)
      · exact Or.inr (List.mem_cons_of_mem _ hP)
    | closest k =>
      have hnp : ∀ e, lookup c k = some e → ¬ PoisonEntry s k e := by
        intro e hl hp
        rcases hinv k e hl with hc | ⟨_, hP⟩
        · exact poison_not_clean hp hc
        · exact hp.1 (hok [] k ls rfl (Or.inl hP))
      obtain ⟨h1, h2⟩ := cfindClosest_inv hinv k hnp
      rw [step_closest, uncached_closest]
      dsimp only
      rw [h1]
      congr 1
      refine runFrom_transparent s ls _ _ h2 hplain' fun pre k' post hls hP => ?_
      refine hok (Lookup.closest k :: pre) k' post (by rw [hls]; rfl) ?_
      rcases hP with hP | hP
      · exact Or.inl hP
      · exact Or.inr (List.mem_cons_of_mem _ hP)

/-- a closest-key lookup never adds a poisoned entry, right or wrong as its answer may be -/
theorem cfindClosest_keeps_inv {s : Store} {c : Cache} {P : Bytes → Prop} (h : Inv s c P) (k : Bytes) :
    Inv s (cfindClosest s c k).1 P := by
  by_cases hk : ∀ e, lookup c k = some e → ¬ PoisonEntry s k e
  · exact (cfindClosest_inv h k hk).2
  · unfold cfindClosest
    cases hl : lookup c k with
    | some e => exact h
    | none => exact absurd (fun e he => by rw [hl] at he; cases he) hk

/-- exact lookups are answered correctly at every position of every run of plain lookups: the cache
never makes an absent key look present (nor a present one absent) to `get` -/
theorem runFrom_exact_right (s : Store) : ∀ (ls : List Lookup) (c : Cache) (P : Bytes → Prop),
    Inv s c P → (∀ l ∈ ls, l.plain = true) → ∀ (i : Nat) (k : Bytes),
    ls[i]? = some (Lookup.exact k) → (runFrom s c ls)[i]? = some (Result.data (s.get k))
  | [], _, _, _, _, i, k, h => by simp at h
  | l :: ls, c, P, hinv, hplain, i, k, h => by
    rw [runFrom_cons]
    have hplain' : ∀ l' ∈ ls, l'.plain = true := fun l' hl' => hplain l' (List.mem_cons_of_mem _ hl')
    cases i with
    | zero =>
      rw [List.getElem?_cons_zero] at h ⊢
      cases h
      rw [step_exact]
      dsimp only
      rw [(cget_inv hinv k).1]
    | succ i =>
      rw [List.getElem?_cons_succ] at h ⊢
      cases l with
      | exactReused k1 k2 => exact absurd (hplain _ (List.mem_cons_self ..)) (by simp [Lookup.plain])
      | exact k1 =>
        rw [step_exact]
        exact runFrom_exact_right s ls _ _ (cget_inv hinv k1).2 hplain' i k h
      | closest k1 =>
        rw [step_closest]
        exact runFrom_exact_right s ls _ _ (cfindClosest_keeps_inv hinv k1) hplain' i k h

/-- the lookups of one request: a first part in which exact lookups are only of keys that exist (the
`ForEach` inside `TryForEach`), then exact lookups only (SOA / NS / additional-section rows) -/
theorem noClosestAfterAbsentExact_of_shape {s : Store} {A B : List Lookup}
    (hA : ∀ k, Lookup.exact k ∈ A → Present s k) (hB : ∀ l ∈ B, ∃ k, l = Lookup.exact k)
    (pre : List Lookup) (k : Bytes) (post : List Lookup)
    (h : A ++ B = pre ++ Lookup.closest k :: post) (hk : Lookup.exact k ∈ pre) : Present s k := by
  rcases List.append_eq_append_iff.1 h with ⟨a', hpre, hb⟩ | ⟨c', ha, hc⟩
  · obtain ⟨k', hk'⟩ := hB (Lookup.closest k) (by rw [hb]; simp)
    cases hk'
  · cases c' with
    | nil =>
      obtain ⟨k', hk'⟩ := hB (Lookup.closest k) (by rw [← List.nil_append B, ← hc]; simp)
      cases hk'
    | cons x c' => exact hA k (by rw [ha]; exact List.mem_append_left _ hk)

/-! ### the repaired lookup -/

theorem cfindClosestR_inv {s : Store} {c : Cache} (h : Inv s c fun _ => True) (k : Bytes) :
    (cfindClosestR s c k).2 = s.seekForPrev k ∧ Inv s (cfindClosestR s c k).1 fun _ => True := by
  have hseek : ∀ r : Cache × Option (Bytes × List Bytes),
      r = (match s.seekForPrev k with
        | none => (c, none)
        | some (f, d) => (cupdate c k f d, some (f, d))) →
      r.2 = s.seekForPrev k ∧ Inv s r.1 fun _ => True := by
    intro r hr
    cases hs : s.seekForPrev k with
    | none => rw [hs] at hr; rw [hr]; exact ⟨rfl, h⟩
    | some fd =>
      obtain ⟨f, d⟩ := fd
      rw [hs] at hr; rw [hr]
      dsimp only
      refine ⟨rfl, fun k' e' hl' => ?_⟩
      rw [lookup_cupdate] at hl'
      by_cases h1 : f = k'
      · rw [if_pos (Or.inl h1)] at hl'
        cases hl'; subst h1
        exact Or.inl (clean_found hs)
      · by_cases h2 : k = k'
        · rw [if_pos (Or.inr h2)] at hl'
          cases hl'; subst h2
          exact Or.inl hs
        · rw [if_neg (by rintro (h' | h'); exact h1 h'; exact h2 h')] at hl'
          exact h k' e' hl'
  unfold cfindClosestR
  cases hl : lookup c k with
  | none => exact hseek _ rfl
  | some e =>
    dsimp only
    by_cases hd : e.data ≠ []
    · rw [if_pos hd]
      refine ⟨?_, h⟩
      rcases h k e hl with hc | ⟨hp, _⟩
      · exact hc.symm
      · exact absurd (by rw [hp.2]) hd
    · rw [if_neg hd]
      exact hseek _ rfl

theorem runFromR_transparent (s : Store) : ∀ (ls : List Lookup) (c : Cache),
    Inv s c (fun _ => True) → runFromR s c ls = runUncached s ls
  | [], _, _ => rfl
  | l :: ls, c, hinv => by
    unfold runFromR runUncached
    rw [List.map_cons]
    have hg : ∀ k, (cget s c k).2 = s.get k ∧ Inv s (cget s c k).1 fun _ => True := fun k =>
      ⟨(cget_inv hinv k).1, (cget_inv hinv k).2.mono fun _ _ => trivial⟩
    cases l with
    | exact k =>
      show Result.data (cget s c k).2 :: runFromR s (cget s c k).1 ls = _
      rw [(hg k).1, uncached_exact]
      exact congrArg _ (runFromR_transparent s ls _ (hg k).2)
    | exactReused k k' =>
      show Result.data (cget s c k).2 :: runFromR s (cget s c k).1 ls = _
      rw [(hg k).1, uncached_exactReused]
      exact congrArg _ (runFromR_transparent s ls _ (hg k).2)
    | closest k =>
      obtain ⟨h1, h2⟩ := cfindClosestR_inv hinv k
      show Result.ofClosest (cfindClosestR s c k).2 :: runFromR s (cfindClosestR s c k).1 ls = _
      rw [h1, uncached_closest]
      exact congrArg _ (runFromR_transparent s ls _ h2)

/-! ### a checker for the hypothesis of the partial theorem -/

/-- `seen` = the absent keys looked up exactly so far; a closest-key lookup must not be of one of them -/
def okSeq (s : Store) : List Bytes → List Lookup → Bool
  | _, [] => true
  | seen, .exact k :: ls => okSeq s (if Present s k then seen else k :: seen) ls
  | seen, .closest k :: ls => !seen.contains k && okSeq s seen ls
  | seen, .exactReused _ _ :: ls => okSeq s seen ls

theorem okSeq_sound (s : Store) : ∀ (ls : List Lookup) (seen : List Bytes), okSeq s seen ls = true →
    ∀ pre k post, ls = pre ++ Lookup.closest k :: post → (k ∈ seen ∨ Lookup.exact k ∈ pre) → Present s k
  | [], _, _, pre, k, post, hls, _ => by simp at hls
  | l :: ls, seen, hok, pre, k, post, hls, hk => by
    cases pre with
    | nil =>
      rw [List.nil_append] at hls
      obtain ⟨rfl, rfl⟩ := List.cons.inj hls
      have hk' : k ∈ seen := hk.resolve_right (by simp)
      unfold okSeq at hok
      rw [Bool.and_eq_true] at hok
      have : seen.contains k = true := List.contains_iff_mem.2 hk'
      rw [this] at hok
      exact absurd hok.1 (by simp)
    | cons x pre' =>
      rw [List.cons_append] at hls
      obtain ⟨rfl, hls'⟩ := List.cons.inj hls
      cases l with
      | exact k1 =>
        unfold okSeq at hok
        by_cases hp : Present s k1
        · rw [if_pos hp] at hok
          rcases hk with hk | hk
          · exact okSeq_sound s ls _ hok pre' k post hls' (Or.inl hk)
          · rcases List.mem_cons.1 hk with h1 | h1
            · cases h1; exact hp
            · exact okSeq_sound s ls _ hok pre' k post hls' (Or.inr h1)
        · rw [if_neg hp] at hok
          refine okSeq_sound s ls _ hok pre' k post hls' ?_
          rcases hk with hk | hk
          · exact Or.inl (List.mem_cons_of_mem _ hk)
          · rcases List.mem_cons.1 hk with h1 | h1
            · cases h1; exact Or.inl (List.mem_cons_self ..)
            · exact Or.inr h1
      | closest k1 =>
        unfold okSeq at hok
        rw [Bool.and_eq_true] at hok
        refine okSeq_sound s ls _ hok.2 pre' k post hls' (hk.imp id fun h => ?_)
        rcases List.mem_cons.1 h with h1 | h1
        · cases h1
        · exact h1
      | exactReused k1 k2 =>
        unfold okSeq at hok
        refine okSeq_sound s ls _ hok pre' k post hls' (hk.imp id fun h => ?_)
        rcases List.mem_cons.1 h with h1 | h1
        · cases h1
        · exact h1

/-! ### the exact condition

For a key `k` that does not exist, only lookups of `k` itself change what the cache holds for `k`,
and only the first one that stores something: an exact lookup stores the poisoned entry, a
closest-key lookup a clean one (nothing when no key is `≤ k`). -/

/-- what the cache holds under an absent key -/
inductive KState where
  | empty | clean | poison
deriving DecidableEq, Repr

def kstep (s : Store) (k : Bytes) : KState → Lookup → KState
  | .empty, .exact k' => if k' = k then .poison else .empty
  | .empty, .closest k' => if k' = k ∧ s.seekForPrev k ≠ none then .clean else .empty
  | st, _ => st

/-- … after the run `pre` through a fresh context, computed from the run alone -/
def kstate (s : Store) (k : Bytes) (pre : List Lookup) : KState := pre.foldl (kstep s k) .empty

/-- every closest-key lookup is of a key that exists or that is not poisoned by the run before it -/
def safeFrom (s : Store) : List Lookup → List Lookup → Bool
  | _, [] => true
  | pre, l :: ls =>
    (match l with
      | .closest k => decide (Present s k) || kstate s k pre != .poison
      | _ => true) && safeFrom s (pre ++ [l]) ls

def absOf (c : Cache) (k : Bytes) : KState :=
  match lookup c k with
  | none => .empty
  | some e => if e = ⟨k, []⟩ then .poison else .clean

theorem kstep_empty_exact (s : Store) (k k' : Bytes) :
    kstep s k .empty (.exact k') = if k' = k then .poison else .empty := rfl

theorem kstep_empty_closest (s : Store) (k k' : Bytes) :
    kstep s k .empty (.closest k') = if k' = k ∧ s.seekForPrev k ≠ none then .clean else .empty := rfl

theorem kstate_snoc (s : Store) (k : Bytes) (pre : List Lookup) (l : Lookup) :
    kstate s k (pre ++ [l]) = kstep s k (kstate s k pre) l := by
  unfold kstate; rw [List.foldl_append]; rfl

theorem kstep_of_ne_empty {s : Store} {k : Bytes} {st : KState} (h : st ≠ .empty) (l : Lookup) :
    kstep s k st l = st := by
  cases st with
  | empty => exact absurd rfl h
  | clean => cases l <;> rfl
  | poison => cases l <;> rfl

theorem kstep_other {s : Store} {k : Bytes} (st : KState) {l : Lookup} (h : l.key ≠ k) (hp : l.plain = true) :
    kstep s k st l = st := by
  cases st with
  | clean => cases l <;> rfl
  | poison => cases l <;> rfl
  | empty =>
    cases l with
    | exact k' => rw [kstep_empty_exact, if_neg (show ¬ k' = k from h)]
    | closest k' => rw [kstep_empty_closest, if_neg (fun h' => h h'.1)]
    | exactReused k' k'' => rfl

theorem absOf_ne_empty {c : Cache} {k : Bytes} {e : Entry} (h : lookup c k = some e) : absOf c k ≠ .empty := by
  unfold absOf; rw [h]; dsimp only
  by_cases he : e = ⟨k, []⟩
  · rw [if_pos he]; exact fun h => KState.noConfusion h
  · rw [if_neg he]; exact fun h => KState.noConfusion h

theorem absOf_of_lookup_eq {c c' : Cache} {k : Bytes} (h : lookup c' k = lookup c k) : absOf c' k = absOf c k := by
  unfold absOf; rw [h]

/-- one lookup moves the cache's state of an absent key as `kstep` says -/
theorem step_sim (s : Store) (c : Cache) (l : Lookup) (hl : l.plain = true) (k : Bytes) (hk : ¬ Present s k) :
    absOf (step s c l).1 k = kstep s k (absOf c k) l := by
  cases l with
  | exactReused k1 k2 => exact absurd hl (by simp [Lookup.plain])
  | exact k' =>
    rw [step_exact]; dsimp only
    unfold cget
    cases hl' : lookup c k' with
    | some e =>
      dsimp only
      by_cases hkk : k' = k
      · subst hkk; rw [kstep_of_ne_empty (absOf_ne_empty hl')]
      · rw [kstep_other _ (by exact hkk) rfl]
    | none =>
      dsimp only
      by_cases hkk : k' = k
      · subst hkk
        have h0 : absOf c k' = .empty := by unfold absOf; rw [hl']
        rw [h0, kstep_empty_exact, if_pos rfl]
        unfold absOf
        rw [lookup_cupdate, if_pos (Or.inl rfl), get_eq_nil_of_absent hk]
        dsimp only; rw [if_pos rfl]
      · rw [kstep_other _ (by exact hkk) rfl]
        apply absOf_of_lookup_eq
        rw [lookup_cupdate, if_neg (by rintro (h | h) <;> exact hkk h)]
  | closest k' =>
    rw [step_closest]; dsimp only
    unfold cfindClosest
    cases hl' : lookup c k' with
    | some e =>
      dsimp only
      by_cases hkk : k' = k
      · subst hkk; rw [kstep_of_ne_empty (absOf_ne_empty hl')]
      · rw [kstep_other _ (by exact hkk) rfl]
    | none =>
      dsimp only
      cases hs : s.seekForPrev k' with
      | none =>
        dsimp only
        by_cases hkk : k' = k
        · subst hkk
          have h0 : absOf c k' = .empty := by unfold absOf; rw [hl']
          rw [h0, kstep_empty_closest, if_neg (fun h => h.2 hs)]
        · rw [kstep_other _ (by exact hkk) rfl]
      | some fd =>
        obtain ⟨f, d⟩ := fd
        dsimp only
        have hfk : f ≠ k := fun h => hk (h ▸ seekForPrev_key_mem hs)
        by_cases hkk : k' = k
        · subst hkk
          have h0 : absOf c k' = .empty := by unfold absOf; rw [hl']
          rw [h0, kstep_empty_closest, if_pos ⟨rfl, by rw [hs]; exact Option.some_ne_none _⟩]
          unfold absOf
          rw [lookup_cupdate, if_pos (Or.inr rfl)]
          dsimp only
          rw [if_neg (fun h => hfk (congrArg Entry.key h))]
        · rw [kstep_other _ (by exact hkk) rfl]
          apply absOf_of_lookup_eq
          rw [lookup_cupdate, if_neg (by rintro (h | h); exact hfk h; exact hkk h)]

/-- a closest-key lookup is right exactly when its key exists or is not poisoned -/
theorem closest_right_iff {s : Store} {c : Cache} (h : Inv s c fun _ => True) (k : Bytes) :
    Result.ofClosest (cfindClosest s c k).2 = Result.ofClosest (s.seekForPrev k) ↔
      (Present s k ∨ absOf c k ≠ .poison) := by
  cases hl : lookup c k with
  | none =>
    have : (cfindClosest s c k).2 = s.seekForPrev k :=
      (cfindClosest_inv h k (fun e he => by rw [hl] at he; cases he)).1
    rw [this]
    exact ⟨fun _ => Or.inr (by unfold absOf; rw [hl]; exact fun h => KState.noConfusion h), fun _ => rfl⟩
  | some e =>
    have hres : (cfindClosest s c k).2 = some (e.key, e.data) := by unfold cfindClosest; rw [hl]
    rcases h k e hl with hc | ⟨hp, _⟩
    · have : (cfindClosest s c k).2 = s.seekForPrev k := by rw [hres]; exact hc.symm
      rw [this]
      refine ⟨fun _ => ?_, fun _ => rfl⟩
      by_cases he : e = ⟨k, []⟩
      · left; rw [he] at hc; exact seekForPrev_key_mem hc
      · right; unfold absOf; rw [hl]; dsimp only; rw [if_neg he]; exact fun h => KState.noConfusion h
    · rw [hres]
      constructor
      · intro heq
        exfalso
        rw [hp.2] at heq
        cases hs : s.seekForPrev k with
        | none => rw [hs] at heq; cases heq
        | some fd =>
          obtain ⟨f, d⟩ := fd
          rw [hs] at heq
          unfold Result.ofClosest at heq
          cases heq
          exact hp.1 (seekForPrev_key_mem hs)
      · rintro (hpr | hne)
        · exact absurd hpr hp.1
        · exfalso; apply hne; unfold absOf; rw [hl]; dsimp only; rw [if_pos hp.2]

theorem runFrom_transparent_iff (s : Store) : ∀ (ls pre : List Lookup) (c : Cache),
    Inv s c (fun _ => True) → (∀ k, ¬ Present s k → absOf c k = kstate s k pre) →
    (∀ l ∈ ls, l.plain = true) →
    (runFrom s c ls = runUncached s ls ↔ safeFrom s pre ls = true)
  | [], _, _, _, _, _ => ⟨fun _ => rfl, fun _ => rfl⟩
  | l :: ls, pre, c, hinv, habs, hplain => by
    have hplain' : ∀ l' ∈ ls, l'.plain = true := fun l' hl' => hplain l' (List.mem_cons_of_mem _ hl')
    have hl : l.plain = true := hplain l (List.mem_cons_self ..)
    have habs' : ∀ k, ¬ Present s k → absOf (step s c l).1 k = kstate s k (pre ++ [l]) := fun k hk => by
      rw [kstate_snoc, ← habs k hk]; exact step_sim s c l hl k hk
    rw [runFrom_cons]
    unfold runUncached safeFrom
    rw [List.map_cons, List.cons_eq_cons, Bool.and_eq_true]
    cases l with
    | exactReused k1 k2 => exact absurd hl (by simp [Lookup.plain])
    | exact k =>
      have hinv' : Inv s (step s c (.exact k)).1 fun _ => True :=
        (cget_inv hinv k).2.mono fun _ _ => trivial
      have ih := runFrom_transparent_iff s ls (pre ++ [.exact k]) _ hinv' habs' hplain'
      have h1 : (step s c (.exact k)).2 = uncached s (.exact k) := by
        rw [step_exact, uncached_exact]; dsimp only; rw [(cget_inv hinv k).1]
      unfold runUncached at ih
      exact ⟨fun h => ⟨rfl, ih.1 h.2⟩, fun h => ⟨h1, ih.2 h.2⟩⟩
    | closest k =>
      have hinv' : Inv s (step s c (.closest k)).1 fun _ => True := cfindClosest_keeps_inv hinv k
      have ih := runFrom_transparent_iff s ls (pre ++ [.closest k]) _ hinv' habs' hplain'
      unfold runUncached at ih
      have h1 : (step s c (.closest k)).2 = uncached s (.closest k) ↔
          (decide (Present s k) || kstate s k pre != .poison) = true := by
        rw [step_closest, uncached_closest]; dsimp only
        rw [closest_right_iff hinv k, Bool.or_eq_true, decide_eq_true_iff, bne_iff_ne]
        by_cases hp : Present s k
        · exact ⟨fun _ => Or.inl hp, fun _ => Or.inl hp⟩
        · rw [habs k hp]
      exact ⟨fun h => ⟨h1.1 h.1, ih.1 h.2⟩, fun h => ⟨h1.2 h.1, ih.2 h.2⟩⟩

end DnsVerif.CtxCache
