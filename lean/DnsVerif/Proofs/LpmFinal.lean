/-
C03.4, assembly, part 2: `Rearrange()` of a well-formed subnet list of one map yields a well-formed
table whose predecessor search is `Spec.lpm`; the database lookup on a store holding that table.
-/
import DnsVerif.Proofs.LpmRearr
import DnsVerif.Proofs.LpmFamWF
import DnsVerif.Proofs.LpmFamMono
import DnsVerif.Proofs.LpmInner
import DnsVerif.Proofs.LpmStore

namespace DnsVerif.Lpm
open DnsVerif DnsVerif.Rearr DnsVerif.Spec DnsVerif.Loc DnsVerif.Codec

theorem famF_loc_len {S : List SubnetDecl} (h : SubsWF S) :
    ∀ R ∈ famF S, ∀ l, R.loc = some l → l.length = 2 := by
  intro R hR l hl
  rcases (mem_famF h).1 hR with ⟨s, hs, rfl⟩ | ⟨⟨s, hs, _, rfl⟩, _⟩ | ⟨rfl, _⟩ | ⟨rfl, _⟩ | ⟨rfl, _, _⟩
  · simp only [blk, Option.some.injEq] at hl; rw [← hl]; exact h.loc_len s hs
  · simp only [half, Option.some.injEq] at hl; rw [← hl]; exact h.loc_len s hs
  · cases hl
  · cases hl
  · cases hl

/-- **rearrange_lpm, table form**: for the subnets of one map satisfying W0 and W1, `Rearrange()`
succeeds, its table is well formed (in particular: pairwise distinct database keys), and the
predecessor of `(a, req)` carries exactly the answer of `Spec.lpm` — for every address `a < 2^128`
and prefix length `req < 256` such that `a` is masked to `req` -/
theorem rearrange_table {S : List SubnetDecl} (h : SubsWF S) (hne : S ≠ []) {m : Bytes}
    (hm : ∀ s ∈ S, s.mapID = m) :
    ∃ P, rearrange (addAll S) = some P ∧ TableWF P ∧
      ∀ a req, a < 2 ^ 128 → req < 256 → a % 2 ^ (128 - req) = 0 →
        lookupRes P a req = lpmRes S m a req := by
  have hF := famF_wf h
  have hW := famF_monoW h
  have hM := markersOf_wf h
  obtain ⟨GO, hrea, hsorted, hmem, hall⟩ := rearrange_spec h hne
  refine ⟨_, hrea, ?_, ?_⟩
  · have hsub : ∀ p ∈ squash [] (GO.map outPt), ∃ gh ∈ GO, p = outPt gh := by
      intro p hp
      obtain ⟨gh, hgh, rfl⟩ := List.mem_map.1 ((squash_sublist _).subset hp)
      exact ⟨gh, hgh, rfl⟩
    have hks := table_sorted hF hW hM hsorted hmem
    refine ⟨?_, ?_, ?_, ?_, ?_⟩
    · intro p hp
      obtain ⟨gh, hgh, rfl⟩ := hsub p hp
      exact (outPt_facts hF hM (hmem gh hgh)).1
    · intro p hp
      obtain ⟨gh, hgh, rfl⟩ := hsub p hp
      have := (outPt_facts hF hM (hmem gh hgh)).2.1
      omega
    · intro p hp l hl
      obtain ⟨gh, hgh, rfl⟩ := hsub p hp
      obtain ⟨R, hR, hloc, _⟩ := (outPt_facts hF hM (hmem gh hgh)).2.2.2
      exact famF_loc_len h R hR l (hloc ▸ hl)
    · refine List.Pairwise.imp ?_ hks
      intro u v huv heq
      rw [heq, keyLt_irrefl] at huv; cases huv
    · have h0 := sweep_lookup hF hW hM hsorted hmem hall (a := 0) (req := 0) (by unfold TOP; omega)
        (by omega) (fun R _ hlt => absurd hlt (Nat.not_lt_zero _))
      obtain ⟨H, _, _, hsome⟩ := h0
      obtain ⟨p, hp⟩ := Option.isSome_iff_exists.1 hsome
      obtain ⟨hpm, hle⟩ := lookup_mem hp
      refine ⟨p, hpm, ?_⟩
      unfold keyLe keyLt at hle
      simp only [Bool.not_eq_true', decide_eq_false_iff_not] at hle
      apply Prod.ext <;> simp only <;> omega
  · intro a req ha hreq hal
    have hA := align_hA h hal
    obtain ⟨H, hInner, hres, _⟩ := sweep_lookup hF hW hM hsorted hmem hall (a := a) (req := req)
      (by unfold TOP; exact ha) hreq hA
    rw [hres]
    obtain ⟨h1, h2, h3, h4, h5⟩ := hInner
    exact inner_eq_lpm h hm hal h1 h2 h3 h4 h5

/-- the client prefix length the lookups use: `Mask.Size()` + 96 for IPv4 clients, as a byte -/
def reqOf (c : ClientNet) : Nat := (c.maskOnes + if isIPv4 c then 96 else 0) % 256

/-- **rearrange_lpm**: on every store that holds the range points of the map (`RdbRep`), the
RocksDB driver's `GetLocationByMap` returns `(location, length)` of `Spec.lpm`'s winner, or
`(none, 0)` — for every client whose (masked) address is masked to its prefix length (W4) -/
theorem rearrange_lpm_store {S : List SubnetDecl} (h : SubsWF S) (hne : S ≠ []) {m : Bytes}
    (hm2 : m.length = 2) (hm : ∀ s ∈ S, s.mapID = m) :
    ∃ P, rearrange (addAll S) = some P ∧
      ∀ (s : Store), RdbRep s m P → ∀ (c : ClientNet), (maskedClientIP c).length = 16 →
        ipToNat (maskedClientIP c) % 2 ^ (128 - reqOf c) = 0 →
        getLocationRdb s c m = .ok (lpmRes S m (ipToNat (maskedClientIP c)) (reqOf c)) := by
  obtain ⟨P, hP, hwf, hlk⟩ := rearrange_table h hne hm
  refine ⟨P, hP, fun s hrep c hc hal => ?_⟩
  rw [getLocationRdb_eq_lookupRes hrep hwf hm2 c hc]
  have hlt : ipToNat (maskedClientIP c) < 2 ^ 128 := by
    have := ipToNat_lt (maskedClientIP c)
    rwa [hc] at this
  have hreq : reqOf c < 256 := Nat.mod_lt _ (by omega)
  exact congrArg Res.ok (hlk _ _ hlt hreq hal)

end DnsVerif.Lpm

namespace DnsVerif.Lpm
open DnsVerif DnsVerif.Rearr DnsVerif.Spec DnsVerif.Loc DnsVerif.Codec

/-! ### the single-map database produced by `SubnetRanger.MarshalMap` -/

theorem mapIds_foldl_single (m : Bytes) :
    ∀ (rest : List Subnet), (∀ x ∈ rest, x.lmap = m) →
      rest.foldl (fun acc s => if acc.contains s.lmap then acc else acc ++ [s.lmap]) [m] = [m] := by
  intro rest
  induction rest with
  | nil => intro _; rfl
  | cons x xs ih =>
    intro h
    rw [List.foldl_cons, h x List.mem_cons_self]
    have : ([m] : List Bytes).contains m = true := by simp
    rw [if_pos this]
    exact ih fun y hy => h y (List.mem_cons_of_mem _ hy)

theorem mapIds_single {subs : List Subnet} {m : Bytes} (hne : subs ≠ []) (hm : ∀ x ∈ subs, x.lmap = m) :
    mapIds subs = [m] := by
  cases subs with
  | nil => exact absurd rfl hne
  | cons x xs =>
    unfold mapIds
    rw [List.foldl_cons, hm x List.mem_cons_self]
    have : ([] : List Bytes).contains m = false := rfl
    rw [this]
    simp only [Bool.false_eq_true, if_false, List.nil_append]
    exact mapIds_foldl_single m xs fun y hy => hm y (List.mem_cons_of_mem _ hy)

theorem rangePointKVs_single {subs : List Subnet} {m : Bytes} (hne : subs ≠ [])
    (hm : ∀ x ∈ subs, x.lmap = m) :
    rangePointKVs subs = (rearrange (addAll (subs.map declOf))).map fun pts => pts.map (pointKV m) := by
  unfold rangePointKVs
  rw [mapIds_single hne hm]
  have hfil : subs.filter (fun x => decide (x.lmap = m)) = subs :=
    List.filter_eq_self.2 fun x hx => decide_eq_true (hm x hx)
  have hadd : subs.foldl (fun r s => addLocation r (ipToNat s.ip) s.ones (s.lo.getD [0, 0])) ({} : Rearranger) =
      addAll (subs.map declOf) := by
    unfold addAll
    rw [List.foldl_map]
    rfl
  simp only [List.foldlM_cons, List.foldlM_nil, hfil, hadd]
  cases rearrange (addAll (subs.map declOf)) <;> rfl

/-- **rearrange_lpm** for the database the compiler writes for one map: the range-point records of
`SubnetRanger.MarshalMap` exist (the sweep does not run out of stack) and the RocksDB lookup on
them is `Spec.lpm` -/
theorem rearrange_lpm_single {subs : List Subnet} {m : Bytes} (hm2 : m.length = 2) (hne : subs ≠ [])
    (hm : ∀ x ∈ subs, x.lmap = m) (h : SubsWF (subs.map declOf)) :
    ∃ kvs, rangePointKVs subs = some kvs ∧
      ∀ (c : ClientNet), (maskedClientIP c).length = 16 →
        ipToNat (maskedClientIP c) % 2 ^ (128 - reqOf c) = 0 →
        getLocationRdb (Store.ofKVs kvs) c m =
          .ok (lpmRes (subs.map declOf) m (ipToNat (maskedClientIP c)) (reqOf c)) := by
  have hne' : subs.map declOf ≠ [] := by
    cases subs with
    | nil => exact absurd rfl hne
    | cons x xs => simp
  have hm' : ∀ s ∈ subs.map declOf, s.mapID = m := by
    intro s hs
    obtain ⟨x, hx, rfl⟩ := List.mem_map.1 hs
    exact hm x hx
  obtain ⟨P, hP, hwf, hlk⟩ := rearrange_table h hne' hm'
  refine ⟨P.map (pointKV m), ?_, fun c hc hal => ?_⟩
  · rw [rangePointKVs_single hne hm, hP]; rfl
  · rw [getLocationRdb_eq_lookupRes (rdbRep_ofKVs hwf) hwf hm2 c hc]
    have hlt : ipToNat (maskedClientIP c) < 2 ^ 128 := by
      have := ipToNat_lt (maskedClientIP c)
      rwa [hc] at this
    have hreq : reqOf c < 256 := Nat.mod_lt _ (by omega)
    exact congrArg Res.ok (hlk _ _ hlt hreq hal)

/-- W0 from the parser's guarantee: a 16-byte address with host bits cleared is aligned -/
theorem aligned_of_masked {ip : List UInt8} {ones : Nat} (h16 : ip.length = 16) (hle : ones ≤ 128)
    (hm : Net.maskIP ip ones = ip) : ipToNat ip % 2 ^ (128 - ones) = 0 := by
  have := congrArg ipToNat hm
  rw [ipToNat_maskIP h16 hle] at this
  rw [← this]
  exact Nat.mul_mod_left _ _

/-- W4 holds for the regular clients: an address that the driver masks with a valid mask of the
right size is masked to its prefix length -/
theorem client_aligned (c : ClientNet) (h16 : c.ip16.length = 16) (hv : c.maskValid = true)
    (hreg : (c.maskBits = 32 ∧ isIPv4 c = true ∧ c.maskOnes ≤ 32) ∨
            (c.maskBits = 128 ∧ isIPv4 c = false ∧ c.maskOnes ≤ 128)) :
    (maskedClientIP c).length = 16 ∧ ipToNat (maskedClientIP c) % 2 ^ (128 - reqOf c) = 0 := by
  unfold maskedClientIP reqOf
  rw [if_neg (by simp [hv])]
  rcases hreg with ⟨hb, h4, ho⟩ | ⟨hb, h4, ho⟩
  · have h4' : c.ipLen4 = true ∨ c.ip16.take 12 = Net.v4Prefix := by
      unfold isIPv4 at h4
      simpa using h4
    rw [if_pos hb, if_pos h4', h4]
    simp only [if_true]
    have e : (c.maskOnes + 96) % 256 = c.maskOnes + 96 := Nat.mod_eq_of_lt (by omega)
    rw [e, maskIP_length, ipToNat_maskIP h16 (by omega)]
    exact ⟨h16, Nat.mul_mod_left _ _⟩
  · have h4' : c.ipLen4 = false := by
      unfold isIPv4 at h4
      cases hl : c.ipLen4 with
      | false => rfl
      | true => rw [hl] at h4; simp at h4
    rw [if_neg (by omega), h4', h4]
    simp only [Bool.false_eq_true, if_false, Nat.add_zero]
    have e : c.maskOnes % 256 = c.maskOnes := Nat.mod_eq_of_lt (by omega)
    rw [e, maskIP_length, ipToNat_maskIP h16 ho]
    exact ⟨h16, Nat.mul_mod_left _ _⟩

end DnsVerif.Lpm
