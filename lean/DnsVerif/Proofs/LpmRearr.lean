/-
C03.4, assembly, part 1: `Rearrange()` on the points that `AddLocation` generated is the ghost
sweep of `famOf S`; the sorted ghost events form a `Cut` at 0.
-/
import DnsVerif.Proofs.LpmRdb
import DnsVerif.Proofs.LpmConc

namespace DnsVerif.Lpm
open DnsVerif DnsVerif.Rearr DnsVerif.Spec

/-! ### the events of a well-formed family have pairwise distinct ranks -/

theorem gevents_mem {R : Rng} {g : GEv} (h : g ∈ gevents R) :
    g.r = R ∧ (g.kind = .stop → R.hi ≠ TOP) := by
  unfold gevents at h
  rcases List.mem_cons.1 h with h | h
  · rw [h]; exact ⟨rfl, fun hk => by cases hk⟩
  · by_cases hTop : R.hi = TOP
    · rw [if_pos hTop] at h; cases h
    · rw [if_neg hTop] at h
      rw [List.mem_singleton.1 h]; exact ⟨rfl, fun _ => hTop⟩

theorem start_mem_gevents (R : Rng) : (⟨R, .start⟩ : GEv) ∈ gevents R := List.mem_cons_self
theorem stop_mem_gevents {R : Rng} (h : R.hi ≠ TOP) : (⟨R, .stop⟩ : GEv) ∈ gevents R := by
  unfold gevents; rw [if_neg h]; simp

theorem rank_ne_of_ne {F : List Rng} (hF : RngWF F) {R R' : Rng} (hR : R ∈ F) (hR' : R' ∈ F)
    (hne : R ≠ R') {g g' : GEv} (hg : g ∈ gevents R) (hg' : g' ∈ gevents R') : grank g ≠ grank g' := by
  obtain ⟨b1, b2, b3⟩ := hF.bounds R hR
  obtain ⟨c1, c2, c3⟩ := hF.bounds R' hR'
  have hN1 := hF.nest R hR R' hR' hne
  have hN2 := hF.nest R' hR' R hR (Ne.symm hne)
  have hlam := hF.lam R hR R' hR'
  obtain ⟨e1, s1⟩ := gevents_mem hg
  obtain ⟨e2, s2⟩ := gevents_mem hg'
  obtain ⟨r, k⟩ := g
  obtain ⟨r', k'⟩ := g'
  simp only at e1 e2 s1 s2
  subst e1; subst e2
  unfold Rng.sub at hN1 hN2 hlam
  cases k <;> cases k' <;> simp only [grank, rank, GEv.pt] <;> intro heq
  · -- start / start
    have h1 : r.lo = r'.lo := by omega
    have h2 : r.len = r'.len := by omega
    rcases hlam with h | h | h | h
    · have := (hN1 h).1 h1; omega
    · have := (hN2 h).1 h1.symm; omega
    · omega
    · omega
  · omega
  · omega
  · -- stop / stop
    have h1 : r.hi = r'.hi := by omega
    have h2 : r.len = r'.len := by omega
    have t1 := s1 rfl
    have t2 := s2 rfl
    rcases hlam with h | h | h | h
    · have := (hN1 h).2 h1 t1; omega
    · have := (hN2 h).2 h1.symm t2; omega
    · omega
    · omega

theorem events_rank_inj {F : List Rng} (hF : RngWF F) :
    (F.flatMap gevents).Pairwise fun g g' => grank g ≠ grank g' := by
  rw [List.pairwise_flatMap]
  constructor
  · intro R hR
    have hlt := srank_lt_erank hF hR
    unfold gevents
    by_cases hTop : R.hi = TOP
    · rw [if_pos hTop]; simp
    · rw [if_neg hTop]
      simp only [List.pairwise_cons, List.mem_singleton, forall_eq, List.not_mem_nil, false_imp_iff,
        implies_true, List.Pairwise.nil, and_true]
      rw [grank_start, grank_stop]; omega
  · have hpw : F.Pairwise (· ≠ ·) := hF.nodup
    refine List.Pairwise.imp_of_mem ?_ hpw
    intro R R' hR hR' hne g hg g' hg'
    exact rank_ne_of_ne hF hR hR' hne hg hg'

/-- the sorted ghost events of a well-formed family form a cut at 0 -/
theorem cut_sortBy {F : List Rng} (hF : RngWF F) :
    Cut F 0 (sortBy GEv.pt (F.flatMap gevents)) := by
  have hperm := sortBy_perm GEv.pt (F.flatMap gevents)
  have hmemE : ∀ g, g ∈ sortBy GEv.pt (F.flatMap gevents) ↔ ∃ R ∈ F, g ∈ gevents R := by
    intro g
    rw [hperm.mem_iff, List.mem_flatMap]
  have hml : ∀ g ∈ F.flatMap gevents, g.pt.maskLen ≤ 255 := by
    intro g hg
    obtain ⟨R, hR, hgR⟩ := List.mem_flatMap.1 hg
    obtain ⟨e, _⟩ := gevents_mem hgR
    have := (hF.bounds R hR).2.2
    obtain ⟨r, k⟩ := g
    simp only at e; subst e
    cases k <;> simp only [GEv.pt] <;> omega
  refine ⟨?_, ?_, ?_, ?_⟩
  · exact sortBy_strict GEv.pt _ hml (events_rank_inj hF)
  · intro g hg
    obtain ⟨R, hR, hgR⟩ := (hmemE g).1 hg
    obtain ⟨e, hs⟩ := gevents_mem hgR
    refine ⟨?_, e ▸ hR, fun hk => e ▸ hs hk⟩
    obtain ⟨b1, b2, b3⟩ := hF.bounds R hR
    obtain ⟨r, k⟩ := g
    simp only at e; subst e
    cases k <;> simp only [grank, rank, GEv.pt] <;> omega
  · intro R hR _
    exact (hmemE _).2 ⟨R, hR, start_mem_gevents R⟩
  · intro R hR hTop _
    exact (hmemE _).2 ⟨R, hR, stop_mem_gevents hTop⟩

/-! ### `AddLocation` generates the events of `rngOf` -/

theorem blockSize_pos' (o : Nat) : 0 < 2 ^ (128 - o) := Nat.two_pow_pos _

/-- W2 for one subnet: network `::` only as `::/0`, network `::ffff:0:0` only as `0.0.0.0/0` -/
def W2At (s : SubnetDecl) : Prop := (s.net = 0 → s.ones = 0) ∧ (s.net = firstIPv4 → s.ones = 96)

/-- `AddLocation` before the repair "only ::/0 and 0.0.0.0/0 are default routes": the two
default-route tests looked at the network address only -/
def addLocationOld (r : Rearranger) (ip ones : Nat) (loc : Bytes) : Rearranger :=
  if ip = 0 then
    { r with hasV6 := true,
             points := r.points ++ [⟨0, ones, some loc, .start⟩, ⟨afterIPv4, ones, some loc, .start⟩] }
  else if ip = firstIPv4 then
    { r with hasV4 := true,
             points := r.points ++ [⟨firstIPv4, ones, some loc, .start⟩, ⟨afterIPv4, ones, some loc, .stop⟩] }
  else
    let size := 2 ^ (128 - ones)
    let start := ip / size * size
    let last := start + size - 1
    { r with points := r.points ++ [⟨start, ones, some loc, .start⟩]
        ++ (if last = veryLastIP then [] else [⟨last + 1, ones, none, .stop⟩]) }

/-- under W2 the repaired `AddLocation` coincides with the old one -/
theorem addLocation_eq_old_of_W2 (r : Rearranger) {s : SubnetDecl} (hw : W2At s) :
    addLocation r s.net s.ones s.loc = addLocationOld r s.net s.ones s.loc := by
  unfold addLocation addLocationOld
  by_cases h0 : s.net = 0
  · rw [if_pos ⟨h0, hw.1 h0⟩, if_pos h0]
  · rw [if_neg (fun h => h0 h.1), if_neg h0]
    by_cases h4 : s.net = firstIPv4
    · rw [if_pos ⟨h4, hw.2 h4⟩, if_pos h4]
    · rw [if_neg (fun h => h4 h.1), if_neg h4]

theorem addLocation_eq (r : Rearranger) (s : SubnetDecl) :
    addLocation r s.net s.ones s.loc =
      { hasV4 := r.hasV4 || decide (s.net = firstIPv4 ∧ s.ones = 96),
        hasV6 := r.hasV6 || decide (s.net = 0 ∧ s.ones = 0),
        points := r.points ++ ((rngOf s).flatMap gevents).map GEv.pt } := by
  unfold addLocation rngOf
  by_cases h0 : s.net = 0 ∧ s.ones = 0
  · rw [if_pos h0, if_pos h0]
    simp [h0, gevents, GEv.pt]
  · rw [if_neg h0, if_neg h0]
    by_cases h4 : s.net = firstIPv4 ∧ s.ones = 96
    · rw [if_pos h4, if_pos h4]
      have : afterIPv4 ≠ TOP := by decide
      simp [h4, gevents, GEv.pt, this]
    · rw [if_neg h4, if_neg h4]
      have hsz := blockSize_pos' s.ones
      simp only [h0, h4, decide_false, Bool.or_false, List.flatMap_cons, List.flatMap_nil,
        List.append_nil]
      unfold gevents blockStart blockSize TOP veryLastIP
      generalize 2 ^ (128 - s.ones) = sz at hsz ⊢
      generalize s.net / sz * sz = st
      by_cases hl : st + sz - 1 = 2 ^ 128 - 1
      · have : st + sz = 2 ^ 128 := by omega
        rw [if_pos hl]
        simp only [this, if_true, List.map_cons, List.map_nil, GEv.pt, List.append_nil]
      · have hne : ¬ st + sz = 2 ^ 128 := by omega
        have e : st + sz - 1 + 1 = st + sz := by omega
        rw [if_neg hl]
        simp only [hne, if_false, List.map_cons, List.map_nil, GEv.pt, e, List.append_assoc]
        rfl

theorem foldl_addLocation (S : List SubnetDecl) (r : Rearranger) :
    S.foldl (fun r s => addLocation r s.net s.ones s.loc) r =
      { hasV4 := r.hasV4 || hasV4 S, hasV6 := r.hasV6 || hasV6 S,
        points := r.points ++ ((S.flatMap rngOf).flatMap gevents).map GEv.pt } := by
  induction S generalizing r with
  | nil => simp [hasV4, hasV6]
  | cons s S ih =>
    rw [List.foldl_cons, addLocation_eq, ih]
    simp [hasV4, hasV6, Bool.or_assoc, List.flatMap_cons, List.flatMap_append, List.map_append]

theorem addAll_eq (S : List SubnetDecl) :
    addAll S = { hasV4 := hasV4 S, hasV6 := hasV6 S,
                 points := ((S.flatMap rngOf).flatMap gevents).map GEv.pt } := by
  unfold addAll
  rw [foldl_addLocation]
  simp

/-- the input of the sort in `Rearrange()` is the event list of `famOf S` -/
theorem rearrange_input (S : List SubnetDecl) :
    (addAll S).points
      ++ (if (addAll S).hasV4 then [] else [⟨firstIPv4, 0, none, .start⟩, ⟨afterIPv4, 0, none, .stop⟩])
      ++ (if (addAll S).hasV6 then [] else [⟨0, 0, none, .start⟩, ⟨afterIPv4, 0, none, .start⟩]) =
    ((famOf S).flatMap gevents).map GEv.pt := by
  rw [addAll_eq]
  unfold famOf
  have h4 : afterIPv4 ≠ TOP := by decide
  cases hasV4 S <;> cases hasV6 S <;>
    simp [List.flatMap_append, List.map_append, gevents, GEv.pt, R4, R6a, R6b, h4]

end DnsVerif.Lpm

namespace DnsVerif.Lpm
open DnsVerif DnsVerif.Rearr DnsVerif.Spec

theorem rngOf_ne_nil (s : SubnetDecl) : rngOf s ≠ [] := by
  unfold rngOf; split <;> (try split) <;> simp

theorem addAll_points_ne_nil {S : List SubnetDecl} (hne : S ≠ []) :
    (addAll S).points.isEmpty = false := by
  rw [addAll_eq]
  cases S with
  | nil => exact absurd rfl hne
  | cons s S =>
    have := rngOf_ne_nil s
    cases hr : rngOf s with
    | nil => exact absurd hr this
    | cons R Rs => simp [List.flatMap_cons, hr, gevents]

/-- `Rearrange()` = sort, annotated sweep, squash — for the family `famOf S` -/
theorem rearrange_spec {S : List SubnetDecl} (hne : S ≠ []) (hF : RngWF (famOf S)) :
    ∃ GO : List (GEv × Rng),
      rearrange (addAll S) = some (squash [] (GO.map outPt)) ∧
      (GO.Pairwise fun x y => grank x.1 < grank y.1) ∧
      (∀ gh ∈ GO, gh.1.r ∈ famOf S ∧ IsHead (famOf S) (grank gh.1) gh.2 ∧
        (gh.1.kind = .start → gh.2 = gh.1.r) ∧ (gh.1.kind = .stop → gh.1.r.hi ≠ TOP)) ∧
      (∀ R ∈ famOf S, (⟨R, .start⟩ : GEv) ∈ GO.map Prod.fst ∧
        (R.hi ≠ TOP → (⟨R, .stop⟩ : GEv) ∈ GO.map Prod.fst)) := by
  have hcut := cut_sortBy hF
  obtain ⟨GO, hfst, hsw, hsorted, hmem⟩ := sweep_out hF hcut
  refine ⟨GO, ?_, hsorted, hmem, ?_⟩
  · unfold rearrange
    rw [addAll_points_ne_nil hne]
    simp only [Bool.false_eq_true, if_false]
    rw [rearrange_input, ← sortBy_map, hsw]
  · intro R hR
    rw [hfst]
    refine ⟨hcut.starts R hR ?_, fun hTop => hcut.stops R hR hTop ?_⟩
    · unfold srank; omega
    · have := (hF.bounds R hR)
      unfold erank; omega

end DnsVerif.Lpm
