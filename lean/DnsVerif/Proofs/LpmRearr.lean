/-
C03.4, assembly, part 1: `Rearrange()` on the points that `AddLocation` generated is the ghost
sweep of `famOf S`; the sorted ghost events form a `Cut` at 0.
-/
import DnsVerif.Proofs.LpmRdb
import DnsVerif.Proofs.LpmConc
import DnsVerif.Proofs.LpmFamWF

namespace DnsVerif.Lpm
open DnsVerif DnsVerif.Rearr DnsVerif.Spec

/-! ### the events of a well-formed family have pairwise distinct ranks -/

theorem gevents_mem {R : Rng} {g : GEv} (h : g ∈ gevents R) :
    g.r = R ∧ (g.kind = .stop → R.hi ≠ TOP) := by
  unfold gevents at h
  rcases List.mem_cons.1 h with h | h
  · rw [h]; exact ⟨rfl, fun hk => by cases hk⟩
  · by_cases hTop : R.hi = TOP
    · rw [if_pos hTop] at h; cases h
    · rw [if_neg hTop] at h
      rw [List.mem_singleton.1 h]; exact ⟨rfl, fun _ => hTop⟩

theorem start_mem_gevents (R : Rng) : (⟨R, .start⟩ : GEv) ∈ gevents R := List.mem_cons_self
theorem stop_mem_gevents {R : Rng} (h : R.hi ≠ TOP) : (⟨R, .stop⟩ : GEv) ∈ gevents R := by
  unfold gevents; rw [if_neg h]; simp

theorem rank_ne_of_ne {F : List Rng} (hF : RngWF F) {R R' : Rng} (hR : R ∈ F) (hR' : R' ∈ F)
    (hne : R ≠ R') {g g' : GEv} (hg : g ∈ gevents R) (hg' : g' ∈ gevents R') : grank g ≠ grank g' := by
  obtain ⟨b1, b2, b3⟩ := hF.bounds R hR
  obtain ⟨c1, c2, c3⟩ := hF.bounds R' hR'
  have hN1 := hF.nest R hR R' hR' hne
  have hN2 := hF.nest R' hR' R hR (Ne.symm hne)
  have hlam := hF.lam R hR R' hR'
  obtain ⟨e1, s1⟩ := gevents_mem hg
  obtain ⟨e2, s2⟩ := gevents_mem hg'
  obtain ⟨r, k⟩ := g
  obtain ⟨r', k'⟩ := g'
  simp only at e1 e2 s1 s2
  subst e1; subst e2
  unfold Rng.sub at hN1 hN2 hlam
  have kr := ekey_lt r.len
  have kr' := ekey_lt r'.len
  cases k <;> cases k' <;> simp only [grank, rank, GEv.pt] <;> intro heq
  · -- start / start
    obtain ⟨h1, h2'⟩ := rank_eq_split heq (by omega) (by omega)
    have h2 : r.len = r'.len := by omega
    rcases hlam with h | h | h | h
    · have := (hN1 h).1 h1; omega
    · have := (hN2 h).1 h1.symm; omega
    · omega
    · omega
  · have := (rank_eq_split heq (by omega) (by omega)).2; omega
  · have := (rank_eq_split heq (by omega) (by omega)).2; omega
  · -- stop / stop
    obtain ⟨h1, h2⟩ := rank_eq_split heq (by omega) (by omega)
    have t1 := s1 rfl
    have t2 := s2 rfl
    rcases hlam with h | h | h | h
    · have := (hN1 h).2 h1 t1; omega
    · have := (hN2 h).2 h1.symm t2; omega
    · omega
    · omega

/-- the sorted ghost events of a list of ranges `L` that consists of a well-formed family `F` and of
pseudo ranges whose only event is a marker form a cut at 0 -/
theorem cut_sortBy {F L : List Rng} {M : List GEv} (hF : RngWF F) (hsub : ∀ R ∈ F, R ∈ L)
    (hrest : ∀ R ∈ L, R ∉ F → gevents R = [⟨R, .start⟩] ∧ (⟨R, .start⟩ : GEv) ∈ M ∧ R.len ≤ 255)
    (hpt : ∀ g ∈ L.flatMap gevents, PtOK g.pt)
    (hinj : (L.flatMap gevents).Pairwise fun g g' => grank g ≠ grank g') :
    Cut F M 0 (sortBy GEv.pt (L.flatMap gevents)) := by
  have hperm := sortBy_perm GEv.pt (L.flatMap gevents)
  have hmemE : ∀ g, g ∈ sortBy GEv.pt (L.flatMap gevents) ↔ ∃ R ∈ L, g ∈ gevents R := by
    intro g
    rw [hperm.mem_iff, List.mem_flatMap]
  have hml : ∀ g ∈ L.flatMap gevents, g.pt.maskLen ≤ 255 := by
    intro g hg
    obtain ⟨R, hR, hgR⟩ := List.mem_flatMap.1 hg
    obtain ⟨e, _⟩ := gevents_mem hgR
    have : R.len ≤ 255 := by
      by_cases hRF : R ∈ F
      · have := (hF.bounds R hRF).2.2; omega
      · exact (hrest R hR hRF).2.2
    obtain ⟨r, k⟩ := g
    simp only at e; subst e
    cases k <;> simp only [GEv.pt] <;> omega
  refine ⟨?_, ?_, ?_, ?_⟩
  · exact sortBy_strict GEv.pt _ (fun g hg => ⟨hml g hg, hpt g hg⟩) hinj
  · intro g hg
    obtain ⟨R, hR, hgR⟩ := (hmemE g).1 hg
    by_cases hRF : R ∈ F
    · obtain ⟨e, hs⟩ := gevents_mem hgR
      refine ⟨?_, Or.inl ⟨e ▸ hRF, fun hk => e ▸ hs hk⟩⟩
      obtain ⟨b1, b2, b3⟩ := hF.bounds R hRF
      obtain ⟨r, k⟩ := g
      simp only at e; subst e
      cases k <;> simp only [grank, rank, GEv.pt] <;> omega
    · obtain ⟨h1, h2, _⟩ := hrest R hR hRF
      rw [h1, List.mem_singleton] at hgR
      subst hgR
      refine ⟨?_, Or.inr h2⟩
      rw [grank_start]; unfold srank; omega
  · intro R hR _
    exact (hmemE _).2 ⟨R, hsub R hR, start_mem_gevents R⟩
  · intro R hR hTop _
    exact (hmemE _).2 ⟨R, hsub R hR, stop_mem_gevents hTop⟩

/-! ### the concrete family: `famOf S` = `famF S` and the pseudo ranges behind `markersOf S` -/

/-- a range of `famOf S` that the sweep does not push is a pseudo range, met across a declared block -/
theorem not_famF {S : List SubnetDecl} {R : Rng} (hR : R ∈ famOf S) (hn : R ∉ famF S) :
    straddle S = true ∧ isUpper R = true := by
  unfold famF at hn
  cases hstr : straddle S with
  | false => rw [hstr] at hn; exact absurd hR hn
  | true =>
    rw [hstr] at hn
    simp only [if_true, List.mem_filter, not_and, Bool.not_eq_true'] at hn
    refine ⟨rfl, ?_⟩
    have := hn hR
    simpa using this

/-- the pseudo ranges of `famOf S` -/
theorem upper_cases {S : List SubnetDecl} (h : SubsWF S) {R : Rng} (hR : R ∈ famOf S)
    (hU : isUpper R = true) :
    (∃ s ∈ S, (s.net = 0 ∧ s.ones = 0) ∧ R = half s) ∨
      (R = R6b ∧ ∀ s ∈ S, ¬ (s.net = 0 ∧ s.ones = 0)) := by
  rcases (mem_famOf h).1 hR with ⟨s, hs, rfl⟩ | h1 | ⟨rfl, _⟩ | ⟨rfl | rfl, n6⟩
  · rw [isUpper_blk h hs] at hU; cases hU
  · exact Or.inl h1
  · exact absurd hU (by decide)
  · exact absurd hU (by decide)
  · exact Or.inr ⟨rfl, n6⟩

theorem upper_unique {S : List SubnetDecl} (h : SubsWF S) {R R' : Rng} (hR : R ∈ famOf S)
    (hR' : R' ∈ famOf S) (hU : isUpper R = true) (hU' : isUpper R' = true) : R = R' := by
  rcases upper_cases h hR hU with ⟨s, hs, h0, rfl⟩ | ⟨rfl, n6⟩ <;>
  rcases upper_cases h hR' hU' with ⟨s', hs', h0', rfl⟩ | ⟨rfl, n6'⟩
  · rw [w1_inj h hs hs' (by omega) (by omega)]
  · exact absurd h0 (n6' s hs)
  · exact absurd h0' (n6 s' hs')
  · rfl

theorem upper_gevents {S : List SubnetDecl} (h : SubsWF S) {R : Rng} (hR : R ∈ famOf S)
    (hU : isUpper R = true) : gevents R = [⟨R, .start⟩] ∧ R.len ≤ 255 := by
  rcases upper_cases h hR hU with ⟨s, hs, h0, rfl⟩ | ⟨rfl, _⟩
  · refine ⟨by simp [gevents, half], ?_⟩
    show s.ones ≤ 255; omega
  · exact ⟨by simp [gevents, R6b], by decide⟩

/-- no event of a pushed range has the rank of the pseudo start point -/
theorem marker_rank_ne {S : List SubnetDecl} (h : SubsWF S) (hstr : straddle S = true) {R : Rng}
    (hR : R ∈ famF S) {g : GEv} (hg : g ∈ gevents R) : grank g ≠ afterIPv4 * 1024 + 512 := by
  obtain ⟨b1, b2, b3⟩ := famF_bounds h R hR
  have hnu := not_upper_of_mem_famF hstr hR
  obtain ⟨e, _⟩ := gevents_mem hg
  obtain ⟨r, k⟩ := g
  simp only at e; subst e
  intro heq
  cases k with
  | start =>
    rw [grank_start] at heq
    unfold srank at heq
    obtain ⟨hlo, h2⟩ := rank_eq_split heq (by omega) (by decide)
    have hlen : r.len = 0 := by omega
    simp [isUpper, hlo, hlen] at hnu
  | stop =>
    rw [grank_stop] at heq
    unfold erank at heq
    have kr := ekey_lt r.len
    have := (rank_eq_split heq (by omega) (by decide)).2
    omega

theorem upper_rank {R : Rng} (hU : isUpper R = true) :
    grank ⟨R, .start⟩ = afterIPv4 * 1024 + 512 := by
  have : R.lo = afterIPv4 ∧ R.len = 0 := by simpa [isUpper] using hU
  rw [grank_start]; unfold srank; rw [this.1, this.2]

/-- the events of `famOf S` have pairwise distinct ranks -/
theorem events_rank_inj {S : List SubnetDecl} (h : SubsWF S) :
    ((famOf S).flatMap gevents).Pairwise fun g g' => grank g ≠ grank g' := by
  have hF := famF_wf h
  rw [List.pairwise_flatMap]
  constructor
  · intro R hR
    by_cases hRF : R ∈ famF S
    · have hlt := srank_lt_erank hF hRF
      unfold gevents
      by_cases hTop : R.hi = TOP
      · rw [if_pos hTop]; simp
      · rw [if_neg hTop]
        simp only [List.pairwise_cons, List.mem_singleton, forall_eq, List.not_mem_nil, false_imp_iff,
          implies_true, List.Pairwise.nil, and_true]
        rw [grank_start, grank_stop]; omega
    · rw [(upper_gevents h hR (not_famF hR hRF).2).1]; simp
  · have hpw : (famOf S).Pairwise (· ≠ ·) := famOf_nodup h
    refine List.Pairwise.imp_of_mem ?_ hpw
    intro R R' hR hR' hne g hg g' hg'
    by_cases hRF : R ∈ famF S <;> by_cases hRF' : R' ∈ famF S
    · exact rank_ne_of_ne hF hRF hRF' hne hg hg'
    · obtain ⟨hstr, hU'⟩ := not_famF hR' hRF'
      rw [(upper_gevents h hR' hU').1, List.mem_singleton] at hg'
      rw [hg', upper_rank hU']
      exact marker_rank_ne h hstr hRF hg
    · obtain ⟨hstr, hU⟩ := not_famF hR hRF
      rw [(upper_gevents h hR hU).1, List.mem_singleton] at hg
      rw [hg, upper_rank hU]
      exact fun e => marker_rank_ne h hstr hRF' hg' e.symm
    · exact absurd (upper_unique h hR hR' (not_famF hR hRF).2 (not_famF hR' hRF').2) hne

/-- the end points of `famOf S` are ends of CIDR blocks of their mask length, the implicit IPv4 null
range's is the end of the IPv4 range -/
theorem famOf_ptOK {S : List SubnetDecl} (h : SubsWF S) :
    ∀ g ∈ (famOf S).flatMap gevents, PtOK g.pt := by
  intro g hg
  obtain ⟨R, hR, hgR⟩ := List.mem_flatMap.1 hg
  obtain ⟨e, hstop⟩ := gevents_mem hgR
  obtain ⟨r, k⟩ := g
  simp only at e; subst e
  cases k with
  | start => intro hk; cases hk
  | stop =>
    have hTop : r.hi ≠ TOP := hstop rfl
    intro _
    simp only [GEv.pt]
    rcases (mem_famOf h).1 hR with ⟨s, hs, rfl⟩ | ⟨s, hs, _, rfl⟩ | ⟨rfl, _⟩ | ⟨rfl | rfl, _⟩
    · have f := subFacts h hs
      have := f.o0; have := f.o_le; have := f.sz_pos
      simp only [blk, TOP_eq] at hTop ⊢
      have hz : s.ones ≠ 0 := fun e => by have := f.o0 e; omega
      refine ⟨fun e => absurd e hz, f.o_le, ?_⟩
      unfold effLen; rw [if_neg hz]; omega
    · exact absurd rfl hTop
    · exact ⟨fun _ => rfl, by decide, by decide⟩
    · exact absurd rfl hTop
    · exact absurd rfl hTop

/-- the sorted ghost events of a well-formed subnet list form a cut at 0 -/
theorem cut_famOf {S : List SubnetDecl} (h : SubsWF S) :
    Cut (famF S) (markersOf S) 0 (sortBy GEv.pt ((famOf S).flatMap gevents)) := by
  refine cut_sortBy (famF_wf h) (fun R hR => (famF_sublist S).subset hR) ?_ (famOf_ptOK h)
    (events_rank_inj h)
  intro R hR hRF
  obtain ⟨hstr, hU⟩ := not_famF hR hRF
  obtain ⟨h1, h2⟩ := upper_gevents h hR hU
  exact ⟨h1, mem_markersOf.2 ⟨hstr, R, hR, hU, rfl⟩, h2⟩

/-! ### `AddLocation` generates the events of `rngOf` -/

theorem blockSize_pos' (o : Nat) : 0 < 2 ^ (128 - o) := Nat.two_pow_pos _

/-- W2 for one subnet: network `::` only as `::/0`, network `::ffff:0:0` only as `0.0.0.0/0` -/
def W2At (s : SubnetDecl) : Prop := (s.net = 0 → s.ones = 0) ∧ (s.net = firstIPv4 → s.ones = 96)

/-- `AddLocation` before the repair "only ::/0 and 0.0.0.0/0 are default routes": the two
default-route tests looked at the network address only -/
def addLocationOld (r : Rearranger) (ip ones : Nat) (loc : Bytes) : Rearranger :=
  if ip = 0 then
    { r with hasV6 := true,
             points := r.points ++ [⟨0, ones, some loc, .start⟩, ⟨afterIPv4, ones, some loc, .start⟩] }
  else if ip = firstIPv4 then
    { r with hasV4 := true,
             points := r.points ++ [⟨firstIPv4, ones, some loc, .start⟩, ⟨afterIPv4, ones, some loc, .stop⟩] }
  else
    let size := 2 ^ (128 - ones)
    let start := ip / size * size
    let last := start + size - 1
    { r with points := r.points ++ [⟨start, ones, some loc, .start⟩]
        ++ (if last = veryLastIP then [] else [⟨last + 1, ones, none, .stop⟩]) }

/-- under W2 the repaired `AddLocation` coincides with the old one -/
theorem addLocation_eq_old_of_W2 (r : Rearranger) {s : SubnetDecl} (hw : W2At s) :
    addLocation r s.net s.ones s.loc = addLocationOld r s.net s.ones s.loc := by
  unfold addLocation addLocationOld
  by_cases h0 : s.net = 0
  · rw [if_pos ⟨h0, hw.1 h0⟩, if_pos h0]
  · rw [if_neg (fun h => h0 h.1), if_neg h0]
    by_cases h4 : s.net = firstIPv4
    · rw [if_pos ⟨h4, hw.2 h4⟩, if_pos h4]
    · rw [if_neg (fun h => h4 h.1), if_neg h4]

theorem addLocation_eq (r : Rearranger) (s : SubnetDecl) :
    addLocation r s.net s.ones s.loc =
      { hasV4 := r.hasV4 || decide (s.net = firstIPv4 ∧ s.ones = 96),
        hasV6 := r.hasV6 || decide (s.net = 0 ∧ s.ones = 0),
        points := r.points ++ ((rngOf s).flatMap gevents).map GEv.pt } := by
  unfold addLocation rngOf
  by_cases h0 : s.net = 0 ∧ s.ones = 0
  · rw [if_pos h0, if_pos h0]
    simp [h0, gevents, GEv.pt]
  · rw [if_neg h0, if_neg h0]
    by_cases h4 : s.net = firstIPv4 ∧ s.ones = 96
    · rw [if_pos h4, if_pos h4]
      have : afterIPv4 ≠ TOP := by decide
      simp [h4, gevents, GEv.pt, this]
    · rw [if_neg h4, if_neg h4]
      have hsz := blockSize_pos' s.ones
      simp only [h0, h4, decide_false, Bool.or_false, List.flatMap_cons, List.flatMap_nil,
        List.append_nil]
      unfold gevents blockStart blockSize TOP veryLastIP
      generalize 2 ^ (128 - s.ones) = sz at hsz ⊢
      generalize s.net / sz * sz = st
      by_cases hl : st + sz - 1 = 2 ^ 128 - 1
      · have : st + sz = 2 ^ 128 := by omega
        rw [if_pos hl]
        simp only [this, if_true, List.map_cons, List.map_nil, GEv.pt, List.append_nil]
      · have hne : ¬ st + sz = 2 ^ 128 := by omega
        have e : st + sz - 1 + 1 = st + sz := by omega
        rw [if_neg hl]
        simp only [hne, if_false, List.map_cons, List.map_nil, GEv.pt, e, List.append_assoc]
        rfl

theorem foldl_addLocation (S : List SubnetDecl) (r : Rearranger) :
    S.foldl (fun r s => addLocation r s.net s.ones s.loc) r =
      { hasV4 := r.hasV4 || hasV4 S, hasV6 := r.hasV6 || hasV6 S,
        points := r.points ++ ((S.flatMap rngOf).flatMap gevents).map GEv.pt } := by
  induction S generalizing r with
  | nil => simp [hasV4, hasV6]
  | cons s S ih =>
    rw [List.foldl_cons, addLocation_eq, ih]
    simp [hasV4, hasV6, Bool.or_assoc, List.flatMap_cons, List.flatMap_append, List.map_append]

theorem addAll_eq (S : List SubnetDecl) :
    addAll S = { hasV4 := hasV4 S, hasV6 := hasV6 S,
                 points := ((S.flatMap rngOf).flatMap gevents).map GEv.pt } := by
  unfold addAll
  rw [foldl_addLocation]
  simp

/-- the input of the sort in `Rearrange()` is the event list of `famOf S` -/
theorem rearrange_input (S : List SubnetDecl) :
    (addAll S).points
      ++ (if (addAll S).hasV4 then [] else [⟨firstIPv4, 0, none, .start⟩, ⟨afterIPv4, 0, none, .stop⟩])
      ++ (if (addAll S).hasV6 then [] else [⟨0, 0, none, .start⟩, ⟨afterIPv4, 0, none, .start⟩]) =
    ((famOf S).flatMap gevents).map GEv.pt := by
  rw [addAll_eq]
  unfold famOf
  have h4 : afterIPv4 ≠ TOP := by decide
  cases hasV4 S <;> cases hasV6 S <;>
    simp [List.flatMap_append, List.map_append, gevents, GEv.pt, R4, R6a, R6b, h4]

end DnsVerif.Lpm

namespace DnsVerif.Lpm
open DnsVerif DnsVerif.Rearr DnsVerif.Spec

theorem rngOf_ne_nil (s : SubnetDecl) : rngOf s ≠ [] := by
  unfold rngOf; split <;> (try split) <;> simp

theorem addAll_points_ne_nil {S : List SubnetDecl} (hne : S ≠ []) :
    (addAll S).points.isEmpty = false := by
  rw [addAll_eq]
  cases S with
  | nil => exact absurd rfl hne
  | cons s S =>
    have := rngOf_ne_nil s
    cases hr : rngOf s with
    | nil => exact absurd hr this
    | cons R Rs => simp [List.flatMap_cons, hr, gevents]

/-- `Rearrange()` = sort, annotated sweep, squash — for the family `famF S` -/
theorem rearrange_spec {S : List SubnetDecl} (h : SubsWF S) (hne : S ≠ []) :
    ∃ GO : List (GEv × Rng),
      rearrange (addAll S) = some (squash [] (GO.map outPt)) ∧
      (GO.Pairwise fun x y => grank x.1 < grank y.1) ∧
      (∀ gh ∈ GO, OutOK (famF S) (markersOf S) gh) ∧
      (∀ R ∈ famF S, (⟨R, .start⟩ : GEv) ∈ GO.map Prod.fst ∧
        (R.hi ≠ TOP → (⟨R, .stop⟩ : GEv) ∈ GO.map Prod.fst)) := by
  have hF := famF_wf h
  have hcut := cut_famOf h
  obtain ⟨GO, hfst, hsw, hsorted, hmem⟩ := sweep_out hF (famF_noResume h) (markersOf_wf h) hcut
  refine ⟨GO, ?_, hsorted, hmem, ?_⟩
  · unfold rearrange
    rw [addAll_points_ne_nil hne]
    simp only [Bool.false_eq_true, if_false]
    rw [rearrange_input, ← sortBy_map, hsw]
  · intro R hR
    rw [hfst]
    refine ⟨hcut.starts R hR ?_, fun hTop => hcut.stops R hR hTop ?_⟩
    · unfold srank; omega
    · have := (hF.bounds R hR)
      unfold erank; omega

end DnsVerif.Lpm
