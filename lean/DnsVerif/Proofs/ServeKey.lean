/-
The uncached handler is a function of the cache-key components (helper lemmas for C12).

`serve v q` reads the spelling of the query name the client used (`q.qnameOut`) in exactly three
places: the owner of the non-address answer records (`scanAnswer`), the owner of the answer address
groups, and — through `additionalTarget` of a type-65 (HTTPS) answer record, whose target is its own
owner — the owner of additional address groups. It also *compares* that spelling with target names
taken from rdata (`hasAddr` = `HasRecord`) — case-insensitively (`strings.EqualFold`) since commit
"fix: HasRecord compares owner names case-insensitively"; before it the comparison was exact and for
`qtype = 255` (ANY) the additional section depended on the spelling. Now it does not, for any query
type (`serve_rel`, field `extraAll`).

Method: `findGo` (the v2 closest-key search) is cut into `probe` / `tailGo` (`findGo_succ`, by
`rfl`) and shown parametric in its callbacks (`findGo_rel`); `FindAnswer` for two spellings yields
answers related by `AnsRel`; the rest of `serve` (`fin`) maps `AnsRel` to `RespRel`.
Core Lean only.
-/
import DnsVerif.Model.Serve

namespace DnsVerif.ServeKey
open DnsVerif DnsVerif.Name DnsVerif.Serve DnsVerif.Loc

/-! ### vocabulary of the statements -/

deriving instance DecidableEq for Response
deriving instance DecidableEq for Outcome

/-- an RR / an address group with its owner name lower-cased -/
def lowRR (rr : RR) : RR := { rr with name := toLower rr.name }
def lowGroup (g : AddrGroup) : AddrGroup := { g with name := toLower g.name }

/-- Equal up to the letter case of owner names: same kind of outcome; for replies the same rcode and
AA flag, the authority section literally equal, and the answer records, answer address groups and
additional address groups equal once their owner names are lower-cased (rdata, types, classes,
TTLs, candidate lists, limits: literally equal, in the same order). -/
def caseEq : Outcome → Outcome → Prop
  | .reply r, .reply r' =>
    r.rcode = r'.rcode ∧ r.aa = r'.aa ∧ r.answer.map lowRR = r'.answer.map lowRR ∧
      r.answerAddrs.map lowGroup = r'.answerAddrs.map lowGroup ∧ r.ns = r'.ns ∧
      r.extra.map lowGroup = r'.extra.map lowGroup
  | .failedReply, .failedReply => True
  | .noReply, .noReply => True
  | .panic, .panic => True
  | _, _ => False

instance (o o' : Outcome) : Decidable (caseEq o o') := by
  cases o <;> cases o' <;> unfold caseEq <;> infer_instance

/-- the outcome with every owner name lower-cased -/
def normalise : Outcome → Outcome
  | .reply r => .reply { r with answer := r.answer.map lowRR, answerAddrs := r.answerAddrs.map lowGroup,
                                ns := r.ns.map lowRR, extra := r.extra.map lowGroup }
  | o => o

/-- Go's `weighted` flag of `ServeDNSWithRCODE` in the vocabulary of the model: some `Wrs` value
(one per answer family, one per additional target) saw more than one candidate
(`Wrs.WeightedAnswer`, C11 `weighted_flag`) -/
def weighted : Outcome → Bool
  | .reply r => (r.answerAddrs ++ r.extra).any fun g => g.cands.length > 1
  | _ => false

/-! ### `findGo` is parametric in its callbacks -/

def RRel {σ τ : Type} (Rel : σ → τ → Prop) : R σ → R τ → Prop
  | .ok s, .ok t => Rel s t
  | .err, .err => True
  | .panic, .panic => True
  | _, _ => False

def ORel {σ τ : Type} (Rel : σ → τ → Prop) : Option σ → Option τ → Prop
  | some s, some t => Rel s t
  | none, none => True
  | _, _ => False

/-- `tryForEach` of `findGo` -/
def tfe {σ : Type} (v : View) (onRows : List Bytes → σ → σ) (k : Bytes) (st : σ) : Option Bytes × σ :=
  match v.store.seekForPrev k with
  | none => (none, st)
  | some (fk, vals) => if fk = k then (some fk, onRows vals st) else (some fk, st)

/-- the two probes of one round of `findGo` -/
def probe {σ : Type} (v : View) (rev : Bytes) (onRows : List Bytes → σ → σ) (qLength : Nat) (st1 : σ) :
    Option Bytes × σ :=
  let marker := Generated.dnsdata_ResourceRecordsKeyMarker
  let nameKey := marker ++ rev.take (qLength - 1) ++ [0]
  let key := nameKey ++ v.loc
  let (k1, st2) := tfe v onRows key st1
  match k1 with
  | some fk =>
    if v.loc ≠ [0, 0] ∧ fk.length = key.length ∧ fk.take (key.length - 2) = nameKey then
      tfe v onRows (nameKey ++ [0, 0]) st2
    else (k1, st2)
  | none => (k1, st2)

/-- what `findGo` does with the key found, after `post` said "continue" -/
def tailGo {ρ : Type} (rev : Bytes) (qLength : Nat) (k : Option Bytes) (stop panic : ρ) (go : Nat → ρ) : ρ :=
  let marker := Generated.dnsdata_ResourceRecordsKeyMarker
  let kk := k.getD []
  if kk.length < 2 ∨ kk.take 2 ≠ marker then stop
  else if qLength = 1 then stop
  else
    if kk.length < 4 then panic else
    let foundLabel := (kk.drop 2).take (kk.length - 4)
    if foundLabel.isEmpty then panic else
    let next : Option Nat :=
      if rev.take (qLength - 1) = foundLabel.take (foundLabel.length - 1) then
        lengthWithoutLastLabel rev qLength 256 0 0
      else (commonPrefix rev foundLabel (rev.length + 1) 0).map (· + 1)
    match next with
    | none => panic
    | some nl => go nl

theorem findGo_succ {σ : Type} (v : View) (rev : Bytes)
    (pre : Nat → σ → Option σ) (onRows : List Bytes → σ → σ) (post : σ → σ × Bool) (fuel ql : Nat) (st : σ) :
    findGo v rev pre onRows post (fuel + 1) ql st =
      match pre ql st with
      | none => .ok st
      | some st1 =>
        if ql = 0 then .panic else
        let p := probe v rev onRows ql st1
        let q := post p.2
        if ¬ q.2 then .ok q.1
        else tailGo rev ql p.1 (.ok q.1) .panic (fun nl => findGo v rev pre onRows post fuel nl q.1) := by
  rfl

section rel
variable {σ τ : Type} (Rel : σ → τ → Prop) (v : View) (rev : Bytes)
  (onRows : List Bytes → σ → σ) (onRows' : List Bytes → τ → τ)
  (hrows : ∀ r s t, Rel s t → Rel (onRows r s) (onRows' r t))
include hrows

theorem tfe_rel (k : Bytes) (s : σ) (t : τ) (h : Rel s t) :
    (tfe v onRows k s).1 = (tfe v onRows' k t).1 ∧ Rel (tfe v onRows k s).2 (tfe v onRows' k t).2 := by
  unfold tfe
  cases v.store.seekForPrev k with
  | none => exact ⟨rfl, h⟩
  | some e =>
    obtain ⟨fk, vals⟩ := e
    dsimp only
    by_cases hk : fk = k
    · rw [if_pos hk, if_pos hk]; exact ⟨rfl, hrows _ _ _ h⟩
    · rw [if_neg hk, if_neg hk]; exact ⟨rfl, h⟩

theorem probe_rel (ql : Nat) (s : σ) (t : τ) (h : Rel s t) :
    (probe v rev onRows ql s).1 = (probe v rev onRows' ql t).1 ∧
      Rel (probe v rev onRows ql s).2 (probe v rev onRows' ql t).2 := by
  unfold probe
  extract_lets marker nameKey key
  have h1 := tfe_rel Rel v onRows onRows' hrows key s t h
  generalize tfe v onRows key s = p1 at h1 ⊢
  generalize tfe v onRows' key t = p1' at h1 ⊢
  obtain ⟨k1, s2⟩ := p1
  obtain ⟨k1', t2⟩ := p1'
  obtain ⟨hk1, h2⟩ := h1
  dsimp only at hk1 h2 ⊢
  subst hk1
  cases k1 with
  | none => exact ⟨rfl, h2⟩
  | some fk =>
    dsimp only
    split
    · exact tfe_rel Rel v onRows onRows' hrows _ s2 t2 h2
    · exact ⟨rfl, h2⟩
end rel

theorem tailGo_rel {ρ ρ' : Type} (P : ρ → ρ' → Prop) (rev : Bytes) (ql : Nat) (k : Option Bytes)
    (stop panic : ρ) (go : Nat → ρ) (stop' panic' : ρ') (go' : Nat → ρ')
    (hs : P stop stop') (hp : P panic panic') (hg : ∀ n, P (go n) (go' n)) :
    P (tailGo rev ql k stop panic go) (tailGo rev ql k stop' panic' go') := by
  unfold tailGo
  extract_lets marker kk foundLabel next
  split
  · exact hs
  split
  · exact hs
  split
  · exact hp
  split
  · exact hp
  cases next with
  | none => exact hp
  | some nl => exact hg nl

theorem findGo_rel {σ τ : Type} (Rel : σ → τ → Prop) (v : View) (rev : Bytes)
    (pre : Nat → σ → Option σ) (onRows : List Bytes → σ → σ) (post : σ → σ × Bool)
    (pre' : Nat → τ → Option τ) (onRows' : List Bytes → τ → τ) (post' : τ → τ × Bool)
    (hpre : ∀ n s t, Rel s t → ORel Rel (pre n s) (pre' n t))
    (hrows : ∀ r s t, Rel s t → Rel (onRows r s) (onRows' r t))
    (hpost : ∀ s t, Rel s t → Rel (post s).1 (post' t).1 ∧ (post s).2 = (post' t).2) :
    ∀ (fuel ql : Nat) (s : σ) (t : τ), Rel s t →
      RRel Rel (findGo v rev pre onRows post fuel ql s) (findGo v rev pre' onRows' post' fuel ql t) := by
  intro fuel
  induction fuel with
  | zero => intro ql s t h; exact h
  | succ fuel ih =>
    intro ql s t h
    rw [findGo_succ, findGo_succ]
    have hp := hpre ql s t h
    generalize pre ql s = o1 at hp ⊢
    generalize pre' ql t = o2 at hp ⊢
    cases o1 <;> cases o2 <;> try exact hp.elim
    · exact h
    rename_i s1 t1
    change Rel s1 t1 at hp
    dsimp only
    by_cases hq : ql = 0
    · rw [if_pos hq, if_pos hq]; trivial
    rw [if_neg hq, if_neg hq]
    obtain ⟨hk, h3⟩ := probe_rel Rel v rev onRows onRows' hrows ql s1 t1 hp
    generalize probe v rev onRows ql s1 = p at hk h3 ⊢
    generalize probe v rev onRows' ql t1 = p' at hk h3 ⊢
    obtain ⟨k, s3⟩ := p
    obtain ⟨k', t3⟩ := p'
    dsimp only at hk h3 ⊢
    subst hk
    obtain ⟨h4, hc⟩ := hpost s3 t3 h3
    generalize post s3 = q at h4 hc ⊢
    generalize post' t3 = q' at h4 hc ⊢
    obtain ⟨s4, c⟩ := q
    obtain ⟨t4, c'⟩ := q'
    dsimp only at h4 hc ⊢
    subst hc
    cases c with
    | false => exact h4
    | true =>
      simp only [not_true_eq_false, if_false]
      exact tailGo_rel (RRel Rel) rev ql k _ _ _ _ _ _ h4 trivial (fun n => ih n s4 t4 h4)

/-! ### `FindAnswer` for two spellings of the query name -/

/-- an RR under another owner name -/
def rn (n : Bytes) (rr : RR) : RR := { rr with name := n }
/-- an address group under another owner name -/
def sn (n : Bytes) (g : AddrGroup) : AddrGroup := { g with name := n }

/-- what `FindAnswer` has gathered for spelling `n` vs. what it has gathered for spelling `n'`
(the fields that describe the record types hold for query types other than ANY) -/
structure AnsRel (n n' : Bytes) (qt : Nat) (a a' : Ans) : Prop where
  rrs : a'.rrs = a.rrs.map (rn n')
  name : ∀ rr ∈ a.rrs, rr.name = n
  ty : qt ≠ 255 → ∀ rr ∈ a.rrs, rr.type = 5 ∨ (rr.type = qt ∧ qt ≠ 1 ∧ qt ≠ 28)
  a4 : a'.a4 = a.a4
  a6 : a'.a6 = a.a6
  rf : a'.recordFound = a.recordFound
  h4 : qt ≠ 255 → a.a4 ≠ [] → qt = 1
  h6 : qt ≠ 255 → a.a6 ≠ [] → qt = 28

theorem AnsRel.init (n n' : Bytes) (qt : Nat) : AnsRel n n' qt {} {} :=
  ⟨rfl, fun _ h => (by cases h), fun _ _ h => (by cases h), rfl, rfl, rfl, fun _ h => (h rfl).elim, fun _ h => (h rfl).elim⟩

def scanStep (w : Bool) (n : Bytes) (qt : Nat) (a : Ans) (row : Bytes) : Option Ans :=
  match extractRR row w with
  | .panic => none
  | .mismatch => some a
  | .row r =>
    let a := { a with recordFound := true }
    if r.qtype = 5 ∨ r.qtype = qt ∨ qt = 255 then
      if r.qtype = 1 then some { a with a4 := a.a4 ++ [⟨r.ttl, r.weight, r.rdata⟩] }
      else if r.qtype = 28 then some { a with a6 := a.a6 ++ [⟨r.ttl, r.weight, r.rdata⟩] }
      else some { a with rrs := a.rrs ++ [⟨n, r.qtype, 1, r.ttl, r.rdata⟩] }
    else some a

theorem scanAnswer_eq (rows : List Bytes) (w : Bool) (n : Bytes) (qt : Nat) (acc : Ans) :
    scanAnswer rows w n qt acc = rows.foldlM (scanStep w n qt) acc := rfl

theorem scanStep_rel (n n' : Bytes) (qt : Nat) (w : Bool) (a a' : Ans) (row : Bytes)
    (h : AnsRel n n' qt a a') : ORel (AnsRel n n' qt) (scanStep w n qt a row) (scanStep w n' qt a' row) := by
  unfold scanStep
  cases extractRR row w with
  | panic => trivial
  | mismatch => exact h
  | row r =>
    dsimp only
    by_cases hc : r.qtype = 5 ∨ r.qtype = qt ∨ qt = 255
    · rw [if_pos hc, if_pos hc]
      by_cases h1 : r.qtype = 1
      · rw [if_pos h1, if_pos h1]
        have hq1 : qt ≠ 255 → qt = 1 := fun hqt => by
          rcases hc with hc | hc | hc
          · rw [h1] at hc; cases hc
          · rw [← hc, h1]
          · exact absurd hc hqt
        exact ⟨h.rrs, h.name, h.ty, by show a'.a4 ++ _ = a.a4 ++ _; rw [h.a4], h.a6, rfl, fun hqt _ => hq1 hqt, h.h6⟩
      rw [if_neg h1, if_neg h1]
      by_cases h28 : r.qtype = 28
      · rw [if_pos h28, if_pos h28]
        have hq : qt ≠ 255 → qt = 28 := fun hqt => by
          rcases hc with hc | hc | hc
          · rw [h28] at hc; cases hc
          · rw [← hc, h28]
          · exact absurd hc hqt
        exact ⟨h.rrs, h.name, h.ty, h.a4, by show a'.a6 ++ _ = a.a6 ++ _; rw [h.a6], rfl, h.h4, fun hqt _ => hq hqt⟩
      rw [if_neg h28, if_neg h28]
      refine ⟨?_, ?_, ?_, h.a4, h.a6, rfl, h.h4, h.h6⟩
      · show a'.rrs ++ _ = (a.rrs ++ _).map (rn n')
        rw [h.rrs, List.map_append]; rfl
      · intro rr hrr
        rcases List.mem_append.mp hrr with hrr | hrr
        · exact h.name rr hrr
        · rw [List.mem_singleton.mp hrr]
      · intro hqt rr hrr
        rcases List.mem_append.mp hrr with hrr | hrr
        · exact h.ty hqt rr hrr
        · rw [List.mem_singleton.mp hrr]
          show r.qtype = 5 ∨ (r.qtype = qt ∧ qt ≠ 1 ∧ qt ≠ 28)
          rcases hc with hc | hc | hc
          · exact Or.inl hc
          · exact Or.inr ⟨hc, by rw [← hc]; exact h1, by rw [← hc]; exact h28⟩
          · exact absurd hc hqt
    · rw [if_neg hc, if_neg hc]
      exact ⟨h.rrs, h.name, h.ty, h.a4, h.a6, rfl, h.h4, h.h6⟩

theorem scanAnswer_rel (n n' : Bytes) (qt : Nat) (w : Bool) :
    ∀ (rows : List Bytes) (a a' : Ans), AnsRel n n' qt a a' →
      ORel (AnsRel n n' qt) (scanAnswer rows w n qt a) (scanAnswer rows w n' qt a') := by
  intro rows
  induction rows with
  | nil => intro a a' h; exact h
  | cons row rows ih =>
    intro a a' h
    rw [scanAnswer_eq, scanAnswer_eq, List.foldlM_cons, List.foldlM_cons]
    have h1 := scanStep_rel n n' qt w a a' row h
    generalize scanStep w n qt a row = o at h1 ⊢
    generalize scanStep w n' qt a' row = o' at h1 ⊢
    cases o <;> cases o' <;> try exact h1.elim
    · trivial
    · exact ih _ _ h1

theorem getD_rel {σ τ : Type} {Rel : σ → τ → Prop} {o : Option σ} {o' : Option τ} {s : σ} {t : τ}
    (h : ORel Rel o o') (hd : Rel s t) : Rel (o.getD s) (o'.getD t) := by
  cases o <;> cases o' <;> first | exact h.elim | exact hd | exact h

/-- one level of `findAnswerV1`: the rows tagged with the client's location, then the untagged ones -/
def levelV1 (v : View) (q : Bytes) (w : Bool) (n : Bytes) (qt : Nat) (acc : Ans) : Ans :=
  let tagged := if v.loc ≠ [0, 0] then v.store.get (v.loc ++ q) else []
  let acc1 := (scanAnswer tagged w n qt acc).getD acc
  (scanAnswer (v.store.get ([0, 0] ++ q)) w n qt acc1).getD acc1

theorem findAnswerV1_succ (v : View) (c n : Bytes) (qt fuel : Nat) (q : Bytes) (w : Bool) (acc : Ans) :
    findAnswerV1 v c n qt (fuel + 1) q w acc =
      let acc2 := levelV1 v q w n qt acc
      if acc2.recordFound then acc2
      else if q = c then acc2
      else match q with
        | [] => acc2
        | x :: rest =>
          if x = 0 then acc2
          else if ¬ wildsafe (rest.take x.toNat) then acc2
          else findAnswerV1 v c n qt fuel (rest.drop x.toNat) true acc2 := rfl

theorem levelV1_rel (v : View) (n n' : Bytes) (qt : Nat) (q : Bytes) (w : Bool) (a a' : Ans)
    (h : AnsRel n n' qt a a') : AnsRel n n' qt (levelV1 v q w n qt a) (levelV1 v q w n' qt a') := by
  unfold levelV1
  extract_lets tagged acc1 acc1'
  have h1 : AnsRel n n' qt acc1 acc1' := getD_rel (scanAnswer_rel n n' qt w _ _ _ h) h
  exact getD_rel (scanAnswer_rel n n' qt w _ _ _ h1) h1

theorem findAnswerV1_rel (v : View) (c n n' : Bytes) (qt : Nat) :
    ∀ (fuel : Nat) (q : Bytes) (w : Bool) (a a' : Ans), AnsRel n n' qt a a' →
      AnsRel n n' qt (findAnswerV1 v c n qt fuel q w a) (findAnswerV1 v c n' qt fuel q w a') := by
  intro fuel
  induction fuel with
  | zero => intro q w a a' h; exact h
  | succ fuel ih =>
    intro q w a a' h
    rw [findAnswerV1_succ, findAnswerV1_succ]
    have h2 := levelV1_rel v n n' qt q w a a' h
    generalize levelV1 v q w n qt a = b at h2 ⊢
    generalize levelV1 v q w n' qt a' = b' at h2 ⊢
    dsimp only
    rw [h2.rf]
    split
    · exact h2
    split
    · exact h2
    cases q with
    | nil => exact h2
    | cons x rest =>
      dsimp only
      split
      · exact h2
      split
      · exact h2
      exact ih _ _ _ _ h2

theorem chk_congr (rev : Bytes) (s t : Ans × Bool × Nat) (h : s.2.2 = t.2.2) :
    ∀ (fuel i : Nat), findAnswerV2.chk rev s fuel i = findAnswerV2.chk rev t fuel i := by
  intro fuel
  induction fuel with
  | zero => intro i; rfl
  | succ fuel ih =>
    intro i
    rw [findAnswerV2.chk, findAnswerV2.chk, h]
    split
    · cases rev[i - 1]? with
      | none => rfl
      | some ll =>
        dsimp only
        rw [ih]
    · rfl

theorem findAnswerV2_rel (v : View) (q c n n' : Bytes) (qt : Nat) :
    RRel (AnsRel n n' qt) (findAnswerV2 v q c n qt) (findAnswerV2 v q c n' qt) := by
  unfold findAnswerV2
  cases reverseWire q with
  | none => trivial
  | some rev =>
    dsimp only
    have h := findGo_rel (fun (s t : Ans × Bool × Nat) => AnsRel n n' qt s.1 t.1 ∧ s.2 = t.2) v rev
      (fun (length : Nat) (st : Ans × Bool × Nat) =>
        if length < c.length then none
        else if findAnswerV2.chk rev st (rev.length + 1) length then some (st.1, st.2.1, length) else none)
      (fun (rows : List Bytes) (st : Ans × Bool × Nat) =>
        ((scanAnswer rows st.2.1 n qt st.1).getD st.1, st.2.1, st.2.2))
      (fun (st : Ans × Bool × Nat) =>
        if st.1.recordFound then (st, false) else ((st.1, true, st.2.2), true))
      (fun (length : Nat) (st : Ans × Bool × Nat) =>
        if length < c.length then none
        else if findAnswerV2.chk rev st (rev.length + 1) length then some (st.1, st.2.1, length) else none)
      (fun (rows : List Bytes) (st : Ans × Bool × Nat) =>
        ((scanAnswer rows st.2.1 n' qt st.1).getD st.1, st.2.1, st.2.2))
      (fun (st : Ans × Bool × Nat) =>
        if st.1.recordFound then (st, false) else ((st.1, true, st.2.2), true))
      ?_ ?_ ?_ (rev.length + 2) rev.length ({}, false, rev.length) ({}, false, rev.length)
      ⟨AnsRel.init n n' qt, rfl⟩
    · revert h
      generalize findGo v rev _ _ _ (rev.length + 2) rev.length (({} : Ans), false, rev.length) = r
      generalize findGo v rev _ _ _ (rev.length + 2) rev.length (({} : Ans), false, rev.length) = r'
      intro h
      cases r <;> cases r' <;> first | exact h.elim | trivial | exact h.1
    · intro len s t hst
      split
      · trivial
      rw [chk_congr rev s t (by rw [hst.2])]
      split
      · exact ⟨hst.1, by rw [hst.2]⟩
      · trivial
    · intro rows s t hst
      dsimp only
      rw [hst.2]
      exact ⟨getD_rel (scanAnswer_rel n n' qt _ _ _ _ hst.1) hst.1, rfl⟩
    · intro s t hst
      rw [hst.1.rf, hst.2]
      split
      · exact ⟨⟨hst.1, hst.2⟩, rfl⟩
      · exact ⟨⟨hst.1, rfl⟩, rfl⟩

/-! ### the additional section -/

/-- one step of `additionalFor`, as a function of the target name -/
def addStepT (v : View) (cls : Nat) (present : Bytes → Nat → List AddrGroup → Bool)
    (acc : List AddrGroup) (target : Option Bytes) : List AddrGroup :=
  match target with
  | none => acc
  | some name =>
      let want4 := ¬ present name 1 acc
      let want6 := ¬ present name 28 acc
      if ¬ (want4 ∨ want6) then acc
      else
        let rows := rowsOf v (toLower name)
        let parsed := rows.filterMap fun row => match extractRR row false with
          | .row r => some r
          | _ => none
        let c4 := (parsed.filter (·.qtype = 1)).map fun r => (⟨r.ttl, r.weight, r.rdata⟩ : Cand)
        let c6 := (parsed.filter (·.qtype = 28)).map fun r => (⟨r.ttl, r.weight, r.rdata⟩ : Cand)
        acc ++ (if want6 ∧ ¬ c6.isEmpty then [⟨name, 28, cls, c6, 1⟩] else [])
            ++ (if want4 ∧ ¬ c4.isEmpty then [⟨name, 1, cls, c4, 1⟩] else [])

theorem additionalFor_eq (v : View) (cls : Nat) (records : List RR)
    (present : Bytes → Nat → List AddrGroup → Bool) (acc : List AddrGroup) :
    additionalFor v cls records present acc =
      records.foldl (fun acc rr => addStepT v cls present acc (additionalTarget rr)) acc := rfl

theorem additionalTarget_rn (n' : Bytes) (rr : RR) (h : rr.type ≠ 65) :
    additionalTarget (rn n' rr) = additionalTarget rr := by
  unfold additionalTarget
  show (if rr.type = 2 then nameAt rr.rdata else if rr.type = 15 then nameAt (rr.rdata.drop 2)
    else if rr.type = 65 then some n' else none) = _
  rw [if_neg h, if_neg h]

theorem additionalTarget_5 (rr : RR) (h : rr.type = 5) : additionalTarget rr = none := by
  unfold additionalTarget
  rw [h]; rfl

theorem additionalTarget_6 (rr : RR) (h : rr.type = 6) : additionalTarget rr = none := by
  unfold additionalTarget
  rw [h]; rfl

theorem additionalTarget_65 (rr : RR) (h : rr.type = 65) : additionalTarget rr = some rr.name := by
  unfold additionalTarget
  rw [h]; rfl

/-- records without HTTPS/SVCB-style self targets: the owner spelling is irrelevant -/
theorem additionalFor_no65 (v : View) (cls : Nat) (n' : Bytes) (P : Bytes → Nat → List AddrGroup → Bool) :
    ∀ (recs : List RR) (acc : List AddrGroup), (∀ rr ∈ recs, rr.type ≠ 65) →
      additionalFor v cls (recs.map (rn n')) P acc = additionalFor v cls recs P acc := by
  intro recs
  induction recs with
  | nil => intro acc _; rfl
  | cons rr recs ih =>
    intro acc h
    rw [additionalFor_eq, additionalFor_eq, List.map_cons, List.foldl_cons, List.foldl_cons,
      additionalTarget_rn n' rr (h rr (List.mem_cons_self ..))]
    rw [← additionalFor_eq, ← additionalFor_eq]
    exact ih _ (fun r hr => h r (List.mem_cons_of_mem _ hr))

/-- records without targets add nothing -/
theorem additionalFor_none (v : View) (cls : Nat) (P : Bytes → Nat → List AddrGroup → Bool) :
    ∀ (recs : List RR) (acc : List AddrGroup), (∀ rr ∈ recs, additionalTarget rr = none) →
      additionalFor v cls recs P acc = acc := by
  intro recs
  induction recs with
  | nil => intro acc _; rfl
  | cons rr recs ih =>
    intro acc h
    rw [additionalFor_eq, List.foldl_cons, h rr (List.mem_cons_self ..), ← additionalFor_eq]
    exact ih _ (fun r hr => h r (List.mem_cons_of_mem _ hr))

theorem hasAddr_nil_sn (n n' : Bytes) (t : Nat) :
    ∀ (acc : List AddrGroup), (∀ g ∈ acc, g.name = n) →
      hasAddr [] n' t (acc.map (sn n')) = hasAddr [] n t acc := by
  intro acc
  induction acc with
  | nil => intro _; rfl
  | cons g acc ih =>
    intro h
    have ih' := ih (fun g hg => h g (List.mem_cons_of_mem _ hg))
    unfold hasAddr at ih' ⊢
    rw [List.nil_append] at ih' ⊢
    rw [List.nil_append] at ih'
    rw [List.nil_append, List.map_cons, List.any_cons, List.any_cons, ih']
    have hg := h g (List.mem_cons_self ..)
    congr 1
    show decide (toLower n' = toLower n' ∧ g.type = t ∧ _) = decide (toLower g.name = toLower n ∧ g.type = t ∧ _)
    rw [hg]
    simp only [true_and]
    rfl

/-- records whose targets are their own owner name `n` (types 5 and 65 only), no answer addresses:
the groups added are those for `n'`, renamed -/
theorem additionalFor_self (v : View) (cls : Nat) (n n' : Bytes) (hl : toLower n = toLower n') :
    ∀ (recs : List RR) (acc : List AddrGroup), (∀ rr ∈ recs, rr.name = n ∧ (rr.type = 5 ∨ rr.type = 65)) →
      (∀ g ∈ acc, g.name = n) →
      additionalFor v cls (recs.map (rn n')) (fun name t extra => hasAddr [] name t extra) (acc.map (sn n')) =
        (additionalFor v cls recs (fun name t extra => hasAddr [] name t extra) acc).map (sn n') ∧
      ∀ g ∈ additionalFor v cls recs (fun name t extra => hasAddr [] name t extra) acc, g.name = n := by
  intro recs
  induction recs with
  | nil => intro acc _ hacc; exact ⟨rfl, hacc⟩
  | cons rr recs ih =>
    intro acc h hacc
    have ih' := fun acc => ih acc (fun r hr => h r (List.mem_cons_of_mem _ hr))
    obtain ⟨hname, hty⟩ := h rr (List.mem_cons_self ..)
    rw [additionalFor_eq, additionalFor_eq, List.map_cons, List.foldl_cons, List.foldl_cons]
    rw [← additionalFor_eq, ← additionalFor_eq]
    rcases hty with hty | hty
    · rw [additionalTarget_5 rr hty, additionalTarget_5 (rn n' rr) hty]
      exact ih' acc hacc
    · rw [additionalTarget_65 rr hty, additionalTarget_65 (rn n' rr) hty, hname]
      show additionalFor v cls (recs.map (rn n')) _ (addStepT v cls _ (acc.map (sn n')) (some n')) = _ ∧ _
      have hstep : addStepT v cls (fun name t extra => hasAddr [] name t extra) (acc.map (sn n')) (some n') =
            (addStepT v cls (fun name t extra => hasAddr [] name t extra) acc (some n)).map (sn n') ∧
          ∀ g ∈ addStepT v cls (fun name t extra => hasAddr [] name t extra) acc (some n), g.name = n := by
        unfold addStepT
        dsimp only
        have e1 := hasAddr_nil_sn n n' 1 acc hacc
        have e2 := hasAddr_nil_sn n n' 28 acc hacc
        simp only [e1, e2, ← hl]
        split
        · exact ⟨rfl, hacc⟩
        · constructor
          · rw [List.map_append, List.map_append]
            congr 1
            · congr 1
              split <;> rfl
            · split <;> rfl
          · intro g hg
            rcases List.mem_append.mp hg with hg | hg
            · rcases List.mem_append.mp hg with hg | hg
              · exact hacc g hg
              · split at hg
                · rw [List.mem_singleton.mp hg]
                · cases hg
            · split at hg
              · rw [List.mem_singleton.mp hg]
              · cases hg
      rw [hstep.1]
      exact ih' _ hstep.2

/-! ### the additional section, every query type -/

theorem lowerByte_idem (b : UInt8) : lowerByte (lowerByte b) = lowerByte b := by
  unfold lowerByte
  by_cases h : 0x41 ≤ b.toNat ∧ b.toNat ≤ 0x5a
  · rw [if_pos h]
    have e : (UInt8.ofNat (b.toNat + 32)).toNat = b.toNat + 32 := by
      rw [UInt8.toNat_ofNat']; omega
    rw [if_neg (by rw [e]; omega)]
  · rw [if_neg h, if_neg h]

theorem toLower_idem (b : Bytes) : toLower (toLower b) = toLower b := by
  unfold toLower
  rw [List.map_map]
  apply List.map_congr_left
  intro x _
  exact lowerByte_idem x

/-- `hasAddr` (= `HasRecord` with `strings.EqualFold`) reads owner names only through `toLower` -/
theorem hasAddr_low (G G' : List AddrGroup) (name name' : Bytes) (t : Nat) (acc acc' : List AddrGroup)
    (hG : G.map lowGroup = G'.map lowGroup) (hn : toLower name = toLower name')
    (ha : acc.map lowGroup = acc'.map lowGroup) :
    hasAddr G name t acc = hasAddr G' name' t acc' := by
  have key : ∀ (L : List AddrGroup) (nm : Bytes),
      (L.any fun g => decide (toLower g.name = toLower nm ∧ g.type = t ∧
          (g.cands.any fun c => decide (c.weight > 0)) = true)) =
        ((L.map lowGroup).any fun g => decide (g.name = toLower nm ∧ g.type = t ∧
          (g.cands.any fun c => decide (c.weight > 0)) = true)) := by
    intro L nm; rw [List.any_map]; rfl
  unfold hasAddr
  rw [key, key, List.map_append, List.map_append, hG, ha, hn]

/-- the same group, or the same group under the other spelling of the query name -/
def GRel (n n' : Bytes) (g g' : AddrGroup) : Prop := g' = g ∨ (g.name = n ∧ g' = sn n' g)

instance (n n' : Bytes) (g g' : AddrGroup) : Decidable (GRel n n' g g') := by unfold GRel; infer_instance

/-- two group lists of the same length, position by position the same group or the same group
under the other spelling of the query name -/
def ExtraRel (n n' : Bytes) : List AddrGroup → List AddrGroup → Prop
  | [], [] => True
  | g :: gs, g' :: gs' => GRel n n' g g' ∧ ExtraRel n n' gs gs'
  | _, _ => False

instance (n n' : Bytes) : ∀ (l l' : List AddrGroup), Decidable (ExtraRel n n' l l')
  | [], [] => isTrue trivial
  | g :: gs, g' :: gs' =>
    have := instDecidableExtraRel n n' gs gs'
    (inferInstance : Decidable (GRel n n' g g' ∧ ExtraRel n n' gs gs'))
  | [], _ :: _ => isFalse (fun h => h)
  | _ :: _, [] => isFalse (fun h => h)

theorem ExtraRel.refl (n n' : Bytes) : ∀ l : List AddrGroup, ExtraRel n n' l l
  | [] => trivial
  | _ :: l => ⟨Or.inl rfl, ExtraRel.refl n n' l⟩

theorem ExtraRel.append (n n' : Bytes) : ∀ (a a' b b' : List AddrGroup),
    ExtraRel n n' a a' → ExtraRel n n' b b' → ExtraRel n n' (a ++ b) (a' ++ b')
  | [], [], _, _, _, hb => hb
  | _ :: a, _ :: a', b, b', ha, hb => ⟨ha.1, ExtraRel.append n n' a a' b b' ha.2 hb⟩
  | [], _ :: _, _, _, ha, _ => ha.elim
  | _ :: _, [], _, _, ha, _ => ha.elim

theorem ExtraRel.low (n n' : Bytes) (hl : toLower n = toLower n') : ∀ (a a' : List AddrGroup),
    ExtraRel n n' a a' → a.map lowGroup = a'.map lowGroup
  | [], [], _ => rfl
  | g :: a, g' :: a', h => by
    rw [List.map_cons, List.map_cons, ExtraRel.low n n' hl a a' h.2]
    congr 1
    rcases h.1 with h1 | ⟨h1, h2⟩
    · rw [h1]
    · rw [h2]; unfold lowGroup sn; rw [h1, hl]
  | [], _ :: _, h => h.elim
  | _ :: _, [], h => h.elim

/-- the target of a record owned by the spelling asked: the same under both spellings (a name from
the rdata, or none), or the spelling itself (type 65) -/
theorem additionalTarget_rn_cases (n n' : Bytes) (rr : RR) (h : rr.name = n) :
    additionalTarget (rn n' rr) = additionalTarget rr ∨
      (additionalTarget rr = some n ∧ additionalTarget (rn n' rr) = some n') := by
  by_cases h65 : rr.type = 65
  · right
    exact ⟨by rw [additionalTarget_65 rr h65, h], additionalTarget_65 (rn n' rr) h65⟩
  · left
    exact additionalTarget_rn n' rr h65

theorem addStepT_rel (v : View) (cls : Nat) (n n' : Bytes) (hl : toLower n = toLower n')
    (G G' : List AddrGroup) (hG : G.map lowGroup = G'.map lowGroup)
    (acc acc' : List AddrGroup) (h : ExtraRel n n' acc acc') (t t' : Option Bytes)
    (ht : t' = t ∨ (t = some n ∧ t' = some n')) :
    ExtraRel n n' (addStepT v cls (fun name ty extra => hasAddr G name ty extra) acc t)
      (addStepT v cls (fun name ty extra => hasAddr G' name ty extra) acc' t') := by
  have hacc := ExtraRel.low n n' hl acc acc' h
  have main : ∀ name name' : Bytes, (name' = name ∨ (name = n ∧ name' = n')) →
      ExtraRel n n' (addStepT v cls (fun name ty extra => hasAddr G name ty extra) acc (some name))
        (addStepT v cls (fun name ty extra => hasAddr G' name ty extra) acc' (some name')) := by
    intro name name' hname
    have hlow : toLower name = toLower name' := by
      rcases hname with h1 | ⟨h1, h2⟩
      · rw [h1]
      · rw [h1, h2, hl]
    have hg : ∀ (ty : Nat) (c : List Cand), ExtraRel n n' [⟨name, ty, cls, c, 1⟩] [⟨name', ty, cls, c, 1⟩] := by
      intro ty c
      refine ⟨?_, trivial⟩
      rcases hname with h1 | ⟨h1, h2⟩
      · left; rw [h1]
      · right; exact ⟨h1, by rw [h2]; rfl⟩
    unfold addStepT
    dsimp only
    have e1 := (hasAddr_low G G' name name' 1 acc acc' hG hlow hacc).symm
    have e2 := (hasAddr_low G G' name name' 28 acc acc' hG hlow hacc).symm
    simp only [e1, e2, ← hlow]
    split
    · exact h
    · apply ExtraRel.append
      · apply ExtraRel.append _ _ _ _ _ _ h
        split
        · exact hg _ _
        · trivial
      · split
        · exact hg _ _
        · trivial
  cases t with
  | none =>
    rcases ht with h1 | ⟨h1, _⟩
    · rw [h1]; exact h
    · cases h1
  | some name =>
    rcases ht with h1 | ⟨h1, h2⟩
    · rw [h1]; exact main name name (Or.inl rfl)
    · rw [h2]; exact main name n' (Or.inr ⟨Option.some.inj h1, rfl⟩)

/-- `AdditionalSectionForRecords` over records owned by the spelling asked, for the two spellings:
the groups added are position by position the same, or the same under the other spelling. Every
record type (so every query type, ANY included). -/
theorem additionalFor_rel (v : View) (cls : Nat) (n n' : Bytes) (hl : toLower n = toLower n')
    (G G' : List AddrGroup) (hG : G.map lowGroup = G'.map lowGroup) :
    ∀ (recs : List RR) (acc acc' : List AddrGroup), (∀ rr ∈ recs, rr.name = n) → ExtraRel n n' acc acc' →
      ExtraRel n n' (additionalFor v cls recs (fun name ty extra => hasAddr G name ty extra) acc)
        (additionalFor v cls (recs.map (rn n')) (fun name ty extra => hasAddr G' name ty extra) acc') := by
  intro recs
  induction recs with
  | nil => intro acc acc' _ h; exact h
  | cons rr recs ih =>
    intro acc acc' hn h
    rw [additionalFor_eq, additionalFor_eq, List.map_cons, List.foldl_cons, List.foldl_cons,
      ← additionalFor_eq, ← additionalFor_eq]
    apply ih _ _ (fun r hr => hn r (List.mem_cons_of_mem _ hr))
    exact addStepT_rel v cls n n' hl G G' hG acc acc' h _ _
      (additionalTarget_rn_cases n n' rr (hn rr (List.mem_cons_self ..)))

theorem map_low_sn (n n' : Bytes) (hl : toLower n = toLower n') (l : List AddrGroup) (h : ∀ g ∈ l, g.name = n) :
    l.map lowGroup = (l.map (sn n')).map lowGroup := by
  rw [List.map_map]
  apply List.map_congr_left
  intro g hg
  show lowGroup g = lowGroup (sn n' g)
  unfold lowGroup sn
  rw [h g hg, hl]

/-! ### `serve`, cut into pieces -/

def served (g : AddrGroup) : Bool := g.cands.any fun c => c.weight > 0

def groupsOf (n : Bytes) (m : Nat) (a : Ans) : List AddrGroup :=
  (if a.a4.isEmpty then [] else [⟨n, 1, 1, a.a4, m⟩])
    ++ (if a.a6.isEmpty then [] else [⟨n, 28, 1, a.a6, m⟩])

def ansEmpty (n : Bytes) (m : Nat) (a : Ans) : Prop :=
  a.rrs.isEmpty ∧ ¬ (groupsOf n m a).any served

instance (n : Bytes) (m : Nat) (a : Ans) : Decidable (ansEmpty n m a) := by unfold ansEmpty; infer_instance

def nsSecOf (v : View) (q : Query) (cut : Cut) (a : Ans) : List RR :=
  if cut.auth ∧ ansEmpty q.qnameOut q.maxAns a then findSOA v cut.zoneCut
  else if ¬ cut.auth ∧ ¬ (a.rrs.any fun rr => rr.type = 2 ∧ toLower rr.name = cut.zoneCut) then
    getNs v cut.zoneCut q.qclass
  else []

def presentOf (q : Query) (a : Ans) : Bytes → Nat → List AddrGroup → Bool :=
  fun name t extra => hasAddr (groupsOf q.qnameOut q.maxAns a) name t extra

/-- the part of `serve` after `FindAnswer` -/
def fin (v : View) (q : Query) (cut : Cut) (a : Ans) : Outcome :=
  .reply { rcode := if cut.auth ∧ ansEmpty q.qnameOut q.maxAns a ∧ ¬ a.recordFound then 3 else 0, aa := cut.auth,
           answer := a.rrs, answerAddrs := groupsOf q.qnameOut q.maxAns a, ns := nsSecOf v q cut a,
           extra := additionalFor v q.qclass (nsSecOf v q cut a) (presentOf q a)
             (additionalFor v q.qclass a.rrs (presentOf q a) []) }

def ansOf (v : View) (q : Query) (cut : Cut) : R Ans :=
  if cut.auth then
    if v.v2 then findAnswerV2 v q.qname cut.zoneCut q.qnameOut q.qtype
    else .ok (findAnswerV1 v cut.zoneCut q.qnameOut q.qtype (q.qname.length + 1) q.qname false {})
  else .ok {}

/-- the part of `serve` after the DS step -/
def tail (v : View) (q : Query) (cut : Cut) : Outcome :=
  match (if cut.zoneCut.isEmpty then none else some ()) with
  | none => .panic
  | some _ =>
    match ansOf v q cut with
    | .panic => .panic
    | .err => .noReply
    | .ok a => fin v q cut a

def dsStep (v : View) (q : Query) (cut : Cut) : R Cut :=
  if ¬ cut.auth ∧ q.qtype = 43 ∧ q.qname.head? ≠ some 0 then
    match q.qname with
    | [] => .panic
    | n :: rest =>
      match isAuthoritative v (rest.drop n.toNat) with
      | .ok c2 => .ok ⟨cut.ns, c2.auth, c2.zoneCut⟩
      | .err => .err
      | .panic => .panic
  else .ok cut

theorem serve_unfold (v : View) (q : Query) :
    serve v q =
      match isAuthoritative v q.qname with
      | .err | .panic => .failedReply
      | .ok cut =>
        if ¬ cut.ns ∧ ¬ cut.auth then
          .reply { rcode := 5, aa := false, answer := [], answerAddrs := [], ns := [], extra := [] }
        else
          match dsStep v q cut with
          | .panic => .panic
          | .err => .failedReply
          | .ok cut => tail v q cut := rfl

/-! ### the relation between the two outcomes -/

/-- The exact relation between the responses to the spellings `n` and `n'` of one name: the answer
records and answer address groups are all owned by the spelling asked and are otherwise identical;
the authority section is identical; the additional section is, position by position, the same group
or (HTTPS/SVCB-style self-targets) the group owned by the spelling asked under the other spelling
(`extraAll`, every query type). `full` = the query type is not ANY: then the additional section is
identical as a whole, or every group in it is owned by the spelling asked (`extra`). -/
structure RespRel (full : Prop) (n n' : Bytes) (r r' : Response) : Prop where
  rcode : r'.rcode = r.rcode
  aa : r'.aa = r.aa
  answer : r'.answer = r.answer.map (rn n')
  answerOwner : ∀ rr ∈ r.answer, rr.name = n
  addrs : r'.answerAddrs = r.answerAddrs.map (sn n')
  addrsOwner : ∀ g ∈ r.answerAddrs, g.name = n
  ns : r'.ns = r.ns
  extra : full → r'.extra = r.extra ∨ (r'.extra = r.extra.map (sn n') ∧ ∀ g ∈ r.extra, g.name = n)
  extraAll : ExtraRel n n' r.extra r'.extra

def OutRel (full : Prop) (n n' : Bytes) : Outcome → Outcome → Prop
  | .reply r, .reply r' => RespRel full n n' r r'
  | .failedReply, .failedReply => True
  | .noReply, .noReply => True
  | .panic, .panic => True
  | _, _ => False

theorem findSOA_type (v : View) (zc : Bytes) : ∀ rr ∈ findSOA v zc, additionalTarget rr = none := by
  intro rr h
  unfold findSOA at h
  split at h
  · rw [List.mem_singleton.mp h]; rfl
  · cases h

theorem groupsOf_sn (n n' : Bytes) (m : Nat) (a a' : Ans) (h4 : a'.a4 = a.a4) (h6 : a'.a6 = a.a6) :
    groupsOf n' m a' = (groupsOf n m a).map (sn n') ∧ ∀ g ∈ groupsOf n m a, g.name = n := by
  unfold groupsOf
  rw [h4, h6]
  constructor
  · rw [List.map_append]
    congr 1 <;> split <;> rfl
  · intro g hg
    rcases List.mem_append.mp hg with hg | hg <;> split at hg <;>
      first | cases hg; done | (rw [List.mem_singleton.mp hg])

theorem any_served_sn (n' : Bytes) (gs : List AddrGroup) : (gs.map (sn n')).any served = gs.any served := by
  rw [List.any_map]; rfl

theorem fin_rel (v : View) (q q' : Query) (cut : Cut) (a a' : Ans) (hauth : cut.auth = true)
    (hc : q'.qclass = q.qclass) (hm : q'.maxAns = q.maxAns)
    (hl : toLower q.qnameOut = toLower q'.qnameOut)
    (h : AnsRel q.qnameOut q'.qnameOut q.qtype a a') :
    OutRel (q.qtype ≠ 255) q.qnameOut q'.qnameOut (fin v q cut a) (fin v q' cut a') := by
  obtain ⟨hg, hgo⟩ := groupsOf_sn q.qnameOut q'.qnameOut q.maxAns a a' h.a4 h.a6
  have hE : ansEmpty q'.qnameOut q'.maxAns a' ↔ ansEmpty q.qnameOut q.maxAns a := by
    unfold ansEmpty
    rw [hm, hg, any_served_sn, h.rrs, List.isEmpty_map]
  have hns : nsSecOf v q' cut a' = nsSecOf v q cut a ∧ ∀ rr ∈ nsSecOf v q cut a, additionalTarget rr = none := by
    unfold nsSecOf
    by_cases hE1 : ansEmpty q.qnameOut q.maxAns a
    · rw [if_pos ⟨hauth, hE.mpr hE1⟩, if_pos ⟨hauth, hE1⟩]
      exact ⟨rfl, findSOA_type v _⟩
    · rw [if_neg (fun h => hE1 (hE.mp h.2)), if_neg (fun h => h.1 hauth), if_neg (fun h => hE1 h.2),
        if_neg (fun h => h.1 hauth)]
      exact ⟨rfl, fun _ h => by cases h⟩
  have hx : q.qtype ≠ 255 → additionalFor v q'.qclass a'.rrs (presentOf q' a') [] =
        additionalFor v q.qclass a.rrs (presentOf q a) [] ∨
      (additionalFor v q'.qclass a'.rrs (presentOf q' a') [] =
        (additionalFor v q.qclass a.rrs (presentOf q a) []).map (sn q'.qnameOut) ∧
       ∀ g ∈ additionalFor v q.qclass a.rrs (presentOf q a) [], g.name = q.qnameOut) := by
    intro hqt
    rw [hc, h.rrs]
    by_cases h65 : q.qtype = 65
    · -- every target is the owner itself; there are no answer addresses
      right
      have e4 : a.a4 = [] := Classical.byContradiction fun hne => by
        have := h.h4 hqt hne; rw [h65] at this; cases this
      have e6 : a.a6 = [] := Classical.byContradiction fun hne => by
        have := h.h6 hqt hne; rw [h65] at this; cases this
      have eg : groupsOf q.qnameOut q.maxAns a = [] := by unfold groupsOf; rw [e4, e6]; rfl
      have eg' : groupsOf q'.qnameOut q'.maxAns a' = [] := by rw [hm, hg, eg]; rfl
      unfold presentOf
      rw [eg, eg']
      exact additionalFor_self v q.qclass q.qnameOut q'.qnameOut hl a.rrs []
        (fun rr hrr => ⟨h.name rr hrr, by
          rcases h.ty hqt rr hrr with h5 | ⟨ht, _⟩
          · exact Or.inl h5
          · exact Or.inr (by rw [ht, h65])⟩)
        (fun _ hg => by cases hg)
    · left
      have hno : ∀ rr ∈ a.rrs, rr.type ≠ 65 := by
        intro rr hrr
        rcases h.ty hqt rr hrr with h5 | ⟨ht, _⟩
        · rw [h5]; decide
        · rw [ht]; exact h65
      rw [additionalFor_no65 v q.qclass q'.qnameOut _ a.rrs [] hno]
      by_cases hgr : a.a4 = [] ∧ a.a6 = []
      · have eg : groupsOf q.qnameOut q.maxAns a = [] := by unfold groupsOf; rw [hgr.1, hgr.2]; rfl
        have eg' : groupsOf q'.qnameOut q'.maxAns a' = [] := by rw [hm, hg, eg]; rfl
        unfold presentOf
        rw [eg, eg']
      · -- an address query: the other answer records are CNAMEs
        have h5 : ∀ rr ∈ a.rrs, additionalTarget rr = none := by
          intro rr hrr
          rcases h.ty hqt rr hrr with h5 | ⟨_, h1, h28⟩
          · exact additionalTarget_5 rr h5
          · exfalso
            apply hgr
            constructor
            · exact Classical.byContradiction fun hne => h1 (h.h4 hqt hne)
            · exact Classical.byContradiction fun hne => h28 (h.h6 hqt hne)
        rw [additionalFor_none v q.qclass _ a.rrs [] h5, additionalFor_none v q.qclass _ a.rrs [] h5]
  unfold fin
  refine ⟨?_, rfl, h.rrs, h.name, by rw [hm]; exact hg, hgo, hns.1, ?_, ?_⟩
  · show (if cut.auth ∧ ansEmpty q'.qnameOut q'.maxAns a' ∧ ¬ a'.recordFound then 3 else 0) =
      (if cut.auth ∧ ansEmpty q.qnameOut q.maxAns a ∧ ¬ a.recordFound then 3 else 0)
    rw [h.rf]
    by_cases hE1 : ansEmpty q.qnameOut q.maxAns a
    · by_cases hr : a.recordFound
      · rw [if_neg (fun h => h.2.2 hr), if_neg (fun h => h.2.2 hr)]
      · rw [if_pos ⟨hauth, hE.mpr hE1, hr⟩, if_pos ⟨hauth, hE1, hr⟩]
    · rw [if_neg (fun h => hE1 (hE.mp h.2.1)), if_neg (fun h => hE1 h.2.1)]
  · intro hqt
    show additionalFor v q'.qclass (nsSecOf v q' cut a') (presentOf q' a') _ =
        additionalFor v q.qclass (nsSecOf v q cut a) (presentOf q a) _ ∨
      (additionalFor v q'.qclass (nsSecOf v q' cut a') (presentOf q' a') _ =
        (additionalFor v q.qclass (nsSecOf v q cut a) (presentOf q a) _).map (sn q'.qnameOut) ∧ _)
    rw [hns.1, additionalFor_none v q'.qclass _ _ _ hns.2, additionalFor_none v q.qclass _ _ _ hns.2]
    exact hx hqt
  · show ExtraRel q.qnameOut q'.qnameOut
      (additionalFor v q.qclass (nsSecOf v q cut a) (presentOf q a) _)
      (additionalFor v q'.qclass (nsSecOf v q' cut a') (presentOf q' a') _)
    rw [hns.1, additionalFor_none v q'.qclass _ _ _ hns.2, additionalFor_none v q.qclass _ _ _ hns.2,
      hc, h.rrs]
    unfold presentOf
    apply additionalFor_rel v q.qclass q.qnameOut q'.qnameOut hl _ _ _ a.rrs [] [] h.name trivial
    rw [hm, hg]
    exact map_low_sn _ _ hl _ hgo

theorem groupsOf_empty (n : Bytes) (m : Nat) : groupsOf n m {} = [] := rfl

theorem fin_noauth (full : Prop) (v : View) (q q' : Query) (cut : Cut) (hauth : cut.auth = false)
    (hc : q'.qclass = q.qclass) :
    OutRel full q.qnameOut q'.qnameOut (fin v q cut {}) (fin v q' cut {}) := by
  have hf : ∀ P : Prop, ¬ (cut.auth = true ∧ P) := fun P h => by rw [hauth] at h; cases h.1
  have hns : nsSecOf v q' cut {} = nsSecOf v q cut {} := by
    unfold nsSecOf
    rw [hc, if_neg (hf _), if_neg (hf _)]
  have hp : presentOf q' {} = presentOf q {} := by
    unfold presentOf
    rw [groupsOf_empty, groupsOf_empty]
  unfold fin
  have hx : additionalFor v q'.qclass (nsSecOf v q' cut {}) (presentOf q' {})
        (additionalFor v q'.qclass ({} : Ans).rrs (presentOf q' {}) []) =
      additionalFor v q.qclass (nsSecOf v q cut {}) (presentOf q {})
        (additionalFor v q.qclass ({} : Ans).rrs (presentOf q {}) []) := by
    rw [hns, hp, hc]
  refine ⟨?_, rfl, rfl, fun _ h => (by cases h), rfl, fun _ h => (by cases h), hns, fun _ => Or.inl hx, ?_⟩
  · show (if cut.auth ∧ _ then 3 else 0) = (if cut.auth ∧ _ then 3 else 0)
    rw [if_neg (hf _), if_neg (hf _)]
  · show ExtraRel _ _ (additionalFor v q.qclass (nsSecOf v q cut {}) (presentOf q {}) _)
      (additionalFor v q'.qclass (nsSecOf v q' cut {}) (presentOf q' {}) _)
    rw [hx]
    exact ExtraRel.refl _ _ _

theorem tail_rel (v : View) (q q' : Query) (cut : Cut)
    (hn : q'.qname = q.qname) (ht : q'.qtype = q.qtype)
    (hc : q'.qclass = q.qclass) (hm : q'.maxAns = q.maxAns)
    (hl : toLower q.qnameOut = toLower q'.qnameOut) :
    OutRel (q.qtype ≠ 255) q.qnameOut q'.qnameOut (tail v q cut) (tail v q' cut) := by
  unfold tail
  cases (if cut.zoneCut.isEmpty then none else some ()) with
  | none => trivial
  | some _ =>
    dsimp only
    cases hauth : cut.auth with
    | false =>
      have e : ∀ q : Query, ansOf v q cut = .ok {} := by
        intro q; unfold ansOf; rw [hauth]; rfl
      rw [e, e]
      exact fin_noauth _ v q q' cut hauth hc
    | true =>
      have hr : RRel (AnsRel q.qnameOut q'.qnameOut q.qtype) (ansOf v q cut) (ansOf v q' cut) := by
        unfold ansOf
        rw [hauth, if_pos rfl, if_pos rfl, hn, ht]
        cases v.v2 with
        | true =>
          rw [if_pos rfl, if_pos rfl]
          exact findAnswerV2_rel v _ _ _ _ _
        | false =>
          rw [if_neg (by decide), if_neg (by decide)]
          exact findAnswerV1_rel v _ _ _ _ _ _ _ _ _ (AnsRel.init _ _ _)
      revert hr
      generalize ansOf v q cut = r
      generalize ansOf v q' cut = r'
      intro hr
      cases r <;> cases r' <;> first | exact hr.elim | trivial | skip
      exact fin_rel v q q' cut _ _ hauth hc hm hl hr

/-- `serve` for two spellings of the query name -/
theorem serve_rel (v : View) (q q' : Query)
    (hn : q'.qname = q.qname) (ht : q'.qtype = q.qtype)
    (hc : q'.qclass = q.qclass) (hm : q'.maxAns = q.maxAns)
    (hl : toLower q.qnameOut = toLower q'.qnameOut) :
    OutRel (q.qtype ≠ 255) q.qnameOut q'.qnameOut (serve v q) (serve v q') := by
  rw [serve_unfold, serve_unfold, hn]
  cases isAuthoritative v q.qname with
  | err => trivial
  | panic => trivial
  | ok cut =>
    dsimp only
    split
    · exact ⟨rfl, rfl, rfl, fun _ h => (by cases h), rfl, fun _ h => (by cases h), rfl, fun _ => Or.inl rfl,
        trivial⟩
    have hd : dsStep v q' cut = dsStep v q cut := by
      unfold dsStep
      rw [hn, ht]
    rw [hd]
    cases dsStep v q cut with
    | err => trivial
    | panic => trivial
    | ok cut2 => exact tail_rel v q q' cut2 hn ht hc hm hl

/-! ### consequences in the vocabulary of the statements -/

theorem map_low_rn (n n' : Bytes) (hl : toLower n = toLower n') (l : List RR) (h : ∀ rr ∈ l, rr.name = n) :
    l.map lowRR = (l.map (rn n')).map lowRR := by
  rw [List.map_map]
  apply List.map_congr_left
  intro rr hrr
  show lowRR rr = lowRR (rn n' rr)
  unfold lowRR rn
  rw [h rr hrr, hl]

theorem caseEq_of_outRel (full : Prop) (n n' : Bytes) (hl : toLower n = toLower n') (o o' : Outcome)
    (h : OutRel full n n' o o') : caseEq o o' := by
  cases o <;> cases o' <;> first | exact h.elim | trivial | skip
  rename_i r r'
  have h : RespRel full n n' r r' := h
  refine ⟨h.rcode.symm, h.aa.symm, ?_, ?_, h.ns.symm, ExtraRel.low n n' hl _ _ h.extraAll⟩
  · rw [h.answer]; exact map_low_rn n n' hl _ h.answerOwner
  · rw [h.addrs]; exact map_low_sn n n' hl _ h.addrsOwner

theorem normalise_eq_of_caseEq (o o' : Outcome) (h : caseEq o o') : normalise o = normalise o' := by
  cases o <;> cases o' <;> first | exact h.elim | rfl | skip
  rename_i r r'
  obtain ⟨h1, h2, h3, h4, h5, h6⟩ := h
  dsimp only [normalise]
  rw [h1, h2, h3, h4, h5, h6]

theorem any_lowGroup (l : List AddrGroup) (p : List Cand → Bool) :
    (l.map lowGroup).any (fun g => p g.cands) = l.any (fun g => p g.cands) := by
  rw [List.any_map]; rfl

theorem weighted_eq_of_caseEq (o o' : Outcome) (h : caseEq o o') : weighted o = weighted o' := by
  cases o <;> cases o' <;> first | exact h.elim | rfl | skip
  rename_i r r'
  obtain ⟨_, _, _, h4, _, h6⟩ := h
  dsimp only [weighted]
  rw [List.any_append, List.any_append]
  rw [← any_lowGroup r.answerAddrs (fun c => decide (c.length > 1)),
    ← any_lowGroup r.extra (fun c => decide (c.length > 1)), h4, h6,
    any_lowGroup r'.answerAddrs (fun c => decide (c.length > 1)),
    any_lowGroup r'.extra (fun c => decide (c.length > 1))]

end DnsVerif.ServeKey
