/-
C03.4, the abstract core: the stack sweep of `Rearrange()` over the sorted start/stop events of a
laminar family of ranges. "Ghost" ranges annotate the events; the invariant says that the stack is
exactly the chain of ranges open at the current cut of the sort order, most recently opened first.
-/
import DnsVerif.Proofs.LpmTable

namespace DnsVerif.Lpm
open DnsVerif DnsVerif.Rearr

/-- a range `[lo, hi)` with the mask length and location it carries; `hi = TOP` = no stop event -/
structure Rng where
  lo : Nat
  hi : Nat
  len : Nat
  loc : Option Bytes
  sloc : Option Bytes      -- the (irrelevant) location field of its stop event
deriving DecidableEq, Repr

/-- a start or stop event together with the range it belongs to -/
structure GEv where
  r : Rng
  kind : Kind
deriving DecidableEq, Repr

def GEv.pt (g : GEv) : Point :=
  match g.kind with
  | .start => ⟨g.r.lo, g.r.len, g.r.loc, .start⟩
  | .stop => ⟨g.r.hi, g.r.len, g.r.sloc, .stop⟩

def srank (R : Rng) : Nat := R.lo * 1024 + (512 + R.len)
def erank (R : Rng) : Nat := R.hi * 1024 + ekey R.len
def grank (g : GEv) : Nat := rank g.pt

theorem grank_start (R : Rng) : grank ⟨R, .start⟩ = srank R := rfl
theorem grank_stop (R : Rng) : grank ⟨R, .stop⟩ = erank R := rfl

def gevents (R : Rng) : List GEv := ⟨R, .start⟩ :: (if R.hi = TOP then [] else [⟨R, .stop⟩])

/-- `R` lies inside `R'` -/
def Rng.sub (R R' : Rng) : Prop := R'.lo ≤ R.lo ∧ R.hi ≤ R'.hi

structure RngWF (F : List Rng) : Prop where
  nodup : F.Nodup
  bounds : ∀ R ∈ F, R.lo < R.hi ∧ R.hi ≤ TOP ∧ R.len ≤ 128
  lam : ∀ R ∈ F, ∀ R' ∈ F, R.sub R' ∨ R'.sub R ∨ R.hi ≤ R'.lo ∨ R'.hi ≤ R.lo
  /-- a range strictly inside another one that shares its start is strictly longer; if it shares its
  end, its end point comes first (`ekey`: it is strictly longer, the implicit IPv4 null range counting
  as a /96) -/
  nest : ∀ R ∈ F, ∀ R' ∈ F, R ≠ R' → R.sub R' →
    (R.lo = R'.lo → R'.len < R.len) ∧ (R.hi = R'.hi → R.hi ≠ TOP → ekey R.len < ekey R'.len)
  base : ∃ R0 ∈ F, R0.lo = 0 ∧ R0.hi = TOP ∧ R0.len = 0
  null_len : ∀ R ∈ F, R.loc = none → R.len = 0

/-- `R` is open at cut `t` of the sort order: started at or before, not stopped at or before -/
def IsOpen (F : List Rng) (t : Nat) (R : Rng) : Prop :=
  R ∈ F ∧ srank R ≤ t ∧ (R.hi = TOP ∨ t < erank R)

/-- the events still to come are exactly the events of `F` after cut `t` — and possibly marker events
`M` (pseudo start points that belong to no range of `F`) —, strictly sorted -/
structure Cut (F : List Rng) (M : List GEv) (t : Nat) (rest : List GEv) : Prop where
  sorted : rest.Pairwise fun g g' => grank g < grank g'
  sound : ∀ g ∈ rest, t < grank g ∧ ((g.r ∈ F ∧ (g.kind = .stop → g.r.hi ≠ TOP)) ∨ g ∈ M)
  starts : ∀ R ∈ F, t < srank R → ⟨R, .start⟩ ∈ rest
  stops : ∀ R ∈ F, R.hi ≠ TOP → t < erank R → ⟨R, .stop⟩ ∈ rest

/-- the stack holds exactly the open ranges, most recently started first -/
structure Inv (F : List Rng) (t : Nat) (st : List Rng) : Prop where
  mem : ∀ R, R ∈ st ↔ IsOpen F t R
  order : st.Pairwise fun R R' => srank R' < srank R

def tag (R : Rng) : Nat × Option Bytes := (R.len, R.loc)

/-- what the sweep emits for event `g` when `H` is the top of the stack afterwards -/
def outPt (gh : GEv × Rng) : Point := ⟨gh.1.pt.ip, gh.2.len, gh.2.loc, gh.1.kind⟩

/-- `H` is the innermost open range at cut `t` -/
def IsHead (F : List Rng) (t : Nat) (H : Rng) : Prop :=
  IsOpen F t H ∧ ∀ X, IsOpen F t X → X.lo ≤ H.lo ∧ H.hi ≤ X.hi

theorem srank_lt_erank {F : List Rng} (hF : RngWF F) {R : Rng} (hR : R ∈ F) : srank R < erank R := by
  obtain ⟨h1, _, h3⟩ := hF.bounds R hR
  unfold srank erank
  have h5 : (R.lo + 1) * 1024 ≤ R.hi * 1024 := Nat.mul_le_mul_right 1024 h1
  omega

/-- the head of the stack is inside every other open range -/
theorem head_inner {F : List Rng} (hF : RngWF F) {t : Nat} {H : Rng} {st : List Rng}
    (hinv : Inv F t (H :: st)) : IsHead F t H := by
  have hH := (hinv.mem H).1 List.mem_cons_self
  refine ⟨hH, fun X hX => ?_⟩
  by_cases hXH : X = H
  · rw [hXH]; exact ⟨Nat.le_refl _, Nat.le_refl _⟩
  have hXst : X ∈ st := by
    rcases List.mem_cons.1 ((hinv.mem X).2 hX) with h | h
    · exact absurd h hXH
    · exact h
  have hord : srank X < srank H := (List.pairwise_cons.1 hinv.order).1 X hXst
  obtain ⟨hHF, hHs, hHe⟩ := hH
  obtain ⟨hXF, hXs, hXe⟩ := hX
  obtain ⟨bH1, bH2, bH3⟩ := hF.bounds H hHF
  obtain ⟨bX1, bX2, bX3⟩ := hF.bounds X hXF
  have hN := hF.nest X hXF H hHF hXH
  have kH := ekey_lt H.len
  have kX := ekey_lt X.len
  unfold srank erank at *
  unfold Rng.sub at hN
  rcases hF.lam H hHF X hXF with h | h | h | h
  · exact h
  · unfold Rng.sub at h
    have := hN h
    omega
  · omega
  · rcases hXe with h' | h' <;> omega

/-- the event of a cut with the smallest rank is the head of the list; nothing lies in between -/
theorem Cut.tail {F : List Rng} {M : List GEv} {t : Nat} {g : GEv} {rest : List GEv}
    (hc : Cut F M t (g :: rest)) :
    Cut F M (grank g) rest := by
  have hlt : ∀ g' ∈ rest, grank g < grank g' := (List.pairwise_cons.1 hc.sorted).1
  refine ⟨(List.pairwise_cons.1 hc.sorted).2, ?_, ?_, ?_⟩
  · intro g' hg'
    exact ⟨hlt g' hg', (hc.sound g' (List.mem_cons_of_mem _ hg')).2⟩
  · intro R hR ht
    have h0 := (hc.sound g List.mem_cons_self).1
    rcases List.mem_cons.1 (hc.starts R hR (by omega)) with h | h
    · rw [← h, grank_start] at ht; omega
    · exact h
  · intro R hR hne ht
    have h0 := (hc.sound g List.mem_cons_self).1
    rcases List.mem_cons.1 (hc.stops R hR hne (by omega)) with h | h
    · rw [← h, grank_stop] at ht; omega
    · exact h

/-- an event of `F` after cut `t` is not before the first remaining event -/
theorem Cut.start_ge {F : List Rng} {M : List GEv} {t : Nat} {g : GEv} {rest : List GEv}
    (hc : Cut F M t (g :: rest))
    {R : Rng} (hR : R ∈ F) (ht : t < srank R) : grank g ≤ srank R := by
  rcases List.mem_cons.1 (hc.starts R hR ht) with h | h
  · rw [← h, grank_start]; exact Nat.le_refl _
  · have := (List.pairwise_cons.1 hc.sorted).1 _ h
    rw [grank_start] at this; omega

theorem Cut.stop_ge {F : List Rng} {M : List GEv} {t : Nat} {g : GEv} {rest : List GEv}
    (hc : Cut F M t (g :: rest))
    {R : Rng} (hR : R ∈ F) (hne : R.hi ≠ TOP) (ht : t < erank R) : grank g ≤ erank R := by
  rcases List.mem_cons.1 (hc.stops R hR hne ht) with h | h
  · rw [← h, grank_stop]; exact Nat.le_refl _
  · have := (List.pairwise_cons.1 hc.sorted).1 _ h
    rw [grank_stop] at this; omega

/-- a start event pushes its range -/
theorem Inv.push {F : List Rng} (hF : RngWF F) {M : List GEv} {t : Nat} {R : Rng} {rest : List GEv}
    {st : List Rng} (hc : Cut F M t (⟨R, .start⟩ :: rest)) (hRF : R ∈ F) (hinv : Inv F t st) :
    Inv F (srank R) (R :: st) := by
  have ht : t < srank R := (hc.sound _ List.mem_cons_self).1
  constructor
  · intro X
    constructor
    · intro hX
      rcases List.mem_cons.1 hX with h | h
      · rw [h]
        refine ⟨hRF, Nat.le_refl _, ?_⟩
        by_cases hTop : R.hi = TOP
        · exact Or.inl hTop
        · exact Or.inr (srank_lt_erank hF hRF)
      · obtain ⟨hXF, hXs, hXe⟩ := (hinv.mem X).1 h
        refine ⟨hXF, by omega, ?_⟩
        rcases hXe with h' | h'
        · exact Or.inl h'
        · by_cases hTop : X.hi = TOP
          · exact Or.inl hTop
          · right
            rcases List.mem_cons.1 (hc.stops X hXF hTop h') with h2 | h2
            · cases h2
            · have := (List.pairwise_cons.1 hc.sorted).1 _ h2
              rwa [grank_start, grank_stop] at this
    · rintro ⟨hXF, hXs, hXe⟩
      by_cases hle : srank X ≤ t
      · refine List.mem_cons_of_mem _ ((hinv.mem X).2 ⟨hXF, hle, ?_⟩)
        rcases hXe with h' | h'
        · exact Or.inl h'
        · exact Or.inr (by omega)
      · rcases List.mem_cons.1 (hc.starts X hXF (by omega)) with h | h
        · cases h; exact List.mem_cons_self
        · have := (List.pairwise_cons.1 hc.sorted).1 _ h
          rw [grank_start, grank_start] at this; omega
  · refine List.pairwise_cons.2 ⟨fun X hX => ?_, hinv.order⟩
    have := ((hinv.mem X).1 hX).2.1
    omega

/-- a stop event finds its own range on top of the stack, with its parent below -/
theorem Inv.pop {F : List Rng} (hF : RngWF F) {M : List GEv} {t : Nat} {R : Rng} {rest : List GEv}
    {st : List Rng} (hc : Cut F M t (⟨R, .stop⟩ :: rest)) (hRF : R ∈ F) (hRtop : R.hi ≠ TOP)
    (hinv : Inv F t st) :
    ∃ H below, st = R :: H :: below ∧ Inv F (erank R) (H :: below) := by
  have ht : t < erank R := (hc.sound _ List.mem_cons_self).1
  have hse := srank_lt_erank hF hRF
  -- R has been started
  have hRs : srank R ≤ t := by
    refine Nat.le_of_not_lt fun h => ?_
    have := hc.start_ge hRF h
    rw [grank_stop] at this; omega
  have hRopen : IsOpen F t R := ⟨hRF, hRs, Or.inr ht⟩
  have hRst : R ∈ st := (hinv.mem R).2 hRopen
  -- an open range other than R is not stopped before or at this event
  have hlater : ∀ X, IsOpen F t X → X ≠ R → X.hi = TOP ∨ erank R < erank X := by
    intro X hX hne
    by_cases hTop : X.hi = TOP
    · exact Or.inl hTop
    · right
      have hXe : t < erank X := by rcases hX.2.2 with h | h; exact absurd h hTop; exact h
      rcases List.mem_cons.1 (hc.stops X hX.1 hTop hXe) with h | h
      · cases h; exact absurd rfl hne
      · have := (List.pairwise_cons.1 hc.sorted).1 _ h
        rwa [grank_stop, grank_stop] at this
  -- the head of the stack is R
  obtain ⟨H, st', rfl⟩ : ∃ H st', st = H :: st' := by
    cases st with
    | nil => cases hRst
    | cons H st' => exact ⟨H, st', rfl⟩
  have hHR : H = R := by
    refine Classical.byContradiction fun hne => ?_
    have hRst' : R ∈ st' := by
      rcases List.mem_cons.1 hRst with h | h
      · exact absurd h.symm hne
      · exact h
    have hord : srank R < srank H := (List.pairwise_cons.1 hinv.order).1 R hRst'
    have hH := (hinv.mem H).1 List.mem_cons_self
    have hHlater := hlater H hH hne
    obtain ⟨hHF, hHs, hHe⟩ := hH
    obtain ⟨bH1, bH2, bH3⟩ := hF.bounds H hHF
    obtain ⟨bR1, bR2, bR3⟩ := hF.bounds R hRF
    have hN1 := hF.nest R hRF H hHF (Ne.symm hne)
    have hN2 := hF.nest H hHF R hRF hne
    have kH := ekey_lt H.len
    have kR := ekey_lt R.len
    unfold srank erank at *
    unfold Rng.sub at hN1 hN2
    rcases hF.lam R hRF H hHF with h | h | h | h
    · unfold Rng.sub at h
      have := hN1 h
      rcases hHlater with h' | h' <;> omega
    · unfold Rng.sub at h
      have := hN2 h
      rcases hHlater with h' | h' <;> omega
    · omega
    · omega
  subst hHR
  -- the base range is below
  obtain ⟨R0, hR0F, hR0lo, hR0hi, hR0len⟩ := hF.base
  have hR0ne : R0 ≠ H := fun h => hRtop (h ▸ hR0hi)
  have hR0s : srank R0 ≤ t := by
    refine Nat.le_of_not_lt fun h => ?_
    have h1 := hc.start_ge hR0F h
    rw [grank_stop] at h1
    obtain ⟨bR1, bR2, bR3⟩ := hF.bounds H hRF
    have kH := ekey_lt H.len
    unfold srank erank at *
    omega
  have hR0st : R0 ∈ st' := by
    rcases List.mem_cons.1 ((hinv.mem R0).2 ⟨hR0F, hR0s, Or.inl hR0hi⟩) with h | h
    · exact absurd h hR0ne
    · exact h
  obtain ⟨H2, below, rfl⟩ : ∃ H2 below, st' = H2 :: below := by
    cases st' with
    | nil => cases hR0st
    | cons H2 below => exact ⟨H2, below, rfl⟩
  refine ⟨H2, below, rfl, ?_, (List.pairwise_cons.1 hinv.order).2⟩
  intro X
  have hnodup : H ∉ H2 :: below := by
    intro hmem
    have := (List.pairwise_cons.1 hinv.order).1 H hmem
    omega
  constructor
  · intro hX
    have hXne : X ≠ H := fun h => hnodup (h ▸ hX)
    have hXo := (hinv.mem X).1 (List.mem_cons_of_mem _ hX)
    refine ⟨hXo.1, by have := hXo.2.1; omega, hlater X hXo hXne⟩
  · rintro ⟨hXF, hXs, hXe⟩
    have hXne : X ≠ H := by
      intro h
      rw [h] at hXe
      rcases hXe with h' | h'
      · exact hRtop h'
      · omega
    by_cases hle : srank X ≤ t
    · have : X ∈ H :: H2 :: below := (hinv.mem X).2 ⟨hXF, hle, by
        rcases hXe with h' | h'
        · exact Or.inl h'
        · exact Or.inr (by omega)⟩
      rcases List.mem_cons.1 this with h | h
      · exact absurd h hXne
      · exact h
    · rcases List.mem_cons.1 (hc.starts X hXF (by omega)) with h | h
      · cases h
      · have := (List.pairwise_cons.1 hc.sorted).1 _ h
        rw [grank_stop, grank_start] at this; omega

/-- a start point is pushed — unless it is the pseudo start right after the IPv4 range (address
`afterIPv4`, mask length 0) met with more than the default range on the stack (`resumesIPv6`) -/
theorem sweep_start (p : Point) (rest : List Point) (stack : List (Nat × Option Bytes))
    (h : p.kind = .start) (hno : ¬ (p.ip = afterIPv4 ∧ p.maskLen = 0 ∧ stack.length > 1)) :
    sweep (p :: rest) stack = (sweep rest ((p.maskLen, p.loc) :: stack)).map (p :: ·) := by
  obtain ⟨ip, ml, loc, k⟩ := p
  cases h
  simp only at hno
  show (if ip = afterIPv4 ∧ ml = 0 ∧ stack.length > 1 then _ else _) = _
  rw [if_neg hno]

/-- the pseudo start right after the IPv4 range, met inside a declared range: not pushed, it takes
mask length and location of the range that continues -/
theorem sweep_resume (p : Point) (rest : List Point) (x : Nat × Option Bytes)
    (below : List (Nat × Option Bytes)) (h : p.kind = .start)
    (hyes : p.ip = afterIPv4 ∧ p.maskLen = 0 ∧ (x :: below).length > 1) :
    sweep (p :: rest) (x :: below) =
      (sweep rest (x :: below)).map ({ p with maskLen := x.1, loc := x.2 } :: ·) := by
  obtain ⟨ip, ml, loc, k⟩ := p
  obtain ⟨m, l⟩ := x
  cases h
  simp only at hyes
  show (if ip = afterIPv4 ∧ ml = 0 ∧ ((m, l) :: below).length > 1 then _ else _) = _
  rw [if_pos hyes]

theorem sweep_stop (p : Point) (rest : List Point) (x : Nat × Option Bytes) (m : Nat) (l : Option Bytes)
    (below : List (Nat × Option Bytes)) (h : p.kind = .stop) :
    sweep (p :: rest) (x :: (m, l) :: below) =
      (sweep rest ((m, l) :: below)).map ({ p with maskLen := m, loc := l } :: ·) := by
  obtain ⟨ip, ml, loc, k⟩ := p
  cases h
  rfl

/-- only the default range `[0, …)` of mask length 0 is open across `afterIPv4` when a range of mask
length 0 starts there — then the `resumesIPv6` rule of the sweep does not fire -/
def NoResume (F : List Rng) : Prop :=
  ∀ R ∈ F, R.lo = afterIPv4 → R.len = 0 →
    ∀ X ∈ F, X.lo < afterIPv4 → afterIPv4 < X.hi → X.lo = 0 ∧ X.len = 0

/-- under `NoResume` the stack holds at most the default range when a range of mask length 0 starts
at `afterIPv4` -/
theorem stack_le_one {F : List Rng} (hF : RngWF F) (hN : NoResume F) {M : List GEv} {t : Nat} {R : Rng}
    {rest : List GEv} {st : List Rng} (hc : Cut F M t (⟨R, .start⟩ :: rest)) (hRF : R ∈ F)
    (hinv : Inv F t st) (hlo : R.lo = afterIPv4) (hlen : R.len = 0) : st.length ≤ 1 := by
  have ht : t < srank R := (hc.sound _ List.mem_cons_self).1
  have key : ∀ X ∈ st, srank X = 512 := by
    intro X hX
    obtain ⟨hXF, hXs, hXe⟩ := (hinv.mem X).1 hX
    obtain ⟨b1, b2, b3⟩ := hF.bounds X hXF
    have hXlo : X.lo < afterIPv4 := by
      unfold srank at hXs ht; rw [hlo, hlen] at ht; omega
    have hXhi : afterIPv4 < X.hi := by
      by_cases hTop : X.hi = TOP
      · rw [hTop]; decide
      · have h' : t < erank X := by rcases hXe with h | h; exact absurd h hTop; exact h
        have := hc.stop_ge hXF hTop h'
        rw [grank_start] at this
        have kX := ekey_lt X.len
        unfold srank erank at this; rw [hlo, hlen] at this; omega
    obtain ⟨e1, e2⟩ := hN R hRF hlo hlen X hXF hXlo hXhi
    unfold srank; rw [e1, e2]
  match st, hinv, key with
  | [], _, _ => exact Nat.zero_le _
  | [_], _, _ => exact Nat.le_refl _
  | X :: Y :: _, hinv, key =>
    exfalso
    have := (List.pairwise_cons.1 hinv.order).1 Y List.mem_cons_self
    rw [key X List.mem_cons_self, key Y (List.mem_cons_of_mem _ List.mem_cons_self)] at this
    omega

/-- the marker events: pseudo start points of mask length 0 at `afterIPv4` that belong to no range of
`F`; they occur only when `F` has a range of positive mask length across `afterIPv4` (and then `F` has
no range of mask length 0 starting there) -/
structure MarkWF (F : List Rng) (M : List GEv) : Prop where
  kind : ∀ m ∈ M, m.kind = .start
  lo : ∀ m ∈ M, m.r.lo = afterIPv4
  len : ∀ m ∈ M, m.r.len = 0
  notF : ∀ m ∈ M, m.r ∉ F
  across : ∀ m ∈ M, ∃ X ∈ F, X.lo < afterIPv4 ∧ afterIPv4 < X.hi ∧ X.len ≠ 0
  alone : ∀ m ∈ M, ∀ R ∈ F, ¬ (R.lo = afterIPv4 ∧ R.len = 0)

theorem MarkWF.nil (F : List Rng) : MarkWF F [] := by
  constructor <;> intro m hm <;> cases hm

theorem MarkWF.grank {F : List Rng} {M : List GEv} (hM : MarkWF F M) {m : GEv} (hm : m ∈ M) :
    grank m = afterIPv4 * 1024 + 512 := by
  obtain ⟨R, k⟩ := m
  have h1 := hM.kind _ hm
  have h2 := hM.lo _ hm
  have h3 := hM.len _ hm
  simp only at h1 h2 h3
  subst h1
  rw [grank_start]; unfold srank; rw [h2, h3]

/-- a marker event changes nothing: the same ranges are open before and after it -/
theorem Inv.skip {F : List Rng} {M : List GEv} {t : Nat} {m : GEv} {rest : List GEv} {st : List Rng}
    (hc : Cut F M t (m :: rest)) (hm : m.r ∉ F) (hinv : Inv F t st) : Inv F (grank m) st := by
  have ht : t < grank m := (hc.sound _ List.mem_cons_self).1
  have hlt : ∀ g' ∈ rest, grank m < grank g' := (List.pairwise_cons.1 hc.sorted).1
  refine ⟨fun X => ?_, hinv.order⟩
  rw [hinv.mem X]
  constructor
  · rintro ⟨hXF, hXs, hXe⟩
    refine ⟨hXF, by omega, ?_⟩
    by_cases hTop : X.hi = TOP
    · exact Or.inl hTop
    · right
      have h' : t < erank X := by rcases hXe with h | h; exact absurd h hTop; exact h
      rcases List.mem_cons.1 (hc.stops X hXF hTop h') with h | h
      · exact absurd (h ▸ hXF : m.r ∈ F) hm
      · have := hlt _ h; rwa [grank_stop] at this
  · rintro ⟨hXF, hXs, hXe⟩
    have hs : srank X ≤ t := by
      refine Nat.le_of_not_lt fun h => ?_
      rcases List.mem_cons.1 (hc.starts X hXF h) with h' | h'
      · exact absurd (h' ▸ hXF : m.r ∈ F) hm
      · have := hlt _ h'; rw [grank_start] at this; omega
    refine ⟨hXF, hs, ?_⟩
    rcases hXe with h | h
    · exact Or.inl h
    · exact Or.inr (by omega)

/-- at a marker event the stack holds at least two ranges: the default range and the range across
`afterIPv4` -/
theorem stack_two {F : List Rng} (hF : RngWF F) {M : List GEv} (hM : MarkWF F M) {t : Nat} {m : GEv}
    {rest : List GEv} {st : List Rng} (hc : Cut F M t (m :: rest)) (hm : m ∈ M) (hinv : Inv F t st) :
    ∃ H H' below, st = H :: H' :: below := by
  have hmr : m.r ∉ F := hM.notF m hm
  have hlt : ∀ g' ∈ rest, grank m < grank g' := (List.pairwise_cons.1 hc.sorted).1
  have hgm := hM.grank hm
  -- every range of `F` that starts below `afterIPv4` and ends above it is open
  have hopen : ∀ X ∈ F, X.lo < afterIPv4 → afterIPv4 < X.hi → X ∈ st := by
    intro X hXF h1 h2
    obtain ⟨b1, b2, b3⟩ := hF.bounds X hXF
    refine (hinv.mem X).2 ⟨hXF, ?_, ?_⟩
    · refine Nat.le_of_not_lt fun h => ?_
      rcases List.mem_cons.1 (hc.starts X hXF h) with h' | h'
      · exact absurd (h' ▸ hXF : m.r ∈ F) hmr
      · have := hlt _ h'; rw [grank_start, hgm] at this; unfold srank at this; omega
    · by_cases hTop : X.hi = TOP
      · exact Or.inl hTop
      · right
        have := (hc.sound _ List.mem_cons_self).1
        rw [hgm] at this; unfold erank
        have h3 : (afterIPv4 + 1) * 1024 ≤ X.hi * 1024 := Nat.mul_le_mul_right 1024 h2
        have h4 : t < (afterIPv4 + 1) * 1024 := by
          generalize afterIPv4 = A at this ⊢
          omega
        exact Nat.lt_of_lt_of_le h4 (Nat.le_trans h3 (Nat.le_add_right _ _))
  obtain ⟨X, hXF, hX1, hX2, hX3⟩ := hM.across m hm
  obtain ⟨R0, hR0F, hR0lo, hR0hi, hR0len⟩ := hF.base
  have hX := hopen X hXF hX1 hX2
  have hR0 := hopen R0 hR0F (by rw [hR0lo]; exact Nat.two_pow_pos 48) (by rw [hR0hi]; exact Nat.pow_lt_pow_right (by decide) (by decide))
  have hne : X ≠ R0 := fun h => hX3 (h ▸ hR0len)
  match st, hX, hR0 with
  | [], hX, _ => cases hX
  | [Y], hX, hR0 =>
    exact absurd ((List.mem_singleton.1 hX).trans (List.mem_singleton.1 hR0).symm) hne
  | H :: H' :: below, _, _ => exact ⟨H, H', below, rfl⟩

/-- **sweep_invariant**: on the sorted events of a well-formed family the sweep never runs out of
stack, and the point it emits for each event carries mask length and location of the innermost
range open just after that event (which for a start event of a range of `F` is that range; a marker
event is not pushed and emits the innermost range that continues) -/
theorem sweep_ghost {F : List Rng} (hF : RngWF F) (hN : NoResume F) {M : List GEv} (hM : MarkWF F M) :
    ∀ (rest : List GEv) (t : Nat) (st : List Rng), Cut F M t rest → Inv F t st →
      ∃ hs : List Rng, hs.length = rest.length ∧
        sweep (rest.map GEv.pt) (st.map tag) = some ((rest.zip hs).map outPt) ∧
        ∀ gh ∈ rest.zip hs, IsHead F (grank gh.1) gh.2 ∧
          (gh.1.r ∈ F → gh.1.kind = .start → gh.2 = gh.1.r) := by
  intro rest
  induction rest with
  | nil => intro t st _ _; exact ⟨[], rfl, rfl, fun _ h => by simp at h⟩
  | cons g rest ih =>
    intro t st hc hinv
    rcases (hc.sound g List.mem_cons_self).2 with ⟨hRF, hstop⟩ | hgM
    · obtain ⟨R, k⟩ := g
      simp only at hRF hstop
      cases k with
      | start =>
        have hinv' := hinv.push hF hc hRF
        obtain ⟨hs, hlen, hsw, hall⟩ := ih (srank R) (R :: st) hc.tail hinv'
        refine ⟨R :: hs, by simp [hlen], ?_, ?_⟩
        · have hno : ¬ ((GEv.mk R .start).pt.ip = afterIPv4 ∧ (GEv.mk R .start).pt.maskLen = 0 ∧
              (st.map tag).length > 1) := by
            rintro ⟨h1, h2, h3⟩
            have := stack_le_one hF hN hc hRF hinv h1 h2
            rw [List.length_map] at h3; omega
          rw [List.map_cons, sweep_start _ _ _ rfl hno]
          have : (((GEv.mk R .start).pt.maskLen, (GEv.mk R .start).pt.loc) :: st.map tag) =
              (R :: st).map tag := rfl
          rw [this, hsw]
          rfl
        · intro gh hgh
          rw [List.zip_cons_cons] at hgh
          rcases List.mem_cons.1 hgh with h | h
          · rw [h]
            exact ⟨head_inner hF hinv', fun _ _ => rfl⟩
          · exact hall gh h
      | stop =>
        obtain ⟨H, below, hst, hinv'⟩ := hinv.pop hF hc hRF (hstop rfl)
        obtain ⟨hs, hlen, hsw, hall⟩ := ih (erank R) (H :: below) hc.tail hinv'
        refine ⟨H :: hs, by simp [hlen], ?_, ?_⟩
        · rw [hst, List.map_cons]
          show sweep _ (tag R :: (H.len, H.loc) :: below.map tag) = _
          rw [sweep_stop _ _ _ _ _ _ rfl]
          have : ((H.len, H.loc) :: below.map tag) = (H :: below).map tag := rfl
          rw [this, hsw]
          rfl
        · intro gh hgh
          rw [List.zip_cons_cons] at hgh
          rcases List.mem_cons.1 hgh with h | h
          · rw [h]
            exact ⟨head_inner hF hinv', fun _ hk => by cases hk⟩
          · exact hall gh h
    · -- a marker: not pushed
      have hmr : g.r ∉ F := hM.notF g hgM
      obtain ⟨H, H', below, hst⟩ := stack_two hF hM hc hgM hinv
      have hinv' : Inv F (grank g) (H :: H' :: below) := hst ▸ hinv.skip hc hmr
      obtain ⟨hs, hlen, hsw, hall⟩ := ih (grank g) (H :: H' :: below) hc.tail hinv'
      have hk := hM.kind g hgM
      have hlo := hM.lo g hgM
      have hln := hM.len g hgM
      obtain ⟨R, k⟩ := g
      simp only at hk hlo hln hmr
      subst hk
      refine ⟨H :: hs, by simp [hlen], ?_, ?_⟩
      · rw [hst, List.map_cons]
        show sweep _ (tag H :: (H' :: below).map tag) = _
        rw [sweep_resume _ _ _ _ rfl ⟨hlo, hln, by simp⟩]
        have : (tag H :: (H' :: below).map tag) = (H :: H' :: below).map tag := rfl
        rw [this, hsw]
        rfl
      · intro gh hgh
        rw [List.zip_cons_cons] at hgh
        rcases List.mem_cons.1 hgh with h | h
        · rw [h]
          exact ⟨head_inner hF hinv', fun hin => absurd hin hmr⟩
        · exact hall gh h

end DnsVerif.Lpm
