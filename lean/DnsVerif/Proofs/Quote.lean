/-
Helper lemmas for C17 (quoting round trip). Property theorems live in `Props/C17.lean`.
-/
import DnsVerif.Model.Quote

namespace DnsVerif.Quote

/-! ### replaceByte / replacePair -/

theorem replaceByte_append (c : UInt8) (rep a b : Bytes) :
    replaceByte c rep (a ++ b) = replaceByte c rep a ++ replaceByte c rep b := by
  induction a with
  | nil => simp [replaceByte]
  | cons x xs ih => simp [replaceByte, ih]

theorem replaceByte_not_mem (c : UInt8) (rep s : Bytes) (h : c ∉ rep) :
    c ∉ replaceByte c rep s := by
  induction s with
  | nil => simp [replaceByte]
  | cons x xs ih =>
    simp only [replaceByte, List.mem_append, not_or]
    refine ⟨?_, ih⟩
    split
    · exact h
    · simp; intro h'; simp_all

theorem replaceByte_preserves_not_mem (d c : UInt8) (rep s : Bytes) (hrep : d ∉ rep) (hs : d ∉ s) :
    d ∉ replaceByte c rep s := by
  induction s with
  | nil => simp [replaceByte]
  | cons x xs ih =>
    simp only [List.mem_cons, not_or] at hs
    simp only [replaceByte, List.mem_append, not_or]
    refine ⟨?_, ih hs.2⟩
    split
    · exact hrep
    · simp; exact hs.1

theorem replacePair_preserves_not_mem (d a b : UInt8) (rep : Bytes) (hrep : d ∉ rep) :
    ∀ s : Bytes, d ∉ s → d ∉ replacePair a b rep s := by
  intro s
  induction s using replacePair.induct a b with
  | case1 => simp [replacePair]
  | case2 x => simp [replacePair]
  | case3 x y rest hxy ih =>
    intro hs
    simp only [List.mem_cons, not_or] at hs
    simp only [replacePair, hxy, and_self, if_true, List.mem_append, not_or]
    exact ⟨hrep, ih hs.2.2⟩
  | case4 x y rest hxy ih =>
    intro hs
    simp only [List.mem_cons, not_or] at hs
    simp only [replacePair, hxy, if_false, List.mem_cons, not_or]
    exact ⟨hs.1, ih (by simp [hs.2.1, hs.2.2])⟩

/-- `replacePair` distributes over `++` when the right part does not start with the second
pattern byte (so no match can straddle the boundary). -/
theorem replacePair_append (a b : UInt8) (rep : Bytes) (u : Bytes) (hu : u.head? ≠ some b) :
    ∀ t : Bytes, replacePair a b rep (t ++ u) = replacePair a b rep t ++ replacePair a b rep u := by
  intro t
  induction t using replacePair.induct a b with
  | case1 => simp [replacePair]
  | case2 x =>
    cases u with
    | nil => simp [replacePair]
    | cons c u' =>
      have hc : c ≠ b := by simpa using hu
      simp [replacePair, hc]
  | case3 x y rest hxy ih =>
    simp [replacePair, hxy, ih]
  | case4 x y rest hxy ih =>
    have : (x :: y :: rest) ++ u = x :: (y :: rest ++ u) := by simp
    simp only [List.cons_append] at ih ⊢
    simp [replacePair, hxy, ih]

end DnsVerif.Quote

namespace DnsVerif.Quote

/-! ### hex digits -/

theorem unhex_lowerhex (n : Nat) (h : n < 16) : unhex (lowerhex n) = some n := by
  have key : ∀ k : Fin 16, unhex (lowerhex k.val) = some k.val := by decide
  exact key ⟨n, h⟩

theorem hexN2 (r : Nat) (h : r < 256) (rest : Bytes) :
    hexN 2 0 (lowerhex (r / 16) :: lowerhex (r % 16) :: rest) = some (r, rest) := by
  have h1 := unhex_lowerhex (r / 16) (by omega)
  have h2 := unhex_lowerhex (r % 16) (by omega)
  simp only [hexN, h1, h2]
  congr 2; omega

theorem hexN4 (r : Nat) (h : r < 65536) (rest : Bytes) :
    hexN 4 0 (lowerhex (r / 4096 % 16) :: lowerhex (r / 256 % 16) :: lowerhex (r / 16 % 16)
      :: lowerhex (r % 16) :: rest) = some (r, rest) := by
  have h1 := unhex_lowerhex (r / 4096 % 16) (by omega)
  have h2 := unhex_lowerhex (r / 256 % 16) (by omega)
  have h3 := unhex_lowerhex (r / 16 % 16) (by omega)
  have h4 := unhex_lowerhex (r % 16) (by omega)
  simp only [hexN, h1, h2, h3, h4]
  congr 2; omega

theorem hexN8 (r : Nat) (h : r < 4294967296) (rest : Bytes) :
    hexN 8 0 (lowerhex (r / 268435456 % 16) :: lowerhex (r / 16777216 % 16)
      :: lowerhex (r / 1048576 % 16) :: lowerhex (r / 65536 % 16) :: lowerhex (r / 4096 % 16)
      :: lowerhex (r / 256 % 16) :: lowerhex (r / 16 % 16) :: lowerhex (r % 16) :: rest)
      = some (r, rest) := by
  have h1 := unhex_lowerhex (r / 268435456 % 16) (by omega)
  have h2 := unhex_lowerhex (r / 16777216 % 16) (by omega)
  have h3 := unhex_lowerhex (r / 1048576 % 16) (by omega)
  have h4 := unhex_lowerhex (r / 65536 % 16) (by omega)
  have h5 := unhex_lowerhex (r / 4096 % 16) (by omega)
  have h6 := unhex_lowerhex (r / 256 % 16) (by omega)
  have h7 := unhex_lowerhex (r / 16 % 16) (by omega)
  have h8 := unhex_lowerhex (r % 16) (by omega)
  simp only [hexN, h1, h2, h3, h4, h5, h6, h7, h8]
  congr 2; omega

/-! ### UTF-8 decode / encode -/

/-- What `decodeRune` can return on an input whose first byte is `≥ 0x80`. -/
structure DecodeOK (s : Bytes) (r w : Nat) : Prop where
  w_ge : 2 ≤ w
  w_le : w ≤ s.length
  r_ge : 0x80 ≤ r
  valid : validRune r = true
  enc : encodeRune r = s.take w
  stable : ∀ rest, decodeRune (s.take w ++ rest) = (r, w)

theorem ofNat_toNat_eq (b : UInt8) (n : Nat) (h : n = b.toNat) : UInt8.ofNat n = b := by
  subst h; simp

theorem isCont_iff (b : UInt8) : isCont b = true ↔ 0x80 ≤ b.toNat ∧ b.toNat ≤ 0xBF := by
  simp [isCont]

theorem decode2 (b0 b1 : UInt8) (t : Bytes) (h : 0xC2 ≤ b0.toNat ∧ b0.toNat ≤ 0xDF)
    (hc : isCont b1 = true) :
    decodeRune (b0 :: b1 :: t) = ((b0.toNat - 0xC0) * 64 + (b1.toNat - 0x80), 2) := by
  unfold decodeRune
  simp only
  rw [if_neg (by omega), if_pos h, if_pos hc]

theorem decode3 (b0 b1 b2 : UInt8) (t : Bytes) (h : 0xE0 ≤ b0.toNat ∧ b0.toNat ≤ 0xEF)
    (hc : lo3 b0.toNat ≤ b1.toNat ∧ b1.toNat ≤ hi3 b0.toNat ∧ isCont b2 = true) :
    decodeRune (b0 :: b1 :: b2 :: t)
      = ((b0.toNat - 0xE0) * 4096 + (b1.toNat - 0x80) * 64 + (b2.toNat - 0x80), 3) := by
  unfold decodeRune
  simp only
  rw [if_neg (by omega), if_neg (by omega), if_pos h, if_pos hc]

theorem decode4 (b0 b1 b2 b3 : UInt8) (t : Bytes) (h : 0xF0 ≤ b0.toNat ∧ b0.toNat ≤ 0xF4)
    (hc : lo4 b0.toNat ≤ b1.toNat ∧ b1.toNat ≤ hi4 b0.toNat ∧ isCont b2 = true ∧ isCont b3 = true) :
    decodeRune (b0 :: b1 :: b2 :: b3 :: t)
      = ((b0.toNat - 0xF0) * 262144 + (b1.toNat - 0x80) * 4096 + (b2.toNat - 0x80) * 64
          + (b3.toNat - 0x80), 4) := by
  unfold decodeRune
  simp only
  rw [if_neg (by omega), if_neg (by omega), if_neg (by omega), if_pos h, if_pos hc]

theorem encode2 (b0 b1 : UInt8) (h : 0xC2 ≤ b0.toNat ∧ b0.toNat ≤ 0xDF)
    (hc : 0x80 ≤ b1.toNat ∧ b1.toNat ≤ 0xBF) :
    encodeRune ((b0.toNat - 0xC0) * 64 + (b1.toNat - 0x80)) = [b0, b1] := by
  have e0 : UInt8.ofNat (0xC0 + ((b0.toNat - 0xC0) * 64 + (b1.toNat - 0x80)) / 64) = b0 :=
    ofNat_toNat_eq _ _ (by omega)
  have e1 : UInt8.ofNat (0x80 + ((b0.toNat - 0xC0) * 64 + (b1.toNat - 0x80)) % 64) = b1 :=
    ofNat_toNat_eq _ _ (by omega)
  unfold encodeRune
  rw [if_neg (by omega), if_pos (by omega), e0, e1]

theorem encode3 (b0 b1 b2 : UInt8) (h : 0xE0 ≤ b0.toNat ∧ b0.toNat ≤ 0xEF)
    (h1 : lo3 b0.toNat ≤ b1.toNat ∧ b1.toNat ≤ hi3 b0.toNat)
    (h2 : 0x80 ≤ b2.toNat ∧ b2.toNat ≤ 0xBF) :
    validRune ((b0.toNat - 0xE0) * 4096 + (b1.toNat - 0x80) * 64 + (b2.toNat - 0x80)) = true ∧
    0x800 ≤ (b0.toNat - 0xE0) * 4096 + (b1.toNat - 0x80) * 64 + (b2.toNat - 0x80) ∧
    (b0.toNat - 0xE0) * 4096 + (b1.toNat - 0x80) * 64 + (b2.toNat - 0x80) < 0x10000 ∧
    encodeRune ((b0.toNat - 0xE0) * 4096 + (b1.toNat - 0x80) * 64 + (b2.toNat - 0x80))
      = [b0, b1, b2] := by
  have hb1 : 0x80 ≤ b1.toNat ∧ b1.toNat ≤ 0xBF := by
    unfold lo3 hi3 at h1; split at h1 <;> split at h1 <;> omega
  have hlo : 0x800 ≤ (b0.toNat - 0xE0) * 4096 + (b1.toNat - 0x80) * 64 + (b2.toNat - 0x80) := by
    unfold lo3 at h1; split at h1 <;> omega
  have hhi : (b0.toNat - 0xE0) * 4096 + (b1.toNat - 0x80) * 64 + (b2.toNat - 0x80) < 0x10000 := by
    omega
  have hsur : (b0.toNat - 0xE0) * 4096 + (b1.toNat - 0x80) * 64 + (b2.toNat - 0x80) < 0xD800 ∨
      0xE000 ≤ (b0.toNat - 0xE0) * 4096 + (b1.toNat - 0x80) * 64 + (b2.toNat - 0x80) := by
    unfold hi3 at h1; split at h1 <;> omega
  have hv : validRune ((b0.toNat - 0xE0) * 4096 + (b1.toNat - 0x80) * 64 + (b2.toNat - 0x80))
      = true := by
    simp only [validRune, Bool.or_eq_true, Bool.and_eq_true, decide_eq_true_eq]; omega
  refine ⟨hv, hlo, hhi, ?_⟩
  have e0 : UInt8.ofNat (0xE0 + ((b0.toNat - 0xE0) * 4096 + (b1.toNat - 0x80) * 64
      + (b2.toNat - 0x80)) / 4096) = b0 := ofNat_toNat_eq _ _ (by omega)
  have e1 : UInt8.ofNat (0x80 + ((b0.toNat - 0xE0) * 4096 + (b1.toNat - 0x80) * 64
      + (b2.toNat - 0x80)) / 64 % 64) = b1 := ofNat_toNat_eq _ _ (by omega)
  have e2 : UInt8.ofNat (0x80 + ((b0.toNat - 0xE0) * 4096 + (b1.toNat - 0x80) * 64
      + (b2.toNat - 0x80)) % 64) = b2 := ofNat_toNat_eq _ _ (by omega)
  unfold encodeRune
  rw [if_neg (by omega), if_neg (by omega), if_neg (by simp [hv]), if_pos hhi, e0, e1, e2]

theorem encode4 (b0 b1 b2 b3 : UInt8) (h : 0xF0 ≤ b0.toNat ∧ b0.toNat ≤ 0xF4)
    (h1 : lo4 b0.toNat ≤ b1.toNat ∧ b1.toNat ≤ hi4 b0.toNat)
    (h2 : 0x80 ≤ b2.toNat ∧ b2.toNat ≤ 0xBF) (h3 : 0x80 ≤ b3.toNat ∧ b3.toNat ≤ 0xBF) :
    validRune ((b0.toNat - 0xF0) * 262144 + (b1.toNat - 0x80) * 4096 + (b2.toNat - 0x80) * 64
      + (b3.toNat - 0x80)) = true ∧
    0x10000 ≤ (b0.toNat - 0xF0) * 262144 + (b1.toNat - 0x80) * 4096 + (b2.toNat - 0x80) * 64
      + (b3.toNat - 0x80) ∧
    encodeRune ((b0.toNat - 0xF0) * 262144 + (b1.toNat - 0x80) * 4096 + (b2.toNat - 0x80) * 64
      + (b3.toNat - 0x80)) = [b0, b1, b2, b3] := by
  have hb1 : 0x80 ≤ b1.toNat ∧ b1.toNat ≤ 0xBF := by
    unfold lo4 hi4 at h1; split at h1 <;> split at h1 <;> omega
  have hlo : 0x10000 ≤ (b0.toNat - 0xF0) * 262144 + (b1.toNat - 0x80) * 4096
      + (b2.toNat - 0x80) * 64 + (b3.toNat - 0x80) := by
    unfold lo4 at h1; split at h1 <;> omega
  have hhi : (b0.toNat - 0xF0) * 262144 + (b1.toNat - 0x80) * 4096
      + (b2.toNat - 0x80) * 64 + (b3.toNat - 0x80) ≤ 0x10FFFF := by
    unfold hi4 at h1; split at h1 <;> omega
  have hv : validRune ((b0.toNat - 0xF0) * 262144 + (b1.toNat - 0x80) * 4096
      + (b2.toNat - 0x80) * 64 + (b3.toNat - 0x80)) = true := by
    simp only [validRune, Bool.or_eq_true, Bool.and_eq_true, decide_eq_true_eq]; omega
  refine ⟨hv, hlo, ?_⟩
  have e0 : UInt8.ofNat (0xF0 + ((b0.toNat - 0xF0) * 262144 + (b1.toNat - 0x80) * 4096
      + (b2.toNat - 0x80) * 64 + (b3.toNat - 0x80)) / 262144) = b0 := ofNat_toNat_eq _ _ (by omega)
  have e1 : UInt8.ofNat (0x80 + ((b0.toNat - 0xF0) * 262144 + (b1.toNat - 0x80) * 4096
      + (b2.toNat - 0x80) * 64 + (b3.toNat - 0x80)) / 4096 % 64) = b1 := ofNat_toNat_eq _ _ (by omega)
  have e2 : UInt8.ofNat (0x80 + ((b0.toNat - 0xF0) * 262144 + (b1.toNat - 0x80) * 4096
      + (b2.toNat - 0x80) * 64 + (b3.toNat - 0x80)) / 64 % 64) = b2 := ofNat_toNat_eq _ _ (by omega)
  have e3 : UInt8.ofNat (0x80 + ((b0.toNat - 0xF0) * 262144 + (b1.toNat - 0x80) * 4096
      + (b2.toNat - 0x80) * 64 + (b3.toNat - 0x80)) % 64) = b3 := ofNat_toNat_eq _ _ (by omega)
  unfold encodeRune
  rw [if_neg (by omega), if_neg (by omega), if_neg (by simp [hv]), if_neg (by omega), e0, e1, e2, e3]

theorem decodeRune_cases (b0 : UInt8) (rest : Bytes) (h0 : 0x80 ≤ b0.toNat) :
    decodeRune (b0 :: rest) = (runeError, 1) ∨
    DecodeOK (b0 :: rest) (decodeRune (b0 :: rest)).1 (decodeRune (b0 :: rest)).2 := by
  have hb0 := b0.toNat_lt
  by_cases h2 : 0xC2 ≤ b0.toNat ∧ b0.toNat ≤ 0xDF
  · match rest with
    | [] => left; unfold decodeRune; simp only; rw [if_neg (by omega), if_pos h2]
    | b1 :: t =>
      by_cases hc : isCont b1 = true
      · right
        have hc' := (isCont_iff b1).mp hc
        rw [decode2 b0 b1 t h2 hc]
        refine ⟨by simp, by simp, by simp; omega, ?_, ?_, ?_⟩
        · simp only [validRune, Bool.or_eq_true, Bool.and_eq_true, decide_eq_true_eq]; omega
        · rw [encode2 b0 b1 h2 hc']; rfl
        · intro rest'; exact decode2 b0 b1 _ h2 hc
      · left; unfold decodeRune; simp only; rw [if_neg (by omega), if_pos h2, if_neg hc]
  · by_cases h3 : 0xE0 ≤ b0.toNat ∧ b0.toNat ≤ 0xEF
    · match rest with
      | [] => left; unfold decodeRune; simp only; rw [if_neg (by omega), if_neg h2, if_pos h3]
      | [_] => left; unfold decodeRune; simp only; rw [if_neg (by omega), if_neg h2, if_pos h3]
      | b1 :: b2 :: t =>
        by_cases hc : lo3 b0.toNat ≤ b1.toNat ∧ b1.toNat ≤ hi3 b0.toNat ∧ isCont b2 = true
        · right
          have hc2 := (isCont_iff b2).mp hc.2.2
          obtain ⟨hv, hlo, hhi, henc⟩ := encode3 b0 b1 b2 h3 ⟨hc.1, hc.2.1⟩ hc2
          rw [decode3 b0 b1 b2 t h3 hc]
          refine ⟨by simp, by simp, by simp; omega, hv, ?_, ?_⟩
          · rw [henc]; rfl
          · intro rest'; exact decode3 b0 b1 b2 _ h3 hc
        · left; unfold decodeRune; simp only
          rw [if_neg (by omega), if_neg h2, if_pos h3, if_neg hc]
    · by_cases h4 : 0xF0 ≤ b0.toNat ∧ b0.toNat ≤ 0xF4
      · match rest with
        | [] => left; unfold decodeRune; simp only; rw [if_neg (by omega), if_neg h2, if_neg h3, if_pos h4]
        | [_] => left; unfold decodeRune; simp only; rw [if_neg (by omega), if_neg h2, if_neg h3, if_pos h4]
        | [_, _] => left; unfold decodeRune; simp only; rw [if_neg (by omega), if_neg h2, if_neg h3, if_pos h4]
        | b1 :: b2 :: b3 :: t =>
          by_cases hc : lo4 b0.toNat ≤ b1.toNat ∧ b1.toNat ≤ hi4 b0.toNat ∧ isCont b2 = true
              ∧ isCont b3 = true
          · right
            have hc2 := (isCont_iff b2).mp hc.2.2.1
            have hc3 := (isCont_iff b3).mp hc.2.2.2
            obtain ⟨hv, hlo, henc⟩ := encode4 b0 b1 b2 b3 h4 ⟨hc.1, hc.2.1⟩ hc2 hc3
            rw [decode4 b0 b1 b2 b3 t h4 hc]
            refine ⟨by simp, by simp, by simp; omega, hv, ?_, ?_⟩
            · rw [henc]; rfl
            · intro rest'; exact decode4 b0 b1 b2 b3 _ h4 hc
          · left; unfold decodeRune; simp only
            rw [if_neg (by omega), if_neg h2, if_neg h3, if_pos h4, if_neg hc]
      · left; unfold decodeRune; simp only
        rw [if_neg (by omega), if_neg h2, if_neg h3, if_neg h4]

end DnsVerif.Quote

namespace DnsVerif.Quote

/-! ### post-processing of one escaped token -/

def R1 : Bytes := [bslash, 0x30, 0x35, 0x34]
def R2 : Bytes := [bslash, 0x30, 0x37, 0x32]

/-- the two separator rewrites of `Bquote` -/
def pre (t : Bytes) : Bytes := replaceByte 0x3a R2 (replaceByte 0x2c R1 t)
/-- all three rewrites -/
def post (t : Bytes) : Bytes := replacePair bslash dquote [dquote] (pre t)

theorem pre_append (a b : Bytes) : pre (a ++ b) = pre a ++ pre b := by
  simp [pre, replaceByte_append]

theorem replaceByte_id (c : UInt8) (rep t : Bytes) (h : c ∉ t) : replaceByte c rep t = t := by
  induction t with
  | nil => rfl
  | cons x xs ih =>
    simp only [List.mem_cons, not_or] at h
    have : ¬ x = c := fun e => h.1 e.symm
    simp [replaceByte, this, ih h.2]

theorem replacePair_id (a b : UInt8) (rep : Bytes) : ∀ t : Bytes, a ∉ t → replacePair a b rep t = t := by
  intro t
  induction t using replacePair.induct a b with
  | case1 => intro _; rfl
  | case2 x => intro _; rfl
  | case3 x y rest hxy ih =>
    intro h; simp only [List.mem_cons, not_or] at h; exact absurd hxy.1.symm h.1
  | case4 x y rest hxy ih =>
    intro h
    simp only [List.mem_cons, not_or] at h
    simp only [replacePair, hxy, if_false]
    rw [ih (by simp [h.2.1, h.2.2])]

theorem pre_id (t : Bytes) (h1 : (0x2c : UInt8) ∉ t) (h2 : (0x3a : UInt8) ∉ t) : pre t = t := by
  simp [pre, replaceByte_id _ _ _ h1, replaceByte_id _ _ _ h2]

theorem post_id (t : Bytes) (h1 : (0x2c : UInt8) ∉ t) (h2 : (0x3a : UInt8) ∉ t) (h3 : bslash ∉ t) :
    post t = t := by
  simp [post, pre_id t h1 h2, replacePair_id _ _ _ _ h3]

/-! ### hex digits are never special -/

theorem lowerhex_safe (n : Nat) (h : n < 16) :
    lowerhex n ≠ 0x2c ∧ lowerhex n ≠ 0x3a ∧ lowerhex n ≠ bslash ∧ lowerhex n ≠ dquote
      ∧ lowerhex n ≠ 0x0a := by
  have key : ∀ k : Fin 16, lowerhex k.val ≠ 0x2c ∧ lowerhex k.val ≠ 0x3a ∧ lowerhex k.val ≠ bslash
      ∧ lowerhex k.val ≠ dquote ∧ lowerhex k.val ≠ 0x0a := by decide
  exact key ⟨n, h⟩

/-! ### unquoteChar on an ASCII-leading token followed by anything -/


theorem hexN_append (rest : Bytes) : ∀ (n acc : Nat) (x : Bytes) (v : Nat) (t : Bytes),
    hexN n acc x = some (v, t) → hexN n acc (x ++ rest) = some (v, t ++ rest) := by
  intro n
  induction n with
  | zero => intro acc x v t h; simp [hexN] at h ⊢; obtain ⟨rfl, rfl⟩ := h; simp
  | succ n ih =>
    intro acc x v t h
    match x with
    | [] => simp [hexN] at h
    | b :: x' =>
      simp only [hexN, List.cons_append] at h ⊢
      split at h
      · exact ih _ _ _ _ h
      · simp at h

theorem unquoteEsc_append (k : Nat) (s rest : Bytes) (c : Nat) (mb : Bool) (t : Bytes)
    (hu : unquoteEsc k s = .ok (c, mb, t)) : unquoteEsc k (s ++ rest) = .ok (c, mb, t ++ rest) := by
  unfold unquoteEsc at hu ⊢
  have fin : ∀ (a : Nat) (b : Bool), (Except.ok (a, b, s) : Except Err _) = .ok (c, mb, t) →
      (Except.ok (a, b, s ++ rest) : Except Err _) = .ok (c, mb, t ++ rest) := by
    intro a b h
    simp only [Except.ok.injEq, Prod.mk.injEq] at h ⊢
    obtain ⟨h1, h2, h3⟩ := h
    exact ⟨h1, h2, by rw [h3]⟩
  by_cases h1 : k = 0x61
  · rw [if_pos h1] at hu ⊢; exact fin _ _ hu
  rw [if_neg h1] at hu ⊢
  by_cases h2 : k = 0x62
  · rw [if_pos h2] at hu ⊢; exact fin _ _ hu
  rw [if_neg h2] at hu ⊢
  by_cases h3 : k = 0x66
  · rw [if_pos h3] at hu ⊢; exact fin _ _ hu
  rw [if_neg h3] at hu ⊢
  by_cases h4 : k = 0x6e
  · rw [if_pos h4] at hu ⊢; exact fin _ _ hu
  rw [if_neg h4] at hu ⊢
  by_cases h5 : k = 0x72
  · rw [if_pos h5] at hu ⊢; exact fin _ _ hu
  rw [if_neg h5] at hu ⊢
  by_cases h6 : k = 0x74
  · rw [if_pos h6] at hu ⊢; exact fin _ _ hu
  rw [if_neg h6] at hu ⊢
  by_cases h7 : k = 0x76
  · rw [if_pos h7] at hu ⊢; exact fin _ _ hu
  rw [if_neg h7] at hu ⊢
  by_cases h8 : k = 0x78
  · rw [if_pos h8] at hu ⊢
    match hh : hexN 2 0 s, hu with
    | some (v, t'), hu =>
      rw [hexN_append rest _ _ _ _ _ hh]
      simp only [Except.ok.injEq, Prod.mk.injEq] at hu ⊢
      obtain ⟨h1, h2, h3⟩ := hu
      exact ⟨h1, h2, by rw [h3]⟩
  rw [if_neg h8] at hu ⊢
  by_cases h9 : k = 0x75
  · rw [if_pos h9] at hu ⊢
    match hh : hexN 4 0 s, hu with
    | some (v, t'), hu =>
      rw [hexN_append rest _ _ _ _ _ hh]
      simp only at hu ⊢
      by_cases hv : validRune v = true
      · rw [if_pos hv] at hu ⊢
        simp only [Except.ok.injEq, Prod.mk.injEq] at hu ⊢
        obtain ⟨h1, h2, h3⟩ := hu
        exact ⟨h1, h2, by rw [h3]⟩
      · rw [if_neg hv] at hu; simp at hu
  rw [if_neg h9] at hu ⊢
  by_cases h10 : k = 0x55
  · rw [if_pos h10] at hu ⊢
    match hh : hexN 8 0 s, hu with
    | some (v, t'), hu =>
      rw [hexN_append rest _ _ _ _ _ hh]
      simp only at hu ⊢
      by_cases hv : validRune v = true
      · rw [if_pos hv] at hu ⊢
        simp only [Except.ok.injEq, Prod.mk.injEq] at hu ⊢
        obtain ⟨h1, h2, h3⟩ := hu
        exact ⟨h1, h2, by rw [h3]⟩
      · rw [if_neg hv] at hu; simp at hu
  rw [if_neg h10] at hu ⊢
  by_cases h11 : 0x30 ≤ k ∧ k ≤ 0x37
  · rw [if_pos h11] at hu ⊢
    match s, hu with
    | d1 :: d2 :: t', hu =>
      simp only [List.cons_append] at hu ⊢
      by_cases hd : 0x30 ≤ d1.toNat ∧ d1.toNat ≤ 0x37 ∧ 0x30 ≤ d2.toNat ∧ d2.toNat ≤ 0x37
      · rw [if_pos hd] at hu ⊢
        by_cases hv : ((k - 0x30) * 8 + (d1.toNat - 0x30)) * 8 + (d2.toNat - 0x30) > 255
        · rw [if_pos hv] at hu; simp at hu
        · rw [if_neg hv] at hu ⊢
          simp only [Except.ok.injEq, Prod.mk.injEq] at hu ⊢
          obtain ⟨h1, h2, h3⟩ := hu
          exact ⟨h1, h2, by rw [h3]⟩
      · rw [if_neg hd] at hu; simp at hu
  rw [if_neg h11] at hu ⊢
  by_cases h12 : k = 0x5c
  · rw [if_pos h12] at hu ⊢; exact fin _ _ hu
  rw [if_neg h12] at hu; simp at hu

/-- Boolean certificate used for the finite (ASCII) part: unquoting exactly the token `x` yields the
rune `c` and consumes all of `x`. -/
def stepCheck (x : Bytes) (c : Nat) : Bool :=
  match x with
  | [] => false
  | b :: _ =>
    if 0x80 ≤ b.toNat then false
    else match unquoteChar x with
      | .ok (c', _, []) => c' == c
      | _ => false

theorem unquoteChar_append_ascii (x rest : Bytes) (c : Nat) (h : stepCheck x c = true) :
    ∃ mb, unquoteChar (x ++ rest) = .ok (c, mb, rest) := by
  match x with
  | [] => simp [stepCheck] at h
  | b :: x' =>
    simp only [stepCheck] at h
    by_cases hb : 0x80 ≤ b.toNat
    · rw [if_pos hb] at h; simp at h
    · rw [if_neg hb] at h
      by_cases hbs : b ≠ bslash
      · have e : unquoteChar (b :: x') = .ok (b.toNat, false, x') := by
          unfold unquoteChar; simp only; rw [if_neg hb, if_pos hbs]
        rw [e] at h
        match x', h with
        | [], h =>
          simp only [beq_iff_eq] at h
          refine ⟨false, ?_⟩
          unfold unquoteChar
          simp only [List.cons_append, List.nil_append]
          rw [if_neg hb, if_pos hbs, h]
      · match x', h with
        | [], h =>
          have e : unquoteChar [b] = .error .syntax := by
            unfold unquoteChar; simp only; rw [if_neg hb, if_neg hbs]
          rw [e] at h; simp at h
        | k :: s, h =>
          have e : unquoteChar (b :: k :: s) = unquoteEsc k.toNat s := by
            unfold unquoteChar; simp only; rw [if_neg hb, if_neg hbs]
          rw [e] at h
          match hu : unquoteEsc k.toNat s, h with
          | .ok (c', mb, []), h =>
            simp only [beq_iff_eq] at h
            refine ⟨mb, ?_⟩
            have := unquoteEsc_append k.toNat s rest c' mb [] hu
            unfold unquoteChar
            simp only [List.cons_append]
            rw [if_neg hb, if_neg hbs, this, h]; rfl

/-- `escapedRune` looks at `isPrint` only at the rune itself. -/
theorem escapedRune_congr (isPrint : Nat → Bool) (r : Nat) :
    escapedRune isPrint r = escapedRune (fun _ => isPrint r) r := by
  simp [escapedRune]

/-- Everything about the token of an ASCII rune, by exhaustive kernel evaluation over the 128 × 2
possible (byte, printable?) pairs — a finite table, checked completely. -/
theorem ascii_tokens : ∀ (b : Fin 128) (p : Bool),
    stepCheck (post (escapedRune (fun _ => p) b.val)) b.val = true
    ∧ (pre (escapedRune (fun _ => p) b.val)).head? ≠ some dquote
    ∧ pre (escapedRune (fun _ => p) b.val) ≠ []
    ∧ (bslash ∉ post (escapedRune (fun _ => p) b.val) →
        post (escapedRune (fun _ => p) b.val) = [UInt8.ofNat b.val])
    ∧ ((0x0a : UInt8) ∈ post (escapedRune (fun _ => p) b.val) → p = true ∧ b.val = 10) := by
  decide +kernel

/-- The `\xHH` token of an invalid byte (`≥ 0x80`), again a finite table. -/
theorem invalid_tokens : ∀ (b : Fin 128),
    stepCheck (post [bslash, 0x78, lowerhex ((128 + b.val) / 16), lowerhex ((128 + b.val) % 16)])
        (128 + b.val) = true
    ∧ pre [bslash, 0x78, lowerhex ((128 + b.val) / 16), lowerhex ((128 + b.val) % 16)]
        = [bslash, 0x78, lowerhex ((128 + b.val) / 16), lowerhex ((128 + b.val) % 16)]
    ∧ post [bslash, 0x78, lowerhex ((128 + b.val) / 16), lowerhex ((128 + b.val) % 16)]
        = [bslash, 0x78, lowerhex ((128 + b.val) / 16), lowerhex ((128 + b.val) % 16)] := by
  decide +kernel

end DnsVerif.Quote
