/-
Helper lemmas for C16 (CDB hash tables, dump/make text format).
-/
import DnsVerif.Model.Cdb

namespace DnsVerif.Cdb

/-! ### cyclic index arithmetic (all `omega`-friendly: no `%` by a variable) -/

/-- the successor position used by both probe loops -/
def nxt (N p : Nat) : Nat := if p + 1 = N then 0 else p + 1
/-- the index at cyclic distance `d` from `p` (for `p < N`, `d ≤ N`) -/
def cidx (N p d : Nat) : Nat := if p + d < N then p + d else p + d - N
/-- the cyclic distance from `p` to `i` -/
def cdist (N p i : Nat) : Nat := if p ≤ i then i - p else i + N - p

theorem cidx_lt {N p d : Nat} (hp : p < N) (hd : d ≤ N) : cidx N p d < N := by
  unfold cidx; split <;> omega

theorem cidx_zero {N p : Nat} (_hp : p < N) : cidx N p 0 = p := by
  unfold cidx; split <;> omega

theorem nxt_cidx {N p d : Nat} (hp : p < N) (hd : d < N) :
    nxt N (cidx N p d) = cidx N p (d + 1) := by
  unfold nxt cidx; repeat' split
  all_goals omega

theorem cidx_inj {N p d d' : Nat} (_hp : p < N) (hd : d < N) (hd' : d' < N)
    (h : cidx N p d = cidx N p d') : d = d' := by
  unfold cidx at h; repeat' split at h
  all_goals omega

theorem cidx_cdist {N p i : Nat} (hp : p < N) (hi : i < N) : cidx N p (cdist N p i) = i := by
  unfold cidx cdist; repeat' split
  all_goals omega

theorem cdist_lt {N p i : Nat} (hp : p < N) (hi : i < N) : cdist N p i < N := by
  unfold cdist; split <;> omega

theorem cdist_cidx {N p d : Nat} (hp : p < N) (hd : d < N) : cdist N p (cidx N p d) = d := by
  unfold cidx cdist; repeat' split
  all_goals omega

/-- least witness below a witness (core has no `Nat.find`) -/
theorem exists_least (P : Nat → Prop) (n : Nat) (h : P n) :
    ∃ m, m ≤ n ∧ P m ∧ ∀ k, k < m → ¬ P k := by
  induction n using Nat.strongRecOn with
  | _ n ih =>
    by_cases hex : ∃ k, k < n ∧ P k
    · obtain ⟨k, hk, hpk⟩ := hex
      obtain ⟨m, hm, hpm, hmin⟩ := ih k hk hpk
      exact ⟨m, by omega, hpm, hmin⟩
    · exact ⟨n, Nat.le_refl n, h, fun k hk hpk => hex ⟨k, hk, hpk⟩⟩

/-! ### slots of a table -/

/-- the slot at index `i` (empty beyond the end) -/
def slotAt (tbl : List Slot) (i : Nat) : Slot := tbl.getD i (0, 0)

/-- index `i` holds a record -/
def Occ (tbl : List Slot) (i : Nat) : Prop := (slotAt tbl i).2 ≠ 0

theorem getElem?_slotAt {tbl : List Slot} {i : Nat} (h : i < tbl.length) :
    tbl[i]? = some (slotAt tbl i) := by
  simp [slotAt, List.getD_eq_getElem?_getD, List.getElem?_eq_getElem h]

theorem slotAt_cons_zero (a : Slot) (t : List Slot) : slotAt (a :: t) 0 = a := by
  simp [slotAt]

theorem slotAt_cons_succ (a : Slot) (t : List Slot) (i : Nat) :
    slotAt (a :: t) (i + 1) = slotAt t i := by
  simp [slotAt]

theorem slotAt_set_self {tbl : List Slot} {q : Nat} (s : Slot) (h : q < tbl.length) :
    slotAt (tbl.set q s) q = s := by
  simp [slotAt, List.getD_eq_getElem?_getD, h]

theorem slotAt_set_ne {tbl : List Slot} {q i : Nat} (s : Slot) (h : q ≠ i) :
    slotAt (tbl.set q s) i = slotAt tbl i := by
  simp [slotAt, List.getD_eq_getElem?_getD, h]

theorem slotAt_mem {tbl : List Slot} {i : Nat} (h : i < tbl.length) : slotAt tbl i ∈ tbl := by
  have := getElem?_slotAt h
  exact List.mem_of_getElem? this

theorem Occ.set {tbl : List Slot} {q i : Nat} {s : Slot} (hs : s.2 ≠ 0) (hq : q < tbl.length)
    (h : Occ tbl i) : Occ (tbl.set q s) i := by
  unfold Occ
  by_cases hqi : q = i
  · subst hqi; rw [slotAt_set_self s hq]; exact hs
  · rw [slotAt_set_ne s hqi]; exact h

/-- filling a free slot uses up exactly one free slot -/
theorem filter_free_set (s : Slot) (hs : s.2 ≠ 0) : ∀ (tbl : List Slot) (q : Nat),
    q < tbl.length → (slotAt tbl q).2 = 0 →
    ((tbl.set q s).filter (fun s => s.2 = 0)).length + 1
      = (tbl.filter (fun s => s.2 = 0)).length := by
  intro tbl
  induction tbl with
  | nil => intro q hq; simp at hq
  | cons a t ih =>
    intro q hq hfree
    cases q with
    | zero =>
      rw [slotAt_cons_zero] at hfree
      simp [hfree, hs]
    | succ q =>
      rw [slotAt_cons_succ] at hfree
      have := ih q (by simpa using hq) hfree
      simp only [List.set_cons_succ, List.filter_cons]
      split
      · simp only [List.length_cons]; omega
      · exact this

theorem exists_free_of_filter {tbl : List Slot}
    (h : 0 < (tbl.filter (fun s => s.2 = 0)).length) : ∃ i, i < tbl.length ∧ ¬ Occ tbl i := by
  obtain ⟨a, ha⟩ := List.exists_mem_of_length_pos h
  rw [List.mem_filter] at ha
  obtain ⟨i, hi, hia⟩ := List.mem_iff_getElem.mp ha.1
  refine ⟨i, hi, ?_⟩
  have h1 : tbl[i]? = some (slotAt tbl i) := getElem?_slotAt hi
  rw [List.getElem?_eq_getElem hi, hia] at h1
  have h2 : a = slotAt tbl i := Option.some.inj h1
  unfold Occ; rw [← h2]; simpa using ha.2

/-- from any start the probe meets a first free slot when one exists -/
theorem exists_first_free {tbl : List Slot} {p : Nat} (hp : p < tbl.length)
    (hfree : ∃ i, i < tbl.length ∧ ¬ Occ tbl i) :
    ∃ de, de < tbl.length ∧ ¬ Occ tbl (cidx tbl.length p de) ∧
      ∀ d, d < de → Occ tbl (cidx tbl.length p d) := by
  obtain ⟨i, hi, hfi⟩ := hfree
  have h0 : ¬ Occ tbl (cidx tbl.length p (cdist tbl.length p i)) := by
    rw [cidx_cdist hp hi]; exact hfi
  obtain ⟨m, hm, hpm, hmin⟩ :=
    exists_least (fun d => ¬ Occ tbl (cidx tbl.length p d)) _ h0
  have := cdist_lt hp hi
  exact ⟨m, by omega, hpm, fun d hd => Classical.not_not.mp (hmin d hd)⟩

/-! ### the two probe loops along a cyclic path -/

theorem probeAll_go_succ {tbl : List Slot} {kh f p : Nat} (hp : p < tbl.length) :
    probeAll.go tbl kh tbl.length (f + 1) p =
      if (slotAt tbl p).2 = 0 then []
      else (if (slotAt tbl p).1 = kh then [(slotAt tbl p).2] else [])
        ++ probeAll.go tbl kh tbl.length f (nxt tbl.length p) := by
  rw [probeAll.go.eq_2, getElem?_slotAt hp]
  simp only [nxt]
  split
  · rfl
  · split <;> rfl

theorem probeInsert_go_succ {tbl : List Slot} {s : Slot} {f p : Nat} (hp : p < tbl.length) :
    probeInsert.go tbl s tbl.length (f + 1) p =
      if (slotAt tbl p).2 ≠ 0 then probeInsert.go tbl s tbl.length f (nxt tbl.length p)
      else tbl.set p s := by
  rw [probeInsert.go.eq_2, getElem?_slotAt hp]
  rfl

/-- the values with hash `kh` among the `k` slots at cyclic distances `d, d+1, …` from `p` -/
def pathVals (tbl : List Slot) (kh N p : Nat) : Nat → Nat → List Nat
  | _, 0 => []
  | d, k + 1 =>
    (if (slotAt tbl (cidx N p d)).1 = kh then [(slotAt tbl (cidx N p d)).2] else [])
      ++ pathVals tbl kh N p (d + 1) k

theorem pathVals_congr {tbl tbl' : List Slot} {kh N p : Nat} : ∀ (k d : Nat),
    (∀ j, d ≤ j → j < d + k → slotAt tbl' (cidx N p j) = slotAt tbl (cidx N p j)) →
    pathVals tbl' kh N p d k = pathVals tbl kh N p d k := by
  intro k
  induction k with
  | zero => intros; rfl
  | succ k ih =>
    intro d h
    simp only [pathVals]
    rw [h d (Nat.le_refl d) (by omega), ih (d + 1) (fun j h1 h2 => h j (by omega) (by omega))]

theorem pathVals_append {tbl : List Slot} {kh N p : Nat} : ∀ (k1 k2 d : Nat),
    pathVals tbl kh N p d (k1 + k2)
      = pathVals tbl kh N p d k1 ++ pathVals tbl kh N p (d + k1) k2 := by
  intro k1
  induction k1 with
  | zero => intro k2 d; simp [pathVals]
  | succ k1 ih =>
    intro k2 d
    have : k1 + 1 + k2 = (k1 + k2) + 1 := by omega
    rw [this]
    simp only [pathVals]
    rw [ih k2 (d + 1), List.append_assoc]
    have : d + 1 + k1 = d + (k1 + 1) := by omega
    rw [this]

theorem pathVals_nil {tbl : List Slot} {kh N p : Nat} : ∀ (k d : Nat),
    (∀ j, d ≤ j → j < d + k → (slotAt tbl (cidx N p j)).1 ≠ kh) →
    pathVals tbl kh N p d k = [] := by
  intro k
  induction k with
  | zero => intros; rfl
  | succ k ih =>
    intro d h
    simp only [pathVals]
    rw [if_neg (h d (Nat.le_refl d) (by omega)),
      ih (d + 1) (fun j h1 h2 => h j (by omega) (by omega))]
    rfl

/-- the reader's loop: collects the matching values up to the first free slot -/
theorem probeAll_go_eq_pathVals {tbl : List Slot} {kh p : Nat} (hp : p < tbl.length) :
    ∀ (k d f : Nat), d + k < tbl.length → k < f →
      (∀ j, d ≤ j → j < d + k → Occ tbl (cidx tbl.length p j)) →
      ¬ Occ tbl (cidx tbl.length p (d + k)) →
      probeAll.go tbl kh tbl.length f (cidx tbl.length p d) = pathVals tbl kh tbl.length p d k := by
  intro k
  induction k with
  | zero =>
    intro d f hd hf _ hfree
    obtain ⟨f, rfl⟩ : ∃ f', f = f' + 1 := ⟨f - 1, by omega⟩
    rw [probeAll_go_succ (cidx_lt hp (by omega))]
    have : (slotAt tbl (cidx tbl.length p d)).2 = 0 := by
      have := hfree; unfold Occ at this; simpa using this
    rw [if_pos this]; rfl
  | succ k ih =>
    intro d f hd hf hocc hfree
    obtain ⟨f, rfl⟩ : ∃ f', f = f' + 1 := ⟨f - 1, by omega⟩
    rw [probeAll_go_succ (cidx_lt hp (by omega))]
    have h1 : (slotAt tbl (cidx tbl.length p d)).2 ≠ 0 := hocc d (Nat.le_refl d) (by omega)
    rw [if_neg h1, nxt_cidx hp (by omega)]
    rw [ih (d + 1) f (by omega) (by omega) (fun j h1 h2 => hocc j (by omega) (by omega))
      (by rw [show d + 1 + k = d + (k + 1) by omega]; exact hfree)]
    rfl

/-- the writer's loop: fills the first free slot on the path -/
theorem probeInsert_go_eq {tbl : List Slot} {s : Slot} {p : Nat} (hp : p < tbl.length) :
    ∀ (k d f : Nat), d + k < tbl.length → k < f →
      (∀ j, d ≤ j → j < d + k → Occ tbl (cidx tbl.length p j)) →
      ¬ Occ tbl (cidx tbl.length p (d + k)) →
      probeInsert.go tbl s tbl.length f (cidx tbl.length p d)
        = tbl.set (cidx tbl.length p (d + k)) s := by
  intro k
  induction k with
  | zero =>
    intro d f hd hf _ hfree
    obtain ⟨f, rfl⟩ : ∃ f', f = f' + 1 := ⟨f - 1, by omega⟩
    rw [probeInsert_go_succ (cidx_lt hp (by omega))]
    have : ¬ (slotAt tbl (cidx tbl.length p d)).2 ≠ 0 := hfree
    rw [if_neg this]; rfl
  | succ k ih =>
    intro d f hd hf hocc hfree
    obtain ⟨f, rfl⟩ : ∃ f', f = f' + 1 := ⟨f - 1, by omega⟩
    rw [probeInsert_go_succ (cidx_lt hp (by omega))]
    have h1 : (slotAt tbl (cidx tbl.length p d)).2 ≠ 0 := hocc d (Nat.le_refl d) (by omega)
    rw [if_pos h1, nxt_cidx hp (by omega)]
    rw [ih (d + 1) f (by omega) (by omega) (fun j h1 h2 => hocc j (by omega) (by omega))
      (by rw [show d + 1 + k = d + (k + 1) by omega]; exact hfree)]
    rw [show d + 1 + k = d + (k + 1) by omega]

/-- start slot of hash `h` in a table of `N` slots -/
def startOf (N h : Nat) : Nat := (h / 256) % N

theorem startOf_lt {N : Nat} (h : Nat) (hN : 0 < N) : startOf N h < N := Nat.mod_lt _ hN

theorem probeAll_eq_pathVals {tbl : List Slot} {kh de : Nat} (hN : 0 < tbl.length)
    (hde : de < tbl.length)
    (hfree : ¬ Occ tbl (cidx tbl.length (startOf tbl.length kh) de))
    (hocc : ∀ d, d < de → Occ tbl (cidx tbl.length (startOf tbl.length kh) d)) :
    probeAll tbl kh = pathVals tbl kh tbl.length (startOf tbl.length kh) 0 de := by
  have hp := startOf_lt kh hN
  unfold probeAll
  simp only
  rw [if_neg (by omega)]
  have := probeAll_go_eq_pathVals (kh := kh) hp de 0 tbl.length (by omega) (by omega)
    (fun j _ h2 => hocc j (by omega)) (by rw [Nat.zero_add]; exact hfree)
  rw [cidx_zero hp] at this
  exact this

theorem probeInsert_eq_set {tbl : List Slot} {s : Slot} {dq : Nat} (hN : 0 < tbl.length)
    (hdq : dq < tbl.length)
    (hfree : ¬ Occ tbl (cidx tbl.length (startOf tbl.length s.1) dq))
    (hocc : ∀ d, d < dq → Occ tbl (cidx tbl.length (startOf tbl.length s.1) d)) :
    probeInsert tbl s = tbl.set (cidx tbl.length (startOf tbl.length s.1) dq) s := by
  have hp := startOf_lt s.1 hN
  unfold probeInsert
  simp only
  rw [if_neg (by omega)]
  have := probeInsert_go_eq (s := s) hp dq 0 tbl.length (by omega) (by omega)
    (fun j _ h2 => hocc j (by omega)) (by rw [Nat.zero_add]; exact hfree)
  rw [cidx_zero hp, Nat.zero_add] at this
  exact this

/-! ### the insertion invariant -/

/-- no holes: every slot on the cyclic path from a record's start slot to the record is occupied -/
def NoHoles (tbl : List Slot) : Prop :=
  ∀ i, i < tbl.length → Occ tbl i →
    ∀ d, d < cdist tbl.length (startOf tbl.length (slotAt tbl i).1) i →
      Occ tbl (cidx tbl.length (startOf tbl.length (slotAt tbl i).1) d)

/-- one insertion into a table that keeps a free slot afterwards -/
theorem probeInsert_step {tbl : List Slot} {s : Slot} (hs : s.2 ≠ 0)
    (hfree2 : 2 ≤ (tbl.filter (fun s => s.2 = 0)).length) (hb : NoHoles tbl) :
    (probeInsert tbl s).length = tbl.length ∧
    ((probeInsert tbl s).filter (fun s => s.2 = 0)).length + 1
      = (tbl.filter (fun s => s.2 = 0)).length ∧
    NoHoles (probeInsert tbl s) ∧
    ∀ kh, probeAll (probeInsert tbl s) kh = probeAll tbl kh ++ (if s.1 = kh then [s.2] else []) := by
  have hle := List.length_filter_le (fun s : Slot => decide (s.2 = 0)) tbl
  have hN : 0 < tbl.length := by omega
  have hfree : ∃ i, i < tbl.length ∧ ¬ Occ tbl i := exists_free_of_filter (by omega)
  have hps := startOf_lt s.1 hN
  obtain ⟨dq, hdq, hfq, hoq⟩ := exists_first_free hps hfree
  have hq : cidx tbl.length (startOf tbl.length s.1) dq < tbl.length := cidx_lt hps (by omega)
  have heq := probeInsert_eq_set (s := s) hN hdq hfq hoq
  have hcnt := filter_free_set s hs tbl _ hq (by simpa [Occ] using hfq)
  rw [heq]
  generalize hqdef : cidx tbl.length (startOf tbl.length s.1) dq = q at *
  refine ⟨List.length_set, hcnt, ?_, ?_⟩
  · -- no holes
    intro i hi hocc d hd
    simp only [List.length_set] at hi hd ⊢
    by_cases hqi : q = i
    · subst hqi
      rw [slotAt_set_self s hq] at hd ⊢
      rw [← hqdef, cdist_cidx hps hdq] at hd
      exact Occ.set hs hq (hoq d hd)
    · rw [slotAt_set_ne s hqi] at hd ⊢
      have hocc' : Occ tbl i := by unfold Occ at hocc; rwa [slotAt_set_ne s hqi] at hocc
      exact Occ.set hs hq (hb i hi hocc' d hd)
  · -- the reader
    intro kh
    have hp0 := startOf_lt kh hN
    obtain ⟨de, hde, hfe, hoe⟩ := exists_first_free hp0 hfree
    rw [probeAll_eq_pathVals hN hde hfe hoe]
    by_cases hqe : q = cidx tbl.length (startOf tbl.length kh) de
    · -- the new record lands on the path of `kh`
      have hfree' : ∃ i, i < (tbl.set q s).length ∧ ¬ Occ (tbl.set q s) i :=
        exists_free_of_filter (by omega)
      have hN' : 0 < (tbl.set q s).length := by rw [List.length_set]; exact hN
      have hp0' := startOf_lt kh hN'
      obtain ⟨de', hde', hfe', hoe'⟩ := exists_first_free hp0' hfree'
      rw [probeAll_eq_pathVals hN' hde' hfe' hoe']
      simp only [List.length_set] at hde' hfe' hoe' ⊢
      have hlt : de < de' := by
        rcases Nat.lt_trichotomy de' de with h | h | h
        · exact absurd (Occ.set hs hq (hoe de' h)) hfe'
        · exfalso; apply hfe'; rw [h, ← hqe]; unfold Occ; rw [slotAt_set_self s hq]; exact hs
        · exact h
      have hne : ∀ j, j < tbl.length → j ≠ de →
          slotAt (tbl.set q s) (cidx tbl.length (startOf tbl.length kh) j)
            = slotAt tbl (cidx tbl.length (startOf tbl.length kh) j) := by
        intro j hj hjde
        apply slotAt_set_ne
        rw [hqe]
        intro h
        exact hjde (cidx_inj hp0 hde hj h).symm
      rw [show de' = de + (1 + (de' - de - 1)) by omega, pathVals_append, pathVals_append]
      rw [pathVals_congr de 0 (fun j _ h2 => hne j (by omega) (by omega))]
      congr 1
      have hlast : pathVals (tbl.set q s) kh tbl.length (startOf tbl.length kh) (0 + de + 1)
          (de' - de - 1) = [] := by
        apply pathVals_nil
        intro j h1 h2 hk
        have hj : j < de' := by omega
        have hoj := hoe' j hj
        unfold Occ at hoj
        rw [hne j (by omega) (by omega)] at hoj hk
        have := hb _ (cidx_lt hp0 (by omega)) hoj de
        rw [hk, cdist_cidx hp0 (by omega)] at this
        exact hfe (this (by omega))
      rw [hlast, List.append_nil]
      simp only [pathVals, Nat.zero_add, List.append_nil]
      rw [← hqe, slotAt_set_self s hq]
    · -- the new record is off the path of `kh`
      have hsk : s.1 ≠ kh := by
        intro hk
        rw [hk] at hqdef hoq
        apply hqe
        rw [← hqdef]
        rcases Nat.lt_trichotomy dq de with h | h | h
        · exact absurd (hqdef ▸ hoe dq h) hfq
        · rw [h]
        · exact absurd (hoq de h) hfe
      rw [if_neg hsk, List.append_nil]
      have hN' : 0 < (tbl.set q s).length := by rw [List.length_set]; exact hN
      have hde' : de < (tbl.set q s).length := by rw [List.length_set]; exact hde
      have hfe' : ¬ Occ (tbl.set q s)
          (cidx (tbl.set q s).length (startOf (tbl.set q s).length kh) de) := by
        rw [List.length_set]; unfold Occ; rw [slotAt_set_ne s hqe]; exact hfe
      have hoe' : ∀ d, d < de → Occ (tbl.set q s)
          (cidx (tbl.set q s).length (startOf (tbl.set q s).length kh) d) := by
        intro d hd; rw [List.length_set]; exact Occ.set hs hq (hoe d hd)
      rw [probeAll_eq_pathVals hN' hde' hfe' hoe']
      simp only [List.length_set]
      apply pathVals_congr
      intro j _ h2
      apply slotAt_set_ne
      intro h
      exact hfq (h ▸ hoe j (by omega))

/-- the state of the writer's table after inserting `done` into `N` slots -/
structure TblInv (tbl : List Slot) (done : List Slot) (N : Nat) : Prop where
  len : tbl.length = N
  free : (tbl.filter (fun s => s.2 = 0)).length + done.length = N
  noHoles : NoHoles tbl
  reads : ∀ kh, probeAll tbl kh = (done.filter (fun s => s.1 = kh)).map (·.2)

theorem slotAt_replicate (N i : Nat) : slotAt (List.replicate N (0, 0)) i = (0, 0) := by
  simp only [slotAt, List.getD_eq_getElem?_getD, List.getElem?_replicate]
  split <;> rfl

theorem tblInv_init (N : Nat) : TblInv (List.replicate N (0, 0)) [] N := by
  refine ⟨List.length_replicate, by simp, ?_, ?_⟩
  · intro i _ hocc
    exact absurd (by rw [slotAt_replicate]) hocc
  · intro kh
    by_cases hN : N = 0
    · subst hN; rfl
    · have hN' : 0 < (List.replicate N ((0, 0) : Slot)).length := by
        rw [List.length_replicate]; omega
      rw [probeAll_eq_pathVals (de := 0) hN' hN'
        (by unfold Occ; rw [slotAt_replicate]; simp) (fun d hd => by omega)]
      rfl

theorem tblInv_foldl : ∀ (rest tbl done : List Slot) (N : Nat), TblInv tbl done N →
    (∀ s ∈ rest, s.2 ≠ 0) → (rest ≠ [] → done.length + rest.length + 1 ≤ N) →
    TblInv (rest.foldl probeInsert tbl) (done ++ rest) N := by
  intro rest
  induction rest with
  | nil => intro tbl done N h _ _; simpa using h
  | cons s r ih =>
    intro tbl done N h hpos hsz
    have hsz' := hsz (by simp)
    simp only [List.length_cons] at hsz'
    have hs : s.2 ≠ 0 := hpos s (by simp)
    have hfree := h.free
    obtain ⟨h1, h2, h3, h4⟩ := probeInsert_step (tbl := tbl) hs (by omega) h.noHoles
    have hinv : TblInv (probeInsert tbl s) (done ++ [s]) N := by
      refine ⟨by rw [h1, h.len], ?_, h3, ?_⟩
      · simp only [List.length_append, List.length_cons, List.length_nil]; omega
      · intro kh
        rw [h4 kh, h.reads kh, List.filter_append, List.map_append]
        congr 1
        by_cases hk : s.1 = kh <;> simp [hk]
    have := ih (probeInsert tbl s) (done ++ [s]) N hinv
      (fun x hx => hpos x (List.mem_cons_of_mem _ hx))
      (fun _ => by simp only [List.length_append, List.length_cons, List.length_nil]; omega)
    simpa [List.foldl_cons, List.append_assoc] using this

theorem tblInv_buildTable (slots : List Slot) (hpos : ∀ s ∈ slots, s.2 ≠ 0) :
    TblInv (buildTable slots) slots (2 * slots.length) := by
  have := tblInv_foldl slots (List.replicate (2 * slots.length) (0, 0)) [] (2 * slots.length)
    (tblInv_init _) hpos (fun h => by
      have : 0 < slots.length := List.length_pos_iff.mpr h
      simp only [List.length_nil]; omega)
  simpa [buildTable] using this

/-! ### dump / make text format -/

theorem byteArray_toList_loop (bs : ByteArray) : ∀ (n i : Nat) (r : List UInt8), bs.size - i = n →
    ByteArray.toList.loop bs i r = r.reverse ++ bs.data.toList.drop i := by
  intro n
  induction n with
  | zero =>
    intro i r h
    rw [ByteArray.toList.loop, if_neg (by omega)]
    have : bs.data.toList.length ≤ i := by
      have : bs.size = bs.data.toList.length := by simp
      omega
    rw [List.drop_eq_nil_of_le this, List.append_nil]
  | succ n ih =>
    intro i r h
    have hi : i < bs.size := by omega
    rw [ByteArray.toList.loop, if_pos hi, ih (i + 1) _ (by omega)]
    have hi' : i < bs.data.toList.length := by simpa using hi
    rw [List.drop_eq_getElem_cons hi']
    have : bs.get! i = bs.data.toList[i] := by
      cases bs with
      | mk data =>
        simp [ByteArray.get!]
        have hd : i < data.size := by simpa using hi'
        exact getElem!_pos data i hd
    rw [this]; simp

theorem byteArray_toList (bs : ByteArray) : bs.toList = bs.data.toList := by
  unfold ByteArray.toList
  rw [byteArray_toList_loop bs _ 0 [] rfl]; simp

theorem digit_enc : ∀ d, d < 10 → String.utf8EncodeChar (Nat.digitChar d) = [UInt8.ofNat (48 + d)] := by
  decide

theorem natDigits_eq (n : Nat) :
    natDigits n = (Nat.toDigits 10 n).flatMap String.utf8EncodeChar := by
  unfold natDigits
  rw [Nat.toString_eq_ofList_toDigits, String.toUTF8_eq_toByteArray, String.toByteArray_ofList,
    byteArray_toList, List.utf8Encode, List.toList_data_toByteArray]

theorem natDigits_lt {n : Nat} (h : n < 10) : natDigits n = [UInt8.ofNat (48 + n)] := by
  rw [natDigits_eq, Nat.toDigits_of_lt_base h]
  simp [digit_enc n h]

theorem natDigits_ge {n : Nat} (h : 10 ≤ n) :
    natDigits n = natDigits (n / 10) ++ [UInt8.ofNat (48 + n % 10)] := by
  rw [natDigits_eq, natDigits_eq, Nat.toDigits_of_base_le (by omega) h, List.flatMap_append]
  simp [digit_enc (n % 10) (Nat.mod_lt _ (by omega))]

theorem readNumUntil_digit {delim : UInt8} (hdelim : ¬ (0x30 ≤ delim.toNat ∧ delim.toNat ≤ 0x39))
    {d : Nat} (hd : d < 10) (tail : Bytes) (acc : Nat) (seen : Bool) :
    readNumUntil delim (UInt8.ofNat (48 + d) :: tail) acc seen
      = readNumUntil delim tail (acc * 10 + d) true := by
  have hto : (UInt8.ofNat (48 + d)).toNat = 48 + d := by
    simp [UInt8.toNat_ofNat']; omega
  rw [readNumUntil]
  have hne : UInt8.ofNat (48 + d) ≠ delim := by
    intro h; rw [← h, hto] at hdelim; omega
  rw [if_neg hne, hto, if_pos (by omega)]
  congr 2
  omega

theorem readNumUntil_natDigits {delim : UInt8}
    (hdelim : ¬ (0x30 ≤ delim.toNat ∧ delim.toNat ≤ 0x39)) :
    ∀ (n : Nat) (tail : Bytes) (seen : Bool),
      readNumUntil delim (natDigits n ++ tail) 0 seen = readNumUntil delim tail n true := by
  intro n
  induction n using Nat.strongRecOn with
  | _ n ih =>
    intro tail seen
    by_cases h : n < 10
    · rw [natDigits_lt h, List.singleton_append, readNumUntil_digit hdelim h]
      simp
    · rw [natDigits_ge (by omega), List.append_assoc, ih (n / 10) (by omega), List.singleton_append,
        readNumUntil_digit hdelim (Nat.mod_lt _ (by omega))]
      congr 1
      omega

theorem readNumUntil_natDigits_delim {delim : UInt8}
    (hdelim : ¬ (0x30 ≤ delim.toNat ∧ delim.toNat ≤ 0x39)) {n : Nat} (hn : n < u32) (rest : Bytes) :
    readNumUntil delim (natDigits n ++ delim :: rest) 0 false = some (n, rest) := by
  rw [readNumUntil_natDigits hdelim, readNumUntil, if_pos rfl, if_pos ⟨rfl, hn⟩]

theorem lenGe_iff (l : Bytes) (n : Nat) : lenGe l n = true ↔ n ≤ l.length := by
  unfold lenGe
  cases n with
  | zero => simp
  | succ n =>
    simp [List.drop_eq_nil_iff]
    omega

theorem dumpText_cons (k d : Bytes) (rest : List (Bytes × Bytes)) :
    dumpText ((k, d) :: rest) =
      0x2b :: (natDigits k.length ++ 0x2c :: (natDigits d.length ++ 0x3a ::
        (k ++ 0x2d :: 0x3e :: (d ++ 0x0a :: dumpText rest)))) := by
  simp [dumpText, List.append_assoc]

theorem makeParse_dumpText_fuel : ∀ (es : List (Bytes × Bytes)) (fuel : Nat),
    (∀ e ∈ es, e.1.length < u32 ∧ e.2.length < u32) → es.length < fuel →
    makeParse fuel (dumpText es) = some es := by
  intro es
  induction es with
  | nil =>
    intro fuel _ hf
    obtain ⟨f, rfl⟩ : ∃ f, fuel = f + 1 := ⟨fuel - 1, by simp at hf; omega⟩
    simp [dumpText, makeParse]
  | cons e rest ih =>
    intro fuel hsz hf
    obtain ⟨k, d⟩ := e
    obtain ⟨f, rfl⟩ : ∃ f, fuel = f + 1 := ⟨fuel - 1, by simp at hf; omega⟩
    have hk := (hsz (k, d) (by simp)).1
    have hd := (hsz (k, d) (by simp)).2
    have ihr := ih f (fun e he => hsz e (List.mem_cons_of_mem _ he)) (by simp at hf; omega)
    rw [dumpText_cons, makeParse]
    rw [if_neg (by decide), if_neg (by decide)]
    rw [readNumUntil_natDigits_delim (by decide) hk]
    simp only
    rw [readNumUntil_natDigits_delim (by decide) hd]
    simp only
    have hlen : lenGe (k ++ 0x2d :: 0x3e :: (d ++ 0x0a :: dumpText rest))
        (k.length + 2 + d.length + 1) = true := by
      rw [lenGe_iff]; simp; omega
    rw [hlen]
    simp [ihr]

theorem length_le_dumpText (es : List (Bytes × Bytes)) : es.length < (dumpText es).length := by
  induction es with
  | nil => simp [dumpText]
  | cons e rest ih =>
    obtain ⟨k, d⟩ := e
    rw [dumpText_cons]
    simp only [List.length_cons, List.length_append]
    omega

end DnsVerif.Cdb
