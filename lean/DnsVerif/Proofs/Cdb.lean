/-
Helper lemmas for C16 (CDB hash tables, dump/make text format).
-/
import DnsVerif.Model.Cdb

namespace DnsVerif.Cdb

end DnsVerif.Cdb
