/-
C03.4, concrete side: the family of ranges `famF S` generated from a well-formed subnet list
(`SubsWF`: W0, W1) is a well-formed laminar family (`RngWF`).
-/
import DnsVerif.Proofs.LpmConc

namespace DnsVerif.Lpm
open DnsVerif DnsVerif.Rearr DnsVerif.Spec

set_option linter.unusedSimpArgs false

/-! ### arithmetic of aligned blocks -/

/-- everything `omega` needs to know about one aligned block `[n, n + sz)` of prefix length `o` -/
structure BlkFacts (n o sz : Nat) : Prop where
  o_le : o ≤ 128
  sz_pos : 0 < sz
  hi_le : n + sz ≤ 340282366920938463463374607431768211456
  zero_or : n = 0 ∨ sz ≤ n
  o0 : o = 0 → n = 0 ∧ sz = 340282366920938463463374607431768211456
  /-- the block does not straddle `afterIPv4 = 2^48` -/
  tail : n + sz ≤ 281474976710656 ∨ 281474976710656 ≤ n ∨ n = 0
  /-- a block that is not the whole space is at most half of it -/
  o_pos : o ≠ 0 → sz ≤ 170141183460469231731687303715884105728
  /-- a block that starts at `::ffff:0:0` lies inside `::ffff:0:0/96` -/
  at4 : n = 281470681743360 → 96 ≤ o ∧ sz ≤ 4294967296
  o96 : o = 96 → sz = 4294967296
  sz96 : sz = 4294967296 → o = 96
  ge96 : 96 ≤ o ↔ sz ≤ 4294967296

theorem two_pow_128 : (2 : Nat) ^ 128 = 340282366920938463463374607431768211456 := by decide
theorem two_pow_48 : (2 : Nat) ^ 48 = 281474976710656 := by decide
theorem TOP_eq : TOP = 340282366920938463463374607431768211456 := by decide
theorem afterIPv4_eq : afterIPv4 = 281474976710656 := by decide
theorem firstIPv4_eq : firstIPv4 = 281470681743360 := by decide

theorem blkFacts_of {n o : Nat} (ho : o ≤ 128) (hn : n < 2 ^ 128) (ha : n % 2 ^ (128 - o) = 0) :
    BlkFacts n o (2 ^ (128 - o)) := by
  have hpos : 0 < 2 ^ (128 - o) := Nat.two_pow_pos _
  have hdvd : 2 ^ (128 - o) ∣ n := Nat.dvd_of_mod_eq_zero ha
  have hz : n = 0 ∨ 2 ^ (128 - o) ≤ n := by
    rcases Nat.eq_zero_or_pos n with h | h
    · exact Or.inl h
    · exact Or.inr (Nat.le_of_dvd h hdvd)
  have hle : 2 ^ (128 - o) ≤ 2 ^ 128 := Nat.pow_le_pow_right (by decide) (by omega)
  -- `2^128` is a multiple of the block size, and so is `n`
  have hhi : n + 2 ^ (128 - o) ≤ 2 ^ 128 := by
    have hk : 2 ^ 128 = 2 ^ (128 - o) * 2 ^ o := by rw [← Nat.pow_add]; congr 1; omega
    obtain ⟨k, hk'⟩ := hdvd
    rw [hk, hk'] at hn
    have hlt : k < 2 ^ o := Nat.lt_of_mul_lt_mul_left hn
    rw [hk, hk', ← Nat.mul_succ]
    exact Nat.mul_le_mul_left _ hlt
  refine ⟨ho, hpos, by rw [← two_pow_128]; exact hhi, hz, ?_, ?_, ?_, ?_, ?_, ?_, ?_⟩
  · intro h0
    subst h0
    rw [← two_pow_128]
    refine ⟨?_, rfl⟩
    have := Nat.mod_eq_of_lt hn
    simp only [Nat.sub_zero] at ha
    omega
  · by_cases hsm : 128 - o ≤ 48
    · -- `2^48` is a multiple of the block size
      have hk : 2 ^ 48 = 2 ^ (128 - o) * 2 ^ (48 - (128 - o)) := by
        rw [← Nat.pow_add]; congr 1; omega
      obtain ⟨k, hk'⟩ := hdvd
      rw [← two_pow_48, hk, hk']
      generalize 2 ^ (48 - (128 - o)) = m
      rcases Nat.lt_or_ge k m with h | h
      · left
        rw [← Nat.mul_succ]
        exact Nat.mul_le_mul_left _ h
      · right; left
        exact Nat.mul_le_mul_left _ h
    · have hbig : 2 ^ 48 < 2 ^ (128 - o) := Nat.pow_lt_pow_right (by decide) (by omega)
      rw [two_pow_48] at hbig
      omega
  · intro h0
    have : 2 ^ (128 - o) ≤ 2 ^ 127 := Nat.pow_le_pow_right (by decide) (by omega)
    exact this
  · intro hn
    have h96 : 96 ≤ o := by
      refine Nat.le_of_not_lt fun hlt => ?_
      -- `2^33` divides the block size, hence `n`
      have hk : 2 ^ (128 - o) = 2 ^ 33 * 2 ^ (128 - o - 33) := by
        rw [← Nat.pow_add]; congr 1; omega
      have : (2 : Nat) ^ 33 ∣ n := Nat.dvd_trans ⟨_, hk⟩ hdvd
      rw [hn] at this
      exact absurd this (by decide)
    have : 2 ^ (128 - o) ≤ 2 ^ 32 := Nat.pow_le_pow_right (by decide) (by omega)
    exact ⟨h96, this⟩
  · intro h0
    rw [h0]
  · intro h0
    have e : (2 : Nat) ^ (128 - o) = 2 ^ 32 := h0
    have h1 := (Nat.pow_le_pow_iff_right (by omega : 1 < 2)).1 (Nat.le_of_eq e)
    have h2 := (Nat.pow_le_pow_iff_right (by omega : 1 < 2)).1 (Nat.le_of_eq e.symm)
    omega
  · have e : (4294967296 : Nat) = 2 ^ 32 := by decide
    rw [e, Nat.pow_le_pow_iff_right (by omega : 1 < 2)]
    omega

/-- comparing the sizes of two blocks compares their prefix lengths -/
theorem ones_le_of_size_le {o o' : Nat} (ho : o ≤ 128) (ho' : o' ≤ 128)
    (h : 2 ^ (128 - o) ≤ 2 ^ (128 - o')) : o' ≤ o := by
  refine Nat.le_of_not_lt fun hlt => ?_
  have : 2 ^ (128 - o') < 2 ^ (128 - o) := Nat.pow_lt_pow_right (by decide) (by omega)
  omega

/-- two aligned blocks are nested or disjoint -/
theorem aligned_lam {n o n' o' : Nat} (ha : n % 2 ^ (128 - o) = 0) (ha' : n' % 2 ^ (128 - o') = 0) :
    (n' ≤ n ∧ n + 2 ^ (128 - o) ≤ n' + 2 ^ (128 - o')) ∨
    (n ≤ n' ∧ n' + 2 ^ (128 - o') ≤ n + 2 ^ (128 - o)) ∨
    n + 2 ^ (128 - o) ≤ n' ∨ n' + 2 ^ (128 - o') ≤ n := by
  have e : blockStart n o = n := Nat.div_mul_cancel (Nat.dvd_of_mod_eq_zero ha)
  have e' : blockStart n' o' = n' := Nat.div_mul_cancel (Nat.dvd_of_mod_eq_zero ha')
  rcases Nat.le_total o o' with h | h
  · have := cidr_laminar n o n' o' h
    rw [e, e'] at this; unfold blockSize at this
    omega
  · have := cidr_laminar n' o' n o h
    rw [e, e'] at this; unfold blockSize at this
    omega

/-! ### the ranges of one subnet -/

/-- the block range of a subnet (`sloc` as `AddLocation` writes it) -/
def blk (s : SubnetDecl) : Rng :=
  ⟨s.net, s.net + 2 ^ (128 - s.ones), s.ones, some s.loc,
    if s.net = firstIPv4 ∧ s.ones = 96 then some s.loc else none⟩

/-- the extra upper half `[afterIPv4, TOP)` of a declared `::/0` -/
def half (s : SubnetDecl) : Rng := ⟨afterIPv4, TOP, s.ones, some s.loc, none⟩

/-- the numeric facts about one subnet of a well-formed list -/
structure SubFacts (n o sz : Nat) : Prop extends BlkFacts n o sz where
  /-- nested in / containing / disjoint from `::ffff:0:0/96` -/
  lam4 : (281470681743360 ≤ n ∧ n + sz ≤ 281474976710656) ∨
    (n ≤ 281470681743360 ∧ 281474976710656 ≤ n + sz) ∨
    n + sz ≤ 281470681743360 ∨ 281474976710656 ≤ n

theorem subFacts {S : List SubnetDecl} (h : SubsWF S) {s : SubnetDecl} (hs : s ∈ S) :
    SubFacts s.net s.ones (2 ^ (128 - s.ones)) := by
  refine ⟨blkFacts_of (h.ones_le s hs) (h.net_lt s hs) (h.aligned s hs), ?_⟩
  · have := aligned_lam (n := s.net) (o := s.ones) (n' := firstIPv4) (o' := 96) (h.aligned s hs)
      (by decide)
    have e : firstIPv4 + 2 ^ (128 - 96) = 281474976710656 := by decide
    rw [e, firstIPv4_eq] at this
    exact this

theorem rngOf_eq {S : List SubnetDecl} (h : SubsWF S) {s : SubnetDecl} (hs : s ∈ S) :
    rngOf s = if s.net = 0 ∧ s.ones = 0 then [blk s, half s] else [blk s] := by
  unfold rngOf blk half
  by_cases h0 : s.net = 0 ∧ s.ones = 0
  · have hne : ¬ (0 = firstIPv4) := by decide
    simp [h0.1, h0.2, hne, TOP]
  · rw [if_neg h0, if_neg h0]
    by_cases h4 : s.net = firstIPv4 ∧ s.ones = 96
    · have e : firstIPv4 + 2 ^ (128 - 96) = afterIPv4 := by decide
      simp [h4.1, h4.2, e]
    · have e : blockStart s.net s.ones = s.net :=
        Nat.div_mul_cancel (Nat.dvd_of_mod_eq_zero (h.aligned s hs))
      simp [h4, e, blockSize]

/-- W1 as injectivity -/
theorem w1_inj {S : List SubnetDecl} (h : SubsWF S) {s t : SubnetDecl} (hs : s ∈ S) (ht : t ∈ S)
    (hn : s.net = t.net) (ho : s.ones = t.ones) : s = t := by
  have key : ∀ l : List SubnetDecl,
      (l.Pairwise fun s t => ¬ (s.net = t.net ∧ s.ones = t.ones)) →
      ∀ s ∈ l, ∀ t ∈ l, s.net = t.net → s.ones = t.ones → s = t := by
    intro l hl
    induction hl with
    | nil => intro s hs; cases hs
    | @cons a l ha _ ih =>
      intro s hs t ht hn ho
      rcases List.mem_cons.1 hs with rfl | hs' <;> rcases List.mem_cons.1 ht with rfl | ht'
      · rfl
      · exact absurd ⟨hn, ho⟩ (ha t ht')
      · exact absurd ⟨hn.symm, ho.symm⟩ (ha s hs')
      · exact ih s hs' t ht' hn ho
  exact key S h.w1 s hs t ht hn ho

/-! ### classification of the members of `famOf S` -/

/-- what a member of `famOf S` looks like -/
def Cls (S : List SubnetDecl) (R : Rng) : Prop :=
  (∃ s ∈ S, R = blk s) ∨ (∃ s ∈ S, (s.net = 0 ∧ s.ones = 0) ∧ R = half s) ∨
  (R = R4 ∧ ∀ s ∈ S, ¬ (s.net = firstIPv4 ∧ s.ones = 96)) ∨
  ((R = R6a ∨ R = R6b) ∧ ∀ s ∈ S, ¬ (s.net = 0 ∧ s.ones = 0))

theorem hasV4_false {S : List SubnetDecl} :
    hasV4 S = false ↔ ∀ s ∈ S, ¬ (s.net = firstIPv4 ∧ s.ones = 96) := by
  simp [hasV4]

theorem hasV6_false {S : List SubnetDecl} : hasV6 S = false ↔ ∀ s ∈ S, ¬ (s.net = 0 ∧ s.ones = 0) := by
  simp [hasV6]

theorem mem_flatMap_rngOf {S : List SubnetDecl} (h : SubsWF S) {R : Rng} :
    R ∈ S.flatMap rngOf ↔
      (∃ s ∈ S, R = blk s) ∨ (∃ s ∈ S, (s.net = 0 ∧ s.ones = 0) ∧ R = half s) := by
  rw [List.mem_flatMap]
  constructor
  · rintro ⟨s, hs, hR⟩
    rw [rngOf_eq h hs] at hR
    by_cases h0 : s.net = 0 ∧ s.ones = 0
    · rw [if_pos h0] at hR
      simp only [List.mem_cons, List.not_mem_nil, or_false] at hR
      rcases hR with e | e
      · exact Or.inl ⟨s, hs, e⟩
      · exact Or.inr ⟨s, hs, h0, e⟩
    · rw [if_neg h0] at hR
      simp only [List.mem_cons, List.not_mem_nil, or_false] at hR
      exact Or.inl ⟨s, hs, hR⟩
  · rintro (⟨s, hs, e⟩ | ⟨s, hs, h0, e⟩)
    · refine ⟨s, hs, ?_⟩
      rw [rngOf_eq h hs, e]; split <;> simp
    · refine ⟨s, hs, ?_⟩
      rw [rngOf_eq h hs, e, if_pos h0]; simp

theorem mem_famOf {S : List SubnetDecl} (h : SubsWF S) {R : Rng} : R ∈ famOf S ↔ Cls S R := by
  unfold famOf Cls
  rw [List.mem_append, List.mem_append, mem_flatMap_rngOf h, ← hasV4_false, ← hasV6_false]
  cases hasV4 S <;> cases hasV6 S <;> simp [or_assoc]

/-- the numeric facts about two subnets of a well-formed list -/
structure PairFacts (n o sz n' o' sz' : Nat) : Prop where
  le1 : sz ≤ sz' → o' ≤ o
  le2 : sz' ≤ sz → o ≤ o'
  eqo : o = o' → sz = sz'
  lam : (n' ≤ n ∧ n + sz ≤ n' + sz') ∨ (n ≤ n' ∧ n' + sz' ≤ n + sz) ∨ n + sz ≤ n' ∨ n' + sz' ≤ n

theorem pairFacts {S : List SubnetDecl} (h : SubsWF S) {s s' : SubnetDecl} (hs : s ∈ S)
    (hs' : s' ∈ S) :
    PairFacts s.net s.ones (2 ^ (128 - s.ones)) s'.net s'.ones (2 ^ (128 - s'.ones)) :=
  ⟨ones_le_of_size_le (h.ones_le s hs) (h.ones_le s' hs'),
   ones_le_of_size_le (h.ones_le s' hs') (h.ones_le s hs),
   fun e => by rw [e], aligned_lam (h.aligned s hs) (h.aligned s' hs')⟩

theorem w1_ne {S : List SubnetDecl} (h : SubsWF S) {s s' : SubnetDecl} (hs : s ∈ S) (hs' : s' ∈ S)
    (hne : s ≠ s') : ¬ (s.net = s'.net ∧ s.ones = s'.ones) :=
  fun e => hne (w1_inj h hs hs' e.1 e.2)

/-! ### the family the sweep pushes: `famF S` -/

/-- no declared block other than `::/0` lies across `afterIPv4` -/
def NoStr (S : List SubnetDecl) : Prop :=
  ∀ s ∈ S, ¬ (s.ones ≠ 0 ∧ s.net < 281474976710656 ∧ 281474976710656 < s.net + 2 ^ (128 - s.ones))

theorem straddle_false {S : List SubnetDecl} : straddle S = false ↔ NoStr S := by
  unfold NoStr
  rw [← afterIPv4_eq]
  simp [straddle]

theorem straddle_true {S : List SubnetDecl} : straddle S = true ↔
    ∃ s ∈ S, s.ones ≠ 0 ∧ s.net < 281474976710656 ∧ 281474976710656 < s.net + 2 ^ (128 - s.ones) := by
  rw [← afterIPv4_eq]
  simp [straddle]

/-- what a member of `famF S` looks like -/
def ClsF (S : List SubnetDecl) (R : Rng) : Prop :=
  (∃ s ∈ S, R = blk s) ∨ ((∃ s ∈ S, (s.net = 0 ∧ s.ones = 0) ∧ R = half s) ∧ NoStr S) ∨
  (R = R4 ∧ ∀ s ∈ S, ¬ (s.net = firstIPv4 ∧ s.ones = 96)) ∨
  (R = R6a ∧ ∀ s ∈ S, ¬ (s.net = 0 ∧ s.ones = 0)) ∨
  (R = R6b ∧ (∀ s ∈ S, ¬ (s.net = 0 ∧ s.ones = 0)) ∧ NoStr S)

theorem isUpper_blk {S : List SubnetDecl} (h : SubsWF S) {s : SubnetDecl} (hs : s ∈ S) :
    isUpper (blk s) = false := by
  have f := (subFacts h hs).o0
  unfold isUpper blk
  rw [afterIPv4_eq]
  simp only [decide_eq_false_iff_not]
  omega

theorem isUpper_half (s : SubnetDecl) (h0 : s.net = 0 ∧ s.ones = 0) : isUpper (half s) = true := by
  simp [isUpper, half, h0.2]

theorem mem_famF {S : List SubnetDecl} (h : SubsWF S) {R : Rng} : R ∈ famF S ↔ ClsF S R := by
  have hR4 : isUpper R4 = false := by decide
  have hR6a : isUpper R6a = false := by decide
  have hR6b : isUpper R6b = true := by decide
  unfold famF ClsF
  cases hstr : straddle S with
  | false =>
    have ns := straddle_false.1 hstr
    simp only [Bool.false_eq_true, if_false]
    rw [mem_famOf h]
    unfold Cls
    constructor
    · rintro (h1 | h1 | h1 | ⟨h1 | h1, n6⟩)
      · exact Or.inl h1
      · exact Or.inr (Or.inl ⟨h1, ns⟩)
      · exact Or.inr (Or.inr (Or.inl h1))
      · exact Or.inr (Or.inr (Or.inr (Or.inl ⟨h1, n6⟩)))
      · exact Or.inr (Or.inr (Or.inr (Or.inr ⟨h1, n6, ns⟩)))
    · rintro (h1 | ⟨h1, _⟩ | h1 | ⟨h1, n6⟩ | ⟨h1, n6, _⟩)
      · exact Or.inl h1
      · exact Or.inr (Or.inl h1)
      · exact Or.inr (Or.inr (Or.inl h1))
      · exact Or.inr (Or.inr (Or.inr ⟨Or.inl h1, n6⟩))
      · exact Or.inr (Or.inr (Or.inr ⟨Or.inr h1, n6⟩))
  | true =>
    have ns : ¬ NoStr S := fun hns => by rw [straddle_false.2 hns] at hstr; cases hstr
    simp only [if_true]
    rw [List.mem_filter, mem_famOf h]
    unfold Cls
    constructor
    · rintro ⟨h1 | h1 | h1 | ⟨h1 | h1, n6⟩, hup⟩
      · exact Or.inl h1
      · obtain ⟨s, _, h0, rfl⟩ := h1
        rw [isUpper_half s h0] at hup; cases hup
      · exact Or.inr (Or.inr (Or.inl h1))
      · exact Or.inr (Or.inr (Or.inr (Or.inl ⟨h1, n6⟩)))
      · rw [h1, hR6b] at hup; cases hup
    · rintro (h1 | ⟨_, hns⟩ | h1 | ⟨h1, n6⟩ | ⟨_, _, hns⟩)
      · obtain ⟨s, hs, rfl⟩ := h1
        exact ⟨Or.inl ⟨s, hs, rfl⟩, by rw [isUpper_blk h hs]; rfl⟩
      · exact absurd hns ns
      · exact ⟨Or.inr (Or.inr (Or.inl h1)), by rw [h1.1, hR4]; rfl⟩
      · exact ⟨Or.inr (Or.inr (Or.inr ⟨Or.inl h1, n6⟩)), by rw [h1, hR6a]; rfl⟩
      · exact absurd hns ns

-- collect every numeric fact about the subnets `s`, `s'` behind the two ranges at hand
set_option hygiene false in
macro "fam_facts" : tactic => `(tactic| (
  try (have f1 := subFacts h hs
       have := f1.o_le; have := f1.sz_pos; have := f1.hi_le; have := f1.zero_or; have := f1.o0
       have := f1.tail; have := f1.o_pos; have := f1.at4; have := f1.o96; have := f1.sz96; have := f1.ge96
       have := f1.lam4)
  try (have f2 := subFacts h hs'
       have := f2.o_le; have := f2.sz_pos; have := f2.hi_le; have := f2.zero_or; have := f2.o0
       have := f2.tail; have := f2.o_pos; have := f2.at4; have := f2.o96; have := f2.sz96; have := f2.ge96
       have := f2.lam4)
  try (have p := pairFacts h hs hs'
       have := p.le1; have := p.le2; have := p.eqo; have := p.lam)
  try (have := n4 _ hs'; rw [firstIPv4_eq] at this)
  try (have := n4' _ hs; rw [firstIPv4_eq] at this)
  try (have := n4 _ hs; rw [firstIPv4_eq] at this)
  try (have := n4' _ hs'; rw [firstIPv4_eq] at this)
  try (have := n6 _ hs')
  try (have := n6' _ hs)
  try (have := ns _ hs')
  try (have := ns' _ hs)
  try (have := ns _ hs)
  try (have := ns' _ hs')))

/-! ### the fields of `RngWF` -/

theorem famF_bounds {S : List SubnetDecl} (h : SubsWF S) :
    ∀ R ∈ famF S, R.lo < R.hi ∧ R.hi ≤ TOP ∧ R.len ≤ 128 := by
  intro R hR
  rcases (mem_famF h).1 hR with ⟨s, hs, rfl⟩ | ⟨⟨s, hs, h0, rfl⟩, ns⟩ | ⟨rfl, n4⟩ | ⟨rfl, n6⟩ |
      ⟨rfl, n6, ns⟩ <;>
    fam_facts <;>
    simp only [blk, half, R4, R6a, R6b, TOP_eq, afterIPv4_eq, firstIPv4_eq] <;> omega

theorem famF_null_len {S : List SubnetDecl} (h : SubsWF S) :
    ∀ R ∈ famF S, R.loc = none → R.len = 0 := by
  intro R hR
  rcases (mem_famF h).1 hR with ⟨s, hs, rfl⟩ | ⟨⟨s, hs, h0, rfl⟩, ns⟩ | ⟨rfl, n4⟩ | ⟨rfl, n6⟩ |
      ⟨rfl, n6, ns⟩ <;>
    simp [blk, half, R4, R6a, R6b]

theorem famF_base {S : List SubnetDecl} (h : SubsWF S) :
    ∃ R0 ∈ famF S, R0.lo = 0 ∧ R0.hi = TOP ∧ R0.len = 0 := by
  cases hv : hasV6 S with
  | false =>
    exact ⟨R6a, (mem_famF h).2 (Or.inr (Or.inr (Or.inr (Or.inl ⟨rfl, hasV6_false.1 hv⟩)))),
      rfl, rfl, rfl⟩
  | true =>
    simp only [hasV6, List.any_eq_true, decide_eq_true_eq] at hv
    obtain ⟨s, hs, h0⟩ := hv
    refine ⟨blk s, (mem_famF h).2 (Or.inl ⟨s, hs, rfl⟩), h0.1, ?_, h0.2⟩
    simp [blk, h0.1, h0.2, TOP]

theorem famF_lam {S : List SubnetDecl} (h : SubsWF S) :
    ∀ R ∈ famF S, ∀ R' ∈ famF S, R.sub R' ∨ R'.sub R ∨ R.hi ≤ R'.lo ∨ R'.hi ≤ R.lo := by
  intro R hR R' hR'
  rcases (mem_famF h).1 hR with ⟨s, hs, rfl⟩ | ⟨⟨s, hs, h0, rfl⟩, ns⟩ | ⟨rfl, n4⟩ | ⟨rfl, n6⟩ |
      ⟨rfl, n6, ns⟩ <;>
  rcases (mem_famF h).1 hR' with ⟨s', hs', rfl⟩ | ⟨⟨s', hs', h0', rfl⟩, ns'⟩ | ⟨rfl, n4'⟩ | ⟨rfl, n6'⟩ |
      ⟨rfl, n6', ns'⟩ <;>
    fam_facts <;>
    simp only [Rng.sub, blk, half, R4, R6a, R6b, TOP_eq, afterIPv4_eq, firstIPv4_eq] <;> omega

theorem famF_nest {S : List SubnetDecl} (h : SubsWF S) :
    ∀ R ∈ famF S, ∀ R' ∈ famF S, R ≠ R' → R.sub R' →
      (R.lo = R'.lo → R'.len < R.len) ∧ (R.hi = R'.hi → R.hi ≠ TOP → ekey R.len < ekey R'.len) := by
  intro R hR R' hR' hne hsub
  have hb := (famF_bounds h R hR).2.2
  have hb' := (famF_bounds h R' hR').2.2
  rw [ekey_lt_iff (by omega) (by omega)]
  rcases (mem_famF h).1 hR with ⟨s, hs, rfl⟩ | ⟨⟨s, hs, h0, rfl⟩, ns⟩ | ⟨rfl, n4⟩ | ⟨rfl, n6⟩ |
      ⟨rfl, n6, ns⟩ <;>
  rcases (mem_famF h).1 hR' with ⟨s', hs', rfl⟩ | ⟨⟨s', hs', h0', rfl⟩, ns'⟩ | ⟨rfl, n4'⟩ | ⟨rfl, n6'⟩ |
      ⟨rfl, n6', ns'⟩ <;>
    first
    | exact absurd rfl hne
    | (fam_facts
       try (have hss : s ≠ s' := by
              first | exact fun e => hne (congrArg blk e) | exact fun e => hne (congrArg half e)
            have := w1_ne h hs hs' hss)
       clear hne hb hb'
       simp only [Rng.sub, blk, half, R4, R6a, R6b, TOP_eq, afterIPv4_eq, firstIPv4_eq, ne_eq,
         not_true_eq_false, not_false_eq_true, true_and, false_and, and_false, and_true, or_false,
         false_or, false_imp_iff, true_imp_iff, implies_true] at hsub ⊢
       try omega)

theorem mem_rngOf {S : List SubnetDecl} (h : SubsWF S) {s : SubnetDecl} (hs : s ∈ S) {R : Rng}
    (hR : R ∈ rngOf s) : R = blk s ∨ ((s.net = 0 ∧ s.ones = 0) ∧ R = half s) := by
  rw [rngOf_eq h hs] at hR
  by_cases h0 : s.net = 0 ∧ s.ones = 0
  · rw [if_pos h0] at hR
    simp only [List.mem_cons, List.not_mem_nil, or_false] at hR
    exact hR.imp id fun e => ⟨h0, e⟩
  · rw [if_neg h0] at hR
    simp only [List.mem_cons, List.not_mem_nil, or_false] at hR
    exact Or.inl hR

theorem flatMap_rngOf_nodup {S : List SubnetDecl} (h : SubsWF S) : (S.flatMap rngOf).Nodup := by
  unfold List.Nodup
  rw [List.pairwise_flatMap]
  constructor
  · intro s hs
    rw [rngOf_eq h hs]
    split
    · rename_i h0
      have : blk s ≠ half s := by
        intro e
        have := congrArg Rng.lo e
        simp only [blk, half, afterIPv4_eq] at this
        omega
      simp [this]
    · simp
  · refine List.Pairwise.imp_of_mem ?_ h.w1
    intro s s' hs hs' hw x hx y hy hxy
    subst hxy
    fam_facts
    rcases mem_rngOf h hs hx with rfl | ⟨h0, rfl⟩ <;>
    rcases mem_rngOf h hs' hy with e | ⟨h0', e⟩ <;>
    · have e1 := congrArg Rng.lo e
      have e2 := congrArg Rng.len e
      simp only [blk, half, afterIPv4_eq] at e1 e2
      omega

theorem famOf_nodup {S : List SubnetDecl} (h : SubsWF S) : (famOf S).Nodup := by
  have hloc : ∀ R ∈ S.flatMap rngOf, R.loc ≠ none := by
    intro R hR
    rcases (mem_flatMap_rngOf h).1 hR with ⟨s, _, rfl⟩ | ⟨s, _, _, rfl⟩ <;> simp [blk, half]
  have h4 : ∀ R ∈ (if hasV4 S then [] else [R4]), R = R4 := by
    intro R hR; split at hR <;> simp at hR; exact hR
  have h6 : ∀ R ∈ (if hasV6 S then [] else [R6a, R6b]), R = R6a ∨ R = R6b := by
    intro R hR; split at hR <;> simp at hR; exact hR
  unfold famOf
  rw [List.nodup_append, List.nodup_append]
  refine ⟨⟨flatMap_rngOf_nodup h, ?_, ?_⟩, ?_, ?_⟩
  · split <;> simp
  · intro a ha b hb e
    rw [e, h4 b hb] at ha
    exact hloc _ ha rfl
  · split
    · simp
    · have : R6a ≠ R6b := by decide
      simp [this]
  · intro a ha b hb e
    rcases List.mem_append.1 ha with ha | ha
    · rw [e] at ha
      rcases h6 b hb with rfl | rfl <;> exact hloc _ ha rfl
    · rw [h4 a ha] at e
      rcases h6 b hb with rfl | rfl <;> exact absurd e (by decide)

theorem famF_sublist (S : List SubnetDecl) : (famF S).Sublist (famOf S) := by
  unfold famF
  split
  · exact List.filter_sublist
  · exact List.Sublist.refl _

theorem famF_nodup {S : List SubnetDecl} (h : SubsWF S) : (famF S).Nodup :=
  (famOf_nodup h).sublist (famF_sublist S)

/-- a pseudo start at `afterIPv4` that is a start of the family meets only the default range on the
stack -/
theorem famF_noResume {S : List SubnetDecl} (h : SubsWF S) : NoResume (famF S) := by
  intro R hR hlo hlen R' hR' hlo' hhi'
  rcases (mem_famF h).1 hR with ⟨s, hs, rfl⟩ | ⟨⟨s, hs, h0, rfl⟩, ns⟩ | ⟨rfl, n4⟩ | ⟨rfl, n6⟩ |
      ⟨rfl, n6, ns⟩ <;>
  rcases (mem_famF h).1 hR' with ⟨s', hs', rfl⟩ | ⟨⟨s', hs', h0', rfl⟩, ns'⟩ | ⟨rfl, n4'⟩ | ⟨rfl, n6'⟩ |
      ⟨rfl, n6', ns'⟩ <;>
    (fam_facts
     simp only [blk, half, R4, R6a, R6b, TOP_eq, afterIPv4_eq, firstIPv4_eq] at hlo hlen hlo' hhi' ⊢
     first | omega | exact ⟨trivial, trivial⟩)

/-- **C03.4, concrete side**: the ranges the sweep pushes for a well-formed subnet list form a
well-formed laminar family -/
theorem famF_wf {S : List SubnetDecl} (h : SubsWF S) : RngWF (famF S) :=
  ⟨famF_nodup h, famF_bounds h, famF_lam h, famF_nest h, famF_base h, famF_null_len h⟩

/-! ### the marker events -/

theorem mem_markersOf {S : List SubnetDecl} {m : GEv} :
    m ∈ markersOf S ↔ straddle S = true ∧ ∃ U ∈ famOf S, isUpper U = true ∧ m = ⟨U, .start⟩ := by
  unfold markersOf
  cases straddle S with
  | false => simp
  | true =>
    simp only [if_true, List.mem_map, List.mem_filter, true_and]
    constructor
    · rintro ⟨U, ⟨h1, h2⟩, rfl⟩; exact ⟨U, h1, h2, rfl⟩
    · rintro ⟨U, h1, h2, rfl⟩; exact ⟨U, ⟨h1, h2⟩, rfl⟩

theorem not_upper_of_mem_famF {S : List SubnetDecl} (hstr : straddle S = true) {R : Rng}
    (hR : R ∈ famF S) : isUpper R = false := by
  unfold famF at hR
  rw [hstr] at hR
  simp only [if_true, List.mem_filter] at hR
  simpa using hR.2

theorem markersOf_wf {S : List SubnetDecl} (h : SubsWF S) : MarkWF (famF S) (markersOf S) := by
  have hup : ∀ U : Rng, isUpper U = true → U.lo = afterIPv4 ∧ U.len = 0 := by
    intro U hU
    simpa [isUpper] using hU
  constructor
  · intro m hm
    obtain ⟨_, U, _, _, rfl⟩ := mem_markersOf.1 hm
    rfl
  · intro m hm
    obtain ⟨_, U, _, hU, rfl⟩ := mem_markersOf.1 hm
    exact (hup U hU).1
  · intro m hm
    obtain ⟨_, U, _, hU, rfl⟩ := mem_markersOf.1 hm
    exact (hup U hU).2
  · intro m hm hin
    obtain ⟨hstr, U, _, hU, rfl⟩ := mem_markersOf.1 hm
    have := not_upper_of_mem_famF hstr hin
    simp only at this
    rw [hU] at this; cases this
  · intro m hm
    obtain ⟨hstr, _⟩ := mem_markersOf.1 hm
    obtain ⟨s, hs, h1, h2, h3⟩ := straddle_true.1 hstr
    refine ⟨blk s, (mem_famF h).2 (Or.inl ⟨s, hs, rfl⟩), ?_, ?_, h1⟩
    · show s.net < afterIPv4; rw [afterIPv4_eq]; exact h2
    · show afterIPv4 < s.net + 2 ^ (128 - s.ones); rw [afterIPv4_eq]; exact h3
  · intro m hm R hR hR2
    obtain ⟨hstr, _⟩ := mem_markersOf.1 hm
    have := not_upper_of_mem_famF hstr hR
    simp [isUpper, hR2.1, hR2.2] at this

end DnsVerif.Lpm
