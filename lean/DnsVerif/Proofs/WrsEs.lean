/-
The Efraimidis–Spirakis identity behind the proportionality claim of C11 (single slot).

Two candidates with weights `a, b > 0` draw independent uniform `u, v ∈ [0,1]` and get the keys
`u^(1/a)`, `v^(1/b)`. The first wins iff `v < u^(b/a)`, which for fixed `u` has probability
`u^(b/a)`; integrating over `u`:  P(first wins) = ∫₀¹ u^(b/a) du = a/(a+b).
With `b := W − wᵢ` (the maximum of the other candidates' keys is distributed as `v^(1/(W−wᵢ))`)
this is `wᵢ/W` for any number of candidates. Only the integral is machine-checked here; the
probabilistic reading above is the standard argument and is not formalised.
-/
import Mathlib.Analysis.SpecialFunctions.Integrals.Basic

namespace DnsVerif.Wrs

theorem es_integral (a b : ℝ) (ha : 0 < a) (hb : 0 < b) :
    ∫ x in (0:ℝ)..1, x ^ (b / a) = a / (a + b) := by
  have hpos : 0 < b / a := div_pos hb ha
  have h : -1 < b / a := lt_trans (by norm_num) hpos
  have hne : b / a + 1 ≠ 0 := by positivity
  rw [integral_rpow (Or.inl h), Real.one_rpow, Real.zero_rpow hne]
  have ha' : a ≠ 0 := ne_of_gt ha
  have hab : a + b ≠ 0 := by positivity
  field_simp
  ring

end DnsVerif.Wrs
