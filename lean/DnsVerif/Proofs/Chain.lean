/-
Helper lemmas for C20: the assembled handler chain equals a flat decision list (`chainFlat`).
-/
import DnsVerif.Model.Chain

namespace DnsVerif.Chain

/-- the RFC 8482 reply of `anyHandler` -/
def hinfoReply (q : Query) (owner : Name) : Response :=
  { setReply q with answer := [hinfoRR owner] }

/-- the chain as a flat decision list -/
def chainFlat (cfg : Cfg) (who : Query → Outcome) (q : Query) (db : MaxAns → Query → Outcome) :
    Outcome :=
  match q.questions with
  | [] => handleFailed q
  | q0 :: _ =>
    if cfg.refuseANY = true ∧ q0.qtype = typeANY then .reply (hinfoReply q q0.name)
    else if cfg.whoamiDomain ≠ [] ∧ whoamiMatch cfg.domain q0.name = true then who q
    else db cfg.maxAns q

theorem dbHandler_some (db : MaxAns → Query → Outcome) (n : Nat) (q : Query) :
    dbHandler db { maxAns := some n } q = db n q := rfl

theorem chain_eq_flat (cfg : Cfg) (who : Query → Outcome) (q : Query)
    (db : MaxAns → Query → Outcome) : chain cfg who q db = chainFlat cfg who q db := by
  unfold chain chainFlat serveMux
  cases hq : q.questions with
  | nil => simp
  | cons q0 rest =>
    have hlen : ¬ ((q0 :: rest).length < 1) := by simp
    rw [if_neg hlen]
    by_cases hr : cfg.refuseANY = true <;> by_cases ht : q0.qtype = typeANY <;>
      by_cases hw : cfg.whoamiDomain = [] <;>
      by_cases hm : whoamiMatch cfg.domain q0.name = true <;>
      simp [maxAnswerHandler, inner, anyHandler, whoamiHandler, dbHandler, hinfoReply,
        hq, hr, ht, hw, hm]

theorem anyRefused_iff (cfg : Cfg) (q : Query) :
    anyRefused cfg q = true ↔
      ∃ q0 rest, q.questions = q0 :: rest ∧ cfg.refuseANY = true ∧ q0.qtype = typeANY := by
  unfold anyRefused Query.qtype?
  cases hq : q.questions with
  | nil => simp
  | cons q0 rest => simp

theorem whoamiHit_iff (cfg : Cfg) (q : Query) :
    whoamiHit cfg q = true ↔
      ∃ q0 rest, q.questions = q0 :: rest ∧ cfg.whoamiDomain ≠ [] ∧
        whoamiMatch cfg.domain q0.name = true := by
  unfold whoamiHit Query.name?
  cases hq : q.questions with
  | nil => simp
  | cons q0 rest => simp

end DnsVerif.Chain
