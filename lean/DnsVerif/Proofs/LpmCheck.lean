/-
C03.4: an executable checker `checkTable` comparing a range-point table (`lookupRes`) with the
longest-prefix-match specification (`lpmRes`) at finitely many breakpoints, and the proof that
passing the check implies agreement on every masked client `(a, req)`.

Idea: for a fixed client prefix length `req`, both sides are *determined by thresholds* in the
address `a` (their value depends on `a` only through the comparisons `t ≤ a`, `t` ranging over a
finite list `T`). Between consecutive thresholds both are constant, so on the lattice of addresses
aligned to `m = 2^(128-req)` it is enough to test, for every `t ∈ 0 :: T`, the least aligned
address `≥ t` (`lattice_agree`).

For a fixed address both sides are also determined by thresholds in `req` (the key mask bytes and
the declared prefix lengths). Alignment couples `a` and `req`, but only monotonically: an address
aligned for `req` is aligned for every longer prefix. So each `req` is represented by the *last*
value before the next threshold (`exists_upper_rep`), and `checkTable` tests only those prefix
lengths (`reqCands`) instead of all of `0..255`; `checkTableFor` is the variant with an explicit
list of prefix lengths.
-/
import DnsVerif.Proofs.LpmTable
import DnsVerif.Proofs.Lpm
namespace DnsVerif.Lpm
open DnsVerif DnsVerif.Rearr DnsVerif.Spec

/-! ### generic threshold lemmas -/

/-- `x` and `y` have the same threshold vector -/
def Same (T : List Nat) (x y : Nat) : Prop := ∀ t ∈ T, (t ≤ x ↔ t ≤ y)

/-- `f` depends on its argument only through the comparisons `t ≤ ·`, `t ∈ T` -/
def Det {α : Type} (T : List Nat) (f : Nat → α) : Prop := ∀ x y, Same T x y → f x = f y

theorem Same.mono {T T' : List Nat} {x y : Nat} (h : Same T' x y) (hsub : ∀ t ∈ T, t ∈ T') :
    Same T x y := fun t ht => h t (hsub t ht)

theorem Det.mono {α : Type} {T T' : List Nat} {f : Nat → α} (h : Det T f)
    (hsub : ∀ t ∈ T, t ∈ T') : Det T' f := fun x y hs => h x y (hs.mono hsub)

/-- the largest element of `0 :: T` that is `≤ a` -/
theorem exists_floor (T : List Nat) (a : Nat) :
    ∃ t ∈ 0 :: T, t ≤ a ∧ ∀ t' ∈ T, t' ≤ a → t' ≤ t := by
  induction T with
  | nil => exact ⟨0, List.mem_cons_self, Nat.zero_le _, fun _ h => by simp at h⟩
  | cons x xs ih =>
    obtain ⟨t, ht, hta, hmax⟩ := ih
    by_cases hx : x ≤ a ∧ t < x
    · refine ⟨x, by simp, hx.1, fun t' ht' h => ?_⟩
      rcases List.mem_cons.1 ht' with h' | h'
      · omega
      · have := hmax t' h' h; omega
    · refine ⟨t, ?_, hta, fun t' ht' h => ?_⟩
      · rcases List.mem_cons.1 ht with h' | h'
        · simp [h']
        · simp [h']
      · rcases List.mem_cons.1 ht' with h' | h'
        · omega
        · exact hmax t' h' h

/-- least multiple of `m` that is `≥ t` -/
def ceilTo (t m : Nat) : Nat := (t + m - 1) / m * m

theorem le_ceilTo (t : Nat) {m : Nat} (hm : 0 < m) : t ≤ ceilTo t m := by
  unfold ceilTo
  have h1 := Nat.div_add_mod (t + m - 1) m
  have h2 := Nat.mod_lt (t + m - 1) hm
  rw [Nat.mul_comm] at h1
  omega

theorem ceilTo_le {t m a : Nat} (hm : 0 < m) (ha : a % m = 0) (hta : t ≤ a) : ceilTo t m ≤ a := by
  unfold ceilTo
  have hdvd : a / m * m = a := Nat.div_mul_cancel (Nat.dvd_of_mod_eq_zero ha)
  have h : (t + m - 1) / m < a / m + 1 := by
    rw [Nat.div_lt_iff_lt_mul hm, Nat.add_mul, hdvd]; omega
  calc (t + m - 1) / m * m ≤ a / m * m := Nat.mul_le_mul_right m (by omega)
    _ = a := hdvd

theorem ceilTo_mod (t m : Nat) : ceilTo t m % m = 0 := Nat.mul_mod_left _ _

theorem ceilTo_one (t : Nat) : ceilTo t 1 = t := by simp [ceilTo]

/-- two threshold-determined functions that agree at the least `m`-aligned address above each
threshold (below the bound `B`) agree at every `m`-aligned address below `B` -/
theorem lattice_agree {α : Type} {f g : Nat → α} {T : List Nat} {m B : Nat} (hm : 0 < m)
    (hf : Det T f) (hg : Det T g)
    (hchk : ∀ t ∈ 0 :: T, ceilTo t m < B → f (ceilTo t m) = g (ceilTo t m)) :
    ∀ a, a < B → a % m = 0 → f a = g a := by
  intro a haB ha
  obtain ⟨t, ht, hta, hmax⟩ := exists_floor T a
  have h1 := le_ceilTo t hm
  have h2 := ceilTo_le hm ha hta
  have hs : Same T (ceilTo t m) a := fun t' ht' =>
    ⟨fun h => by omega, fun h => by have := hmax t' ht' h; omega⟩
  rw [← hf _ _ hs, ← hg _ _ hs]
  exact hchk t ht (by omega)

/-- the unaligned case: agreement on `0 :: T` is agreement everywhere -/
theorem determined_agree {α : Type} {f g : Nat → α} {T : List Nat}
    (hf : Det T f) (hg : Det T g) (hchk : ∀ t ∈ 0 :: T, f t = g t) : ∀ a, f a = g a := by
  intro a
  refine lattice_agree (m := 1) (B := a + 1) Nat.one_pos hf hg (fun t ht _ => ?_) a (by omega)
    (Nat.mod_one a)
  rw [ceilTo_one]; exact hchk t ht

/-- drop repeated entries (keeps the last occurrence); only to save evaluations -/
def dedup : List Nat → List Nat
  | [] => []
  | x :: xs => if xs.contains x then dedup xs else x :: dedup xs

theorem mem_dedup {x : Nat} {l : List Nat} (h : x ∈ l) : x ∈ dedup l := by
  induction l with
  | nil => exact h
  | cons y ys ih =>
    unfold dedup
    rcases List.mem_cons.1 h with h' | h'
    · subst h'
      by_cases hc : ys.contains x = true
      · rw [if_pos hc]; exact ih (List.contains_iff_mem.1 hc)
      · rw [if_neg hc]; exact List.mem_cons_self
    · by_cases hc : ys.contains y = true
      · rw [if_pos hc]; exact ih h'
      · rw [if_neg hc]; exact List.mem_cons_of_mem _ (ih h')

/-- the least element of `R` that is `> r`, if any -/
theorem exists_ceil (R : List Nat) (r : Nat) :
    (∀ t ∈ R, t ≤ r) ∨ ∃ t' ∈ R, r < t' ∧ ∀ t ∈ R, r < t → t' ≤ t := by
  induction R with
  | nil => left; intro t h; simp at h
  | cons x xs ih =>
    by_cases hx : x ≤ r
    · rcases ih with h | ⟨t', ht', hlt, hmin⟩
      · left; intro t ht
        rcases List.mem_cons.1 ht with h' | h'
        · omega
        · exact h t h'
      · right
        refine ⟨t', List.mem_cons_of_mem _ ht', hlt, fun t ht hr => ?_⟩
        rcases List.mem_cons.1 ht with h' | h'
        · omega
        · exact hmin t h' hr
    · rcases ih with h | ⟨t', ht', hlt, hmin⟩
      · right; refine ⟨x, List.mem_cons_self, by omega, fun t ht hr => ?_⟩
        rcases List.mem_cons.1 ht with h' | h'
        · omega
        · have := h t h'; omega
      · by_cases hxt : x ≤ t'
        · right; refine ⟨x, List.mem_cons_self, by omega, fun t ht hr => ?_⟩
          rcases List.mem_cons.1 ht with h' | h'
          · omega
          · have := hmin t h' hr; omega
        · right; refine ⟨t', List.mem_cons_of_mem _ ht', hlt, fun t ht hr => ?_⟩
          rcases List.mem_cons.1 ht with h' | h'
          · omega
          · exact hmin t h' hr

/-- every `r ≤ top` has a representative `r' ≥ r` with the same threshold vector among `top` and the
predecessors of the thresholds (the last value before the next threshold) -/
theorem exists_upper_rep (R : List Nat) {r top : Nat} (hr : r ≤ top) :
    ∃ r' ∈ top :: R.map (· - 1), r ≤ r' ∧ Same R r r' := by
  rcases exists_ceil R r with h | ⟨t', ht', hlt, hmin⟩
  · exact ⟨top, List.mem_cons_self, hr, fun t ht => by have := h t ht; omega⟩
  · refine ⟨t' - 1, List.mem_cons_of_mem _ (List.mem_map.2 ⟨t', ht', rfl⟩), by omega, fun t ht => ?_⟩
    constructor
    · intro h; omega
    · intro h
      refine Nat.le_of_not_lt fun hc => ?_
      have := hmin t ht hc
      omega

/-- an address aligned for a prefix length is aligned for every longer one -/
theorem aligned_mono {a r r' : Nat} (hle : r ≤ r') (h : a % 2 ^ (128 - r) = 0) :
    a % 2 ^ (128 - r') = 0 :=
  Nat.mod_eq_zero_of_dvd
    (Nat.dvd_trans (Nat.pow_dvd_pow 2 (by omega)) (Nat.dvd_of_mod_eq_zero h))

/-! ### the thresholds of the two sides -/

def pointThresholds (P : List Point) : List Nat := P.flatMap fun p => [p.ip, p.ip + 1]

def subnetThresholds (S : List SubnetDecl) : List Nat :=
  S.flatMap fun s => [blockStart s.net s.ones, blockStart s.net s.ones + blockSize s.ones]

def familyThresholds : List Nat := [v4Base, 2 ^ 48]

/-- the addresses at which either side may change its value -/
def thresholds (S : List SubnetDecl) (P : List Point) : List Nat :=
  familyThresholds ++ (pointThresholds P ++ subnetThresholds S)

theorem keyLe_congr {p : Point} {x y req : Nat} (h1 : p.ip ≤ x ↔ p.ip ≤ y)
    (h2 : p.ip + 1 ≤ x ↔ p.ip + 1 ≤ y) :
    keyLe (pkey p) (x, req) = keyLe (pkey p) (y, req) := by
  unfold keyLe keyLt
  congr 1
  rw [decide_eq_decide]
  show (x < p.ip ∨ x = p.ip ∧ req < (pkey p).2) ↔ (y < p.ip ∨ y = p.ip ∧ req < (pkey p).2)
  omega

theorem foldl_congr_mem {α β : Type} {f g : β → α → β} (l : List α)
    (h : ∀ b, ∀ x ∈ l, f b x = g b x) (b : β) : l.foldl f b = l.foldl g b := by
  induction l generalizing b with
  | nil => rfl
  | cons x xs ih =>
    rw [List.foldl_cons, List.foldl_cons, h b x List.mem_cons_self]
    exact ih (fun b y hy => h b y (List.mem_cons_of_mem _ hy)) _

theorem lookup_det (P : List Point) (req : Nat) :
    Det (pointThresholds P) fun a => lookup P a req := by
  intro x y h
  show lookup P x req = lookup P y req
  unfold lookup
  refine foldl_congr_mem P (fun best p hp => ?_) none
  have hm1 : p.ip ∈ pointThresholds P := List.mem_flatMap.2 ⟨p, hp, by simp⟩
  have hm2 : p.ip + 1 ∈ pointThresholds P := List.mem_flatMap.2 ⟨p, hp, by simp⟩
  rw [keyLe_congr (h _ hm1) (h _ hm2)]

theorem lookupRes_det (P : List Point) (req : Nat) :
    Det (pointThresholds P) fun a => lookupRes P a req := by
  intro x y h
  show lookupRes P x req = lookupRes P y req
  unfold lookupRes
  rw [show lookup P x req = lookup P y req from lookup_det P req x y h]

theorem isV4Addr_iff (a : Nat) : isV4Addr a = true ↔ v4Base ≤ a ∧ ¬ 2 ^ 48 ≤ a := by
  unfold isV4Addr v4Base
  rw [decide_eq_true_iff]
  omega

theorem isV4Addr_congr {x y : Nat} (h : Same familyThresholds x y) : isV4Addr x = isV4Addr y := by
  rw [Bool.eq_iff_iff, isV4Addr_iff, isV4Addr_iff,
    h v4Base (by simp [familyThresholds]), h (2 ^ 48) (by simp [familyThresholds])]

theorem contains_congr {s : SubnetDecl} {x y : Nat}
    (h1 : blockStart s.net s.ones ≤ x ↔ blockStart s.net s.ones ≤ y)
    (h2 : blockStart s.net s.ones + blockSize s.ones ≤ x ↔
      blockStart s.net s.ones + blockSize s.ones ≤ y) :
    s.contains x = s.contains y := by
  rw [Bool.eq_iff_iff, contains_iff, contains_iff]
  omega

theorem lpmRes_det (S : List SubnetDecl) (mapID : Bytes) (req : Nat) :
    Det (familyThresholds ++ subnetThresholds S) fun a => lpmRes S mapID a req := by
  intro x y h
  show lpmRes S mapID x req = lpmRes S mapID y req
  have hv : isV4Addr x = isV4Addr y := isV4Addr_congr (h.mono fun t ht => List.mem_append_left _ ht)
  have hl : lpm S mapID (isV4Addr x) x req = lpm S mapID (isV4Addr y) y req := by
    rw [hv]
    unfold lpm
    congr 1
    apply List.filter_congr
    intro s hs
    have hm1 : blockStart s.net s.ones ∈ familyThresholds ++ subnetThresholds S :=
      List.mem_append_right _ (List.mem_flatMap.2 ⟨s, hs, by simp⟩)
    have hm2 : blockStart s.net s.ones + blockSize s.ones ∈
        familyThresholds ++ subnetThresholds S :=
      List.mem_append_right _ (List.mem_flatMap.2 ⟨s, hs, by simp⟩)
    rw [contains_congr (h _ hm1) (h _ hm2)]
  unfold lpmRes
  rw [hl]

theorem lookupRes_det' (S : List SubnetDecl) (P : List Point) (req : Nat) :
    Det (thresholds S P) fun a => lookupRes P a req :=
  (lookupRes_det P req).mono fun _ ht =>
    List.mem_append_right _ (List.mem_append_left _ ht)

theorem lpmRes_det' (S : List SubnetDecl) (mapID : Bytes) (P : List Point) (req : Nat) :
    Det (thresholds S P) fun a => lpmRes S mapID a req :=
  (lpmRes_det S mapID req).mono fun _ ht => by
    rcases List.mem_append.1 ht with h | h
    · exact List.mem_append_left _ h
    · exact List.mem_append_right _ (List.mem_append_right _ h)

/-! ### thresholds in the client prefix length -/

def reqThresholds (S : List SubnetDecl) (P : List Point) : List Nat :=
  (P.map fun p => (pkey p).2) ++ S.map (·.ones)

theorem keyLe_congr_req {p : Point} {a r r' : Nat} (h : (pkey p).2 ≤ r ↔ (pkey p).2 ≤ r') :
    keyLe (pkey p) (a, r) = keyLe (pkey p) (a, r') := by
  unfold keyLe keyLt
  congr 1
  rw [decide_eq_decide]
  show (a < (pkey p).1 ∨ a = (pkey p).1 ∧ r < (pkey p).2) ↔
    (a < (pkey p).1 ∨ a = (pkey p).1 ∧ r' < (pkey p).2)
  omega

theorem lookupRes_det_req (S : List SubnetDecl) (P : List Point) (a : Nat) :
    Det (reqThresholds S P) fun r => lookupRes P a r := by
  intro r r' h
  show lookupRes P a r = lookupRes P a r'
  have hl : lookup P a r = lookup P a r' := by
    unfold lookup
    refine foldl_congr_mem P (fun best p hp => ?_) none
    have hm : (pkey p).2 ∈ reqThresholds S P :=
      List.mem_append_left _ (List.mem_map.2 ⟨p, hp, rfl⟩)
    rw [keyLe_congr_req (h _ hm)]
  unfold lookupRes
  rw [hl]

theorem lpmRes_det_req (S : List SubnetDecl) (mapID : Bytes) (P : List Point) (a : Nat) :
    Det (reqThresholds S P) fun r => lpmRes S mapID a r := by
  intro r r' h
  show lpmRes S mapID a r = lpmRes S mapID a r'
  have hl : lpm S mapID (isV4Addr a) a r = lpm S mapID (isV4Addr a) a r' := by
    unfold lpm
    congr 1
    apply List.filter_congr
    intro s hs
    have hm : s.ones ∈ reqThresholds S P :=
      List.mem_append_right _ (List.mem_map.2 ⟨s, hs, rfl⟩)
    simp only [h _ hm]
  unfold lpmRes
  rw [hl]

/-- the client prefix lengths to test: 255 and the last value before each threshold -/
def reqCands (S : List SubnetDecl) (P : List Point) : List Nat :=
  dedup (255 :: (reqThresholds S P).map (· - 1))

/-! ### the checker -/

/-- agreement at one address (addresses `≥ 2^128` are out of range and pass) -/
def checkAt (S : List SubnetDecl) (mapID : Bytes) (P : List Point) (req c : Nat) : Bool :=
  decide (2 ^ 128 ≤ c) || decide (lookupRes P c req = lpmRes S mapID c req)

/-- agreement, for one client prefix length, at the least aligned address above each threshold -/
def checkReq (S : List SubnetDecl) (mapID : Bytes) (P : List Point) (T : List Nat) (req : Nat) :
    Bool :=
  (dedup ((0 :: T).map fun t => ceilTo t (2 ^ (128 - req)))).all fun c => checkAt S mapID P req c

def checkTableFor (reqs : List Nat) (S : List SubnetDecl) (mapID : Bytes) (P : List Point) : Bool :=
  reqs.all fun req => checkReq S mapID P (thresholds S P) req

def checkTable (S : List SubnetDecl) (mapID : Bytes) (P : List Point) : Bool :=
  checkTableFor (reqCands S P) S mapID P

theorem checkReq_sound {S : List SubnetDecl} {mapID : Bytes} {P : List Point} {req : Nat}
    (h : checkReq S mapID P (thresholds S P) req = true) :
    ∀ a, a < 2 ^ 128 → a % 2 ^ (128 - req) = 0 → lookupRes P a req = lpmRes S mapID a req := by
  unfold checkReq at h
  rw [List.all_eq_true] at h
  refine lattice_agree (f := fun a => lookupRes P a req) (g := fun a => lpmRes S mapID a req)
    (Nat.two_pow_pos _) (lookupRes_det' S P req) (lpmRes_det' S mapID P req) fun t ht hlt => ?_
  have := h _ (mem_dedup (List.mem_map.2 ⟨t, ht, rfl⟩))
  unfold checkAt at this
  rw [Bool.or_eq_true, decide_eq_true_iff, decide_eq_true_iff] at this
  rcases this with h' | h'
  · omega
  · exact h'

theorem checkTableFor_sound {reqs : List Nat} {S : List SubnetDecl} {mapID : Bytes}
    {P : List Point} (h : checkTableFor reqs S mapID P = true) :
    ∀ a req, req ∈ reqs → a < 2 ^ 128 → a % 2 ^ (128 - req) = 0 →
      lookupRes P a req = lpmRes S mapID a req := by
  intro a req hreq
  unfold checkTableFor at h
  rw [List.all_eq_true] at h
  exact checkReq_sound (h req hreq) a

/-- **checkTable_sound**: a table that passes the finite check agrees with the specification for
every masked client -/
theorem checkTable_sound (S : List SubnetDecl) (mapID : Bytes) (P : List Point)
    (h : checkTable S mapID P = true) :
    ∀ a req, a < 2 ^ 128 → req < 256 → a % 2 ^ (128 - req) = 0 →
      lookupRes P a req = lpmRes S mapID a req := by
  intro a req ha hreq hal
  obtain ⟨r', hmem, hle, hsame⟩ :=
    exists_upper_rep (reqThresholds S P) (r := req) (top := 255) (by omega)
  have hchk := checkTableFor_sound h a r' (mem_dedup hmem) ha (aligned_mono hle hal)
  rw [show lookupRes P a req = lookupRes P a r' from lookupRes_det_req S P a req r' hsame,
    show lpmRes S mapID a req = lpmRes S mapID a r' from lpmRes_det_req S mapID P a req r' hsame]
  exact hchk

/-! ### examples -/

def exS : List SubnetDecl := [⟨[0, 7], 0xffff0a000000, 104, [1, 1]⟩]
def exP : List Point :=
  [⟨0, 0, none, .start⟩, ⟨0xffff00000000, 0, none, .start⟩,
   ⟨0xffff0a000000, 104, some [1, 1], .start⟩, ⟨0xffff0b000000, 0, none, .stop⟩,
   ⟨2 ^ 48, 0, none, .start⟩]
def exPbad : List Point :=
  [⟨0, 0, none, .start⟩, ⟨0xffff00000000, 0, none, .start⟩,
   ⟨0xffff0a000000, 104, some [1, 1], .start⟩, ⟨2 ^ 48, 0, none, .start⟩]

/-- the correct table passes -/
example : checkTable exS [0, 7] exP = true := by decide
/-- the table without its stop point fails -/
example : checkTable exS [0, 7] exPbad = false := by decide
/-- the reduced set of prefix lengths gives the same verdicts as all of `0..255` -/
example : reqCands exS exP = [255, 0, 103] := by decide

end DnsVerif.Lpm
