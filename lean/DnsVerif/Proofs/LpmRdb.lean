/-
C03.4: from the sweep invariant to the lookup theorem. Part A (abstract): the predecessor of
`(a, req)` in the squashed table carries the innermost range that contains `a` and is no longer
than `req`. Part B (concrete): the events `AddLocation` / `Rearrange` generate for a well-formed
subnet list form such a family, and "innermost range" is `Spec.lpm`.
-/
import DnsVerif.Proofs.LpmSweep
import DnsVerif.Proofs.LpmSort

namespace DnsVerif.Lpm
open DnsVerif DnsVerif.Rearr DnsVerif.Spec

/-! ### Part A -/

/-- the innermost range of `F` that contains `a` and is no longer than `req` -/
def Inner (F : List Rng) (a req : Nat) (H : Rng) : Prop :=
  H ∈ F ∧ H.lo ≤ a ∧ a < H.hi ∧ H.len ≤ req ∧
    ∀ X ∈ F, X.lo ≤ a → a < X.hi → X.len ≤ req → X.lo ≤ H.lo ∧ H.hi ≤ X.hi

/-- the rank of the lookup key `(a, req)`, read as a start event -/
def krank (a req : Nat) : Nat := a * 1024 + (512 + req)

/-- splitting a strictly sorted list at a threshold that its head does not exceed -/
theorem split_at_threshold {α : Type} (f : α → Nat) (k : Nat) :
    ∀ (L : List α), L.Pairwise (fun x y => f x < f y) → (∀ x, L.head? = some x → f x ≤ k) → L ≠ [] →
      ∃ pre x post, L = pre ++ x :: post ∧ f x ≤ k ∧ (∀ y ∈ pre, f y < f x) ∧ (∀ y ∈ post, k < f y) := by
  intro L
  induction L with
  | nil => intro _ _ h; exact absurd rfl h
  | cons x xs ih =>
    intro hs hh _
    have hx : f x ≤ k := hh x rfl
    cases xs with
    | nil => exact ⟨[], x, [], rfl, hx, fun _ h => by simp at h, fun _ h => by simp at h⟩
    | cons y ys =>
      have hs' := (List.pairwise_cons.1 hs).2
      have hxy := (List.pairwise_cons.1 hs).1
      by_cases hy : f y ≤ k
      · obtain ⟨pre, z, post, heq, hz, hpre, hpost⟩ := ih hs' (fun w hw => by cases hw; exact hy) (by simp)
        refine ⟨x :: pre, z, post, by rw [heq]; rfl, hz, ?_, hpost⟩
        intro w hw
        rcases List.mem_cons.1 hw with h | h
        · rw [h]
          have : z ∈ y :: ys := by rw [heq]; simp
          exact hxy z this
        · exact hpre w h
      · refine ⟨[], x, y :: ys, rfl, hx, fun _ h => by simp at h, ?_⟩
        intro w hw
        rcases List.mem_cons.1 hw with h | h
        · rw [h]; omega
        · have := (List.pairwise_cons.1 hs').1 w h
          omega

/-- with the alignment hypothesis, "open at the cut of the lookup key" = "contains `a` and is no
longer than `req`" -/
theorem isOpen_krank {F : List Rng} (hF : RngWF F) {a req : Nat} (ha : a < TOP) (hreq : req < 256)
    (hA : ∀ R ∈ F, R.lo < a → a < R.hi → R.len ≤ req) (X : Rng) :
    IsOpen F (krank a req) X ↔ X ∈ F ∧ X.lo ≤ a ∧ a < X.hi ∧ X.len ≤ req := by
  have kX := ekey_lt X.len
  unfold IsOpen krank srank erank
  constructor
  · rintro ⟨hXF, hs, he⟩
    obtain ⟨b1, b2, b3⟩ := hF.bounds X hXF
    have hhi : a < X.hi := by rcases he with h | h <;> omega
    refine ⟨hXF, by omega, hhi, ?_⟩
    by_cases hlo : X.lo < a
    · exact hA X hXF hlo hhi
    · omega
  · rintro ⟨hXF, hlo, hhi, hlen⟩
    obtain ⟨b1, b2, b3⟩ := hF.bounds X hXF
    refine ⟨hXF, by omega, ?_⟩
    right; omega

theorem inner_of_isHead {F : List Rng} (hF : RngWF F) {a req : Nat} (ha : a < TOP) (hreq : req < 256)
    (hA : ∀ R ∈ F, R.lo < a → a < R.hi → R.len ≤ req) {H : Rng}
    (hH : IsHead F (krank a req) H) : Inner F a req H := by
  obtain ⟨ho, hall⟩ := hH
  obtain ⟨h1, h2, h3, h4⟩ := (isOpen_krank hF ha hreq hA H).1 ho
  exact ⟨h1, h2, h3, h4, fun X hXF hlo hhi hlen =>
    hall X ((isOpen_krank hF ha hreq hA X).2 ⟨hXF, hlo, hhi, hlen⟩)⟩

/-- two cuts with no event of `F` between them see the same open ranges -/
theorem isHead_of_no_event {F : List Rng} {t t' : Nat} {H : Rng}
    (hs : ∀ R ∈ F, srank R ≤ t ↔ srank R ≤ t')
    (he : ∀ R ∈ F, R.hi ≠ TOP → (t < erank R ↔ t' < erank R))
    (hH : IsHead F t H) : IsHead F t' H := by
  have key : ∀ X, IsOpen F t X ↔ IsOpen F t' X := by
    intro X
    unfold IsOpen
    constructor
    · rintro ⟨hXF, h1, h2⟩
      refine ⟨hXF, (hs X hXF).1 h1, ?_⟩
      by_cases hTop : X.hi = TOP
      · exact Or.inl hTop
      · rcases h2 with h | h
        · exact absurd h hTop
        · exact Or.inr ((he X hXF hTop).1 h)
    · rintro ⟨hXF, h1, h2⟩
      refine ⟨hXF, (hs X hXF).2 h1, ?_⟩
      by_cases hTop : X.hi = TOP
      · exact Or.inl hTop
      · rcases h2 with h | h
        · exact absurd h hTop
        · exact Or.inr ((he X hXF hTop).2 h)
  exact ⟨(key H).1 hH.1, fun X hX => hH.2 X ((key X).2 hX)⟩


/-- weak monotonicity: a range inside another one is at least as long -/
def RngMono (F : List Rng) : Prop := ∀ R ∈ F, ∀ R' ∈ F, R.sub R' → R'.len ≤ R.len

/-- an exception to monotonicity: a range that lies inside a strictly longer one (in the concrete
family: the implicit IPv4 null range — mask length 0 — inside a declared IPv6 block) -/
def IsExc (F : List Rng) (E : Rng) : Prop := ∃ R' ∈ F, E.sub R' ∧ E.len < R'.len

/-- monotonicity up to harmless exceptions: an exception has mask length 0 -/
structure RngMonoW (F : List Rng) : Prop where
  len0 : ∀ E ∈ F, IsExc F E → E.len = 0

theorem RngMono.toW {F : List Rng} (h : RngMono F) : RngMonoW F := by
  refine ⟨fun E hE he => ?_⟩
  obtain ⟨R', hR', hsub, hlt⟩ := he
  have := h E hE R' hR' hsub
  omega

theorem mono_or {F : List Rng} {R R' : Rng} (hR' : R' ∈ F) (hsub : R.sub R') :
    R'.len ≤ R.len ∨ IsExc F R := by
  by_cases h : R'.len ≤ R.len
  · exact Or.inl h
  · exact Or.inr ⟨R', hR', hsub, by omega⟩

theorem cut_zero_inv (F : List Rng) : Inv F 0 [] := by
  refine ⟨fun R => ⟨fun h => (by cases h), fun h => ?_⟩, List.Pairwise.nil⟩
  have := h.2.1
  unfold srank at this; omega

/-- what the sweep guarantees about an emitted point: it carries the innermost range open just after
its event; the event is a start or stop event of a range of `F` (a start emits its own range), or a
marker -/
def OutOK (F : List Rng) (M : List GEv) (gh : GEv × Rng) : Prop :=
  IsHead F (grank gh.1) gh.2 ∧
    ((gh.1.r ∈ F ∧ (gh.1.kind = .start → gh.2 = gh.1.r) ∧ (gh.1.kind = .stop → gh.1.r.hi ≠ TOP)) ∨
      gh.1 ∈ M)

/-- the three kinds of emitted points -/
theorem OutOK.cases {F : List Rng} {M : List GEv} (hM : MarkWF F M) {g : GEv} {H : Rng}
    (h : OutOK F M (g, H)) :
    (∃ R, g = ⟨R, .stop⟩ ∧ R ∈ F ∧ R.hi ≠ TOP) ∨ (g = ⟨H, .start⟩ ∧ H ∈ F) ∨
    (∃ U, g = ⟨U, .start⟩ ∧ g ∈ M ∧ U.lo = afterIPv4 ∧ U.len = 0) := by
  obtain ⟨_, ⟨hRF, hst, hsp⟩ | hm⟩ := h
  · obtain ⟨R, k⟩ := g
    cases k with
    | start =>
      have : H = R := hst rfl
      subst this
      exact Or.inr (Or.inl ⟨rfl, hRF⟩)
    | stop => exact Or.inl ⟨R, rfl, hRF, hsp rfl⟩
  · have h1 := hM.kind g hm
    have h2 := hM.lo g hm
    have h3 := hM.len g hm
    obtain ⟨U, k⟩ := g
    simp only at h1 h2 h3
    subst h1
    exact Or.inr (Or.inr ⟨U, rfl, hm, h2, h3⟩)

theorem OutOK.len_le {F : List Rng} {M : List GEv} (hF : RngWF F) (hM : MarkWF F M) {gh : GEv × Rng}
    (h : OutOK F M gh) : gh.1.r.len ≤ 128 := by
  obtain ⟨_, ⟨hRF, _, _⟩ | hm⟩ := h
  · exact (hF.bounds _ hRF).2.2
  · rw [hM.len _ hm]; exact Nat.zero_le _

theorem outPt_ip_le {g : GEv} (hg : g.r.len ≤ 128) :
    g.pt.ip * 1024 ≤ grank g ∧ grank g < g.pt.ip * 1024 + 1024 := by
  obtain ⟨R, k⟩ := g
  have kR := ekey_lt R.len
  cases k <;> simp only [grank, rank, GEv.pt] <;> simp only at hg <;> omega

/-- comparing ranks compares addresses (the in-address part of a rank is below 1024); stated
separately because `omega` does not cope well with these multiples of 1024 -/
theorem rank_lt_of_addr {a b x y : Nat} (h : a < b) (hx : x < 1024 + y) :
    a * 1024 + x < b * 1024 + y := by
  have h5 : (a + 1) * 1024 ≤ b * 1024 := Nat.mul_le_mul_right 1024 h
  rw [Nat.add_mul, Nat.one_mul] at h5
  calc a * 1024 + x < a * 1024 + (1024 + y) := Nat.add_lt_add_left hx _
    _ = a * 1024 + 1024 + y := (Nat.add_assoc _ _ _).symm
    _ ≤ b * 1024 + y := Nat.add_le_add_right h5 _

theorem ip_le_of_rank {a b r r' : Nat} (h1 : a * 1024 ≤ r) (h : r ≤ r') (h2 : r' < b * 1024 + 1024) :
    a ≤ b := by
  have : a * 1024 < (b + 1) * 1024 := by
    rw [Nat.add_mul, Nat.one_mul]
    exact Nat.lt_of_le_of_lt (Nat.le_trans h1 h) h2
  exact Nat.le_of_lt_succ (Nat.lt_of_mul_lt_mul_right this)

theorem rank_eq_split {a b x y : Nat} (h : a * 1024 + x = b * 1024 + y) (hx : x < 1024)
    (hy : y < 1024) : a = b ∧ x = y := by
  have h1 : a ≤ b := ip_le_of_rank (Nat.le_add_right _ x) (Nat.le_of_eq h) (Nat.add_lt_add_left hy _)
  have h2 : b ≤ a :=
    ip_le_of_rank (Nat.le_add_right _ y) (Nat.le_of_eq h.symm) (Nat.add_lt_add_left hx _)
  have e := Nat.le_antisymm h1 h2
  rw [e] at h
  exact ⟨e, Nat.add_left_cancel h⟩

theorem rank_start_lt {a b l y : Nat} (h : a < b) (hl : l ≤ 128) :
    a * 1024 + (512 + l) < b * 1024 + y := rank_lt_of_addr h (by omega)

theorem addr_lt_of_rank' {a b x y : Nat} (h : a * 1024 + x < b * 1024 + y) (hy : y ≤ x) : a < b := by
  have h1 : a * 1024 + x < b * 1024 + x := Nat.lt_of_lt_of_le h (Nat.add_le_add_left hy _)
  exact Nat.lt_of_mul_lt_mul_right (Nat.lt_of_add_lt_add_right h1)

theorem addr_lt_of_rank {a b x y : Nat} (h : a * 1024 + x < b * 1024 + y) (hy : y < 1024 + x) :
    a ≤ b := by
  refine Nat.le_of_not_lt fun hlt => ?_
  exact Nat.lt_asymm h (rank_lt_of_addr hlt hy)

/-- a range that started before address `ip` and is not stopped by an event at `ip` or later is open at
every cut at address `ip` that precedes that event -/
theorem isOpen_of_ranks {F : List Rng} {X : Rng} (hXF : X ∈ F) {t : Nat} (hs : srank X ≤ t)
    (he : X.hi = TOP ∨ t < erank X) : IsOpen F t X := ⟨hXF, hs, he⟩

/-- at one address the emitted end points precede the emitted start points -/
theorem stopsFirst_out {F : List Rng} (hF : RngWF F) {M : List GEv} (hM : MarkWF F M)
    {GO : List (GEv × Rng)}
    (hsorted : GO.Pairwise fun x y => grank x.1 < grank y.1)
    (hmem : ∀ gh ∈ GO, OutOK F M gh) :
    StopsFirst (GO.map outPt) := by
  unfold StopsFirst
  rw [List.pairwise_map]
  refine List.Pairwise.imp_of_mem ?_ hsorted
  intro x y hx hy hlt hip hk
  obtain ⟨gx, Hx⟩ := x
  obtain ⟨gy, Hy⟩ := y
  have hlx := (hmem _ hx).len_le hF hM
  simp only [outPt] at hip hk ⊢
  simp only at hlt hlx
  obtain ⟨Rx, kx⟩ := gx
  obtain ⟨Ry, ky⟩ := gy
  simp only at hk; subst hk
  cases kx with
  | stop => rfl
  | start =>
    exfalso
    have ky := ekey_lt Ry.len
    have e1 : grank ⟨Rx, Kind.start⟩ = Rx.lo * 1024 + (512 + Rx.len) := rfl
    have e2 : grank ⟨Ry, Kind.stop⟩ = Ry.hi * 1024 + ekey Ry.len := rfl
    have : Rx.lo = Ry.hi := hip
    rw [e1, e2, this] at hlt
    omega

/-- among the start points emitted at one address the mask lengths do not fall back: the start
points of `F` there are strictly ascending, and a marker (which comes first) emits a range that
contains them -/
theorem valley_out {F : List Rng} (hF : RngWF F) (hW : RngMonoW F) {M : List GEv} (hM : MarkWF F M)
    {GO : List (GEv × Rng)}
    (hsorted : GO.Pairwise fun x y => grank x.1 < grank y.1)
    (hmem : ∀ gh ∈ GO, OutOK F M gh) :
    Valley (GO.map outPt) := by
  intro a b c hsub hab hbc hbstart hcstart hrise
  obtain ⟨l', hl', hmap⟩ := List.sublist_map_iff.1 hsub
  obtain ⟨ga, gb, gc, rfl⟩ : ∃ ga gb gc, l' = [ga, gb, gc] := by
    match l', hmap with
    | [x, y, z], _ => exact ⟨x, y, z, rfl⟩
  simp only [List.map_cons, List.map_nil, List.cons.injEq, and_true] at hmap
  obtain ⟨rfl, rfl, rfl⟩ := hmap
  have hpw := List.Pairwise.sublist hl' hsorted
  have hbc' := (List.pairwise_cons.1 (List.pairwise_cons.1 hpw).2).1 gc (by simp)
  clear hpw
  have hmb := hmem gb (hl'.subset (by simp))
  have hmc := hmem gc (hl'.subset (by simp))
  obtain ⟨ga1, Ha⟩ := ga
  obtain ⟨gb1, Hb⟩ := gb
  obtain ⟨gc1, Hc⟩ := gc
  simp only [outPt] at hab hbc hrise hbstart hcstart ⊢
  simp only at hbc'
  show Ha.len < Hc.len
  have hrise' : Ha.len < Hb.len := hrise
  have hdB : IsHead F (grank gb1) Hb := hmb.1
  have hdC : IsHead F (grank gc1) Hc := hmc.1
  have hHbF : Hb ∈ F := hdB.1.1
  have hHcF : Hc ∈ F := hdC.1.1
  obtain ⟨bb1, bb2, bb3⟩ := hF.bounds Hb hHbF
  obtain ⟨bc1, bc2, bc3⟩ := hF.bounds Hc hHcF
  rcases hmb.cases hM with ⟨Rb, rfl, hRbF, hRbtop⟩ | ⟨rfl, _⟩ | ⟨Ub, rfl, hbM, hUblo, hUblen⟩
  · cases hbstart
  · -- b is the start event of `Hb`
    have eb : grank ⟨Hb, Kind.start⟩ = Hb.lo * 1024 + (512 + Hb.len) := rfl
    rw [eb] at hbc'
    have hipc : Hb.lo = gc1.pt.ip := hbc
    rcases hmc.cases hM with ⟨Rc, rfl, hRcF, hRctop⟩ | ⟨rfl, _⟩ | ⟨Uc, rfl, hcM, hUclo, hUclen⟩
    · cases hcstart
    · have ec : grank ⟨Hc, Kind.start⟩ = Hc.lo * 1024 + (512 + Hc.len) := rfl
      have : Hb.lo = Hc.lo := hipc
      rw [ec] at hbc'; omega
    · exfalso
      have ec := hM.grank hcM
      have : Hb.lo = Uc.lo := hipc
      rw [ec, ← hUclo] at hbc'; omega
  · -- b is a marker
    have eb := hM.grank hbM
    rw [eb] at hbc'
    have hipc : Ub.lo = gc1.pt.ip := hbc
    rcases hmc.cases hM with ⟨Rc, rfl, hRcF, hRctop⟩ | ⟨rfl, _⟩ | ⟨Uc, rfl, hcM, hUclo, hUclen⟩
    · cases hcstart
    · -- c a start at `afterIPv4`: it lies inside the range that continues there
      have ec : grank ⟨Hc, Kind.start⟩ = Hc.lo * 1024 + (512 + Hc.len) := rfl
      have hlo : Ub.lo = Hc.lo := hipc
      have hopenc : IsOpen F (grank ⟨Hc, Kind.start⟩) Hb := by
        obtain ⟨h1, h2, h3⟩ := hdB.1
        rw [eb] at h2 h3
        rw [ec] at hbc' ⊢
        refine ⟨h1, Nat.le_of_lt (Nat.lt_of_le_of_lt h2 hbc'), ?_⟩
        rcases h3 with h3 | h3
        · exact Or.inl h3
        · right
          unfold erank at h3 ⊢
          rw [← hUblo, hlo] at h3
          have h4 : Hc.lo < Hb.hi :=
            addr_lt_of_rank' h3 (Nat.le_of_lt (ekey_lt _))
          exact rank_start_lt h4 bc3
      have hsubc := hdC.2 Hb hopenc
      rcases mono_or hHbF (show Hc.sub Hb from ⟨hsubc.1, hsubc.2⟩) with hle | hexc'
      · omega
      · exfalso
        exact hM.alone _ hbM Hc hHcF ⟨by rw [← hlo, hUblo], hW.len0 Hc hHcF hexc'⟩
    · exfalso
      have ec := hM.grank hcM
      rw [ec] at hbc'; omega

/-- the sweep output, annotated: for every event the range on top of the stack afterwards -/
theorem sweep_out {F : List Rng} (hF : RngWF F) (hN : NoResume F) {M : List GEv} (hM : MarkWF F M)
    {GE : List GEv} (hcut : Cut F M 0 GE) :
    ∃ GO : List (GEv × Rng), GO.map Prod.fst = GE ∧
      sweep (GE.map GEv.pt) [] = some (GO.map outPt) ∧
      (GO.Pairwise fun x y => grank x.1 < grank y.1) ∧
      ∀ gh ∈ GO, OutOK F M gh := by
  obtain ⟨hs, hlen, hsw, hall⟩ := sweep_ghost hF hN hM GE 0 [] hcut (cut_zero_inv F)
  have hfst : (GE.zip hs).map Prod.fst = GE := List.map_fst_zip (by omega)
  refine ⟨GE.zip hs, hfst, hsw, ?_, ?_⟩
  · have := hcut.sorted
    rw [← hfst, List.pairwise_map] at this
    exact this
  · intro gh hgh
    have hg : gh.1 ∈ GE := (List.of_mem_zip (a := gh.1) (b := gh.2) hgh).1
    refine ⟨(hall gh hgh).1, ?_⟩
    rcases (hcut.sound gh.1 hg).2 with ⟨h1, h2⟩ | h
    · exact Or.inl ⟨h1, (hall gh hgh).2 h1, h2⟩
    · exact Or.inr h

/-- facts about every emitted point -/
theorem outPt_facts {F : List Rng} (hF : RngWF F) {M : List GEv} (hM : MarkWF F M) {gh : GEv × Rng}
    (h : OutOK F M gh) :
    (outPt gh).ip < TOP ∧ (outPt gh).maskLen ≤ 128 ∧ ((outPt gh).loc = none → (outPt gh).maskLen = 0) ∧
      ∃ R ∈ F, (outPt gh).loc = R.loc ∧ (outPt gh).maskLen = R.len := by
  obtain ⟨g, H⟩ := gh
  have hHF : H ∈ F := h.1.1.1
  refine ⟨?_, (hF.bounds H hHF).2.2, hF.null_len H hHF, H, hHF, rfl, rfl⟩
  rcases h.cases hM with ⟨R, rfl, hRF, hRtop⟩ | ⟨rfl, hRF⟩ | ⟨U, rfl, _, hlo, _⟩
  · obtain ⟨b1, b2, b3⟩ := hF.bounds R hRF
    show R.hi < TOP
    omega
  · obtain ⟨b1, b2, b3⟩ := hF.bounds H hRF
    show H.lo < TOP
    omega
  · show U.lo < TOP
    rw [hlo]
    exact Nat.pow_lt_pow_right (by decide) (by decide)

/-- **rangepoint_keys_distinct**: the squashed table is strictly sorted by database key -/
theorem table_sorted {F : List Rng} (hF : RngWF F) (hW : RngMonoW F) {M : List GEv} (hM : MarkWF F M)
    {GO : List (GEv × Rng)}
    (hsorted : GO.Pairwise fun x y => grank x.1 < grank y.1)
    (hmem : ∀ gh ∈ GO, OutOK F M gh) :
    (squash [] (GO.map outPt)).Pairwise fun u v => keyLt (pkey u) (pkey v) = true := by
  have hip : (GO.map outPt).Pairwise fun a b => a.ip ≤ b.ip := by
    rw [List.pairwise_map]
    refine List.Pairwise.imp_of_mem ?_ hsorted
    intro x y hx hy hlt
    have h1 := outPt_ip_le ((hmem x hx).len_le hF hM)
    have h2 := outPt_ip_le ((hmem y hy).len_le hF hM)
    show x.1.pt.ip ≤ y.1.pt.ip
    exact ip_le_of_rank h1.1 (Nat.le_of_lt hlt) h2.2
  have hval := valley_out hF hW hM hsorted hmem
  have hks := squash_keySorted _ hip hval (stopsFirst_out hF hM hsorted hmem)
  have hfacts : ∀ p ∈ squash [] (GO.map outPt), (p.loc = none → p.maskLen = 0) ∧ p.maskLen < 256 := by
    intro p hp
    have hp' : p ∈ GO.map outPt := (squash_sublist _).subset hp
    obtain ⟨gh, hgh, rfl⟩ := List.mem_map.1 hp'
    have := outPt_facts hF hM (hmem gh hgh)
    exact ⟨this.2.2.1, by omega⟩
  refine List.Pairwise.imp_of_mem ?_ hks
  intro u v hu hv huv
  rw [keyLt_of_ip_maskLen (hfacts u hu).1 (hfacts v hv).1 (hfacts u hu).2 (hfacts v hv).2]
  exact decide_eq_true huv


/-- an event after the cut of the lookup key is at a later address, or a start at `a` longer than `req` -/
theorem after_krank {F : List Rng} (hF : RngWF F) {M : List GEv} (hM : MarkWF F M) {gh : GEv × Rng}
    {a req : Nat} (hreq : req < 256) (h : OutOK F M gh) (hk : krank a req < grank gh.1) :
    a < (outPt gh).ip ∨
      ((outPt gh).ip = a ∧ req < (outPt gh).maskLen ∧ (outPt gh).kind = .start) := by
  obtain ⟨g, H⟩ := gh
  rcases h.cases hM with ⟨R, rfl, hRF, hRtop⟩ | ⟨rfl, hRF⟩ | ⟨U, rfl, hm, hlo, hlen⟩
  · obtain ⟨b1, b2, b3⟩ := hF.bounds R hRF
    have e : grank ⟨R, Kind.stop⟩ = R.hi * 1024 + ekey R.len := rfl
    rw [e] at hk
    unfold krank at hk
    left
    show a < R.hi
    exact addr_lt_of_rank' hk
      (Nat.le_trans (Nat.le_of_lt (ekey_lt _)) (Nat.le_add_right _ _))
  · obtain ⟨b1, b2, b3⟩ := hF.bounds H hRF
    have e : grank ⟨H, Kind.start⟩ = H.lo * 1024 + (512 + H.len) := rfl
    rw [e] at hk
    unfold krank at hk
    show a < H.lo ∨ (H.lo = a ∧ req < H.len ∧ Kind.start = Kind.start)
    have hle : a ≤ H.lo := addr_lt_of_rank hk (by omega)
    rcases Nat.lt_or_eq_of_le hle with h | h
    · exact Or.inl h
    · right
      rw [h] at hk
      exact ⟨h.symm, by omega, rfl⟩
  · have e := hM.grank hm
    rw [e] at hk
    unfold krank at hk
    left
    show a < U.lo
    rw [hlo]
    exact addr_lt_of_rank' hk (Nat.le_add_right _ _)

/-- **the lookup theorem, abstract form**: the predecessor of `(a, req)` in the squashed table
carries mask length and location of the innermost range containing `a` that is no longer than `req` -/
theorem sweep_lookup {F : List Rng} (hF : RngWF F) (hW : RngMonoW F) {M : List GEv} (hM : MarkWF F M)
    {GO : List (GEv × Rng)}
    (hsorted : GO.Pairwise fun x y => grank x.1 < grank y.1)
    (hmem : ∀ gh ∈ GO, OutOK F M gh)
    (hall : ∀ R ∈ F, (⟨R, .start⟩ : GEv) ∈ GO.map Prod.fst ∧
      (R.hi ≠ TOP → (⟨R, .stop⟩ : GEv) ∈ GO.map Prod.fst))
    {a req : Nat} (ha : a < TOP) (hreq : req < 256)
    (hA : ∀ R ∈ F, R.lo < a → a < R.hi → R.len ≤ req) :
    ∃ H, Inner F a req H ∧ lookupRes (squash [] (GO.map outPt)) a req = (H.loc, H.len) ∧
      (lookup (squash [] (GO.map outPt)) a req).isSome = true := by
  obtain ⟨R0, hR0F, hR0lo, hR0hi, hR0len⟩ := hF.base
  -- the first event is not after the cut
  obtain ⟨x0, hx0, hx0e⟩ := List.mem_map.1 (hall R0 hR0F).1
  have hne : GO ≠ [] := fun h => by rw [h] at hx0; cases hx0
  have hhead : ∀ x, GO.head? = some x → grank x.1 ≤ krank a req := by
    intro x hx
    have hs0 : srank R0 ≤ krank a req := by unfold srank krank; omega
    have hx0r : grank x0.1 = srank R0 := by rw [hx0e]; rfl
    cases GO with
    | nil => cases hx
    | cons y ys =>
      cases hx
      rcases List.mem_cons.1 hx0 with h | h
      · rw [← h]; omega
      · have := (List.pairwise_cons.1 hsorted).1 x0 h
        omega
  obtain ⟨pre, x, post, hGO, hxk, hpre, hpost⟩ :=
    split_at_threshold (fun gh : GEv × Rng => grank gh.1) (krank a req) GO hsorted hhead hne
  have hxmem : x ∈ GO := by rw [hGO]; simp
  have hxf := hmem x hxmem
  -- no event of F lies between x and the cut
  have hwhere : ∀ g : GEv, g ∈ GO.map Prod.fst → grank g ≤ grank x.1 ∨ krank a req < grank g := by
    intro g hg
    obtain ⟨y, hy, rfl⟩ := List.mem_map.1 hg
    rw [hGO] at hy
    rcases List.mem_append.1 hy with h | h
    · exact Or.inl (Nat.le_of_lt (hpre y h))
    · rcases List.mem_cons.1 h with h | h
      · rw [h]; exact Or.inl (Nat.le_refl _)
      · exact Or.inr (hpost y h)
  have hHead : IsHead F (krank a req) x.2 := by
    refine isHead_of_no_event ?_ ?_ hxf.1
    · intro R hR
      constructor
      · intro h; exact Nat.le_trans h hxk
      · intro h
        rcases hwhere _ (hall R hR).1 with h' | h'
        · exact h'
        · rw [grank_start] at h'; omega
    · intro R hR hTop
      constructor
      · intro h
        rcases hwhere _ ((hall R hR).2 hTop) with h' | h'
        · rw [grank_stop] at h'; omega
        · rwa [grank_stop] at h'
      · intro h; omega
  have hInner := inner_of_isHead hF ha hreq hA hHead
  refine ⟨x.2, hInner, ?_⟩
  -- the point emitted for x
  have hpf := outPt_facts hF hM hxf
  have hpip : (outPt x).ip ≤ a := by
    have := outPt_ip_le (hxf.len_le hF hM)
    unfold krank at hxk
    show x.1.pt.ip ≤ a
    have h512 : 512 + req < 1024 := by omega
    exact ip_le_of_rank this.1 hxk (Nat.add_lt_add_left h512 _)
  have hpml : (outPt x).maskLen ≤ req := hInner.2.2.2.1
  -- it is not replaced by its successor
  have hnorep : ∀ q, (post.map outPt).head? = some q → ¬ sqRep (outPt x) q := by
    intro q hq
    cases post with
    | nil => cases hq
    | cons y ys =>
      simp only [List.map_cons, List.head?_cons, Option.some.injEq] at hq
      subst hq
      have hy : y ∈ GO := by rw [hGO]; simp
      have := after_krank hF hM hreq (hmem y hy) (hpost y List.mem_cons_self)
      rintro ⟨h1, h2⟩
      rcases this with h | ⟨h3, h4, h5⟩
      · omega
      · rcases h2 with h2 | h2
        · omega
        · rw [h5] at h2; cases h2
  have hO : GO.map outPt = pre.map outPt ++ outPt x :: post.map outPt := by
    rw [hGO, List.map_append, List.map_cons]
  obtain ⟨T1, hT1⟩ := squash_snoc_last (pre.map outPt) (outPt x)
  have hT : squash [] (GO.map outPt) = T1 ++ outPt x :: squash [] (post.map outPt) := by
    rw [hO, squash_split _ _ _ hnorep, hT1, List.append_assoc]; rfl
  have hsortedT := table_sorted hF hW hM hsorted hmem
  have hlk : lookup (squash [] (GO.map outPt)) a req = some (outPt x) := by
    rw [hT] at hsortedT ⊢
    apply lookup_sorted_split _ _ _ _ _ hsortedT
    · rw [pkey_eq hpf.2.2.1 (by omega)]
      unfold keyLe keyLt
      simp only [Bool.not_eq_true', decide_eq_false_iff_not]
      omega
    · intro q hq
      rcases squash_mem hq with h | h
      · cases h
      · obtain ⟨y, hy, rfl⟩ := List.mem_map.1 h
        have hyG : y ∈ GO := by rw [hGO]; simp [hy]
        have hqf := outPt_facts hF hM (hmem y hyG)
        have := after_krank hF hM hreq (hmem y hyG) (hpost y hy)
        rw [pkey_eq hqf.2.2.1 (by omega)]
        unfold keyLe keyLt
        simp only [Bool.not_eq_false', decide_eq_true_iff]
        omega
  refine ⟨?_, by rw [hlk]; rfl⟩
  unfold lookupRes
  rw [hlk]
  show ((outPt x).loc, (pkey (outPt x)).2) = _
  rw [pkey_eq hpf.2.2.1 (by omega)]
  rfl

end DnsVerif.Lpm
