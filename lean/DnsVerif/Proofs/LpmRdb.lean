/-
C03.4: from the sweep invariant to the lookup theorem. Part A (abstract): the predecessor of
`(a, req)` in the squashed table carries the innermost range that contains `a` and is no longer
than `req`. Part B (concrete): the events `AddLocation` / `Rearrange` generate for a well-formed
subnet list form such a family, and "innermost range" is `Spec.lpm`.
-/
import DnsVerif.Proofs.LpmSweep
import DnsVerif.Proofs.LpmSort

namespace DnsVerif.Lpm
open DnsVerif DnsVerif.Rearr DnsVerif.Spec

/-! ### Part A -/

/-- the innermost range of `F` that contains `a` and is no longer than `req` -/
def Inner (F : List Rng) (a req : Nat) (H : Rng) : Prop :=
  H ∈ F ∧ H.lo ≤ a ∧ a < H.hi ∧ H.len ≤ req ∧
    ∀ X ∈ F, X.lo ≤ a → a < X.hi → X.len ≤ req → X.lo ≤ H.lo ∧ H.hi ≤ X.hi

/-- the rank of the lookup key `(a, req)`, read as a start event -/
def krank (a req : Nat) : Nat := a * 1024 + (512 + req)

/-- splitting a strictly sorted list at a threshold that its head does not exceed -/
theorem split_at_threshold {α : Type} (f : α → Nat) (k : Nat) :
    ∀ (L : List α), L.Pairwise (fun x y => f x < f y) → (∀ x, L.head? = some x → f x ≤ k) → L ≠ [] →
      ∃ pre x post, L = pre ++ x :: post ∧ f x ≤ k ∧ (∀ y ∈ pre, f y < f x) ∧ (∀ y ∈ post, k < f y) := by
  intro L
  induction L with
  | nil => intro _ _ h; exact absurd rfl h
  | cons x xs ih =>
    intro hs hh _
    have hx : f x ≤ k := hh x rfl
    cases xs with
    | nil => exact ⟨[], x, [], rfl, hx, fun _ h => by simp at h, fun _ h => by simp at h⟩
    | cons y ys =>
      have hs' := (List.pairwise_cons.1 hs).2
      have hxy := (List.pairwise_cons.1 hs).1
      by_cases hy : f y ≤ k
      · obtain ⟨pre, z, post, heq, hz, hpre, hpost⟩ := ih hs' (fun w hw => by cases hw; exact hy) (by simp)
        refine ⟨x :: pre, z, post, by rw [heq]; rfl, hz, ?_, hpost⟩
        intro w hw
        rcases List.mem_cons.1 hw with h | h
        · rw [h]
          have : z ∈ y :: ys := by rw [heq]; simp
          exact hxy z this
        · exact hpre w h
      · refine ⟨[], x, y :: ys, rfl, hx, fun _ h => by simp at h, ?_⟩
        intro w hw
        rcases List.mem_cons.1 hw with h | h
        · rw [h]; omega
        · have := (List.pairwise_cons.1 hs').1 w h
          omega

/-- with the alignment hypothesis, "open at the cut of the lookup key" = "contains `a` and is no
longer than `req`" -/
theorem isOpen_krank {F : List Rng} (hF : RngWF F) {a req : Nat} (ha : a < TOP) (hreq : req < 256)
    (hA : ∀ R ∈ F, R.lo < a → a < R.hi → R.len ≤ req) (X : Rng) :
    IsOpen F (krank a req) X ↔ X ∈ F ∧ X.lo ≤ a ∧ a < X.hi ∧ X.len ≤ req := by
  unfold IsOpen krank srank erank
  constructor
  · rintro ⟨hXF, hs, he⟩
    obtain ⟨b1, b2, b3⟩ := hF.bounds X hXF
    have hhi : a < X.hi := by rcases he with h | h <;> omega
    refine ⟨hXF, by omega, hhi, ?_⟩
    by_cases hlo : X.lo < a
    · exact hA X hXF hlo hhi
    · omega
  · rintro ⟨hXF, hlo, hhi, hlen⟩
    obtain ⟨b1, b2, b3⟩ := hF.bounds X hXF
    refine ⟨hXF, by omega, ?_⟩
    right; omega

theorem inner_of_isHead {F : List Rng} (hF : RngWF F) {a req : Nat} (ha : a < TOP) (hreq : req < 256)
    (hA : ∀ R ∈ F, R.lo < a → a < R.hi → R.len ≤ req) {H : Rng}
    (hH : IsHead F (krank a req) H) : Inner F a req H := by
  obtain ⟨ho, hall⟩ := hH
  obtain ⟨h1, h2, h3, h4⟩ := (isOpen_krank hF ha hreq hA H).1 ho
  exact ⟨h1, h2, h3, h4, fun X hXF hlo hhi hlen =>
    hall X ((isOpen_krank hF ha hreq hA X).2 ⟨hXF, hlo, hhi, hlen⟩)⟩

/-- two cuts with no event of `F` between them see the same open ranges -/
theorem isHead_of_no_event {F : List Rng} {t t' : Nat} {H : Rng}
    (hs : ∀ R ∈ F, srank R ≤ t ↔ srank R ≤ t')
    (he : ∀ R ∈ F, R.hi ≠ TOP → (t < erank R ↔ t' < erank R))
    (hH : IsHead F t H) : IsHead F t' H := by
  have key : ∀ X, IsOpen F t X ↔ IsOpen F t' X := by
    intro X
    unfold IsOpen
    constructor
    · rintro ⟨hXF, h1, h2⟩
      refine ⟨hXF, (hs X hXF).1 h1, ?_⟩
      by_cases hTop : X.hi = TOP
      · exact Or.inl hTop
      · rcases h2 with h | h
        · exact absurd h hTop
        · exact Or.inr ((he X hXF hTop).1 h)
    · rintro ⟨hXF, h1, h2⟩
      refine ⟨hXF, (hs X hXF).2 h1, ?_⟩
      by_cases hTop : X.hi = TOP
      · exact Or.inl hTop
      · rcases h2 with h | h
        · exact absurd h hTop
        · exact Or.inr ((he X hXF hTop).2 h)
  exact ⟨(key H).1 hH.1, fun X hX => hH.2 X ((key X).2 hX)⟩

end DnsVerif.Lpm
