/-
C03.4: from the sweep invariant to the lookup theorem. Part A (abstract): the predecessor of
`(a, req)` in the squashed table carries the innermost range that contains `a` and is no longer
than `req`. Part B (concrete): the events `AddLocation` / `Rearrange` generate for a well-formed
subnet list form such a family, and "innermost range" is `Spec.lpm`.
-/
import DnsVerif.Proofs.LpmSweep
import DnsVerif.Proofs.LpmSort

namespace DnsVerif.Lpm
open DnsVerif DnsVerif.Rearr DnsVerif.Spec

/-! ### Part A -/

/-- the innermost range of `F` that contains `a` and is no longer than `req` -/
def Inner (F : List Rng) (a req : Nat) (H : Rng) : Prop :=
  H ∈ F ∧ H.lo ≤ a ∧ a < H.hi ∧ H.len ≤ req ∧
    ∀ X ∈ F, X.lo ≤ a → a < X.hi → X.len ≤ req → X.lo ≤ H.lo ∧ H.hi ≤ X.hi

/-- the rank of the lookup key `(a, req)`, read as a start event -/
def krank (a req : Nat) : Nat := a * 1024 + (512 + req)

/-- splitting a strictly sorted list at a threshold that its head does not exceed -/
theorem split_at_threshold {α : Type} (f : α → Nat) (k : Nat) :
    ∀ (L : List α), L.Pairwise (fun x y => f x < f y) → (∀ x, L.head? = some x → f x ≤ k) → L ≠ [] →
      ∃ pre x post, L = pre ++ x :: post ∧ f x ≤ k ∧ (∀ y ∈ pre, f y < f x) ∧ (∀ y ∈ post, k < f y) := by
  intro L
  induction L with
  | nil => intro _ _ h; exact absurd rfl h
  | cons x xs ih =>
    intro hs hh _
    have hx : f x ≤ k := hh x rfl
    cases xs with
    | nil => exact ⟨[], x, [], rfl, hx, fun _ h => by simp at h, fun _ h => by simp at h⟩
    | cons y ys =>
      have hs' := (List.pairwise_cons.1 hs).2
      have hxy := (List.pairwise_cons.1 hs).1
      by_cases hy : f y ≤ k
      · obtain ⟨pre, z, post, heq, hz, hpre, hpost⟩ := ih hs' (fun w hw => by cases hw; exact hy) (by simp)
        refine ⟨x :: pre, z, post, by rw [heq]; rfl, hz, ?_, hpost⟩
        intro w hw
        rcases List.mem_cons.1 hw with h | h
        · rw [h]
          have : z ∈ y :: ys := by rw [heq]; simp
          exact hxy z this
        · exact hpre w h
      · refine ⟨[], x, y :: ys, rfl, hx, fun _ h => by simp at h, ?_⟩
        intro w hw
        rcases List.mem_cons.1 hw with h | h
        · rw [h]; omega
        · have := (List.pairwise_cons.1 hs').1 w h
          omega

/-- with the alignment hypothesis, "open at the cut of the lookup key" = "contains `a` and is no
longer than `req`" -/
theorem isOpen_krank {F : List Rng} (hF : RngWF F) {a req : Nat} (ha : a < TOP) (hreq : req < 256)
    (hA : ∀ R ∈ F, R.lo < a → a < R.hi → R.len ≤ req) (X : Rng) :
    IsOpen F (krank a req) X ↔ X ∈ F ∧ X.lo ≤ a ∧ a < X.hi ∧ X.len ≤ req := by
  unfold IsOpen krank srank erank
  constructor
  · rintro ⟨hXF, hs, he⟩
    obtain ⟨b1, b2, b3⟩ := hF.bounds X hXF
    have hhi : a < X.hi := by rcases he with h | h <;> omega
    refine ⟨hXF, by omega, hhi, ?_⟩
    by_cases hlo : X.lo < a
    · exact hA X hXF hlo hhi
    · omega
  · rintro ⟨hXF, hlo, hhi, hlen⟩
    obtain ⟨b1, b2, b3⟩ := hF.bounds X hXF
    refine ⟨hXF, by omega, ?_⟩
    right; omega

theorem inner_of_isHead {F : List Rng} (hF : RngWF F) {a req : Nat} (ha : a < TOP) (hreq : req < 256)
    (hA : ∀ R ∈ F, R.lo < a → a < R.hi → R.len ≤ req) {H : Rng}
    (hH : IsHead F (krank a req) H) : Inner F a req H := by
  obtain ⟨ho, hall⟩ := hH
  obtain ⟨h1, h2, h3, h4⟩ := (isOpen_krank hF ha hreq hA H).1 ho
  exact ⟨h1, h2, h3, h4, fun X hXF hlo hhi hlen =>
    hall X ((isOpen_krank hF ha hreq hA X).2 ⟨hXF, hlo, hhi, hlen⟩)⟩

/-- two cuts with no event of `F` between them see the same open ranges -/
theorem isHead_of_no_event {F : List Rng} {t t' : Nat} {H : Rng}
    (hs : ∀ R ∈ F, srank R ≤ t ↔ srank R ≤ t')
    (he : ∀ R ∈ F, R.hi ≠ TOP → (t < erank R ↔ t' < erank R))
    (hH : IsHead F t H) : IsHead F t' H := by
  have key : ∀ X, IsOpen F t X ↔ IsOpen F t' X := by
    intro X
    unfold IsOpen
    constructor
    · rintro ⟨hXF, h1, h2⟩
      refine ⟨hXF, (hs X hXF).1 h1, ?_⟩
      by_cases hTop : X.hi = TOP
      · exact Or.inl hTop
      · rcases h2 with h | h
        · exact absurd h hTop
        · exact Or.inr ((he X hXF hTop).1 h)
    · rintro ⟨hXF, h1, h2⟩
      refine ⟨hXF, (hs X hXF).2 h1, ?_⟩
      by_cases hTop : X.hi = TOP
      · exact Or.inl hTop
      · rcases h2 with h | h
        · exact absurd h hTop
        · exact Or.inr ((he X hXF hTop).2 h)
  exact ⟨(key H).1 hH.1, fun X hX => hH.2 X ((key X).2 hX)⟩


/-- weak monotonicity: a range inside another one is at least as long -/
def RngMono (F : List Rng) : Prop := ∀ R ∈ F, ∀ R' ∈ F, R.sub R' → R'.len ≤ R.len

/-- an exception to monotonicity: a range that lies inside a strictly longer one (in the concrete
family: the implicit IPv4 null range — mask length 0 — inside a declared IPv6 block) -/
def IsExc (F : List Rng) (E : Rng) : Prop := ∃ R' ∈ F, E.sub R' ∧ E.len < R'.len

/-- monotonicity up to harmless exceptions: an exception has mask length 0, no other range that
contains it ends where it ends, the ranges that start where it ends have positive mask length, and
exceptions are not nested -/
structure RngMonoW (F : List Rng) : Prop where
  len0 : ∀ E ∈ F, IsExc F E → E.len = 0
  top : ∀ E ∈ F, IsExc F E → ∀ X ∈ F, E.sub X → X.hi = E.hi → X = E
  next : ∀ E ∈ F, IsExc F E → ∀ X ∈ F, X.lo = E.hi → 0 < X.len
  uniq : ∀ E ∈ F, IsExc F E → ∀ E' ∈ F, IsExc F E' → E.sub E' → E = E'

theorem RngMono.toW {F : List Rng} (h : RngMono F) : RngMonoW F := by
  have no : ∀ E ∈ F, ¬ IsExc F E := by
    rintro E hE ⟨R', hR', hsub, hlt⟩
    have := h E hE R' hR' hsub
    omega
  exact ⟨fun E hE he => absurd he (no E hE), fun E hE he => absurd he (no E hE),
    fun E hE he => absurd he (no E hE), fun E hE he => absurd he (no E hE)⟩

theorem mono_or {F : List Rng} {R R' : Rng} (hR' : R' ∈ F) (hsub : R.sub R') :
    R'.len ≤ R.len ∨ IsExc F R := by
  by_cases h : R'.len ≤ R.len
  · exact Or.inl h
  · exact Or.inr ⟨R', hR', hsub, by omega⟩

theorem cut_zero_inv (F : List Rng) : Inv F 0 [] := by
  refine ⟨fun R => ⟨fun h => (by cases h), fun h => ?_⟩, List.Pairwise.nil⟩
  have := h.2.1
  unfold srank at this; omega

/-- what the sweep guarantees about an emitted point: it carries the innermost range open just after
its event; the event is a start or stop event of a range of `F` (a start emits its own range), or a
marker -/
def OutOK (F : List Rng) (M : List GEv) (gh : GEv × Rng) : Prop :=
  IsHead F (grank gh.1) gh.2 ∧
    ((gh.1.r ∈ F ∧ (gh.1.kind = .start → gh.2 = gh.1.r) ∧ (gh.1.kind = .stop → gh.1.r.hi ≠ TOP)) ∨
      gh.1 ∈ M)

/-- the three kinds of emitted points -/
theorem OutOK.cases {F : List Rng} {M : List GEv} (hM : MarkWF F M) {g : GEv} {H : Rng}
    (h : OutOK F M (g, H)) :
    (∃ R, g = ⟨R, .stop⟩ ∧ R ∈ F ∧ R.hi ≠ TOP) ∨ (g = ⟨H, .start⟩ ∧ H ∈ F) ∨
    (∃ U, g = ⟨U, .start⟩ ∧ g ∈ M ∧ U.lo = afterIPv4 ∧ U.len = 0) := by
  obtain ⟨_, ⟨hRF, hst, hsp⟩ | hm⟩ := h
  · obtain ⟨R, k⟩ := g
    cases k with
    | start =>
      have : H = R := hst rfl
      subst this
      exact Or.inr (Or.inl ⟨rfl, hRF⟩)
    | stop => exact Or.inl ⟨R, rfl, hRF, hsp rfl⟩
  · have h1 := hM.kind g hm
    have h2 := hM.lo g hm
    have h3 := hM.len g hm
    obtain ⟨U, k⟩ := g
    simp only at h1 h2 h3
    subst h1
    exact Or.inr (Or.inr ⟨U, rfl, hm, h2, h3⟩)

theorem OutOK.len_le {F : List Rng} {M : List GEv} (hF : RngWF F) (hM : MarkWF F M) {gh : GEv × Rng}
    (h : OutOK F M gh) : gh.1.r.len ≤ 128 := by
  obtain ⟨_, ⟨hRF, _, _⟩ | hm⟩ := h
  · exact (hF.bounds _ hRF).2.2
  · rw [hM.len _ hm]; exact Nat.zero_le _

theorem outPt_ip_le {g : GEv} (hg : g.r.len ≤ 128) :
    g.pt.ip * 1024 ≤ grank g ∧ grank g < g.pt.ip * 1024 + 1024 := by
  obtain ⟨R, k⟩ := g
  cases k <;> simp only [grank, rank, GEv.pt] <;> simp only at hg <;> omega

/-- comparing ranks compares addresses (the in-address part of a rank is below 1024); stated
separately because `omega` does not cope well with these multiples of 1024 -/
theorem rank_lt_of_addr {a b x y : Nat} (h : a < b) (hx : x < 1024 + y) :
    a * 1024 + x < b * 1024 + y := by
  have h5 : (a + 1) * 1024 ≤ b * 1024 := Nat.mul_le_mul_right 1024 h
  rw [Nat.add_mul, Nat.one_mul] at h5
  calc a * 1024 + x < a * 1024 + (1024 + y) := Nat.add_lt_add_left hx _
    _ = a * 1024 + 1024 + y := (Nat.add_assoc _ _ _).symm
    _ ≤ b * 1024 + y := Nat.add_le_add_right h5 _

theorem ip_le_of_rank {a b r r' : Nat} (h1 : a * 1024 ≤ r) (h : r ≤ r') (h2 : r' < b * 1024 + 1024) :
    a ≤ b := by
  have : a * 1024 < (b + 1) * 1024 := by
    rw [Nat.add_mul, Nat.one_mul]
    exact Nat.lt_of_le_of_lt (Nat.le_trans h1 h) h2
  exact Nat.le_of_lt_succ (Nat.lt_of_mul_lt_mul_right this)

theorem rank_start_lt {a b l y : Nat} (h : a < b) (hl : l ≤ 128) :
    a * 1024 + (512 + l) < b * 1024 + y := rank_lt_of_addr h (by omega)

theorem addr_lt_of_rank' {a b x y : Nat} (h : a * 1024 + x < b * 1024 + y) (hy : y ≤ x) : a < b := by
  have h1 : a * 1024 + x < b * 1024 + x := Nat.lt_of_lt_of_le h (Nat.add_le_add_left hy _)
  exact Nat.lt_of_mul_lt_mul_right (Nat.lt_of_add_lt_add_right h1)

theorem addr_lt_of_rank {a b x y : Nat} (h : a * 1024 + x < b * 1024 + y) (hy : y < 1024 + x) :
    a ≤ b := by
  refine Nat.le_of_not_lt fun hlt => ?_
  exact Nat.lt_asymm h (rank_lt_of_addr hlt hy)

/-- a range that started before address `ip` and is not stopped by an event at `ip` or later is open at
every cut at address `ip` that precedes that event -/
theorem isOpen_of_ranks {F : List Rng} {X : Rng} (hXF : X ∈ F) {t : Nat} (hs : srank X ≤ t)
    (he : X.hi = TOP ∨ t < erank X) : IsOpen F t X := ⟨hXF, hs, he⟩

/-- the points emitted at one address form a valley: descending while stops pop outwards, then
ascending with the starts -/
theorem valley_out {F : List Rng} (hF : RngWF F) (hW : RngMonoW F) {M : List GEv} (hM : MarkWF F M)
    {GO : List (GEv × Rng)}
    (hsorted : GO.Pairwise fun x y => grank x.1 < grank y.1)
    (hmem : ∀ gh ∈ GO, OutOK F M gh) :
    Valley (GO.map outPt) := by
  intro a b c hsub hab hbc hrise
  obtain ⟨l', hl', hmap⟩ := List.sublist_map_iff.1 hsub
  obtain ⟨ga, gb, gc, rfl⟩ : ∃ ga gb gc, l' = [ga, gb, gc] := by
    match l', hmap with
    | [x, y, z], _ => exact ⟨x, y, z, rfl⟩
  simp only [List.map_cons, List.map_nil, List.cons.injEq, and_true] at hmap
  obtain ⟨rfl, rfl, rfl⟩ := hmap
  have hpw := List.Pairwise.sublist hl' hsorted
  have hab' := (List.pairwise_cons.1 hpw).1 gb (by simp)
  have hac' := (List.pairwise_cons.1 hpw).1 gc (by simp)
  have hbc' := (List.pairwise_cons.1 (List.pairwise_cons.1 hpw).2).1 gc (by simp)
  clear hpw
  have hma := hmem ga (hl'.subset (by simp))
  have hmb := hmem gb (hl'.subset (by simp))
  have hmc := hmem gc (hl'.subset (by simp))
  obtain ⟨ga1, Ha⟩ := ga
  obtain ⟨gb1, Hb⟩ := gb
  obtain ⟨gc1, Hc⟩ := gc
  simp only [outPt] at hab hbc hrise ⊢
  simp only at hab' hbc' hac'
  show Ha.len < Hc.len
  have hrise' : Ha.len < Hb.len := hrise
  have hia := outPt_ip_le (hma.len_le hF hM)
  simp only at hia
  have hdA : IsHead F (grank ga1) Ha := hma.1
  have hdB : IsHead F (grank gb1) Hb := hmb.1
  have hdC : IsHead F (grank gc1) Hc := hmc.1
  have hHaF : Ha ∈ F := hdA.1.1
  have hHbF : Hb ∈ F := hdB.1.1
  have hHcF : Hc ∈ F := hdC.1.1
  obtain ⟨ba1, ba2, ba3⟩ := hF.bounds Ha hHaF
  obtain ⟨bb1, bb2, bb3⟩ := hF.bounds Hb hHbF
  obtain ⟨bc1, bc2, bc3⟩ := hF.bounds Hc hHcF
  rcases hmb.cases hM with ⟨Rb, rfl, hRbF, hRbtop⟩ | ⟨rfl, _⟩ | ⟨Ub, rfl, hbM, hUblo, hUblen⟩
  · -- b is a stop event
    obtain ⟨rb1, rb2, rb3⟩ := hF.bounds Rb hRbF
    have eb : grank ⟨Rb, Kind.stop⟩ = Rb.hi * 1024 + (255 - Rb.len) := rfl
    have hipa : ga1.pt.ip = Rb.hi := hab
    have hipc : Rb.hi = gc1.pt.ip := hbc
    rw [hipa] at hia
    rw [eb] at hab' hbc'
    -- `Hb` and `Rb` are open at a's cut, so `Ha` lies inside them
    have hopenHb : IsOpen F (grank ga1) Hb := by
      obtain ⟨h1, h2, h3⟩ := hdB.1
      rw [eb] at h2 h3
      refine ⟨h1, ?_, ?_⟩
      · unfold srank at h2 ⊢; omega
      · rcases h3 with h3 | h3
        · exact Or.inl h3
        · exact Or.inr (by omega)
    have hsubHb := hdA.2 Hb hopenHb
    rcases mono_or hHbF (show Ha.sub Hb from ⟨hsubHb.1, hsubHb.2⟩) with hle | hexc
    · omega
    -- `Ha` is an exception: `b` is its own stop event
    have hopenAt : ∀ X ∈ F, X.hi = Rb.hi → grank ga1 < erank X → IsOpen F (grank ga1) X := by
      intro X hXF hXhi hlt
      obtain ⟨x1, x2, x3⟩ := hF.bounds X hXF
      refine ⟨hXF, ?_, Or.inr hlt⟩
      unfold srank; omega
    have hHahi : Ha.hi = Rb.hi := by
      have h1 := (hdA.2 Rb (hopenAt Rb hRbF rfl (by unfold erank; omega))).2
      have h2 : Ha.hi = TOP ∨ grank ga1 < erank Ha := hdA.1.2.2
      unfold erank at h2
      rcases h2 with h2 | h2 <;> omega
    have hRbHa : Rb = Ha :=
      hW.top Ha hHaF hexc Rb hRbF (hdA.2 Rb (hopenAt Rb hRbF rfl (by unfold erank; omega)))
        hHahi.symm
    subst hRbHa
    have hlen0 := hW.len0 Rb hHaF hexc
    have hHbhi : Rb.hi < Hb.hi := by
      have : Hb.hi ≠ Rb.hi := fun e => by
        have := hW.top Rb hHaF hexc Hb hHbF ⟨hsubHb.1, hsubHb.2⟩ e
        rw [this] at hrise'; omega
      have := hsubHb.2
      omega
    rcases hmc.cases hM with ⟨Rc, rfl, hRcF, hRctop⟩ | ⟨rfl, _⟩ | ⟨Uc, rfl, hcM, hUclo, hUclen⟩
    · -- c a stop at the same address: it would be the stop of `Ha` again
      exfalso
      obtain ⟨rc1, rc2, rc3⟩ := hF.bounds Rc hRcF
      have ec : grank ⟨Rc, Kind.stop⟩ = Rc.hi * 1024 + (255 - Rc.len) := rfl
      have hipc' : Rb.hi = Rc.hi := hipc
      rw [ec] at hbc' hac'
      have hopenRc := hopenAt Rc hRcF hipc'.symm (by unfold erank; omega)
      have := hW.top Rb hHaF hexc Rc hRcF (hdA.2 Rc hopenRc) hipc'.symm
      rw [this] at hbc'; omega
    · -- c a start where the exception ends
      have hipc' : Rb.hi = Hc.lo := hipc
      have := hW.next Rb hHaF hexc Hc hHcF hipc'.symm
      omega
    · -- c a marker: `Hb` is still open there
      have ec := hM.grank hcM
      have hipc' : Rb.hi = Uc.lo := hipc
      rw [ec] at hbc' hac'
      have hopenc : IsOpen F (grank ⟨Uc, Kind.start⟩) Hb := by
        obtain ⟨h1, h2, h3⟩ := hdB.1
        rw [eb] at h2
        rw [ec]
        refine ⟨h1, Nat.le_of_lt (Nat.lt_of_le_of_lt h2 hbc'), ?_⟩
        by_cases hTop : Hb.hi = TOP
        · exact Or.inl hTop
        · right; unfold erank; rw [← hUclo, ← hipc']
          exact rank_lt_of_addr hHbhi (Nat.lt_of_lt_of_le (by decide : 512 < 1024) (Nat.le_add_right _ _))
      have hsubc := hdC.2 Hb hopenc
      rcases mono_or hHbF (show Hc.sub Hb from ⟨hsubc.1, hsubc.2⟩) with hle | hexc'
      · omega
      · exfalso
        -- `Hc` is open at a's cut as well, so the exception `Ha` lies inside the exception `Hc`
        obtain ⟨_, h2, h3⟩ := hdC.1
        rw [ec] at h2 h3
        have hclo : Hc.lo < Rb.hi := by
          refine Nat.lt_of_le_of_ne ?_ fun e => ?_
          · unfold srank at h2; rw [← hUclo, ← hipc'] at h2; omega
          · have hl : Hc.len = 0 := by
              unfold srank at h2; rw [← hUclo, ← hipc', e] at h2; omega
            exact hM.alone _ hcM Hc hHcF ⟨by rw [e, hipc', hUclo], hl⟩
        have hopena : IsOpen F (grank ga1) Hc := by
          refine ⟨hHcF, by unfold srank; omega, ?_⟩
          rcases h3 with h3 | h3
          · exact Or.inl h3
          · exact Or.inr (by omega)
        have := hW.uniq Rb hHaF hexc Hc hHcF hexc' (hdA.2 Hc hopena)
        rw [← this] at h3
        unfold erank at h3
        rw [← hUclo, ← hipc'] at h3
        rcases h3 with h3 | h3 <;> omega
  · -- b is the start event of `Hb`
    have eb : grank ⟨Hb, Kind.start⟩ = Hb.lo * 1024 + (512 + Hb.len) := rfl
    rw [eb] at hbc'
    have hipc : Hb.lo = gc1.pt.ip := hbc
    rcases hmc.cases hM with ⟨Rc, rfl, hRcF, hRctop⟩ | ⟨rfl, _⟩ | ⟨Uc, rfl, hcM, hUclo, hUclen⟩
    · exfalso
      have ec : grank ⟨Rc, Kind.stop⟩ = Rc.hi * 1024 + (255 - Rc.len) := rfl
      have : Hb.lo = Rc.hi := hipc
      rw [ec] at hbc'; omega
    · have ec : grank ⟨Hc, Kind.start⟩ = Hc.lo * 1024 + (512 + Hc.len) := rfl
      have : Hb.lo = Hc.lo := hipc
      rw [ec] at hbc'; omega
    · exfalso
      have ec := hM.grank hcM
      have : Hb.lo = Uc.lo := hipc
      rw [ec, ← hUclo] at hbc'; omega
  · -- b is a marker
    have eb := hM.grank hbM
    rw [eb] at hbc'
    have hipc : Ub.lo = gc1.pt.ip := hbc
    rcases hmc.cases hM with ⟨Rc, rfl, hRcF, hRctop⟩ | ⟨rfl, _⟩ | ⟨Uc, rfl, hcM, hUclo, hUclen⟩
    · exfalso
      have ec : grank ⟨Rc, Kind.stop⟩ = Rc.hi * 1024 + (255 - Rc.len) := rfl
      have : Ub.lo = Rc.hi := hipc
      rw [ec, ← hUblo] at hbc'; omega
    · -- c a start at `afterIPv4`: it lies inside the range that continues there
      have ec : grank ⟨Hc, Kind.start⟩ = Hc.lo * 1024 + (512 + Hc.len) := rfl
      have hlo : Ub.lo = Hc.lo := hipc
      have hopenc : IsOpen F (grank ⟨Hc, Kind.start⟩) Hb := by
        obtain ⟨h1, h2, h3⟩ := hdB.1
        rw [eb] at h2 h3
        rw [ec] at hbc' ⊢
        refine ⟨h1, Nat.le_of_lt (Nat.lt_of_le_of_lt h2 hbc'), ?_⟩
        rcases h3 with h3 | h3
        · exact Or.inl h3
        · right
          unfold erank at h3 ⊢
          rw [← hUblo, hlo] at h3
          have h4 : Hc.lo < Hb.hi := addr_lt_of_rank' h3 (Nat.le_trans (Nat.sub_le _ _) (by decide))
          exact rank_start_lt h4 bc3
      have hsubc := hdC.2 Hb hopenc
      rcases mono_or hHbF (show Hc.sub Hb from ⟨hsubc.1, hsubc.2⟩) with hle | hexc'
      · omega
      · exfalso
        exact hM.alone _ hbM Hc hHcF ⟨by rw [← hlo, hUblo], hW.len0 Hc hHcF hexc'⟩
    · exfalso
      have ec := hM.grank hcM
      rw [ec] at hbc'; omega


/-- the sweep output, annotated: for every event the range on top of the stack afterwards -/
theorem sweep_out {F : List Rng} (hF : RngWF F) (hN : NoResume F) {M : List GEv} (hM : MarkWF F M)
    {GE : List GEv} (hcut : Cut F M 0 GE) :
    ∃ GO : List (GEv × Rng), GO.map Prod.fst = GE ∧
      sweep (GE.map GEv.pt) [] = some (GO.map outPt) ∧
      (GO.Pairwise fun x y => grank x.1 < grank y.1) ∧
      ∀ gh ∈ GO, OutOK F M gh := by
  obtain ⟨hs, hlen, hsw, hall⟩ := sweep_ghost hF hN hM GE 0 [] hcut (cut_zero_inv F)
  have hfst : (GE.zip hs).map Prod.fst = GE := List.map_fst_zip (by omega)
  refine ⟨GE.zip hs, hfst, hsw, ?_, ?_⟩
  · have := hcut.sorted
    rw [← hfst, List.pairwise_map] at this
    exact this
  · intro gh hgh
    have hg : gh.1 ∈ GE := (List.of_mem_zip (a := gh.1) (b := gh.2) hgh).1
    refine ⟨(hall gh hgh).1, ?_⟩
    rcases (hcut.sound gh.1 hg).2 with ⟨h1, h2⟩ | h
    · exact Or.inl ⟨h1, (hall gh hgh).2 h1, h2⟩
    · exact Or.inr h

/-- facts about every emitted point -/
theorem outPt_facts {F : List Rng} (hF : RngWF F) {M : List GEv} (hM : MarkWF F M) {gh : GEv × Rng}
    (h : OutOK F M gh) :
    (outPt gh).ip < TOP ∧ (outPt gh).maskLen ≤ 128 ∧ ((outPt gh).loc = none → (outPt gh).maskLen = 0) ∧
      ∃ R ∈ F, (outPt gh).loc = R.loc ∧ (outPt gh).maskLen = R.len := by
  obtain ⟨g, H⟩ := gh
  have hHF : H ∈ F := h.1.1.1
  refine ⟨?_, (hF.bounds H hHF).2.2, hF.null_len H hHF, H, hHF, rfl, rfl⟩
  rcases h.cases hM with ⟨R, rfl, hRF, hRtop⟩ | ⟨rfl, hRF⟩ | ⟨U, rfl, _, hlo, _⟩
  · obtain ⟨b1, b2, b3⟩ := hF.bounds R hRF
    show R.hi < TOP
    omega
  · obtain ⟨b1, b2, b3⟩ := hF.bounds H hRF
    show H.lo < TOP
    omega
  · show U.lo < TOP
    rw [hlo]
    exact Nat.pow_lt_pow_right (by decide) (by decide)

/-- **rangepoint_keys_distinct**: the squashed table is strictly sorted by database key -/
theorem table_sorted {F : List Rng} (hF : RngWF F) (hW : RngMonoW F) {M : List GEv} (hM : MarkWF F M)
    {GO : List (GEv × Rng)}
    (hsorted : GO.Pairwise fun x y => grank x.1 < grank y.1)
    (hmem : ∀ gh ∈ GO, OutOK F M gh) :
    (squash [] (GO.map outPt)).Pairwise fun u v => keyLt (pkey u) (pkey v) = true := by
  have hip : (GO.map outPt).Pairwise fun a b => a.ip ≤ b.ip := by
    rw [List.pairwise_map]
    refine List.Pairwise.imp_of_mem ?_ hsorted
    intro x y hx hy hlt
    have h1 := outPt_ip_le ((hmem x hx).len_le hF hM)
    have h2 := outPt_ip_le ((hmem y hy).len_le hF hM)
    show x.1.pt.ip ≤ y.1.pt.ip
    exact ip_le_of_rank h1.1 (Nat.le_of_lt hlt) h2.2
  have hval := valley_out hF hW hM hsorted hmem
  have hks := squash_keySorted _ hip hval
  have hfacts : ∀ p ∈ squash [] (GO.map outPt), (p.loc = none → p.maskLen = 0) ∧ p.maskLen < 256 := by
    intro p hp
    have hp' : p ∈ GO.map outPt := (squash_sublist _).subset hp
    obtain ⟨gh, hgh, rfl⟩ := List.mem_map.1 hp'
    have := outPt_facts hF hM (hmem gh hgh)
    exact ⟨this.2.2.1, by omega⟩
  refine List.Pairwise.imp_of_mem ?_ hks
  intro u v hu hv huv
  rw [keyLt_of_ip_maskLen (hfacts u hu).1 (hfacts v hv).1 (hfacts u hu).2 (hfacts v hv).2]
  exact decide_eq_true huv


/-- an event after the cut of the lookup key is at a later address, or a start at `a` longer than `req` -/
theorem after_krank {F : List Rng} (hF : RngWF F) {M : List GEv} (hM : MarkWF F M) {gh : GEv × Rng}
    {a req : Nat} (hreq : req < 256) (h : OutOK F M gh) (hk : krank a req < grank gh.1) :
    a < (outPt gh).ip ∨ ((outPt gh).ip = a ∧ req < (outPt gh).maskLen) := by
  obtain ⟨g, H⟩ := gh
  rcases h.cases hM with ⟨R, rfl, hRF, hRtop⟩ | ⟨rfl, hRF⟩ | ⟨U, rfl, hm, hlo, hlen⟩
  · obtain ⟨b1, b2, b3⟩ := hF.bounds R hRF
    have e : grank ⟨R, Kind.stop⟩ = R.hi * 1024 + (255 - R.len) := rfl
    rw [e] at hk
    unfold krank at hk
    left
    show a < R.hi
    exact addr_lt_of_rank' hk (Nat.le_trans (Nat.sub_le _ _) (Nat.le_trans (by decide) (Nat.le_add_right _ _)))
  · obtain ⟨b1, b2, b3⟩ := hF.bounds H hRF
    have e : grank ⟨H, Kind.start⟩ = H.lo * 1024 + (512 + H.len) := rfl
    rw [e] at hk
    unfold krank at hk
    show a < H.lo ∨ (H.lo = a ∧ req < H.len)
    have hle : a ≤ H.lo := addr_lt_of_rank hk (by omega)
    rcases Nat.lt_or_eq_of_le hle with h | h
    · exact Or.inl h
    · right
      rw [h] at hk
      exact ⟨h.symm, by omega⟩
  · have e := hM.grank hm
    rw [e] at hk
    unfold krank at hk
    left
    show a < U.lo
    rw [hlo]
    exact addr_lt_of_rank' hk (Nat.le_add_right _ _)

/-- **the lookup theorem, abstract form**: the predecessor of `(a, req)` in the squashed table
carries mask length and location of the innermost range containing `a` that is no longer than `req` -/
theorem sweep_lookup {F : List Rng} (hF : RngWF F) (hW : RngMonoW F) {M : List GEv} (hM : MarkWF F M)
    {GO : List (GEv × Rng)}
    (hsorted : GO.Pairwise fun x y => grank x.1 < grank y.1)
    (hmem : ∀ gh ∈ GO, OutOK F M gh)
    (hall : ∀ R ∈ F, (⟨R, .start⟩ : GEv) ∈ GO.map Prod.fst ∧
      (R.hi ≠ TOP → (⟨R, .stop⟩ : GEv) ∈ GO.map Prod.fst))
    {a req : Nat} (ha : a < TOP) (hreq : req < 256)
    (hA : ∀ R ∈ F, R.lo < a → a < R.hi → R.len ≤ req) :
    ∃ H, Inner F a req H ∧ lookupRes (squash [] (GO.map outPt)) a req = (H.loc, H.len) ∧
      (lookup (squash [] (GO.map outPt)) a req).isSome = true := by
  obtain ⟨R0, hR0F, hR0lo, hR0hi, hR0len⟩ := hF.base
  -- the first event is not after the cut
  obtain ⟨x0, hx0, hx0e⟩ := List.mem_map.1 (hall R0 hR0F).1
  have hne : GO ≠ [] := fun h => by rw [h] at hx0; cases hx0
  have hhead : ∀ x, GO.head? = some x → grank x.1 ≤ krank a req := by
    intro x hx
    have hs0 : srank R0 ≤ krank a req := by unfold srank krank; omega
    have hx0r : grank x0.1 = srank R0 := by rw [hx0e]; rfl
    cases GO with
    | nil => cases hx
    | cons y ys =>
      cases hx
      rcases List.mem_cons.1 hx0 with h | h
      · rw [← h]; omega
      · have := (List.pairwise_cons.1 hsorted).1 x0 h
        omega
  obtain ⟨pre, x, post, hGO, hxk, hpre, hpost⟩ :=
    split_at_threshold (fun gh : GEv × Rng => grank gh.1) (krank a req) GO hsorted hhead hne
  have hxmem : x ∈ GO := by rw [hGO]; simp
  have hxf := hmem x hxmem
  -- no event of F lies between x and the cut
  have hwhere : ∀ g : GEv, g ∈ GO.map Prod.fst → grank g ≤ grank x.1 ∨ krank a req < grank g := by
    intro g hg
    obtain ⟨y, hy, rfl⟩ := List.mem_map.1 hg
    rw [hGO] at hy
    rcases List.mem_append.1 hy with h | h
    · exact Or.inl (Nat.le_of_lt (hpre y h))
    · rcases List.mem_cons.1 h with h | h
      · rw [h]; exact Or.inl (Nat.le_refl _)
      · exact Or.inr (hpost y h)
  have hHead : IsHead F (krank a req) x.2 := by
    refine isHead_of_no_event ?_ ?_ hxf.1
    · intro R hR
      constructor
      · intro h; exact Nat.le_trans h hxk
      · intro h
        rcases hwhere _ (hall R hR).1 with h' | h'
        · exact h'
        · rw [grank_start] at h'; omega
    · intro R hR hTop
      constructor
      · intro h
        rcases hwhere _ ((hall R hR).2 hTop) with h' | h'
        · rw [grank_stop] at h'; omega
        · rwa [grank_stop] at h'
      · intro h; omega
  have hInner := inner_of_isHead hF ha hreq hA hHead
  refine ⟨x.2, hInner, ?_⟩
  -- the point emitted for x
  have hpf := outPt_facts hF hM hxf
  have hpip : (outPt x).ip ≤ a := by
    have := outPt_ip_le (hxf.len_le hF hM)
    unfold krank at hxk
    show x.1.pt.ip ≤ a
    have h512 : 512 + req < 1024 := by omega
    exact ip_le_of_rank this.1 hxk (Nat.add_lt_add_left h512 _)
  have hpml : (outPt x).maskLen ≤ req := hInner.2.2.2.1
  -- it is not replaced by its successor
  have hnorep : ∀ q, (post.map outPt).head? = some q →
      ¬ ((outPt x).ip = q.ip ∧ (outPt x).maskLen ≥ q.maskLen) := by
    intro q hq
    cases post with
    | nil => cases hq
    | cons y ys =>
      simp only [List.map_cons, List.head?_cons, Option.some.injEq] at hq
      subst hq
      have hy : y ∈ GO := by rw [hGO]; simp
      have := after_krank hF hM hreq (hmem y hy) (hpost y List.mem_cons_self)
      omega
  have hO : GO.map outPt = pre.map outPt ++ outPt x :: post.map outPt := by
    rw [hGO, List.map_append, List.map_cons]
  obtain ⟨T1, hT1⟩ := squash_snoc_last (pre.map outPt) (outPt x)
  have hT : squash [] (GO.map outPt) = T1 ++ outPt x :: squash [] (post.map outPt) := by
    rw [hO, squash_split _ _ _ hnorep, hT1, List.append_assoc]; rfl
  have hsortedT := table_sorted hF hW hM hsorted hmem
  have hlk : lookup (squash [] (GO.map outPt)) a req = some (outPt x) := by
    rw [hT] at hsortedT ⊢
    apply lookup_sorted_split _ _ _ _ _ hsortedT
    · rw [pkey_eq hpf.2.2.1 (by omega)]
      unfold keyLe keyLt
      simp only [Bool.not_eq_true', decide_eq_false_iff_not]
      omega
    · intro q hq
      rcases squash_mem hq with h | h
      · cases h
      · obtain ⟨y, hy, rfl⟩ := List.mem_map.1 h
        have hyG : y ∈ GO := by rw [hGO]; simp [hy]
        have hqf := outPt_facts hF hM (hmem y hyG)
        have := after_krank hF hM hreq (hmem y hyG) (hpost y hy)
        rw [pkey_eq hqf.2.2.1 (by omega)]
        unfold keyLe keyLt
        simp only [Bool.not_eq_false', decide_eq_true_iff]
        omega
  refine ⟨?_, by rw [hlk]; rfl⟩
  unfold lookupRes
  rw [hlk]
  show ((outPt x).loc, (pkey (outPt x)).2) = _
  rw [pkey_eq hpf.2.2.1 (by omega)]
  rfl

end DnsVerif.Lpm
