/-
C03.4: from the sweep invariant to the lookup theorem. Part A (abstract): the predecessor of
`(a, req)` in the squashed table carries the innermost range that contains `a` and is no longer
than `req`. Part B (concrete): the events `AddLocation` / `Rearrange` generate for a well-formed
subnet list form such a family, and "innermost range" is `Spec.lpm`.
-/
import DnsVerif.Proofs.LpmSweep
import DnsVerif.Proofs.LpmSort

namespace DnsVerif.Lpm
open DnsVerif DnsVerif.Rearr DnsVerif.Spec

/-! ### Part A -/

/-- the innermost range of `F` that contains `a` and is no longer than `req` -/
def Inner (F : List Rng) (a req : Nat) (H : Rng) : Prop :=
  H ∈ F ∧ H.lo ≤ a ∧ a < H.hi ∧ H.len ≤ req ∧
    ∀ X ∈ F, X.lo ≤ a → a < X.hi → X.len ≤ req → X.lo ≤ H.lo ∧ H.hi ≤ X.hi

/-- the rank of the lookup key `(a, req)`, read as a start event -/
def krank (a req : Nat) : Nat := a * 1024 + (512 + req)

/-- splitting a strictly sorted list at a threshold that its head does not exceed -/
theorem split_at_threshold {α : Type} (f : α → Nat) (k : Nat) :
    ∀ (L : List α), L.Pairwise (fun x y => f x < f y) → (∀ x, L.head? = some x → f x ≤ k) → L ≠ [] →
      ∃ pre x post, L = pre ++ x :: post ∧ f x ≤ k ∧ (∀ y ∈ pre, f y < f x) ∧ (∀ y ∈ post, k < f y) := by
  intro L
  induction L with
  | nil => intro _ _ h; exact absurd rfl h
  | cons x xs ih =>
    intro hs hh _
    have hx : f x ≤ k := hh x rfl
    cases xs with
    | nil => exact ⟨[], x, [], rfl, hx, fun _ h => by simp at h, fun _ h => by simp at h⟩
    | cons y ys =>
      have hs' := (List.pairwise_cons.1 hs).2
      have hxy := (List.pairwise_cons.1 hs).1
      by_cases hy : f y ≤ k
      · obtain ⟨pre, z, post, heq, hz, hpre, hpost⟩ := ih hs' (fun w hw => by cases hw; exact hy) (by simp)
        refine ⟨x :: pre, z, post, by rw [heq]; rfl, hz, ?_, hpost⟩
        intro w hw
        rcases List.mem_cons.1 hw with h | h
        · rw [h]
          have : z ∈ y :: ys := by rw [heq]; simp
          exact hxy z this
        · exact hpre w h
      · refine ⟨[], x, y :: ys, rfl, hx, fun _ h => by simp at h, ?_⟩
        intro w hw
        rcases List.mem_cons.1 hw with h | h
        · rw [h]; omega
        · have := (List.pairwise_cons.1 hs').1 w h
          omega

/-- with the alignment hypothesis, "open at the cut of the lookup key" = "contains `a` and is no
longer than `req`" -/
theorem isOpen_krank {F : List Rng} (hF : RngWF F) {a req : Nat} (ha : a < TOP) (hreq : req < 256)
    (hA : ∀ R ∈ F, R.lo < a → a < R.hi → R.len ≤ req) (X : Rng) :
    IsOpen F (krank a req) X ↔ X ∈ F ∧ X.lo ≤ a ∧ a < X.hi ∧ X.len ≤ req := by
  unfold IsOpen krank srank erank
  constructor
  · rintro ⟨hXF, hs, he⟩
    obtain ⟨b1, b2, b3⟩ := hF.bounds X hXF
    have hhi : a < X.hi := by rcases he with h | h <;> omega
    refine ⟨hXF, by omega, hhi, ?_⟩
    by_cases hlo : X.lo < a
    · exact hA X hXF hlo hhi
    · omega
  · rintro ⟨hXF, hlo, hhi, hlen⟩
    obtain ⟨b1, b2, b3⟩ := hF.bounds X hXF
    refine ⟨hXF, by omega, ?_⟩
    right; omega

theorem inner_of_isHead {F : List Rng} (hF : RngWF F) {a req : Nat} (ha : a < TOP) (hreq : req < 256)
    (hA : ∀ R ∈ F, R.lo < a → a < R.hi → R.len ≤ req) {H : Rng}
    (hH : IsHead F (krank a req) H) : Inner F a req H := by
  obtain ⟨ho, hall⟩ := hH
  obtain ⟨h1, h2, h3, h4⟩ := (isOpen_krank hF ha hreq hA H).1 ho
  exact ⟨h1, h2, h3, h4, fun X hXF hlo hhi hlen =>
    hall X ((isOpen_krank hF ha hreq hA X).2 ⟨hXF, hlo, hhi, hlen⟩)⟩

/-- two cuts with no event of `F` between them see the same open ranges -/
theorem isHead_of_no_event {F : List Rng} {t t' : Nat} {H : Rng}
    (hs : ∀ R ∈ F, srank R ≤ t ↔ srank R ≤ t')
    (he : ∀ R ∈ F, R.hi ≠ TOP → (t < erank R ↔ t' < erank R))
    (hH : IsHead F t H) : IsHead F t' H := by
  have key : ∀ X, IsOpen F t X ↔ IsOpen F t' X := by
    intro X
    unfold IsOpen
    constructor
    · rintro ⟨hXF, h1, h2⟩
      refine ⟨hXF, (hs X hXF).1 h1, ?_⟩
      by_cases hTop : X.hi = TOP
      · exact Or.inl hTop
      · rcases h2 with h | h
        · exact absurd h hTop
        · exact Or.inr ((he X hXF hTop).1 h)
    · rintro ⟨hXF, h1, h2⟩
      refine ⟨hXF, (hs X hXF).2 h1, ?_⟩
      by_cases hTop : X.hi = TOP
      · exact Or.inl hTop
      · rcases h2 with h | h
        · exact absurd h hTop
        · exact Or.inr ((he X hXF hTop).2 h)
  exact ⟨(key H).1 hH.1, fun X hX => hH.2 X ((key X).2 hX)⟩


/-- weak monotonicity: a range inside another one is at least as long -/
def RngMono (F : List Rng) : Prop := ∀ R ∈ F, ∀ R' ∈ F, R.sub R' → R'.len ≤ R.len

theorem cut_zero_inv (F : List Rng) : Inv F 0 [] := by
  refine ⟨fun R => ⟨fun h => (by cases h), fun h => ?_⟩, List.Pairwise.nil⟩
  have := h.2.1
  unfold srank at this; omega

theorem outPt_ip_le {F : List Rng} (hF : RngWF F) {g : GEv} (hg : g.r ∈ F) :
    g.pt.ip * 1024 ≤ grank g ∧ grank g < g.pt.ip * 1024 + 1024 := by
  obtain ⟨R, k⟩ := g
  have b3 : R.len ≤ 128 := (hF.bounds R hg).2.2
  cases k <;> simp only [grank, rank, GEv.pt] <;> omega

/-- the points emitted at one address form a valley: descending while stops pop outwards, then
ascending with the starts -/
theorem valley_out {F : List Rng} (hF : RngWF F) (hM : RngMono F) {GO : List (GEv × Rng)}
    (hsorted : GO.Pairwise fun x y => grank x.1 < grank y.1)
    (hmem : ∀ gh ∈ GO, gh.1.r ∈ F ∧ IsHead F (grank gh.1) gh.2 ∧ (gh.1.kind = .start → gh.2 = gh.1.r)) :
    Valley (GO.map outPt) := by
  intro a b c hsub hab hbc hrise
  obtain ⟨l', hl', hmap⟩ := List.sublist_map_iff.1 hsub
  obtain ⟨ga, gb, gc, rfl⟩ : ∃ ga gb gc, l' = [ga, gb, gc] := by
    match l', hmap with
    | [x, y, z], _ => exact ⟨x, y, z, rfl⟩
  simp only [List.map_cons, List.map_nil, List.cons.injEq, and_true] at hmap
  obtain ⟨rfl, rfl, rfl⟩ := hmap
  have hpw := List.Pairwise.sublist hl' hsorted
  simp only [List.pairwise_cons, List.mem_cons, List.not_mem_nil, or_false, forall_eq_or_imp,
    forall_eq, List.Pairwise.nil, and_true] at hpw
  obtain ⟨⟨hab', hac'⟩, hbc'⟩ := hpw
  have hma := hmem ga (hl'.subset (by simp))
  have hmb := hmem gb (hl'.subset (by simp))
  have hmc := hmem gc (hl'.subset (by simp))
  obtain ⟨ga1, Ha⟩ := ga
  obtain ⟨gb1, Hb⟩ := gb
  obtain ⟨gc1, Hc⟩ := gc
  simp only [outPt] at hab hbc hrise ⊢
  simp only at hma hmb hmc hab' hbc' hac'
  obtain ⟨ba1, ba2, ba3⟩ := hF.bounds ga1.r hma.1
  obtain ⟨bb1, bb2, bb3⟩ := hF.bounds gb1.r hmb.1
  obtain ⟨bc1, bc2, bc3⟩ := hF.bounds gc1.r hmc.1
  -- b must be a start event
  have hbstart : gb1.kind = .start := by
    cases hk : gb1.kind with
    | start => rfl
    | stop =>
      exfalso
      -- then a is a stop too and Hb is open at a's cut, so Ha ⊆ Hb
      obtain ⟨Ra, ka⟩ := ga1
      obtain ⟨Rb, kb⟩ := gb1
      simp only at hk; subst hk
      simp only [GEv.pt] at hab
      have hHb := hmb.2.1.1
      have hopen : IsOpen F (grank ⟨Ra, ka⟩) Hb := by
        obtain ⟨h1, h2, h3⟩ := hHb
        obtain ⟨bh1, bh2, bh3⟩ := hF.bounds Hb h1
        have hb' : grank ⟨Rb, Kind.stop⟩ = Rb.hi * 1024 + (255 - Rb.len) := rfl
        have hiple := outPt_ip_le hF hma.1
        have hipa : (GEv.mk Ra ka).pt.ip = Rb.hi := hab
        rw [hipa] at hiple
        rw [hb'] at h2 h3 hab'
        refine ⟨h1, ?_, ?_⟩
        · unfold srank at h2 ⊢; omega
        · rcases h3 with h3 | h3
          · exact Or.inl h3
          · exact Or.inr (by omega)
      have hsub := hma.2.1.2 Hb hopen
      have := hM Ha hma.2.1.1.1 Hb hHb.1 ⟨hsub.1, hsub.2⟩
      omega
  -- hence c is a later start at the same address: longer than b
  have hHb : Hb = gb1.r := hmb.2.2 hbstart
  obtain ⟨Rb, kb⟩ := gb1
  obtain ⟨Rc, kc⟩ := gc1
  simp only at hbstart; subst hbstart
  simp only at hHb; subst hHb
  simp only [GEv.pt] at hbc
  cases kc with
  | stop =>
    exfalso
    have e1 : grank ⟨Hb, Kind.start⟩ = Hb.lo * 1024 + (512 + Hb.len) := rfl
    have e2 : grank ⟨Rc, Kind.stop⟩ = Rc.hi * 1024 + (255 - Rc.len) := rfl
    have hbc2 : Hb.lo = Rc.hi := hbc
    rw [e1, e2] at hbc'
    omega
  | start =>
    have hHc : Hc = Rc := hmc.2.2 rfl
    subst hHc
    have e1 : grank ⟨Hb, Kind.start⟩ = Hb.lo * 1024 + (512 + Hb.len) := rfl
    have e2 : grank ⟨Hc, Kind.start⟩ = Hc.lo * 1024 + (512 + Hc.len) := rfl
    have hbc2 : Hb.lo = Hc.lo := hbc
    rw [e1, e2] at hbc'
    show Ha.len < Hc.len
    have hrise' : Ha.len < Hb.len := hrise
    omega


/-- the sweep output, annotated: for every event the range on top of the stack afterwards -/
theorem sweep_out {F : List Rng} (hF : RngWF F) {GE : List GEv} (hcut : Cut F 0 GE) :
    ∃ GO : List (GEv × Rng), GO.map Prod.fst = GE ∧
      sweep (GE.map GEv.pt) [] = some (GO.map outPt) ∧
      (GO.Pairwise fun x y => grank x.1 < grank y.1) ∧
      ∀ gh ∈ GO, gh.1.r ∈ F ∧ IsHead F (grank gh.1) gh.2 ∧ (gh.1.kind = .start → gh.2 = gh.1.r) ∧
        (gh.1.kind = .stop → gh.1.r.hi ≠ TOP) := by
  obtain ⟨hs, hlen, hsw, hall⟩ := sweep_ghost hF GE 0 [] hcut (cut_zero_inv F)
  have hfst : (GE.zip hs).map Prod.fst = GE := List.map_fst_zip (by omega)
  refine ⟨GE.zip hs, hfst, hsw, ?_, ?_⟩
  · have := hcut.sorted
    rw [← hfst, List.pairwise_map] at this
    exact this
  · intro gh hgh
    have hg : gh.1 ∈ GE := (List.of_mem_zip (a := gh.1) (b := gh.2) hgh).1
    have := hcut.sound gh.1 hg
    exact ⟨this.2.1, (hall gh hgh).1, (hall gh hgh).2, this.2.2⟩

/-- facts about every emitted point -/
theorem outPt_facts {F : List Rng} (hF : RngWF F) {gh : GEv × Rng}
    (h : gh.1.r ∈ F ∧ IsHead F (grank gh.1) gh.2 ∧ (gh.1.kind = .start → gh.2 = gh.1.r) ∧
      (gh.1.kind = .stop → gh.1.r.hi ≠ TOP)) :
    (outPt gh).ip < TOP ∧ (outPt gh).maskLen ≤ 128 ∧ ((outPt gh).loc = none → (outPt gh).maskLen = 0) ∧
      ∃ R ∈ F, (outPt gh).loc = R.loc ∧ (outPt gh).maskLen = R.len := by
  obtain ⟨⟨R, k⟩, H⟩ := gh
  obtain ⟨h1, h2, _, h4⟩ := h
  have hHF : H ∈ F := h2.1.1
  obtain ⟨b1, b2, b3⟩ := hF.bounds R h1
  refine ⟨?_, (hF.bounds H hHF).2.2, hF.null_len H hHF, H, hHF, rfl, rfl⟩
  cases k with
  | start => simp only [outPt, GEv.pt]; omega
  | stop =>
    have := h4 rfl
    simp only [outPt, GEv.pt]; simp only at this; omega

/-- **rangepoint_keys_distinct**: the squashed table is strictly sorted by database key -/
theorem table_sorted {F : List Rng} (hF : RngWF F) (hM : RngMono F) {GO : List (GEv × Rng)}
    (hsorted : GO.Pairwise fun x y => grank x.1 < grank y.1)
    (hmem : ∀ gh ∈ GO, gh.1.r ∈ F ∧ IsHead F (grank gh.1) gh.2 ∧ (gh.1.kind = .start → gh.2 = gh.1.r) ∧
      (gh.1.kind = .stop → gh.1.r.hi ≠ TOP)) :
    (squash [] (GO.map outPt)).Pairwise fun u v => keyLt (pkey u) (pkey v) = true := by
  have hip : (GO.map outPt).Pairwise fun a b => a.ip ≤ b.ip := by
    rw [List.pairwise_map]
    refine List.Pairwise.imp_of_mem ?_ hsorted
    intro x y hx hy hlt
    have h1 := outPt_ip_le hF (hmem x hx).1
    have h2 := outPt_ip_le hF (hmem y hy).1
    show x.1.pt.ip ≤ y.1.pt.ip
    omega
  have hval := valley_out hF hM hsorted fun gh hgh => ⟨(hmem gh hgh).1, (hmem gh hgh).2.1, (hmem gh hgh).2.2.1⟩
  have hks := squash_keySorted _ hip hval
  have hfacts : ∀ p ∈ squash [] (GO.map outPt), (p.loc = none → p.maskLen = 0) ∧ p.maskLen < 256 := by
    intro p hp
    have hp' : p ∈ GO.map outPt := (squash_sublist _).subset hp
    obtain ⟨gh, hgh, rfl⟩ := List.mem_map.1 hp'
    have := outPt_facts hF (hmem gh hgh)
    exact ⟨this.2.2.1, by omega⟩
  refine List.Pairwise.imp_of_mem ?_ hks
  intro u v hu hv huv
  rw [keyLt_of_ip_maskLen (hfacts u hu).1 (hfacts v hv).1 (hfacts u hu).2 (hfacts v hv).2]
  exact decide_eq_true huv


/-- an event after the cut of the lookup key is at a later address, or a start at `a` longer than `req` -/
theorem after_krank {F : List Rng} (hF : RngWF F) {gh : GEv × Rng} {a req : Nat} (hreq : req < 256)
    (h : gh.1.r ∈ F ∧ IsHead F (grank gh.1) gh.2 ∧ (gh.1.kind = .start → gh.2 = gh.1.r) ∧
      (gh.1.kind = .stop → gh.1.r.hi ≠ TOP))
    (hk : krank a req < grank gh.1) :
    a < (outPt gh).ip ∨ ((outPt gh).ip = a ∧ req < (outPt gh).maskLen) := by
  obtain ⟨⟨R, k⟩, H⟩ := gh
  obtain ⟨h1, _, h3, _⟩ := h
  obtain ⟨b1, b2, b3⟩ := hF.bounds R h1
  cases k with
  | stop =>
    have e : grank ⟨R, Kind.stop⟩ = R.hi * 1024 + (255 - R.len) := rfl
    rw [e] at hk
    unfold krank at hk
    left
    show a < R.hi
    omega
  | start =>
    have e : grank ⟨R, Kind.start⟩ = R.lo * 1024 + (512 + R.len) := rfl
    rw [e] at hk
    unfold krank at hk
    have hH : H = R := h3 rfl
    subst hH
    show a < H.lo ∨ (H.lo = a ∧ req < H.len)
    omega

/-- **the lookup theorem, abstract form**: the predecessor of `(a, req)` in the squashed table
carries mask length and location of the innermost range containing `a` that is no longer than `req` -/
theorem sweep_lookup {F : List Rng} (hF : RngWF F) (hM : RngMono F) {GO : List (GEv × Rng)}
    (hsorted : GO.Pairwise fun x y => grank x.1 < grank y.1)
    (hmem : ∀ gh ∈ GO, gh.1.r ∈ F ∧ IsHead F (grank gh.1) gh.2 ∧ (gh.1.kind = .start → gh.2 = gh.1.r) ∧
      (gh.1.kind = .stop → gh.1.r.hi ≠ TOP))
    (hall : ∀ R ∈ F, (⟨R, .start⟩ : GEv) ∈ GO.map Prod.fst ∧
      (R.hi ≠ TOP → (⟨R, .stop⟩ : GEv) ∈ GO.map Prod.fst))
    {a req : Nat} (ha : a < TOP) (hreq : req < 256)
    (hA : ∀ R ∈ F, R.lo < a → a < R.hi → R.len ≤ req) :
    ∃ H, Inner F a req H ∧ lookupRes (squash [] (GO.map outPt)) a req = (H.loc, H.len) ∧
      (lookup (squash [] (GO.map outPt)) a req).isSome = true := by
  obtain ⟨R0, hR0F, hR0lo, hR0hi, hR0len⟩ := hF.base
  -- the first event is not after the cut
  obtain ⟨x0, hx0, hx0e⟩ := List.mem_map.1 (hall R0 hR0F).1
  have hne : GO ≠ [] := fun h => by rw [h] at hx0; cases hx0
  have hhead : ∀ x, GO.head? = some x → grank x.1 ≤ krank a req := by
    intro x hx
    have hs0 : srank R0 ≤ krank a req := by unfold srank krank; omega
    have hx0r : grank x0.1 = srank R0 := by rw [hx0e]; rfl
    cases GO with
    | nil => cases hx
    | cons y ys =>
      cases hx
      rcases List.mem_cons.1 hx0 with h | h
      · rw [← h]; omega
      · have := (List.pairwise_cons.1 hsorted).1 x0 h
        omega
  obtain ⟨pre, x, post, hGO, hxk, hpre, hpost⟩ :=
    split_at_threshold (fun gh : GEv × Rng => grank gh.1) (krank a req) GO hsorted hhead hne
  have hxmem : x ∈ GO := by rw [hGO]; simp
  have hxf := hmem x hxmem
  -- no event of F lies between x and the cut
  have hwhere : ∀ g : GEv, g ∈ GO.map Prod.fst → grank g ≤ grank x.1 ∨ krank a req < grank g := by
    intro g hg
    obtain ⟨y, hy, rfl⟩ := List.mem_map.1 hg
    rw [hGO] at hy
    rcases List.mem_append.1 hy with h | h
    · exact Or.inl (Nat.le_of_lt (hpre y h))
    · rcases List.mem_cons.1 h with h | h
      · rw [h]; exact Or.inl (Nat.le_refl _)
      · exact Or.inr (hpost y h)
  have hHead : IsHead F (krank a req) x.2 := by
    refine isHead_of_no_event ?_ ?_ hxf.2.1
    · intro R hR
      constructor
      · intro h; exact Nat.le_trans h hxk
      · intro h
        rcases hwhere _ (hall R hR).1 with h' | h'
        · exact h'
        · rw [grank_start] at h'; omega
    · intro R hR hTop
      constructor
      · intro h
        rcases hwhere _ ((hall R hR).2 hTop) with h' | h'
        · rw [grank_stop] at h'; omega
        · rwa [grank_stop] at h'
      · intro h; omega
  have hInner := inner_of_isHead hF ha hreq hA hHead
  refine ⟨x.2, hInner, ?_⟩
  -- the point emitted for x
  have hpf := outPt_facts hF hxf
  have hpip : (outPt x).ip ≤ a := by
    have := outPt_ip_le hF hxf.1
    unfold krank at hxk
    show x.1.pt.ip ≤ a
    omega
  have hpml : (outPt x).maskLen ≤ req := hInner.2.2.2.1
  -- it is not replaced by its successor
  have hnorep : ∀ q, (post.map outPt).head? = some q →
      ¬ ((outPt x).ip = q.ip ∧ (outPt x).maskLen ≥ q.maskLen) := by
    intro q hq
    cases post with
    | nil => cases hq
    | cons y ys =>
      simp only [List.map_cons, List.head?_cons, Option.some.injEq] at hq
      subst hq
      have hy : y ∈ GO := by rw [hGO]; simp
      have := after_krank hF hreq (hmem y hy) (hpost y List.mem_cons_self)
      omega
  have hO : GO.map outPt = pre.map outPt ++ outPt x :: post.map outPt := by
    rw [hGO, List.map_append, List.map_cons]
  obtain ⟨T1, hT1⟩ := squash_snoc_last (pre.map outPt) (outPt x)
  have hT : squash [] (GO.map outPt) = T1 ++ outPt x :: squash [] (post.map outPt) := by
    rw [hO, squash_split _ _ _ hnorep, hT1, List.append_assoc]; rfl
  have hsortedT := table_sorted hF hM hsorted hmem
  have hlk : lookup (squash [] (GO.map outPt)) a req = some (outPt x) := by
    rw [hT] at hsortedT ⊢
    apply lookup_sorted_split _ _ _ _ _ hsortedT
    · rw [pkey_eq hpf.2.2.1 (by omega)]
      unfold keyLe keyLt
      simp only [Bool.not_eq_true', decide_eq_false_iff_not]
      omega
    · intro q hq
      rcases squash_mem hq with h | h
      · cases h
      · obtain ⟨y, hy, rfl⟩ := List.mem_map.1 h
        have hyG : y ∈ GO := by rw [hGO]; simp [hy]
        have hqf := outPt_facts hF (hmem y hyG)
        have := after_krank hF hreq (hmem y hyG) (hpost y hy)
        rw [pkey_eq hqf.2.2.1 (by omega)]
        unfold keyLe keyLt
        simp only [Bool.not_eq_false', decide_eq_true_iff]
        omega
  refine ⟨?_, by rw [hlk]; rfl⟩
  unfold lookupRes
  rw [hlk]
  show ((outPt x).loc, (pkey (outPt x)).2) = _
  rw [pkey_eq hpf.2.2.1 (by omega)]
  rfl

end DnsVerif.Lpm
