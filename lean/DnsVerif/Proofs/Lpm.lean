/-
Helper lemmas for C03 / C10: aligned power-of-two blocks (CIDR) are laminar; what `Spec.lpm`
returns; the generic "first maximal element" fold.
-/
import DnsVerif.Spec.Answer

namespace DnsVerif.Lpm
open DnsVerif DnsVerif.Spec

/-! ### aligned blocks -/

/-- first address of the aligned block of prefix length `o` around `n` -/
def blockStart (n o : Nat) : Nat := n / 2 ^ (128 - o) * 2 ^ (128 - o)
/-- number of addresses of a block of prefix length `o` -/
def blockSize (o : Nat) : Nat := 2 ^ (128 - o)

theorem blockSize_pos (o : Nat) : 0 < blockSize o := Nat.two_pow_pos _

/-- membership in a block, quotient form ⇔ interval form -/
theorem div_eq_iff_interval {s : Nat} (hs : 0 < s) (a n : Nat) :
    a / s = n / s ↔ n / s * s ≤ a ∧ a < n / s * s + s := by
  rw [Nat.div_eq_iff hs]; omega

theorem contains_iff (s : SubnetDecl) (a : Nat) :
    s.contains a = true ↔ blockStart s.net s.ones ≤ a ∧ a < blockStart s.net s.ones + blockSize s.ones := by
  unfold SubnetDecl.contains blockStart blockSize
  rw [decide_eq_true_iff]
  exact div_eq_iff_interval (Nat.two_pow_pos _) a s.net

/-- quotient form of laminarity: a block that shares one address with a shorter-or-equal prefix
block lies inside it -/
theorem contains_mono {a b n₁ n₂ o₁ o₂ : Nat} (ho : o₁ ≤ o₂)
    (h1 : a / 2 ^ (128 - o₁) = n₁ / 2 ^ (128 - o₁)) (h2 : a / 2 ^ (128 - o₂) = n₂ / 2 ^ (128 - o₂))
    (hb : b / 2 ^ (128 - o₂) = n₂ / 2 ^ (128 - o₂)) :
    b / 2 ^ (128 - o₁) = n₁ / 2 ^ (128 - o₁) := by
  have hk : 2 ^ (128 - o₁) = 2 ^ (128 - o₂) * 2 ^ ((128 - o₁) - (128 - o₂)) := by
    rw [← Nat.pow_add]; congr 1; omega
  rw [← h1, hk, ← Nat.div_div_eq_div_mul, ← Nat.div_div_eq_div_mul, hb, ← h2]

/-- **cidr_laminar**: two aligned power-of-two blocks are nested or disjoint (interval form) -/
theorem cidr_laminar (n₁ o₁ n₂ o₂ : Nat) (ho : o₁ ≤ o₂) :
    (blockStart n₁ o₁ ≤ blockStart n₂ o₂ ∧
      blockStart n₂ o₂ + blockSize o₂ ≤ blockStart n₁ o₁ + blockSize o₁) ∨
    (blockStart n₂ o₂ + blockSize o₂ ≤ blockStart n₁ o₁ ∨
      blockStart n₁ o₁ + blockSize o₁ ≤ blockStart n₂ o₂) := by
  have hs1 : 0 < 2 ^ (128 - o₁) := Nat.two_pow_pos _
  have hs2 : 0 < 2 ^ (128 - o₂) := Nat.two_pow_pos _
  -- does the start of block 2 lie in block 1 ?
  by_cases hin : blockStart n₂ o₂ / 2 ^ (128 - o₁) = n₁ / 2 ^ (128 - o₁)
  · left
    have hself : blockStart n₂ o₂ / 2 ^ (128 - o₂) = n₂ / 2 ^ (128 - o₂) := by
      unfold blockStart; rw [Nat.mul_div_cancel _ hs2]
    -- the last address of block 2 is in block 2, hence in block 1
    have hlast : (blockStart n₂ o₂ + (blockSize o₂ - 1)) / 2 ^ (128 - o₂) = n₂ / 2 ^ (128 - o₂) := by
      rw [div_eq_iff_interval hs2]
      unfold blockStart blockSize
      omega
    have h3 := contains_mono ho hin hself hlast
    rw [div_eq_iff_interval hs1] at hin h3
    unfold blockStart blockSize at *
    omega
  · right
    rw [div_eq_iff_interval hs1] at hin
    -- block 2 starts outside block 1: it cannot straddle a boundary of block 1
    by_cases hlt : blockStart n₂ o₂ < blockStart n₁ o₁
    · left
      -- otherwise some address of block 2 (namely the start of block 1) is in both
      refine Nat.le_of_not_lt fun hcon => ?_
      have hA : blockStart n₁ o₁ / 2 ^ (128 - o₂) = n₂ / 2 ^ (128 - o₂) := by
        rw [div_eq_iff_interval hs2]; unfold blockStart blockSize at *; omega
      have hB : blockStart n₁ o₁ / 2 ^ (128 - o₁) = n₁ / 2 ^ (128 - o₁) := by
        unfold blockStart; rw [Nat.mul_div_cancel _ hs1]
      have hself : blockStart n₂ o₂ / 2 ^ (128 - o₂) = n₂ / 2 ^ (128 - o₂) := by
        unfold blockStart; rw [Nat.mul_div_cancel _ hs2]
      have h3 := contains_mono ho hB hA hself
      rw [div_eq_iff_interval hs1] at h3
      unfold blockStart blockSize at *
      omega
    · right
      unfold blockStart blockSize at *
      omega

/-! ### the "first maximal element" fold used by `Spec.lpm` -/

def pick (best : Option SubnetDecl) (s : SubnetDecl) : Option SubnetDecl :=
  match best with
  | none => some s
  | some b => if s.ones > b.ones then some s else some b

theorem lpm_eq_foldl (subnets : List SubnetDecl) (mapID : Bytes) (v4 : Bool) (addr ones : Nat) :
    lpm subnets mapID v4 addr ones =
      (subnets.filter fun s => s.mapID = mapID ∧ s.isV4 = v4 ∧ s.ones ≤ ones ∧ s.contains addr).foldl
        pick none := rfl

theorem foldl_pick_some (l : List SubnetDecl) (b : SubnetDecl) :
    ∃ r, l.foldl pick (some b) = some r ∧ (r = b ∨ r ∈ l) ∧ b.ones ≤ r.ones ∧
      (∀ t ∈ l, t.ones ≤ r.ones) ∧ (r.ones = b.ones → r = b) := by
  induction l generalizing b with
  | nil => exact ⟨b, rfl, Or.inl rfl, Nat.le_refl _, fun _ h => by simp at h, fun _ => rfl⟩
  | cons x xs ih =>
    rw [List.foldl_cons]
    by_cases hx : x.ones > b.ones
    · have : pick (some b) x = some x := by simp [pick, hx]
      rw [this]
      obtain ⟨r, hr, hmem, hle, hall, heq⟩ := ih x
      refine ⟨r, hr, ?_, by omega, ?_, ?_⟩
      · rcases hmem with h | h
        · exact Or.inr (h ▸ List.mem_cons_self)
        · exact Or.inr (List.mem_cons_of_mem _ h)
      · intro t ht
        rcases List.mem_cons.1 ht with h | h
        · rw [h]; exact hle
        · exact hall t h
      · intro h; omega
    · have : pick (some b) x = some b := by simp [pick, hx]
      rw [this]
      obtain ⟨r, hr, hmem, hle, hall, heq⟩ := ih b
      refine ⟨r, hr, ?_, hle, ?_, heq⟩
      · rcases hmem with h | h
        · exact Or.inl h
        · exact Or.inr (List.mem_cons_of_mem _ h)
      · intro t ht
        rcases List.mem_cons.1 ht with h | h
        · rw [h]; omega
        · exact hall t h

theorem foldl_pick_none (l : List SubnetDecl) :
    (l.foldl pick none = none ↔ l = []) ∧
    ∀ r, l.foldl pick none = some r → r ∈ l ∧ ∀ t ∈ l, t.ones ≤ r.ones := by
  cases l with
  | nil => exact ⟨by simp, fun r h => by simp at h⟩
  | cons x xs =>
    rw [List.foldl_cons]
    have : pick none x = some x := rfl
    rw [this]
    obtain ⟨r, hr, hmem, hle, hall, _⟩ := foldl_pick_some xs x
    rw [hr]
    refine ⟨by simp, fun r' h => ?_⟩
    cases h
    refine ⟨?_, ?_⟩
    · rcases hmem with h | h
      · exact h ▸ List.mem_cons_self
      · exact List.mem_cons_of_mem _ h
    · intro t ht
      rcases List.mem_cons.1 ht with h | h
      · rw [h]; exact hle
      · exact hall t h

/-- the qualifying condition of `Spec.lpm` -/
def Qual (mapID : Bytes) (v4 : Bool) (addr ones : Nat) (s : SubnetDecl) : Prop :=
  s.mapID = mapID ∧ s.isV4 = v4 ∧ s.ones ≤ ones ∧ s.contains addr = true

instance (mapID : Bytes) (v4 : Bool) (addr ones : Nat) (s : SubnetDecl) :
    Decidable (Qual mapID v4 addr ones s) := by unfold Qual; infer_instance

theorem mem_lpm_filter {subnets : List SubnetDecl} {mapID : Bytes} {v4 : Bool} {addr ones : Nat}
    {s : SubnetDecl} :
    s ∈ (subnets.filter fun s => s.mapID = mapID ∧ s.isV4 = v4 ∧ s.ones ≤ ones ∧ s.contains addr) ↔
      s ∈ subnets ∧ Qual mapID v4 addr ones s := by
  simp [List.mem_filter, Qual]

/-- what `lpm` returns: a declared subnet meeting the four conditions, and no qualifying subnet is
longer -/
theorem lpm_some {subnets : List SubnetDecl} {mapID : Bytes} {v4 : Bool} {addr ones : Nat}
    {r : SubnetDecl} (h : lpm subnets mapID v4 addr ones = some r) :
    r ∈ subnets ∧ Qual mapID v4 addr ones r ∧
      ∀ t ∈ subnets, Qual mapID v4 addr ones t → t.ones ≤ r.ones := by
  rw [lpm_eq_foldl] at h
  obtain ⟨hm, hmax⟩ := (foldl_pick_none _).2 r h
  rw [mem_lpm_filter] at hm
  exact ⟨hm.1, hm.2, fun t ht hq => hmax t (mem_lpm_filter.2 ⟨ht, hq⟩)⟩

theorem lpm_none {subnets : List SubnetDecl} {mapID : Bytes} {v4 : Bool} {addr ones : Nat} :
    lpm subnets mapID v4 addr ones = none ↔ ∀ t ∈ subnets, ¬ Qual mapID v4 addr ones t := by
  rw [lpm_eq_foldl, (foldl_pick_none _).1, List.filter_eq_nil_iff]
  constructor
  · intro h t ht hq
    exact h t ht (by simpa [Qual] using hq)
  · intro h t ht hq
    exact h t ht (by simpa [Qual] using hq)

/-- a qualifying subnet that is at least as long as every qualifying subnet, and the only one of its
length, is the answer -/
theorem lpm_of_max {subnets : List SubnetDecl} {mapID : Bytes} {v4 : Bool} {addr ones : Nat}
    {s : SubnetDecl} (hs : s ∈ subnets) (hq : Qual mapID v4 addr ones s)
    (hmax : ∀ t ∈ subnets, Qual mapID v4 addr ones t → t.ones ≤ s.ones)
    (huniq : ∀ t ∈ subnets, Qual mapID v4 addr ones t → t.ones = s.ones → t = s) :
    lpm subnets mapID v4 addr ones = some s := by
  cases hr : lpm subnets mapID v4 addr ones with
  | none => exact absurd hq (lpm_none.1 hr s hs)
  | some r =>
    obtain ⟨hrm, hrq, hrmax⟩ := lpm_some hr
    have h1 := hmax r hrm hrq
    have h2 := hrmax s hs hq
    rw [huniq r hrm hrq (by omega)]

/-- two qualifying subnets of equal length cover the same block -/
theorem qual_same_block {mapID : Bytes} {v4 : Bool} {addr ones : Nat} {s t : SubnetDecl}
    (hs : Qual mapID v4 addr ones s) (ht : Qual mapID v4 addr ones t) (h : t.ones = s.ones) :
    blockStart t.net t.ones = blockStart s.net s.ones := by
  have h1 := hs.2.2.2
  have h2 := ht.2.2.2
  unfold SubnetDecl.contains at h1 h2
  rw [decide_eq_true_iff] at h1 h2
  unfold blockStart
  rw [h] at h2 ⊢
  rw [← h1, ← h2]

end DnsVerif.Lpm
