/-
Helper lemmas for C19 (sliding window, Stats.Get).
-/
import DnsVerif.Model.Window
import DnsVerif.Spec.Stats

namespace DnsVerif.Window
open DnsVerif.Spec.Stats

/-- induction from the right (core has no `List.reverseRecOn`) -/
theorem list_snoc_induction {α : Type _} {P : List α → Prop} (nil : P [])
    (snoc : ∀ l a, P l → P (l ++ [a])) : ∀ l, P l := by
  have h : ∀ l : List α, P l.reverse := by
    intro l
    induction l with
    | nil => exact nil
    | cons a l ih => rw [List.reverse_cons]; exact snoc _ _ ih
  intro l
  have := h l.reverse
  rwa [List.reverse_reverse] at this

/-! ### The window as a filter of the added samples -/

/-- every `Add` of a history as a sample, in order -/
def addsOf (life : Nat) (evs : List Ev) : Win :=
  evs.filterMap fun
    | .add v t => some { value := v, expires := t + life }
    | .tick _ => none

@[simp] theorem addsOf_nil (life : Nat) : addsOf life [] = [] := rfl

@[simp] theorem addsOf_cons_add (life : Nat) (v : Int) (t : Nat) (evs : List Ev) :
    addsOf life (.add v t :: evs) = { value := v, expires := t + life } :: addsOf life evs := rfl

@[simp] theorem addsOf_cons_tick (life : Nat) (t : Nat) (evs : List Ev) :
    addsOf life (.tick t :: evs) = addsOf life evs := rfl

theorem addsOf_append (life : Nat) (a b : List Ev) :
    addsOf life (a ++ b) = addsOf life a ++ addsOf life b := by
  simp [addsOf, List.filterMap_append]

theorem mem_addsOf {life : Nat} {evs : List Ev} {s : Sample} (h : s ∈ addsOf life evs) :
    ∃ t, Ev.add s.value t ∈ evs ∧ s.expires = t + life := by
  unfold addsOf at h
  rw [List.mem_filterMap] at h
  obtain ⟨e, he, hs⟩ := h
  cases e with
  | add v t =>
    simp at hs
    subst hs
    exact ⟨t, he, rfl⟩
  | tick t => simp at hs

theorem run_append (life : Nat) (a b : List Ev) :
    run life (a ++ b) = b.foldl (step life) (run life a) := by
  simp [run, List.foldl_append]

theorem run_snoc (life : Nat) (evs : List Ev) (e : Ev) :
    run life (evs ++ [e]) = step life (run life evs) e := by
  simp [run_append]

/-- the window is always a sublist of the added samples (whatever the clock does) -/
theorem foldl_step_sublist (life : Nat) (evs : List Ev) (w : Win) :
    (evs.foldl (step life) w).Sublist (w ++ addsOf life evs) := by
  induction evs generalizing w with
  | nil => simp
  | cons e rest ih =>
    cases e with
    | add v t =>
      have := ih (add w life v t)
      simpa [step, add, List.append_assoc] using this
    | tick t =>
      have h1 := ih (tick w t)
      have h2 : (tick w t).Sublist w := List.dropWhile_sublist _
      simp only [List.foldl_cons, step, addsOf_cons_tick]
      exact h1.trans (List.Sublist.append h2 (List.Sublist.refl _))

theorem run_sublist (life : Nat) (evs : List Ev) : (run life evs).Sublist (addsOf life evs) := by
  simpa [run] using foldl_step_sublist life evs []

/-! ### Monotone clocks -/

theorem monotone_iff_pairwise (evs : List Ev) :
    Monotone evs ↔ evs.Pairwise (fun a b => a.time ≤ b.time) := by
  induction evs with
  | nil => simp [Monotone]
  | cons a rest ih =>
    cases rest with
    | nil => simp [Monotone]
    | cons b rest =>
      simp only [Monotone]
      rw [ih, List.pairwise_cons (a := a)]
      constructor
      · rintro ⟨hab, hp⟩
        refine ⟨?_, hp⟩
        intro x hx
        rcases List.mem_cons.mp hx with rfl | hx
        · exact hab
        · exact Nat.le_trans hab ((List.pairwise_cons.mp hp).1 x hx)
      · rintro ⟨hall, hp⟩
        exact ⟨hall b (by simp), hp⟩

theorem monotone_snoc {evs : List Ev} {e : Ev} (h : Monotone (evs ++ [e])) :
    Monotone evs ∧ ∀ x ∈ evs, x.time ≤ e.time := by
  rw [monotone_iff_pairwise, List.pairwise_append] at h
  refine ⟨(monotone_iff_pairwise _).mpr h.1, ?_⟩
  intro x hx
  exact h.2.2 x hx e (by simp)

theorem lastTick_le_of_times_le {evs : List Ev} {T : Nat} (h : ∀ x ∈ evs, x.time ≤ T) :
    lastTick evs ≤ T := by
  induction evs with
  | nil => simp [lastTick]
  | cons e rest ih =>
    have hr := ih (fun x hx => h x (List.mem_cons_of_mem _ hx))
    cases e with
    | add v t => simpa [lastTick] using hr
    | tick t =>
      have : t ≤ T := h (.tick t) (by simp)
      simp only [lastTick]
      omega

theorem lastTick_append (a b : List Ev) : lastTick (a ++ b) = max (lastTick a) (lastTick b) := by
  induction a with
  | nil => simp [lastTick]
  | cons e rest ih =>
    cases e with
    | add v t => simpa [lastTick] using ih
    | tick t => simp only [List.cons_append, lastTick, ih]; omega

/-- with a monotone clock the added samples are sorted by expiry -/
theorem addsOf_sorted {life : Nat} {evs : List Ev} (h : Monotone evs) :
    (addsOf life evs).Pairwise (fun a b => a.expires ≤ b.expires) := by
  rw [monotone_iff_pairwise] at h
  unfold addsOf
  refine List.Pairwise.filterMap _ ?_ h
  intro a a' haa' b hb b' hb'
  cases a <;> cases a' <;> simp at hb hb'
  subst hb hb'
  simp [Ev.time] at haa'
  simp
  omega

/-- on a list sorted by expiry, dropping the expired prefix is filtering -/
theorem dropWhile_eq_filter_of_sorted (now : Nat) (l : Win)
    (h : l.Pairwise (fun a b => a.expires ≤ b.expires)) :
    l.dropWhile (fun s => decide (s.expires < now)) = l.filter (fun s => decide (now ≤ s.expires)) := by
  induction l with
  | nil => rfl
  | cons a rest ih =>
    rw [List.pairwise_cons] at h
    by_cases ha : a.expires < now
    · have : ¬ now ≤ a.expires := by omega
      simp [ha, this, ih h.2]
    · have ha' : now ≤ a.expires := by omega
      have : rest.filter (fun s => decide (now ≤ s.expires)) = rest := by
        rw [List.filter_eq_self]
        intro x hx
        have := h.1 x hx
        simp
        omega
      simp [ha, ha', this]

/-- the invariant behind `window_spec` -/
theorem run_eq_filter (life : Nat) (evs : List Ev) (h : Monotone evs) :
    run life evs = (addsOf life evs).filter (fun s => decide (lastTick evs ≤ s.expires)) := by
  induction evs using list_snoc_induction with
  | nil => rfl
  | snoc evs e ih =>
    obtain ⟨hm, hle⟩ := monotone_snoc h
    have hL : lastTick evs ≤ e.time := lastTick_le_of_times_le hle
    rw [run_snoc, ih hm, addsOf_append, lastTick_append]
    cases e with
    | add v t =>
      simp only [Ev.time] at hL
      have : lastTick evs ≤ t + life := by omega
      simp [step, add, addsOf, lastTick, List.filter_append, this]
    | tick t =>
      simp only [Ev.time] at hL
      have hs : ((addsOf life evs).filter (fun s => decide (lastTick evs ≤ s.expires))).Pairwise
          (fun a b => a.expires ≤ b.expires) := (addsOf_sorted hm).filter _
      simp only [step, tick]
      rw [dropWhile_eq_filter_of_sorted _ _ hs, List.filter_filter]
      have hmax : max (lastTick evs) (lastTick [Ev.tick t]) = t := by
        simp only [lastTick]; omega
      simp only [addsOf_cons_tick, addsOf_nil, List.append_nil, hmax]
      apply List.filter_congr
      intro s _
      by_cases hts : t ≤ s.expires
      · have : lastTick evs ≤ s.expires := by omega
        simp [hts, this]
      · simp [hts]

theorem samples_filter_addsOf (life L : Nat) (evs : List Ev) :
    samples ((addsOf life evs).filter (fun s => decide (L ≤ s.expires))) =
      evs.filterMap fun
        | .add v t => if L ≤ t + life then some v else none
        | .tick _ => none := by
  induction evs with
  | nil => rfl
  | cons e rest ih =>
    cases e with
    | add v t =>
      by_cases hL : L ≤ t + life
      · simp only [samples] at ih
        simp [samples, hL, ih]
      · simp only [samples] at ih
        simp [samples, hL, ih]
    | tick t =>
      simp only [samples] at ih
      simp [samples, ih]

/-! ### Insertion sort -/

theorem insertSorted_perm (x : Int) (l : List Int) : (insertSorted x l).Perm (x :: l) := by
  induction l with
  | nil => simp [insertSorted]
  | cons y ys ih =>
    simp only [insertSorted]
    split
    · exact List.Perm.refl _
    · exact (List.Perm.cons y ih).trans (List.Perm.swap x y ys)

theorem sortInts_perm (l : List Int) : (sortInts l).Perm l := by
  induction l with
  | nil => exact List.Perm.refl _
  | cons x xs ih =>
    show (insertSorted x (sortInts xs)).Perm (x :: xs)
    exact (insertSorted_perm x _).trans (List.Perm.cons x ih)

theorem insertSorted_sorted (x : Int) (l : List Int) (h : l.Pairwise (· ≤ ·)) :
    (insertSorted x l).Pairwise (· ≤ ·) := by
  induction l with
  | nil => simp [insertSorted]
  | cons y ys ih =>
    simp only [insertSorted]
    rw [List.pairwise_cons] at h
    split
    · rename_i hxy
      rw [List.pairwise_cons]
      refine ⟨?_, List.pairwise_cons.mpr h⟩
      intro z hz
      rcases List.mem_cons.mp hz with rfl | hz
      · exact hxy
      · exact Int.le_trans hxy (h.1 z hz)
    · rename_i hxy
      rw [List.pairwise_cons]
      refine ⟨?_, ih h.2⟩
      intro z hz
      rcases List.mem_cons.mp ((insertSorted_perm x ys).mem_iff.mp hz) with rfl | hz
      · omega
      · exact h.1 z hz

theorem sortInts_sorted (l : List Int) : (sortInts l).Pairwise (· ≤ ·) := by
  induction l with
  | nil => simp [sortInts]
  | cons x xs ih => exact insertSorted_sorted x _ ih

theorem perm_sum_int {l₁ l₂ : List Int} (h : l₁.Perm l₂) : l₁.sum = l₂.sum := by
  induction h with
  | nil => rfl
  | cons _ _ ih => simp [ih]
  | swap => simp only [List.sum_cons]; omega
  | trans _ _ ih₁ ih₂ => exact ih₁.trans ih₂

theorem le_getLast_of_sorted (l : List Int) (hne : l ≠ []) (h : l.Pairwise (· ≤ ·)) :
    ∀ y ∈ l, y ≤ l.getLast hne := by
  induction l with
  | nil => exact absurd rfl hne
  | cons a rest ih =>
    intro y hy
    rw [List.pairwise_cons] at h
    cases rest with
    | nil => simp at hy; simp [hy]
    | cons b rest =>
      rw [List.getLast_cons (by simp)]
      rcases List.mem_cons.mp hy with rfl | hy
      · exact h.1 _ (List.getLast_mem _)
      · exact ih (by simp) h.2 y hy

theorem mul_length_le_sum (a : Int) (l : List Int) (h : ∀ y ∈ l, a ≤ y) : a * l.length ≤ l.sum := by
  induction l with
  | nil => simp
  | cons x xs ih =>
    have h1 := ih (fun y hy => h y (List.mem_cons_of_mem _ hy))
    have h2 := h x (by simp)
    simp only [List.length_cons, List.sum_cons]
    have : a * ((xs.length + 1 : Nat) : Int) = a * (xs.length : Int) + a := by
      rw [Int.natCast_succ, Int.mul_add, Int.mul_one]
    omega

theorem sum_le_mul_length (a : Int) (l : List Int) (h : ∀ y ∈ l, y ≤ a) : l.sum ≤ a * l.length := by
  induction l with
  | nil => simp
  | cons x xs ih =>
    have h1 := ih (fun y hy => h y (List.mem_cons_of_mem _ hy))
    have h2 := h x (by simp)
    simp only [List.length_cons, List.sum_cons]
    have : a * ((xs.length + 1 : Nat) : Int) = a * (xs.length : Int) + a := by
      rw [Int.natCast_succ, Int.mul_add, Int.mul_one]
    omega

/-- truncated division by a positive number stays below any upper bound of the quotient -/
theorem tdiv_le_of_le_mul_pos {a b c : Int} (hc : 0 < c) (h : a ≤ b * c) : a.tdiv c ≤ b := by
  have h1 : (-b) * c ≤ -a := by rw [Int.neg_mul]; omega
  have h2 := Int.le_tdiv_of_mul_le hc h1
  rw [Int.neg_tdiv] at h2
  omega

/-- what `exportOf` computes, given the sorted list -/
theorem exportOf_of_sort {l : List Int} {x : Int} {xs : List Int} (h : sortInts l = x :: xs) :
    exportOf l = { min := x, max := (x :: xs).getLast (by simp),
                   avg := Int.tdiv (x :: xs).sum (x :: xs).length } := by
  unfold exportOf
  split
  · rename_i h'; rw [h] at h'; cases h'
  · rename_i y ys h'
    rw [h] at h'
    cases h'
    rfl

end DnsVerif.Window
