/-
C03.4, concrete side, definitions: the family of ranges behind the events that `AddLocation` and
`Rearrange` generate for a subnet list of one map, and the well-formedness conditions W0–W3.
-/
import DnsVerif.Proofs.LpmSweep
import DnsVerif.Proofs.Lpm

namespace DnsVerif.Lpm
open DnsVerif DnsVerif.Rearr DnsVerif.Spec

/-- the rearranger after `AddLocation` of every subnet, in order -/
def addAll (S : List SubnetDecl) : Rearranger :=
  S.foldl (fun r s => addLocation r s.net s.ones s.loc) {}

/-- the ranges one `AddLocation` call stands for (its three branches, exactly as written: the two
default-route tests look at the address only) -/
def rngOf (s : SubnetDecl) : List Rng :=
  if s.net = 0 then
    [⟨0, TOP, s.ones, some s.loc, none⟩, ⟨afterIPv4, TOP, s.ones, some s.loc, none⟩]
  else if s.net = firstIPv4 then [⟨firstIPv4, afterIPv4, s.ones, some s.loc, some s.loc⟩]
  else [⟨blockStart s.net s.ones, blockStart s.net s.ones + blockSize s.ones, s.ones, some s.loc, none⟩]

/-- the implicit null ranges `Rearrange` adds when a default route is missing -/
def R4 : Rng := ⟨firstIPv4, afterIPv4, 0, none, none⟩
def R6a : Rng := ⟨0, TOP, 0, none, none⟩
def R6b : Rng := ⟨afterIPv4, TOP, 0, none, none⟩

def hasV4 (S : List SubnetDecl) : Bool := S.any fun s => s.net = firstIPv4
def hasV6 (S : List SubnetDecl) : Bool := S.any fun s => s.net = 0

def famOf (S : List SubnetDecl) : List Rng :=
  S.flatMap rngOf ++ (if hasV4 S then [] else [R4]) ++ (if hasV6 S then [] else [R6a, R6b])

/-- W0–W3 for the subnets of one map -/
structure SubsWF (S : List SubnetDecl) : Prop where
  ones_le : ∀ s ∈ S, s.ones ≤ 128
  net_lt : ∀ s ∈ S, s.net < 2 ^ 128
  /-- W0: host bits are clear (guaranteed by the `%` line parser) -/
  aligned : ∀ s ∈ S, s.net % 2 ^ (128 - s.ones) = 0
  /-- W1: no two subnets with the same (network, length) -/
  w1 : S.Pairwise fun s t => ¬ (s.net = t.net ∧ s.ones = t.ones)
  /-- W2: network `::` only as `::/0`, network `::ffff:0:0` only as `0.0.0.0/0` -/
  w2 : ∀ s ∈ S, (s.net = 0 → s.ones = 0) ∧ (s.net = firstIPv4 → s.ones = 96)
  /-- W3: no block other than `::/0` (and `0.0.0.0/0` itself) contains `::ffff:0:0/96` -/
  w3 : ∀ s ∈ S, s.net ≠ 0 → s.net ≠ firstIPv4 →
    ¬ (s.net ≤ firstIPv4 ∧ afterIPv4 ≤ s.net + 2 ^ (128 - s.ones))
  loc_len : ∀ s ∈ S, s.loc.length = 2

end DnsVerif.Lpm
