/-
C03.4, concrete side, definitions: the family of ranges behind the events that `AddLocation` and
`Rearrange` generate for a subnet list of one map (`famOf`; the ranges the sweep pushes: `famF`, the
marker events: `markersOf`), and the well-formedness conditions W0, W1 (`SubsWF`).
-/
import DnsVerif.Proofs.LpmSweep
import DnsVerif.Proofs.Lpm

namespace DnsVerif.Lpm
open DnsVerif DnsVerif.Rearr DnsVerif.Spec

/-- the rearranger after `AddLocation` of every subnet, in order -/
def addAll (S : List SubnetDecl) : Rearranger :=
  S.foldl (fun r s => addLocation r s.net s.ones s.loc) {}

/-- the ranges one `AddLocation` call stands for (its three branches, exactly as written: a default
route is `::/0` resp. `0.0.0.0/0` = `::ffff:0:0/96`; any other block — also one that starts at `::` or
`::ffff:0:0` — is an ordinary range) -/
def rngOf (s : SubnetDecl) : List Rng :=
  if s.net = 0 ∧ s.ones = 0 then
    [⟨0, TOP, s.ones, some s.loc, none⟩, ⟨afterIPv4, TOP, s.ones, some s.loc, none⟩]
  else if s.net = firstIPv4 ∧ s.ones = 96 then [⟨firstIPv4, afterIPv4, s.ones, some s.loc, some s.loc⟩]
  else [⟨blockStart s.net s.ones, blockStart s.net s.ones + blockSize s.ones, s.ones, some s.loc, none⟩]

/-- the implicit null ranges `Rearrange` adds when a default route is missing -/
def R4 : Rng := ⟨firstIPv4, afterIPv4, 0, none, none⟩
def R6a : Rng := ⟨0, TOP, 0, none, none⟩
def R6b : Rng := ⟨afterIPv4, TOP, 0, none, none⟩

def hasV4 (S : List SubnetDecl) : Bool := S.any fun s => s.net = firstIPv4 ∧ s.ones = 96
def hasV6 (S : List SubnetDecl) : Bool := S.any fun s => s.net = 0 ∧ s.ones = 0

def famOf (S : List SubnetDecl) : List Rng :=
  S.flatMap rngOf ++ (if hasV4 S then [] else [R4]) ++ (if hasV6 S then [] else [R6a, R6b])

/-- a pseudo range: mask length 0, starting right after the IPv4 range (the upper half of a declared
`::/0`, or the implicit upper null range) -/
def isUpper (R : Rng) : Bool := R.lo = afterIPv4 ∧ R.len = 0

/-- some declared block other than `::/0` lies across `afterIPv4` (with W0: a block `::/n`, 0 < n < 80) -/
def straddle (S : List SubnetDecl) : Bool :=
  S.any fun s => s.ones ≠ 0 ∧ s.net < afterIPv4 ∧ afterIPv4 < s.net + 2 ^ (128 - s.ones)

/-- the ranges the sweep actually pushes: when a declared block lies across `afterIPv4` the pseudo
start point there is not pushed (`resumesIPv6`), so the pseudo ranges are no ranges of the family -/
def famF (S : List SubnetDecl) : List Rng :=
  if straddle S then (famOf S).filter (fun R => !isUpper R) else famOf S

/-- … and their start points are mere marker events then -/
def markersOf (S : List SubnetDecl) : List GEv :=
  if straddle S then ((famOf S).filter isUpper).map (fun R => ⟨R, .start⟩) else []

/-- W0 and W1 for the subnets of one map: nothing else is needed.
History: until commit 828f037 ("only ::/0 and 0.0.0.0/0 are default routes for the rearranger") a
condition W2 was needed (network `::` only as `::/0`, network `::ffff:0:0` only as `0.0.0.0/0`), see
`SubsWFOld`; until commits 277e200 ("an IPv6 range that contains the IPv4 range continues after it")
and d84245a (end points ordered innermost first; an end point replaces its predecessor in the
squash) also W3 (no block other than `::/0` and `0.0.0.0/0` contains `::ffff:0:0/96`), see
`SubsWFW3`. -/
structure SubsWF (S : List SubnetDecl) : Prop where
  ones_le : ∀ s ∈ S, s.ones ≤ 128
  net_lt : ∀ s ∈ S, s.net < 2 ^ 128
  /-- W0: host bits are clear (guaranteed by the `%` line parser) -/
  aligned : ∀ s ∈ S, s.net % 2 ^ (128 - s.ones) = 0
  /-- W1: no two subnets with the same (network, length) -/
  w1 : S.Pairwise fun s t => ¬ (s.net = t.net ∧ s.ones = t.ones)
  loc_len : ∀ s ∈ S, s.loc.length = 2

/-- the former well-formedness: W0, W1 and W3 -/
structure SubsWFW3 (S : List SubnetDecl) : Prop where
  ones_le : ∀ s ∈ S, s.ones ≤ 128
  net_lt : ∀ s ∈ S, s.net < 2 ^ 128
  aligned : ∀ s ∈ S, s.net % 2 ^ (128 - s.ones) = 0
  w1 : S.Pairwise fun s t => ¬ (s.net = t.net ∧ s.ones = t.ones)
  /-- W3: no block other than `::/0` (and `0.0.0.0/0` itself) contains `::ffff:0:0/96`; with W0 the
  blocks this excludes are the 95 proper IPv6-family super-blocks of the IPv4 range: `::/n` for
  1 ≤ n ≤ 80 and `::8000:0:0/81`, `::c000:0:0/82`, …, `::fffe:0:0/95` -/
  w3 : ∀ s ∈ S, ¬ (s.net = 0 ∧ s.ones = 0) → ¬ (s.net = firstIPv4 ∧ s.ones = 96) →
    ¬ (s.net ≤ firstIPv4 ∧ afterIPv4 ≤ s.net + 2 ^ (128 - s.ones))
  loc_len : ∀ s ∈ S, s.loc.length = 2

theorem SubsWFW3.toWF {S : List SubnetDecl} (h : SubsWFW3 S) : SubsWF S :=
  ⟨h.ones_le, h.net_lt, h.aligned, h.w1, h.loc_len⟩

/-- the oldest, strongest well-formedness: W0–W3 with W2 -/
structure SubsWFOld (S : List SubnetDecl) : Prop where
  ones_le : ∀ s ∈ S, s.ones ≤ 128
  net_lt : ∀ s ∈ S, s.net < 2 ^ 128
  aligned : ∀ s ∈ S, s.net % 2 ^ (128 - s.ones) = 0
  w1 : S.Pairwise fun s t => ¬ (s.net = t.net ∧ s.ones = t.ones)
  /-- W2: network `::` only as `::/0`, network `::ffff:0:0` only as `0.0.0.0/0` -/
  w2 : ∀ s ∈ S, (s.net = 0 → s.ones = 0) ∧ (s.net = firstIPv4 → s.ones = 96)
  /-- W3 in its former wording -/
  w3 : ∀ s ∈ S, s.net ≠ 0 → s.net ≠ firstIPv4 →
    ¬ (s.net ≤ firstIPv4 ∧ afterIPv4 ≤ s.net + 2 ^ (128 - s.ones))
  loc_len : ∀ s ∈ S, s.loc.length = 2

theorem SubsWFOld.toW3 {S : List SubnetDecl} (h : SubsWFOld S) : SubsWFW3 S :=
  ⟨h.ones_le, h.net_lt, h.aligned, h.w1,
   fun s hs h0 h4 => h.w3 s hs (fun e => h0 ⟨e, (h.w2 s hs).1 e⟩) (fun e => h4 ⟨e, (h.w2 s hs).2 e⟩),
   h.loc_len⟩

/-- the former hypotheses imply the present ones -/
theorem SubsWFOld.toWF {S : List SubnetDecl} (h : SubsWFOld S) : SubsWF S := h.toW3.toWF

end DnsVerif.Lpm
