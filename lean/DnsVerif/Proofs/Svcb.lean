/-
Helper lemmas for C18 (model: `Model/Svcb.lean`, statement side: `Spec/Svcb.lean`).

Sections: stable sort; the parsing loop (empty segments are skipped); per-key conformance of the
emitted values (`conf_*`, `value_conformant`); `net.ParseIP` returns 16 bytes; whatever is accepted is
a valid declaration (`decl_*`, `fromText_declared`); `decode_recovers_declared'`; the print → parse
round trips of every value format (`rt_*`, `parseIP_fmtV6`, `param_roundtrip`, `text_roundtrip`).
-/
import DnsVerif.Spec.Svcb

namespace DnsVerif.Svcb
open DnsVerif DnsVerif.Spec.Svcb

deriving instance DecidableEq for Except

/-! ### stable insertion sort -/

theorem insertBy_perm {α} (k : α → Nat) (a : α) (l : List α) : (insertBy k a l).Perm (a :: l) := by
  induction l with
  | nil => exact List.Perm.refl _
  | cons b bs ih =>
    unfold insertBy
    by_cases h : k a ≤ k b
    · rw [if_pos h]
    · rw [if_neg h]
      exact (List.Perm.cons b ih).trans (List.Perm.swap a b bs)

theorem sortBy_perm {α} (k : α → Nat) (l : List α) : (sortBy k l).Perm l := by
  induction l with
  | nil => exact List.Perm.refl _
  | cons a as ih =>
    unfold sortBy
    exact (insertBy_perm k a _).trans (List.Perm.cons a ih)

theorem insertBy_sorted {α} (k : α → Nat) (a : α) (l : List α)
    (h : l.Pairwise fun x y => k x ≤ k y) : (insertBy k a l).Pairwise fun x y => k x ≤ k y := by
  induction l with
  | nil => simp [insertBy]
  | cons b bs ih =>
    unfold insertBy
    have hb := List.pairwise_cons.mp h
    by_cases hab : k a ≤ k b
    · rw [if_pos hab]
      refine List.pairwise_cons.mpr ⟨?_, h⟩
      intro x hx
      rcases List.mem_cons.mp hx with rfl | hx
      · exact hab
      · exact Nat.le_trans hab (hb.1 x hx)
    · rw [if_neg hab]
      refine List.pairwise_cons.mpr ⟨?_, ih hb.2⟩
      intro x hx
      have := (insertBy_perm k a bs).mem_iff.mp hx
      rcases List.mem_cons.mp this with rfl | hx
      · omega
      · exact hb.1 x hx

theorem sortBy_sorted {α} (k : α → Nat) (l : List α) :
    (sortBy k l).Pairwise fun x y => k x ≤ k y := by
  induction l with
  | nil => simp [sortBy]
  | cons a as ih => unfold sortBy; exact insertBy_sorted k a _ ih

/-- sorted + pairwise distinct keys ⇒ strictly increasing keys -/
theorem sortBy_strict {α} (k : α → Nat) (l : List α) (hd : l.Pairwise fun x y => k x ≠ k y) :
    (sortBy k l).Pairwise fun x y => k x < k y := by
  have hs := sortBy_sorted k l
  have hd' : (sortBy k l).Pairwise fun x y => k x ≠ k y :=
    (sortBy_perm k l).symm.pairwise hd (fun h => Ne.symm h)
  have := hs.and hd'
  exact this.imp (fun ⟨h1, h2⟩ => Nat.lt_of_le_of_ne h1 h2)

/-! ### the parsing loop -/

theorem parseSegs_keys (segs : List Bytes) : ∀ (seen : List Nat) (ps : List Param),
    parseSegs seen segs = .ok ps →
      (ps.Pairwise fun x y => x.key ≠ y.key) ∧ ∀ p ∈ ps, p.key ∉ seen := by
  induction segs with
  | nil => intro seen ps h; simp [parseSegs] at h; subst h; simp
  | cons s rest ih =>
    intro seen ps h
    unfold parseSegs at h
    by_cases he : s.isEmpty = true
    · rw [if_pos he] at h; exact ih _ _ h
    · rw [if_neg he] at h
      cases hp : paramFromText s with
      | error e => rw [hp] at h; simp at h
      | ok p =>
        simp only [hp] at h
        by_cases hs : seen.contains p.key = true
        · rw [if_pos hs] at h; simp at h
        · rw [if_neg hs] at h
          have hs : p.key ∉ seen := by simpa using hs
          cases hr : parseSegs (p.key :: seen) rest with
          | error e => simp [hr] at h
          | ok qs =>
            simp only [hr] at h
            simp at h
            subst h
            obtain ⟨h1, h2⟩ := ih _ _ hr
            constructor
            · refine List.pairwise_cons.mpr ⟨?_, h1⟩
              intro q hq heq
              exact h2 q hq (by rw [heq]; exact List.mem_cons_self)
            · intro q hq
              rcases List.mem_cons.mp hq with rfl | hq
              · exact hs
              · intro hmem; exact h2 q hq (List.mem_cons_of_mem _ hmem)

/-- what `fromText` returns: the sorted parameter list of the loop, which passed the mandatory check -/
theorem fromText_ok {t : Bytes} {l : List Param} (h : fromText t = .ok l) :
    ∃ ps, parseSegs [] (splitOn 0x3b t) = .ok ps ∧ mandatoryCheck ps = .ok () ∧
      l = sortBy Param.key ps := by
  unfold fromText at h
  cases hp : parseSegs [] (splitOn 0x3b t) with
  | error e => rw [hp] at h; simp at h
  | ok ps =>
    simp only [hp] at h
    cases hm : mandatoryCheck ps with
    | error e => simp [hm] at h
    | ok u =>
      simp only [hm] at h
      simp at h
      exact ⟨ps, rfl, hm, h.symm⟩

theorem fromText_keys_lt {t : Bytes} {l : List Param} (h : fromText t = .ok l) :
    l.Pairwise fun x y => x.key < y.key := by
  obtain ⟨ps, hp, _, rfl⟩ := fromText_ok h
  exact sortBy_strict Param.key ps (parseSegs_keys _ _ _ hp).1

def Fits (l : List Param) : Prop := ∀ p ∈ l, p.value.length < 65536
def KeysSmall (l : List Param) : Prop := ∀ p ∈ l, p.key < 65536

theorem u16_dec (n : Nat) (h : n < 65536) :
    (UInt8.ofNat (n / 256 % 256)).toNat * 256 + (UInt8.ofNat (n % 256)).toNat = n := by
  simp only [UInt8.toNat_ofNat']
  omega

theorem decodeRaw_toWire (l : List Param) (hf : Fits l) (hk : KeysSmall l) :
    ∀ fuel, l.length ≤ fuel → decodeRaw fuel (toWire l) = some (l.map fun p => (p.key, p.value)) := by
  induction l with
  | nil => intro fuel _; cases fuel <;> simp [toWire, decodeRaw]
  | cons p ps ih =>
    intro fuel hfuel
    cases fuel with
    | zero => simp at hfuel
    | succ fuel =>
      have hp := hf p List.mem_cons_self
      have hkp := hk p List.mem_cons_self
      have ih' := ih (fun q hq => hf q (List.mem_cons_of_mem _ hq))
        (fun q hq => hk q (List.mem_cons_of_mem _ hq)) fuel (by simpa using hfuel)
      have hw : toWire (p :: ps) =
          UInt8.ofNat (p.key / 256 % 256) :: UInt8.ofNat (p.key % 256) ::
          UInt8.ofNat (p.value.length / 256 % 256) :: UInt8.ofNat (p.value.length % 256) ::
          (p.value ++ toWire ps) := by
        simp [toWire, paramToWire, u16be]
      rw [hw]
      simp only [decodeRaw]
      rw [u16_dec _ hp, u16_dec _ hkp]
      simp [ih']

theorem keyOfName_mem {n : Bytes} {k : Nat} (h : keyOfName n = some k) : (k, n) ∈ keyNames := by
  unfold keyOfName at h
  cases hf : keyNames.find? (fun kv => kv.2 = n) with
  | none => simp [hf] at h
  | some kv =>
    simp [hf] at h
    have hm := List.mem_of_find?_eq_some hf
    have hp := List.find?_some hf
    simp at hp
    subst hp h
    exact hm

theorem keyOfName_le {n : Bytes} {k : Nat} (h : keyOfName n = some k) : k ≤ 6 := by
  have := keyOfName_mem h
  simp [keyNames] at this
  omega

theorem keyOfName_name {n : Bytes} {k : Nat} (h : keyOfName n = some k) : n = nameOfKey k := by
  have := keyOfName_mem h
  simp [keyNames] at this
  rcases this with ⟨rfl, rfl⟩ | ⟨rfl, rfl⟩ | ⟨rfl, rfl⟩ | ⟨rfl, rfl⟩ | ⟨rfl, rfl⟩ | ⟨rfl, rfl⟩ | ⟨rfl, rfl⟩ <;> decide

theorem mandatoryLoop_ok (vs : List Bytes) : ∀ (seen : List Nat) (b : Bytes),
    mandatoryLoop vs seen = .ok b →
    ∃ ks : List Nat, vs.map keyOfName = ks.map some ∧ b = ks.flatMap u16be ∧ 0 ∉ ks ∧ ks.Nodup ∧
      ∀ k ∈ ks, k ∉ seen := by
  induction vs with
  | nil => intro seen b h; simp [mandatoryLoop] at h; subst h; exact ⟨[], by simp⟩
  | cons v rest ih =>
    intro seen b h
    unfold mandatoryLoop at h
    cases hk : keyOfName v with
    | none => simp [hk] at h
    | some k =>
      simp only [hk] at h
      by_cases h0 : k = 0
      · rw [if_pos h0] at h; simp at h
      · rw [if_neg h0] at h
        by_cases hs : seen.contains k = true
        · rw [if_pos hs] at h; simp at h
        · rw [if_neg hs] at h
          have hs : k ∉ seen := by simpa using hs
          cases hr : mandatoryLoop rest (k :: seen) with
          | error e => simp [hr] at h
          | ok b' =>
            simp only [hr] at h
            simp at h
            obtain ⟨ks, h1, h2, h3, h4, h5⟩ := ih _ _ hr
            refine ⟨k :: ks, by simp [hk, h1], by simp [← h, h2], ?_, ?_, ?_⟩
            · simp; exact ⟨fun h => h0 h.symm, h3⟩
            · refine List.nodup_cons.mpr ⟨?_, h4⟩
              intro hmem; exact h5 k hmem List.mem_cons_self
            · intro x hx
              rcases List.mem_cons.mp hx with rfl | hx
              · exact hs
              · intro hmem; exact h5 x hx (List.mem_cons_of_mem _ hmem)

theorem u16s_flatMap (ks : List Nat) (h : ∀ k ∈ ks, k < 65536) : u16s (ks.flatMap u16be) = some ks := by
  induction ks with
  | nil => simp [u16s]
  | cons k ks ih =>
    have hk := h k List.mem_cons_self
    have := ih (fun x hx => h x (List.mem_cons_of_mem _ hx))
    simp only [List.flatMap_cons, u16be, List.cons_append, List.nil_append, u16s, this]
    simp only [UInt8.toNat_ofNat', Option.map_some]
    congr 2
    omega

/-- the segments the loop of `FromText` looks at: the non-empty ones (before /repo e9b4da5: those
before the first empty one) -/
def liveSegs (t : Bytes) : List Bytes := (splitOn 0x3b t).filter (fun s => !s.isEmpty)

/-- segment-by-segment: each live segment parses to the parameter at the same position -/
inductive Parsed : List Bytes → List Param → Prop
  | nil : Parsed [] []
  | cons {s p ss ps} : paramFromText s = .ok p → Parsed ss ps → Parsed (s :: ss) (p :: ps)

theorem Parsed.of_left {ss ps} (h : Parsed ss ps) {s} (hs : s ∈ ss) :
    ∃ p ∈ ps, paramFromText s = .ok p := by
  induction h with
  | nil => simp at hs
  | cons h1 _ ih =>
    rcases List.mem_cons.mp hs with rfl | hs
    · exact ⟨_, List.mem_cons_self, h1⟩
    · obtain ⟨p, hp, h⟩ := ih hs; exact ⟨p, List.mem_cons_of_mem _ hp, h⟩

theorem Parsed.of_right {ss ps} (h : Parsed ss ps) {p} (hp : p ∈ ps) :
    ∃ s ∈ ss, paramFromText s = .ok p := by
  induction h with
  | nil => simp at hp
  | cons h1 _ ih =>
    rcases List.mem_cons.mp hp with rfl | hp
    · exact ⟨_, List.mem_cons_self, h1⟩
    · obtain ⟨s, hs, h⟩ := ih hp; exact ⟨s, List.mem_cons_of_mem _ hs, h⟩

theorem parseSegs_forall2 (segs : List Bytes) : ∀ (seen : List Nat) (ps : List Param),
    parseSegs seen segs = .ok ps →
    Parsed (segs.filter (fun s => !s.isEmpty)) ps := by
  induction segs with
  | nil => intro seen ps h; simp [parseSegs] at h; subst h; exact Parsed.nil
  | cons s rest ih =>
    intro seen ps h
    unfold parseSegs at h
    by_cases he : s.isEmpty = true
    · rw [if_pos he] at h
      have : ¬ ((!s.isEmpty) = true) := by simp [he]
      rw [List.filter_cons, if_neg this]
      exact ih _ _ h
    · rw [if_neg he] at h
      cases hp : paramFromText s with
      | error e => simp [hp] at h
      | ok p =>
        simp only [hp] at h
        by_cases hs : seen.contains p.key = true
        · rw [if_pos hs] at h; simp at h
        · rw [if_neg hs] at h
          cases hr : parseSegs (p.key :: seen) rest with
          | error e => simp [hr] at h
          | ok qs =>
            simp only [hr] at h
            simp at h
            subst h
            have : (!s.isEmpty) = true := by simpa using he
            rw [List.filter_cons, if_pos this]
            exact Parsed.cons hp (ih _ _ hr)

theorem pairwise_key_unique {ps : List Param} (h : ps.Pairwise fun x y => x.key ≠ y.key)
    {p q : Param} (hp : p ∈ ps) (hq : q ∈ ps) (hk : p.key = q.key) : p = q := by
  induction ps with
  | nil => simp at hp
  | cons a as ih =>
    obtain ⟨h1, h2⟩ := List.pairwise_cons.mp h
    rcases List.mem_cons.mp hp with rfl | hp' <;> rcases List.mem_cons.mp hq with rfl | hq'
    · rfl
    · exact absurd hk (h1 q hq')
    · exact absurd hk.symm (h1 p hp')
    · exact ih h2 hp' hq'

/-- the `mandatory` check of `FromText`, as a statement about the accepted list -/
theorem mandatoryCheck_ok {ps : List Param} (hd : ps.Pairwise fun x y => x.key ≠ y.key)
    (h : mandatoryCheck ps = .ok ()) {p : Param} (hp : p ∈ ps) (hk : p.key = 0)
    {ks : List Nat} (hks : u16s p.value = some ks) : ∀ k ∈ ks, ∃ q ∈ ps, q.key = k := by
  unfold mandatoryCheck at h
  cases hf : ps.find? (fun x => x.key = 0) with
  | none =>
    have := List.find?_eq_none.mp hf p hp
    simp [hk] at this
  | some m =>
    have hm := List.mem_of_find?_eq_some hf
    have hm0 : m.key = 0 := by simpa using List.find?_some hf
    have : m = p := pairwise_key_unique hd hm hp (by rw [hm0, hk])
    subst this
    simp only [hf, hks] at h
    by_cases hall : (ks.all fun k => ps.any fun x => x.key = k) = true
    · intro k hk'
      have := List.all_eq_true.mp hall k hk'
      simpa using this
    · rw [if_neg hall] at h; simp at h

theorem paramFromText_ok {s : Bytes} {q : Param} (h : paramFromText s = .ok q) :
    ∃ n v, cut 0x3d s = some (n, v) ∧ keyOfName n = some q.key ∧
      marshalValue q.key (trimQuotes v) = .ok q.value := by
  unfold paramFromText at h
  cases hc : cut 0x3d s with
  | none => simp [hc] at h
  | some nv =>
    obtain ⟨n, v⟩ := nv
    simp only [hc] at h
    cases hk : keyOfName n with
    | none => simp [hk] at h
    | some k =>
      simp only [hk] at h
      by_cases he : k ≠ 2 ∧ v.length = 0
      · rw [if_pos he] at h; simp at h
      · rw [if_neg he] at h
        cases hm : marshalValue k (trimQuotes v) with
        | error e => simp [hm] at h
        | ok d =>
          simp only [hm] at h
          simp at h
          subst h
          exact ⟨n, v, rfl, hk, hm⟩

def mandName : Bytes := nameOfKey 0

theorem mandatory_accepted {t : Bytes} {l : List Param} (h : fromText t = .ok l) :
    ∀ seg ∈ liveSegs t, ∀ v, cut 0x3d seg = some (mandName, v) →
      (splitOn 0x7c (trimQuotes v)).Nodup ∧ mandName ∉ splitOn 0x7c (trimQuotes v) ∧
      ∀ n ∈ splitOn 0x7c (trimQuotes v), ∃ seg' ∈ liveSegs t, ∃ v', cut 0x3d seg' = some (n, v') := by
  obtain ⟨ps, hp, hm, _⟩ := fromText_ok h
  have hpar : Parsed (liveSegs t) ps := parseSegs_forall2 _ _ _ hp
  have hd := (parseSegs_keys _ _ _ hp).1
  intro seg hseg v hcut
  obtain ⟨p, hpm, hpf⟩ := hpar.of_left hseg
  obtain ⟨n, v1, hc1, hk1, hmv⟩ := paramFromText_ok hpf
  rw [hcut] at hc1
  simp at hc1
  obtain ⟨rfl, rfl⟩ := hc1
  have hk0 : p.key = 0 := by
    have : keyOfName mandName = some 0 := by decide
    rw [this] at hk1; exact (Option.some.inj hk1).symm
  rw [hk0] at hmv
  simp only [marshalValue, mandatoryMarshaller] at hmv
  obtain ⟨ks, h1, h2, h3, h4, _⟩ := mandatoryLoop_ok _ _ _ hmv
  have hperm := sortBy_perm (fun v => (keyOfName v).getD 0) (splitOn 0x7c (trimQuotes v))
  have hkeys : ∀ n ∈ splitOn 0x7c (trimQuotes v), ∃ k ∈ ks, keyOfName n = some k := by
    intro n hn
    have : keyOfName n ∈ (sortBy (fun v => (keyOfName v).getD 0) (splitOn 0x7c (trimQuotes v))).map keyOfName :=
      List.mem_map.mpr ⟨n, hperm.mem_iff.mpr hn, rfl⟩
    rw [h1] at this
    obtain ⟨k, hk, hk'⟩ := List.mem_map.mp this
    exact ⟨k, hk, hk'.symm⟩
  have hsmall : ∀ k ∈ ks, k < 65536 := by
    intro k hk
    have : some k ∈ ks.map some := List.mem_map.mpr ⟨k, hk, rfl⟩
    rw [← h1] at this
    obtain ⟨n, _, hn⟩ := List.mem_map.mp this
    have := keyOfName_le hn
    omega
  refine ⟨?_, ?_, ?_⟩
  · have : ((sortBy (fun v => (keyOfName v).getD 0) (splitOn 0x7c (trimQuotes v))).map keyOfName).Nodup := by
      rw [h1]; exact List.Pairwise.map some (fun a b h h' => h (Option.some.inj h')) h4
    exact hperm.nodup_iff.mp (List.Pairwise.of_map keyOfName (fun a b h hab => h (by rw [hab])) this)
  · intro hmem
    obtain ⟨k, hk, hk'⟩ := hkeys _ hmem
    have : keyOfName mandName = some 0 := by decide
    rw [this] at hk'
    have : k = 0 := (Option.some.inj hk').symm
    subst this
    exact h3 hk
  · intro n hn
    obtain ⟨k, hk, hk'⟩ := hkeys n hn
    have hu : u16s p.value = some ks := by rw [h2]; exact u16s_flatMap ks hsmall
    obtain ⟨q, hq, hqk⟩ := mandatoryCheck_ok hd hm hpm hk0 hu k hk
    obtain ⟨seg', hs', hpf'⟩ := hpar.of_right hq
    obtain ⟨n', v', hc', hk'', _⟩ := paramFromText_ok hpf'
    rw [hqk] at hk''
    have : n' = n := by rw [keyOfName_name hk'', keyOfName_name hk']
    subst this
    exact ⟨seg', hs', v', hc'⟩

theorem decodeAddrs_flatten (n : Nat) (hn : 0 < n) (addrs : List Bytes) (h : ∀ a ∈ addrs, a.length = n) :
    ∀ fuel, addrs.length ≤ fuel → decodeAddrs n fuel addrs.flatten = some addrs := by
  induction addrs with
  | nil => intro fuel _; cases fuel <;> simp [decodeAddrs]
  | cons a as ih =>
    intro fuel hf
    cases fuel with
    | zero => simp at hf
    | succ fuel =>
      have ha := h a List.mem_cons_self
      have ih' := ih (fun x hx => h x (List.mem_cons_of_mem _ hx)) fuel (by simpa using hf)
      cases a with
      | nil => simp at ha; omega
      | cons c cs =>
        simp only [List.flatten_cons, List.cons_append]
        unfold decodeAddrs
        have hlen : ¬ (c :: (cs ++ as.flatten)).length < n := by simp at ha ⊢; omega
        rw [if_neg hlen]
        have h1 : (c :: (cs ++ as.flatten)).take n = c :: cs := by
          rw [← List.cons_append, List.take_left' ha]
        have h2 : (c :: (cs ++ as.flatten)).drop n = as.flatten := by
          rw [← List.cons_append, List.drop_left' ha]
        rw [h1, h2, ih']; rfl

theorem decodeAlpn_flatMap (ids : List Bytes) (h : ∀ a ∈ ids, 1 ≤ a.length ∧ a.length ≤ 255) :
    ∀ fuel, ids.length ≤ fuel →
      decodeAlpn fuel (ids.flatMap fun a => UInt8.ofNat a.length :: a) = some ids := by
  induction ids with
  | nil => intro fuel _; cases fuel <;> simp [decodeAlpn]
  | cons a as ih =>
    intro fuel hf
    cases fuel with
    | zero => simp at hf
    | succ fuel =>
      obtain ⟨h1, h2⟩ := h a List.mem_cons_self
      have ih' := ih (fun x hx => h x (List.mem_cons_of_mem _ hx)) fuel (by simpa using hf)
      simp only [List.flatMap_cons, List.cons_append]
      unfold decodeAlpn
      have hl : (UInt8.ofNat a.length).toNat = a.length := by
        simp only [UInt8.toNat_ofNat']; omega
      rw [hl, if_neg (by omega), if_neg (by simp)]
      rw [List.take_left' rfl, List.drop_left' rfl, ih']; rfl

theorem decodeKeys_eq_u16s (b : Bytes) : decodeKeys b = u16s b := by
  induction b using u16s.induct with
  | case1 => rfl
  | case2 => rfl
  | case3 a b rest ih => simp [decodeKeys, u16s, ih]

theorem insertBy_map {α β} (g : α → β) (k : β → Nat) (a : α) (l : List α) :
    insertBy k (g a) (l.map g) = (insertBy (fun x => k (g x)) a l).map g := by
  induction l with
  | nil => rfl
  | cons b bs ih =>
    simp only [List.map_cons, insertBy]
    by_cases h : k (g a) ≤ k (g b)
    · rw [if_pos h, if_pos h]; rfl
    · rw [if_neg h, if_neg h, List.map_cons, ih]

theorem sortBy_map {α β} (g : α → β) (k : β → Nat) (l : List α) :
    sortBy k (l.map g) = (sortBy (fun x => k (g x)) l).map g := by
  induction l with
  | nil => rfl
  | cons a as ih => simp only [List.map_cons, sortBy, ih, insertBy_map]

theorem strictlyIncreasing_of_pairwise (l : List Nat) (h : l.Pairwise (· < ·)) :
    strictlyIncreasing l = true := by
  induction l with
  | nil => rfl
  | cons a as ih =>
    cases as with
    | nil => rfl
    | cons b bs =>
      obtain ⟨h1, h2⟩ := List.pairwise_cons.mp h
      simp [strictlyIncreasing, h1 b List.mem_cons_self, ih h2]

theorem mapM'_some {α β} (f : α → Option β) (l : List α) (r : List β)
    (h : mapM' f l = some r) : l.map f = r.map some := by
  induction l generalizing r with
  | nil => simp [mapM'] at h; subst h; rfl
  | cons a as ih =>
    simp only [mapM'] at h
    cases hfa : f a with
    | none => simp [hfa] at h
    | some x =>
      cases hm : mapM' f as with
      | none => simp [hfa, hm] at h
      | some ys =>
        simp [hfa, hm] at h
        subst h
        simp [hfa, ih ys hm]

theorem ipv4Loop_ok (as : List Bytes) : ∀ b, ipv4Loop as = .ok b →
    ∃ addrs, mapM' (fun a => (parseIP a).bind to4) as = some addrs ∧ b = addrs.flatten := by
  induction as with
  | nil => intro b h; simp [ipv4Loop] at h; subst h; exact ⟨[], rfl, rfl⟩
  | cons a rest ih =>
    intro b h
    unfold ipv4Loop at h
    cases hp : parseIP a with
    | none => simp [hp] at h
    | some ip =>
      simp only [hp] at h
      cases h4 : to4 ip with
      | none => simp [h4] at h
      | some v4 =>
        simp only [h4] at h
        cases hr : ipv4Loop rest with
        | error e => simp [hr] at h
        | ok b' =>
          simp only [hr] at h
          simp at h
          obtain ⟨addrs, h1, h2⟩ := ih _ hr
          refine ⟨v4 :: addrs, ?_, by simp [← h, h2]⟩
          simp [mapM', hp, h4, h1]

theorem ipv6Loop_ok (as : List Bytes) : ∀ b, ipv6Loop as = .ok b →
    ∃ addrs, mapM' (fun a => if a.contains 0x3a then parseIP a else none) as = some addrs ∧
      b = addrs.flatten := by
  induction as with
  | nil => intro b h; simp [ipv6Loop] at h; subst h; exact ⟨[], rfl, rfl⟩
  | cons a rest ih =>
    intro b h
    unfold ipv6Loop at h
    cases hc : a.contains 0x3a with
    | false => simp only [hc, Bool.not_false, if_true] at h; simp at h
    | true =>
      simp only [hc, Bool.not_true, Bool.false_eq_true, if_false] at h
      cases hp : parseIP a with
      | none => simp [hp] at h
      | some ip =>
        simp only [hp] at h
        cases hr : ipv6Loop rest with
        | error e => simp [hr] at h
        | ok b' =>
          simp only [hr] at h
          simp at h
          obtain ⟨addrs, h1, h2⟩ := ih _ hr
          refine ⟨ip :: addrs, ?_, by simp [← h, h2]⟩
          simp only [mapM', hc, if_true, hp, h1]

theorem nodupNat_pairwise (l : List Nat) (h : nodupNat l = true) : l.Pairwise (· ≠ ·) := by
  induction l with
  | nil => exact List.Pairwise.nil
  | cons a as ih =>
    simp [nodupNat] at h
    exact List.pairwise_cons.mpr ⟨fun x hx hax => h.1 (hax ▸ hx), ih h.2⟩

theorem splitOn_ne_nil (sep : UInt8) (b : Bytes) : splitOn sep b ≠ [] := by
  induction b with
  | nil => simp [splitOn]
  | cons c cs ih =>
    unfold splitOn
    by_cases h : c = sep
    · rw [if_pos h]; simp
    · rw [if_neg h]
      cases hs : splitOn sep cs with
      | nil => simp
      | cons x xs => simp

theorem alpnLoop_ok (ids : List Bytes) : ∀ b, alpnLoop ids = .ok b →
    (∀ a ∈ ids, 1 ≤ a.length ∧ a.length ≤ 255) ∧
      b = ids.flatMap fun a => UInt8.ofNat a.length :: a := by
  induction ids with
  | nil => intro b h; simp [alpnLoop] at h; subst h; simp
  | cons a rest ih =>
    intro b h
    unfold alpnLoop at h
    by_cases hl : a.length = 0 ∨ a.length > 255
    · rw [if_pos hl] at h; simp at h
    · rw [if_neg hl] at h
      cases hr : alpnLoop rest with
      | error e => simp [hr] at h
      | ok b' =>
        simp only [hr] at h
        simp at h
        obtain ⟨h1, h2⟩ := ih _ hr
        refine ⟨?_, by simp [← h, h2]⟩
        intro x hx
        rcases List.mem_cons.mp hx with rfl | hx
        · omega
        · exact h1 x hx

theorem conf_alpn (w data : Bytes) (dv : Value) (hm : marshalValue 1 w = .ok data)
    (hd : declValue 1 w = some dv) :
    decodeValue 1 data = some dv ∧ dv.key = 1 := by
  simp only [marshalValue, alpnMarshaller] at hm
  obtain ⟨hv, hm⟩ := alpnLoop_ok _ _ hm
  simp [declValue] at hd
  subst hd hm
  have hne : splitOn 0x7c w ≠ [] := splitOn_ne_nil _ _
  have hlen : (splitOn 0x7c w).length ≤
      ((splitOn 0x7c w).flatMap fun a => UInt8.ofNat a.length :: a).length := by
    generalize splitOn 0x7c w = l
    induction l with
    | nil => simp
    | cons a as ih => simp at ih ⊢; omega
  have := decodeAlpn_flatMap (splitOn 0x7c w) hv _ hlen
  simp only [decodeValue, this]
  simp [hne, Value.key]

theorem conf_port (w data : Bytes) (dv : Value) (hm : marshalValue 3 w = .ok data)
    (hd : declValue 3 w = some dv) :
    decodeValue 3 data = some dv ∧ dv.key = 3 := by
  simp only [marshalValue, portMarshaller] at hm
  simp only [declValue] at hd
  cases hp : parseUint16 w with
  | none => simp [hp] at hm
  | some n =>
    simp [hp] at hm hd
    subst hm hd
    have hn : n < 65536 := by
      unfold parseUint16 at hp
      split at hp
      · simp at hp
      · split at hp
        · simp only at hp
          split at hp
          · simp at hp; omega
          · simp at hp
        · simp at hp
    simp only [decodeValue, u16be, Value.key, UInt8.toNat_ofNat', and_true]
    congr 2
    omega

theorem flatten_length_ge (n : Nat) (hn : 0 < n) (addrs : List Bytes) (h : ∀ a ∈ addrs, a.length = n) :
    addrs.length ≤ addrs.flatten.length := by
  induction addrs with
  | nil => simp
  | cons a as ih =>
    have := h a List.mem_cons_self
    have := ih (fun x hx => h x (List.mem_cons_of_mem _ hx))
    simp only [List.flatten_cons, List.length_append, List.length_cons]; omega

theorem conf_ipv4 (w data : Bytes) (dv : Value) (hm : marshalValue 4 w = .ok data)
    (hd : declValue 4 w = some dv) (hv : valid dv = true) :
    decodeValue 4 data = some dv ∧ dv.key = 4 := by
  simp only [marshalValue, ipv4hintMarshaller] at hm
  obtain ⟨addrs, h1, h2⟩ := ipv4Loop_ok _ _ hm
  simp only [declValue, h1, Option.map_some] at hd
  have hd := Option.some.inj hd
  subst hd h2
  simp [valid] at hv
  have hall : ∀ a ∈ addrs, a.length = 4 := fun a ha => hv.2 a ha
  have := decodeAddrs_flatten 4 (by omega) addrs hall _ (flatten_length_ge 4 (by omega) addrs hall)
  simp only [decodeValue, this]
  simp [hv.1, Value.key]

theorem conf_ipv6 (w data : Bytes) (dv : Value) (hm : marshalValue 6 w = .ok data)
    (hd : declValue 6 w = some dv) (hv : valid dv = true) :
    decodeValue 6 data = some dv ∧ dv.key = 6 := by
  simp only [marshalValue, ipv6hintMarshaller] at hm
  obtain ⟨addrs, h1, h2⟩ := ipv6Loop_ok _ _ hm
  simp only [declValue, h1, Option.map_some] at hd
  have hd := Option.some.inj hd
  subst hd h2
  simp [valid] at hv
  have hall : ∀ a ∈ addrs, a.length = 16 := fun a ha => hv.2 a ha
  have := decodeAddrs_flatten 16 (by omega) addrs hall _ (flatten_length_ge 16 (by omega) addrs hall)
  simp only [decodeValue, this]
  simp [hv.1, Value.key]

theorem conf_ech (w data : Bytes) (dv : Value) (hm : marshalValue 5 w = .ok data)
    (hd : declValue 5 w = some dv) :
    decodeValue 5 data = some dv ∧ dv.key = 5 := by
  simp only [marshalValue, echMarshaller] at hm
  simp only [declValue] at hd
  cases hb : b64Decode w with
  | none => simp [hb] at hm
  | some b =>
    simp [hb] at hm hd
    subst hm hd
    simp [decodeValue, Value.key]

theorem conf_nda (w data : Bytes) (dv : Value) (hm : marshalValue 2 w = .ok data)
    (hd : declValue 2 w = some dv) :
    decodeValue 2 data = some dv ∧ dv.key = 2 := by
  simp only [marshalValue, nodefaultalpnMarshaller] at hm
  simp only [declValue] at hd
  by_cases hw : w = []
  · subst hw
    simp at hm hd
    subst hm hd
    simp [decodeValue, Value.key]
  · simp [hw] at hd

theorem map_getD_of_map_some (l : List Bytes) (ks : List Nat)
    (h : l.map keyOfName = ks.map some) : l.map (fun n => (keyOfName n).getD 0) = ks := by
  have := congrArg (List.map (fun o : Option Nat => o.getD 0)) h
  simpa [List.map_map, Function.comp_def] using this

theorem conf_mand (w data : Bytes) (dv : Value) (hm : marshalValue 0 w = .ok data)
    (hd : declValue 0 w = some dv) (hv : valid dv = true) :
    decodeValue 0 data = some dv ∧ dv.key = 0 := by
  simp only [marshalValue, mandatoryMarshaller] at hm
  obtain ⟨ks, h1, h2, _, _, _⟩ := mandatoryLoop_ok _ _ _ hm
  simp only [declValue] at hd
  cases hk' : mapM' keyOfName (splitOn 0x7c w) with
  | none => simp [hk'] at hd
  | some ks' =>
    simp only [hk', Option.map_some] at hd
    have hd := Option.some.inj hd
    have e1 := map_getD_of_map_some _ _ (mapM'_some _ _ _ hk')
    have e2 := map_getD_of_map_some _ _ h1
    have hks : ks = sortBy id ks' := by
      rw [← e1, sortBy_map, ← e2]; rfl
    subst hd
    rw [← hks] at hv
    simp [valid] at hv
    obtain ⟨⟨hne, hnd⟩, h0⟩ := hv
    have hsmall : ∀ k ∈ ks, k < 65536 := by
      intro k hk
      have : some k ∈ ks.map some := List.mem_map.mpr ⟨k, hk, rfl⟩
      rw [← h1] at this
      obtain ⟨n, _, hn⟩ := List.mem_map.mp this
      have := keyOfName_le hn
      omega
    have hsorted : ks.Pairwise (· < ·) := by
      have hs : ks.Pairwise (fun x y => id x ≤ id y) := by rw [hks]; exact sortBy_sorted id ks'
      exact (hs.and (nodupNat_pairwise _ hnd)).imp (fun ⟨a, b⟩ => Nat.lt_of_le_of_ne a b)
    have hdec : decodeKeys data = some ks := by
      rw [decodeKeys_eq_u16s, h2]; exact u16s_flatMap ks hsmall
    simp only [decodeValue, hdec]
    have hsi := strictlyIncreasing_of_pairwise ks hsorted
    simp [hne, hsi, h0, Value.key, ← hks]

/-- per parameter: an RFC 9460 reader of the emitted value sees exactly the declared value -/
theorem value_conformant {seg : Bytes} {p : Param} {dv : Value}
    (hp : paramFromText seg = .ok p) (hd : declSeg seg = some dv) (hv : valid dv = true) :
    decodeValue p.key p.value = some dv ∧ dv.key = p.key := by
  obtain ⟨n, v, hc, hk, hm⟩ := paramFromText_ok hp
  simp only [declSeg, hc, hk] at hd
  have hle := keyOfName_le hk
  generalize p.key = k at *
  match k, hle with
  | 0, _ => exact conf_mand _ _ _ hm hd hv
  | 1, _ => exact conf_alpn _ _ _ hm hd
  | 2, _ => exact conf_nda _ _ _ hm hd
  | 3, _ => exact conf_port _ _ _ hm hd
  | 4, _ => exact conf_ipv4 _ _ _ hm hd hv
  | 5, _ => exact conf_ech _ _ _ hm hd
  | 6, _ => exact conf_ipv6 _ _ _ hm hd hv
  | k + 7, h => omega

/-- position by position: the RFC reader of parameter `p` yields the value `v` -/
inductive Conf : List Param → List Value → Prop
  | nil : Conf [] []
  | cons {p v ps vs} : decodeValue p.key p.value = some v → v.key = p.key → Conf ps vs →
      Conf (p :: ps) (v :: vs)

theorem Conf.of_parsed {segs ps} (hp : Parsed segs ps) : ∀ vs, mapM' declSeg segs = some vs →
    (∀ v ∈ vs, valid v = true) → Conf ps vs := by
  induction hp with
  | nil => intro vs h _; simp [mapM'] at h; subst h; exact Conf.nil
  | @cons s p ss ps' h1 _ ih =>
    intro vs h hv
    simp only [mapM'] at h
    cases hd : declSeg s with
    | none => simp [hd] at h
    | some dv =>
      cases hm : mapM' declSeg ss with
      | none => simp [hd, hm] at h
      | some vs' =>
        simp [hd, hm] at h
        subst h
        obtain ⟨c1, c2⟩ := value_conformant h1 hd (hv dv List.mem_cons_self)
        exact Conf.cons c1 c2 (ih vs' hm (fun v hv' => hv v (List.mem_cons_of_mem _ hv')))

theorem Conf.insert {p v ps vs} (h1 : decodeValue p.key p.value = some v) (h2 : v.key = p.key)
    (h : Conf ps vs) : Conf (insertBy Param.key p ps) (insertBy Value.key v vs) := by
  induction h with
  | nil => exact Conf.cons h1 h2 Conf.nil
  | @cons q w qs ws a b c ih =>
    unfold insertBy
    by_cases hle : p.key ≤ q.key
    · rw [if_pos hle, if_pos (by rw [h2, b]; exact hle)]
      exact Conf.cons h1 h2 (Conf.cons a b c)
    · rw [if_neg hle, if_neg (by rw [h2, b]; exact hle)]
      exact Conf.cons a b ih

theorem Conf.sort {ps vs} (h : Conf ps vs) : Conf (sortBy Param.key ps) (sortBy Value.key vs) := by
  induction h with
  | nil => exact Conf.nil
  | cons a b _ ih => unfold sortBy; exact Conf.insert a b ih

theorem Conf.mapM {ps vs} (h : Conf ps vs) :
    mapM' (fun kv : Nat × Bytes => decodeValue kv.1 kv.2) (ps.map fun p => (p.key, p.value)) = some vs := by
  induction h with
  | nil => rfl
  | cons a _ _ ih => simp only [List.map_cons, mapM', a, ih]

theorem mandatoryPresent_perm {vs d : List Value} (hp : d.Perm vs) (h : mandatoryPresent vs = true) :
    mandatoryPresent d = true := by
  unfold mandatoryPresent at h ⊢
  rw [List.all_eq_true] at h ⊢
  intro v hv
  have := h v (hp.mem_iff.mp hv)
  cases v with
  | mandatory ks =>
    simp only [List.all_eq_true, List.any_eq_true] at this ⊢
    intro k hk
    obtain ⟨x, hx, hxk⟩ := this k hk
    exact ⟨x, hp.mem_iff.mpr hx, hxk⟩
  | _ => rfl

theorem toWire_length_ge (l : List Param) : l.length ≤ (toWire l).length := by
  induction l with
  | nil => simp [toWire]
  | cons p ps ih =>
    simp only [toWire, List.flatMap_cons, List.length_append, List.length_cons] at ih ⊢
    simp only [paramToWire, u16be, List.length_append, List.length_cons, List.length_nil]
    omega

/-! ### `net.ParseIP` returns 16 bytes -/

theorem parseV4_length {s b} (h : parseV4 s = some b) : b.length = 4 := by
  unfold parseV4 at h
  split at h
  · split at h
    · simp at h; subst h; rfl
    · simp at h
  · simp at h

theorem parseV6Loop_len : ∀ (fuel : Nat) (s out : Bytes) (ell : Option Nat) (r : Bytes × Option Nat × Bytes),
    out.length % 2 = 0 → out.length ≤ 16 → parseV6Loop fuel s out ell = some r →
    r.1.length % 2 = 0 ∧ r.1.length ≤ 16 := by
  intro fuel
  induction fuel with
  | zero => intro s out ell r _ _ h; simp [parseV6Loop] at h
  | succ fuel ih =>
    intro s out ell r he hl h
    unfold parseV6Loop at h
    by_cases h16 : out.length ≥ 16
    · rw [if_pos h16] at h; simp at h; subst h; exact ⟨he, hl⟩
    · rw [if_neg h16] at h
      simp only at h
      have hlen2 : ∀ n, (out ++ u16be n).length % 2 = 0 ∧ (out ++ u16be n).length ≤ 16 := by
        intro n; simp [u16be]; omega
      split at h
      · simp at h
      · split at h
        · simp at h
        · split at h
          · split at h
            · simp at h
            · split at h
              · simp at h
              · split at h
                · simp at h
                · rename_i four hf
                  simp at h; subst h
                  have := parseV4_length hf
                  simp; omega
          · split at h
            · simp at h; subst h; exact hlen2 _
            · split at h
              · simp at h
              · split at h
                · simp at h
                · split at h
                  · split at h
                    · simp at h
                    · split at h
                      · simp at h; subst h; exact hlen2 _
                      · exact ih _ _ _ _ (hlen2 _).1 (hlen2 _).2 h
                  · exact ih _ _ _ _ (hlen2 _).1 (hlen2 _).2 h

theorem parseV6_tail {s' : Bytes} {ell' : Option Nat} {b : Bytes}
    (h : (match parseV6Loop 10 s' [] ell' with
      | none => none
      | some (out, ell, rest) =>
        if !rest.isEmpty then none
        else if out.length < 16 then
          match ell with
          | none => none
          | some e => some (out.take e ++ List.replicate (16 - out.length) 0 ++ out.drop e)
        else if ell.isSome then none
        else some out) = some b) : b.length = 16 := by
  split at h
  · simp at h
  · rename_i out ell rest hloop
    have := parseV6Loop_len _ _ _ _ _ (by simp) (by simp) hloop
    simp only at this
    split at h
    · simp at h
    · split at h
      · split at h
        · simp at h
        · simp at h; subst h
          simp; omega
      · split at h
        · simp at h
        · simp at h; subst h; omega

theorem parseV6_length {s b} (h : parseV6 s = some b) : b.length = 16 := by
  unfold parseV6 at h
  split at h
  · simp at h
  · simp only at h
    by_cases hlead : (s.take 2 == [0x3a, 0x3a]) = true
    · simp only [hlead, if_true, true_and] at h
      split at h
      · simp at h; subst h; simp
      · exact parseV6_tail h
    · simp only [hlead, Bool.false_eq_true, if_false, false_and] at h
      exact parseV6_tail h

theorem parseIP_length {s b} (h : parseIP s = some b) : b.length = 16 := by
  unfold parseIP at h
  split at h
  · split at h
    · simp at h
      obtain ⟨a, ha, rfl⟩ := h
      simp [v4prefix, parseV4_length ha]
    · split at h
      · exact parseV6_length h
      · simp at h
  · simp at h

theorem to4_length {ip v} (h : to4 ip = some v) : v.length = 4 := by
  unfold to4 at h
  split at h
  · simp at h; subst h; simp; omega
  · simp at h

/-! ### whatever the code accepts is a valid declaration -/

theorem mapM'_of_map_some {α β} (f : α → Option β) (l : List α) (r : List β)
    (h : l.map f = r.map some) : mapM' f l = some r := by
  induction l generalizing r with
  | nil => cases r <;> simp_all [mapM']
  | cons a as ih =>
    cases r with
    | nil => simp at h
    | cons b bs =>
      simp at h
      simp [mapM', h.1, ih bs h.2]

theorem exists_map_some {α β} (f : α → Option β) (l : List α)
    (h : ∀ a ∈ l, ∃ b, f a = some b) : ∃ r : List β, l.map f = r.map some := by
  induction l with
  | nil => exact ⟨[], rfl⟩
  | cons a as ih =>
    obtain ⟨b, hb⟩ := h a List.mem_cons_self
    obtain ⟨r, hr⟩ := ih (fun x hx => h x (List.mem_cons_of_mem _ hx))
    exact ⟨b :: r, by simp [hb, hr]⟩

theorem nodupNat_of_nodup (l : List Nat) (h : l.Nodup) : nodupNat l = true := by
  induction l with
  | nil => rfl
  | cons a as ih =>
    obtain ⟨h1, h2⟩ := List.nodup_cons.mp h
    simp [nodupNat, h1, ih h2]

theorem decl_mand (w data : Bytes) (hm : marshalValue 0 w = .ok data) :
    ∃ dv, declValue 0 w = some dv ∧ valid dv = true := by
  simp only [marshalValue, mandatoryMarshaller] at hm
  obtain ⟨ks, h1, _, h3, h4, _⟩ := mandatoryLoop_ok _ _ _ hm
  have hperm := sortBy_perm (fun v => (keyOfName v).getD 0) (splitOn 0x7c w)
  have hall : ∀ n ∈ splitOn 0x7c w, ∃ k, keyOfName n = some k := by
    intro n hn
    have : keyOfName n ∈ (sortBy (fun v => (keyOfName v).getD 0) (splitOn 0x7c w)).map keyOfName :=
      List.mem_map.mpr ⟨n, hperm.mem_iff.mpr hn, rfl⟩
    rw [h1] at this
    obtain ⟨k, _, hk'⟩ := List.mem_map.mp this
    exact ⟨k, hk'.symm⟩
  obtain ⟨ks', hks'⟩ := exists_map_some _ _ hall
  have e1 := map_getD_of_map_some _ _ hks'
  have e2 := map_getD_of_map_some _ _ h1
  have hks : ks = sortBy id ks' := by
    rw [← e1, sortBy_map, ← e2]; rfl
  refine ⟨.mandatory (sortBy id ks'), ?_, ?_⟩
  · simp only [declValue, mapM'_of_map_some _ _ _ hks', Option.map_some]
  · rw [← hks]
    have hne : ks ≠ [] := by
      intro h0
      have := congrArg List.length h1
      rw [h0] at this
      simp at this
      have hl := hperm.length_eq
      rw [this] at hl
      exact splitOn_ne_nil _ _ (List.length_eq_zero_iff.mp hl.symm)
    simp [valid, hne, nodupNat_of_nodup _ h4, h3]

theorem decl_alpn (w data : Bytes) (hm : marshalValue 1 w = .ok data) :
    ∃ dv, declValue 1 w = some dv ∧ valid dv = true := by
  simp only [marshalValue, alpnMarshaller] at hm
  obtain ⟨hv, _⟩ := alpnLoop_ok _ _ hm
  refine ⟨_, rfl, ?_⟩
  simp only [valid, Bool.and_eq_true, List.all_eq_true, decide_eq_true_eq]
  exact ⟨by simp [splitOn_ne_nil], fun a ha => by simpa using hv a ha⟩

theorem decl_nda (w data : Bytes) (hm : marshalValue 2 w = .ok data) :
    ∃ dv, declValue 2 w = some dv ∧ valid dv = true := by
  simp only [marshalValue, nodefaultalpnMarshaller] at hm
  by_cases hw : w.length > 0
  · rw [if_pos hw] at hm; simp at hm
  · have : w = [] := List.length_eq_zero_iff.mp (by omega)
    subst this
    exact ⟨.noDefaultAlpn, by simp [declValue], rfl⟩

theorem parseUint16_lt {s : Bytes} {n : Nat} (hp : parseUint16 s = some n) : n < 65536 := by
  unfold parseUint16 at hp
  split at hp
  · simp at hp
  · split at hp
    · simp only at hp
      split at hp
      · simp at hp; omega
      · simp at hp
    · simp at hp

theorem decl_port (w data : Bytes) (hm : marshalValue 3 w = .ok data) :
    ∃ dv, declValue 3 w = some dv ∧ valid dv = true := by
  simp only [marshalValue, portMarshaller] at hm
  cases hp : parseUint16 w with
  | none => simp [hp] at hm
  | some n =>
    refine ⟨.port n, by simp [declValue, hp], ?_⟩
    simp [valid, parseUint16_lt hp]

theorem mapM'_length {α β} (f : α → Option β) (l : List α) (r : List β)
    (h : mapM' f l = some r) : r.length = l.length := by
  have := congrArg List.length (mapM'_some f l r h)
  simpa using this.symm

theorem mapM'_mem {α β} (f : α → Option β) (l : List α) (r : List β)
    (h : mapM' f l = some r) {b : β} (hb : b ∈ r) : ∃ a ∈ l, f a = some b := by
  have := mapM'_some f l r h
  have hm : some b ∈ r.map some := List.mem_map.mpr ⟨b, hb, rfl⟩
  rw [← this] at hm
  obtain ⟨a, ha, hfa⟩ := List.mem_map.mp hm
  exact ⟨a, ha, hfa⟩

theorem decl_ipv4 (w data : Bytes) (hm : marshalValue 4 w = .ok data) :
    ∃ dv, declValue 4 w = some dv ∧ valid dv = true := by
  simp only [marshalValue, ipv4hintMarshaller] at hm
  obtain ⟨addrs, h1, _⟩ := ipv4Loop_ok _ _ hm
  refine ⟨.ipv4hint addrs, by simp [declValue, h1], ?_⟩
  have hne : addrs ≠ [] := by
    intro h0
    have := mapM'_length _ _ _ h1
    rw [h0] at this
    exact splitOn_ne_nil _ _ (List.length_eq_zero_iff.mp this.symm)
  simp only [valid, Bool.and_eq_true, List.all_eq_true, decide_eq_true_eq]
  refine ⟨by simp [hne], ?_⟩
  intro a ha
  obtain ⟨x, _, hx⟩ := mapM'_mem _ _ _ h1 ha
  cases hp : parseIP x with
  | none => simp [hp] at hx
  | some ip => simp [hp] at hx; exact to4_length hx

theorem decl_ech (w data : Bytes) (hm : marshalValue 5 w = .ok data) :
    ∃ dv, declValue 5 w = some dv ∧ valid dv = true := by
  simp only [marshalValue, echMarshaller] at hm
  cases hb : b64Decode w with
  | none => simp [hb] at hm
  | some b => exact ⟨.ech b, by simp [declValue, hb], rfl⟩

theorem decl_ipv6 (w data : Bytes) (hm : marshalValue 6 w = .ok data) :
    ∃ dv, declValue 6 w = some dv ∧ valid dv = true := by
  simp only [marshalValue, ipv6hintMarshaller] at hm
  obtain ⟨addrs, h1, _⟩ := ipv6Loop_ok _ _ hm
  refine ⟨.ipv6hint addrs, by simp only [declValue, h1, Option.map_some], ?_⟩
  have hne : addrs ≠ [] := by
    intro h0
    have := mapM'_length _ _ _ h1
    rw [h0] at this
    exact splitOn_ne_nil _ _ (List.length_eq_zero_iff.mp this.symm)
  simp only [valid, Bool.and_eq_true, List.all_eq_true, decide_eq_true_eq]
  refine ⟨by simp [hne], ?_⟩
  intro a ha
  obtain ⟨x, _, hx⟩ := mapM'_mem _ _ _ h1 ha
  split at hx
  · exact parseIP_length hx
  · simp at hx

/-- per parameter: an accepted segment is a valid declaration -/
theorem value_declared {seg : Bytes} {p : Param} (hp : paramFromText seg = .ok p) :
    ∃ dv, declSeg seg = some dv ∧ valid dv = true := by
  obtain ⟨n, v, hc, hk, hm⟩ := paramFromText_ok hp
  simp only [declSeg, hc, hk]
  have hle := keyOfName_le hk
  generalize p.key = k at *
  match k, hle with
  | 0, _ => exact decl_mand _ _ hm
  | 1, _ => exact decl_alpn _ _ hm
  | 2, _ => exact decl_nda _ _ hm
  | 3, _ => exact decl_port _ _ hm
  | 4, _ => exact decl_ipv4 _ _ hm
  | 5, _ => exact decl_ech _ _ hm
  | 6, _ => exact decl_ipv6 _ _ hm
  | k + 7, h => omega

theorem Parsed.declared {segs ps} (hp : Parsed segs ps) :
    ∃ vs, mapM' declSeg segs = some vs ∧ ∀ v ∈ vs, valid v = true := by
  induction hp with
  | nil => exact ⟨[], rfl, by simp⟩
  | @cons s p ss ps' h1 _ ih =>
    obtain ⟨dv, hd, hv⟩ := value_declared h1
    obtain ⟨vs, hm, hvs⟩ := ih
    refine ⟨dv :: vs, by simp [mapM', hd, hm], ?_⟩
    intro v hv'
    rcases List.mem_cons.mp hv' with rfl | hv'
    · exact hv
    · exact hvs v hv'

theorem Conf.keys {ps vs} (h : Conf ps vs) : vs.map Value.key = ps.map Param.key := by
  induction h with
  | nil => rfl
  | cons _ b _ ih => simp [b, ih]

theorem Conf.mem_right {ps vs} (h : Conf ps vs) {v} (hv : v ∈ vs) :
    ∃ p ∈ ps, decodeValue p.key p.value = some v ∧ v.key = p.key := by
  induction h with
  | nil => simp at hv
  | cons a b _ ih =>
    rcases List.mem_cons.mp hv with rfl | hv
    · exact ⟨_, List.mem_cons_self, a, b⟩
    · obtain ⟨p, hp, h1, h2⟩ := ih hv; exact ⟨p, List.mem_cons_of_mem _ hp, h1, h2⟩

theorem Conf.mem_left {ps vs} (h : Conf ps vs) {p} (hp : p ∈ ps) :
    ∃ v ∈ vs, v.key = p.key := by
  induction h with
  | nil => simp at hp
  | cons _ b _ ih =>
    rcases List.mem_cons.mp hp with rfl | hp
    · exact ⟨_, List.mem_cons_self, b⟩
    · obtain ⟨v, hv, h1⟩ := ih hp; exact ⟨v, List.mem_cons_of_mem _ hv, h1⟩

theorem decodeValue_mandatory {v : Bytes} {ks : List Nat}
    (h : decodeValue 0 v = some (.mandatory ks)) : u16s v = some ks := by
  simp only [decodeValue] at h
  rw [← decodeKeys_eq_u16s]
  cases hd : decodeKeys v with
  | none => simp [hd] at h
  | some ks' =>
    simp only [hd] at h
    split at h
    · simp at h; rw [h]
    · simp at h

/-- Every accepted text is a valid declaration (`Spec.declared`). -/
theorem fromText_declared {t : Bytes} {l : List Param} (h : fromText t = .ok l) :
    ∃ d, declared t = some d := by
  obtain ⟨ps, hp, hm, _⟩ := fromText_ok h
  have hpar : Parsed (liveSegs t) ps := parseSegs_forall2 _ _ _ hp
  have hd := (parseSegs_keys _ _ _ hp).1
  obtain ⟨vs, hvs, hval⟩ := hpar.declared
  have hconf : Conf ps vs := Conf.of_parsed hpar vs hvs hval
  refine ⟨sortBy Value.key vs, ?_⟩
  unfold declared
  change (match mapM' declSeg (liveSegs t) with | none => none | some vs => _) = _
  simp only [hvs]
  rw [if_pos]
  simp only [Bool.and_eq_true]
  refine ⟨⟨List.all_eq_true.mpr hval, ?_⟩, ?_⟩
  · apply nodupNat_of_nodup
    rw [hconf.keys]
    exact List.pairwise_map.mpr hd
  · unfold mandatoryPresent
    rw [List.all_eq_true]
    intro v hv
    cases v with
    | mandatory ks =>
      simp only [List.all_eq_true, List.any_eq_true, decide_eq_true_eq]
      intro k hk
      obtain ⟨p, hpm, h1, h2⟩ := hconf.mem_right hv
      have hk0 : p.key = 0 := by rw [← h2]; rfl
      rw [hk0] at h1
      obtain ⟨q, hq, hqk⟩ := mandatoryCheck_ok hd hm hpm hk0 (decodeValue_mandatory h1) k hk
      obtain ⟨x, hx, hxk⟩ := hconf.mem_left hq
      exact ⟨x, hx, by rw [hxk, hqk]⟩
    | _ => rfl

/-- the RFC 9460 reader recovers the declaration from the emitted bytes -/
theorem decode_recovers_of_declared {t : Bytes} {l : List Param} {d : List Value}
    (h : fromText t = .ok l) (hd : declared t = some d) (hf : Fits l) :
    decodeRFC (toWire l) = some d := by
  obtain ⟨ps, hp, hm, hl⟩ := fromText_ok h
  have hpar : Parsed (liveSegs t) ps := parseSegs_forall2 _ _ _ hp
  unfold declared at hd
  have hl' : (splitOn 0x3b t).filter (fun s => !s.isEmpty) = liveSegs t := rfl
  rw [hl'] at hd
  cases hv : mapM' declSeg (liveSegs t) with
  | none => simp [hv] at hd
  | some vs =>
    simp only [hv] at hd
    split at hd
    · rename_i hc
      simp only [Bool.and_eq_true] at hc
      obtain ⟨⟨hval, _⟩, hmp⟩ := hc
      have hd := Option.some.inj hd
      have hconf : Conf l d := by
        rw [hl, ← hd]
        exact (Conf.of_parsed hpar vs hv (fun v hv' => List.all_eq_true.mp hval v hv')).sort
      have hks : KeysSmall l := by
        intro p hp'
        rw [hl] at hp'
        obtain ⟨s, _, hs⟩ := hpar.of_right ((sortBy_perm _ _).mem_iff.mp hp')
        obtain ⟨n, v, _, hk, _⟩ := paramFromText_ok hs
        have := keyOfName_le hk
        omega
      unfold decodeRFC
      rw [decodeRaw_toWire l hf hks _ (toWire_length_ge l)]
      have hinc : strictlyIncreasing ((l.map fun p => (p.key, p.value)).map (·.1)) = true := by
        apply strictlyIncreasing_of_pairwise
        rw [List.map_map]
        exact List.pairwise_map.mpr (fromText_keys_lt h)
      simp only [hinc, Bool.not_true, Bool.false_eq_true, if_false, hconf.mapM]
      rw [if_pos (mandatoryPresent_perm (by rw [← hd]; exact sortBy_perm _ _) hmp)]
    · simp at hd

theorem decode_recovers_declared' {t : Bytes} {l : List Param}
    (h : fromText t = .ok l) (hf : Fits l) :
    ∃ d, declared t = some d ∧ decodeRFC (toWire l) = some d := by
  obtain ⟨d, hd⟩ := fromText_declared h
  exact ⟨d, hd, decode_recovers_of_declared h hd hf⟩

/-! ## print → parse round trips (for `text_wire_idempotent_partial`) -/


/-! ### split / join / cut / trim -/

theorem splitOn_nosep (sep : UInt8) (a : Bytes) (h : sep ∉ a) : splitOn sep a = [a] := by
  induction a with
  | nil => rfl
  | cons c cs ih =>
    have hc : c ≠ sep := fun e => h (e ▸ List.mem_cons_self)
    have := ih (fun hm => h (List.mem_cons_of_mem _ hm))
    unfold splitOn
    rw [if_neg hc, this]

theorem splitOn_append (sep : UInt8) (a rest : Bytes) (h : sep ∉ a) :
    splitOn sep (a ++ sep :: rest) = a :: splitOn sep rest := by
  induction a with
  | nil => simp [splitOn]
  | cons c cs ih =>
    have hc : c ≠ sep := fun e => h (e ▸ List.mem_cons_self)
    have := ih (fun hm => h (List.mem_cons_of_mem _ hm))
    rw [List.cons_append, splitOn, if_neg hc, this]

theorem intercalate_cons_cons (sep a : Bytes) (b : Bytes) (rest : List Bytes) :
    intercalate sep (a :: b :: rest) = a ++ sep ++ intercalate sep (b :: rest) := rfl

theorem splitOn_intercalate (sep : UInt8) (l : List Bytes) (hne : l ≠ [])
    (h : ∀ a ∈ l, sep ∉ a) : splitOn sep (intercalate [sep] l) = l := by
  induction l with
  | nil => exact absurd rfl hne
  | cons a as ih =>
    cases as with
    | nil => exact splitOn_nosep sep a (h a List.mem_cons_self)
    | cons b bs =>
      rw [intercalate_cons_cons, List.append_assoc, List.singleton_append,
        splitOn_append sep a _ (h a List.mem_cons_self),
        ih (by simp) (fun x hx => h x (List.mem_cons_of_mem _ hx))]

theorem intercalate_head_cons (sep : Bytes) (c : UInt8) (h : Bytes) (t : List Bytes) :
    intercalate sep ((c :: h) :: t) = c :: intercalate sep (h :: t) := by
  cases t <;> rfl

theorem intercalate_splitOn (sep : UInt8) (b : Bytes) : intercalate [sep] (splitOn sep b) = b := by
  induction b with
  | nil => rfl
  | cons c cs ih =>
    unfold splitOn
    by_cases hc : c = sep
    · rw [if_pos hc]
      cases hs : splitOn sep cs with
      | nil => exact absurd hs (splitOn_ne_nil _ _)
      | cons x xs => rw [intercalate_cons_cons, ← hs, ih, hc]; rfl
    · rw [if_neg hc]
      cases hs : splitOn sep cs with
      | nil => exact absurd hs (splitOn_ne_nil _ _)
      | cons x xs =>
        simp only
        rw [intercalate_head_cons, ← hs, ih]

theorem mem_intercalate {sep : Bytes} {l : List Bytes} {c : UInt8}
    (h : c ∈ intercalate sep l) : c ∈ sep ∨ ∃ a ∈ l, c ∈ a := by
  induction l with
  | nil => simp [intercalate] at h
  | cons a as ih =>
    cases as with
    | nil => exact Or.inr ⟨a, List.mem_cons_self, h⟩
    | cons b bs =>
      rw [intercalate_cons_cons] at h
      rcases List.mem_append.mp h with h | h
      · rcases List.mem_append.mp h with h | h
        · exact Or.inr ⟨a, List.mem_cons_self, h⟩
        · exact Or.inl h
      · rcases ih h with h | ⟨x, hx, hc⟩
        · exact Or.inl h
        · exact Or.inr ⟨x, List.mem_cons_of_mem _ hx, hc⟩

theorem cut_append (sep : UInt8) (a b : Bytes) (h : sep ∉ a) :
    cut sep (a ++ sep :: b) = some (a, b) := by
  induction a with
  | nil => simp [cut]
  | cons c cs ih =>
    have hc : c ≠ sep := fun e => h (e ▸ List.mem_cons_self)
    have := ih (fun hm => h (List.mem_cons_of_mem _ hm))
    rw [List.cons_append]
    unfold cut
    rw [if_neg hc, this]

theorem cut_mem {sep : UInt8} {s a b : Bytes} (h : cut sep s = some (a, b)) :
    s = a ++ sep :: b := by
  induction s generalizing a with
  | nil => simp [cut] at h
  | cons c cs ih =>
    unfold cut at h
    by_cases hc : c = sep
    · rw [if_pos hc] at h; simp at h; obtain ⟨rfl, rfl⟩ := h; simp [hc]
    · rw [if_neg hc] at h
      cases hr : cut sep cs with
      | none => simp [hr] at h
      | some ab =>
        obtain ⟨a', b'⟩ := ab
        simp [hr] at h
        obtain ⟨rfl, rfl⟩ := h
        rw [ih hr]; rfl

/-- no `"` at either end -/
def Clean (s : Bytes) : Prop := s.head? ≠ some dquote ∧ s.getLast? ≠ some dquote

theorem dropWhile_head {p : UInt8 → Bool} {s : Bytes} (h : ∀ c, s.head? = some c → p c = false) :
    s.dropWhile p = s := by
  cases s with
  | nil => rfl
  | cons c cs => simp [List.dropWhile, h c rfl]

theorem trimQuotes_wrap {s : Bytes} (h : Clean s) : trimQuotes (dquote :: (s ++ [dquote])) = s := by
  unfold trimQuotes
  have h1 : (dquote :: (s ++ [dquote])).dropWhile (· == dquote) = (s ++ [dquote]).dropWhile (· == dquote) := by
    simp [List.dropWhile]
  rw [h1]
  cases s with
  | nil => simp [List.dropWhile]
  | cons c cs =>
    have hc : (c == dquote) = false := by
      have := h.1; simp at this; simpa using this
    have h2 : ((c :: cs) ++ [dquote]).dropWhile (· == dquote) = (c :: cs) ++ [dquote] := by
      simp [hc]
    rw [h2, List.reverse_append]
    have h3 : ([dquote].reverse ++ (c :: cs).reverse).dropWhile (· == dquote) =
        (c :: cs).reverse.dropWhile (· == dquote) := by simp
    rw [h3, dropWhile_head, List.reverse_reverse]
    intro x hx
    have := h.2
    rw [List.head?_reverse] at hx
    rw [hx] at this
    simp at this
    simpa using this

theorem dropWhile_head_not {p : UInt8 → Bool} (s : Bytes) :
    ∀ c, (s.dropWhile p).head? = some c → p c = false := by
  induction s with
  | nil => simp
  | cons a as ih =>
    intro c hc
    by_cases ha : p a = true
    · simp [List.dropWhile, ha] at hc; exact ih c hc
    · simp [List.dropWhile, ha] at hc; subst hc; simpa using ha

theorem trimQuotes_clean (v : Bytes) : Clean (trimQuotes v) := by
  unfold trimQuotes Clean
  constructor
  · -- head of the result = last of reversed-dropped; it is an element surviving the first dropWhile at head
    intro hh
    have hsplit := List.takeWhile_append_dropWhile (p := (· == dquote))
      (l := (v.dropWhile (· == dquote)).reverse)
    have hd : v.dropWhile (· == dquote) =
        (((v.dropWhile (· == dquote)).reverse).dropWhile (· == dquote)).reverse ++
        (((v.dropWhile (· == dquote)).reverse).takeWhile (· == dquote)).reverse := by
      rw [← List.reverse_append, hsplit, List.reverse_reverse]
    have hh' : (v.dropWhile (· == dquote)).head? = some dquote := by
      rw [hd, List.head?_append, hh]; rfl
    have := dropWhile_head_not (p := (· == dquote)) v dquote hh'
    simp at this
  · intro hl
    rw [List.getLast?_reverse] at hl
    have := dropWhile_head_not (p := (· == dquote)) ((v.dropWhile (· == dquote)).reverse) dquote hl
    simp at this


/-! ### decimal numbers -/


theorem digit_toNat {c : Char} (h : c.isDigit = true) : 48 ≤ c.toNat ∧ c.toNat ≤ 57 := by
  simp only [Char.isDigit, Bool.and_eq_true, decide_eq_true_eq] at h
  obtain ⟨h1, h2⟩ := h
  have h1 := UInt32.le_iff_toNat_le.mp h1
  have h2 := UInt32.le_iff_toNat_le.mp h2
  simp at h1 h2
  exact ⟨h1, h2⟩

def chr8 (c : Char) : UInt8 := UInt8.ofNat c.toNat

theorem fmtDec_eq (n : Nat) : fmtDec n = (Nat.toDigits 10 n).map chr8 := rfl

theorem chr8_digit {c : Char} (h : c.isDigit = true) : isDigit (chr8 c) = true ∧ (chr8 c).toNat = c.toNat := by
  obtain ⟨h1, h2⟩ := digit_toNat h
  have : (chr8 c).toNat = c.toNat := by
    simp only [chr8, UInt8.toNat_ofNat']; omega
  refine ⟨?_, this⟩
  simp only [isDigit, this, Bool.and_eq_true, decide_eq_true_eq]
  omega

theorem fmtDec_digits (n : Nat) : ∀ c ∈ fmtDec n, isDigit c = true := by
  intro c hc
  rw [fmtDec_eq] at hc
  obtain ⟨x, hx, rfl⟩ := List.mem_map.mp hc
  exact (chr8_digit (Nat.isDigit_of_mem_toDigits (by decide) (by decide) hx)).1

theorem fmtDec_ne_nil (n : Nat) : fmtDec n ≠ [] := by
  rw [fmtDec_eq]
  intro h
  exact Nat.toDigits_ne_nil (List.map_eq_nil_iff.mp h)

theorem decVal_map (l : List Char) (hl : ∀ c ∈ l, c.isDigit = true) (init : Nat) :
    (l.map chr8).foldl (fun acc c => acc * 10 + (c.toNat - 0x30)) init = Nat.ofDigitChars 10 l init := by
  induction l generalizing init with
  | nil => rfl
  | cons c cs ih =>
    have := (chr8_digit (hl c List.mem_cons_self)).2
    simp only [List.map_cons, List.foldl_cons, Nat.ofDigitChars_cons]
    rw [ih (fun x hx => hl x (List.mem_cons_of_mem _ hx)), this, Nat.mul_comm]
    rfl

theorem decVal_fmtDec (n : Nat) : decVal (fmtDec n) = n := by
  unfold decVal
  rw [fmtDec_eq, decVal_map _ (fun c hc => Nat.isDigit_of_mem_toDigits (by decide) (by decide) hc)]
  exact Nat.ofDigitChars_ten_toDigits

theorem parseUint16_fmtDec (n : Nat) (h : n < 65536) : parseUint16 (fmtDec n) = some n := by
  unfold parseUint16
  have h1 : (fmtDec n).isEmpty = false := by
    cases hf : fmtDec n with
    | nil => exact absurd hf (fmtDec_ne_nil n)
    | cons _ _ => rfl
  have h2 : (fmtDec n).all isDigit = true := List.all_eq_true.mpr (fmtDec_digits n)
  simp only [h1, h2, decVal_fmtDec, if_true, h]
  simp




/-! ### key names -/

theorem nameOfKey_facts (k : Nat) (hk : k ≤ 6) :
    keyOfName (nameOfKey k) = some k ∧ nameOfKey k ≠ [] ∧
    ∀ c ∈ nameOfKey k, c ≠ 0x3d ∧ c ≠ 0x22 ∧ c ≠ 0x3b ∧ c ≠ 0x7c := by
  match k, hk with
  | 0, _ => decide
  | 1, _ => decide
  | 2, _ => decide
  | 3, _ => decide
  | 4, _ => decide
  | 5, _ => decide
  | 6, _ => decide
  | k + 7, h => omega

theorem clean_of_not_mem {s : Bytes} (h : dquote ∉ s) : Clean s := by
  constructor
  · intro hh
    exact h (List.mem_of_mem_head? hh)
  · intro hh
    exact h (List.mem_of_getLast? hh)

theorem sortBy_of_sorted {α} (k : α → Nat) (l : List α) (h : l.Pairwise fun x y => k x ≤ k y) :
    sortBy k l = l := by
  induction l with
  | nil => rfl
  | cons a as ih =>
    obtain ⟨h1, h2⟩ := List.pairwise_cons.mp h
    unfold sortBy
    rw [ih h2]
    cases as with
    | nil => rfl
    | cons b bs => unfold insertBy; rw [if_pos (h1 b List.mem_cons_self)]

/-! ### mandatory -/

theorem mandatoryLoop_complete (ks : List Nat) : ∀ seen, 0 ∉ ks → ks.Nodup → (∀ k ∈ ks, k ∉ seen) →
    (∀ k ∈ ks, k ≤ 6) → mandatoryLoop (ks.map nameOfKey) seen = .ok (ks.flatMap u16be) := by
  induction ks with
  | nil => intros; rfl
  | cons k ks ih =>
    intro seen h0 hnd hs hle
    have hk := (nameOfKey_facts k (hle k List.mem_cons_self)).1
    obtain ⟨hn1, hn2⟩ := List.nodup_cons.mp hnd
    have hk0 : k ≠ 0 := fun e => h0 (e ▸ List.mem_cons_self)
    have hks : ¬ (seen.contains k = true) := by simpa using hs k List.mem_cons_self
    have := ih (k :: seen) (fun hm => h0 (List.mem_cons_of_mem _ hm)) hn2
      (by
        intro x hx hmem
        rcases List.mem_cons.mp hmem with rfl | hmem
        · exact hn1 hx
        · exact hs x (List.mem_cons_of_mem _ hx) hmem)
      (fun x hx => hle x (List.mem_cons_of_mem _ hx))
    simp only [List.map_cons, mandatoryLoop, hk]
    rw [if_neg hk0, if_neg hks, this]
    rfl

theorem rt_mand (w data : Bytes) (hm : marshalValue 0 w = .ok data) :
    ∃ s, unmarshalValue 0 data = some s ∧ marshalValue 0 s = .ok data ∧ 0x3b ∉ s ∧ dquote ∉ s := by
  simp only [marshalValue, mandatoryMarshaller] at hm
  obtain ⟨ks, h1, h2, h3, h4, _⟩ := mandatoryLoop_ok _ _ _ hm
  have e2 := map_getD_of_map_some _ _ h1
  have hle : ∀ k ∈ ks, k ≤ 6 := by
    intro k hk
    have : some k ∈ ks.map some := List.mem_map.mpr ⟨k, hk, rfl⟩
    rw [← h1] at this
    obtain ⟨n, _, hn⟩ := List.mem_map.mp this
    exact keyOfName_le hn
  have hsmall : ∀ k ∈ ks, k < 65536 := fun k hk => by have := hle k hk; omega
  have hsorted : ks.Pairwise (· ≤ ·) := by
    rw [← e2]
    exact List.pairwise_map.mpr (sortBy_sorted _ _)
  have hne : ks ≠ [] := by
    intro h0
    have := congrArg List.length h1
    rw [h0] at this
    simp at this
    have hl := (sortBy_perm (fun v => (keyOfName v).getD 0) (splitOn 0x7c w)).length_eq
    rw [this] at hl
    exact splitOn_ne_nil _ _ (List.length_eq_zero_iff.mp hl.symm)
  refine ⟨intercalate [0x7c] (ks.map nameOfKey), ?_, ?_, ?_, ?_⟩
  · simp only [unmarshalValue, mandatoryUnmarshaller, h2, u16s_flatMap ks hsmall, Option.map_some]
  · simp only [marshalValue, mandatoryMarshaller]
    rw [splitOn_intercalate 0x7c _ (by simpa using hne)]
    · rw [sortBy_of_sorted, mandatoryLoop_complete ks [] h3 h4 (by simp) hle, h2]
      apply List.pairwise_map.mpr
      refine hsorted.imp_of_mem ?_
      intro a b ha hb hab
      simp only [(nameOfKey_facts a (hle a ha)).1, (nameOfKey_facts b (hle b hb)).1, Option.getD_some]
      exact hab
    · intro a ha
      obtain ⟨k, hk, rfl⟩ := List.mem_map.mp ha
      intro hm'
      exact ((nameOfKey_facts k (hle k hk)).2.2 _ hm').2.2.2 rfl
  · intro hm'
    rcases mem_intercalate hm' with h | ⟨a, ha, hc⟩
    · simp at h
    · obtain ⟨k, hk, rfl⟩ := List.mem_map.mp ha
      exact ((nameOfKey_facts k (hle k hk)).2.2 _ hc).2.2.1 rfl
  · intro hm'
    rcases mem_intercalate hm' with h | ⟨a, ha, hc⟩
    · simp [dquote] at h
    · obtain ⟨k, hk, rfl⟩ := List.mem_map.mp ha
      exact ((nameOfKey_facts k (hle k hk)).2.2 _ hc).2.1 rfl

/-! ### alpn -/

theorem alpnIds_flatMap (ids : List Bytes) (h : ∀ a ∈ ids, 1 ≤ a.length ∧ a.length ≤ 255) :
    ∀ fuel, ids.length ≤ fuel →
      alpnIds fuel (ids.flatMap fun a => UInt8.ofNat a.length :: a) = some ids := by
  induction ids with
  | nil => intro fuel _; cases fuel <;> simp [alpnIds]
  | cons a as ih =>
    intro fuel hf
    cases fuel with
    | zero => simp at hf
    | succ fuel =>
      obtain ⟨h1, h2⟩ := h a List.mem_cons_self
      have ih' := ih (fun x hx => h x (List.mem_cons_of_mem _ hx)) fuel (by simpa using hf)
      simp only [List.flatMap_cons, List.cons_append]
      unfold alpnIds
      have hl : (UInt8.ofNat a.length).toNat = a.length := by
        simp only [UInt8.toNat_ofNat']; omega
      rw [hl, if_neg (by simp)]
      rw [List.take_left' rfl, List.drop_left' rfl, ih']; rfl

theorem flatMap_len_ge (ids : List Bytes) :
    ids.length ≤ (ids.flatMap fun a => UInt8.ofNat a.length :: a).length := by
  induction ids with
  | nil => simp
  | cons a as ih => simp at ih ⊢; omega

theorem rt_alpn (w data : Bytes) (hm : marshalValue 1 w = .ok data) :
    unmarshalValue 1 data = some w := by
  simp only [marshalValue, alpnMarshaller] at hm
  obtain ⟨hv, hd⟩ := alpnLoop_ok _ _ hm
  subst hd
  simp only [unmarshalValue, alpnUnmarshaller]
  rw [alpnIds_flatMap _ hv _ (flatMap_len_ge _)]
  simp only [Option.map_some, intercalate_splitOn]

/-! ### port -/

theorem isDigit_ne {c : UInt8} (h : isDigit c = true) : c ≠ 0x3b ∧ c ≠ dquote ∧ c ≠ 0x7c ∧ c ≠ 0x2e := by
  simp only [isDigit, Bool.and_eq_true, decide_eq_true_eq] at h
  refine ⟨?_, ?_, ?_, ?_⟩ <;> (intro e; subst e; simp [dquote] at h)

theorem rt_port (w data : Bytes) (hm : marshalValue 3 w = .ok data) :
    ∃ s, unmarshalValue 3 data = some s ∧ marshalValue 3 s = .ok data ∧ 0x3b ∉ s ∧ dquote ∉ s := by
  simp only [marshalValue, portMarshaller] at hm
  cases hp : parseUint16 w with
  | none => simp [hp] at hm
  | some n =>
    simp [hp] at hm
    subst hm
    have hn := parseUint16_lt hp
    refine ⟨fmtDec n, ?_, ?_, ?_, ?_⟩
    · simp only [unmarshalValue, portUnmarshaller, u16be, u16_dec n hn]
    · simp only [marshalValue, portMarshaller, parseUint16_fmtDec n hn]
    · intro h; exact (isDigit_ne (fmtDec_digits n _ h)).1 rfl
    · intro h; exact (isDigit_ne (fmtDec_digits n _ h)).2.1 rfl



/-! ### ipv4hint -/

theorem chunks_eq_decodeAddrs (n : Nat) : ∀ fuel b, chunks n fuel b = decodeAddrs n fuel b := by
  intro fuel
  induction fuel with
  | zero => intro b; cases b <;> rfl
  | succ fuel ih =>
    intro b
    cases b with
    | nil => rfl
    | cons c cs => simp only [chunks, decodeAddrs, ih]

def octetOK (n : Nat) : Bool :=
  parseOctet (fmtDec n) == some (UInt8.ofNat n)

theorem octet_all : (List.range 256).all octetOK = true := by decide +kernel

theorem parseOctet_fmtDec (x : UInt8) : parseOctet (fmtDec x.toNat) = some x := by
  have := List.all_eq_true.mp octet_all x.toNat (List.mem_range.mpr x.toNat_lt)
  simp only [octetOK, beq_iff_eq] at this
  rw [this, UInt8.ofNat_toNat]

theorem find?_append_of {p : UInt8 → Bool} (d : Bytes) (x : UInt8) (r : Bytes)
    (hd : ∀ c ∈ d, p c = false) (hx : p x = true) : (d ++ x :: r).find? p = some x := by
  induction d with
  | nil => simp [hx]
  | cons c cs ih =>
    simp only [List.cons_append, List.find?, hd c List.mem_cons_self]
    exact ih (fun y hy => hd y (List.mem_cons_of_mem _ hy))

theorem fmtV4_four (a b c d : UInt8) :
    fmtV4 [a, b, c, d] = fmtDec a.toNat ++ 0x2e :: intercalate [0x2e] [fmtDec b.toNat, fmtDec c.toNat, fmtDec d.toNat] := by
  simp [fmtV4, intercalate]

theorem fmtDec_no (n : Nat) (x : UInt8) (hx : isDigit x = false) : x ∉ fmtDec n := by
  intro h; rw [fmtDec_digits n x h] at hx; cases hx

theorem parseIP_fmtV4 (a b c d : UInt8) : parseIP (fmtV4 [a, b, c, d]) = some (v4prefix ++ [a, b, c, d]) := by
  have hfind : (fmtV4 [a, b, c, d]).find? (fun c => c == 0x2e || c == 0x3a || c == 0x25) = some 0x2e := by
    rw [fmtV4_four]
    apply find?_append_of
    · intro x hx
      have := fmtDec_digits _ x hx
      simp only [isDigit, Bool.and_eq_true, decide_eq_true_eq] at this
      have h1 : x ≠ 0x2e := by intro e; subst e; simp at this
      have h2 : x ≠ 0x3a := by intro e; subst e; simp at this
      have h3 : x ≠ 0x25 := by intro e; subst e; simp at this
      simp [h1, h2, h3]
    · rfl
  have hsplit : splitOn 0x2e (fmtV4 [a, b, c, d]) =
      [fmtDec a.toNat, fmtDec b.toNat, fmtDec c.toNat, fmtDec d.toNat] := by
    have : fmtV4 [a, b, c, d] = intercalate [0x2e] [fmtDec a.toNat, fmtDec b.toNat, fmtDec c.toNat, fmtDec d.toNat] := by
      simp [fmtV4]
    rw [this, splitOn_intercalate _ _ (by simp)]
    intro s hs
    simp only [List.mem_cons, List.not_mem_nil, or_false] at hs
    rcases hs with rfl | rfl | rfl | rfl <;> exact fmtDec_no _ _ (by decide)
  unfold parseIP
  rw [hfind]
  simp only [if_true]
  unfold parseV4
  rw [hsplit]
  simp only [parseOctet_fmtDec, Option.map_some]

theorem to4_prefix (v : Bytes) (h : v.length = 4) : to4 (v4prefix ++ v) = some v := by
  unfold to4
  rw [if_pos]
  · rw [List.drop_left' (by rfl)]
  · exact ⟨by simp [v4prefix, h], List.take_left' (by rfl)⟩

theorem len4 {v : Bytes} (h : v.length = 4) : ∃ a b c d, v = [a, b, c, d] := by
  match v, h with
  | [a, b, c, d], _ => exact ⟨a, b, c, d, rfl⟩

theorem fmtV4_chars (v : Bytes) : ∀ c ∈ fmtV4 v, isDigit c = true ∨ c = 0x2e := by
  intro c hc
  unfold fmtV4 at hc
  rcases mem_intercalate hc with h | ⟨s, hs, hcs⟩
  · simp at h; exact Or.inr h
  · obtain ⟨x, _, rfl⟩ := List.mem_map.mp hs
    exact Or.inl (fmtDec_digits _ _ hcs)

theorem ipv4Loop_complete (addrs : List Bytes) (h : ∀ a ∈ addrs, a.length = 4) :
    ipv4Loop (addrs.map fmtV4) = .ok addrs.flatten := by
  induction addrs with
  | nil => rfl
  | cons v vs ih =>
    have hv := h v List.mem_cons_self
    obtain ⟨a, b, c, d, rfl⟩ := len4 hv
    simp only [List.map_cons, ipv4Loop, parseIP_fmtV4, to4_prefix _ hv,
      ih (fun x hx => h x (List.mem_cons_of_mem _ hx))]
    rfl

theorem rt_ipv4 (w data : Bytes) (hm : marshalValue 4 w = .ok data) :
    ∃ s, unmarshalValue 4 data = some s ∧ marshalValue 4 s = .ok data ∧ 0x3b ∉ s ∧ dquote ∉ s := by
  obtain ⟨dv, hd, hv⟩ := decl_ipv4 w data hm
  simp only [marshalValue, ipv4hintMarshaller] at hm
  obtain ⟨addrs, h1, h2⟩ := ipv4Loop_ok _ _ hm
  simp only [declValue, h1, Option.map_some] at hd
  have hd := Option.some.inj hd
  subst hd h2
  simp [valid] at hv
  have hall : ∀ a ∈ addrs, a.length = 4 := fun a ha => hv.2 a ha
  have hne : addrs ≠ [] := hv.1
  have hstr : addrs.map ipString = addrs.map fmtV4 := by
    apply List.map_congr_left
    intro a ha
    simp [ipString, hall a ha]
  refine ⟨intercalate [0x7c] (addrs.map fmtV4), ?_, ?_, ?_, ?_⟩
  · simp only [unmarshalValue, ipv4hintUnmarshaller, chunks_eq_decodeAddrs]
    rw [decodeAddrs_flatten 4 (by omega) addrs hall _ (flatten_length_ge 4 (by omega) addrs hall)]
    simp only [Option.map_some, hstr]
  · simp only [marshalValue, ipv4hintMarshaller]
    rw [splitOn_intercalate 0x7c _ (by simpa using hne)]
    · exact ipv4Loop_complete addrs hall
    · intro s hs hm'
      obtain ⟨a, _, rfl⟩ := List.mem_map.mp hs
      rcases fmtV4_chars a _ hm' with h | h
      · exact (isDigit_ne h).2.2.1 rfl
      · simp at h
  · intro hm'
    rcases mem_intercalate hm' with h | ⟨s, hs, hc⟩
    · simp at h
    · obtain ⟨a, _, rfl⟩ := List.mem_map.mp hs
      rcases fmtV4_chars a _ hc with h | h
      · exact (isDigit_ne h).1 rfl
      · simp at h
  · intro hm'
    rcases mem_intercalate hm' with h | ⟨s, hs, hc⟩
    · simp [dquote] at h
    · obtain ⟨a, _, rfl⟩ := List.mem_map.mp hs
      rcases fmtV4_chars a _ hc with h | h
      · exact (isDigit_ne h).2.1 rfl
      · simp [dquote] at h



/-! ### echconfig (base64) -/

def b64CharOK (n : Nat) : Bool :=
  b64Val (b64Char n) == some n && b64Char n != b64pad && b64Char n != 0x0a && b64Char n != 0x0d &&
  b64Char n != dquote && b64Char n != 0x3b

theorem b64Char_all : (List.range 64).all b64CharOK = true := by decide +kernel

theorem b64Char_facts (n : Nat) (h : n < 64) :
    b64Val (b64Char n) = some n ∧ b64Char n ≠ b64pad ∧ b64Char n ≠ 0x0a ∧ b64Char n ≠ 0x0d ∧
    b64Char n ≠ dquote ∧ b64Char n ≠ 0x3b := by
  have := List.all_eq_true.mp b64Char_all n (List.mem_range.mpr h)
  simp [b64CharOK] at this
  obtain ⟨⟨⟨⟨⟨a, b⟩, c⟩, d⟩, e⟩, f⟩ := this
  exact ⟨a, b, c, d, e, f⟩

/-- a character of the encoder's output -/
def IsB64 (c : UInt8) : Prop := c = b64pad ∨ ∃ n, n < 64 ∧ c = b64Char n

theorem b64Encode_chars (v : Bytes) : ∀ c ∈ b64Encode v, IsB64 c := by
  induction v using b64Encode.induct with
  | case1 => simp [b64Encode]
  | case2 a =>
    intro c hc
    have ha := a.toNat_lt
    simp only [b64Encode, List.mem_cons, List.not_mem_nil, or_false] at hc
    rcases hc with rfl | rfl | rfl | rfl
    · exact Or.inr ⟨_, by omega, rfl⟩
    · exact Or.inr ⟨_, by omega, rfl⟩
    · exact Or.inl rfl
    · exact Or.inl rfl
  | case3 a b =>
    intro c hc
    have ha := a.toNat_lt
    have hb := b.toNat_lt
    simp only [b64Encode, List.mem_cons, List.not_mem_nil, or_false] at hc
    rcases hc with rfl | rfl | rfl | rfl
    · exact Or.inr ⟨_, by omega, rfl⟩
    · exact Or.inr ⟨_, by omega, rfl⟩
    · exact Or.inr ⟨_, by omega, rfl⟩
    · exact Or.inl rfl
  | case4 a b c rest ih =>
    intro x hx
    have ha := a.toNat_lt
    have hb := b.toNat_lt
    have hc := c.toNat_lt
    simp only [b64Encode, List.mem_cons] at hx
    rcases hx with rfl | rfl | rfl | rfl | hx
    · exact Or.inr ⟨_, by omega, rfl⟩
    · exact Or.inr ⟨_, by omega, rfl⟩
    · exact Or.inr ⟨_, by omega, rfl⟩
    · exact Or.inr ⟨_, by omega, rfl⟩
    · exact ih x hx

theorem IsB64.ne {c : UInt8} (h : IsB64 c) : c ≠ 0x0a ∧ c ≠ 0x0d ∧ c ≠ dquote ∧ c ≠ 0x3b := by
  rcases h with rfl | ⟨n, hn, rfl⟩
  · decide
  · obtain ⟨_, _, h1, h2, h3, h4⟩ := b64Char_facts n hn
    exact ⟨h1, h2, h3, h4⟩

theorem b64Encode_eq_nil {v : Bytes} (h : b64Encode v = []) : v = [] := by
  match v with
  | [] => rfl
  | [_] => simp [b64Encode] at h
  | [_, _] => simp [b64Encode] at h
  | _ :: _ :: _ :: _ => simp [b64Encode] at h

theorem ofNat_toNat8 (a : UInt8) : UInt8.ofNat a.toNat = a := UInt8.ofNat_toNat

theorem b64DecodeGo_encode (v : Bytes) : b64DecodeGo (b64Encode v) = some v := by
  induction v using b64Encode.induct with
  | case1 => rfl
  | case2 a =>
    have ha := a.toNat_lt
    obtain ⟨h1, _⟩ := b64Char_facts (a.toNat / 4) (by omega)
    obtain ⟨h2, _⟩ := b64Char_facts (a.toNat % 4 * 16) (by omega)
    simp only [b64Encode, b64DecodeGo, h1, h2, if_true]
    have : (a.toNat / 4 * 64 + a.toNat % 4 * 16) / 16 = a.toNat := by omega
    rw [this, ofNat_toNat8]
  | case3 a b =>
    have ha := a.toNat_lt
    have hb := b.toNat_lt
    obtain ⟨h1, _⟩ := b64Char_facts ((a.toNat * 256 + b.toNat) / 1024) (by omega)
    obtain ⟨h2, _⟩ := b64Char_facts ((a.toNat * 256 + b.toNat) / 16 % 64) (by omega)
    obtain ⟨h3, hp3, _⟩ := b64Char_facts ((a.toNat * 256 + b.toNat) % 16 * 4) (by omega)
    simp only [b64Encode, b64DecodeGo, h1, h2, h3, if_neg hp3, if_true]
    congr 2
    · rw [← ofNat_toNat8 a]; congr 1; simp only [UInt8.toNat_ofNat']; omega
    · congr 1
      rw [← ofNat_toNat8 b]; congr 1; simp only [UInt8.toNat_ofNat']; omega
  | case4 a b c rest ih =>
    have ha := a.toNat_lt
    have hb := b.toNat_lt
    have hc := c.toNat_lt
    obtain ⟨h1, _⟩ := b64Char_facts (((a.toNat * 256 + b.toNat) * 256 + c.toNat) / 262144) (by omega)
    obtain ⟨h2, _⟩ := b64Char_facts (((a.toNat * 256 + b.toNat) * 256 + c.toNat) / 4096 % 64) (by omega)
    obtain ⟨h3, hp3, _⟩ := b64Char_facts (((a.toNat * 256 + b.toNat) * 256 + c.toNat) / 64 % 64) (by omega)
    obtain ⟨h4, hp4, _⟩ := b64Char_facts (((a.toNat * 256 + b.toNat) * 256 + c.toNat) % 64) (by omega)
    have key : ∀ x y z : UInt8, x.toNat = a.toNat → y.toNat = b.toNat → z.toNat = c.toNat →
        x = a ∧ y = b ∧ z = c := by
      intro x y z hx hy hz
      exact ⟨UInt8.toNat_inj.mp hx, UInt8.toNat_inj.mp hy, UInt8.toNat_inj.mp hz⟩
    obtain ⟨e1, e2, e3⟩ := key
      (UInt8.ofNat ((((((a.toNat * 256 + b.toNat) * 256 + c.toNat) / 262144 * 64 +
        ((a.toNat * 256 + b.toNat) * 256 + c.toNat) / 4096 % 64) * 64 +
        ((a.toNat * 256 + b.toNat) * 256 + c.toNat) / 64 % 64) * 64 +
        ((a.toNat * 256 + b.toNat) * 256 + c.toNat) % 64) / 65536))
      (UInt8.ofNat ((((((a.toNat * 256 + b.toNat) * 256 + c.toNat) / 262144 * 64 +
        ((a.toNat * 256 + b.toNat) * 256 + c.toNat) / 4096 % 64) * 64 +
        ((a.toNat * 256 + b.toNat) * 256 + c.toNat) / 64 % 64) * 64 +
        ((a.toNat * 256 + b.toNat) * 256 + c.toNat) % 64) / 256 % 256))
      (UInt8.ofNat ((((((a.toNat * 256 + b.toNat) * 256 + c.toNat) / 262144 * 64 +
        ((a.toNat * 256 + b.toNat) * 256 + c.toNat) / 4096 % 64) * 64 +
        ((a.toNat * 256 + b.toNat) * 256 + c.toNat) / 64 % 64) * 64 +
        ((a.toNat * 256 + b.toNat) * 256 + c.toNat) % 64) % 256))
      (by simp only [UInt8.toNat_ofNat']; omega) (by simp only [UInt8.toNat_ofNat']; omega)
      (by simp only [UInt8.toNat_ofNat']; omega)
    cases hr : b64Encode rest with
    | nil =>
      have := b64Encode_eq_nil hr
      subst this
      simp only [b64Encode, b64DecodeGo, h1, h2, h3, h4, if_neg hp3, if_neg hp4, e1, e2, e3]
    | cons r rs =>
      rw [hr] at ih
      simp only [b64Encode, hr, b64DecodeGo, h1, h2, h3, h4, ih, e1, e2, e3]

theorem b64Decode_encode (v : Bytes) : b64Decode (b64Encode v) = some v := by
  unfold b64Decode
  rw [List.filter_eq_self.mpr, b64DecodeGo_encode]
  intro c hc
  obtain ⟨h1, h2, _⟩ := (b64Encode_chars v c hc).ne
  simp [h1, h2]

theorem rt_ech (data : Bytes) :
    ∃ s, unmarshalValue 5 data = some s ∧ marshalValue 5 s = .ok data ∧ 0x3b ∉ s ∧ dquote ∉ s := by
  refine ⟨b64Encode data, rfl, ?_, ?_, ?_⟩
  · simp only [marshalValue, echMarshaller, b64Decode_encode]
  · intro h; exact (b64Encode_chars _ _ h).ne.2.2.2 rfl
  · intro h; exact (b64Encode_chars _ _ h).ne.2.2.1 rfl


/-! ### `net.IP.String` (IPv6 form) → `net.ParseIP` -/

/-! ### one hex digit -/

theorem hexVal_hexDigitLower : ∀ d, d < 16 → hexVal (hexDigitLower d) = some d := by decide

theorem isHex_hexDigitLower (d : Nat) (h : d < 16) : isHex (hexDigitLower d) = true := by
  unfold isHex; rw [hexVal_hexDigitLower d h]; rfl

theorem isHex_colon : isHex 0x3a = false := by decide
theorem isHex_dot : isHex 0x2e = false := by decide
theorem isHex_pct : isHex 0x25 = false := by decide

theorem isHex_ne_colon {c : UInt8} (h : isHex c = true) : c ≠ 0x3a := by
  intro e; rw [e, isHex_colon] at h; cases h
theorem isHex_ne_dot {c : UInt8} (h : isHex c = true) : c ≠ 0x2e := by
  intro e; rw [e, isHex_dot] at h; cases h
theorem isHex_ne_pct {c : UInt8} (h : isHex c = true) : c ≠ 0x25 := by
  intro e; rw [e, isHex_pct] at h; cases h

/-! ### one group -/

theorem hexNum_nil : hexNum [] = 0 := rfl

theorem hexNum1 (a : Nat) (ha : a < 16) : hexNum [hexDigitLower a] = a := by
  simp only [hexNum, List.foldl, hexVal_hexDigitLower a ha, Option.getD_some]; omega

theorem hexNum2 (a b : Nat) (ha : a < 16) (hb : b < 16) :
    hexNum [hexDigitLower a, hexDigitLower b] = a * 16 + b := by
  simp only [hexNum, List.foldl, hexVal_hexDigitLower a ha, hexVal_hexDigitLower b hb,
    Option.getD_some]; omega

theorem hexNum3 (a b c : Nat) (ha : a < 16) (hb : b < 16) (hc : c < 16) :
    hexNum [hexDigitLower a, hexDigitLower b, hexDigitLower c] = (a * 16 + b) * 16 + c := by
  simp only [hexNum, List.foldl, hexVal_hexDigitLower a ha, hexVal_hexDigitLower b hb,
    hexVal_hexDigitLower c hc, Option.getD_some]; omega

theorem hexNum4 (a b c d : Nat) (ha : a < 16) (hb : b < 16) (hc : c < 16) (hd : d < 16) :
    hexNum [hexDigitLower a, hexDigitLower b, hexDigitLower c, hexDigitLower d]
      = ((a * 16 + b) * 16 + c) * 16 + d := by
  simp only [hexNum, List.foldl, hexVal_hexDigitLower a ha, hexVal_hexDigitLower b hb,
    hexVal_hexDigitLower c hc, hexVal_hexDigitLower d hd, Option.getD_some]; omega

/-- what the parser needs to know about the text of one group -/
structure GroupText (ds : Bytes) (n : Nat) : Prop where
  ne : ds ≠ []
  len : ds.length ≤ 4
  hex : ∀ c ∈ ds, isHex c = true
  num : hexNum ds = n

theorem fmtHex16_spec (n : Nat) (h : n < 65536) : GroupText (fmtHex16 n) n := by
  have m16 : ∀ k : Nat, k % 16 < 16 := fun k => Nat.mod_lt _ (by decide)
  unfold fmtHex16
  by_cases h1 : n ≥ 4096
  · rw [if_pos h1]
    refine ⟨by simp, by simp, ?_, ?_⟩
    · intro c hc
      simp only [List.mem_cons, List.not_mem_nil, or_false] at hc
      rcases hc with rfl | rfl | rfl | rfl <;> exact isHex_hexDigitLower _ (m16 _)
    · rw [hexNum4 _ _ _ _ (m16 _) (m16 _) (m16 _) (m16 _)]; omega
  · rw [if_neg h1]
    by_cases h2 : n ≥ 256
    · rw [if_pos h2]
      refine ⟨by simp, by simp, ?_, ?_⟩
      · intro c hc
        simp only [List.mem_cons, List.not_mem_nil, or_false] at hc
        rcases hc with rfl | rfl | rfl <;> exact isHex_hexDigitLower _ (m16 _)
      · rw [hexNum3 _ _ _ (m16 _) (m16 _) (m16 _)]; omega
    · rw [if_neg h2]
      by_cases h3 : n ≥ 16
      · rw [if_pos h3]
        refine ⟨by simp, by simp, ?_, ?_⟩
        · intro c hc
          simp only [List.mem_cons, List.not_mem_nil, or_false] at hc
          rcases hc with rfl | rfl <;> exact isHex_hexDigitLower _ (m16 _)
        · rw [hexNum2 _ _ (m16 _) (m16 _)]; omega
      · rw [if_neg h3]
        have hn : n < 16 := by omega
        refine ⟨by simp, by simp, ?_, ?_⟩
        · intro c hc
          simp only [List.mem_cons, List.not_mem_nil, or_false] at hc
          rcases hc with rfl; exact isHex_hexDigitLower _ hn
        · exact hexNum1 _ hn

/-! ### groups of a byte string -/

theorem u16be_pair (x y : UInt8) : u16be (x.toNat * 256 + y.toNat) = [x, y] := by
  have hx := x.toNat_lt
  have hy := y.toNat_lt
  unfold u16be
  have e1 : (x.toNat * 256 + y.toNat) / 256 % 256 = x.toNat := by omega
  have e2 : (x.toNat * 256 + y.toNat) % 256 = y.toNat := by omega
  rw [e1, e2, UInt8.ofNat_toNat, UInt8.ofNat_toNat]

theorem groups16_spec : ∀ (a : Bytes), a.length % 2 = 0 →
    (groups16 a).flatMap u16be = a ∧ (∀ g ∈ groups16 a, g < 65536) ∧
    (groups16 a).length * 2 = a.length
  | [], _ => by simp [groups16]
  | [_], h => by simp at h
  | x :: y :: rest, h => by
    have h' : rest.length % 2 = 0 := by simp only [List.length_cons] at h; omega
    obtain ⟨i1, i2, i3⟩ := groups16_spec rest h'
    have hx := x.toNat_lt
    have hy := y.toNat_lt
    refine ⟨?_, ?_, ?_⟩
    · simp only [groups16, List.flatMap_cons, u16be_pair, i1]; rfl
    · intro g hg
      simp only [groups16, List.mem_cons] at hg
      rcases hg with rfl | hg
      · omega
      · exact i2 g hg
    · simp only [groups16, List.length_cons]; omega

/-! ### scanning the digits of a group -/

theorem takeWhile_hex_colon (ds rest : Bytes) (h : ∀ c ∈ ds, isHex c = true) :
    (ds ++ 0x3a :: rest).takeWhile isHex = ds ∧ (ds ++ 0x3a :: rest).dropWhile isHex = 0x3a :: rest := by
  induction ds with
  | nil => simp [isHex_colon]
  | cons c ds ih =>
    have hc : isHex c = true := h c (List.mem_cons_self)
    have ih' := ih (fun c hc => h c (List.mem_cons_of_mem _ hc))
    simp only [List.cons_append, List.takeWhile, List.dropWhile, hc, ih'.1, ih'.2, and_self]

theorem takeWhile_hex_end (ds : Bytes) (h : ∀ c ∈ ds, isHex c = true) :
    ds.takeWhile isHex = ds ∧ ds.dropWhile isHex = [] := by
  induction ds with
  | nil => simp
  | cons c ds ih =>
    have hc : isHex c = true := h c (List.mem_cons_self)
    have ih' := ih (fun c hc => h c (List.mem_cons_of_mem _ hc))
    simp only [List.takeWhile, List.dropWhile, hc, ih'.1, ih'.2, and_self]

/-! ### one iteration of the loop -/

theorem loop_step (fuel : Nat) (s out : Bytes) (ell : Option Nat) (digits rest : Bytes) (n : Nat)
    (hT : s.takeWhile isHex = digits) (hD : s.dropWhile isHex = rest)
    (h16 : out.length < 16) (hg : GroupText digits n) (hdot : rest.head? ≠ some 0x2e) :
    parseV6Loop (fuel + 1) s out ell =
      match rest with
      | [] => some (out ++ u16be n, ell, [])
      | c :: s1 =>
        if c ≠ 0x3a then none
        else match s1 with
          | [] => none
          | c2 :: s2 =>
            if c2 = 0x3a then
              if ell.isSome then none
              else if s2.isEmpty then some (out ++ u16be n, some (out ++ u16be n).length, [])
              else parseV6Loop fuel s2 (out ++ u16be n) (some (out ++ u16be n).length)
            else parseV6Loop fuel s1 (out ++ u16be n) ell := by
  have h1 : ¬ out.length ≥ 16 := by omega
  have h2 : ¬ digits.length > 4 := by have := hg.len; omega
  have h3 : ¬ digits.length = 0 := by
    intro e; exact hg.ne (List.eq_nil_of_length_eq_zero e)
  rw [parseV6Loop]
  simp only [hT, hD]
  rw [if_neg h1, if_neg h2, if_neg h3, if_neg hdot, hg.num]
  cases rest with
  | nil => rfl
  | cons c s1 => cases s1 <;> rfl

theorem step_end (fuel : Nat) (ds out : Bytes) (ell : Option Nat) (n : Nat)
    (h16 : out.length < 16) (hg : GroupText ds n) :
    parseV6Loop (fuel + 1) ds out ell = some (out ++ u16be n, ell, []) := by
  have t := takeWhile_hex_end ds hg.hex
  rw [loop_step fuel ds out ell ds [] n t.1 t.2 h16 hg (by simp)]

theorem step_colon (fuel : Nat) (ds out : Bytes) (ell : Option Nat) (n : Nat) (c2 : UInt8) (s2 : Bytes)
    (h16 : out.length < 16) (hg : GroupText ds n) (hc2 : c2 ≠ 0x3a) :
    parseV6Loop (fuel + 1) (ds ++ 0x3a :: c2 :: s2) out ell
      = parseV6Loop fuel (c2 :: s2) (out ++ u16be n) ell := by
  have t := takeWhile_hex_colon ds (c2 :: s2) hg.hex
  rw [loop_step fuel _ out ell ds _ n t.1 t.2 h16 hg (by simp)]
  simp only [ne_eq, not_true_eq_false, if_false, if_neg hc2]

theorem step_ell_end (fuel : Nat) (ds out : Bytes) (n : Nat)
    (h16 : out.length < 16) (hg : GroupText ds n) :
    parseV6Loop (fuel + 1) (ds ++ [0x3a, 0x3a]) out none
      = some (out ++ u16be n, some (out ++ u16be n).length, []) := by
  have t := takeWhile_hex_colon ds [0x3a] hg.hex
  rw [loop_step fuel _ out none ds _ n t.1 t.2 h16 hg (by simp)]
  simp

theorem step_ell (fuel : Nat) (ds out : Bytes) (n : Nat) (s2 : Bytes)
    (h16 : out.length < 16) (hg : GroupText ds n) (hs2 : s2 ≠ []) :
    parseV6Loop (fuel + 1) (ds ++ 0x3a :: 0x3a :: s2) out none
      = parseV6Loop fuel s2 (out ++ u16be n) (some (out ++ u16be n).length) := by
  have t := takeWhile_hex_colon ds (0x3a :: s2) hg.hex
  rw [loop_step fuel _ out none ds _ n t.1 t.2 h16 hg (by simp)]
  have : s2.isEmpty = false := by cases s2 with
    | nil => exact absurd rfl hs2
    | cons _ _ => rfl
  simp [this]

/-! ### a colon-separated run of groups -/

def txt (gs : List Nat) : Bytes := intercalate [0x3a] (gs.map fmtHex16)

theorem txt_nil : txt [] = [] := rfl
theorem txt_one (g : Nat) : txt [g] = fmtHex16 g := rfl
theorem txt_cons2 (g g' : Nat) (rest : List Nat) :
    txt (g :: g' :: rest) = fmtHex16 g ++ 0x3a :: txt (g' :: rest) := by
  simp [txt, intercalate]

theorem txt_head (g : Nat) (gs : List Nat) (h : g < 65536) :
    ∃ c s, txt (g :: gs) = c :: s ∧ isHex c = true := by
  have sp := fmtHex16_spec g h
  cases hd : fmtHex16 g with
  | nil => exact absurd hd sp.ne
  | cons c ds =>
    have hc : isHex c = true := sp.hex c (by rw [hd]; exact List.mem_cons_self)
    cases gs with
    | nil => exact ⟨c, ds, by rw [txt_one, hd], hc⟩
    | cons g' rest => exact ⟨c, ds ++ 0x3a :: txt (g' :: rest), by rw [txt_cons2, hd]; rfl, hc⟩

theorem u16be_length (n : Nat) : (u16be n).length = 2 := rfl

theorem loop_end : ∀ (gs : List Nat) (k : Nat) (out : Bytes) (ell : Option Nat),
    gs ≠ [] → (∀ g ∈ gs, g < 65536) → out.length + 2 * gs.length ≤ 16 →
    parseV6Loop (gs.length + k) (txt gs) out ell = some (out ++ gs.flatMap u16be, ell, [])
  | [], _, _, _, h, _, _ => absurd rfl h
  | [g], k, out, ell, _, hb, hl => by
    have hg := fmtHex16_spec g (hb g List.mem_cons_self)
    have h16 : out.length < 16 := by simp only [List.length_cons, List.length_nil] at hl; omega
    have e : [g].length + k = k + 1 := by simp only [List.length_cons, List.length_nil]; omega
    rw [e, txt_one, step_end k _ out ell g h16 hg]
    simp
  | g :: g' :: rest, k, out, ell, _, hb, hl => by
    have hg := fmtHex16_spec g (hb g List.mem_cons_self)
    have hg' : g' < 65536 := hb g' (List.mem_cons_of_mem _ List.mem_cons_self)
    have h16 : out.length < 16 := by simp only [List.length_cons] at hl; omega
    have e : (g :: g' :: rest).length + k = ((g' :: rest).length + k) + 1 := by
      simp only [List.length_cons]; omega
    obtain ⟨c2, s2, ht, hc2⟩ := txt_head g' rest hg'
    rw [e, txt_cons2, ht, step_colon _ _ out ell g c2 s2 h16 hg (isHex_ne_colon hc2), ← ht]
    rw [loop_end (g' :: rest) k (out ++ u16be g) ell (by simp)
      (fun x hx => hb x (List.mem_cons_of_mem _ hx))
      (by simp only [List.length_append, u16be_length, List.length_cons] at hl ⊢; omega)]
    simp

theorem loop_ell : ∀ (gs : List Nat) (k : Nat) (out tail : Bytes),
    gs ≠ [] → (∀ g ∈ gs, g < 65536) → out.length + 2 * gs.length ≤ 16 →
    parseV6Loop (gs.length + k) (txt gs ++ 0x3a :: 0x3a :: tail) out none =
      if tail = [] then
        some (out ++ gs.flatMap u16be, some (out ++ gs.flatMap u16be).length, [])
      else parseV6Loop k tail (out ++ gs.flatMap u16be) (some (out ++ gs.flatMap u16be).length)
  | [], _, _, _, h, _, _ => absurd rfl h
  | [g], k, out, tail, _, hb, hl => by
    have hg := fmtHex16_spec g (hb g List.mem_cons_self)
    have h16 : out.length < 16 := by simp only [List.length_cons, List.length_nil] at hl; omega
    have e : [g].length + k = k + 1 := by simp only [List.length_cons, List.length_nil]; omega
    have f : [g].flatMap u16be = u16be g := by simp
    rw [e, txt_one, f]
    by_cases ht : tail = []
    · subst ht
      rw [if_pos rfl, step_ell_end k _ out g h16 hg]
    · rw [if_neg ht, step_ell k _ out g tail h16 hg ht]
  | g :: g' :: rest, k, out, tail, _, hb, hl => by
    have hg := fmtHex16_spec g (hb g List.mem_cons_self)
    have hg' : g' < 65536 := hb g' (List.mem_cons_of_mem _ List.mem_cons_self)
    have h16 : out.length < 16 := by simp only [List.length_cons] at hl; omega
    have e : (g :: g' :: rest).length + k = ((g' :: rest).length + k) + 1 := by
      simp only [List.length_cons]; omega
    obtain ⟨c2, s2, ht, hc2⟩ := txt_head g' rest hg'
    have e2 : txt (g :: g' :: rest) ++ 0x3a :: 0x3a :: tail
        = fmtHex16 g ++ 0x3a :: c2 :: (s2 ++ 0x3a :: 0x3a :: tail) := by
      rw [txt_cons2, ht]; simp
    have e3 : c2 :: (s2 ++ 0x3a :: 0x3a :: tail) = txt (g' :: rest) ++ 0x3a :: 0x3a :: tail := by
      rw [ht]; rfl
    rw [e, e2, step_colon _ _ out none g c2 _ h16 hg (isHex_ne_colon hc2), e3]
    rw [loop_ell (g' :: rest) k (out ++ u16be g) tail (by simp)
      (fun x hx => hb x (List.mem_cons_of_mem _ hx))
      (by simp only [List.length_append, u16be_length, List.length_cons] at hl ⊢; omega)]
    have f : out ++ u16be g ++ (g' :: rest).flatMap u16be = out ++ (g :: g' :: rest).flatMap u16be := by
      simp
    rw [f]

theorem loop_end' (gs : List Nat) (fuel : Nat) (out : Bytes) (ell : Option Nat)
    (hne : gs ≠ []) (hb : ∀ g ∈ gs, g < 65536) (hl : out.length + 2 * gs.length ≤ 16)
    (hf : gs.length ≤ fuel) :
    parseV6Loop fuel (txt gs) out ell = some (out ++ gs.flatMap u16be, ell, []) := by
  have := loop_end gs (fuel - gs.length) out ell hne hb hl
  rwa [show gs.length + (fuel - gs.length) = fuel by omega] at this

/-! ### the zero run found by `bestRun` -/

theorem leadingZeros_zero (rest : List Nat) : leadingZeros (0 :: rest) = leadingZeros rest + 1 := rfl
theorem leadingZeros_succ (g : Nat) (rest : List Nat) : leadingZeros ((g + 1) :: rest) = 0 := rfl
theorem leadingZeros_nil : leadingZeros [] = 0 := rfl

theorem leadingZeros_le_length : ∀ l : List Nat, leadingZeros l ≤ l.length
  | [] => Nat.le_refl 0
  | 0 :: rest => by
    rw [leadingZeros_zero, List.length_cons]; exact Nat.succ_le_succ (leadingZeros_le_length rest)
  | (g + 1) :: rest => by rw [leadingZeros_succ]; exact Nat.zero_le _

theorem take_leadingZeros : ∀ (l : List Nat) (n : Nat), n ≤ leadingZeros l →
    l.take n = List.replicate n 0
  | _, 0, _ => by simp
  | [], n + 1, h => by rw [leadingZeros_nil] at h; omega
  | 0 :: rest, n + 1, h => by
    rw [leadingZeros_zero] at h
    rw [List.take_succ_cons, List.replicate_succ, take_leadingZeros rest n (by omega)]
  | (g + 1) :: rest, n + 1, h => by rw [leadingZeros_succ] at h; omega

theorem bestRun_inv (G : List Nat) : ∀ (rest : List Nat) (i : Nat) (best : Nat × Nat),
    G.drop i = rest → best.2 ≤ leadingZeros (G.drop best.1) →
    (bestRun rest i best).2 ≤ leadingZeros (G.drop (bestRun rest i best).1)
  | [], _, _, _, hb => hb
  | g :: rest, i, best, hd, hb => by
    have hd' : G.drop (i + 1) = rest := by
      rw [← List.drop_drop, hd]; rfl
    rw [bestRun]
    apply bestRun_inv G rest (i + 1) _ hd'
    by_cases hc : leadingZeros (g :: rest) ≥ 2 ∧ leadingZeros (g :: rest) > best.2
    · rw [if_pos hc]; simp only; rw [hd]; exact Nat.le_refl _
    · rw [if_neg hc]; exact hb

theorem bestRun_spec (gs : List Nat) (start len : Nat) (h : bestRun gs 0 (0, 0) = (start, len)) :
    len ≤ leadingZeros (gs.drop start) := by
  have := bestRun_inv gs gs 0 (0, 0) rfl (Nat.zero_le _)
  rw [h] at this; exact this

/-- a list with a run of `len` zeros at `start` -/
theorem split_run (gs : List Nat) (start len : Nat) (h : len ≤ leadingZeros (gs.drop start))
    (hpos : len > 0) :
    gs = gs.take start ++ List.replicate len 0 ++ gs.drop (start + len) ∧
    (gs.take start).length = start ∧
    start + len + (gs.drop (start + len)).length = gs.length := by
  have h1 := leadingZeros_le_length (gs.drop start)
  rw [List.length_drop] at h1
  have h2 := take_leadingZeros _ _ h
  refine ⟨?_, ?_, ?_⟩
  · rw [← h2, List.append_assoc, ← List.drop_drop, List.take_append_drop, List.take_append_drop]
  · rw [List.length_take]; omega
  · rw [List.length_drop]; omega

/-! ### the characters of the text -/

def V6Chars (s : Bytes) : Prop := ∀ c ∈ s, isHex c = true ∨ c = 0x3a

theorem V6Chars.append {s t : Bytes} (hs : V6Chars s) (ht : V6Chars t) : V6Chars (s ++ t) := by
  intro c hc
  rcases List.mem_append.mp hc with h | h
  · exact hs c h
  · exact ht c h

theorem V6Chars.cons_colon {s : Bytes} (hs : V6Chars s) : V6Chars (0x3a :: s) := by
  intro c hc
  rcases List.mem_cons.mp hc with h | h
  · exact Or.inr h
  · exact hs c h

theorem V6Chars.nil : V6Chars [] := by intro c hc; cases hc

theorem V6Chars_group (g : Nat) (h : g < 65536) : V6Chars (fmtHex16 g) :=
  fun c hc => Or.inl ((fmtHex16_spec g h).hex c hc)

theorem txt_chars : ∀ (gs : List Nat), (∀ g ∈ gs, g < 65536) → V6Chars (txt gs)
  | [], _ => V6Chars.nil
  | [g], hb => by rw [txt_one]; exact V6Chars_group g (hb g List.mem_cons_self)
  | g :: g' :: rest, hb => by
    rw [txt_cons2]
    exact (V6Chars_group g (hb g List.mem_cons_self)).append
      (txt_chars (g' :: rest) (fun x hx => hb x (List.mem_cons_of_mem _ hx))).cons_colon

theorem V6Chars.no_pct {s : Bytes} (hs : V6Chars s) : s.contains 0x25 = false := by
  cases h : s.contains 0x25 with
  | false => rfl
  | true =>
    have hm : (0x25 : UInt8) ∈ s := List.contains_iff_mem.mp h
    rcases hs _ hm with h1 | h1
    · rw [isHex_pct] at h1; cases h1
    · exact absurd h1 (by decide)

theorem V6Chars.find {s : Bytes} (hs : V6Chars s) (hc : s.contains 0x3a = true) :
    s.find? (fun c => c == 0x2e || c == 0x3a || c == 0x25) = some 0x3a := by
  induction s with
  | nil => cases hc
  | cons c s ih =>
    rcases hs c List.mem_cons_self with h | h
    · have n1 : (c == 0x2e) = false := beq_false_of_ne (isHex_ne_dot h)
      have n2 : (c == 0x3a) = false := beq_false_of_ne (isHex_ne_colon h)
      have n3 : (c == 0x25) = false := beq_false_of_ne (isHex_ne_pct h)
      have hc' : s.contains 0x3a = true := by
        rw [List.contains_cons] at hc
        have : ((0x3a : UInt8) == c) = false := beq_false_of_ne (fun e => isHex_ne_colon h e.symm)
        rw [this] at hc; exact hc
      rw [List.find?_cons]
      simp only [n1, n2, n3, Bool.or_false]
      exact ih (fun x hx => hs x (List.mem_cons_of_mem _ hx)) hc'
    · subst h; rfl

theorem parseIP_eq_parseV6 {s : Bytes} (hs : V6Chars s) (hc : s.contains 0x3a = true) :
    parseIP s = parseV6 s := by
  unfold parseIP
  rw [hs.find hc]
  show (if (0x3a : UInt8) = 0x2e then _
    else if (0x3a : UInt8) = 0x3a then parseV6 s else none) = _
  rw [if_neg (by decide), if_pos rfl]

/-! ### `parseV6` around the loop -/

theorem lead_false (c : UInt8) (s : Bytes) (hc : isHex c = true) :
    ((c :: s).take 2 == [0x3a, 0x3a]) = false := by
  have n2 : (c == 0x3a) = false := beq_false_of_ne (isHex_ne_colon hc)
  cases s with
  | nil => simp [n2]
  | cons d s => simp [n2]

theorem not_mem_of_contains_false {s : Bytes} {c : UInt8} (h : s.contains c = false) : ¬ c ∈ s := by
  intro hm; rw [List.contains_iff_mem.mpr hm] at h; cases h

theorem parseV6_full (s out : Bytes) (hp : s.contains 0x25 = false)
    (hlead : (s.take 2 == [0x3a, 0x3a]) = false)
    (hloop : parseV6Loop 10 s [] none = some (out, none, [])) (hlen : out.length = 16) :
    parseV6 s = some out := by
  have hm := not_mem_of_contains_false hp
  unfold parseV6
  simp [hm, hlead, hloop, hlen]

theorem parseV6_ell (s out : Bytes) (e : Nat) (hp : s.contains 0x25 = false)
    (hlead : (s.take 2 == [0x3a, 0x3a]) = false)
    (hloop : parseV6Loop 10 s [] none = some (out, some e, [])) (hlen : out.length < 16) :
    parseV6 s = some (out.take e ++ List.replicate (16 - out.length) 0 ++ out.drop e) := by
  have hm := not_mem_of_contains_false hp
  unfold parseV6
  simp [hm, hlead, hloop, hlen]

theorem parseV6_lead (s out : Bytes) (e : Nat) (hp : s.contains 0x25 = false) (hne : s ≠ [])
    (hloop : parseV6Loop 10 s [] (some 0) = some (out, some e, [])) (hlen : out.length < 16) :
    parseV6 (0x3a :: 0x3a :: s)
      = some (out.take e ++ List.replicate (16 - out.length) 0 ++ out.drop e) := by
  have hm := not_mem_of_contains_false hp
  unfold parseV6
  simp [hm, hne, hloop, hlen]

theorem parseV6_zero : parseV6 [0x3a, 0x3a] = some (List.replicate 16 0) := by decide

/-! ### assembling -/

theorem flatMap_u16be_length : ∀ gs : List Nat, (gs.flatMap u16be).length = 2 * gs.length
  | [] => rfl
  | g :: gs => by
    rw [List.flatMap_cons, List.length_append, u16be_length, flatMap_u16be_length gs,
      List.length_cons]; omega

theorem u16be_zero : u16be 0 = [0, 0] := rfl

theorem flatMap_replicate_zero : ∀ n : Nat,
    (List.replicate n 0).flatMap u16be = List.replicate (2 * n) (0 : UInt8)
  | 0 => rfl
  | n + 1 => by
    rw [List.replicate_succ, List.flatMap_cons, flatMap_replicate_zero n,
      show 2 * (n + 1) = (2 * n) + 1 + 1 by omega, List.replicate_succ, List.replicate_succ,
      u16be_zero]; rfl

theorem assemble (H T : Bytes) (n : Nat) (h : H.length + n + T.length = 16) :
    (H ++ T).take H.length ++ List.replicate (16 - (H ++ T).length) 0 ++ (H ++ T).drop H.length
      = H ++ List.replicate n 0 ++ T := by
  have e : 16 - (H ++ T).length = n := by rw [List.length_append]; omega
  rw [e, List.take_left, List.drop_left]

theorem parseV6_plain (gs : List Nat) (h8 : gs.length = 8) (hb : ∀ g ∈ gs, g < 65536) :
    parseV6 (txt gs) = some (gs.flatMap u16be) := by
  cases gs with
  | nil => cases h8
  | cons g rest =>
    obtain ⟨c, s, ht, hc⟩ := txt_head g rest (hb g List.mem_cons_self)
    have hloop := loop_end' (g :: rest) 10 [] none (by simp) hb (by rw [h8]; decide)
      (by rw [h8]; decide)
    rw [List.nil_append] at hloop
    exact parseV6_full _ _ (txt_chars _ hb).no_pct (by rw [ht]; exact lead_false c s hc) hloop
      (by rw [flatMap_u16be_length, h8])

theorem parseV6_ellipsis (hd tl : List Nat) (len : Nat) (hlen : len > 0)
    (h8 : hd.length + len + tl.length = 8)
    (hbh : ∀ g ∈ hd, g < 65536) (hbt : ∀ g ∈ tl, g < 65536) :
    parseV6 (txt hd ++ [0x3a, 0x3a] ++ txt tl)
      = some (hd.flatMap u16be ++ List.replicate (2 * len) 0 ++ tl.flatMap u16be) := by
  have hH := flatMap_u16be_length hd
  have hT := flatMap_u16be_length tl
  have hpct : (txt hd ++ [0x3a, 0x3a] ++ txt tl).contains 0x25 = false :=
    (((txt_chars hd hbh).append V6Chars.nil.cons_colon.cons_colon).append (txt_chars tl hbt)).no_pct
  cases hd with
  | nil =>
    cases tl with
    | nil =>
      have : len = 8 := by simp only [List.length_nil] at h8; omega
      subst this
      exact parseV6_zero
    | cons g rest =>
      obtain ⟨c, s, ht, hc⟩ := txt_head g rest (hbt g List.mem_cons_self)
      have hloop := loop_end' (g :: rest) 10 [] (some 0) (by simp) hbt
        (by simp only [List.length_nil] at h8 ⊢; omega)
        (by simp only [List.length_nil] at h8; omega)
      rw [List.nil_append] at hloop
      have hp : (txt (g :: rest)).contains 0x25 = false := (txt_chars _ hbt).no_pct
      have := parseV6_lead (txt (g :: rest)) _ 0 hp (by rw [ht]; exact List.cons_ne_nil _ _) hloop
        (by rw [hT]; simp only [List.length_nil] at h8; omega)
      have asm := assemble [] ((g :: rest).flatMap u16be) (2 * len)
        (by rw [hT]; simp only [List.length_nil] at h8 ⊢; omega)
      rw [txt_nil]
      exact this.trans (congrArg some asm)
  | cons g0 rest0 =>
    obtain ⟨c, s, ht, hc⟩ := txt_head g0 rest0 (hbh g0 List.mem_cons_self)
    have hlead : ((txt (g0 :: rest0) ++ [0x3a, 0x3a] ++ txt tl).take 2 == [0x3a, 0x3a]) = false := by
      rw [ht]; exact lead_false c _ hc
    have hloop : parseV6Loop 10 (txt (g0 :: rest0) ++ [0x3a, 0x3a] ++ txt tl) [] none
        = some ((g0 :: rest0).flatMap u16be ++ tl.flatMap u16be,
            some ((g0 :: rest0).flatMap u16be).length, []) := by
      have e : txt (g0 :: rest0) ++ [0x3a, 0x3a] ++ txt tl
          = txt (g0 :: rest0) ++ 0x3a :: 0x3a :: txt tl := by simp
      have l1 := loop_ell (g0 :: rest0) (10 - (g0 :: rest0).length) [] (txt tl) (by simp) hbh
        (by rw [List.length_nil]; omega)
      rw [show (g0 :: rest0).length + (10 - (g0 :: rest0).length) = 10 by omega,
        List.nil_append] at l1
      rw [e, l1]
      cases tl with
      | nil => rw [txt_nil, if_pos rfl]; simp
      | cons g1 rest1 =>
        obtain ⟨c1, s1, ht1, _⟩ := txt_head g1 rest1 (hbt g1 List.mem_cons_self)
        rw [if_neg (by rw [ht1]; exact List.cons_ne_nil _ _)]
        exact loop_end' (g1 :: rest1) _ _ _ (by simp) hbt (by rw [hH]; omega) (by omega)
    have := parseV6_ell _ _ _ hpct hlead hloop (by rw [List.length_append, hH, hT]; omega)
    exact this.trans (congrArg some (assemble _ _ (2 * len) (by rw [hH, hT]; omega)))

theorem contains_colon_mid (s t : Bytes) : (s ++ [0x3a, 0x3a] ++ t).contains 0x3a = true := by
  apply List.contains_iff_mem.mpr
  simp

theorem contains_colon_txt (gs : List Nat) (h : gs.length ≥ 2) : (txt gs).contains 0x3a = true := by
  match gs, h with
  | g :: g' :: rest, _ =>
    rw [txt_cons2]
    apply List.contains_iff_mem.mpr
    simp

theorem fmtV6_eq (a : Bytes) (start len : Nat) (h : bestRun (groups16 a) 0 (0, 0) = (start, len)) :
    fmtV6 a = if len = 0 then txt (groups16 a)
      else txt ((groups16 a).take start) ++ [0x3a, 0x3a] ++ txt ((groups16 a).drop (start + len)) := by
  unfold fmtV6
  simp only [h]
  rfl

theorem parseV6_fmtV6 (a : Bytes) (hl : a.length = 16) :
    parseV6 (fmtV6 a) = some a ∧ (fmtV6 a).contains 0x3a = true ∧ V6Chars (fmtV6 a) := by
  obtain ⟨hflat, hb, hlen⟩ := groups16_spec a (by rw [hl])
  have h8 : (groups16 a).length = 8 := by omega
  cases hbr : bestRun (groups16 a) 0 (0, 0) with
  | mk start len =>
    rw [fmtV6_eq a start len hbr]
    by_cases h0 : len = 0
    · rw [if_pos h0]
      refine ⟨?_, contains_colon_txt _ (by omega), txt_chars _ hb⟩
      rw [parseV6_plain _ h8 hb, hflat]
    · rw [if_neg h0]
      have hpos : len > 0 := Nat.pos_of_ne_zero h0
      obtain ⟨hsplit, hs1, hs2⟩ := split_run _ start len (bestRun_spec _ _ _ hbr) hpos
      have hbh : ∀ g ∈ (groups16 a).take start, g < 65536 :=
        fun g hg => hb g (List.mem_of_mem_take hg)
      have hbt : ∀ g ∈ (groups16 a).drop (start + len), g < 65536 :=
        fun g hg => hb g (List.mem_of_mem_drop hg)
      refine ⟨?_, contains_colon_mid _ _,
        ((txt_chars _ hbh).append V6Chars.nil.cons_colon.cons_colon).append (txt_chars _ hbt)⟩
      rw [parseV6_ellipsis _ _ len hpos (by rw [hs1]; omega) hbh hbt]
      congr 1
      rw [← flatMap_replicate_zero, ← List.flatMap_append, ← List.flatMap_append, ← hsplit, hflat]

theorem parseIP_fmtV6 (a : Bytes) (hl : a.length = 16) :
    parseIP (fmtV6 a) = some a ∧ (fmtV6 a).contains 0x3a = true ∧
    (∀ c ∈ fmtV6 a, isHex c = true ∨ c = 0x3a) := by
  obtain ⟨h1, h2, h3⟩ := parseV6_fmtV6 a hl
  exact ⟨by rw [parseIP_eq_parseV6 h3 h2, h1], h2, h3⟩






/-! ### ipv6hint -/

/-- no address of an `ipv6hint` value is IPv4-mapped (`net.IP.To4() == nil` for each of them) -/
def noMappedV (data : Bytes) : Bool :=
  match chunks 16 data.length data with
  | some as => as.all fun a => (to4 a).isNone
  | none => true

theorem isHex_ne_misc {c : UInt8} (h : isHex c = true) : c ≠ 0x7c ∧ c ≠ 0x3b ∧ c ≠ dquote := by
  refine ⟨?_, ?_, ?_⟩ <;> (intro e; subst e; revert h; decide)

theorem ipv6Loop_complete (addrs : List Bytes) (h : ∀ a ∈ addrs, a.length = 16) :
    ipv6Loop (addrs.map fmtV6) = .ok addrs.flatten := by
  induction addrs with
  | nil => rfl
  | cons v vs ih =>
    obtain ⟨h1, h2, _⟩ := parseIP_fmtV6 v (h v List.mem_cons_self)
    simp only [List.map_cons, ipv6Loop, h1, h2, ih (fun x hx => h x (List.mem_cons_of_mem _ hx))]
    rfl

theorem rt_ipv6 (w data : Bytes) (hm : marshalValue 6 w = .ok data) (hnm : noMappedV data = true) :
    ∃ s, unmarshalValue 6 data = some s ∧ marshalValue 6 s = .ok data ∧ 0x3b ∉ s ∧ dquote ∉ s := by
  obtain ⟨dv, hd, hv⟩ := decl_ipv6 w data hm
  simp only [marshalValue, ipv6hintMarshaller] at hm
  obtain ⟨addrs, h1, h2⟩ := ipv6Loop_ok _ _ hm
  simp only [declValue, h1, Option.map_some] at hd
  have hd := Option.some.inj hd
  subst hd h2
  simp [valid] at hv
  have hall : ∀ a ∈ addrs, a.length = 16 := fun a ha => hv.2 a ha
  have hne : addrs ≠ [] := hv.1
  have hch : chunks 16 addrs.flatten.length addrs.flatten = some addrs := by
    rw [chunks_eq_decodeAddrs]
    exact decodeAddrs_flatten 16 (by omega) addrs hall _ (flatten_length_ge 16 (by omega) addrs hall)
  have hstr : addrs.map ipString = addrs.map fmtV6 := by
    apply List.map_congr_left
    intro a ha
    have h4 : to4 a = none := by
      unfold noMappedV at hnm
      rw [hch] at hnm
      exact Option.isNone_iff_eq_none.mp (List.all_eq_true.mp hnm a ha)
    have hl := hall a ha
    unfold ipString
    rw [if_neg (by omega), h4]
  have hchars : ∀ s ∈ addrs.map fmtV6, ∀ c ∈ s, c ≠ 0x7c ∧ c ≠ 0x3b ∧ c ≠ dquote := by
    intro s hs c hc
    obtain ⟨a, ha, rfl⟩ := List.mem_map.mp hs
    rcases (parseIP_fmtV6 a (hall a ha)).2.2 c hc with h | rfl
    · exact isHex_ne_misc h
    · decide
  refine ⟨intercalate [0x7c] (addrs.map fmtV6), ?_, ?_, ?_, ?_⟩
  · simp only [unmarshalValue, ipv6hintUnmarshaller, hch, Option.map_some, hstr]
  · simp only [marshalValue, ipv6hintMarshaller]
    rw [splitOn_intercalate 0x7c _ (by simpa using hne)]
    · exact ipv6Loop_complete addrs hall
    · intro s hs hm'
      exact (hchars s hs _ hm').1 rfl
  · intro hm'
    rcases mem_intercalate hm' with h | ⟨s, hs, hc⟩
    · simp at h
    · exact (hchars s hs _ hc).2.1 rfl
  · intro hm'
    rcases mem_intercalate hm' with h | ⟨s, hs, hc⟩
    · simp [dquote] at h
    · exact (hchars s hs _ hc).2.2 rfl

/-! ### one parameter -/

theorem trimQuotes_subset {v : Bytes} {c : UInt8} (h : c ∈ trimQuotes v) : c ∈ v := by
  unfold trimQuotes at h
  have h := List.mem_reverse.mp h
  have h := (List.dropWhile_sublist _).subset h
  have h := List.mem_reverse.mp h
  exact (List.dropWhile_sublist _).subset h

theorem param_roundtrip {seg : Bytes} {p : Param} (hp : paramFromText seg = .ok p)
    (hseg : 0x3b ∉ seg) (hnm : p.key = 6 → noMappedV p.value = true) :
    ∃ s, paramToText p = some s ∧ paramFromText s = .ok p ∧ s ≠ [] ∧ 0x3b ∉ s := by
  obtain ⟨n, v, hc, hk, hm⟩ := paramFromText_ok hp
  obtain ⟨k, data⟩ := p
  simp only at hk hm hnm
  have hle := keyOfName_le hk
  have hv : 0x3b ∉ v := by
    intro h; apply hseg; rw [cut_mem hc]; exact List.mem_append_right _ (List.mem_cons_of_mem _ h)
  -- the printed value
  have hval : ∃ s', unmarshalValue k data = some s' ∧ marshalValue k s' = .ok data ∧ 0x3b ∉ s' ∧ Clean s' := by
    match k, hle with
    | 0, _ => obtain ⟨s, a, b, c, d⟩ := rt_mand _ _ hm; exact ⟨s, a, b, c, clean_of_not_mem d⟩
    | 1, _ =>
      exact ⟨trimQuotes v, rt_alpn _ _ hm, hm, fun h => hv (trimQuotes_subset h), trimQuotes_clean v⟩
    | 2, _ =>
      have : data = [] := by
        simp only [marshalValue, nodefaultalpnMarshaller] at hm
        split at hm
        · simp at hm
        · simp at hm; exact hm
      subst this
      exact ⟨[], rfl, rfl, by simp, by simp [Clean]⟩
    | 3, _ => obtain ⟨s, a, b, c, d⟩ := rt_port _ _ hm; exact ⟨s, a, b, c, clean_of_not_mem d⟩
    | 4, _ => obtain ⟨s, a, b, c, d⟩ := rt_ipv4 _ _ hm; exact ⟨s, a, b, c, clean_of_not_mem d⟩
    | 5, _ => obtain ⟨s, a, b, c, d⟩ := rt_ech data; exact ⟨s, a, b, c, clean_of_not_mem d⟩
    | 6, _ => obtain ⟨s, a, b, c, d⟩ := rt_ipv6 _ _ hm (hnm rfl); exact ⟨s, a, b, c, clean_of_not_mem d⟩
    | k + 7, h => omega
  obtain ⟨s', hu, hm', hs1, hs2⟩ := hval
  obtain ⟨hn1, hn2, hn3⟩ := nameOfKey_facts k hle
  refine ⟨nameOfKey k ++ [0x3d, dquote] ++ s' ++ [dquote], ?_, ?_, ?_, ?_⟩
  · simp only [paramToText, hu, Option.map_some]
  · have hshape : nameOfKey k ++ [0x3d, dquote] ++ s' ++ [dquote] =
        nameOfKey k ++ 0x3d :: (dquote :: (s' ++ [dquote])) := by simp
    rw [hshape]
    unfold paramFromText
    rw [cut_append 0x3d _ _ (fun h => (hn3 _ h).1 rfl)]
    simp only [hn1]
    rw [if_neg (by simp), trimQuotes_wrap hs2, hm']
  · simp [hn2]
  · intro h
    simp only [List.mem_append, List.mem_cons, List.not_mem_nil, or_false] at h
    rcases h with ((h | h) | h) | h
    · exact (hn3 _ h).2.2.1 rfl
    · rcases h with h | h
      · revert h; decide
      · revert h; decide
    · exact hs1 h
    · revert h; decide

/-! ### the list -/

theorem splitOn_no_sep (sep : UInt8) (b : Bytes) : ∀ s ∈ splitOn sep b, sep ∉ s := by
  induction b with
  | nil => simp [splitOn]
  | cons c cs ih =>
    unfold splitOn
    by_cases hc : c = sep
    · rw [if_pos hc]
      intro s hs
      rcases List.mem_cons.mp hs with rfl | hs
      · simp
      · exact ih s hs
    · rw [if_neg hc]
      cases hsp : splitOn sep cs with
      | nil => intro s hs; simp at hs; subst hs; simp; exact fun e => hc e.symm
      | cons x xs =>
        rw [hsp] at ih
        intro s hs
        rcases List.mem_cons.mp hs with rfl | hs
        · intro hm
          rcases List.mem_cons.mp hm with e | hm
          · exact hc e.symm
          · exact ih x List.mem_cons_self hm
        · exact ih s (List.mem_cons_of_mem _ hs)

theorem parseSegs_complete {ts : List Bytes} {l : List Param} (hp : Parsed ts l) :
    ∀ seen, (∀ s ∈ ts, s ≠ []) → (l.Pairwise fun x y => x.key ≠ y.key) → (∀ p ∈ l, p.key ∉ seen) →
      parseSegs seen ts = .ok l := by
  induction hp with
  | nil => intros; rfl
  | @cons s p ss ps h1 _ ih =>
    intro seen hne hd hs
    obtain ⟨hd1, hd2⟩ := List.pairwise_cons.mp hd
    have hse : ¬ (s.isEmpty = true) := by
      have := hne s List.mem_cons_self
      cases s with
      | nil => exact absurd rfl this
      | cons _ _ => simp
    have hsn : ¬ (seen.contains p.key = true) := by simpa using hs p List.mem_cons_self
    unfold parseSegs
    rw [if_neg hse]
    simp only [h1]
    rw [if_neg hsn, ih (p.key :: seen) (fun x hx => hne x (List.mem_cons_of_mem _ hx)) hd2]
    intro q hq hmem
    rcases List.mem_cons.mp hmem with e | hmem
    · exact hd1 q hq e.symm
    · exact hs q (List.mem_cons_of_mem _ hq) hmem

theorem mandatoryCheck_perm {ps l : List Param} (hperm : l.Perm ps)
    (hd : ps.Pairwise fun x y => x.key ≠ y.key) (h : mandatoryCheck ps = .ok ()) :
    mandatoryCheck l = .ok () := by
  unfold mandatoryCheck at h ⊢
  cases hf : l.find? (fun x => x.key = 0) with
  | none => rfl
  | some m =>
    have hml : m ∈ l := List.mem_of_find?_eq_some hf
    have hm0 : m.key = 0 := by simpa using List.find?_some hf
    have hmp : m ∈ ps := hperm.mem_iff.mp hml
    cases hg : ps.find? (fun x => x.key = 0) with
    | none =>
      have := List.find?_eq_none.mp hg m hmp
      simp [hm0] at this
    | some m' =>
      have hm'p : m' ∈ ps := List.mem_of_find?_eq_some hg
      have hm'0 : m'.key = 0 := by simpa using List.find?_some hg
      have : m' = m := pairwise_key_unique hd hm'p hmp (by rw [hm'0, hm0])
      subst this
      simp only [hg] at h
      simp only
      cases hu : u16s m'.value with
      | none => simp [hu] at h
      | some ks =>
        simp only [hu] at h ⊢
        have hany : ∀ k, (l.any fun x => x.key = k) = (ps.any fun x => x.key = k) := by
          intro k
          rw [Bool.eq_iff_iff, List.any_eq_true, List.any_eq_true]
          constructor
          · rintro ⟨x, hx, hk⟩; exact ⟨x, hperm.mem_iff.mp hx, hk⟩
          · rintro ⟨x, hx, hk⟩; exact ⟨x, hperm.mem_iff.mpr hx, hk⟩
        simp only [hany]
        exact h

theorem toText_parts (l : List Param)
    (h : ∀ p ∈ l, ∃ s, paramToText p = some s ∧ paramFromText s = .ok p ∧ s ≠ [] ∧ 0x3b ∉ s) :
    ∃ ts, mapM' paramToText l = some ts ∧ Parsed ts l ∧ ∀ s ∈ ts, s ≠ [] ∧ 0x3b ∉ s := by
  induction l with
  | nil => exact ⟨[], rfl, Parsed.nil, by simp⟩
  | cons p ps ih =>
    obtain ⟨s, h1, h2, h3, h4⟩ := h p List.mem_cons_self
    obtain ⟨ts, g1, g2, g3⟩ := ih (fun q hq => h q (List.mem_cons_of_mem _ hq))
    refine ⟨s :: ts, by simp [mapM', h1, g1], Parsed.cons h2 g2, ?_⟩
    intro x hx
    rcases List.mem_cons.mp hx with rfl | hx
    · exact ⟨h3, h4⟩
    · exact g3 x hx

/-- no `ipv6hint` address of the list is IPv4-mapped -/
def NoMapped (l : List Param) : Prop := ∀ p ∈ l, p.key = 6 → noMappedV p.value = true

/-- Printing an accepted list and parsing the text again gives the list back. -/
theorem text_roundtrip {t : Bytes} {l : List Param} (h : fromText t = .ok l) (hnm : NoMapped l) :
    ∃ s, toText l = .ok s ∧ fromText s = .ok l := by
  obtain ⟨ps, hp, hm, hl⟩ := fromText_ok h
  have hpar : Parsed (liveSegs t) ps := parseSegs_forall2 _ _ _ hp
  have hd := (parseSegs_keys _ _ _ hp).1
  have hperm : l.Perm ps := hl ▸ sortBy_perm _ _
  have hlt := fromText_keys_lt h
  have hparts : ∀ p ∈ l, ∃ s, paramToText p = some s ∧ paramFromText s = .ok p ∧ s ≠ [] ∧ 0x3b ∉ s := by
    intro p hpl
    obtain ⟨seg, hseg, hpf⟩ := hpar.of_right (hperm.mem_iff.mp hpl)
    have hseg' := (List.mem_filter.mp hseg).1
    exact param_roundtrip hpf (splitOn_no_sep _ _ _ hseg') (hnm p hpl)
  obtain ⟨ts, g1, g2, g3⟩ := toText_parts l hparts
  refine ⟨intercalate [0x3b] ts, by simp only [toText, g1], ?_⟩
  have hdl : l.Pairwise fun x y => x.key ≠ y.key := hlt.imp (fun h => Nat.ne_of_lt h)
  have hsegs : parseSegs [] (splitOn 0x3b (intercalate [0x3b] ts)) = .ok l := by
    cases ts with
    | nil =>
      cases g2
      rfl
    | cons x xs =>
      rw [splitOn_intercalate 0x3b _ (by simp) (fun s hs => (g3 s hs).2)]
      exact parseSegs_complete g2 [] (fun s hs => (g3 s hs).1) hdl (by simp)
  unfold fromText
  simp only [hsegs, mandatoryCheck_perm hperm hd hm]
  rw [sortBy_of_sorted _ _ (hlt.imp (fun h => Nat.le_of_lt h))]


end DnsVerif.Svcb
