/-
Helper lemmas for C18 (model: `Model/Svcb.lean`, statement side: `Spec/Svcb.lean`).
-/
import DnsVerif.Spec.Svcb

namespace DnsVerif.Svcb
open DnsVerif DnsVerif.Spec.Svcb

deriving instance DecidableEq for Except

/-! ### stable insertion sort -/

theorem insertBy_perm {α} (k : α → Nat) (a : α) (l : List α) : (insertBy k a l).Perm (a :: l) := by
  induction l with
  | nil => exact List.Perm.refl _
  | cons b bs ih =>
    unfold insertBy
    by_cases h : k a ≤ k b
    · rw [if_pos h]
    · rw [if_neg h]
      exact (List.Perm.cons b ih).trans (List.Perm.swap a b bs)

theorem sortBy_perm {α} (k : α → Nat) (l : List α) : (sortBy k l).Perm l := by
  induction l with
  | nil => exact List.Perm.refl _
  | cons a as ih =>
    unfold sortBy
    exact (insertBy_perm k a _).trans (List.Perm.cons a ih)

theorem insertBy_sorted {α} (k : α → Nat) (a : α) (l : List α)
    (h : l.Pairwise fun x y => k x ≤ k y) : (insertBy k a l).Pairwise fun x y => k x ≤ k y := by
  induction l with
  | nil => simp [insertBy]
  | cons b bs ih =>
    unfold insertBy
    have hb := List.pairwise_cons.mp h
    by_cases hab : k a ≤ k b
    · rw [if_pos hab]
      refine List.pairwise_cons.mpr ⟨?_, h⟩
      intro x hx
      rcases List.mem_cons.mp hx with rfl | hx
      · exact hab
      · exact Nat.le_trans hab (hb.1 x hx)
    · rw [if_neg hab]
      refine List.pairwise_cons.mpr ⟨?_, ih hb.2⟩
      intro x hx
      have := (insertBy_perm k a bs).mem_iff.mp hx
      rcases List.mem_cons.mp this with rfl | hx
      · omega
      · exact hb.1 x hx

theorem sortBy_sorted {α} (k : α → Nat) (l : List α) :
    (sortBy k l).Pairwise fun x y => k x ≤ k y := by
  induction l with
  | nil => simp [sortBy]
  | cons a as ih => unfold sortBy; exact insertBy_sorted k a _ ih

/-- sorted + pairwise distinct keys ⇒ strictly increasing keys -/
theorem sortBy_strict {α} (k : α → Nat) (l : List α) (hd : l.Pairwise fun x y => k x ≠ k y) :
    (sortBy k l).Pairwise fun x y => k x < k y := by
  have hs := sortBy_sorted k l
  have hd' : (sortBy k l).Pairwise fun x y => k x ≠ k y :=
    (sortBy_perm k l).symm.pairwise hd (fun h => Ne.symm h)
  have := hs.and hd'
  exact this.imp (fun ⟨h1, h2⟩ => Nat.lt_of_le_of_ne h1 h2)

/-! ### the parsing loop -/

theorem parseSegs_keys (segs : List Bytes) : ∀ (seen : List Nat) (ps : List Param),
    parseSegs seen segs = .ok ps →
      (ps.Pairwise fun x y => x.key ≠ y.key) ∧ ∀ p ∈ ps, p.key ∉ seen := by
  induction segs with
  | nil => intro seen ps h; simp [parseSegs] at h; subst h; simp
  | cons s rest ih =>
    intro seen ps h
    unfold parseSegs at h
    by_cases he : s.isEmpty = true
    · rw [if_pos he] at h; simp at h; subst h; simp
    · rw [if_neg he] at h
      cases hp : paramFromText s with
      | error e => rw [hp] at h; simp at h
      | ok p =>
        simp only [hp] at h
        by_cases hs : seen.contains p.key = true
        · rw [if_pos hs] at h; simp at h
        · rw [if_neg hs] at h
          have hs : p.key ∉ seen := by simpa using hs
          cases hr : parseSegs (p.key :: seen) rest with
          | error e => simp [hr] at h
          | ok qs =>
            simp only [hr] at h
            simp at h
            subst h
            obtain ⟨h1, h2⟩ := ih _ _ hr
            constructor
            · refine List.pairwise_cons.mpr ⟨?_, h1⟩
              intro q hq heq
              exact h2 q hq (by rw [heq]; exact List.mem_cons_self)
            · intro q hq
              rcases List.mem_cons.mp hq with rfl | hq
              · exact hs
              · intro hmem; exact h2 q hq (List.mem_cons_of_mem _ hmem)

/-- what `fromText` returns: the sorted parameter list of the loop, which passed the mandatory check -/
theorem fromText_ok {t : Bytes} {l : List Param} (h : fromText t = .ok l) :
    ∃ ps, parseSegs [] (splitOn 0x3b t) = .ok ps ∧ mandatoryCheck ps = .ok () ∧
      l = sortBy Param.key ps := by
  unfold fromText at h
  cases hp : parseSegs [] (splitOn 0x3b t) with
  | error e => rw [hp] at h; simp at h
  | ok ps =>
    simp only [hp] at h
    cases hm : mandatoryCheck ps with
    | error e => simp [hm] at h
    | ok u =>
      simp only [hm] at h
      simp at h
      exact ⟨ps, rfl, hm, h.symm⟩

theorem fromText_keys_lt {t : Bytes} {l : List Param} (h : fromText t = .ok l) :
    l.Pairwise fun x y => x.key < y.key := by
  obtain ⟨ps, hp, _, rfl⟩ := fromText_ok h
  exact sortBy_strict Param.key ps (parseSegs_keys _ _ _ hp).1

def Fits (l : List Param) : Prop := ∀ p ∈ l, p.value.length < 65536
def KeysSmall (l : List Param) : Prop := ∀ p ∈ l, p.key < 65536

theorem u16_dec (n : Nat) (h : n < 65536) :
    (UInt8.ofNat (n / 256 % 256)).toNat * 256 + (UInt8.ofNat (n % 256)).toNat = n := by
  simp only [UInt8.toNat_ofNat']
  omega

theorem decodeRaw_toWire (l : List Param) (hf : Fits l) (hk : KeysSmall l) :
    ∀ fuel, l.length ≤ fuel → decodeRaw fuel (toWire l) = some (l.map fun p => (p.key, p.value)) := by
  induction l with
  | nil => intro fuel _; cases fuel <;> simp [toWire, decodeRaw]
  | cons p ps ih =>
    intro fuel hfuel
    cases fuel with
    | zero => simp at hfuel
    | succ fuel =>
      have hp := hf p List.mem_cons_self
      have hkp := hk p List.mem_cons_self
      have ih' := ih (fun q hq => hf q (List.mem_cons_of_mem _ hq))
        (fun q hq => hk q (List.mem_cons_of_mem _ hq)) fuel (by simpa using hfuel)
      have hw : toWire (p :: ps) =
          UInt8.ofNat (p.key / 256 % 256) :: UInt8.ofNat (p.key % 256) ::
          UInt8.ofNat (p.value.length / 256 % 256) :: UInt8.ofNat (p.value.length % 256) ::
          (p.value ++ toWire ps) := by
        simp [toWire, paramToWire, u16be]
      rw [hw]
      simp only [decodeRaw]
      rw [u16_dec _ hp, u16_dec _ hkp]
      simp [ih']

theorem keyOfName_mem {n : Bytes} {k : Nat} (h : keyOfName n = some k) : (k, n) ∈ keyNames := by
  unfold keyOfName at h
  cases hf : keyNames.find? (fun kv => kv.2 = n) with
  | none => simp [hf] at h
  | some kv =>
    simp [hf] at h
    have hm := List.mem_of_find?_eq_some hf
    have hp := List.find?_some hf
    simp at hp
    subst hp h
    exact hm

theorem keyOfName_le {n : Bytes} {k : Nat} (h : keyOfName n = some k) : k ≤ 6 := by
  have := keyOfName_mem h
  simp [keyNames] at this
  omega

theorem keyOfName_name {n : Bytes} {k : Nat} (h : keyOfName n = some k) : n = nameOfKey k := by
  have := keyOfName_mem h
  simp [keyNames] at this
  rcases this with ⟨rfl, rfl⟩ | ⟨rfl, rfl⟩ | ⟨rfl, rfl⟩ | ⟨rfl, rfl⟩ | ⟨rfl, rfl⟩ | ⟨rfl, rfl⟩ | ⟨rfl, rfl⟩ <;> decide

theorem mandatoryLoop_ok (vs : List Bytes) : ∀ (seen : List Nat) (b : Bytes),
    mandatoryLoop vs seen = .ok b →
    ∃ ks : List Nat, vs.map keyOfName = ks.map some ∧ b = ks.flatMap u16be ∧ 0 ∉ ks ∧ ks.Nodup ∧
      ∀ k ∈ ks, k ∉ seen := by
  induction vs with
  | nil => intro seen b h; simp [mandatoryLoop] at h; subst h; exact ⟨[], by simp⟩
  | cons v rest ih =>
    intro seen b h
    unfold mandatoryLoop at h
    cases hk : keyOfName v with
    | none => simp [hk] at h
    | some k =>
      simp only [hk] at h
      by_cases h0 : k = 0
      · rw [if_pos h0] at h; simp at h
      · rw [if_neg h0] at h
        by_cases hs : seen.contains k = true
        · rw [if_pos hs] at h; simp at h
        · rw [if_neg hs] at h
          have hs : k ∉ seen := by simpa using hs
          cases hr : mandatoryLoop rest (k :: seen) with
          | error e => simp [hr] at h
          | ok b' =>
            simp only [hr] at h
            simp at h
            obtain ⟨ks, h1, h2, h3, h4, h5⟩ := ih _ _ hr
            refine ⟨k :: ks, by simp [hk, h1], by simp [← h, h2], ?_, ?_, ?_⟩
            · simp; exact ⟨fun h => h0 h.symm, h3⟩
            · refine List.nodup_cons.mpr ⟨?_, h4⟩
              intro hmem; exact h5 k hmem List.mem_cons_self
            · intro x hx
              rcases List.mem_cons.mp hx with rfl | hx
              · exact hs
              · intro hmem; exact h5 x hx (List.mem_cons_of_mem _ hmem)

theorem u16s_flatMap (ks : List Nat) (h : ∀ k ∈ ks, k < 65536) : u16s (ks.flatMap u16be) = some ks := by
  induction ks with
  | nil => simp [u16s]
  | cons k ks ih =>
    have hk := h k List.mem_cons_self
    have := ih (fun x hx => h x (List.mem_cons_of_mem _ hx))
    simp only [List.flatMap_cons, u16be, List.cons_append, List.nil_append, u16s, this]
    simp only [UInt8.toNat_ofNat', Option.map_some]
    congr 2
    omega

/-- the segments the loop of `FromText` looks at: those before the first empty one -/
def liveSegs (t : Bytes) : List Bytes := (splitOn 0x3b t).takeWhile (fun s => !s.isEmpty)

/-- segment-by-segment: each live segment parses to the parameter at the same position -/
inductive Parsed : List Bytes → List Param → Prop
  | nil : Parsed [] []
  | cons {s p ss ps} : paramFromText s = .ok p → Parsed ss ps → Parsed (s :: ss) (p :: ps)

theorem Parsed.of_left {ss ps} (h : Parsed ss ps) {s} (hs : s ∈ ss) :
    ∃ p ∈ ps, paramFromText s = .ok p := by
  induction h with
  | nil => simp at hs
  | cons h1 _ ih =>
    rcases List.mem_cons.mp hs with rfl | hs
    · exact ⟨_, List.mem_cons_self, h1⟩
    · obtain ⟨p, hp, h⟩ := ih hs; exact ⟨p, List.mem_cons_of_mem _ hp, h⟩

theorem Parsed.of_right {ss ps} (h : Parsed ss ps) {p} (hp : p ∈ ps) :
    ∃ s ∈ ss, paramFromText s = .ok p := by
  induction h with
  | nil => simp at hp
  | cons h1 _ ih =>
    rcases List.mem_cons.mp hp with rfl | hp
    · exact ⟨_, List.mem_cons_self, h1⟩
    · obtain ⟨s, hs, h⟩ := ih hp; exact ⟨s, List.mem_cons_of_mem _ hs, h⟩

theorem parseSegs_forall2 (segs : List Bytes) : ∀ (seen : List Nat) (ps : List Param),
    parseSegs seen segs = .ok ps →
    Parsed (segs.takeWhile (fun s => !s.isEmpty)) ps := by
  induction segs with
  | nil => intro seen ps h; simp [parseSegs] at h; subst h; exact Parsed.nil
  | cons s rest ih =>
    intro seen ps h
    unfold parseSegs at h
    by_cases he : s.isEmpty = true
    · rw [if_pos he] at h; simp at h; subst h; simp only [List.takeWhile, he]; exact Parsed.nil
    · rw [if_neg he] at h
      cases hp : paramFromText s with
      | error e => simp [hp] at h
      | ok p =>
        simp only [hp] at h
        by_cases hs : seen.contains p.key = true
        · rw [if_pos hs] at h; simp at h
        · rw [if_neg hs] at h
          cases hr : parseSegs (p.key :: seen) rest with
          | error e => simp [hr] at h
          | ok qs =>
            simp only [hr] at h
            simp at h
            subst h
            have : (!s.isEmpty) = true := by simpa using he
            simp only [List.takeWhile, this]
            exact Parsed.cons hp (ih _ _ hr)

theorem pairwise_key_unique {ps : List Param} (h : ps.Pairwise fun x y => x.key ≠ y.key)
    {p q : Param} (hp : p ∈ ps) (hq : q ∈ ps) (hk : p.key = q.key) : p = q := by
  induction ps with
  | nil => simp at hp
  | cons a as ih =>
    obtain ⟨h1, h2⟩ := List.pairwise_cons.mp h
    rcases List.mem_cons.mp hp with rfl | hp' <;> rcases List.mem_cons.mp hq with rfl | hq'
    · rfl
    · exact absurd hk (h1 q hq')
    · exact absurd hk.symm (h1 p hp')
    · exact ih h2 hp' hq'

/-- the `mandatory` check of `FromText`, as a statement about the accepted list -/
theorem mandatoryCheck_ok {ps : List Param} (hd : ps.Pairwise fun x y => x.key ≠ y.key)
    (h : mandatoryCheck ps = .ok ()) {p : Param} (hp : p ∈ ps) (hk : p.key = 0)
    {ks : List Nat} (hks : u16s p.value = some ks) : ∀ k ∈ ks, ∃ q ∈ ps, q.key = k := by
  unfold mandatoryCheck at h
  cases hf : ps.find? (fun x => x.key = 0) with
  | none =>
    have := List.find?_eq_none.mp hf p hp
    simp [hk] at this
  | some m =>
    have hm := List.mem_of_find?_eq_some hf
    have hm0 : m.key = 0 := by simpa using List.find?_some hf
    have : m = p := pairwise_key_unique hd hm hp (by rw [hm0, hk])
    subst this
    simp only [hf, hks] at h
    by_cases hall : (ks.all fun k => ps.any fun x => x.key = k) = true
    · intro k hk'
      have := List.all_eq_true.mp hall k hk'
      simpa using this
    · rw [if_neg hall] at h; simp at h

theorem paramFromText_ok {s : Bytes} {q : Param} (h : paramFromText s = .ok q) :
    ∃ n v, cut 0x3d s = some (n, v) ∧ keyOfName n = some q.key ∧
      marshalValue q.key (trimQuotes v) = .ok q.value := by
  unfold paramFromText at h
  cases hc : cut 0x3d s with
  | none => simp [hc] at h
  | some nv =>
    obtain ⟨n, v⟩ := nv
    simp only [hc] at h
    cases hk : keyOfName n with
    | none => simp [hk] at h
    | some k =>
      simp only [hk] at h
      by_cases he : k ≠ 2 ∧ v.length = 0
      · rw [if_pos he] at h; simp at h
      · rw [if_neg he] at h
        cases hm : marshalValue k (trimQuotes v) with
        | error e => simp [hm] at h
        | ok d =>
          simp only [hm] at h
          simp at h
          subst h
          exact ⟨n, v, rfl, hk, hm⟩

def mandName : Bytes := nameOfKey 0

theorem mandatory_accepted {t : Bytes} {l : List Param} (h : fromText t = .ok l) :
    ∀ seg ∈ liveSegs t, ∀ v, cut 0x3d seg = some (mandName, v) →
      (splitOn 0x7c (trimQuotes v)).Nodup ∧ mandName ∉ splitOn 0x7c (trimQuotes v) ∧
      ∀ n ∈ splitOn 0x7c (trimQuotes v), ∃ seg' ∈ liveSegs t, ∃ v', cut 0x3d seg' = some (n, v') := by
  obtain ⟨ps, hp, hm, _⟩ := fromText_ok h
  have hpar : Parsed (liveSegs t) ps := parseSegs_forall2 _ _ _ hp
  have hd := (parseSegs_keys _ _ _ hp).1
  intro seg hseg v hcut
  obtain ⟨p, hpm, hpf⟩ := hpar.of_left hseg
  obtain ⟨n, v1, hc1, hk1, hmv⟩ := paramFromText_ok hpf
  rw [hcut] at hc1
  simp at hc1
  obtain ⟨rfl, rfl⟩ := hc1
  have hk0 : p.key = 0 := by
    have : keyOfName mandName = some 0 := by decide
    rw [this] at hk1; exact (Option.some.inj hk1).symm
  rw [hk0] at hmv
  simp only [marshalValue, mandatoryMarshaller] at hmv
  obtain ⟨ks, h1, h2, h3, h4, _⟩ := mandatoryLoop_ok _ _ _ hmv
  have hperm := sortBy_perm (fun v => (keyOfName v).getD 0) (splitOn 0x7c (trimQuotes v))
  have hkeys : ∀ n ∈ splitOn 0x7c (trimQuotes v), ∃ k ∈ ks, keyOfName n = some k := by
    intro n hn
    have : keyOfName n ∈ (sortBy (fun v => (keyOfName v).getD 0) (splitOn 0x7c (trimQuotes v))).map keyOfName :=
      List.mem_map.mpr ⟨n, hperm.mem_iff.mpr hn, rfl⟩
    rw [h1] at this
    obtain ⟨k, hk, hk'⟩ := List.mem_map.mp this
    exact ⟨k, hk, hk'.symm⟩
  have hsmall : ∀ k ∈ ks, k < 65536 := by
    intro k hk
    have : some k ∈ ks.map some := List.mem_map.mpr ⟨k, hk, rfl⟩
    rw [← h1] at this
    obtain ⟨n, _, hn⟩ := List.mem_map.mp this
    have := keyOfName_le hn
    omega
  refine ⟨?_, ?_, ?_⟩
  · have : ((sortBy (fun v => (keyOfName v).getD 0) (splitOn 0x7c (trimQuotes v))).map keyOfName).Nodup := by
      rw [h1]; exact List.Pairwise.map some (fun a b h h' => h (Option.some.inj h')) h4
    exact hperm.nodup_iff.mp (List.Pairwise.of_map keyOfName (fun a b h hab => h (by rw [hab])) this)
  · intro hmem
    obtain ⟨k, hk, hk'⟩ := hkeys _ hmem
    have : keyOfName mandName = some 0 := by decide
    rw [this] at hk'
    have : k = 0 := (Option.some.inj hk').symm
    subst this
    exact h3 hk
  · intro n hn
    obtain ⟨k, hk, hk'⟩ := hkeys n hn
    have hu : u16s p.value = some ks := by rw [h2]; exact u16s_flatMap ks hsmall
    obtain ⟨q, hq, hqk⟩ := mandatoryCheck_ok hd hm hpm hk0 hu k hk
    obtain ⟨seg', hs', hpf'⟩ := hpar.of_right hq
    obtain ⟨n', v', hc', hk'', _⟩ := paramFromText_ok hpf'
    rw [hqk] at hk''
    have : n' = n := by rw [keyOfName_name hk'', keyOfName_name hk']
    subst this
    exact ⟨seg', hs', v', hc'⟩

theorem decodeAddrs_flatten (n : Nat) (hn : 0 < n) (addrs : List Bytes) (h : ∀ a ∈ addrs, a.length = n) :
    ∀ fuel, addrs.length ≤ fuel → decodeAddrs n fuel addrs.flatten = some addrs := by
  induction addrs with
  | nil => intro fuel _; cases fuel <;> simp [decodeAddrs]
  | cons a as ih =>
    intro fuel hf
    cases fuel with
    | zero => simp at hf
    | succ fuel =>
      have ha := h a List.mem_cons_self
      have ih' := ih (fun x hx => h x (List.mem_cons_of_mem _ hx)) fuel (by simpa using hf)
      cases a with
      | nil => simp at ha; omega
      | cons c cs =>
        simp only [List.flatten_cons, List.cons_append]
        unfold decodeAddrs
        have hlen : ¬ (c :: (cs ++ as.flatten)).length < n := by simp at ha ⊢; omega
        rw [if_neg hlen]
        have h1 : (c :: (cs ++ as.flatten)).take n = c :: cs := by
          rw [← List.cons_append, List.take_left' ha]
        have h2 : (c :: (cs ++ as.flatten)).drop n = as.flatten := by
          rw [← List.cons_append, List.drop_left' ha]
        rw [h1, h2, ih']; rfl

theorem decodeAlpn_flatMap (ids : List Bytes) (h : ∀ a ∈ ids, 1 ≤ a.length ∧ a.length ≤ 255) :
    ∀ fuel, ids.length ≤ fuel →
      decodeAlpn fuel (ids.flatMap fun a => UInt8.ofNat a.length :: a) = some ids := by
  induction ids with
  | nil => intro fuel _; cases fuel <;> simp [decodeAlpn]
  | cons a as ih =>
    intro fuel hf
    cases fuel with
    | zero => simp at hf
    | succ fuel =>
      obtain ⟨h1, h2⟩ := h a List.mem_cons_self
      have ih' := ih (fun x hx => h x (List.mem_cons_of_mem _ hx)) fuel (by simpa using hf)
      simp only [List.flatMap_cons, List.cons_append]
      unfold decodeAlpn
      have hl : (UInt8.ofNat a.length).toNat = a.length := by
        simp only [UInt8.toNat_ofNat']; omega
      rw [hl, if_neg (by omega), if_neg (by simp)]
      rw [List.take_left' rfl, List.drop_left' rfl, ih']; rfl

theorem decodeKeys_eq_u16s (b : Bytes) : decodeKeys b = u16s b := by
  induction b using u16s.induct with
  | case1 => rfl
  | case2 => rfl
  | case3 a b rest ih => simp [decodeKeys, u16s, ih]

theorem insertBy_map {α β} (g : α → β) (k : β → Nat) (a : α) (l : List α) :
    insertBy k (g a) (l.map g) = (insertBy (fun x => k (g x)) a l).map g := by
  induction l with
  | nil => rfl
  | cons b bs ih =>
    simp only [List.map_cons, insertBy]
    by_cases h : k (g a) ≤ k (g b)
    · rw [if_pos h, if_pos h]; rfl
    · rw [if_neg h, if_neg h, List.map_cons, ih]

theorem sortBy_map {α β} (g : α → β) (k : β → Nat) (l : List α) :
    sortBy k (l.map g) = (sortBy (fun x => k (g x)) l).map g := by
  induction l with
  | nil => rfl
  | cons a as ih => simp only [List.map_cons, sortBy, ih, insertBy_map]

theorem strictlyIncreasing_of_pairwise (l : List Nat) (h : l.Pairwise (· < ·)) :
    strictlyIncreasing l = true := by
  induction l with
  | nil => rfl
  | cons a as ih =>
    cases as with
    | nil => rfl
    | cons b bs =>
      obtain ⟨h1, h2⟩ := List.pairwise_cons.mp h
      simp [strictlyIncreasing, h1 b List.mem_cons_self, ih h2]

theorem mapM'_some {α β} (f : α → Option β) (l : List α) (r : List β)
    (h : mapM' f l = some r) : l.map f = r.map some := by
  induction l generalizing r with
  | nil => simp [mapM'] at h; subst h; rfl
  | cons a as ih =>
    simp only [mapM'] at h
    cases hfa : f a with
    | none => simp [hfa] at h
    | some x =>
      cases hm : mapM' f as with
      | none => simp [hfa, hm] at h
      | some ys =>
        simp [hfa, hm] at h
        subst h
        simp [hfa, ih ys hm]

theorem ipv4Loop_ok (as : List Bytes) : ∀ b, ipv4Loop as = .ok b →
    ∃ addrs, mapM' (fun a => (parseIP a).bind to4) as = some addrs ∧ b = addrs.flatten := by
  induction as with
  | nil => intro b h; simp [ipv4Loop] at h; subst h; exact ⟨[], rfl, rfl⟩
  | cons a rest ih =>
    intro b h
    unfold ipv4Loop at h
    cases hp : parseIP a with
    | none => simp [hp] at h
    | some ip =>
      simp only [hp] at h
      cases h4 : to4 ip with
      | none => simp [h4] at h
      | some v4 =>
        simp only [h4] at h
        cases hr : ipv4Loop rest with
        | error e => simp [hr] at h
        | ok b' =>
          simp only [hr] at h
          simp at h
          obtain ⟨addrs, h1, h2⟩ := ih _ hr
          refine ⟨v4 :: addrs, ?_, by simp [← h, h2]⟩
          simp [mapM', hp, h4, h1]

theorem ipv6Loop_ok (as : List Bytes) : ∀ b, ipv6Loop as = .ok b →
    ∃ addrs, mapM' (fun a => if a.contains 0x3a then parseIP a else none) as = some addrs ∧
      b = addrs.flatten := by
  induction as with
  | nil => intro b h; simp [ipv6Loop] at h; subst h; exact ⟨[], rfl, rfl⟩
  | cons a rest ih =>
    intro b h
    unfold ipv6Loop at h
    cases hc : a.contains 0x3a with
    | false => simp only [hc, Bool.not_false, if_true] at h; simp at h
    | true =>
      simp only [hc, Bool.not_true, Bool.false_eq_true, if_false] at h
      cases hp : parseIP a with
      | none => simp [hp] at h
      | some ip =>
        simp only [hp] at h
        cases hr : ipv6Loop rest with
        | error e => simp [hr] at h
        | ok b' =>
          simp only [hr] at h
          simp at h
          obtain ⟨addrs, h1, h2⟩ := ih _ hr
          refine ⟨ip :: addrs, ?_, by simp [← h, h2]⟩
          simp only [mapM', hc, if_true, hp, h1]

theorem nodupNat_pairwise (l : List Nat) (h : nodupNat l = true) : l.Pairwise (· ≠ ·) := by
  induction l with
  | nil => exact List.Pairwise.nil
  | cons a as ih =>
    simp [nodupNat] at h
    exact List.pairwise_cons.mpr ⟨fun x hx hax => h.1 (hax ▸ hx), ih h.2⟩

theorem splitOn_ne_nil (sep : UInt8) (b : Bytes) : splitOn sep b ≠ [] := by
  induction b with
  | nil => simp [splitOn]
  | cons c cs ih =>
    unfold splitOn
    by_cases h : c = sep
    · rw [if_pos h]; simp
    · rw [if_neg h]
      cases hs : splitOn sep cs with
      | nil => simp
      | cons x xs => simp

theorem conf_alpn (w data : Bytes) (dv : Value) (hm : marshalValue 1 w = .ok data)
    (hd : declValue 1 w = some dv) (hv : valid dv = true) :
    decodeValue 1 data = some dv ∧ dv.key = 1 := by
  simp [marshalValue, alpnMarshaller] at hm
  simp [declValue] at hd
  subst hd hm
  simp [valid] at hv
  have hne : splitOn 0x7c w ≠ [] := splitOn_ne_nil _ _
  have hlen : (splitOn 0x7c w).length ≤
      ((splitOn 0x7c w).flatMap fun a => UInt8.ofNat a.length :: a).length := by
    generalize splitOn 0x7c w = l
    induction l with
    | nil => simp
    | cons a as ih => simp at ih ⊢; omega
  have := decodeAlpn_flatMap (splitOn 0x7c w) (fun a ha => hv.2 a ha) _ hlen
  simp only [decodeValue, this]
  simp [hne, Value.key]

theorem conf_port (w data : Bytes) (dv : Value) (hm : marshalValue 3 w = .ok data)
    (hd : declValue 3 w = some dv) :
    decodeValue 3 data = some dv ∧ dv.key = 3 := by
  simp only [marshalValue, portMarshaller] at hm
  simp only [declValue] at hd
  cases hp : parseUint16 w with
  | none => simp [hp] at hm
  | some n =>
    simp [hp] at hm hd
    subst hm hd
    have hn : n < 65536 := by
      unfold parseUint16 at hp
      split at hp
      · simp at hp
      · split at hp
        · simp only at hp
          split at hp
          · simp at hp; omega
          · simp at hp
        · simp at hp
    simp only [decodeValue, u16be, Value.key, UInt8.toNat_ofNat', and_true]
    congr 2
    omega

theorem flatten_length_ge (n : Nat) (hn : 0 < n) (addrs : List Bytes) (h : ∀ a ∈ addrs, a.length = n) :
    addrs.length ≤ addrs.flatten.length := by
  induction addrs with
  | nil => simp
  | cons a as ih =>
    have := h a List.mem_cons_self
    have := ih (fun x hx => h x (List.mem_cons_of_mem _ hx))
    simp only [List.flatten_cons, List.length_append, List.length_cons]; omega

theorem conf_ipv4 (w data : Bytes) (dv : Value) (hm : marshalValue 4 w = .ok data)
    (hd : declValue 4 w = some dv) (hv : valid dv = true) :
    decodeValue 4 data = some dv ∧ dv.key = 4 := by
  simp only [marshalValue, ipv4hintMarshaller] at hm
  obtain ⟨addrs, h1, h2⟩ := ipv4Loop_ok _ _ hm
  simp only [declValue, h1, Option.map_some] at hd
  have hd := Option.some.inj hd
  subst hd h2
  simp [valid] at hv
  have hall : ∀ a ∈ addrs, a.length = 4 := fun a ha => hv.2 a ha
  have := decodeAddrs_flatten 4 (by omega) addrs hall _ (flatten_length_ge 4 (by omega) addrs hall)
  simp only [decodeValue, this]
  simp [hv.1, Value.key]

theorem conf_ipv6 (w data : Bytes) (dv : Value) (hm : marshalValue 6 w = .ok data)
    (hd : declValue 6 w = some dv) (hv : valid dv = true) :
    decodeValue 6 data = some dv ∧ dv.key = 6 := by
  simp only [marshalValue, ipv6hintMarshaller] at hm
  obtain ⟨addrs, h1, h2⟩ := ipv6Loop_ok _ _ hm
  simp only [declValue, h1, Option.map_some] at hd
  have hd := Option.some.inj hd
  subst hd h2
  simp [valid] at hv
  have hall : ∀ a ∈ addrs, a.length = 16 := fun a ha => hv.2 a ha
  have := decodeAddrs_flatten 16 (by omega) addrs hall _ (flatten_length_ge 16 (by omega) addrs hall)
  simp only [decodeValue, this]
  simp [hv.1, Value.key]

theorem conf_ech (w data : Bytes) (dv : Value) (hm : marshalValue 5 w = .ok data)
    (hd : declValue 5 w = some dv) :
    decodeValue 5 data = some dv ∧ dv.key = 5 := by
  simp only [marshalValue, echMarshaller] at hm
  simp only [declValue] at hd
  cases hb : b64Decode w with
  | none => simp [hb] at hm
  | some b =>
    simp [hb] at hm hd
    subst hm hd
    simp [decodeValue, Value.key]

theorem conf_nda (w data : Bytes) (dv : Value) (hm : marshalValue 2 w = .ok data)
    (hd : declValue 2 w = some dv) :
    decodeValue 2 data = some dv ∧ dv.key = 2 := by
  simp only [marshalValue, nodefaultalpnMarshaller] at hm
  simp only [declValue] at hd
  by_cases hw : w = []
  · subst hw
    simp at hm hd
    subst hm hd
    simp [decodeValue, Value.key]
  · simp [hw] at hd

theorem map_getD_of_map_some (l : List Bytes) (ks : List Nat)
    (h : l.map keyOfName = ks.map some) : l.map (fun n => (keyOfName n).getD 0) = ks := by
  have := congrArg (List.map (fun o : Option Nat => o.getD 0)) h
  simpa [List.map_map, Function.comp_def] using this

theorem conf_mand (w data : Bytes) (dv : Value) (hm : marshalValue 0 w = .ok data)
    (hd : declValue 0 w = some dv) (hv : valid dv = true) :
    decodeValue 0 data = some dv ∧ dv.key = 0 := by
  simp only [marshalValue, mandatoryMarshaller] at hm
  obtain ⟨ks, h1, h2, _, _, _⟩ := mandatoryLoop_ok _ _ _ hm
  simp only [declValue] at hd
  cases hk' : mapM' keyOfName (splitOn 0x7c w) with
  | none => simp [hk'] at hd
  | some ks' =>
    simp only [hk', Option.map_some] at hd
    have hd := Option.some.inj hd
    have e1 := map_getD_of_map_some _ _ (mapM'_some _ _ _ hk')
    have e2 := map_getD_of_map_some _ _ h1
    have hks : ks = sortBy id ks' := by
      rw [← e1, sortBy_map, ← e2]; rfl
    subst hd
    rw [← hks] at hv
    simp [valid] at hv
    obtain ⟨⟨hne, hnd⟩, h0⟩ := hv
    have hsmall : ∀ k ∈ ks, k < 65536 := by
      intro k hk
      have : some k ∈ ks.map some := List.mem_map.mpr ⟨k, hk, rfl⟩
      rw [← h1] at this
      obtain ⟨n, _, hn⟩ := List.mem_map.mp this
      have := keyOfName_le hn
      omega
    have hsorted : ks.Pairwise (· < ·) := by
      have hs : ks.Pairwise (fun x y => id x ≤ id y) := by rw [hks]; exact sortBy_sorted id ks'
      exact (hs.and (nodupNat_pairwise _ hnd)).imp (fun ⟨a, b⟩ => Nat.lt_of_le_of_ne a b)
    have hdec : decodeKeys data = some ks := by
      rw [decodeKeys_eq_u16s, h2]; exact u16s_flatMap ks hsmall
    simp only [decodeValue, hdec]
    have hsi := strictlyIncreasing_of_pairwise ks hsorted
    simp [hne, hsi, h0, Value.key, ← hks]

/-- per parameter: an RFC 9460 reader of the emitted value sees exactly the declared value -/
theorem value_conformant {seg : Bytes} {p : Param} {dv : Value}
    (hp : paramFromText seg = .ok p) (hd : declSeg seg = some dv) (hv : valid dv = true) :
    decodeValue p.key p.value = some dv ∧ dv.key = p.key := by
  obtain ⟨n, v, hc, hk, hm⟩ := paramFromText_ok hp
  simp only [declSeg, hc, hk] at hd
  have hle := keyOfName_le hk
  generalize p.key = k at *
  match k, hle with
  | 0, _ => exact conf_mand _ _ _ hm hd hv
  | 1, _ => exact conf_alpn _ _ _ hm hd hv
  | 2, _ => exact conf_nda _ _ _ hm hd
  | 3, _ => exact conf_port _ _ _ hm hd
  | 4, _ => exact conf_ipv4 _ _ _ hm hd hv
  | 5, _ => exact conf_ech _ _ _ hm hd
  | 6, _ => exact conf_ipv6 _ _ _ hm hd hv
  | k + 7, h => omega

/-- position by position: the RFC reader of parameter `p` yields the value `v` -/
inductive Conf : List Param → List Value → Prop
  | nil : Conf [] []
  | cons {p v ps vs} : decodeValue p.key p.value = some v → v.key = p.key → Conf ps vs →
      Conf (p :: ps) (v :: vs)

theorem Conf.of_parsed {segs ps} (hp : Parsed segs ps) : ∀ vs, mapM' declSeg segs = some vs →
    (∀ v ∈ vs, valid v = true) → Conf ps vs := by
  induction hp with
  | nil => intro vs h _; simp [mapM'] at h; subst h; exact Conf.nil
  | @cons s p ss ps' h1 _ ih =>
    intro vs h hv
    simp only [mapM'] at h
    cases hd : declSeg s with
    | none => simp [hd] at h
    | some dv =>
      cases hm : mapM' declSeg ss with
      | none => simp [hd, hm] at h
      | some vs' =>
        simp [hd, hm] at h
        subst h
        obtain ⟨c1, c2⟩ := value_conformant h1 hd (hv dv List.mem_cons_self)
        exact Conf.cons c1 c2 (ih vs' hm (fun v hv' => hv v (List.mem_cons_of_mem _ hv')))

theorem Conf.insert {p v ps vs} (h1 : decodeValue p.key p.value = some v) (h2 : v.key = p.key)
    (h : Conf ps vs) : Conf (insertBy Param.key p ps) (insertBy Value.key v vs) := by
  induction h with
  | nil => exact Conf.cons h1 h2 Conf.nil
  | @cons q w qs ws a b c ih =>
    unfold insertBy
    by_cases hle : p.key ≤ q.key
    · rw [if_pos hle, if_pos (by rw [h2, b]; exact hle)]
      exact Conf.cons h1 h2 (Conf.cons a b c)
    · rw [if_neg hle, if_neg (by rw [h2, b]; exact hle)]
      exact Conf.cons a b ih

theorem Conf.sort {ps vs} (h : Conf ps vs) : Conf (sortBy Param.key ps) (sortBy Value.key vs) := by
  induction h with
  | nil => exact Conf.nil
  | cons a b _ ih => unfold sortBy; exact Conf.insert a b ih

theorem Conf.mapM {ps vs} (h : Conf ps vs) :
    mapM' (fun kv : Nat × Bytes => decodeValue kv.1 kv.2) (ps.map fun p => (p.key, p.value)) = some vs := by
  induction h with
  | nil => rfl
  | cons a _ _ ih => simp only [List.map_cons, mapM', a, ih]

theorem mandatoryPresent_perm {vs d : List Value} (hp : d.Perm vs) (h : mandatoryPresent vs = true) :
    mandatoryPresent d = true := by
  unfold mandatoryPresent at h ⊢
  rw [List.all_eq_true] at h ⊢
  intro v hv
  have := h v (hp.mem_iff.mp hv)
  cases v with
  | mandatory ks =>
    simp only [List.all_eq_true, List.any_eq_true] at this ⊢
    intro k hk
    obtain ⟨x, hx, hxk⟩ := this k hk
    exact ⟨x, hp.mem_iff.mpr hx, hxk⟩
  | _ => rfl

theorem toWire_length_ge (l : List Param) : l.length ≤ (toWire l).length := by
  induction l with
  | nil => simp [toWire]
  | cons p ps ih =>
    simp only [toWire, List.flatMap_cons, List.length_append, List.length_cons] at ih ⊢
    simp only [paramToWire, u16be, List.length_append, List.length_cons, List.length_nil]
    omega

/-- no parameter follows an empty `;` segment -/
def NoDrop (t : Bytes) : Prop := (splitOn 0x3b t).filter (fun s => !s.isEmpty) = liveSegs t

theorem decode_recovers_declared' {t : Bytes} {l : List Param} {d : List Value}
    (h : fromText t = .ok l) (hn : NoDrop t) (hd : declared t = some d) (hf : Fits l) :
    decodeRFC (toWire l) = some d := by
  obtain ⟨ps, hp, hm, hl⟩ := fromText_ok h
  have hpar : Parsed (liveSegs t) ps := parseSegs_forall2 _ _ _ hp
  unfold declared at hd
  rw [hn] at hd
  cases hv : mapM' declSeg (liveSegs t) with
  | none => simp [hv] at hd
  | some vs =>
    simp only [hv] at hd
    split at hd
    · rename_i hc
      simp only [Bool.and_eq_true] at hc
      obtain ⟨⟨hval, _⟩, hmp⟩ := hc
      have hd := Option.some.inj hd
      have hconf : Conf l d := by
        rw [hl, ← hd]
        exact (Conf.of_parsed hpar vs hv (fun v hv' => List.all_eq_true.mp hval v hv')).sort
      have hks : KeysSmall l := by
        intro p hp'
        rw [hl] at hp'
        obtain ⟨s, _, hs⟩ := hpar.of_right ((sortBy_perm _ _).mem_iff.mp hp')
        obtain ⟨n, v, _, hk, _⟩ := paramFromText_ok hs
        have := keyOfName_le hk
        omega
      unfold decodeRFC
      rw [decodeRaw_toWire l hf hks _ (toWire_length_ge l)]
      have hinc : strictlyIncreasing ((l.map fun p => (p.key, p.value)).map (·.1)) = true := by
        apply strictlyIncreasing_of_pairwise
        rw [List.map_map]
        exact List.pairwise_map.mpr (fromText_keys_lt h)
      simp only [hinc, Bool.not_true, Bool.false_eq_true, if_false, hconf.mapM]
      rw [if_pos (mandatoryPresent_perm (by rw [← hd]; exact sortBy_perm _ _) hmp)]
    · simp at hd

end DnsVerif.Svcb
