/-
Helper lemmas for C18 (model: `Model/Svcb.lean`, statement side: `Spec/Svcb.lean`).
-/
import DnsVerif.Spec.Svcb

namespace DnsVerif.Svcb
open DnsVerif

deriving instance DecidableEq for Except

/-! ### stable insertion sort -/

theorem insertBy_perm {α} (k : α → Nat) (a : α) (l : List α) : (insertBy k a l).Perm (a :: l) := by
  induction l with
  | nil => exact List.Perm.refl _
  | cons b bs ih =>
    unfold insertBy
    by_cases h : k a ≤ k b
    · rw [if_pos h]
    · rw [if_neg h]
      exact (List.Perm.cons b ih).trans (List.Perm.swap a b bs)

theorem sortBy_perm {α} (k : α → Nat) (l : List α) : (sortBy k l).Perm l := by
  induction l with
  | nil => exact List.Perm.refl _
  | cons a as ih =>
    unfold sortBy
    exact (insertBy_perm k a _).trans (List.Perm.cons a ih)

theorem insertBy_sorted {α} (k : α → Nat) (a : α) (l : List α)
    (h : l.Pairwise fun x y => k x ≤ k y) : (insertBy k a l).Pairwise fun x y => k x ≤ k y := by
  induction l with
  | nil => simp [insertBy]
  | cons b bs ih =>
    unfold insertBy
    have hb := List.pairwise_cons.mp h
    by_cases hab : k a ≤ k b
    · rw [if_pos hab]
      refine List.pairwise_cons.mpr ⟨?_, h⟩
      intro x hx
      rcases List.mem_cons.mp hx with rfl | hx
      · exact hab
      · exact Nat.le_trans hab (hb.1 x hx)
    · rw [if_neg hab]
      refine List.pairwise_cons.mpr ⟨?_, ih hb.2⟩
      intro x hx
      have := (insertBy_perm k a bs).mem_iff.mp hx
      rcases List.mem_cons.mp this with rfl | hx
      · omega
      · exact hb.1 x hx

theorem sortBy_sorted {α} (k : α → Nat) (l : List α) :
    (sortBy k l).Pairwise fun x y => k x ≤ k y := by
  induction l with
  | nil => simp [sortBy]
  | cons a as ih => unfold sortBy; exact insertBy_sorted k a _ ih

/-- sorted + pairwise distinct keys ⇒ strictly increasing keys -/
theorem sortBy_strict {α} (k : α → Nat) (l : List α) (hd : l.Pairwise fun x y => k x ≠ k y) :
    (sortBy k l).Pairwise fun x y => k x < k y := by
  have hs := sortBy_sorted k l
  have hd' : (sortBy k l).Pairwise fun x y => k x ≠ k y :=
    (sortBy_perm k l).symm.pairwise hd (fun h => Ne.symm h)
  have := hs.and hd'
  exact this.imp (fun ⟨h1, h2⟩ => Nat.lt_of_le_of_ne h1 h2)

/-! ### the parsing loop -/

theorem parseSegs_keys (segs : List Bytes) : ∀ (seen : List Nat) (ps : List Param),
    parseSegs seen segs = .ok ps →
      (ps.Pairwise fun x y => x.key ≠ y.key) ∧ ∀ p ∈ ps, p.key ∉ seen := by
  induction segs with
  | nil => intro seen ps h; simp [parseSegs] at h; subst h; simp
  | cons s rest ih =>
    intro seen ps h
    unfold parseSegs at h
    by_cases he : s.isEmpty = true
    · rw [if_pos he] at h; simp at h; subst h; simp
    · rw [if_neg he] at h
      cases hp : paramFromText s with
      | error e => rw [hp] at h; simp at h
      | ok p =>
        rw [hp] at h
        by_cases hs : seen.contains p.key = true
        · simp [hs] at h
        · simp only [hs] at h
          cases hr : parseSegs (p.key :: seen) rest with
          | error e => rw [hr] at h; simp at h
          | ok qs =>
            rw [hr] at h
            simp at h
            subst h
            obtain ⟨h1, h2⟩ := ih _ _ hr
            constructor
            · refine List.pairwise_cons.mpr ⟨?_, h1⟩
              intro q hq heq
              exact h2 q hq (by rw [heq]; exact List.mem_cons_self)
            · intro q hq
              rcases List.mem_cons.mp hq with rfl | hq
              · simpa using hs
              · intro hmem; exact h2 q hq (List.mem_cons_of_mem _ hmem)

/-- what `fromText` returns: the sorted parameter list of the loop, which passed the mandatory check -/
theorem fromText_ok {t : Bytes} {l : List Param} (h : fromText t = .ok l) :
    ∃ ps, parseSegs [] (splitOn 0x3b t) = .ok ps ∧ mandatoryCheck ps = .ok () ∧
      l = sortBy Param.key ps := by
  unfold fromText at h
  cases hp : parseSegs [] (splitOn 0x3b t) with
  | error e => rw [hp] at h; simp at h
  | ok ps =>
    rw [hp] at h
    cases hm : mandatoryCheck ps with
    | error e => rw [hm] at h; simp at h
    | ok u =>
      rw [hm] at h
      simp at h
      exact ⟨ps, rfl, rfl, h.symm⟩

theorem fromText_keys_lt {t : Bytes} {l : List Param} (h : fromText t = .ok l) :
    l.Pairwise fun x y => x.key < y.key := by
  obtain ⟨ps, hp, _, rfl⟩ := fromText_ok h
  exact sortBy_strict Param.key ps (parseSegs_keys _ _ _ hp).1

end DnsVerif.Svcb
