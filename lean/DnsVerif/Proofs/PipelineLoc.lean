/-
The LOCATION part of the pipeline theorem (C03 / C10): the store `Pipeline.compile` builds from a
data file satisfies the representation hypotheses of the C03 theorems for the maps and subnets
`Pipeline.zoneOf` declares for the same file — `Lpm.MapRepWF` (name → map), `Lpm.CdbRep` (CDB
prefix-length sets and legacy `%` keys), `Lpm.RdbRep` (RocksDB range points, per map) — hence the
model's `findLocationTop` on the compiled store equals `Spec.locate` on the declared zone.

Structure:
* A. what the `%` line parser guarantees (`parseIPNet_wf`: 16-byte masked network, length ≤ 128);
* B. the output of one line (`%`: subnet + legacy pairs; others: no subnet, resource-record-keyed or
  map pairs), and induction principles over the line fold;
* C. maps: `compile_mapRep`;
* D. CDB: `compile_cdbRep`;
* E. RocksDB: `store_rdb_prefix` (`RdbRep` per map), `getLocationRdb_rep`, `getLocationRdb_file`;
* F. assembly: `getLocation_file`, `LocRep`, `findLocationTop_rep`, `findLocationTop_file`
  (the v2 key layout instantiates `LocRep` in `Proofs/PipelineLocV2.lean`).
-/
import DnsVerif.Proofs.Pipeline
import DnsVerif.Proofs.LpmMap
import DnsVerif.Proofs.LpmCdb
import DnsVerif.Proofs.LpmFinal

namespace DnsVerif.PipelineLoc
open DnsVerif DnsVerif.Net DnsVerif.Codec DnsVerif.Name DnsVerif.Pipeline DnsVerif.Loc DnsVerif.Rearr
open DnsVerif.Spec DnsVerif.PipelineProofs

/-! ### A. what the `%` line parser guarantees -/

theorem v4Fields_go_length : ∀ (s : Bytes) (val digLen pos : Nat) (prevDot first : Bool) (acc r : List UInt8),
    parseIPv4Fields.go s val digLen pos prevDot first acc = some r → acc.length = pos → pos ≤ 3 →
      r.length = 4
  | [], val, digLen, pos, prevDot, first, acc, r, h, ha, hp => by
    unfold parseIPv4Fields.go at h
    split at h
    · cases h
    · simp only [Option.some.injEq] at h
      subst h
      simp only [List.length_append, List.length_singleton]
      omega
  | c :: rest, val, digLen, pos, prevDot, first, acc, r, h, ha, hp => by
    unfold parseIPv4Fields.go at h
    split at h
    · split at h
      · cases h
      · simp only [] at h
        split at h
        · cases h
        · exact v4Fields_go_length rest _ _ pos _ _ acc r h ha hp
    · split at h
      · split at h
        · cases h
        · split at h
          · cases h
          · refine v4Fields_go_length rest _ _ (pos + 1) _ _ _ r h ?_ (by omega)
            simp only [List.length_append, List.length_singleton]
            omega
      · cases h

theorem parseIPv4Fields_length {s : Bytes} {r : List UInt8} (h : parseIPv4Fields s = some r) :
    r.length = 4 :=
  v4Fields_go_length s 0 0 0 false true [] r h rfl (by omega)

/-- invariant of the IPv6 group loop: an even number of bytes, at most 16 -/
def V6Inv (ip : List UInt8) : Prop := ip.length % 2 = 0 ∧ ip.length ≤ 16

theorem v6Loop_inv : ∀ (fuel : Nat) (s : Bytes) (ip : List UInt8) (ell : Option Nat)
    (ip' : List UInt8) (ell' : Option Nat) (rest : Bytes),
    v6Loop fuel s ip ell = some (ip', ell', rest) → V6Inv ip → V6Inv ip'
  | 0, s, ip, ell, ip', ell', rest, h, hi => by
    unfold v6Loop at h
    cases h; exact hi
  | fuel + 1, s, ip, ell, ip', ell', rest, h, hi => by
    unfold v6Loop at h
    split at h
    · cases h; exact hi
    · rename_i hlt
      have hlt : ip.length < 16 := by omega
      have h2 : V6Inv (ip ++ [UInt8.ofNat (0 / 256), UInt8.ofNat (0 % 256)]) → True := fun _ => trivial
      split at h
      · cases h
      · rename_i off acc rest0 _
        split at h
        · cases h
        · have hstep : ∀ a b : UInt8, V6Inv (ip ++ [a, b]) := by
            intro a b
            unfold V6Inv at hi ⊢
            simp only [List.length_append, List.length_cons, List.length_nil]
            omega
          split at h
          · split at h
            · cases h
            · split at h
              · cases h
              · rename_i hle
                split at h
                · cases h
                · rename_i v4 hv4
                  cases h
                  have := parseIPv4Fields_length hv4
                  unfold V6Inv at hi ⊢
                  simp only [List.length_append, this]
                  omega
          · simp only [] at h
            split at h
            · cases h; exact hstep _ _
            · split at h
              · cases h
              · split at h
                · cases h
                · split at h
                  · split at h
                    · cases h
                    · split at h
                      · cases h; exact hstep _ _
                      · exact v6Loop_inv fuel _ _ _ ip' ell' rest h (hstep _ _)
                  · exact v6Loop_inv fuel _ _ _ ip' ell' rest h (hstep _ _)

theorem v6_tail (s1 : Bytes) (ell0 : Option Nat) (r : List UInt8)
    (h : (if ell0.isSome = true ∧ List.isEmpty s1 = true then some (List.replicate 16 (0 : UInt8))
      else
        match v6Loop 17 s1 [] ell0 with
        | none => none
        | some (ip, ell, rest) =>
          if ¬List.isEmpty rest = true then none
          else
            if ip.length < 16 then
              match ell with
              | none => none
              | some e => some (List.take e ip ++ List.replicate (16 - ip.length) 0 ++ List.drop e ip)
            else if ell.isSome = true then none else some ip) = some r) : r.length = 16 := by
  split at h
  · cases h; simp
  · split at h
    · cases h
    · rename_i ip ell rest hl
      have hinv := v6Loop_inv _ _ _ _ _ _ _ hl ⟨rfl, by simp⟩
      split at h
      · cases h
      · split at h
        · rename_i hlt
          split at h
          · cases h
          · rename_i e
            cases h
            simp only [List.length_append, List.length_take, List.length_replicate, List.length_drop]
            omega
        · rename_i hge
          split at h
          · cases h
          · cases h
            have := hinv.2
            omega

theorem parseIPv6_length {s : Bytes} {r : List UInt8} (h : parseIPv6 s = some r) : r.length = 16 := by
  unfold parseIPv6 at h
  split at h
  · cases h
  · simp only [] at h
    split at h
    · exact v6_tail _ _ r h
    · exact v6_tail _ _ r h

theorem parseIP_length {s : Bytes} {r : List UInt8} (h : parseIP s = some r) : r.length = 16 := by
  unfold parseIP at h
  split at h
  · cases hv : parseIPv4Fields s with
    | none => rw [hv] at h; cases h
    | some v =>
      rw [hv] at h
      cases h
      simp [v4Prefix, parseIPv4Fields_length hv]
  · exact parseIPv6_length h
  · cases h

theorem parseCIDR_wf {s : Bytes} {ip : List UInt8} {ones : Nat} (h : parseCIDR s = some (ip, ones)) :
    ip.length = 16 ∧ ones ≤ 128 ∧ maskIP ip ones = ip := by
  unfold parseCIDR at h
  split at h
  · cases h
  · simp only [] at h
    split at h
    · cases h
    · rename_i ip0 hip
      split at h
      · cases h
      · rename_i n used _
        have h16 := parseIP_length hip
        have hbits : ∀ (len bits : Nat), bits = 32 ∨ bits = 128 →
            (if used ≠ len ∨ n > bits then none
              else some (maskIP ip0 (if bits = 32 then n + 96 else n), if bits = 32 then n + 96 else n)) =
              some (ip, ones) → ip.length = 16 ∧ ones ≤ 128 ∧ maskIP ip ones = ip := by
          intro len bits hb h
          split at h
          · cases h
          · rename_i hc
            simp only [Option.some.injEq, Prod.mk.injEq] at h
            obtain ⟨h1, h2⟩ := h
            have hn : ones ≤ 128 := by
              rcases hb with rfl | rfl
              · simp only [if_true] at h2; omega
              · have h128 : ¬ ((128 : Nat) = 32) := by omega
                simp only [h128, if_false] at h2; omega
            refine ⟨by rw [← h1, Lpm.maskIP_length]; exact h16, hn, ?_⟩
            rw [← h1, h2]
            exact Lpm.maskIP_maskIP h16 hn (Nat.le_refl _)
        refine hbits _ _ ?_ h
        split
        · exact Or.inl rfl
        · exact Or.inr rfl

/-- **the `%` line parser's guarantee**: a 16-byte network address with the host bits cleared and a
prefix length ≤ 128 (IPv4 on the 128-bit scale) -/
theorem parseIPNet_wf {s : Bytes} {ip : List UInt8} {ones : Nat} (h : parseIPNet s = some (ip, ones)) :
    ip.length = 16 ∧ ones ≤ 128 ∧ maskIP ip ones = ip := by
  unfold parseIPNet at h
  split at h
  · rename_i r hr
    cases h
    exact parseCIDR_wf hr
  · split at h
    · rename_i ip0 hip
      cases h
      have h16 := parseIP_length hip
      exact ⟨h16, Nat.le_refl _, Lpm.maskIP_128 h16⟩
    · split at h
      · cases h
        exact ⟨rfl, by omega, by decide⟩
      · cases h

macro "sn_case " h:ident : tactic =>
  `(tactic| (cl_open $h:ident
             repeat' split at $h:ident
             all_goals first | (cases $h:ident; rfl) | cases $h:ident))

theorem convertLine_subnet_none (cfg : Cfg) (svcb : SvcbFn) (t : UInt8) (rest : Bytes) (lo : LineOut)
    (h25 : t ≠ 0x25) (h : convertLine cfg svcb (t :: rest) = .ok lo) : lo.subnet = none := by
  by_cases h2 : t = 0x5a
  · subst h2; sn_case h
  by_cases h3 : t = 0x2e
  · subst h3; sn_case h
  by_cases h4 : t = 0x26
  · subst h4; sn_case h
  by_cases h5 : t = 0x2b
  · subst h5; sn_case h
  by_cases h6 : t = 0x3d
  · subst h6; sn_case h
  by_cases h7 : t = 0x40
  · subst h7; sn_case h
  by_cases h8 : t = 0x53
  · subst h8; sn_case h
  by_cases h9 : t = 0x43
  · subst h9; sn_case h
  by_cases h10 : t = 0x5e
  · subst h10; sn_case h
  by_cases h11 : t = 0x27
  · subst h11; sn_case h
  by_cases h12 : t = 0x3a
  · subst h12; sn_case h
  by_cases h13 : t = 0x4d
  · subst h13; sn_case h
  by_cases h14 : t = 0x38
  · subst h14; sn_case h
  by_cases h15 : t = 0x42
  · subst h15; sn_case h
  by_cases h16 : t = 0x48
  · subst h16; sn_case h
  exfalso
  unfold convertLine at h
  simp only [if_neg h25, if_neg h2, h3, h4, false_or, if_false, if_neg h5, if_neg h6, if_neg h7, if_neg h8,
    if_neg h9, if_neg h10, if_neg h11, if_neg h12, if_neg h13, if_neg h14, h15, h16] at h
  cases h

/-! ### B. the shape of one line's output -/

/-- the subnet of a `%` line, from its fields alone (independent of the codec configuration) -/
def pctSubnet (text : Bytes) : Option Subnet :=
  match getloc (fld (fields text) 0), parseIPNet (fld (fields text) 1) with
  | .ok lo, some (ip, ones) => some { lo := lo, ip := ip, ones := ones, lmap := getlmap (fld (fields text) 2) }
  | _, _ => none

/-- parser guarantees for one subnet -/
def SubnetOK (s : Subnet) : Prop :=
  s.ip.length = 16 ∧ s.ones ≤ 128 ∧ maskIP s.ip s.ones = s.ip ∧ s.lmap.length = 2 ∧ LocOpt s.lo

/-- the legacy `%` records the CDB codec writes for one subnet -/
def legacyKVs (cfg : Cfg) (s : Subnet) : List KV :=
  if cfg.noRnetOutput then []
  else
    (if isV4 s.ip ∧ s.ones ≥ 96 ∧ s.ones % 8 = 0 then
      [([0, 0x25] ++ s.lmap ++ (s.ip.take (s.ones / 8)).drop 12, putloc s.lo)] else [])
    ++ [([0, 0x25] ++ s.lmap ++ s.ip ++ [UInt8.ofNat s.ones], putloc s.lo)]

theorem pctSubnet_ok {text : Bytes} {s : Subnet} (h : pctSubnet text = some s) : SubnetOK s := by
  unfold pctSubnet at h
  split at h
  · rename_i lo ip ones hlo hip
    cases h
    obtain ⟨h1, h2, h3⟩ := parseIPNet_wf hip
    exact ⟨h1, h2, h3, rfl, getloc_ok hlo⟩
  · cases h

theorem convertLine_pct_full (cfg : Cfg) (svcb : SvcbFn) (rest : Bytes) (lo : LineOut)
    (h : convertLine cfg svcb (0x25 :: rest) = .ok lo) :
    ∃ s, pctSubnet (0x25 :: rest) = some s ∧ lo.subnet = some s ∧
      (cfg.ranger = true → s.lo.isSome = true) ∧ lo.kvs = legacyKVs cfg s := by
  cl_open h
  split at h
  · cases h
  · rename_i lo0 hlo
    split at h
    · cases h
    · rename_i ip ones hip
      split at h
      · cases h
      · rename_i hr
        cases h
        refine ⟨⟨lo0, ip, ones, getlmap (fld (fields (0x25 :: rest)) 2)⟩, ?_, rfl, ?_, rfl⟩
        · unfold pctSubnet
          rw [hlo, hip]
        · intro hrg
          cases hl : lo0 with
          | none => exact absurd ⟨hrg, by rw [hl]; rfl⟩ hr
          | some _ => rfl

/-- a resource-record key of the v1 layout: two tag bytes, then a packed name -/
def RRKeyShaped (kv : KV) : Prop := ∃ l ls, l.length = 2 ∧ LabelsOK ls ∧ kv.1 = l ++ pack ls

/-- a map pair of the v1 layout: map key of a storable owner, two-byte map id -/
def MapShaped (kv : KV) : Prop :=
  ∃ ecs owner wild, LabelsOK owner ∧ kv.1 = Lpm.mapKeyOf ecs owner wild ∧ kv.2.length = 2

theorem rrShaped_key {kv : KV} (h : RRShaped kv) : RRKeyShaped kv := by
  obtain ⟨r, hr, rfl⟩ := h
  exact ⟨r.loc, r.owner, hr.1.2.2.1, hr.2.1, rfl⟩

theorem mapKey_v1 (cfg : Cfg) (hv : cfg.useV2Keys = false) (mapID dom : Bytes) :
    mapKey cfg mapID dom =
      match dom with
      | 0x2a :: 0x2e :: rest => mapID ++ putdom (toLower rest) ++ [0x2a]
      | _ => mapID ++ putdom (toLower dom) ++ [0x3d] := by
  unfold mapKey
  rw [hv]
  split
  rename_i d sfx heq
  split at heq
  · cases heq; rfl
  · rename_i hno
    cases heq
    simp only [Bool.false_eq_true, if_false]

theorem mapKey_shaped (cfg : Cfg) (hv : cfg.useV2Keys = false) (ecs : Bool) (dom v : Bytes) (hv2 : v.length = 2) :
    MapShaped (mapKey cfg (Lpm.mtypeOf ecs) dom, v) := by
  rw [mapKey_v1 cfg hv]
  split
  · rename_i d
    refine ⟨ecs, domLabels (toLower d), true, domLabels_ok _, ?_, hv2⟩
    show Lpm.mtypeOf ecs ++ putdom (toLower d) ++ [0x2a] = _
    rw [putdom_eq_pack]; rfl
  · refine ⟨ecs, domLabels (toLower dom), false, domLabels_ok _, ?_, hv2⟩
    show Lpm.mtypeOf ecs ++ putdom (toLower dom) ++ [0x3d] = _
    rw [putdom_eq_pack]; rfl

theorem getlmap_length (b : Bytes) : (getlmap b).length = 2 := rfl

/-- a line that is neither `%` nor a map line (v1 keys) emits resource-record-keyed pairs only -/
theorem convertLine_rrKeyShaped (cfg : Cfg) (hv : cfg.useV2Keys = false) (svcb : SvcbFn) (t : UInt8)
    (rest : Bytes) (lo : LineOut) (h25 : t ≠ 0x25) (h13 : t ≠ 0x4d) (h14 : t ≠ 0x38)
    (h : convertLine cfg svcb (t :: rest) = .ok lo) :
    ∀ kv ∈ lo.kvs, RRKeyShaped kv := by
  intro kv hkv
  by_cases h2 : t = 0x5a
  · subst h2; exact rrShaped_key (shaped_Z cfg hv svcb rest lo h kv hkv)
  by_cases h3 : t = 0x2e
  · subst h3; exact rrShaped_key (shaped_dot cfg hv svcb rest lo h kv hkv)
  by_cases h4 : t = 0x26
  · subst h4; exact rrShaped_key (shaped_amp cfg hv svcb rest lo h kv hkv)
  by_cases h5 : t = 0x2b
  · subst h5; exact rrShaped_key (shaped_plus cfg hv svcb rest lo h kv hkv)
  by_cases h6 : t = 0x3d
  · subst h6; exact rrShaped_key (shaped_eq cfg hv svcb rest lo h kv hkv)
  by_cases h7 : t = 0x40
  · subst h7; exact rrShaped_key (shaped_at cfg hv svcb rest lo h kv hkv)
  by_cases h8 : t = 0x53
  · subst h8; exact rrShaped_key (shaped_S cfg hv svcb rest lo h kv hkv)
  by_cases h9 : t = 0x43
  · subst h9; exact rrShaped_key (shaped_C cfg hv svcb rest lo h kv hkv)
  by_cases h10 : t = 0x5e
  · subst h10; exact rrShaped_key (shaped_caret cfg hv svcb rest lo h kv hkv)
  by_cases h11 : t = 0x27
  · subst h11; exact rrShaped_key (shaped_txt cfg hv svcb rest lo h kv hkv)
  by_cases h12 : t = 0x3a
  · subst h12
    cl_open h
    split at h
    · cases h
    · rename_i lo0 hloc
      cases h
      rw [List.mem_singleton] at hkv
      subst hkv
      exact ⟨putloc lo0, _, putloc_length lo0 (getloc_ok hloc), domLabels_ok _, domainKey_v1 cfg hv _ _⟩
  by_cases h15 : t = 0x42
  · subst h15; exact rrShaped_key (shaped_B cfg hv svcb rest lo h kv hkv)
  by_cases h16 : t = 0x48
  · subst h16; exact rrShaped_key (shaped_H cfg hv svcb rest lo h kv hkv)
  exfalso
  unfold convertLine at h
  simp only [if_neg h25, if_neg h2, h3, h4, false_or, if_false, if_neg h5, if_neg h6, if_neg h7, if_neg h8,
    if_neg h9, if_neg h10, if_neg h11, if_neg h12, if_neg h13, if_neg h14, h15, h16] at h
  cases h

/-- the pair of a map line (`M` / `8`), v1 keys -/
theorem convertLine_map (cfg : Cfg) (svcb : SvcbFn) (ecs : Bool) (rest : Bytes) (lo : LineOut)
    (h : convertLine cfg svcb ((if ecs then 0x38 else 0x4d) :: rest) = .ok lo) :
    lo.subnet = none ∧
    lo.kvs = [(mapKey cfg (Lpm.mtypeOf ecs) (unq (fld (fields ((if ecs then 0x38 else 0x4d) :: rest)) 0)),
      getlmap (fld (fields ((if ecs then 0x38 else 0x4d) :: rest)) 1))] := by
  cases ecs
  · simp only [Bool.false_eq_true, if_false] at h ⊢
    cl_open h
    cases h
    exact ⟨rfl, rfl⟩
  · simp only [if_true] at h ⊢
    cl_open h
    cases h
    exact ⟨rfl, rfl⟩

/-- **key shape** of every pair of a non-`%` line (v1 keys), without `GenericOK` -/
theorem convertLine_keyShaped (cfg : Cfg) (hv : cfg.useV2Keys = false) (svcb : SvcbFn) (t : UInt8)
    (rest : Bytes) (lo : LineOut) (h25 : t ≠ 0x25) (h : convertLine cfg svcb (t :: rest) = .ok lo) :
    ∀ kv ∈ lo.kvs, RRKeyShaped kv ∨ MapShaped kv := by
  intro kv hkv
  by_cases h13 : t = 0x4d
  · subst h13
    obtain ⟨_, hk⟩ := convertLine_map cfg svcb false rest lo h
    rw [hk, List.mem_singleton] at hkv
    subst hkv
    exact Or.inr (mapKey_shaped cfg hv false _ _ (getlmap_length _))
  by_cases h14 : t = 0x38
  · subst h14
    obtain ⟨_, hk⟩ := convertLine_map cfg svcb true rest lo h
    rw [hk, List.mem_singleton] at hkv
    subst hkv
    exact Or.inr (mapKey_shaped cfg hv true _ _ (getlmap_length _))
  exact Or.inl (convertLine_rrKeyShaped cfg hv svcb t rest lo h25 h13 h14 h kv hkv)

/-! ### induction over the line fold -/

/-- an invariant of the accumulator preserved by every successfully converted line holds at the end -/
theorem collect_induct (cfg : Cfg) (svcb : SvcbFn) (I : List KV × List Subnet → Prop)
    (hstep : ∀ acc l lo, I acc → convertLine cfg svcb l = .ok lo →
      I (acc.1 ++ lo.kvs, acc.2 ++ lo.subnet.toList)) :
    ∀ (lines : List Bytes) (a r : List KV × List Subnet), collect cfg svcb lines a = some r → I a → I r
  | [], a, r, h, ha => by
    rw [collect_nil] at h
    cases h; exact ha
  | raw :: lines, a, r, h, ha => by
    rw [collect_cons] at h
    unfold step at h
    cases hf : filterLine raw with
    | none =>
      rw [hf] at h
      exact collect_induct cfg svcb I hstep lines a r h ha
    | some l =>
      rw [hf] at h
      simp only [] at h
      cases hc : convertLine cfg svcb l with
      | error e => rw [hc] at h; cases h
      | ok lo =>
        rw [hc] at h
        exact collect_induct cfg svcb I hstep lines _ r h (hstep a l lo ha hc)

/-- the same for two folds over the same lines (two codec configurations) -/
theorem collect_induct2 (cfg1 cfg2 : Cfg) (svcb1 svcb2 : SvcbFn)
    (I : List KV × List Subnet → List KV × List Subnet → Prop)
    (hstep : ∀ a1 a2 l lo1 lo2, I a1 a2 → convertLine cfg1 svcb1 l = .ok lo1 →
      convertLine cfg2 svcb2 l = .ok lo2 →
      I (a1.1 ++ lo1.kvs, a1.2 ++ lo1.subnet.toList) (a2.1 ++ lo2.kvs, a2.2 ++ lo2.subnet.toList)) :
    ∀ (lines : List Bytes) (a1 a2 r1 r2 : List KV × List Subnet),
      collect cfg1 svcb1 lines a1 = some r1 → collect cfg2 svcb2 lines a2 = some r2 → I a1 a2 → I r1 r2
  | [], a1, a2, r1, r2, h1, h2, ha => by
    rw [collect_nil] at h1 h2
    cases h1; cases h2; exact ha
  | raw :: lines, a1, a2, r1, r2, h1, h2, ha => by
    rw [collect_cons] at h1 h2
    unfold step at h1 h2
    cases hf : filterLine raw with
    | none =>
      rw [hf] at h1 h2
      exact collect_induct2 cfg1 cfg2 svcb1 svcb2 I hstep lines a1 a2 r1 r2 h1 h2 ha
    | some l =>
      rw [hf] at h1 h2
      simp only [] at h1 h2
      cases hc1 : convertLine cfg1 svcb1 l with
      | error e => rw [hc1] at h1; cases h1
      | ok lo1 =>
        cases hc2 : convertLine cfg2 svcb2 l with
        | error e => rw [hc2] at h2; cases h2
        | ok lo2 =>
          rw [hc1] at h1; rw [hc2] at h2
          exact collect_induct2 cfg1 cfg2 svcb1 svcb2 I hstep lines _ _ r1 r2 h1 h2
            (hstep a1 a2 l lo1 lo2 ha hc1 hc2)

/-- one line under a compiling v1 configuration and under `zoneOf`'s: a `%` line yields the same
subnet, legacy pairs on the compiling side only; any other line yields the same pairs and no subnet -/
theorem line_rel (s : Nat) (n r : Bool) (svcb : SvcbFn) (l : Bytes) (lo1 lo2 : LineOut)
    (h1 : convertLine ⟨s, false, n, r⟩ svcb l = .ok lo1)
    (h2 : convertLine (cfgZ s) (fun _ => none) l = .ok lo2) :
    (∃ sub, pctSubnet l = some sub ∧ lo1.subnet = some sub ∧ lo2.subnet = some sub ∧
        lo1.kvs = legacyKVs ⟨s, false, n, r⟩ sub ∧ lo2.kvs = [] ∧ (r = true → sub.lo.isSome = true)) ∨
    (lo1.subnet = none ∧ lo2.subnet = none ∧ lo1.kvs = lo2.kvs ∧
        ∀ kv ∈ lo2.kvs, RRKeyShaped kv ∨ MapShaped kv) := by
  match l, h1, h2 with
  | [], h1, _ => cases h1
  | t :: rest, h1, h2 =>
    by_cases h25 : t = 0x25
    · subst h25
      obtain ⟨sub, hp, hs1, hr1, hk1⟩ := convertLine_pct_full _ svcb rest lo1 h1
      obtain ⟨sub', hp', hs2, _, hk2⟩ := convertLine_pct_full _ _ rest lo2 h2
      rw [hp] at hp'
      cases hp'
      exact Or.inl ⟨sub, hp, hs1, hs2, hk1, by rw [hk2]; rfl, hr1⟩
    · have hBH : ¬ (t = 0x42 ∨ t = 0x48) := fun hBH => convertLine_BH_none _ t hBH rest lo2 h2
      rw [convertLine_cfg_indep s n r svcb t rest h25 hBH, h2] at h1
      cases h1
      exact Or.inr ⟨convertLine_subnet_none _ _ t rest lo1 h25 h2, convertLine_subnet_none _ _ t rest lo1 h25 h2,
        rfl, convertLine_keyShaped (cfgZ s) rfl _ t rest lo1 h25 h2⟩

/-- both folds collect the same subnets -/
theorem collect_subs_eq (s : Nat) (n r : Bool) (svcb : SvcbFn) (lines : List Bytes)
    (r1 r2 : List KV × List Subnet)
    (h1 : collect ⟨s, false, n, r⟩ svcb lines ([], []) = some r1)
    (h2 : collect (cfgZ s) (fun _ => none) lines ([], []) = some r2) : r1.2 = r2.2 := by
  refine collect_induct2 _ _ _ _ (fun a1 a2 => a1.2 = a2.2) ?_ lines _ _ r1 r2 h1 h2 rfl
  intro a1 a2 l lo1 lo2 ha hc1 hc2
  rcases line_rel s n r svcb l lo1 lo2 hc1 hc2 with ⟨sub, _, e1, e2, _⟩ | ⟨e1, e2, _⟩
  · show a1.2 ++ _ = a2.2 ++ _
    rw [ha, e1, e2]
  · show a1.2 ++ _ = a2.2 ++ _
    rw [ha, e1, e2]

/-- everything `zoneOf` collects is a resource-record-keyed pair or a map pair (no `GenericOK` needed) -/
theorem collectZ_keyShaped (s : Nat) (lines : List Bytes) (r : List KV × List Subnet)
    (h : collect (cfgZ s) (fun _ => none) lines ([], []) = some r) :
    ∀ kv ∈ r.1, RRKeyShaped kv ∨ MapShaped kv := by
  refine collect_induct _ _ (fun a => ∀ kv ∈ a.1, RRKeyShaped kv ∨ MapShaped kv) ?_ lines _ r h (by simp)
  intro acc l lo ha hc kv hkv
  simp only [List.mem_append] at hkv
  rcases hkv with hkv | hkv
  · exact ha kv hkv
  · match l, hc with
    | [], hc => cases hc
    | t :: rest, hc =>
      by_cases h25 : t = 0x25
      · subst h25
        obtain ⟨sub, _, _, _, hk⟩ := convertLine_pct_full _ _ rest lo hc
        rw [hk] at hkv
        cases hkv
      · exact convertLine_keyShaped (cfgZ s) rfl _ t rest lo h25 hc kv hkv

/-- every collected subnet satisfies the parser guarantees (and has a location under `ranger`) -/
theorem collect_subnetOK (cfg : Cfg) (svcb : SvcbFn) (lines : List Bytes) (r : List KV × List Subnet)
    (h : collect cfg svcb lines ([], []) = some r) :
    ∀ x ∈ r.2, SubnetOK x ∧ (cfg.ranger = true → x.lo.isSome = true) := by
  refine collect_induct _ _ (fun a => ∀ x ∈ a.2, SubnetOK x ∧ (cfg.ranger = true → x.lo.isSome = true)) ?_
    lines _ r h (by simp)
  intro acc l lo ha hc x hx
  simp only [List.mem_append] at hx
  rcases hx with hx | hx
  · exact ha x hx
  · match l, hc with
    | [], hc => cases hc
    | t :: rest, hc =>
      by_cases h25 : t = 0x25
      · subst h25
        obtain ⟨sub, hp, hs, hr, _⟩ := convertLine_pct_full _ _ rest lo hc
        rw [hs] at hx
        simp only [Option.toList_some, List.mem_singleton] at hx
        subst hx
        exact ⟨pctSubnet_ok hp, hr⟩
      · rw [convertLine_subnet_none _ _ t rest lo h25 hc] at hx
        cases hx

/-! ### C. maps: the compiled store represents the declared maps -/

theorem labelsOK_wf {ls : List Bytes} (h : LabelsOK ls) : Lpm.WFName ls :=
  fun l hl => ⟨List.length_pos_iff.2 (h l hl).1, (h l hl).2⟩

theorem wf_labelsOK {ls : List Bytes} (h : Lpm.WFName ls) : LabelsOK ls :=
  fun l hl => ⟨List.length_pos_iff.1 (h l hl).1, (h l hl).2⟩

/-- a packed name without its final zero byte does not unpack -/
theorem labels_flat_none : ∀ (ls : List Bytes), LabelsOK ls → ∀ fuel,
    labels fuel (ls.flatMap fun l => UInt8.ofNat l.length :: l) = none
  | [], _, fuel => by cases fuel <;> rfl
  | lab :: rest, h, fuel => by
    cases fuel with
    | zero => rfl
    | succ f =>
      have hlab := h lab (by simp)
      have hn : (UInt8.ofNat lab.length).toNat = lab.length := Lpm.toNat_ofNat_lt hlab.2
      have hne : UInt8.ofNat lab.length ≠ 0 := by
        intro h0
        have : (UInt8.ofNat lab.length).toNat = 0 := by rw [h0]; rfl
        rw [hn] at this
        exact hlab.1 (List.length_eq_zero_iff.mp this)
      rw [List.flatMap_cons, List.cons_append]
      unfold labels
      rw [if_neg hne, hn, if_neg (by simp), List.drop_left,
        labels_flat_none rest (fun x hx => h x (List.mem_cons_of_mem _ hx)) f]

theorem pack_eq_flat (ls : List Bytes) : pack ls = (ls.flatMap fun l => UInt8.ofNat l.length :: l) ++ [0] := rfl

theorem decodeRR_snd (k v : Bytes) : (decodeRR k v).2 = none := by
  unfold decodeRR
  split
  · split <;> rfl
  · rfl

/-- a resource-record-keyed pair never decodes to a map declaration — not even under the tags
`\\000M` / `\\0008`, whose keys `decodeKV` reads as map keys: the name part then lacks its terminator -/
theorem decodeKV_rrKey {kv : KV} (h : RRKeyShaped kv) : (decodeKV kv).2 = none := by
  obtain ⟨l, ls, hl, hls, hk⟩ := h
  obtain ⟨k, v⟩ := kv
  simp only [] at hk
  subst hk
  by_cases hm : IsMapKey (l ++ pack ls)
  · obtain ⟨t, rest, he, ht, hr⟩ := hm
    match l, hl with
    | [a, b], _ =>
      simp only [List.cons_append, List.nil_append, List.cons.injEq] at he
      obtain ⟨rfl, rfl, hrest⟩ := he
      unfold decodeKV
      simp only [List.cons_append, List.nil_append]
      rw [if_pos ⟨ht, by rw [hrest]; exact hr⟩]
      have hbody : (pack ls).take ((pack ls).length - 1) = ls.flatMap fun l => UInt8.ofNat l.length :: l := by
        rw [pack_eq_flat, List.length_append, List.length_singleton, Nat.add_sub_cancel, List.take_left]
      rw [hbody]
      unfold unpack
      rw [labels_flat_none ls hls]
  · rw [decodeKV_not_map _ _ hm]
    exact decodeRR_snd _ _

theorem mtype_byte (ecs : Bool) : decide ((if ecs then (0x38 : UInt8) else 0x4d) = 0x38) = ecs := by
  cases ecs <;> decide

theorem sfx_byte (wild : Bool) : decide ((if wild then (0x2a : UInt8) else 0x3d) = 0x2a) = wild := by
  cases wild <;> decide

/-- a map pair decodes to its declaration -/
theorem decodeKV_map' (ecs : Bool) (owner : List Bytes) (wild : Bool) (v : Bytes) (ho : LabelsOK owner)
    (hv : v.length = 2) :
    decodeKV (Lpm.mapKeyOf ecs owner wild, v) = (none, some ⟨ecs, owner, wild, v⟩) := by
  unfold Lpm.mapKeyOf Lpm.mtypeOf decodeKV
  simp only [List.cons_append, List.nil_append]
  have hlen : 1 ≤ (pack owner).length := by rw [pack_eq_flat, List.length_append]; simp
  have ht : ((if ecs then (0x38 : UInt8) else 0x4d) = 0x4d ∨ (if ecs then (0x38 : UInt8) else 0x4d) = 0x38) := by
    cases ecs
    · exact Or.inl rfl
    · exact Or.inr rfl
  rw [if_pos ⟨ht, by rw [List.length_append, List.length_singleton]; omega⟩]
  rw [List.length_append, List.length_singleton, Nat.add_sub_cancel, List.take_left, unpack_pack owner ho,
    List.getLast?_append, List.getLast?_singleton]
  simp only [Option.some_or]
  match v, hv with
  | [a, b], _ =>
    simp only [List.getD_cons_zero, List.getD_cons_succ, mtype_byte, sfx_byte]

theorem pack_getLast (ls : List Bytes) : (pack ls).getLast? = some 0 := by
  rw [pack_eq_flat, List.getLast?_append, List.getLast?_singleton]; rfl

/-- a resource-record key is no map key -/
theorem rrKey_ne_mapKey {l : Bytes} {ls : List Bytes} (hl : l.length = 2) (ecs : Bool) (owner : List Bytes)
    (wild : Bool) : l ++ pack ls ≠ Lpm.mapKeyOf ecs owner wild := by
  intro h
  unfold Lpm.mapKeyOf at h
  rw [List.append_assoc] at h
  have := (List.append_inj h (by rw [hl]; rfl)).2
  have h1 := congrArg List.getLast? this
  rw [pack_getLast, List.getLast?_append, List.getLast?_singleton] at h1
  simp only [Option.some_or, Option.some.injEq] at h1
  cases wild <;> simp at h1

/-- decoding key-shaped pairs and selecting one (type, owner, wildcard flag) = selecting one map key -/
theorem maps_of_shaped (ecs : Bool) (owner : List Bytes) (wild : Bool) (ho : Lpm.WFName owner) :
    ∀ (kvs : List KV), (∀ kv ∈ kvs, RRKeyShaped kv ∨ MapShaped kv) →
      (kvs.filter fun kv => decide (kv.1 = Lpm.mapKeyOf ecs owner wild)).map (·.2) =
        (((kvs.map decodeKV).filterMap (·.2)).filter
          fun m => m.ecs = ecs ∧ m.wild = wild ∧ m.owner = owner).map (·.mapID)
  | [], _ => rfl
  | kv :: kvs, hs => by
    have ih := maps_of_shaped ecs owner wild ho kvs (fun x hx => hs x (List.mem_cons_of_mem _ hx))
    rw [List.map_cons]
    rcases hs kv (by simp) with hrr | ⟨e, o, w, hlo, hk, hv2⟩
    · have hdec := decodeKV_rrKey hrr
      obtain ⟨l, ls, hl, _, hk⟩ := hrr
      have hne : kv.1 ≠ Lpm.mapKeyOf ecs owner wild := by rw [hk]; exact rrKey_ne_mapKey hl _ _ _
      rw [List.filter_cons_of_neg (by simpa using hne), List.filterMap_cons_none hdec]
      exact ih
    · obtain ⟨k, v⟩ := kv
      simp only [] at hk hv2
      subst hk
      rw [decodeKV_map' e o w v hlo hv2, List.filterMap_cons_some (by rfl)]
      by_cases hm : e = ecs ∧ w = wild ∧ o = owner
      · obtain ⟨rfl, rfl, rfl⟩ := hm
        rw [List.filter_cons_of_pos (by simp), List.filter_cons_of_pos (by simp), List.map_cons, List.map_cons, ih]
      · have hne : Lpm.mapKeyOf e o w ≠ Lpm.mapKeyOf ecs owner wild := by
          intro he
          obtain ⟨h1, h2, h3⟩ := Lpm.mapKeyOf_inj_wf (labelsOK_wf hlo) ho he
          exact hm ⟨h1, h3, h2⟩
        rw [List.filter_cons_of_neg (by simpa using hne), List.filter_cons_of_neg (by simpa using hm)]
        exact ih

theorem mapKey_not_legacy (ecs : Bool) (owner : List Bytes) (wild : Bool) :
    ¬ IsLegacyKey (Lpm.mapKeyOf ecs owner wild) := by
  rintro ⟨rest, he⟩
  unfold Lpm.mapKeyOf Lpm.mtypeOf at he
  simp only [List.cons_append, List.nil_append, List.cons.injEq] at he
  cases ecs <;> simp at he

theorem mapKey_length (ecs : Bool) (owner : List Bytes) (wild : Bool) :
    4 ≤ (Lpm.mapKeyOf ecs owner wild).length := by
  unfold Lpm.mapKeyOf Lpm.mtypeOf
  have : 1 ≤ (pack owner).length := by rw [pack_eq_flat, List.length_append]; simp
  simp only [List.length_append, List.length_cons, List.length_nil]
  omega

theorem featuresKey_eq (cfg : Cfg) : (featuresKV cfg).1 = [0, 111, 95, 102, 101, 97, 116, 117, 114, 101, 115] := by
  show Generated.dnsdata_FeaturesKey = _
  decide

/-- the accumulator pairs of a v1 backend: prefix sets (CDB) or range points (RocksDB) -/
def accOf (b : Backend) (subs : List Subnet) : Option (List KV) :=
  match b with
  | .cdb _ => some (prefixSetKVs subs)
  | _ => rangePointKVs subs

/-- `compile` and `zoneOf` of one file, opened up: the collected pairs and subnets of both folds -/
theorem compile_open (b : Backend) (hb : (∃ sep, b = .cdb sep) ∨ b = .rdbV1) (svcb : SvcbFn)
    (lines : List Bytes) (store : Store) (z : Zone)
    (hc : compile b svcb lines = some store) (hz : zoneOf lines = some z) :
    ∃ (n r : Bool) (kvsC kvsZ : List KV) (subs : List Subnet) (acc : List KV),
      cfgFor b = ⟨serial, false, n, r⟩ ∧
      collect ⟨serial, false, n, r⟩ svcb lines ([], []) = some (kvsC, subs) ∧
      collect (cfgZ serial) (fun _ => none) lines ([], []) = some (kvsZ, subs) ∧
      accOf b subs = some acc ∧
      store = Store.ofKVs (kvsC ++ acc ++ [featuresKV (cfgFor b)]) ∧
      z.recs = (kvsZ.map decodeKV).filterMap (·.1) ∧
      z.maps = (kvsZ.map decodeKV).filterMap (·.2) ∧
      z.subnets = subs.map Lpm.declOf := by
  rw [compile_eq] at hc
  rw [zoneOf_eq] at hz
  obtain ⟨n, r, hcfg⟩ := cfgFor_v1 b hb
  cases hcz : collect (cfgZ serial) (fun _ => none) lines ([], []) with
  | none => rw [hcz] at hz; cases hz
  | some rz =>
    rw [hcz] at hz
    simp only [Option.map_some, Option.some.injEq] at hz
    cases hcc : collect (cfgFor b) svcb lines ([], []) with
    | none => rw [hcc] at hc; cases hc
    | some rc =>
      rw [hcc] at hc
      obtain ⟨kvsC, subsC⟩ := rc
      obtain ⟨kvsZ, subsZ⟩ := rz
      simp only [] at hc
      rw [hcfg] at hcc
      have hsub : subsC = subsZ := collect_subs_eq serial n r svcb lines _ _ hcc hcz
      subst hsub
      have hacc : ∃ acc, accOf b subsC = some acc ∧
          store = Store.ofKVs (kvsC ++ acc ++ [featuresKV (cfgFor b)]) := by
        rcases hb with ⟨sep, rfl⟩ | rfl
        · simp only [Option.map_some, Option.some.injEq] at hc
          exact ⟨_, rfl, hc.symm⟩
        · cases hr : rangePointKVs subsC with
          | none => rw [hr] at hc; cases hc
          | some acc =>
            rw [hr] at hc
            simp only [Option.map_some, Option.some.injEq] at hc
            exact ⟨acc, hr, hc.symm⟩
      obtain ⟨acc, ha, hs⟩ := hacc
      refine ⟨n, r, kvsC, kvsZ, subsC, acc, hcfg, hcc, rfl, ha, hs, ?_, ?_, ?_⟩
      · rw [← hz]
      · rw [← hz]
      · rw [← hz]; rfl

/-- keys of the accumulator pairs: two bytes (prefix sets) or the range-point marker -/
theorem acc_keys (b : Backend) (subs : List Subnet) (acc : List KV) (h : accOf b subs = some acc) :
    ∀ kv ∈ acc, kv.1.length = 2 ∨ ∃ rest, kv.1 = 0 :: 0 :: 0 :: 33 :: rest := by
  intro kv hkv
  cases b with
  | cdb sep =>
    simp only [accOf, Option.some.injEq] at h
    subst h
    exact Or.inl (prefixSet_keys subs kv hkv)
  | rdbV1 => exact Or.inr (rangePoint_keys subs acc h kv hkv)
  | rdbV2 => exact Or.inr (rangePoint_keys subs acc h kv hkv)

/-- **Maps.** For the v1 key layouts the compiled store represents the declared maps: under each
map key `type ++ packed owner ++ '='/'*'` of a well-formed owner it holds exactly the ids of the
declared maps with that key, in file order. No well-formedness of the file is needed. -/
theorem compile_mapRep (b : Backend) (hb : (∃ sep, b = .cdb sep) ∨ b = .rdbV1) (svcb : SvcbFn)
    (lines : List Bytes) (store : Store) (z : Zone)
    (hc : compile b svcb lines = some store) (hz : zoneOf lines = some z) :
    Lpm.MapRepWF store z.maps := by
  obtain ⟨n, r, kvsC, kvsZ, subs, acc, hcfg, hcc, hcz, hacc, hstore, _, hmaps, _⟩ :=
    compile_open b hb svcb lines store z hc hz
  intro ecs owner wild ho
  have hk4 := mapKey_length ecs owner wild
  rw [hstore, store_get_kvs kvsC acc _ _ ?_ ?_, hmaps]
  · have hrel := collect_rel serial n r svcb (fun kv => decide (kv.1 = Lpm.mapKeyOf ecs owner wild))
      (by intro kv hk
          simp only [decide_eq_false_iff_not]
          intro he
          rw [he] at hk
          exact mapKey_not_legacy _ _ _ hk)
      lines ([], []) ([], []) (kvsC, subs) (kvsZ, subs) hcc hcz rfl
    simp only [] at hrel
    rw [hrel]
    exact maps_of_shaped ecs owner wild ho kvsZ (collectZ_keyShaped serial lines _ hcz)
  · intro kv hkv he
    rcases acc_keys b subs acc hacc kv hkv with h2 | ⟨rest, hrest⟩
    · rw [he] at h2; omega
    · rw [he] at hrest
      unfold Lpm.mapKeyOf Lpm.mtypeOf at hrest
      simp only [List.cons_append, List.nil_append, List.cons.injEq] at hrest
      cases ecs <;> simp at hrest
  · rw [featuresKey_eq]
    intro he
    unfold Lpm.mapKeyOf Lpm.mtypeOf at he
    simp only [List.cons_append, List.nil_append, List.cons.injEq] at he
    cases ecs <;> simp at he

/-! ### D. CDB: prefix-length sets and legacy `%` keys -/

/-- every pair collected under a compiling configuration is a pair `zoneOf` collects too, or a legacy
pair of a collected subnet -/
theorem collectC_mem (s : Nat) (n r : Bool) (svcb : SvcbFn) (lines : List Bytes)
    (r1 r2 : List KV × List Subnet)
    (h1 : collect ⟨s, false, n, r⟩ svcb lines ([], []) = some r1)
    (h2 : collect (cfgZ s) (fun _ => none) lines ([], []) = some r2) :
    ∀ kv ∈ r1.1, kv ∈ r2.1 ∨ ∃ sub ∈ r1.2, kv ∈ legacyKVs ⟨s, false, n, r⟩ sub := by
  refine collect_induct2 _ _ _ _
    (fun a1 a2 => ∀ kv ∈ a1.1, kv ∈ a2.1 ∨ ∃ sub ∈ a1.2, kv ∈ legacyKVs ⟨s, false, n, r⟩ sub) ?_
    lines _ _ r1 r2 h1 h2 (by simp)
  intro a1 a2 l lo1 lo2 ha hc1 hc2 kv hkv
  simp only [List.mem_append] at hkv ⊢
  rcases hkv with hkv | hkv
  · rcases ha kv hkv with h | ⟨sub, hs, hk⟩
    · exact Or.inl (Or.inl h)
    · exact Or.inr ⟨sub, Or.inl hs, hk⟩
  · rcases line_rel s n r svcb l lo1 lo2 hc1 hc2 with ⟨sub, _, e1, _, k1, _, _⟩ | ⟨_, _, k1, _⟩
    · rw [k1] at hkv
      exact Or.inr ⟨sub, Or.inr (by rw [e1]; simp), hkv⟩
    · rw [k1] at hkv
      exact Or.inl (Or.inr hkv)

theorem rrKey_length {kv : KV} (h : RRKeyShaped kv) : 3 ≤ kv.1.length := by
  obtain ⟨l, ls, hl, _, hk⟩ := h
  rw [hk, List.length_append, hl, pack_eq_flat, List.length_append, List.length_singleton]
  omega

theorem mapShaped_length {kv : KV} (h : MapShaped kv) : 4 ≤ kv.1.length := by
  obtain ⟨e, o, w, _, hk, _⟩ := h
  rw [hk]; exact mapKey_length e o w

/-- the 21-byte legacy key of a subnet -/
theorem cdbKey_length (mapID ip : Bytes) (m : UInt8) (hm : mapID.length = 2) (hi : ip.length = 16) :
    (Lpm.cdbKey mapID ip m).length = 21 := by
  unfold Lpm.cdbKey
  simp only [List.length_append, List.length_cons, List.length_nil, hm, hi]

/-- legacy pairs of a well-formed subnet: keys of 4 to 8 bytes (the short IPv4 form) or the 21-byte key -/
theorem legacy_mem {cfg : Cfg} {sub : Subnet} (hs : SubnetOK sub) {kv : KV} (h : kv ∈ legacyKVs cfg sub) :
    (4 ≤ kv.1.length ∧ kv.1.length ≤ 8) ∨
      kv = (Lpm.cdbKey sub.lmap sub.ip (UInt8.ofNat sub.ones), putloc sub.lo) := by
  unfold legacyKVs at h
  split at h
  · cases h
  · rw [List.mem_append] at h
    rcases h with h | h
    · split at h
      · rw [List.mem_singleton] at h
        subst h
        left
        simp only [List.length_append, List.length_cons, List.length_nil, List.length_drop, List.length_take,
          hs.2.2.2.1, hs.1]
        omega
      · cases h
    · rw [List.mem_singleton] at h
      exact Or.inr h

theorem collectC_key_length (s : Nat) (n r : Bool) (svcb : SvcbFn) (lines : List Bytes)
    (r1 r2 : List KV × List Subnet)
    (h1 : collect ⟨s, false, n, r⟩ svcb lines ([], []) = some r1)
    (h2 : collect (cfgZ s) (fun _ => none) lines ([], []) = some r2) :
    ∀ kv ∈ r1.1, 3 ≤ kv.1.length := by
  intro kv hkv
  rcases collectC_mem s n r svcb lines r1 r2 h1 h2 kv hkv with h | ⟨sub, hs, hk⟩
  · rcases collectZ_keyShaped s lines r2 h2 kv h with h | h
    · exact rrKey_length h
    · have := mapShaped_length h; omega
  · have hok := (collect_subnetOK _ svcb lines r1 h1 sub hs).1
    rcases legacy_mem hok hk with h | h
    · omega
    · rw [h, cdbKey_length _ _ _ hok.2.2.2.1 hok.1]; omega

theorem first_eq_head (s : Store) (k : Bytes) : first s k = (s.get k).head? := rfl

/-- the location field as the CDB stores it: an explicit two-byte tag -/
def normSub (x : Subnet) : Subnet := { x with lo := some (putloc x.lo) }

theorem declOf_normSub (x : Subnet) : Lpm.declOf (normSub x) = Lpm.declOf x := by
  unfold Lpm.declOf normSub
  cases x.lo <;> rfl

theorem prefixSetKVs_norm (subs : List Subnet) : prefixSetKVs (subs.map normSub) = prefixSetKVs subs := by
  unfold prefixSetKVs
  simp only [List.any_map]
  rfl

/-- `CdbRep` does not see how an absent location is written -/
theorem cdbRep_norm {s : Store} {subs : List Subnet} (h : Lpm.CdbRep s subs) : Lpm.CdbRep s (subs.map normSub) := by
  refine ⟨?_, ?_⟩
  · rw [prefixSetKVs_norm]; exact h.1
  · intro mapID ip m hm hi
    rw [h.2 mapID ip m hm hi, List.find?_map, Option.map_map]
    have h1 : ((fun x : Subnet => decide (x.lmap = mapID ∧ x.ip = ip ∧ UInt8.ofNat x.ones = m)) ∘ normSub) =
        fun x => decide (x.lmap = mapID ∧ x.ip = ip ∧ UInt8.ofNat x.ones = m) := rfl
    have h2 : ((fun x : Subnet => putloc x.lo) ∘ normSub) = fun x => putloc x.lo := by
      funext x
      simp only [Function.comp]
      unfold normSub
      cases x.lo <;> rfl
    rw [h1, h2]

/-- the key condition for the legacy `%` keys: no pair `zoneOf` collects sits under a 21-byte
subnet key — guaranteed when no record carries the location tag `\\000%` -/
theorem kvsZ_no_cdbKey (lines : List Bytes) (hg : LinesOK lines) (kvsZ : List KV) (subs : List Subnet)
    (hcz : collect (cfgZ serial) (fun _ => none) lines ([], []) = some (kvsZ, subs))
    (hno : ∀ rc ∈ (kvsZ.map decodeKV).filterMap (·.1), rc.loc ≠ [0, 0x25])
    (mapID ip : Bytes) (m : UInt8) : ∀ kv ∈ kvsZ, kv.1 ≠ Lpm.cdbKey mapID ip m := by
  intro kv hkv he
  have hnm : ¬ IsMapKey kv.1 := by
    rintro ⟨t, rest, hk, ht, _⟩
    rw [he] at hk
    unfold Lpm.cdbKey at hk
    simp only [List.cons_append, List.nil_append, List.cons.injEq] at hk
    rcases ht with rfl | rfl
    · exact absurd hk.2.1 (by decide)
    · exact absurd hk.2.1 (by decide)
  rcases collect_shaped serial lines ([], []) (kvsZ, subs) hg hcz (by simp) kv hkv with ⟨rc, hrc, hk⟩ | hm
  · have hdec : decodeKV kv = (some rc, none) := by
      obtain ⟨k, v⟩ := kv
      rw [decodeKV_not_map k v hnm]
      have := decodeRR_rrPair rc hrc
      rw [← hk] at this
      exact this
    have hmem : rc ∈ (kvsZ.map decodeKV).filterMap (·.1) := by
      rw [List.mem_filterMap]
      exact ⟨decodeKV kv, List.mem_map.2 ⟨kv, hkv, rfl⟩, by rw [hdec]⟩
    apply hno rc hmem
    have h1 : kv.1 = rc.loc ++ pack rc.owner := by rw [hk]; rfl
    rw [he] at h1
    unfold Lpm.cdbKey at h1
    have hl2 : rc.loc.length = 2 := hrc.1.2.2.1
    rw [List.append_assoc, List.append_assoc] at h1
    exact ((List.append_inj h1 (by rw [hl2]; rfl)).1).symm
  · exact hnm hm

theorem option_map_or {α β : Type} (f : α → β) (a b : Option α) : (a.or b).map f = (a.map f).or (b.map f) := by
  cases a <;> rfl

/-- the first pair under a 21-byte subnet key is that of the first declared subnet with this key -/
theorem legacy_find (r : Bool) (svcb : SvcbFn) (lines : List Bytes)
    (kvsC kvsZ : List KV) (subs : List Subnet)
    (h1 : collect ⟨serial, false, false, r⟩ svcb lines ([], []) = some (kvsC, subs))
    (h2 : collect (cfgZ serial) (fun _ => none) lines ([], []) = some (kvsZ, subs))
    (mapID ip : Bytes) (m : UInt8) (hm : mapID.length = 2) (hi : ip.length = 16)
    (hno : ∀ kv ∈ kvsZ, kv.1 ≠ Lpm.cdbKey mapID ip m) :
    (kvsC.find? fun kv => decide (kv.1 = Lpm.cdbKey mapID ip m)).map (·.2) =
      (subs.find? fun x => decide (x.lmap = mapID ∧ x.ip = ip ∧ UInt8.ofNat x.ones = m)).map
        fun x => putloc x.lo := by
  have key := collect_induct2 ⟨serial, false, false, r⟩ (cfgZ serial) svcb (fun _ => none)
    (fun a1 a2 => (∀ x ∈ a1.2, SubnetOK x) → (∀ kv ∈ a2.1, kv.1 ≠ Lpm.cdbKey mapID ip m) →
      (a1.1.find? fun kv => decide (kv.1 = Lpm.cdbKey mapID ip m)).map (·.2) =
        (a1.2.find? fun x => decide (x.lmap = mapID ∧ x.ip = ip ∧ UInt8.ofNat x.ones = m)).map
          fun x => putloc x.lo) ?_ lines ([], []) ([], []) (kvsC, subs) (kvsZ, subs) h1 h2
    (fun _ _ => rfl)
  · exact key (fun x hx => (collect_subnetOK _ svcb lines _ h1 x hx).1) hno
  · intro a1 a2 l lo1 lo2 ha hc1 hc2 hok hz
    simp only [] at hok hz ⊢
    have ih := ha (fun x hx => hok x (List.mem_append_left _ hx)) (fun kv hkv => hz kv (List.mem_append_left _ hkv))
    rw [List.find?_append, List.find?_append, option_map_or, option_map_or, ih]
    congr 1
    rcases line_rel serial false r svcb l lo1 lo2 hc1 hc2 with ⟨sub, _, e1, _, k1, _, _⟩ | ⟨e1, _, k1, _⟩
    · rw [e1, k1]
      have hsub : SubnetOK sub := hok sub (List.mem_append_right _ (by rw [e1]; simp))
      simp only [Option.toList_some]
      unfold legacyKVs
      simp only [Bool.false_eq_true, if_false]
      rw [List.find?_append]
      have hshort : (if isV4 sub.ip ∧ sub.ones ≥ 96 ∧ sub.ones % 8 = 0 then
          [([0, 0x25] ++ sub.lmap ++ (sub.ip.take (sub.ones / 8)).drop 12, putloc sub.lo)] else []).find?
          (fun kv => decide (kv.1 = Lpm.cdbKey mapID ip m)) = none := by
        rw [List.find?_eq_none]
        intro kv hkv hk
        have hk' : kv.1 = Lpm.cdbKey mapID ip m := by simpa using hk
        have hlen := cdbKey_length mapID ip m hm hi
        rw [← hk'] at hlen
        have : kv ∈ legacyKVs ⟨serial, false, false, r⟩ sub := by
          unfold legacyKVs
          simp only [Bool.false_eq_true, if_false]
          exact List.mem_append_left _ hkv
        rcases legacy_mem hsub this with h | h
        · omega
        · split at hkv
          · rw [List.mem_singleton] at hkv
            rw [hkv] at hlen
            simp only [List.length_append, List.length_cons, List.length_nil, List.length_drop,
              List.length_take, hsub.2.2.2.1, hsub.1] at hlen
            omega
          · cases hkv
      rw [hshort, Option.none_or]
      by_cases hp : sub.lmap = mapID ∧ sub.ip = ip ∧ UInt8.ofNat sub.ones = m
      · have hk : ([0, 0x25] ++ sub.lmap ++ sub.ip ++ [UInt8.ofNat sub.ones]) = Lpm.cdbKey mapID ip m := by
          unfold Lpm.cdbKey; rw [hp.1, hp.2.1, hp.2.2]
        rw [List.find?_cons_of_pos (by simpa using hk), List.find?_cons_of_pos (by simpa using hp)]
        rfl
      · have hk : ([0, 0x25] ++ sub.lmap ++ sub.ip ++ [UInt8.ofNat sub.ones]) ≠ Lpm.cdbKey mapID ip m := by
          intro hk
          unfold Lpm.cdbKey at hk
          have h3 := List.append_inj' hk rfl
          have h4 := List.append_inj h3.1 (by
            simp only [List.length_append, List.length_cons, List.length_nil, hsub.2.2.2.1, hm])
          have h5 := List.append_inj h4.1 rfl
          exact hp ⟨h5.2, h4.2, by simpa using h3.2⟩
        rw [List.find?_cons_of_neg (by simpa using hk), List.find?_cons_of_neg (by simpa using hp)]
        rfl
    · rw [e1, k1]
      simp only [Option.toList_none, List.find?_nil, Option.map_none]
      have : lo2.kvs.find? (fun kv => decide (kv.1 = Lpm.cdbKey mapID ip m)) = none := by
        rw [List.find?_eq_none]
        intro kv hkv hk
        exact hz kv (List.mem_append_right _ hkv) (by simpa using hk)
      rw [this]
      rfl

/-- no record carries the location tag `\\000%` (the key space of the legacy subnet records) -/
def NoPctTag (z : Zone) : Prop := ∀ rc ∈ z.recs, rc.loc ≠ [0, 0x25]

instance (z : Zone) : Decidable (NoPctTag z) := by unfold NoPctTag; infer_instance

/-- W1, weak form: two declared subnets with the same (map, network, length) carry the same location
(identical repetitions are allowed) -/
def SubnetsW1 (S : List SubnetDecl) : Prop :=
  ∀ s ∈ S, ∀ t ∈ S, s.mapID = t.mapID → s.net = t.net → s.ones = t.ones → s.loc = t.loc

instance (S : List SubnetDecl) : Decidable (SubnetsW1 S) := by unfold SubnetsW1; infer_instance

theorem store_get_acc (kvs acc : List KV) (feat : KV) (k : Bytes)
    (hk : ∀ kv ∈ kvs, kv.1 ≠ k) (hfeat : feat.1 ≠ k) :
    (Store.ofKVs (kvs ++ acc ++ [feat])).get k = (acc.filter fun kv => decide (kv.1 = k)).map (·.2) := by
  unfold Store.ofKVs
  rw [ServeRefine.get_foldl_insert]
  show [] ++ _ = _
  rw [List.nil_append, List.filter_append, List.filter_append]
  have h1 : kvs.filter (fun kv => decide (kv.1 = k)) = [] := by
    rw [List.filter_eq_nil_iff]
    intro kv hkv
    simpa using hk kv hkv
  have h2 : [feat].filter (fun kv => decide (kv.1 = k)) = [] := by
    rw [List.filter_eq_nil_iff]
    intro kv hkv
    rw [List.mem_singleton] at hkv
    subst hkv
    simpa using hfeat
  rw [h1, h2, List.append_nil, List.nil_append]

/-- **CDB.** The store `compile (.cdb sep)` builds holds the prefix-length sets and, under the 21-byte
legacy `%` keys, exactly the declared subnets: `CdbRep` for a subnet list `subs` whose declarations
are `z.subnets`, and which satisfies `SubnetsWF` (parser guarantees + W1).
Forced: no record under the location tag `\\000%` (such a record's key can collide with a subnet key;
`LinesOK` is needed to read the records off the file); W1 in its weak form is what `SubnetsWF` asks. -/
theorem compile_cdbRep (sep : Bool) (svcb : SvcbFn) (lines : List Bytes) (store : Store) (z : Zone)
    (hc : compile (.cdb sep) svcb lines = some store) (hz : zoneOf lines = some z)
    (hg : LinesOK lines) (hno : NoPctTag z) (hw1 : SubnetsW1 z.subnets) :
    ∃ subs, z.subnets = subs.map Lpm.declOf ∧ Lpm.SubnetsWF subs ∧ Lpm.CdbRep store subs := by
  obtain ⟨n, r, kvsC, kvsZ, subs, acc, hcfg, hcc, hcz, hacc, hstore, hrecs, _, hsubs⟩ :=
    compile_open (.cdb sep) (Or.inl ⟨sep, rfl⟩) svcb lines store z hc hz
  have hn : n = false := by
    have : cfgFor (.cdb sep) = ⟨serial, false, false, false⟩ := rfl
    rw [this] at hcfg
    simp only [Cfg.mk.injEq] at hcfg
    exact hcfg.2.2.1.symm
  subst hn
  simp only [accOf, Option.some.injEq] at hacc
  subst hacc
  have hok : ∀ x ∈ subs, SubnetOK x := fun x hx => (collect_subnetOK _ svcb lines _ hcc x hx).1
  have hfeat : (featuresKV (cfgFor (.cdb sep))).1.length = 11 := by rw [featuresKey_eq]; rfl
  refine ⟨subs.map normSub, ?_, ?_, cdbRep_norm ⟨?_, ?_⟩⟩
  · rw [hsubs, List.map_map]
    apply List.map_congr_left
    intro x _
    exact (declOf_normSub x).symm
  · constructor
    · intro x hx
      obtain ⟨y, hy, rfl⟩ := List.mem_map.1 hx
      exact (hok y hy).1
    · intro x hx
      obtain ⟨y, hy, rfl⟩ := List.mem_map.1 hx
      exact (hok y hy).2.1
    · intro x hx
      obtain ⟨y, hy, rfl⟩ := List.mem_map.1 hx
      exact (hok y hy).2.2.1
    · intro x hx y hy h1 h2 h3
      obtain ⟨x', hx', rfl⟩ := List.mem_map.1 hx
      obtain ⟨y', hy', rfl⟩ := List.mem_map.1 hy
      have hl := hw1 (Lpm.declOf x') (by rw [hsubs]; exact List.mem_map.2 ⟨x', hx', rfl⟩)
        (Lpm.declOf y') (by rw [hsubs]; exact List.mem_map.2 ⟨y', hy', rfl⟩) h1
        (by show ipToNat x'.ip = ipToNat y'.ip; exact congrArg ipToNat h2) h3
      have hl' : putloc x'.lo = putloc y'.lo := hl
      unfold normSub at h1 h2 h3 ⊢
      simp only [] at h1 h2 h3
      obtain ⟨lo1, ip1, ones1, lmap1⟩ := x'
      obtain ⟨lo2, ip2, ones2, lmap2⟩ := y'
      simp only [] at h1 h2 h3 hl'
      subst h1 h2 h3
      rw [hl']
  · -- the prefix-length sets
    intro kv hkv
    have h2 := prefixSet_keys subs kv hkv
    rw [first_eq_head, hstore, store_get_acc kvsC _ _ _ ?_ ?_]
    · unfold prefixSetKVs at hkv ⊢
      simp only [List.mem_cons, List.not_mem_nil, or_false] at hkv
      rcases hkv with rfl | rfl | rfl <;> simp
    · intro kv' hkv' he
      have := collectC_key_length serial false r svcb lines _ _ hcc hcz kv' hkv'
      rw [he] at this
      omega
    · intro he
      rw [he] at hfeat
      omega
  · -- the legacy keys
    intro mapID ip m hm hi
    have hlen := cdbKey_length mapID ip m hm hi
    rw [first_eq_head, hstore, store_get_kvs kvsC _ _ _ ?_ ?_, List.head?_map, List.head?_filter]
    · refine legacy_find r svcb lines kvsC kvsZ subs hcc hcz mapID ip m hm hi ?_
      exact kvsZ_no_cdbKey lines hg kvsZ subs hcz (by rw [← hrecs]; exact hno) mapID ip m
    · intro kv hkv he
      have := prefixSet_keys subs kv hkv
      rw [he] at this
      omega
    · intro he
      rw [he] at hfeat
      omega

/-! ### E. RocksDB: the range points of every map -/

/-- the range-point table `Rearrange()` produces for the subnets of one map -/
def tableOf (subs : List Subnet) (m : Bytes) : Option (List Point) :=
  rearrange (Lpm.addAll ((subs.filter (·.lmap = m)).map Lpm.declOf))

theorem tableOf_eq (subs : List Subnet) (m : Bytes) :
    rearrange ((subs.filter (·.lmap = m)).foldl
      (fun r s => addLocation r (ipToNat s.ip) s.ones (s.lo.getD [0, 0])) ({} : Rearranger)) = tableOf subs m := by
  unfold tableOf Lpm.addAll
  rw [List.foldl_map]
  rfl

/-- `SubnetRanger.MarshalMap` succeeds iff every map's `Rearrange()` does, and writes the tables one
map after the other -/
theorem rangePointKVs_flat (subs : List Subnet) (acc : List KV) (h : rangePointKVs subs = some acc) :
    (∀ m ∈ mapIds subs, ∃ P, tableOf subs m = some P) ∧
    acc = (mapIds subs).flatMap fun m => ((tableOf subs m).getD []).map (pointKV m) := by
  unfold rangePointKVs at h
  simp only [tableOf_eq] at h
  generalize mapIds subs = L at h
  have key : ∀ (L : List Bytes) (a res : List KV),
      L.foldlM (fun acc m =>
        match tableOf subs m with
        | none => none
        | some pts => some (acc ++ pts.map (pointKV m))) a = some res →
      (∀ m ∈ L, ∃ P, tableOf subs m = some P) ∧
      res = a ++ L.flatMap fun m => ((tableOf subs m).getD []).map (pointKV m) := by
    intro L
    induction L with
    | nil =>
      intro a res h
      have hres : res = a := by
        have h' : some a = some res := h
        exact (Option.some.inj h').symm
      subst hres
      exact ⟨fun m hm => (by cases hm), (by simp)⟩
    | cons m L ih =>
      intro a res h
      rw [List.foldlM_cons] at h
      cases hr : tableOf subs m with
      | none => rw [hr] at h; cases h
      | some pts =>
        rw [hr] at h
        obtain ⟨h1, h2⟩ := ih _ res h
        refine ⟨?_, ?_⟩
        · intro m' hm'
          rcases List.mem_cons.1 hm' with rfl | hm'
          · exact ⟨pts, hr⟩
          · exact h1 m' hm'
        · rw [h2, List.flatMap_cons, hr, List.append_assoc]
          rfl
  obtain ⟨h1, h2⟩ := key L [] acc h
  exact ⟨h1, by rw [h2, List.nil_append]⟩

theorem mapIds_foldl_spec : ∀ (subs : List Subnet) (acc : List Bytes), acc.Pairwise (· ≠ ·) →
    (subs.foldl (fun acc s => if acc.contains s.lmap then acc else acc ++ [s.lmap]) acc).Pairwise (· ≠ ·) ∧
    ∀ m, m ∈ subs.foldl (fun acc s => if acc.contains s.lmap then acc else acc ++ [s.lmap]) acc ↔
      m ∈ acc ∨ ∃ s ∈ subs, s.lmap = m
  | [], acc, h => ⟨h, fun m => by simp⟩
  | x :: subs, acc, h => by
    rw [List.foldl_cons]
    by_cases hc : acc.contains x.lmap = true
    · rw [if_pos hc]
      obtain ⟨h1, h2⟩ := mapIds_foldl_spec subs acc h
      refine ⟨h1, fun m => ?_⟩
      rw [h2 m]
      constructor
      · rintro (h | ⟨s, hs, rfl⟩)
        · exact Or.inl h
        · exact Or.inr ⟨s, List.mem_cons_of_mem _ hs, rfl⟩
      · rintro (h | ⟨s, hs, rfl⟩)
        · exact Or.inl h
        · rcases List.mem_cons.1 hs with rfl | hs
          · exact Or.inl (by simpa using hc)
          · exact Or.inr ⟨s, hs, rfl⟩
    · rw [if_neg hc]
      have hnot : x.lmap ∉ acc := by simpa using hc
      have hpw : (acc ++ [x.lmap]).Pairwise (· ≠ ·) := by
        rw [List.pairwise_append]
        refine ⟨h, List.pairwise_singleton _ _, ?_⟩
        intro a ha b hb
        rw [List.mem_singleton] at hb
        subst hb
        intro he
        exact hnot (he ▸ ha)
      obtain ⟨h1, h2⟩ := mapIds_foldl_spec subs (acc ++ [x.lmap]) hpw
      refine ⟨h1, fun m => ?_⟩
      rw [h2 m, List.mem_append, List.mem_singleton]
      constructor
      · rintro ((h | rfl) | ⟨s, hs, rfl⟩)
        · exact Or.inl h
        · exact Or.inr ⟨x, List.mem_cons_self, rfl⟩
        · exact Or.inr ⟨s, List.mem_cons_of_mem _ hs, rfl⟩
      · rintro (h | ⟨s, hs, rfl⟩)
        · exact Or.inl (Or.inl h)
        · rcases List.mem_cons.1 hs with rfl | hs
          · exact Or.inl (Or.inr rfl)
          · exact Or.inr ⟨s, hs, rfl⟩

theorem mapIds_pairwise (subs : List Subnet) : (mapIds subs).Pairwise (· ≠ ·) :=
  (mapIds_foldl_spec subs [] List.Pairwise.nil).1

theorem mem_mapIds (subs : List Subnet) (m : Bytes) : m ∈ mapIds subs ↔ ∃ s ∈ subs, s.lmap = m := by
  have := (mapIds_foldl_spec subs [] List.Pairwise.nil).2 m
  unfold mapIds
  rw [this]
  simp

/-! store lemmas -/

theorem insert_keys (s : Store) (k v : Bytes) :
    ∀ e ∈ s.insert k v, e.1 = k ∨ ∃ e' ∈ s, e'.1 = e.1 := by
  intro e he
  unfold Store.insert at he
  split at he
  · obtain ⟨e', he', rfl⟩ := List.mem_map.1 he
    right
    refine ⟨e', he', ?_⟩
    obtain ⟨k', vs⟩ := e'
    simp only []
    split <;> rfl
  · rcases List.mem_append.1 he with he | he
    · exact Or.inr ⟨e, he, rfl⟩
    · rw [List.mem_singleton] at he
      subst he
      exact Or.inl rfl

theorem insert_nodup (s : Store) (k v : Bytes) (h : s.Pairwise fun e e' => e.1 ≠ e'.1) :
    (s.insert k v).Pairwise fun e e' => e.1 ≠ e'.1 := by
  unfold Store.insert
  split
  · rw [List.pairwise_map]
    refine h.imp ?_
    intro a b hab
    obtain ⟨ka, va⟩ := a
    obtain ⟨kb, vb⟩ := b
    simp only [] at hab ⊢
    have h1 : (if ka = k then (ka, va ++ [v]) else (ka, va)).1 = ka := by split <;> rfl
    have h2 : (if kb = k then (kb, vb ++ [v]) else (kb, vb)).1 = kb := by split <;> rfl
    rw [h1, h2]
    exact hab
  · rename_i hany
    rw [List.pairwise_append]
    refine ⟨h, List.pairwise_singleton _ _, ?_⟩
    intro a ha b hb
    rw [List.mem_singleton] at hb
    subst hb
    intro he
    apply hany
    rw [List.any_eq_true]
    exact ⟨a, ha, by simpa using he⟩

theorem foldl_insert_nodup (kvs : List KV) : ∀ (s : Store), (s.Pairwise fun e e' => e.1 ≠ e'.1) →
    (kvs.foldl (fun s kv => s.insert kv.1 kv.2) s).Pairwise fun e e' => e.1 ≠ e'.1 := by
  induction kvs with
  | nil => intro s h; exact h
  | cons kv kvs ih => intro s h; exact ih _ (insert_nodup s kv.1 kv.2 h)

theorem foldl_insert_keys (kvs : List KV) : ∀ (s : Store),
    ∀ e ∈ kvs.foldl (fun s kv => s.insert kv.1 kv.2) s, (∃ kv ∈ kvs, kv.1 = e.1) ∨ ∃ e' ∈ s, e'.1 = e.1 := by
  induction kvs with
  | nil => intro s e he; exact Or.inr ⟨e, he, rfl⟩
  | cons kv kvs ih =>
    intro s e he
    rw [List.foldl_cons] at he
    rcases ih _ e he with ⟨kv', hkv', hk⟩ | ⟨e', he', hk⟩
    · exact Or.inl ⟨kv', List.mem_cons_of_mem _ hkv', hk⟩
    · rcases insert_keys s kv.1 kv.2 e' he' with h | ⟨e'', he'', hk'⟩
      · exact Or.inl ⟨kv, List.mem_cons_self, by rw [← hk, h]⟩
      · exact Or.inr ⟨e'', he'', by rw [hk', hk]⟩

theorem ofKVs_nodup (kvs : List KV) : (Store.ofKVs kvs).Pairwise fun e e' => e.1 ≠ e'.1 :=
  foldl_insert_nodup kvs [] List.Pairwise.nil

theorem ofKVs_keys (kvs : List KV) : ∀ e ∈ Store.ofKVs kvs, ∃ kv ∈ kvs, kv.1 = e.1 := by
  intro e he
  rcases foldl_insert_keys kvs [] e he with h | ⟨e', he', _⟩
  · exact h
  · cases he'

/-- an entry of a store with distinct keys is the value list of its key -/
theorem mem_get {s : Store} (h : s.Pairwise fun e e' => e.1 ≠ e'.1) {e : Bytes × List Bytes} (he : e ∈ s) :
    s.get e.1 = e.2 := by
  induction s with
  | nil => cases he
  | cons x s ih =>
    obtain ⟨hx, hs⟩ := List.pairwise_cons.1 h
    unfold Store.get
    rw [List.find?_cons]
    rcases List.mem_cons.1 he with rfl | he'
    · simp
    · have hne : x.1 ≠ e.1 := hx e he'
      have : decide (x.1 = e.1) = false := by simpa using hne
      rw [this]
      exact ih hs he'

/-- a non-empty value list is an entry -/
theorem get_mem {s : Store} {k : Bytes} {v : Bytes} {vs : List Bytes} (h : s.get k = v :: vs) :
    (k, v :: vs) ∈ s := by
  unfold Store.get at h
  split at h
  · rename_i k' vs' hf
    have hk : k' = k := by simpa using List.find?_some hf
    have := List.mem_of_find?_eq_some hf
    rw [hk, h] at this
    exact this
  · cases h

/-- W1 (strict: no two declared subnets with the same (map, network, length)), for all maps at once:
all the range-point table needs. (Until commit 828f037 also W2, until commits 277e200 / d84245a also W3,
see `SubnetsRdbWFOld`, `SubnetsRdbWFW3`.) -/
def SubnetsRdbWF (S : List SubnetDecl) : Prop :=
  S.Pairwise (fun s t => ¬ (s.mapID = t.mapID ∧ s.net = t.net ∧ s.ones = t.ones))

/-- the former condition: W1 (strict) and W3 (no block other than `::/0` and `0.0.0.0/0` itself contains
`::ffff:0:0/96`: no `::/n` with 0 < n ≤ 80, no `::8000:0:0/81` … `::fffe:0:0/95`) -/
def SubnetsRdbWFW3 (S : List SubnetDecl) : Prop :=
  S.Pairwise (fun s t => ¬ (s.mapID = t.mapID ∧ s.net = t.net ∧ s.ones = t.ones)) ∧
  ∀ s ∈ S, ¬ (s.net = 0 ∧ s.ones = 0) → ¬ (s.net = firstIPv4 ∧ s.ones = 96) →
    ¬ (s.net ≤ firstIPv4 ∧ afterIPv4 ≤ s.net + 2 ^ (128 - s.ones))

instance (S : List SubnetDecl) : Decidable (SubnetsRdbWFW3 S) := by
  unfold SubnetsRdbWFW3; infer_instance

theorem SubnetsRdbWFW3.toWF {S : List SubnetDecl} (h : SubnetsRdbWFW3 S) : SubnetsRdbWF S := h.1

/-- the oldest, strongest condition: W1 (strict), W2 (network `::` only as `::/0`, network
`::ffff:0:0` only as `0.0.0.0/0`) and W3 -/
def SubnetsRdbWFOld (S : List SubnetDecl) : Prop :=
  S.Pairwise (fun s t => ¬ (s.mapID = t.mapID ∧ s.net = t.net ∧ s.ones = t.ones)) ∧
  ∀ s ∈ S, (s.net = 0 → s.ones = 0) ∧ (s.net = firstIPv4 → s.ones = 96) ∧
    (s.net ≠ 0 → s.net ≠ firstIPv4 → ¬ (s.net ≤ firstIPv4 ∧ afterIPv4 ≤ s.net + 2 ^ (128 - s.ones)))

instance (S : List SubnetDecl) : Decidable (SubnetsRdbWFOld S) := by
  unfold SubnetsRdbWFOld; infer_instance

theorem SubnetsRdbWFOld.toW3 {S : List SubnetDecl} (h : SubnetsRdbWFOld S) : SubnetsRdbWFW3 S :=
  ⟨h.1, fun s hs h0 h4 => (h.2 s hs).2.2 (fun e => h0 ⟨e, (h.2 s hs).1 e⟩)
    (fun e => h4 ⟨e, (h.2 s hs).2.1 e⟩)⟩

theorem SubnetsRdbWFOld.toWF {S : List SubnetDecl} (h : SubnetsRdbWFOld S) : SubnetsRdbWF S := h.1

instance (S : List SubnetDecl) : Decidable (SubnetsRdbWF S) := by unfold SubnetsRdbWF; infer_instance

theorem marker_eq : Generated.dnsdata_RangePointKeyMarker = [0, 0, 0, 33] := by decide

theorem pointKV_key_form (m : Bytes) (p : Point) :
    ∃ b, (pointKV m p).1 = [0, 0, 0, 33] ++ m ++ natToIP p.ip ++ [b] := by
  unfold pointKV
  rw [marker_eq]
  cases p.loc with
  | none => exact ⟨_, rfl⟩
  | some l => exact ⟨_, rfl⟩

theorem pointKV_take6 (m : Bytes) (hm : m.length = 2) (p : Point) :
    (pointKV m p).1.take 6 = [0, 0, 0, 33] ++ m := by
  obtain ⟨b, hb⟩ := pointKV_key_form m p
  rw [hb, List.append_assoc, List.append_assoc]
  rw [← List.append_assoc [0, 0, 0, 33] m, List.take_left' (by simp [hm])]

theorem tableKVs_pairwise (m : Bytes) {P : List Point} (hwf : Lpm.TableWF P) :
    (P.map (pointKV m)).Pairwise (fun u v => u.1 ≠ v.1) := by
  rw [List.pairwise_map]
  have hall : P.Pairwise fun u v => u ∈ P ∧ v ∈ P ∧ Lpm.pkey u ≠ Lpm.pkey v :=
    List.Pairwise.and_mem.1 hwf.keys_distinct
  exact hall.imp fun {u v} h =>
    Lpm.pointKV_fst_ne m (hwf.ip_lt u h.1) (hwf.ip_lt v h.2.1) (hwf.ml_lt u h.1) (hwf.ml_lt v h.2.1) h.2.2

/-- the declared subnets of one map satisfy W0, W1 -/
theorem subsWF_filter (subs : List Subnet) (hok : ∀ x ∈ subs, SubnetOK x)
    (hwf : SubnetsRdbWF (subs.map Lpm.declOf)) (m : Bytes) :
    Lpm.SubsWF ((subs.filter (·.lmap = m)).map Lpm.declOf) := by
  have hmem : ∀ s ∈ (subs.filter (·.lmap = m)).map Lpm.declOf, ∃ x ∈ subs, x.lmap = m ∧ s = Lpm.declOf x := by
    intro s hs
    obtain ⟨x, hx, rfl⟩ := List.mem_map.1 hs
    rw [List.mem_filter] at hx
    exact ⟨x, hx.1, by simpa using hx.2, rfl⟩
  constructor
  · intro s hs
    obtain ⟨x, hx, _, rfl⟩ := hmem s hs
    exact (hok x hx).2.1
  · intro s hs
    obtain ⟨x, hx, _, rfl⟩ := hmem s hs
    exact Lpm.ipToNat_lt_2_128 (hok x hx).1
  · intro s hs
    obtain ⟨x, hx, _, rfl⟩ := hmem s hs
    exact Lpm.aligned_of_masked (hok x hx).1 (hok x hx).2.1 (hok x hx).2.2.1
  · rw [List.pairwise_map]
    have h1 : (subs.map Lpm.declOf).Pairwise _ := hwf
    rw [List.pairwise_map] at h1
    refine (h1.filter _).imp_of_mem ?_
    intro a b ha hb hab hc
    rw [List.mem_filter] at ha hb
    have ea : a.lmap = m := by simpa using ha.2
    have eb : b.lmap = m := by simpa using hb.2
    exact hab ⟨ea.trans eb.symm, hc.1, hc.2⟩
  · intro s hs
    obtain ⟨x, hx, _, rfl⟩ := hmem s hs
    show (x.lo.getD [0, 0]).length = 2
    have := (hok x hx).2.2.2.2
    cases hl : x.lo with
    | none => rfl
    | some l => exact this l hl

/-- a resource-record key or map key does not start with the range-point marker and a map id -/
theorem shaped_take6 {kv : KV} (h : RRKeyShaped kv ∨ MapShaped kv) (m : Bytes) :
    kv.1.take 6 ≠ [0, 0, 0, 33] ++ m := by
  intro he
  rcases h with ⟨l, ls, hl, hls, hk⟩ | ⟨e, o, w, _, hk, _⟩
  · rw [hk] at he
    match l, hl with
    | [a, b], _ =>
      cases ls with
      | nil =>
        have := congrArg List.length he
        simp [pack_eq_flat] at this
      | cons lab rest =>
        rw [Lpm.pack_cons] at he
        simp only [List.cons_append, List.nil_append, List.take_succ_cons, List.cons.injEq] at he
        obtain ⟨_, _, h3, _⟩ := he
        have hlab := hls lab (by simp)
        have hn : (UInt8.ofNat lab.length).toNat = lab.length := Lpm.toNat_ofNat_lt hlab.2
        rw [h3] at hn
        exact hlab.1 (List.length_eq_zero_iff.mp hn.symm)
  · rw [hk] at he
    unfold Lpm.mapKeyOf Lpm.mtypeOf at he
    simp only [List.cons_append, List.nil_append, List.take_succ_cons, List.cons.injEq] at he
    cases e <;> simp at he

/-- the features key is neither a resource-record key nor a map key -/
theorem features_not_shaped (cfg : Cfg) {kv : KV} (h : RRKeyShaped kv ∨ MapShaped kv) :
    kv.1 ≠ (featuresKV cfg).1 := by
  rw [featuresKey_eq]
  intro he
  rcases h with ⟨l, ls, hl, hls, hk⟩ | ⟨e, o, w, _, hk, _⟩
  · rw [hk] at he
    match l, hl with
    | [a, b], _ =>
      cases ls with
      | nil => simp [pack_eq_flat] at he
      | cons lab rest =>
        have hlen := congrArg List.length he
        rw [Lpm.pack_cons] at he
        simp only [List.cons_append, List.nil_append, List.cons.injEq] at he
        obtain ⟨_, _, h3, _⟩ := he
        have hlab := hls lab (by simp)
        have hn : (UInt8.ofNat lab.length).toNat = lab.length := Lpm.toNat_ofNat_lt hlab.2
        rw [h3] at hn
        rw [Lpm.pack_cons] at hlen
        simp only [List.length_append, List.length_cons, List.length_nil] at hlen
        have h95 : (95 : UInt8).toNat = 95 := rfl
        omega
  · rw [hk] at he
    unfold Lpm.mapKeyOf Lpm.mtypeOf at he
    simp only [List.cons_append, List.nil_append, List.cons.injEq] at he
    cases e <;> simp at he

theorem ofKVs_append (a b : List KV) :
    Store.ofKVs (a ++ b) = b.foldl (fun s kv => s.insert kv.1 kv.2) (Store.ofKVs a) := by
  unfold Store.ofKVs
  rw [List.foldl_append]

/-- the RocksDB accumulator output: membership and distinct keys -/
theorem acc_rdb (subs : List Subnet) (hok : ∀ x ∈ subs, SubnetOK x)
    (hwf : SubnetsRdbWF (subs.map Lpm.declOf)) (acc : List KV) (h : rangePointKVs subs = some acc) :
    (∀ m ∈ mapIds subs, m.length = 2 ∧ ∃ P, tableOf subs m = some P ∧ Lpm.TableWF P ∧
      ∀ p ∈ P, pointKV m p ∈ acc) ∧
    (∀ kv ∈ acc, ∃ m ∈ mapIds subs, ∃ P, tableOf subs m = some P ∧ ∃ p ∈ P, kv = pointKV m p) ∧
    acc.Pairwise (fun u v => u.1 ≠ v.1) := by
  obtain ⟨h1, h2⟩ := rangePointKVs_flat subs acc h
  have hlen : ∀ m ∈ mapIds subs, m.length = 2 := by
    intro m hm
    obtain ⟨x, hx, rfl⟩ := (mem_mapIds subs m).1 hm
    exact (hok x hx).2.2.2.1
  have htab : ∀ m ∈ mapIds subs, ∃ P, tableOf subs m = some P ∧ Lpm.TableWF P := by
    intro m hm
    obtain ⟨x, hx, hxm⟩ := (mem_mapIds subs m).1 hm
    have hne : (subs.filter (·.lmap = m)).map Lpm.declOf ≠ [] := by
      intro hnil
      have : Lpm.declOf x ∈ (subs.filter (·.lmap = m)).map Lpm.declOf :=
        List.mem_map.2 ⟨x, List.mem_filter.2 ⟨hx, by simpa using hxm⟩, rfl⟩
      rw [hnil] at this
      cases this
    obtain ⟨P, hP, hT, _⟩ := Lpm.rearrange_table (subsWF_filter subs hok hwf m) hne (m := m) (by
      intro s hs
      obtain ⟨y, hy, rfl⟩ := List.mem_map.1 hs
      rw [List.mem_filter] at hy
      have : y.lmap = m := by simpa using hy.2
      exact this)
    exact ⟨P, hP, hT⟩
  have hmemacc : ∀ kv, kv ∈ acc ↔ ∃ m ∈ mapIds subs, kv ∈ ((tableOf subs m).getD []).map (pointKV m) := by
    intro kv
    rw [h2, List.mem_flatMap]
  refine ⟨?_, ?_, ?_⟩
  · intro m hm
    obtain ⟨P, hP, hT⟩ := htab m hm
    refine ⟨hlen m hm, P, hP, hT, fun p hp => ?_⟩
    rw [hmemacc]
    exact ⟨m, hm, by rw [hP]; exact List.mem_map.2 ⟨p, hp, rfl⟩⟩
  · intro kv hkv
    obtain ⟨m, hm, hk⟩ := (hmemacc kv).1 hkv
    obtain ⟨P, hP, _⟩ := htab m hm
    rw [hP] at hk
    obtain ⟨p, hp, rfl⟩ := List.mem_map.1 hk
    exact ⟨m, hm, P, hP, p, hp, rfl⟩
  · rw [h2, List.pairwise_flatMap]
    refine ⟨?_, ?_⟩
    · intro m hm
      obtain ⟨P, hP, hT⟩ := htab m hm
      rw [hP]
      exact tableKVs_pairwise m hT
    · have hpw := List.Pairwise.and_mem.1 (mapIds_pairwise subs)
      refine hpw.imp ?_
      intro m1 m2 h12 u hu v hv he
      obtain ⟨p, _, rfl⟩ := List.mem_map.1 hu
      obtain ⟨q, _, rfl⟩ := List.mem_map.1 hv
      have t1 := pointKV_take6 m1 (hlen m1 h12.1) p
      have t2 := pointKV_take6 m2 (hlen m2 h12.2.1) q
      rw [he, t2] at t1
      exact h12.2.2 (List.append_cancel_left t1).symm

/-- the compiled RocksDB-v1 store, decomposed: the entries of the per-line pairs, then one
single-valued entry per accumulator pair and the features entry -/
theorem store_rdb_decomp (kvsC acc : List KV) (feat : KV)
    (hpw : (acc ++ [feat]).Pairwise (fun u v => u.1 ≠ v.1))
    (hfresh : ∀ kv ∈ acc ++ [feat], ∀ kv' ∈ kvsC, kv'.1 ≠ kv.1) :
    Store.ofKVs (kvsC ++ acc ++ [feat]) =
      Store.ofKVs kvsC ++ (acc ++ [feat]).map fun kv => (kv.1, [kv.2]) := by
  rw [List.append_assoc, ofKVs_append, Lpm.ofKVs_fresh _ _ hpw]
  intro kv hkv e he
  obtain ⟨kv', hkv', hk⟩ := ofKVs_keys kvsC e he
  rw [← hk]
  exact hfresh kv hkv kv' hkv'

/-- `compile .rdbV1` and `zoneOf` of one file, opened up and decomposed -/
theorem compile_rdb_open (svcb : SvcbFn) (lines : List Bytes) (store : Store) (z : Zone)
    (hc : compile .rdbV1 svcb lines = some store) (hz : zoneOf lines = some z)
    (hwf : SubnetsRdbWF z.subnets) :
    ∃ (kvsC : List KV) (subs : List Subnet) (acc : List KV),
      z.subnets = subs.map Lpm.declOf ∧ (∀ x ∈ subs, SubnetOK x) ∧ rangePointKVs subs = some acc ∧
      (∀ kv ∈ kvsC, RRKeyShaped kv ∨ MapShaped kv) ∧
      (store.Pairwise fun e e' => e.1 ≠ e'.1) ∧
      store = Store.ofKVs kvsC ++ (acc ++ [featuresKV (cfgFor .rdbV1)]).map fun kv => (kv.1, [kv.2]) := by
  obtain ⟨n, r, kvsC, kvsZ, subs, acc, hcfg, hcc, hcz, hacc, hstore, _, _, hsubs⟩ :=
    compile_open .rdbV1 (Or.inr rfl) svcb lines store z hc hz
  have hn : n = true := by
    have : cfgFor .rdbV1 = ⟨serial, false, true, true⟩ := rfl
    rw [this] at hcfg
    simp only [Cfg.mk.injEq] at hcfg
    exact hcfg.2.2.1.symm
  subst hn
  have hok : ∀ x ∈ subs, SubnetOK x := fun x hx => (collect_subnetOK _ svcb lines _ hcc x hx).1
  have hshape : ∀ kv ∈ kvsC, RRKeyShaped kv ∨ MapShaped kv := by
    intro kv hkv
    rcases collectC_mem serial true r svcb lines _ _ hcc hcz kv hkv with h | ⟨sub, _, hk⟩
    · exact collectZ_keyShaped serial lines _ hcz kv h
    · unfold legacyKVs at hk
      simp only [if_true] at hk
      cases hk
  have hacc' : rangePointKVs subs = some acc := hacc
  rw [hsubs] at hwf
  obtain ⟨_, hmem, hpw⟩ := acc_rdb subs hok hwf acc hacc'
  have hkeyacc : ∀ kv ∈ acc, ∃ rest, kv.1 = 0 :: 0 :: 0 :: 33 :: rest := rangePoint_keys subs acc hacc'
  refine ⟨kvsC, subs, acc, hsubs, hok, hacc', hshape, by rw [hstore]; exact ofKVs_nodup _, ?_⟩
  rw [hstore]
  apply store_rdb_decomp
  · rw [List.pairwise_append]
    refine ⟨hpw, List.pairwise_singleton _ _, ?_⟩
    intro a ha b hb
    rw [List.mem_singleton] at hb
    subst hb
    obtain ⟨rest, hrest⟩ := hkeyacc a ha
    rw [hrest, featuresKey_eq]
    simp
  · intro kv hkv kv' hkv'
    rcases List.mem_append.1 hkv with hkv | hkv
    · obtain ⟨rest, hrest⟩ := hkeyacc kv hkv
      intro he
      have h6 := shaped_take6 (hshape kv' hkv')
      obtain ⟨m, hm, P, hP, p, hp, rfl⟩ := hmem kv hkv
      have hlen : m.length = 2 := by
        obtain ⟨x, hx, rfl⟩ := (mem_mapIds subs m).1 hm
        exact (hok x hx).2.2.2.1
      exact h6 m (by rw [he]; exact pointKV_take6 m hlen p)
    · rw [List.mem_singleton] at hkv
      subst hkv
      exact features_not_shaped _ (hshape kv' hkv')

/-- the entries of the compiled RocksDB-v1 store under the range-point marker and a map id are exactly
the range points of that map's table -/
theorem store_rdb_prefix (svcb : SvcbFn) (lines : List Bytes) (store : Store) (z : Zone)
    (hc : compile .rdbV1 svcb lines = some store) (hz : zoneOf lines = some z)
    (hwf : SubnetsRdbWF z.subnets) :
    ∃ subs : List Subnet, z.subnets = subs.map Lpm.declOf ∧ (∀ x ∈ subs, SubnetOK x) ∧
      SubnetsRdbWF (subs.map Lpm.declOf) ∧
      (∀ m ∈ mapIds subs, ∃ P, tableOf subs m = some P ∧ Lpm.TableWF P ∧ Lpm.RdbRep store m P) ∧
      (∀ m, m.length = 2 → m ∉ mapIds subs → ∀ e ∈ store, e.1.take 6 ≠ [0, 0, 0, 33] ++ m) := by
  obtain ⟨kvsC, subs, acc, hsubs, hok, hacc, hshape, hnodup, hstore⟩ := compile_rdb_open svcb lines store z hc hz hwf
  have hwf' : SubnetsRdbWF (subs.map Lpm.declOf) := by rw [← hsubs]; exact hwf
  obtain ⟨htab, hmem, _⟩ := acc_rdb subs hok hwf' acc hacc
  -- entries under a range-point prefix
  have hpre : ∀ e ∈ store, ∀ m, m.length = 2 → e.1.take 6 = [0, 0, 0, 33] ++ m →
      m ∈ mapIds subs ∧ ∃ P, tableOf subs m = some P ∧ ∃ p ∈ P, e = ((pointKV m p).1, [(pointKV m p).2]) := by
    intro e he m hm h6
    rw [hstore] at he
    rcases List.mem_append.1 he with he | he
    · obtain ⟨kv, hkv, hk⟩ := ofKVs_keys kvsC e he
      rw [← hk] at h6
      exact absurd h6 (shaped_take6 (hshape kv hkv) m)
    · obtain ⟨kv, hkv, rfl⟩ := List.mem_map.1 he
      rcases List.mem_append.1 hkv with hkv | hkv
      · obtain ⟨m', hm', P, hP, p, hp, rfl⟩ := hmem kv hkv
        have hlen' : m'.length = 2 := (htab m' hm').1
        simp only [] at h6
        rw [pointKV_take6 m' hlen' p] at h6
        have : m' = m := List.append_cancel_left h6
        subst this
        exact ⟨hm', P, hP, p, hp, rfl⟩
      · rw [List.mem_singleton] at hkv
        subst hkv
        simp only [] at h6
        rw [featuresKey_eq] at h6
        simp at h6
  refine ⟨subs, hsubs, hok, hwf', ?_, ?_⟩
  · intro m hm
    obtain ⟨hlen, P, hP, hT, hall⟩ := htab m hm
    refine ⟨P, hP, hT, ?_, ?_, ?_⟩
    · exact hnodup
    · intro p hp
      rw [hstore]
      apply List.mem_append_right
      exact List.mem_map.2 ⟨pointKV m p, List.mem_append_left _ (hall p hp), rfl⟩
    · intro e he h6
      rw [marker_eq] at h6
      obtain ⟨_, P', hP', p, hp, rfl⟩ := hpre e he m hlen h6
      rw [hP] at hP'
      cases hP'
      exact ⟨p, hp, rfl⟩
  · intro m hm hnot e he h6
    exact hnot (hpre e he m hm h6).1

/-- `lpm` looks at the subnets of its map only -/
theorem lpm_filter_mapID (S : List SubnetDecl) (m : Bytes) (v : Bool) (a o : Nat) :
    lpm (S.filter fun s => s.mapID = m) m v a o = lpm S m v a o := by
  unfold lpm
  rw [List.filter_filter]
  congr 1
  apply List.filter_congr
  intro s _
  by_cases hs : s.mapID = m <;> simp [hs]

theorem lpmRes_filter_mapID (S : List SubnetDecl) (m : Bytes) (a o : Nat) :
    Lpm.lpmRes (S.filter fun s => s.mapID = m) m a o = Lpm.lpmRes S m a o := by
  unfold Lpm.lpmRes
  rw [lpm_filter_mapID]

theorem filter_declOf (subs : List Subnet) (m : Bytes) :
    (subs.filter (·.lmap = m)).map Lpm.declOf = (subs.map Lpm.declOf).filter fun s => s.mapID = m := by
  rw [List.filter_map]
  rfl

/-- no key under `marker ++ map`: the RocksDB lookup finds nothing -/
theorem getLocationRdb_noentries (s : Store) (c : ClientNet) (m : Bytes) (hm : m.length = 2)
    (h : ∀ e ∈ s, e.1.take 6 ≠ [0, 0, 0, 33] ++ m) : getLocationRdb s c m = .ok (none, 0) := by
  rw [Lpm.getLocationRdb_eq_decodeHit]
  generalize hk : Generated.dnsdata_RangePointKeyMarker ++ m ++ maskedClientIP c ++
    [UInt8.ofNat ((c.maskOnes + (if isIPv4 c then 96 else 0)) % 256)] = key
  have hk6 : key.take 6 = [0, 0, 0, 33] ++ m := by
    rw [← hk, marker_eq, List.append_assoc, List.append_assoc, ← List.append_assoc [0, 0, 0, 33] m,
      List.take_left' (by simp [hm])]
  cases hseek : s.seekForPrev key with
  | none => rfl
  | some r =>
    obtain ⟨fk, vals⟩ := r
    have hmem := ((Lpm.seekForPrev_spec s key).2 _ hseek).1
    have hne := h _ hmem
    unfold Lpm.decodeHit
    simp only []
    split
    · rfl
    · rw [if_pos (Or.inr (by rw [hk6]; exact hne))]

/-- on a store that holds under `marker ++ map` exactly the range points of every map's table, the
RocksDB lookup is `Spec.lpm` on the declared subnets -/
theorem getLocationRdb_rep (store : Store) (z : Zone) (subs : List Subnet)
    (hsubs : z.subnets = subs.map Lpm.declOf) (hok : ∀ x ∈ subs, SubnetOK x)
    (hwf' : SubnetsRdbWF (subs.map Lpm.declOf))
    (htab : ∀ m ∈ mapIds subs, ∃ P, tableOf subs m = some P ∧ Lpm.TableWF P ∧ Lpm.RdbRep store m P)
    (hnone : ∀ m, m.length = 2 → m ∉ mapIds subs → ∀ e ∈ store, e.1.take 6 ≠ [0, 0, 0, 33] ++ m)
    (m : Bytes) (hm : m.length = 2) (c : ClientNet)
    (h16 : (maskedClientIP c).length = 16)
    (hal : ipToNat (maskedClientIP c) % 2 ^ (128 - Lpm.reqOf c) = 0) :
    getLocationRdb store c m =
      .ok (Lpm.lpmRes z.subnets m (ipToNat (maskedClientIP c)) (Lpm.reqOf c)) := by
  have hlt : ipToNat (maskedClientIP c) < 2 ^ 128 := by
    have := Lpm.ipToNat_lt (maskedClientIP c)
    rwa [h16] at this
  have hreq : Lpm.reqOf c < 256 := Nat.mod_lt _ (by omega)
  by_cases hmem : m ∈ mapIds subs
  · obtain ⟨P, hP, hT, hrep⟩ := htab m hmem
    rw [Lpm.getLocationRdb_eq_lookupRes hrep hT hm c h16]
    obtain ⟨x, hx, hxm⟩ := (mem_mapIds subs m).1 hmem
    have hne : (subs.filter (·.lmap = m)).map Lpm.declOf ≠ [] := by
      intro hnil
      have : Lpm.declOf x ∈ (subs.filter (·.lmap = m)).map Lpm.declOf :=
        List.mem_map.2 ⟨x, List.mem_filter.2 ⟨hx, by simpa using hxm⟩, rfl⟩
      rw [hnil] at this
      cases this
    obtain ⟨P', hP', _, hlk⟩ := Lpm.rearrange_table (subsWF_filter subs hok hwf' m) hne (m := m) (by
      intro s hs
      obtain ⟨y, hy, rfl⟩ := List.mem_map.1 hs
      rw [List.mem_filter] at hy
      have : y.lmap = m := by simpa using hy.2
      exact this)
    have : P' = P := by
      unfold tableOf at hP
      rw [hP] at hP'
      exact (Option.some.inj hP').symm
    subst this
    have := hlk _ _ hlt hreq hal
    show Res.ok (Lpm.lookupRes P' (ipToNat (maskedClientIP c)) (Lpm.reqOf c)) = _
    rw [this, filter_declOf, lpmRes_filter_mapID, hsubs]
  · rw [getLocationRdb_noentries store c m hm (hnone m hm hmem)]
    have : lpm z.subnets m (isV4Addr (ipToNat (maskedClientIP c))) (ipToNat (maskedClientIP c)) (Lpm.reqOf c) = none := by
      rw [Lpm.lpm_none]
      intro t ht hq
      rw [hsubs] at ht
      obtain ⟨y, hy, rfl⟩ := List.mem_map.1 ht
      exact hmem ((mem_mapIds subs m).2 ⟨y, hy, hq.1⟩)
    unfold Lpm.lpmRes
    rw [this]

/-- **RocksDB (v1 keys).** On the store `compile .rdbV1` builds, `GetLocationByMap` of the RocksDB
driver returns `Spec.lpm`'s answer on the declared subnets, for every 2-byte map id (with or without
subnets) and every client whose masked address is masked to its prefix length (W4).
Forced: W1 (strict) on the declared subnets (`SubnetsRdbWF`); see `Props/C03` §6. -/
theorem getLocationRdb_file (svcb : SvcbFn) (lines : List Bytes) (store : Store) (z : Zone)
    (hc : compile .rdbV1 svcb lines = some store) (hz : zoneOf lines = some z)
    (hwf : SubnetsRdbWF z.subnets) (m : Bytes) (hm : m.length = 2) (c : ClientNet)
    (h16 : (maskedClientIP c).length = 16)
    (hal : ipToNat (maskedClientIP c) % 2 ^ (128 - Lpm.reqOf c) = 0) :
    getLocationRdb store c m =
      .ok (Lpm.lpmRes z.subnets m (ipToNat (maskedClientIP c)) (Lpm.reqOf c)) := by
  obtain ⟨subs, hsubs, hok, hwf', htab, hnone⟩ := store_rdb_prefix svcb lines store z hc hz hwf
  exact getLocationRdb_rep store z subs hsubs hok hwf' htab hnone m hm c h16 hal

/-! ### F. assembly: `FindLocation` on the compiled store = `Spec.locate` on the declared zone -/

/-- a regular client network: 16-byte address, a valid mask of the address's own family (what
`ResolverLocation` and a well-formed ECS option produce) -/
structure ClientReg (c : ClientNet) : Prop where
  len16 : c.ip16.length = 16
  valid : c.maskValid = true
  len4 : c.ipLen4 = true → c.ip16.take 12 = v4Prefix
  reg : (c.maskBits = 32 ∧ isIPv4 c = true ∧ c.maskOnes ≤ 32) ∨
        (c.maskBits = 128 ∧ isIPv4 c = false ∧ c.maskOnes ≤ 128)

theorem isIPv4_eq {c : ClientNet} (hc : ClientReg c) : isIPv4 c = isV4Addr (ipToNat c.ip16) := by
  unfold isIPv4
  cases h4 : c.ipLen4 with
  | true =>
    have := (Lpm.take12_v4_iff hc.len16).1 (hc.len4 h4)
    rw [this]; rfl
  | false =>
    rw [Bool.false_or]
    by_cases h : c.ip16.take 12 = Net.v4Prefix
    · rw [(Lpm.take12_v4_iff hc.len16).1 h]; exact decide_eq_true h
    · have : isV4Addr (ipToNat c.ip16) = false := by
        rw [← Bool.not_eq_true]; exact fun hx => h ((Lpm.take12_v4_iff hc.len16).2 hx)
      rw [this]; exact decide_eq_false h

/-- the masked address of a regular client is its address masked to the requested length -/
theorem client_masked_eq {c : ClientNet} (hc : ClientReg c) :
    ipToNat (maskedClientIP c) = Lpm.maskN (ipToNat c.ip16) (Lpm.reqOf c) ∧ Lpm.reqOf c ≤ 128 ∧
      (isIPv4 c = true → 96 ≤ Lpm.reqOf c) := by
  have h16 := hc.len16
  unfold maskedClientIP Lpm.reqOf Lpm.maskN
  rw [if_neg (by simp [hc.valid])]
  rcases hc.reg with ⟨hb, h4, ho⟩ | ⟨hb, h4, ho⟩
  · have h4' : c.ipLen4 = true ∨ c.ip16.take 12 = Net.v4Prefix := by
      unfold isIPv4 at h4
      simpa using h4
    rw [if_pos hb, if_pos h4', h4]
    simp only [if_true]
    have e : (c.maskOnes + 96) % 256 = c.maskOnes + 96 := Nat.mod_eq_of_lt (by omega)
    rw [e, Lpm.ipToNat_maskIP h16 (by omega)]
    exact ⟨rfl, by omega, fun _ => by omega⟩
  · have h4' : c.ipLen4 = false := by
      unfold isIPv4 at h4
      cases hl : c.ipLen4 with
      | false => rfl
      | true => rw [hl] at h4; simp at h4
    rw [if_neg (by omega), h4', h4]
    simp only [Bool.false_eq_true, if_false, Nat.add_zero]
    have e : c.maskOnes % 256 = c.maskOnes := Nat.mod_eq_of_lt (by omega)
    rw [e, Lpm.ipToNat_maskIP h16 ho]
    exact ⟨rfl, ho, fun h => by cases h⟩

/-- `lpm` does not see the bits of the address beyond the client's prefix length -/
theorem lpm_maskN (S : List SubnetDecl) (m : Bytes) (v : Bool) (a o : Nat) :
    lpm S m v (Lpm.maskN a o) o = lpm S m v a o := by
  unfold lpm
  congr 1
  apply List.filter_congr
  intro s _
  by_cases ho : s.ones ≤ o
  · have : s.contains (Lpm.maskN a o) = s.contains a := by
      unfold SubnetDecl.contains
      rw [← Lpm.maskN_div (Lpm.maskN a o) s.ones, Lpm.maskN_maskN ho, Lpm.maskN_div]
    rw [this]
  · simp [ho]

/-- the result pair of a lookup, from `Spec.lpm`'s winner -/
def lpmPair (w : Option SubnetDecl) : Option Bytes × Nat :=
  match w with
  | some w => (some w.loc, w.ones)
  | none => (none, 0)

/-- the RocksDB answer in the client's own terms -/
theorem lpmRes_client (S : List SubnetDecl) (m : Bytes) {c : ClientNet} (hc : ClientReg c) :
    Lpm.lpmRes S m (ipToNat (maskedClientIP c)) (Lpm.reqOf c) =
      lpmPair (lpm S m (isIPv4 c) (ipToNat c.ip16) (Lpm.reqOf c)) := by
  obtain ⟨h1, h2, h3⟩ := client_masked_eq hc
  unfold Lpm.lpmRes lpmPair
  rw [h1, lpm_maskN]
  have hv : isV4Addr (Lpm.maskN (ipToNat c.ip16) (Lpm.reqOf c)) = isIPv4 c := by
    rw [isIPv4_eq hc]
    cases h4 : isV4Addr (ipToNat c.ip16) with
    | true =>
      rw [← isIPv4_eq hc] at h4
      rw [Lpm.isV4Addr_maskN (h3 h4), ← isIPv4_eq hc, h4]
    | false =>
      rw [← Bool.not_eq_true]
      intro hx
      have := Lpm.isV4Addr_of_maskN hx
      rw [h4] at this
      cases this
  rw [hv]
  cases lpm S m (isIPv4 c) (ipToNat c.ip16) (Lpm.reqOf c) <;> rfl

/-- the well-formedness a backend's location lookup needs (decidable; `False` for the v2 key layout,
which this file does not cover) -/
def FileWF (b : Backend) (lines : List Bytes) (z : Zone) : Prop :=
  match b with
  | .cdb _ => LinesOK lines ∧ NoPctTag z ∧ SubnetsW1 z.subnets
  | .rdbV1 => SubnetsRdbWF z.subnets
  | .rdbV2 => False

instance (b : Backend) (lines : List Bytes) (z : Zone) : Decidable (FileWF b lines z) := by
  unfold FileWF
  cases b <;> simp only [] <;> infer_instance

theorem fileWF_v1 {b : Backend} {lines : List Bytes} {z : Zone} (h : FileWF b lines z) :
    (∃ sep, b = .cdb sep) ∨ b = .rdbV1 := by
  cases b with
  | cdb sep => exact Or.inl ⟨sep, rfl⟩
  | rdbV1 => exact Or.inr rfl
  | rdbV2 => exact absurd h id

/-- **(map, client) → location on the compiled store** = `Spec.lpm` on the declared subnets, for
both CDB prefix-set modes and RocksDB v1, every 2-byte map id and every regular client -/
theorem getLocation_file (b : Backend) (svcb : SvcbFn) (lines : List Bytes) (store : Store) (z : Zone)
    (hc : compile b svcb lines = some store) (hz : zoneOf lines = some z) (hwf : FileWF b lines z)
    (m : Bytes) (hm : m.length = 2) (c : ClientNet) (hreg : ClientReg c) :
    getLocation b store c m =
      .ok (lpmPair (lpm z.subnets m (isIPv4 c) (ipToNat c.ip16) (Lpm.reqOf c))) := by
  cases b with
  | cdb sep =>
    obtain ⟨hg, hno, hw1⟩ := hwf
    obtain ⟨subs, hsubs, hswf, hrep⟩ := compile_cdbRep sep svcb lines store z hc hz hg hno hw1
    show getLocationCdb store sep c m = _
    have hv := isIPv4_eq hreg
    unfold Lpm.reqOf
    rw [hv]
    have := Lpm.cdb_find_eq_lpm hrep hswf sep m hm c.ip16 hreg.len16
      ((c.maskOnes + if isV4Addr (ipToNat c.ip16) then 96 else 0) % 256)
    rw [hsubs]
    unfold lpmPair
    refine Eq.trans ?_ (this.trans ?_)
    · rw [← hv]
      unfold getLocationCdb
      show (match first store (if sep = true then if isIPv4 c = true then [0, 0x34] else [0, 0x36] else [0, 0x2f]) with
        | none => Res.ok (none, 0)
        | some maskLens => getLocationCdb.go store m (isIPv4 c)
            ((c.maskOnes + if isIPv4 c = true then 96 else 0) % 256) maskLens c.ip16) = _
      rw [Lpm.prefixSet_first hrep sep (isIPv4 c)]
      have h2 := Lpm.cdb_go_spec store m (isIPv4 c) ((c.maskOnes + if isIPv4 c = true then 96 else 0) % 256)
        c.ip16 hreg.len16 (Lpm.lenSet subs (Lpm.selOf sep (isIPv4 c))) 128 (Nat.le_refl _) (Lpm.lenSet_desc _ _)
        (fun m hm => (Lpm.mem_lenSet.1 hm).1)
      rw [Lpm.maskIP_128 hreg.len16] at h2
      exact h2
    · cases lpm (subs.map Lpm.declOf) m (isV4Addr (ipToNat c.ip16)) (ipToNat c.ip16)
        ((c.maskOnes + if isV4Addr (ipToNat c.ip16) then 96 else 0) % 256) <;> rfl
  | rdbV1 =>
    obtain ⟨h16, hal⟩ := Lpm.client_aligned c hreg.len16 hreg.valid hreg.reg
    show getLocationRdb store c m = _
    rw [getLocationRdb_file svcb lines store z hc hz hwf m hm c h16 hal, lpmRes_client z.subnets m hreg]
  | rdbV2 => exact absurd hwf id

/-- declared map ids are two bytes; declared subnets have two-byte locations and lengths ≤ 128 -/
theorem zone_shapes (lines : List Bytes) (z : Zone) (hz : zoneOf lines = some z) :
    (∀ d ∈ z.maps, d.mapID.length = 2) ∧ (∀ s ∈ z.subnets, s.loc.length = 2 ∧ s.ones ≤ 128) := by
  rw [zoneOf_eq] at hz
  cases hcz : collect (cfgZ serial) (fun _ => none) lines ([], []) with
  | none => rw [hcz] at hz; cases hz
  | some rz =>
    rw [hcz] at hz
    simp only [Option.map_some, Option.some.injEq] at hz
    obtain ⟨kvsZ, subs⟩ := rz
    subst hz
    simp only []
    constructor
    · intro d hd
      rw [List.mem_filterMap] at hd
      obtain ⟨x, hx, hxd⟩ := hd
      obtain ⟨kv, hkv, rfl⟩ := List.mem_map.1 hx
      rcases collectZ_keyShaped serial lines _ hcz kv hkv with h | ⟨e, o, w, ho, hk, hv⟩
      · rw [decodeKV_rrKey h] at hxd; cases hxd
      · obtain ⟨k, v⟩ := kv
        simp only [] at hk hv
        subst hk
        rw [decodeKV_map' e o w v ho hv] at hxd
        cases hxd
        exact hv
    · intro s hs
      obtain ⟨x, hx, rfl⟩ := List.mem_map.1 hs
      have hok := (collect_subnetOK _ _ lines _ hcz x hx).1
      refine ⟨?_, hok.2.1⟩
      show (x.lo.getD [0, 0]).length = 2
      cases hl : x.lo with
      | none => rfl
      | some l => exact hok.2.2.2.2 l hl

theorem mapFor_mem {maps : List MapDecl} {ecs : Bool} {q : List Bytes} {id : Bytes}
    (h : mapFor maps ecs q = some id) : ∃ d ∈ maps, d.ecs = ecs ∧ d.mapID = id := by
  rw [Lpm.mapFor_eq] at h
  have hfind : ∀ (p : MapDecl → Bool) (hp : ∀ d, p d = true → d.ecs = ecs), (maps.find? p).map (·.mapID) = some id →
      ∃ d ∈ maps, d.ecs = ecs ∧ d.mapID = id := by
    intro p hp hf
    cases hfd : maps.find? p with
    | none => rw [hfd] at hf; cases hf
    | some d =>
      rw [hfd] at hf
      simp only [Option.map_some, Option.some.injEq] at hf
      exact ⟨d, List.mem_of_find?_eq_some hfd, hp d (List.find?_some hfd), hf⟩
  rw [Option.or_eq_some_iff] at h
  rcases h with h | ⟨_, h⟩
  · exact hfind _ (by intro d hd; simp only [decide_eq_true_eq] at hd; exact hd.1) h
  · rw [List.findSome?_eq_some_iff] at h
    obtain ⟨_, r, _, _, h, _⟩ := h
    exact hfind _ (by intro d hd; simp only [Bool.decide_and, Bool.decide_eq_true, Bool.and_eq_true, decide_eq_true_eq] at hd; exact hd.1) h

/-- the map id `findLocation` works with: the declared id, `[0,0]` when the name has no map -/
def idOf (m : Option Bytes) : Bytes := m.getD [0, 0]

/-- the `Location` `findLocation` builds from the map id and `Spec.lpm`'s winner -/
def locOf (id : Bytes) (w : Option SubnetDecl) : Location :=
  match w with
  | some w => { mapID := id, mask := w.ones, locID := w.loc }
  | none => { mapID := id }

theorem copy2' {l : Bytes} (h : l.length = 2) : [l.getD 0 0, l.getD 1 0] = l := by
  match l, h with
  | [a, b], _ => rfl

theorem findMap_v1 (b : Backend) (hb : (∃ sep, b = .cdb sep) ∨ b = .rdbV1) (s : Store) (d mt : Bytes) :
    findMap b s d mt = .ok (findMapV1 s d mt) := by
  rcases hb with ⟨sep, rfl⟩ | rfl <;> rfl

/-- **name → map on the compiled store** = `Spec.mapFor` on the declared maps -/
theorem findMap_file (b : Backend) (hb : (∃ sep, b = .cdb sep) ∨ b = .rdbV1) (svcb : SvcbFn)
    (lines : List Bytes) (store : Store) (z : Zone)
    (hc : compile b svcb lines = some store) (hz : zoneOf lines = some z)
    (ecs : Bool) (q : List Bytes) (hq : Lpm.WFName q) :
    findMap b store (pack q) (Lpm.mtypeOf ecs) = .ok (mapFor z.maps ecs q) := by
  rw [findMap_v1 b hb, Lpm.findMapV1_eq_mapFor_wf (compile_mapRep b hb svcb lines store z hc hz) ecs q hq]

/-- what the location step needs of a store for one query name: `FindMap` is `Spec.mapFor` on the
declared maps and `GetLocationByMap` is `Spec.lpm` on the declared subnets -/
structure LocRep (b : Backend) (store : Store) (z : Zone) (q : List Bytes) : Prop where
  map : ∀ ecs, findMap b store (pack q) (Lpm.mtypeOf ecs) = .ok (mapFor z.maps ecs q)
  loc : ∀ (m : Bytes) (c : ClientNet), m.length = 2 → ClientReg c →
    getLocation b store c m = .ok (lpmPair (lpm z.subnets m (isIPv4 c) (ipToNat c.ip16) (Lpm.reqOf c)))

/-- `findLocation` on a store that represents the zone's maps and subnets -/
theorem findLocation_rep {b : Backend} {store : Store} {z : Zone} {q : List Bytes} (lines : List Bytes)
    (hz : zoneOf lines = some z) (hrep : LocRep b store z q)
    (ecs : Bool) (c : ClientNet) (hreg : ClientReg c) :
    findLocation b store (pack q) (Lpm.mtypeOf ecs) c =
      .ok (locOf (idOf (mapFor z.maps ecs q))
        (lpm z.subnets (idOf (mapFor z.maps ecs q)) (isIPv4 c) (ipToNat c.ip16) (Lpm.reqOf c))) := by
  obtain ⟨hml, hsl⟩ := zone_shapes lines z hz
  unfold findLocation
  rw [hrep.map ecs]
  have key : ∀ (id : Bytes), id.length = 2 →
      (match getLocation b store c id with
        | .err => Res.err
        | .panic => Res.panic
        | .ok (loc, mask) =>
          match loc with
          | some l => Res.ok ({ mapID := id, mask := mask % 256, locID := [l.getD 0 0, l.getD 1 0] } : Location)
          | none => Res.ok { mapID := id }) =
        .ok (locOf id (lpm z.subnets id (isIPv4 c) (ipToNat c.ip16) (Lpm.reqOf c))) := by
    intro id hidlen
    rw [hrep.loc _ c hidlen hreg]
    cases hl : lpm z.subnets id (isIPv4 c) (ipToNat c.ip16) (Lpm.reqOf c) with
    | none => rfl
    | some w =>
      obtain ⟨hwm, _⟩ := Lpm.lpm_some hl
      obtain ⟨h2, h128⟩ := hsl w hwm
      unfold lpmPair locOf
      simp only []
      rw [copy2' h2, Nat.mod_eq_of_lt (by omega)]
  cases hM : mapFor z.maps ecs q with
  | none => exact key [0, 0] rfl
  | some id =>
    obtain ⟨d, hd, _, rfl⟩ := mapFor_mem hM
    have hlen := hml d hd
    simp only []
    rw [copy2' hlen]
    exact key d.mapID hlen

/-- the compiled store of a well-formed file represents the declared zone (v1 key layouts) -/
theorem locRep_file (b : Backend) (svcb : SvcbFn) (lines : List Bytes) (store : Store) (z : Zone)
    (hc : compile b svcb lines = some store) (hz : zoneOf lines = some z) (hwf : FileWF b lines z)
    (q : List Bytes) (hq : Lpm.WFName q) : LocRep b store z q :=
  ⟨fun ecs => findMap_file b (fileWF_v1 hwf) svcb lines store z hc hz ecs q hq,
   fun m c hm hreg => getLocation_file b svcb lines store z hc hz hwf m hm c hreg⟩

/-- map id `[0,0]` means "no map" to `EcsLocation`, and the lookups for a name without a map run on
map id `[0,0]`: no client-subnet map and no subnet may carry it -/
def LocIdsOK (z : Zone) : Prop :=
  (∀ d ∈ z.maps, d.ecs = true → d.mapID ≠ [0, 0]) ∧ (∀ s ∈ z.subnets, s.mapID ≠ [0, 0])

instance (z : Zone) : Decidable (LocIdsOK z) := by unfold LocIdsOK; infer_instance

/-- a well-formed client-subnet option: family 1 with a 4-byte address and source length ≤ 32, or
family 2 with a 16-byte address outside `::ffff:0:0/96` and source length ≤ 128 -/
def EcsRegular (e : Ecs) : Prop :=
  (e.family = 1 ∧ e.addr.length = 4 ∧ e.sourceMask ≤ 32) ∨
  (e.family = 2 ∧ e.addr.length = 16 ∧ e.addr.take 12 ≠ v4Prefix ∧ e.sourceMask ≤ 128)

instance (e : Ecs) : Decidable (EcsRegular e) := by unfold EcsRegular; infer_instance

/-- the query's client as the specification sees it (as in `Driver/Serve.lean`) -/
def clientOfQuery (resolver : List UInt8) (ecs : Option Ecs) : Client :=
  { resolver := ipToNat resolver,
    ecs := ecs.map fun e => (e.family, e.sourceMask, e.scope, ipToNat (to16 e.addr)) }

/-- the `net.IPNet` `ResolverLocation` builds -/
def resolverClient (ip16 : List UInt8) : ClientNet :=
  { ip16 := ip16, ipLen4 := false, maskOnes := if ip16.take 12 = v4Prefix then 32 else 128,
    maskBits := if ip16.take 12 = v4Prefix then 32 else 128 }

/-- the `net.IPNet` `EcsLocation` builds -/
def ecsClient (e : Ecs) : ClientNet :=
  { ip16 := to16 e.addr, ipLen4 := e.addr.length = 4,
    maskOnes := if e.sourceMask ≤ (if e.family = 2 then 128 else 32) then e.sourceMask else 0,
    maskBits := if e.family = 2 then 128 else 32,
    maskValid := e.sourceMask ≤ (if e.family = 2 then 128 else 32) }

theorem resolverClient_reg {r : List UInt8} (hr : r.length = 16) :
    ClientReg (resolverClient r) ∧ isIPv4 (resolverClient r) = isV4Addr (ipToNat r) ∧
      Lpm.reqOf (resolverClient r) = 128 := by
  have hv : isIPv4 (resolverClient r) = decide (r.take 12 = v4Prefix) := by
    unfold isIPv4 resolverClient
    simp only [Bool.false_or]
  have hreg : ClientReg (resolverClient r) := by
    refine ⟨hr, rfl, fun h => (by cases h), ?_⟩
    rw [hv]
    by_cases h : r.take 12 = v4Prefix
    · left
      unfold resolverClient
      simp only [h, if_true, decide_true]
      exact ⟨trivial, trivial, Nat.le_refl _⟩
    · right
      unfold resolverClient
      simp only [h, if_false, decide_false]
      exact ⟨trivial, trivial, Nat.le_refl _⟩
  refine ⟨hreg, isIPv4_eq hreg, ?_⟩
  unfold Lpm.reqOf
  rw [hv]
  by_cases h : r.take 12 = v4Prefix
  · unfold resolverClient; simp only [h, if_true, decide_true]
  · unfold resolverClient; simp [h]

theorem ecsClient_reg {e : Ecs} (he : EcsRegular e) :
    ClientReg (ecsClient e) ∧ isIPv4 (ecsClient e) = decide (e.family = 1) ∧
      (ecsClient e).ip16 = to16 e.addr ∧
      Lpm.reqOf (ecsClient e) = if e.family = 1 then e.sourceMask + 96 else e.sourceMask := by
  rcases he with ⟨hf, h4, hs⟩ | ⟨hf, h16, hnv, hs⟩
  · have ht : to16 e.addr = v4Prefix ++ e.addr := by unfold to16; rw [if_pos h4]
    have hv : isIPv4 (ecsClient e) = true := by
      unfold isIPv4 ecsClient
      simp [h4]
    have hreg : ClientReg (ecsClient e) := by
      refine ⟨?_, ?_, ?_, Or.inl ⟨?_, hv, ?_⟩⟩
      · show (to16 e.addr).length = 16
        rw [ht]; simp [v4Prefix, h4]
      · unfold ecsClient; simp [hf, hs]
      · intro _
        show (to16 e.addr).take 12 = v4Prefix
        rw [ht]; simp [v4Prefix]
      · unfold ecsClient; simp [hf]
      · unfold ecsClient; simp [hf, hs]
    refine ⟨hreg, by rw [hv, hf]; rfl, rfl, ?_⟩
    unfold Lpm.reqOf
    rw [hv]
    unfold ecsClient
    simp only [hf, if_true]
    simp [hs]
    omega
  · have ht : to16 e.addr = e.addr := by unfold to16; rw [if_neg (by omega), if_pos h16]
    have hv : isIPv4 (ecsClient e) = false := by
      unfold isIPv4 ecsClient
      simp only [ht]
      simp [h16, hnv]
    have hreg : ClientReg (ecsClient e) := by
      refine ⟨?_, ?_, ?_, Or.inr ⟨?_, hv, ?_⟩⟩
      · show (to16 e.addr).length = 16
        rw [ht]; exact h16
      · unfold ecsClient; simp [hf, hs]
      · intro h
        have : e.addr.length = 4 := by
          unfold ecsClient at h; simpa using h
        omega
      · unfold ecsClient; simp [hf]
      · unfold ecsClient; simp [hf, hs]
    refine ⟨hreg, by rw [hv, hf]; rfl, rfl, ?_⟩
    unfold Lpm.reqOf
    rw [hv]
    unfold ecsClient
    simp [hf, hs]
    omega

instance (q : List Bytes) : Decidable (Lpm.WFName q) := by unfold Lpm.WFName; infer_instance

theorem resolverLocation_eq (b : Backend) (s : Store) (q : Bytes) (r : List UInt8) :
    resolverLocation b s q r = findLocation b s q (Lpm.mtypeOf false) (resolverClient r) := rfl

theorem ecsLocation_eq' (b : Backend) (s : Store) (q : Bytes) (e : Ecs) :
    ecsLocation b s q e =
      match findLocation b s q (Lpm.mtypeOf true) (ecsClient e) with
      | .err => .err
      | .panic => .panic
      | .ok loc =>
        if loc.mapID = [0, 0] then .ok (none, 0)
        else if loc.locID ≠ [0, 0] then
          .ok (some loc, if e.family = 1 then (loc.mask + 256 - 96) % 256 else loc.mask)
        else .ok (none, if e.family = 2 then 48 else 24) := rfl

/-- the location the resolver's address maps to, as `Spec.locate` computes it -/
def resolverLocSpec (z : Zone) (q : List Bytes) (r : Nat) : Bytes :=
  match mapFor z.maps false q with
  | none => [0, 0]
  | some m =>
    match lpm z.subnets m (isV4Addr r) r 128 with
    | some s => s.loc
    | none => [0, 0]

theorem locate_eq' (z : Zone) (q : List Bytes) (c : Client) :
    locate z q c =
      match c.ecs with
      | none => { loc := resolverLocSpec z q c.resolver, scope := none }
      | some (family, src, _, addr) =>
        match mapFor z.maps true q with
        | none => { loc := resolverLocSpec z q c.resolver, scope := some 0 }
        | some m =>
          match lpm z.subnets m (family = 1) addr (if family = 1 then src + 96 else src) with
          | some s =>
            if s.loc = [0, 0] then
              { loc := resolverLocSpec z q c.resolver, scope := some (if family = 2 then 48 else 24) }
            else { loc := s.loc, scope := some (if family = 1 then s.ones - 96 else s.ones) }
          | none => { loc := resolverLocSpec z q c.resolver, scope := some (if family = 2 then 48 else 24) } := rfl

section Top
variable {b : Backend} {store : Store} {z : Zone} {q : List Bytes} (lines : List Bytes)
  (hz : zoneOf lines = some z) (hrep : LocRep b store z q) (hids : LocIdsOK z)
include hz hrep hids

/-- `ResolverLocation` on a representing store yields the resolver location of the specification -/
theorem resolverLocation_rep (r : List UInt8) (hr : r.length = 16) :
    ∃ loc, resolverLocation b store (pack q) r = .ok loc ∧ loc.locID = resolverLocSpec z q (ipToNat r) := by
  obtain ⟨hreg, hv, ho⟩ := resolverClient_reg hr
  rw [resolverLocation_eq, findLocation_rep lines hz hrep false _ hreg]
  refine ⟨_, rfl, ?_⟩
  rw [hv, ho]
  unfold resolverLocSpec
  show (locOf _ (lpm z.subnets _ (isV4Addr (ipToNat r)) (ipToNat r) 128)).locID = _
  cases hM : mapFor z.maps false q with
  | none =>
    have : lpm z.subnets (idOf none) (isV4Addr (ipToNat r)) (ipToNat r) 128 = none := by
      rw [Lpm.lpm_none]
      intro t ht hq'
      exact hids.2 t ht hq'.1
    rw [this]
    rfl
  | some m =>
    show (locOf m (lpm z.subnets m (isV4Addr (ipToNat r)) (ipToNat r) 128)).locID = _
    simp only []
    cases lpm z.subnets m (isV4Addr (ipToNat r)) (ipToNat r) 128 <;> rfl

/-- `FindLocation` of the model on a store that represents the zone returns the scope and the
location id `Spec.locate` prescribes -/
theorem findLocationTop_rep (ecs : Option Ecs) (he : ∀ e, ecs = some e → EcsRegular e)
    (resolver : List UInt8) (hr : resolver.length = 16) :
    ∃ loc, findLocationTop b store (pack q) ecs resolver =
        .ok ((locate z q (clientOfQuery resolver ecs)).scope, loc) ∧
      loc.locID = (locate z q (clientOfQuery resolver ecs)).loc := by
  obtain ⟨lr, hlr, hlrid⟩ := resolverLocation_rep lines hz hrep hids resolver hr
  obtain ⟨hml, hsl⟩ := zone_shapes lines z hz
  rw [locate_eq']
  cases ecs with
  | none =>
    refine ⟨lr, ?_, hlrid⟩
    unfold findLocationTop
    simp only [hlr]
    rfl
  | some e =>
    obtain ⟨hreg, hv, hip, ho⟩ := ecsClient_reg (he e rfl)
    have hfl := findLocation_rep lines hz hrep true _ hreg
    rw [hv, hip, ho] at hfl
    -- the fallback to the resolver
    have hfall : ∀ k, ecsLocation b store (pack q) e = .ok (none, k) →
        findLocationTop b store (pack q) (some e) resolver = .ok (some k, lr) := by
      intro k hk
      unfold findLocationTop
      simp only [hk, hlr]
      rfl
    unfold clientOfQuery
    simp only [Option.map_some]
    cases hM : mapFor z.maps true q with
    | none =>
      simp only []
      refine ⟨lr, hfall 0 ?_, hlrid⟩
      rw [ecsLocation_eq', hfl, hM]
      have : (locOf (idOf none) (lpm z.subnets (idOf none) (decide (e.family = 1)) (ipToNat (to16 e.addr))
          (if e.family = 1 then e.sourceMask + 96 else e.sourceMask))).mapID = [0, 0] := by
        cases lpm z.subnets (idOf none) (decide (e.family = 1)) (ipToNat (to16 e.addr))
          (if e.family = 1 then e.sourceMask + 96 else e.sourceMask) <;> rfl
      simp only [this, if_true]
    | some m =>
      obtain ⟨d, hd, hde, rfl⟩ := mapFor_mem hM
      have hne : d.mapID ≠ [0, 0] := hids.1 d hd hde
      rw [hM] at hfl
      simp only []
      have hidm : idOf (some d.mapID) = d.mapID := rfl
      rw [hidm] at hfl
      cases hl : lpm z.subnets d.mapID (decide (e.family = 1)) (ipToNat (to16 e.addr))
          (if e.family = 1 then e.sourceMask + 96 else e.sourceMask) with
      | none =>
        simp only []
        refine ⟨lr, hfall _ ?_, hlrid⟩
        rw [ecsLocation_eq', hfl, hl]
        unfold locOf
        simp only [if_neg hne]
        rfl
      | some w =>
        simp only []
        by_cases h0 : w.loc = [0, 0]
        · rw [if_pos h0]
          refine ⟨lr, hfall _ ?_, hlrid⟩
          rw [ecsLocation_eq', hfl, hl]
          unfold locOf
          simp only [if_neg hne, h0]
          rfl
        · rw [if_neg h0]
          obtain ⟨hwm, hq', _⟩ := Lpm.lpm_some hl
          obtain ⟨_, h128⟩ := hsl w hwm
          have hsc : (if e.family = 1 then (w.ones + 256 - 96) % 256 else w.ones) =
              (if e.family = 1 then w.ones - 96 else w.ones) := by
            by_cases hf : e.family = 1
            · rw [if_pos hf, if_pos hf]
              have hv4 : w.isV4 = true := by rw [hq'.2.1]; simpa using hf
              unfold SubnetDecl.isV4 at hv4
              rw [Bool.and_eq_true, decide_eq_true_iff] at hv4
              have := hv4.2
              omega
            · rw [if_neg hf, if_neg hf]
          refine ⟨locOf d.mapID (some w), ?_, rfl⟩
          have hE : ecsLocation b store (pack q) e = .ok (some (locOf d.mapID (some w)),
              if e.family = 1 then w.ones - 96 else w.ones) := by
            rw [ecsLocation_eq', hfl, hl]
            unfold locOf
            simp only [if_neg hne, ne_eq, h0, not_false_eq_true, if_true]
            rw [hsc]
          unfold findLocationTop
          simp only [hE]
          have hl0 : (locOf d.mapID (some w)).locID ≠ [0, 0] := h0
          simp only [hl0]
          rfl

end Top

/-- **file_located_as_declared** (v1 key layouts): `FindLocation` of the model on the compiled store
returns the scope and the location id `Spec.locate` prescribes on the declared zone -/
theorem findLocationTop_file (b : Backend) (svcb : SvcbFn) (lines : List Bytes) (store : Store) (z : Zone)
    (hc : compile b svcb lines = some store) (hz : zoneOf lines = some z) (hwf : FileWF b lines z)
    (hids : LocIdsOK z) (q : List Bytes) (hq : Lpm.WFName q)
    (ecs : Option Ecs) (he : ∀ e, ecs = some e → EcsRegular e)
    (resolver : List UInt8) (hr : resolver.length = 16) :
    ∃ loc, findLocationTop b store (pack q) ecs resolver =
        .ok ((locate z q (clientOfQuery resolver ecs)).scope, loc) ∧
      loc.locID = (locate z q (clientOfQuery resolver ecs)).loc :=
  findLocationTop_rep lines hz (locRep_file b svcb lines store z hc hz hwf q hq) hids ecs he resolver hr

end DnsVerif.PipelineLoc
