/-
Helper lemmas for C03.3: the CDB location lookup (`getLocationCdb`: prefix-length set, descending;
cumulative masking; exact key lookup) is longest-prefix match.
-/
import DnsVerif.Model.Location
import DnsVerif.Proofs.Lpm
import DnsVerif.Proofs.LpmBytes

namespace DnsVerif.Lpm
open DnsVerif DnsVerif.Rearr DnsVerif.Loc DnsVerif.Codec DnsVerif.Spec

/-! ### numeric masking -/

/-- clear the host bits of a 128-bit number below prefix length `m` -/
def maskN (a m : Nat) : Nat := a / 2 ^ (128 - m) * 2 ^ (128 - m)

theorem maskN_div (a m : Nat) : maskN a m / 2 ^ (128 - m) = a / 2 ^ (128 - m) := by
  unfold maskN; rw [Nat.mul_div_cancel _ (Nat.two_pow_pos _)]

theorem maskN_le (a m : Nat) : maskN a m ≤ a := Nat.div_mul_le_self _ _

theorem maskN_maskN {a j m : Nat} (h : m ≤ j) : maskN (maskN a j) m = maskN a m := by
  have hk : 2 ^ (128 - m) = 2 ^ (128 - j) * 2 ^ ((128 - m) - (128 - j)) := by
    rw [← Nat.pow_add]; congr 1; omega
  unfold maskN
  congr 1
  rw [hk, ← Nat.div_div_eq_div_mul, ← Nat.div_div_eq_div_mul,
    Nat.mul_div_cancel _ (Nat.two_pow_pos _)]

theorem maskN_128 (a : Nat) : maskN a 128 = a := by simp [maskN]

/-- same block ⇔ same masked address -/
theorem div_eq_iff_maskN_eq (a n m : Nat) :
    a / 2 ^ (128 - m) = n / 2 ^ (128 - m) ↔ maskN a m = maskN n m := by
  constructor
  · intro h; unfold maskN; rw [h]
  · intro h; rw [← maskN_div a, ← maskN_div n, h]

/-- masking at a length ≥ 96 keeps the upper 96 bits, hence the family -/
theorem isV4Addr_maskN {a m : Nat} (hm : 96 ≤ m) : isV4Addr (maskN a m) = isV4Addr a := by
  have hk : (2 : Nat) ^ 32 = 2 ^ (128 - m) * 2 ^ (32 - (128 - m)) := by
    rw [← Nat.pow_add]; congr 1; omega
  unfold isV4Addr maskN
  rw [hk, ← Nat.div_div_eq_div_mul, ← Nat.div_div_eq_div_mul,
    Nat.mul_div_cancel _ (Nat.two_pow_pos _)]

/-- a network that is masked at a length < 96 is not in the IPv4-mapped range -/
theorem not_isV4Addr_of_masked {n m : Nat} (hm : m < 96) (h : maskN n m = n) : isV4Addr n = false := by
  have hk : (2 : Nat) ^ (128 - m) = 2 ^ 32 * (2 * 2 ^ (128 - m - 33)) := by
    rw [← Nat.pow_succ', ← Nat.pow_add]; congr 1; omega
  unfold isV4Addr
  rw [decide_eq_false_iff_not]
  intro h4
  unfold maskN at h
  rw [hk] at h
  generalize n / (2 ^ 32 * (2 * 2 ^ (128 - m - 33))) = q at h
  generalize 2 ^ (128 - m - 33) = r at h
  have : n / 2 ^ 32 = q * (2 * r) := by
    rw [← h, Nat.mul_comm (2 ^ 32), ← Nat.mul_assoc, Nat.mul_div_cancel _ (Nat.two_pow_pos _)]
  rw [this] at h4
  have : q * (2 * r) = 2 * (q * r) := by rw [Nat.mul_left_comm]
  omega

/-- masking (at any length) never turns a non-IPv4-mapped address into an IPv4-mapped one -/
theorem isV4Addr_of_maskN {a m : Nat} (h : isV4Addr (maskN a m) = true) : isV4Addr a = true := by
  by_cases hm : 96 ≤ m
  · rwa [isV4Addr_maskN hm] at h
  · have := not_isV4Addr_of_masked (n := maskN a m) (m := m) (by omega) (maskN_maskN (Nat.le_refl _))
    rw [this] at h; cases h

/-! ### bytes ↔ numbers for masking -/

theorem maskIP_eq_natToIP {ip : List UInt8} {m : Nat} (h : ip.length = 16) (hm : m ≤ 128) :
    Net.maskIP ip m = natToIP (maskN (ipToNat ip) m) := by
  unfold maskN
  rw [← ipToNat_maskIP h hm, natToIP_ipToNat]
  rw [maskIP_length, h]

theorem maskIP_maskIP {ip : List UInt8} {j m : Nat} (h : ip.length = 16) (hj : j ≤ 128) (hm : m ≤ j) :
    Net.maskIP (Net.maskIP ip j) m = Net.maskIP ip m := by
  have hl : (Net.maskIP ip j).length = 16 := by rw [maskIP_length, h]
  rw [maskIP_eq_natToIP hl (by omega), ipToNat_maskIP h hj, maskIP_eq_natToIP h (by omega)]
  exact congrArg natToIP (maskN_maskN hm)

theorem maskIP_128 {ip : List UInt8} (h : ip.length = 16) : Net.maskIP ip 128 = ip := by
  rw [maskIP_eq_natToIP h (Nat.le_refl _), maskN_128, natToIP_ipToNat h]

theorem ipToNat_lt_2_128 {ip : List UInt8} (h : ip.length = 16) : ipToNat ip < 2 ^ 128 := by
  have := ipToNat_lt ip
  rw [h] at this
  exact this

/-! ### the descending search -/

/-- the legacy `%` key of the CDB codec -/
def cdbKey (mapID ip : Bytes) (m : UInt8) : Bytes := [0, 0x25] ++ mapID ++ ip ++ [m]

/-- does length `m` produce a hit for the (cumulatively masked) client address? -/
def cdbHit (s : Store) (mapID : Bytes) (isv4 : Bool) (maxMask : Nat) (ip0 : List UInt8) (m : Nat) : Bool :=
  decide (m ≤ maxMask) && (!isv4 || decide (96 ≤ m)) &&
    (first s (cdbKey mapID (Net.maskIP ip0 m) (UInt8.ofNat m))).isSome

theorem toNat_ofNat_le128 {m : Nat} (h : m ≤ 128) : (UInt8.ofNat m).toNat = m := by
  rw [UInt8.toNat_ofNat']; omega

theorem cdb_go_spec (s : Store) (mapID : Bytes) (isv4 : Bool) (maxMask : Nat) (ip0 : List UInt8)
    (h16 : ip0.length = 16) :
    ∀ (Ls : List Nat) (j : Nat), j ≤ 128 → Ls.Pairwise (· > ·) → (∀ m ∈ Ls, m ≤ j) →
      getLocationCdb.go s mapID isv4 maxMask (Ls.map UInt8.ofNat) (Net.maskIP ip0 j) =
        match Ls.find? (cdbHit s mapID isv4 maxMask ip0) with
        | some m => .ok (first s (cdbKey mapID (Net.maskIP ip0 m) (UInt8.ofNat m)), m)
        | none => .ok (none, 0) := by
  intro Ls
  induction Ls with
  | nil => intro j _ _ _; rfl
  | cons m rest ih =>
    intro j hj hpw hle
    have hmj : m ≤ j := hle m List.mem_cons_self
    have hm128 : m ≤ 128 := by omega
    have htn : (UInt8.ofNat m).toNat = m := toNat_ofNat_le128 hm128
    have hrest_pw : rest.Pairwise (· > ·) := (List.pairwise_cons.1 hpw).2
    have hrest_j : ∀ x ∈ rest, x ≤ j := fun x hx => hle x (List.mem_cons_of_mem _ hx)
    have hrest_m : ∀ x ∈ rest, x ≤ m := fun x hx =>
      Nat.le_of_lt ((List.pairwise_cons.1 hpw).1 x hx)
    rw [List.map_cons, List.find?_cons]
    unfold getLocationCdb.go
    rw [htn]
    by_cases h1 : m > maxMask
    · rw [if_pos h1]
      have : cdbHit s mapID isv4 maxMask ip0 m = false := by
        unfold cdbHit; simp [Nat.not_le.2 h1]
      rw [this]
      exact ih j hj hrest_pw hrest_j
    · rw [if_neg h1]
      by_cases h2 : isv4 = true ∧ m < 96
      · rw [if_pos h2]
        have : cdbHit s mapID isv4 maxMask ip0 m = false := by
          unfold cdbHit; simp [h2.1, Nat.not_le.2 h2.2]
        rw [this]
        exact ih j hj hrest_pw hrest_j
      · rw [if_neg h2]
        rw [maskIP_maskIP h16 hj hmj]
        have hpre : (decide (m ≤ maxMask) && (!isv4 || decide (96 ≤ m))) = true := by
          have : m ≤ maxMask := Nat.le_of_not_lt h1
          cases isv4 <;> simp_all
        cases hf : first s ([0, 0x25] ++ mapID ++ Net.maskIP ip0 m ++ [UInt8.ofNat m]) with
        | some loc =>
          have : cdbHit s mapID isv4 maxMask ip0 m = true := by
            unfold cdbHit cdbKey; rw [hpre, hf]; rfl
          rw [this]
          simp only [cdbKey, hf]
        | none =>
          have : cdbHit s mapID isv4 maxMask ip0 m = false := by
            unfold cdbHit cdbKey; rw [hf]; simp
          rw [this]
          simp only [hf]
          exact ih m hm128 hrest_pw hrest_m

/-- in a strictly descending list, `find?` returns the largest element satisfying the predicate -/
theorem find?_desc_max {p : Nat → Bool} :
    ∀ {Ls : List Nat}, Ls.Pairwise (· > ·) → ∀ {m : Nat}, Ls.find? p = some m →
      ∀ t ∈ Ls, p t = true → t ≤ m := by
  intro Ls
  induction Ls with
  | nil => intro _ m h; simp at h
  | cons x xs ih =>
    intro hpw m h t ht hpt
    rw [List.find?_cons] at h
    cases hx : p x with
    | true =>
      rw [hx] at h
      cases h
      rcases List.mem_cons.1 ht with h' | h'
      · omega
      · exact Nat.le_of_lt ((List.pairwise_cons.1 hpw).1 t h')
    | false =>
      rw [hx] at h
      rcases List.mem_cons.1 ht with h' | h'
      · rw [h', hx] at hpt; cases hpt
      · exact ih (List.pairwise_cons.1 hpw).2 h t h' hpt

/-- the prefix-length set of `prefixSetKVs`, as numbers -/
def lenSet (subs : List Subnet) (sel : Subnet → Bool) : List Nat :=
  (List.range 129).reverse.filter fun n => subs.any fun s => sel s && s.ones = n

theorem range_reverse_desc (n : Nat) : (List.range n).reverse.Pairwise (· > ·) := by
  rw [List.pairwise_reverse]
  exact List.pairwise_lt_range

theorem lenSet_desc (subs : List Subnet) (sel : Subnet → Bool) : (lenSet subs sel).Pairwise (· > ·) :=
  (range_reverse_desc 129).filter _

theorem mem_lenSet {subs : List Subnet} {sel : Subnet → Bool} {n : Nat} :
    n ∈ lenSet subs sel ↔ n ≤ 128 ∧ ∃ s ∈ subs, sel s = true ∧ s.ones = n := by
  unfold lenSet
  rw [List.mem_filter, List.mem_reverse, List.mem_range, List.any_eq_true]
  constructor
  · rintro ⟨h1, s, hs, h2⟩
    rw [Bool.and_eq_true, decide_eq_true_iff] at h2
    exact ⟨by omega, s, hs, h2⟩
  · rintro ⟨h1, s, hs, h2⟩
    refine ⟨by omega, s, hs, ?_⟩
    rw [Bool.and_eq_true, decide_eq_true_iff]
    exact h2

end DnsVerif.Lpm

namespace DnsVerif.Lpm
open DnsVerif DnsVerif.Rearr DnsVerif.Loc DnsVerif.Codec DnsVerif.Spec

/-! ### the CDB store representation and the main lemma -/

/-- the declared subnet of a `%` line, as the Spec sees it (same as `Driver.Serve.zoneOf`) -/
def declOf (s : Subnet) : SubnetDecl :=
  { mapID := s.lmap, net := ipToNat s.ip, ones := s.ones, loc := s.lo.getD [0, 0] }

/-- what the parser guarantees of every `%` line, plus W1 (no two subnets with the same
(map, network, length)) -/
structure SubnetsWF (subs : List Subnet) : Prop where
  len16 : ∀ x ∈ subs, x.ip.length = 16
  ones_le : ∀ x ∈ subs, x.ones ≤ 128
  masked : ∀ x ∈ subs, Net.maskIP x.ip x.ones = x.ip
  uniq : ∀ x ∈ subs, ∀ y ∈ subs, x.lmap = y.lmap → x.ip = y.ip → x.ones = y.ones → x = y

/-- the store holds the three prefix-length sets of `prefixSetKVs` and, under the 21-byte legacy `%`
keys, exactly the declared subnets (first declared first) -/
def CdbRep (s : Store) (subs : List Subnet) : Prop :=
  (∀ kv ∈ prefixSetKVs subs, first s kv.1 = some kv.2) ∧
  (∀ (mapID ip : Bytes) (m : UInt8), mapID.length = 2 → ip.length = 16 →
    first s (cdbKey mapID ip m) =
      (subs.find? fun x => decide (x.lmap = mapID ∧ x.ip = ip ∧ UInt8.ofNat x.ones = m)).map
        fun x => putloc x.lo)

/-- the selector of the prefix-length set the lookup reads -/
def selOf (sep isv4 : Bool) : Subnet → Bool :=
  if sep then (if isv4 then fun s => Net.isV4 s.ip else fun s => !Net.isV4 s.ip) else fun _ => true

theorem prefixSet_first {s : Store} {subs : List Subnet} (h : CdbRep s subs) (sep isv4 : Bool) :
    first s (if sep = true then if isv4 = true then [0, 0x34] else [0, 0x36] else [0, 0x2f]) =
      some ((lenSet subs (selOf sep isv4)).map UInt8.ofNat) := by
  have hall := h.1
  have h0 : prefixSetKVs subs =
      [([0, 0x2f], (lenSet subs fun _ => true).map UInt8.ofNat),
       ([0, 0x34], (lenSet subs fun s => Net.isV4 s.ip).map UInt8.ofNat),
       ([0, 0x36], (lenSet subs fun s => !Net.isV4 s.ip).map UInt8.ofNat)] := by
    unfold prefixSetKVs lenSet
    simp only [Bool.true_and]
  rw [h0] at hall
  cases sep <;> cases isv4 <;> simp only [selOf, if_true, if_false, Bool.false_eq_true]
  · exact hall ([0, 0x2f], _) (by simp)
  · exact hall ([0, 0x2f], _) (by simp)
  · exact hall ([0, 0x36], _) (by simp)
  · exact hall ([0, 0x34], _) (by simp)

theorem ofNat_inj_le128 {a b : Nat} (ha : a ≤ 128) (hb : b ≤ 128) (h : UInt8.ofNat a = UInt8.ofNat b) :
    a = b := by
  have := congrArg UInt8.toNat h
  rwa [toNat_ofNat_le128 ha, toNat_ofNat_le128 hb] at this

theorem netIsV4_iff {ip : List UInt8} (h : ip.length = 16) :
    Net.isV4 ip = isV4Addr (ipToNat ip) := by
  unfold Net.isV4
  by_cases h4 : isV4Addr (ipToNat ip) = true
  · rw [h4]; simp [h, (take12_v4_iff h).2 h4]
  · have : ¬ ip.take 12 = Net.v4Prefix := fun hc => h4 ((take12_v4_iff h).1 hc)
    rw [Bool.not_eq_true] at h4
    rw [h4]; simp [this]

/-- family of a declared (masked) subnet, computed from its address alone -/
theorem declOf_isV4 {x : Subnet} (h16 : x.ip.length = 16) (hle : x.ones ≤ 128)
    (hm : Net.maskIP x.ip x.ones = x.ip) : (declOf x).isV4 = isV4Addr (ipToNat x.ip) := by
  unfold SubnetDecl.isV4 declOf
  simp only
  by_cases h96 : 96 ≤ x.ones
  · simp [h96]
  · have hmn : maskN (ipToNat x.ip) x.ones = ipToNat x.ip := by
      have := congrArg ipToNat hm
      rwa [ipToNat_maskIP h16 hle] at this
    rw [not_isV4Addr_of_masked (by omega) hmn]; rfl

theorem cdb_find_eq_lpm {s : Store} {subs : List Subnet} (hrep : CdbRep s subs) (hwf : SubnetsWF subs)
    (sep : Bool) (mapID : Bytes) (hmap : mapID.length = 2) (ip0 : List UInt8) (h16 : ip0.length = 16)
    (req : Nat) :
    (match (lenSet subs (selOf sep (isV4Addr (ipToNat ip0)))).find?
        (cdbHit s mapID (isV4Addr (ipToNat ip0)) req ip0) with
      | some m => Res.ok (first s (cdbKey mapID (Net.maskIP ip0 m) (UInt8.ofNat m)), m)
      | none => Res.ok (none, 0)) =
    match lpm (subs.map declOf) mapID (isV4Addr (ipToNat ip0)) (ipToNat ip0) req with
      | some w => .ok (some w.loc, w.ones)
      | none => .ok (none, 0) := by
  generalize hv : isV4Addr (ipToNat ip0) = v4
  -- hits are declared subnets
  have hH : ∀ m, m ≤ 128 → first s (cdbKey mapID (Net.maskIP ip0 m) (UInt8.ofNat m)) =
      (subs.find? fun x => decide (x.lmap = mapID ∧ x.ip = Net.maskIP ip0 m ∧
        UInt8.ofNat x.ones = UInt8.ofNat m)).map fun x => putloc x.lo :=
    fun m _ => hrep.2 mapID _ _ hmap (by rw [maskIP_length, h16])
  -- A: a hit qualifies
  have hA : ∀ x ∈ subs, ∀ m, m ≤ 128 → x.lmap = mapID → x.ip = Net.maskIP ip0 m → x.ones = m → m ≤ req →
      (v4 = true → 96 ≤ m) → Qual mapID v4 (ipToNat ip0) req (declOf x) := by
    intro x hx m hm128 hl hip ho hreq h96
    have hnet : ipToNat x.ip = maskN (ipToNat ip0) m := by
      rw [hip, ipToNat_maskIP h16 hm128]; rfl
    refine ⟨hl, ?_, by show x.ones ≤ req; omega, ?_⟩
    · rw [declOf_isV4 (hwf.len16 x hx) (hwf.ones_le x hx) (hwf.masked x hx), hnet]
      cases v4 with
      | true => rw [isV4Addr_maskN (h96 rfl), hv]
      | false =>
        cases h : isV4Addr (maskN (ipToNat ip0) m) with
        | false => rfl
        | true => rw [isV4Addr_of_maskN h] at hv; cases hv
    · show decide (ipToNat ip0 / 2 ^ (128 - x.ones) = ipToNat x.ip / 2 ^ (128 - x.ones)) = true
      rw [decide_eq_true_iff, hnet, ho, maskN_div]
  -- B: a qualifying subnet is hit at its own length
  have hB : ∀ t ∈ subs, Qual mapID v4 (ipToNat ip0) req (declOf t) →
      t.ip = Net.maskIP ip0 t.ones ∧ t.ones ∈ lenSet subs (selOf sep v4) ∧
        cdbHit s mapID v4 req ip0 t.ones = true := by
    intro t ht hq
    obtain ⟨hl, hfam, hreq, hcon⟩ := hq
    have hl' : t.lmap = mapID := hl
    have hreq' : t.ones ≤ req := hreq
    have hcon' : ipToNat ip0 / 2 ^ (128 - t.ones) = ipToNat t.ip / 2 ^ (128 - t.ones) := by
      have : decide (ipToNat ip0 / 2 ^ (128 - t.ones) = ipToNat t.ip / 2 ^ (128 - t.ones)) = true := hcon
      rwa [decide_eq_true_iff] at this
    have t16 := hwf.len16 t ht
    have tle := hwf.ones_le t ht
    have hip : t.ip = Net.maskIP ip0 t.ones := by
      rw [maskIP_eq_natToIP h16 tle, (div_eq_iff_maskN_eq _ _ _).1 hcon', ← maskIP_eq_natToIP t16 tle,
        hwf.masked t ht]
    rw [declOf_isV4 t16 tle (hwf.masked t ht)] at hfam
    have h96 : v4 = true → 96 ≤ t.ones := by
      intro h4
      rw [h4] at hfam
      by_cases h : 96 ≤ t.ones
      · exact h
      · have hmn : maskN (ipToNat t.ip) t.ones = ipToNat t.ip := by
          have := congrArg ipToNat (hwf.masked t ht)
          rwa [ipToNat_maskIP t16 tle] at this
        rw [not_isV4Addr_of_masked (by omega) hmn] at hfam; cases hfam
    refine ⟨hip, ?_, ?_⟩
    · rw [mem_lenSet]
      refine ⟨tle, t, ht, ?_, rfl⟩
      unfold selOf
      cases sep with
      | false => rfl
      | true =>
        cases v4 with
        | true => simp only [if_true]; rw [netIsV4_iff t16, hfam]
        | false => simp only [if_true, Bool.false_eq_true, if_false]; rw [netIsV4_iff t16, hfam]; rfl
    · unfold cdbHit
      rw [hH t.ones tle]
      have hp : (fun x : Subnet => decide (x.lmap = mapID ∧ x.ip = Net.maskIP ip0 t.ones ∧
          UInt8.ofNat x.ones = UInt8.ofNat t.ones)) t = true := by
        simp only [decide_eq_true_iff]; exact ⟨hl', hip, trivial⟩
      have hsome : (subs.find? fun x : Subnet => decide (x.lmap = mapID ∧ x.ip = Net.maskIP ip0 t.ones ∧
          UInt8.ofNat x.ones = UInt8.ofNat t.ones)).isSome = true := by
        rw [List.find?_isSome]; exact ⟨t, ht, hp⟩
      rw [Option.isSome_map, hsome]
      have : (!v4 || decide (96 ≤ t.ones)) = true := by
        cases v4 with
        | false => rfl
        | true => simp [h96 rfl]
      rw [this, decide_eq_true hreq']; rfl
  cases hf : (lenSet subs (selOf sep v4)).find? (cdbHit s mapID v4 req ip0) with
  | none =>
    have hn : lpm (subs.map declOf) mapID v4 (ipToNat ip0) req = none := by
      rw [lpm_none]
      intro t' ht' hq
      obtain ⟨t, ht, rfl⟩ := List.mem_map.1 ht'
      obtain ⟨_, hmem, hhit⟩ := hB t ht hq
      rw [List.find?_eq_none] at hf
      exact hf _ hmem hhit
    rw [hn]
  | some m =>
    have hmem := List.mem_of_find?_eq_some hf
    have hhit := List.find?_some hf
    have hm128 : m ≤ 128 := (mem_lenSet.1 hmem).1
    unfold cdbHit at hhit
    rw [Bool.and_eq_true, Bool.and_eq_true, decide_eq_true_iff, hH m hm128, Option.isSome_map] at hhit
    obtain ⟨⟨hreq, h96⟩, hsome⟩ := hhit
    obtain ⟨x, hx⟩ := Option.isSome_iff_exists.1 hsome
    have hxmem := List.mem_of_find?_eq_some hx
    have hxp := List.find?_some hx
    simp only [decide_eq_true_iff] at hxp
    obtain ⟨hxl, hxip, hxo⟩ := hxp
    have hxo' : x.ones = m := ofNat_inj_le128 (hwf.ones_le x hxmem) hm128 hxo
    have h96' : v4 = true → 96 ≤ m := by
      intro h4; rw [h4] at h96; simpa using h96
    have hq := hA x hxmem m hm128 hxl hxip hxo' hreq h96'
    have hlpm : lpm (subs.map declOf) mapID v4 (ipToNat ip0) req = some (declOf x) := by
      apply lpm_of_max (List.mem_map.2 ⟨x, hxmem, rfl⟩) hq
      · intro t' ht' hq'
        obtain ⟨t, ht, rfl⟩ := List.mem_map.1 ht'
        obtain ⟨_, hmem', hhit'⟩ := hB t ht hq'
        have := find?_desc_max (lenSet_desc _ _) hf t.ones hmem' hhit'
        show t.ones ≤ x.ones
        omega
      · intro t' ht' hq' ho
        obtain ⟨t, ht, rfl⟩ := List.mem_map.1 ht'
        obtain ⟨htip, _, _⟩ := hB t ht hq'
        have ho' : t.ones = x.ones := ho
        have : t = x := hwf.uniq t ht x hxmem (hq'.1.trans hxl.symm)
          (by rw [htip, hxip, ho', hxo']) ho'
        rw [this]
    rw [hlpm]
    show Res.ok (first s (cdbKey mapID (Net.maskIP ip0 m) (UInt8.ofNat m)), m) = _
    rw [hH m hm128, hx]
    show Res.ok (some (putloc x.lo), m) = Res.ok (some (x.lo.getD [0, 0]), x.ones)
    rw [hxo']; rfl

end DnsVerif.Lpm
