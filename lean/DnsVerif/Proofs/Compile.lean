/-
Helper lemmas for C07 (compilers). Property theorems are in `Props/C07.lean`.
-/
import DnsVerif.Model.Compile
import DnsVerif.Spec.Compile
import DnsVerif.Proofs.MultiStore
import DnsVerif.Props.C15

namespace DnsVerif.Compile
open DnsVerif DnsVerif.Rdb DnsVerif.Spec

/-! ### createBuckets -/

theorem scanEnd_spec (keys : List Bytes) (fuel e0 : Nat)
    (h0 : 1 ≤ e0 ∨ keys.length = 0) (hle : e0 ≤ keys.length) (hf : keys.length + 1 ≤ fuel + e0) :
    ∃ e, scanEnd keys fuel e0 = .ok e ∧ e0 ≤ e ∧ e ≤ keys.length ∧
      (e < keys.length → keys[e]? ≠ keys[e - 1]?) := by
  induction fuel generalizing e0 with
  | zero => omega
  | succ fuel ih =>
    unfold scanEnd
    by_cases hlt : e0 < keys.length
    · rw [if_pos hlt]
      cases e0 with
      | zero => omega
      | succ e' =>
        have ha : keys[e' + 1]? = some keys[e' + 1] := List.getElem?_eq_getElem hlt
        have hb : keys[e']? = some (keys[e']'(by omega)) := List.getElem?_eq_getElem (by omega)
        simp only [ha, hb]
        by_cases hne : keys[e' + 1] ≠ keys[e']'(by omega)
        · rw [if_pos hne]
          refine ⟨e' + 1, rfl, Nat.le_refl _, hle, fun _ => ?_⟩
          simp only [Nat.add_sub_cancel, ha, hb]
          intro h; exact hne (Option.some.inj h)
        · rw [if_neg hne]
          obtain ⟨e, h1, h2, h3, h4⟩ := ih (e' + 2) (Or.inl (by omega)) (by omega) (by omega)
          exact ⟨e, h1, by omega, h3, h4⟩
    · rw [if_neg hlt]
      exact ⟨e0, rfl, Nat.le_refl _, hle, fun h => absurd h hlt⟩

/-- `bs` (starting at offset `s`) are contiguous, non-empty buckets covering `[s, n)` whose inner
boundaries all lie between two different keys -/
inductive Chain (keys : List Bytes) : Nat → List Bucket → Prop
  | last (s : Nat) (h : s < keys.length ∨ (s = 0 ∧ keys.length = 0)) :
      Chain keys s [⟨s, keys.length⟩]
  | cons (s e : Nat) (bs : List Bucket) (h1 : s < e) (h2 : e < keys.length)
      (h3 : keys[e]? ≠ keys[e - 1]?) (h : Chain keys e bs) : Chain keys s (⟨s, e⟩ :: bs)

theorem bucketsLoop_spec (keys : List Bytes) (size : Nat) (hsize : 1 ≤ size) (rem : Nat) :
    ∀ start, 1 ≤ rem → (start < keys.length ∨ (start = 0 ∧ keys.length = 0)) →
    ∃ bs, bucketsLoop keys size rem start = .ok bs ∧ Chain keys start bs ∧ bs.length ≤ rem := by
  induction rem with
  | zero => intro _ h; omega
  | succ r ih =>
    intro start _ hstart
    unfold bucketsLoop
    by_cases hr : r = 0
    · simp only [hr, if_true]
      exact ⟨_, rfl, Chain.last start hstart, by simp⟩
    · simp only [hr, if_false]
      obtain ⟨e, h1, h2, h3, h4⟩ := scanEnd_spec keys (keys.length + 1)
        (min (start + size) keys.length) (by omega) (Nat.min_le_right _ _) (by omega)
      rw [h1]
      by_cases hen : e = keys.length
      · simp only [hen, if_true]
        exact ⟨_, rfl, Chain.last start hstart, by simp⟩
      · simp only [hen, if_false]
        have helt : e < keys.length := by omega
        obtain ⟨bs, hb1, hb2, hb3⟩ := ih e (by omega) (Or.inl helt)
        rw [hb1]
        refine ⟨_, rfl, Chain.cons start e bs ?_ helt (h4 helt) hb2, by simp; omega⟩
        have : min (start + size) keys.length ≤ e := h2
        omega

theorem createBuckets_chain (keys : List Bytes) (minB maxN : Nat) (h1 : 1 ≤ minB) (h2 : 1 ≤ maxN) :
    ∃ bs, createBuckets keys minB maxN = .ok bs ∧ Chain keys 0 bs ∧ bs.length ≤ maxN := by
  unfold createBuckets
  rw [if_neg (by omega)]
  apply bucketsLoop_spec keys _ (by omega) maxN 0 h2
  omega

/-! explicit (index) form of `Chain` -/

theorem Chain.head {keys : List Bytes} {s : Nat} {bs : List Bucket} (h : Chain keys s bs) :
    ∃ b rest, bs = b :: rest ∧ b.startOffset = s := by
  cases h with
  | last _ _ => exact ⟨_, _, rfl, rfl⟩
  | cons _ e bs _ _ _ _ => exact ⟨_, _, rfl, rfl⟩

theorem Chain.getLast {keys : List Bytes} {s : Nat} {bs : List Bucket} (h : Chain keys s bs) :
    ∃ b, bs.getLast? = some b ∧ b.endOffset = keys.length := by
  induction h with
  | last _ _ => exact ⟨_, rfl, rfl⟩
  | cons s e bs _ _ _ hc ih =>
    obtain ⟨b, hb, he⟩ := ih
    obtain ⟨b0, rest, hbs, _⟩ := hc.head
    refine ⟨b, ?_, he⟩
    rw [hbs] at hb ⊢
    simpa [List.getLast?_cons_cons] using hb

theorem Chain.bounds {keys : List Bytes} {s : Nat} {bs : List Bucket} (h : Chain keys s bs) :
    ∀ b ∈ bs, s ≤ b.startOffset ∧ b.startOffset ≤ b.endOffset ∧ b.endOffset ≤ keys.length ∧
      (0 < keys.length → b.startOffset < b.endOffset) := by
  induction h with
  | last s hs =>
    intro b hb
    simp only [List.mem_singleton] at hb
    subst hb
    refine ⟨Nat.le_refl _, ?_, Nat.le_refl _, ?_⟩ <;> simp only <;> omega
  | cons s e bs h1 h2 _ _ ih =>
    intro b hb
    rcases List.mem_cons.1 hb with rfl | hb
    · refine ⟨Nat.le_refl _, ?_, ?_, ?_⟩ <;> simp only <;> omega
    · obtain ⟨a, b', c, d⟩ := ih b hb
      exact ⟨by omega, b', c, d⟩

theorem Chain.adjacent {keys : List Bytes} {s : Nat} {bs : List Bucket} (h : Chain keys s bs) :
    ∀ i b c, bs[i]? = some b → bs[i + 1]? = some c →
      b.endOffset = c.startOffset ∧ keys[c.startOffset]? ≠ keys[c.startOffset - 1]? := by
  induction h with
  | last s _ => intro i b c _ hc; simp at hc
  | cons s e bs _ _ h3 hc ih =>
    intro i b c hb hcc
    cases i with
    | zero =>
      obtain ⟨b0, rest, hbs, hs⟩ := hc.head
      simp only [List.getElem?_cons_zero, Option.some.injEq] at hb
      simp only [hbs, Nat.zero_add, List.getElem?_cons_succ, List.getElem?_cons_zero,
        Option.some.injEq] at hcc
      subst hb hcc
      simp only [hs]
      exact ⟨trivial, h3⟩
    | succ i =>
      simp only [List.getElem?_cons_succ] at hb hcc
      exact ih i b c hb hcc

/-! ### builder: saveBuckets -/

/-- what one SST writer emits for a bucket: adjacent records with equal keys merged -/
def groupAdj : Pairs → KV
  | [] => []
  | item :: rest => saveGo rest item.1 (appendValues [] [item.2])

def lastKey : Bytes → Pairs → Bytes
  | pk, [] => pk
  | _, item :: rest => lastKey item.1 rest

theorem lastKey_getLast (pk : Bytes) (l : Pairs) :
    some (lastKey pk l) = (pk :: l.map (·.1)).getLast? := by
  induction l generalizing pk with
  | nil => rfl
  | cons item rest ih =>
    simp only [lastKey, List.map_cons, List.getLast?_cons_cons]
    exact ih item.1

theorem saveGo_append (l1 : Pairs) (pk acc : Bytes) (q : Bytes × Bytes) (l2 : Pairs)
    (h : lastKey pk l1 ≠ q.1) :
    saveGo (l1 ++ q :: l2) pk acc = saveGo l1 pk acc ++ saveGo l2 q.1 (appendValues [] [q.2]) := by
  induction l1 generalizing pk acc with
  | nil =>
    simp only [lastKey] at h
    simp only [List.nil_append, saveGo]
    rw [if_pos (Ne.symm h)]
    rfl
  | cons item l1 ih =>
    simp only [lastKey] at h
    simp only [List.cons_append, saveGo]
    by_cases hne : item.1 ≠ pk
    · rw [if_pos hne, if_pos hne, ih _ _ h]; rfl
    · rw [if_neg hne, if_neg hne, ih _ _ h]

theorem saveGo_head (rest : Pairs) (pk acc : Bytes) :
    ∃ a t, saveGo rest pk acc = (pk, a) :: t := by
  induction rest generalizing pk acc with
  | nil => exact ⟨_, _, rfl⟩
  | cons item rest ih =>
    simp only [saveGo]
    by_cases hne : item.1 ≠ pk
    · rw [if_pos hne]; exact ⟨_, _, rfl⟩
    · rw [if_neg hne]
      have : item.1 = pk := by simpa using hne
      rw [this]; exact ih pk _

theorem saveGo_strictAsc (rest : Pairs) (pk acc : Bytes) (hs : KeySorted rest)
    (hpk : ∀ p ∈ rest, bytesLt p.1 pk = false) : strictAsc (saveGo rest pk acc) = true := by
  induction rest generalizing pk acc with
  | nil => rfl
  | cons item rest ih =>
    simp only [saveGo]
    by_cases hne : item.1 ≠ pk
    · rw [if_pos hne]
      obtain ⟨a, t, ht⟩ := saveGo_head rest item.1 (appendValues [] [item.2])
      have hrec := ih item.1 (appendValues [] [item.2]) hs.tail hs.head
      rw [ht] at hrec ⊢
      simp only [strictAsc, Bool.and_eq_true]
      refine ⟨?_, hrec⟩
      cases hlt : bytesLt pk item.1 with
      | true => rfl
      | false => exact absurd (bytesLt_total (hpk item (by simp)) hlt) hne
    · rw [if_neg hne]
      have : item.1 = pk := by simpa using hne
      rw [this]
      exact ih pk _ hs.tail (fun p hp => hpk p (by simp [hp]))

theorem saveGo_get (rest : Pairs) (pk : Bytes) (vs0 : List Bytes) (hs : KeySorted rest)
    (hpk : ∀ p ∈ rest, bytesLt p.1 pk = false) (k : Bytes) :
    KV.get (saveGo rest pk (encode vs0)) k =
      if k = pk then some (encode (vs0 ++ (rest.filter (·.1 = k)).map (·.2)))
      else if rest.filter (·.1 = k) = [] then none
      else some (encode ((rest.filter (·.1 = k)).map (·.2))) := by
  induction rest generalizing pk vs0 with
  | nil =>
    simp only [saveGo, KV.get_cons, KV.get_nil, List.filter_nil, List.map_nil, List.append_nil,
      if_true]
    by_cases hk : k = pk
    · simp [hk]
    · simp [hk, Ne.symm hk]
  | cons item rest ih =>
    simp only [saveGo]
    by_cases hne : item.1 ≠ pk
    · rw [if_pos hne, KV.get_cons]
      have hlt : bytesLt pk item.1 = true := by
        cases hlt : bytesLt pk item.1 with
        | true => rfl
        | false => exact absurd (bytesLt_total (hpk item (by simp)) hlt) hne
      by_cases hk : k = pk
      · subst hk
        simp only [if_true]
        rw [KeySorted.filter_eq_nil_of_lt hs hlt]
        simp
      · rw [if_neg (Ne.symm hk), if_neg hk]
        have hrec := ih item.1 [item.2] hs.tail hs.head
        have henc : appendValues [] [item.2] = encode [item.2] := rfl
        rw [henc, hrec]
        by_cases hki : k = item.1
        · subst hki
          simp [encode_cons]
        · have hf : (item :: rest).filter (·.1 = k) = rest.filter (·.1 = k) :=
            List.filter_cons_of_neg (by simpa using fun h : item.1 = k => hki h.symm)
          rw [hf, if_neg hki]
    · rw [if_neg hne]
      have heq : item.1 = pk := by simpa using hne
      rw [appendValues_encode, heq,
        ih pk (vs0 ++ [item.2]) hs.tail (fun p hp => hpk p (by simp [hp]))]
      by_cases hk : k = pk
      · subst hk
        simp [heq]
      · have hf : (item :: rest).filter (·.1 = k) = rest.filter (·.1 = k) :=
          List.filter_cons_of_neg (by simpa using fun h : item.1 = k => hk (by rw [← h, heq]))
        rw [hf, if_neg hk, if_neg hk]

theorem groupAdj_strictAsc (l : Pairs) (hs : KeySorted l) : strictAsc (groupAdj l) = true := by
  cases l with
  | nil => rfl
  | cons item rest => exact saveGo_strictAsc rest item.1 _ hs.tail hs.head

/-- the stored value of `k` in a merged sorted list decodes to exactly the values of `k` -/
theorem groupAdj_get (l : Pairs) (hs : KeySorted l) (k : Bytes) :
    (KV.get (groupAdj l) k).getD [] = encode ((l.filter (·.1 = k)).map (·.2)) := by
  cases l with
  | nil => simp [groupAdj, KV.get_nil, encode_nil]
  | cons item rest =>
    have henc : appendValues [] [item.2] = encode [item.2] := rfl
    simp only [groupAdj]
    rw [henc, saveGo_get rest item.1 [item.2] hs.tail hs.head k]
    by_cases hk : k = item.1
    · subst hk; simp
    · have : ¬ item.1 = k := fun h => hk h.symm
      by_cases he : rest.filter (·.1 = k) = []
      · simp [hk, this, he, encode_nil]
      · simp [hk, this, he]

theorem saveBucket_ok (items : Pairs) (hne : items ≠ []) (hs : KeySorted items) :
    saveBucket items = .ok (groupAdj items) := by
  cases items with
  | nil => exact absurd rfl hne
  | cons item rest =>
    have := groupAdj_strictAsc (item :: rest) hs
    simp only [groupAdj] at this
    simp only [saveBucket, groupAdj, this, if_true]

theorem KeySorted.sublist {l l' : Pairs} (h : KeySorted l) (hsub : l'.Sublist l) : KeySorted l' :=
  List.Pairwise.sublist hsub h

/-- the buckets' SST files, concatenated, are the merged form of the whole sorted dataset -/
theorem saveBuckets_chain (vals : Pairs) (hs : KeySorted vals) {s : Nat} {bs : List Bucket}
    (hc : Chain (vals.map (·.1)) s bs) (hsn : s < vals.length) :
    ∃ files, saveBuckets vals bs = .ok files ∧ files.flatten = groupAdj (vals.drop s) := by
  induction hc with
  | last s _ =>
    have hslice : slice vals ⟨s, (vals.map (·.1)).length⟩ = .ok (vals.drop s) := by
      unfold slice
      simp only [List.length_map]
      rw [if_pos ⟨by omega, Nat.le_refl _⟩]
      rw [List.take_of_length_le (by simp)]
    have hne : vals.drop s ≠ [] := by
      intro h; have := congrArg List.length h; simp at this; omega
    simp only [saveBuckets, hslice, saveBucket_ok _ hne (hs.sublist (List.drop_sublist _ _))]
    exact ⟨_, rfl, by simp⟩
  | cons s e bs h1 h2 h3 hc ih =>
    simp only [List.length_map] at h2
    obtain ⟨files', hf1, hf2⟩ := ih h2
    have hslice : slice vals ⟨s, e⟩ = .ok ((vals.drop s).take (e - s)) := by
      unfold slice
      rw [if_pos ⟨by simp only; omega, by simp only; omega⟩]
    have hsplit : vals.drop s = (vals.drop s).take (e - s) ++ vals.drop e := by
      conv => lhs; rw [← List.take_append_drop (e - s) (vals.drop s)]
      rw [List.drop_drop]
      congr 2; omega
    have hseglen : ((vals.drop s).take (e - s)).length = e - s := by
      simp; omega
    cases hseg : (vals.drop s).take (e - s) with
    | nil => rw [hseg] at hseglen; simp at hseglen; omega
    | cons item l1 =>
      cases hrest : vals.drop e with
      | nil => have := congrArg List.length hrest; simp at this; omega
      | cons q l2 =>
        have hsegS : KeySorted (item :: l1) := by
          rw [← hseg]
          exact hs.sublist ((List.take_sublist _ _).trans (List.drop_sublist _ _))
        -- the boundary lies between two different keys
        have hlast : some (lastKey item.1 l1) = (vals.map (·.1))[e - 1]? := by
          rw [lastKey_getLast]
          have : item.1 :: l1.map (·.1) = ((vals.map (·.1)).drop s).take (e - s) := by
            rw [← List.map_drop, ← List.map_take, hseg]; rfl
          rw [this, List.getLast?_eq_getElem?, List.getElem?_take]
          have hl : (((vals.map (·.1)).drop s).take (e - s)).length = e - s := by simp; omega
          rw [hl, if_pos (by omega), List.getElem?_drop]
          congr 1; omega
        have hq : (vals.map (·.1))[e]? = some q.1 := by
          have : (vals.drop e)[0]? = some q := by rw [hrest]; rfl
          rw [List.getElem?_drop] at this
          simp only [Nat.add_zero] at this
          rw [List.getElem?_map, this]; rfl
        have hbound : lastKey item.1 l1 ≠ q.1 := by
          intro h
          apply h3
          rw [hq, ← hlast, h]
        have hgroup : groupAdj (vals.drop s) = groupAdj (item :: l1) ++ groupAdj (vals.drop e) := by
          rw [hsplit, hseg, hrest]
          simp only [List.cons_append, groupAdj]
          exact saveGo_append l1 item.1 _ q l2 hbound
        simp only [saveBuckets, hslice, hseg, saveBucket_ok _ (by simp) hsegS, hf1]
        refine ⟨_, rfl, ?_⟩
        rw [List.flatten_cons, hf2, hgroup]

theorem builderExecute_ok (sorted : Pairs) (hs : KeySorted sorted) (hne : sorted ≠ [])
    (minB maxN : Nat) (h1 : 1 ≤ minB) (h2 : 1 ≤ maxN) :
    builderExecute sorted minB maxN = .ok (groupAdj sorted) := by
  obtain ⟨bs, hb, hc, _⟩ := createBuckets_chain (sorted.map (·.1)) minB maxN h1 h2
  have hlen : 0 < sorted.length := List.length_pos_iff.2 hne
  obtain ⟨files, hf1, hf2⟩ := saveBuckets_chain sorted hs hc hlen
  unfold builderExecute
  simp only [hb, hf1]
  unfold ingest
  rw [hf2, List.drop_zero, if_pos (groupAdj_strictAsc sorted hs)]

/-! ### batches -/

def BatchSt.content (st : BatchSt) : Pairs := st.dispatched.flatten ++ st.cur

theorem content_storeOne (size : Nat) (st : BatchSt) (r : Bytes × Bytes) :
    (storeOne size st r).content = st.content ++ [r] := by
  unfold storeOne BatchSt.content
  by_cases h : st.counter + 1 = size
  · simp [h]
  · simp [h]

theorem content_foldl (size : Nat) (l : Pairs) (st : BatchSt) :
    (l.foldl (storeOne size) st).content = st.content ++ l := by
  induction l generalizing st with
  | nil => simp
  | cons r l ih => simp [List.foldl_cons, ih, content_storeOne]

/-- splitting into batches loses, duplicates and reorders nothing -/
theorem batches_flatten (size : Nat) (stream : Pairs) : (batches size stream).flatten = stream := by
  have h := content_foldl size stream {}
  unfold BatchSt.content at h
  unfold batches
  simp only [List.flatten_nil, List.nil_append] at h
  by_cases he : (stream.foldl (storeOne size) {}).cur.isEmpty
  · rw [if_pos he]
    have : (stream.foldl (storeOne size) {}).cur = [] := by simpa using he
    rw [this] at h; simpa using h
  · rw [if_neg he]
    simpa using h

def addAll (m : MultiMap) (ps : Pairs) : MultiMap := ps.foldl (fun acc p => acc.add p.1 p.2) m

theorem runBatches_from (order : List Pairs) (hs : ∀ b ∈ order, ∀ p ∈ b, p.2.length < 4294967296)
    (s : KV) (m : MultiMap) (hR : Props.C15.R s m) :
    ∃ db, order.foldlM (fun s b => executeBatch s b []) s = .ok db ∧
      Props.C15.R db (addAll m order.flatten) := by
  induction order generalizing s m with
  | nil => exact ⟨s, rfl, hR⟩
  | cons b bs ih =>
    have hb := Props.C15.batch_refines s m hR b [] (hs b (by simp))
    have hm : m.batch b [] = some (addAll m b) := rfl
    rw [hm] at hb
    rw [List.foldlM_cons]
    cases he : executeBatch s b [] with
    | error e => rw [he] at hb; exact hb.elim
    | ok s' =>
      rw [he] at hb
      obtain ⟨db, h1, h2⟩ := ih (fun b' hb' => hs b' (by simp [hb'])) s' (addAll m b) hb
      refine ⟨db, h1, ?_⟩
      simpa [addAll, List.foldl_append] using h2

theorem get_addAll_empty (ps : Pairs) (k : Bytes) :
    (addAll MultiMap.empty ps).get k = (ps.filter (·.1 = k)).map (·.2) := by
  unfold addAll
  rw [MultiMap.get_foldl_add]
  simp [MultiMap.empty]

end DnsVerif.Compile
