/-
Lemmas linking 16-byte big-endian addresses (`natToIP`, `ipToNat`, `Net.maskIP`, `bytesLt`) to
128-bit numbers. Core Lean only.
-/
import DnsVerif.Model.Rearranger
import DnsVerif.Proofs.MultiStore
import DnsVerif.Spec.Answer
namespace DnsVerif.Lpm
open DnsVerif DnsVerif.Rearr DnsVerif.Rdb

/-! ### `ipToNat` -/

theorem foldl_acc (acc : Nat) (l : List UInt8) :
    l.foldl (fun acc b => acc * 256 + b.toNat) acc
      = acc * 256 ^ l.length + l.foldl (fun acc b => acc * 256 + b.toNat) 0 := by
  induction l generalizing acc with
  | nil => simp
  | cons b rest ih =>
    simp only [List.foldl_cons, List.length_cons]
    rw [ih (acc * 256 + b.toNat), ih (0 * 256 + b.toNat)]
    rw [Nat.pow_succ, Nat.add_mul, Nat.zero_mul, Nat.zero_add, Nat.add_assoc,
      Nat.mul_assoc, Nat.mul_comm 256]

theorem ipToNat_nil : ipToNat [] = 0 := rfl

theorem ipToNat_cons (b : UInt8) (rest : List UInt8) :
    ipToNat (b :: rest) = b.toNat * 256 ^ rest.length + ipToNat rest := by
  unfold ipToNat
  rw [List.foldl_cons, foldl_acc]
  simp

theorem ipToNat_lt (ip : List UInt8) : ipToNat ip < 256 ^ ip.length := by
  induction ip with
  | nil => simp [ipToNat]
  | cons b rest ih =>
    rw [ipToNat_cons, List.length_cons, Nat.pow_succ]
    have hb := UInt8.toNat_lt b
    have : b.toNat * 256 ^ rest.length ≤ 255 * 256 ^ rest.length :=
      Nat.mul_le_mul_right _ (by omega)
    omega


theorem ipToNat_append (a b : List UInt8) :
    ipToNat (a ++ b) = ipToNat a * 256 ^ b.length + ipToNat b := by
  unfold ipToNat
  rw [List.foldl_append, foldl_acc]

theorem ipToNat_snoc (a : List UInt8) (b : UInt8) :
    ipToNat (a ++ [b]) = ipToNat a * 256 + b.toNat := by
  rw [ipToNat_append]; simp [ipToNat]

/-- equal-length big-endian byte strings with the same value are equal -/
theorem ipToNat_inj {x y : List UInt8} (h : x.length = y.length) (he : ipToNat x = ipToNat y) :
    x = y := by
  induction x generalizing y with
  | nil =>
    cases y with
    | nil => rfl
    | cons _ _ => simp at h
  | cons a xs ih =>
    cases y with
    | nil => simp at h
    | cons b ys =>
      simp only [List.length_cons, Nat.add_right_cancel_iff] at h
      rw [ipToNat_cons, ipToNat_cons, h] at he
      have hx := ipToNat_lt xs
      have hy := ipToNat_lt ys
      rw [h] at hx
      have hP : 0 < 256 ^ ys.length := Nat.pow_pos (by omega)
      have h1 : (a.toNat * 256 ^ ys.length + ipToNat xs) / 256 ^ ys.length = a.toNat := by
        rw [Nat.mul_comm, Nat.mul_add_div hP, Nat.div_eq_of_lt hx, Nat.add_zero]
      have h2 : (b.toNat * 256 ^ ys.length + ipToNat ys) / 256 ^ ys.length = b.toNat := by
        rw [Nat.mul_comm, Nat.mul_add_div hP, Nat.div_eq_of_lt hy, Nat.add_zero]
      have hab : a.toNat = b.toNat := by rw [← h1, ← h2, he]
      rw [hab] at he
      have hr : ipToNat xs = ipToNat ys := by omega
      rw [UInt8.toNat_inj.1 hab, ih h hr]

/-! ### `natToIP` -/

theorem natToIP_length (n : Nat) : (natToIP n).length = 16 := by
  simp [natToIP]

theorem toNat_ofNat_mod (x : Nat) : (UInt8.ofNat (x % 256)).toNat = x % 256 := by
  rw [UInt8.toNat_ofNat']; omega

/-- the first `k` of the `m + 1` base-256 digits of `n` -/
theorem ipToNat_digits (n m k : Nat) (hk : k ≤ m + 1) :
    ipToNat ((List.range k).map fun i => UInt8.ofNat (n / 256 ^ (m - i) % 256))
      = n / 256 ^ (m + 1 - k) % 256 ^ k := by
  induction k with
  | zero => simp [ipToNat, Nat.mod_one]
  | succ k ih =>
    rw [List.range_succ, List.map_append, List.map_singleton, ipToNat_snoc, ih (by omega),
      toNat_ofNat_mod]
    have e1 : m + 1 - k = (m - k) + 1 := by omega
    have e2 : m + 1 - (k + 1) = m - k := by omega
    rw [e1, e2, Nat.pow_succ, ← Nat.div_div_eq_div_mul, Nat.pow_succ, Nat.mul_comm (256 ^ k) 256,
      Nat.mod_mul]
    omega

theorem ipToNat_natToIP {n : Nat} (h : n < 2 ^ 128) : ipToNat (natToIP n) = n := by
  unfold natToIP
  rw [ipToNat_digits n 15 16 (by omega)]
  simp only [Nat.sub_self, Nat.pow_zero, Nat.div_one]
  exact Nat.mod_eq_of_lt (by omega)

theorem natToIP_ipToNat {ip : List UInt8} (h : ip.length = 16) : natToIP (ipToNat ip) = ip := by
  apply ipToNat_inj (by rw [natToIP_length, h])
  apply ipToNat_natToIP
  have := ipToNat_lt ip
  rw [h] at this
  omega

theorem natToIP_inj {a b : Nat} (ha : a < 2 ^ 128) (hb : b < 2 ^ 128) :
    natToIP a = natToIP b ↔ a = b := by
  constructor
  · intro h
    rw [← ipToNat_natToIP ha, ← ipToNat_natToIP hb, h]
  · intro h; rw [h]


/-! ### byte order vs numeric order -/

theorem bytesLt_singleton (a b : UInt8) : bytesLt [a] [b] = decide (a.toNat < b.toNat) := by
  by_cases h : a.toNat < b.toNat <;> simp [bytesLt, h]

theorem bytesLt_append_left (p x y : Bytes) : bytesLt (p ++ x) (p ++ y) = bytesLt x y := by
  induction p with
  | nil => rfl
  | cons a p ih => simp [bytesLt, ih]

theorem bytesLt_append_eqlen {x y : Bytes} (u v : Bytes) (h : x.length = y.length) :
    bytesLt (x ++ u) (y ++ v) = if x = y then bytesLt u v else bytesLt x y := by
  induction x generalizing y with
  | nil =>
    cases y with
    | nil => simp
    | cons _ _ => simp at h
  | cons a xs ih =>
    cases y with
    | nil => simp at h
    | cons b ys =>
      simp only [List.length_cons, Nat.add_right_cancel_iff] at h
      simp only [List.cons_append, bytesLt, List.cons.injEq]
      by_cases hab : a.toNat < b.toNat
      · have : a ≠ b := fun e => by rw [e] at hab; omega
        simp [hab, this]
      · by_cases hba : b.toNat < a.toNat
        · have : a ≠ b := fun e => by rw [e] at hba; omega
          simp [hab, hba, this]
        · have : a = b := UInt8.toNat_inj.1 (by omega)
          simp [this, ih h]

/-- on equal-length strings the byte order is the numeric order of the big-endian values -/
theorem bytesLt_eq_ipToNat_lt {x y : Bytes} (h : x.length = y.length) :
    bytesLt x y = decide (ipToNat x < ipToNat y) := by
  induction x generalizing y with
  | nil =>
    cases y with
    | nil => simp [bytesLt, ipToNat]
    | cons _ _ => simp at h
  | cons a xs ih =>
    cases y with
    | nil => simp at h
    | cons b ys =>
      simp only [List.length_cons, Nat.add_right_cancel_iff] at h
      have hx := ipToNat_lt xs
      have hy := ipToNat_lt ys
      rw [h] at hx
      simp only [bytesLt, ipToNat_cons, h]
      by_cases hab : a.toNat < b.toNat
      · have h1 : (a.toNat + 1) * 256 ^ ys.length ≤ b.toNat * 256 ^ ys.length :=
          Nat.mul_le_mul_right _ hab
        rw [Nat.succ_mul] at h1
        rw [if_pos hab]
        symm; apply decide_eq_true; omega
      · by_cases hba : b.toNat < a.toNat
        · have h1 : (b.toNat + 1) * 256 ^ ys.length ≤ a.toNat * 256 ^ ys.length :=
            Nat.mul_le_mul_right _ hba
          rw [Nat.succ_mul] at h1
          rw [if_neg hab, if_pos hba]
          symm; apply decide_eq_false; omega
        · have : a.toNat = b.toNat := by omega
          rw [if_neg hab, if_neg hba, ih h, this]
          simp

theorem bytesLt_natToIP {a b : Nat} (ha : a < 2 ^ 128) (hb : b < 2 ^ 128) :
    bytesLt (natToIP a) (natToIP b) = decide (a < b) := by
  rw [bytesLt_eq_ipToNat_lt (by rw [natToIP_length, natToIP_length]), ipToNat_natToIP ha,
    ipToNat_natToIP hb]

/-! ### family test -/

theorem take12_v4_iff {ip : List UInt8} (h : ip.length = 16) :
    ip.take 12 = Net.v4Prefix ↔ Spec.isV4Addr (ipToNat ip) = true := by
  have hs : (ip.drop 12).length = 4 := by rw [List.length_drop, h]
  have hp : (ip.take 12).length = 12 := by rw [List.length_take, h]; rfl
  have hlt := ipToNat_lt (ip.drop 12)
  rw [hs] at hlt
  have hv : ipToNat Net.v4Prefix = 0xffff := by decide
  have hdiv : ipToNat ip / 2 ^ 32 = ipToNat (ip.take 12) := by
    conv => lhs; rw [← List.take_append_drop 12 ip]
    rw [ipToNat_append, hs]
    omega
  unfold Spec.isV4Addr
  rw [decide_eq_true_iff, hdiv]
  constructor
  · intro e; rw [e, hv]
  · intro e
    exact ipToNat_inj (by rw [hp]; rfl) (by rw [e, hv])


/-! ### `maskIP` -/

theorem maskByte_succ (ones i : Nat) : Net.maskByte ones (i + 1) = Net.maskByte (ones - 8) i := by
  have e : ones - 8 * (i + 1) = ones - 8 - 8 * i := by omega
  have c : (ones ≤ 8 * (i + 1)) = (ones - 8 ≤ 8 * i) := by
    apply propext; constructor <;> intro <;> omega
  simp only [Net.maskByte, e, c]

theorem and_maskByte_zero_fin : ∀ (b : Fin 256) (m : Fin 9),
    b.val &&& (Net.maskByte m.val 0).toNat = b.val / 2 ^ (8 - m.val) * 2 ^ (8 - m.val) := by
  decide +kernel

theorem and_maskByte_zero (b : UInt8) {m : Nat} (hm : m ≤ 8) :
    b.toNat &&& (Net.maskByte m 0).toNat = b.toNat / 2 ^ (8 - m) * 2 ^ (8 - m) :=
  and_maskByte_zero_fin ⟨b.toNat, UInt8.toNat_lt b⟩ ⟨m, by omega⟩

theorem maskByte_zero_full {m : Nat} (hm : 8 ≤ m) : Net.maskByte m 0 = 0xff := by
  unfold Net.maskByte
  simp only [Nat.mul_zero, Nat.sub_zero]
  rw [if_neg (by omega), if_pos (by omega)]

theorem maskIP_nil (m : Nat) : Net.maskIP [] m = [] := rfl

theorem maskIP_cons (b : UInt8) (rest : List UInt8) (m : Nat) :
    Net.maskIP (b :: rest) m
      = UInt8.ofNat (b.toNat &&& (Net.maskByte m 0).toNat) :: Net.maskIP rest (m - 8) := by
  unfold Net.maskIP
  rw [List.zipIdx_cons, List.map_cons, Nat.zero_add, List.zipIdx_succ, List.map_map]
  congr 1
  apply List.map_congr_left
  intro ⟨a, i⟩ _
  simp only [Function.comp, maskByte_succ]

theorem maskIP_length (ip : List UInt8) (m : Nat) : (Net.maskIP ip m).length = ip.length := by
  simp [Net.maskIP]


theorem toNat_ofNat_and (b : UInt8) (x : Nat) : (UInt8.ofNat (b.toNat &&& x)).toNat = b.toNat &&& x := by
  rw [UInt8.toNat_ofNat']
  have := UInt8.toNat_lt b
  have := @Nat.and_le_left b.toNat x
  omega

theorem pow256 (n : Nat) : 256 ^ n = 2 ^ (8 * n) := by
  rw [Nat.pow_mul]

/-- masking an `n`-byte address to `m` leading bits clears the low `8n - m` bits -/
theorem ipToNat_maskIP_gen (ip : List UInt8) (m : Nat) (hm : m ≤ 8 * ip.length) :
    ipToNat (Net.maskIP ip m)
      = ipToNat ip / 2 ^ (8 * ip.length - m) * 2 ^ (8 * ip.length - m) := by
  induction ip generalizing m with
  | nil => simp [maskIP_nil, ipToNat]
  | cons b rest ih =>
    have hr := ipToNat_lt rest
    rw [maskIP_cons, ipToNat_cons, ipToNat_cons, maskIP_length, toNat_ofNat_and, pow256] at *
    simp only [List.length_cons] at hm ⊢
    by_cases h8 : 8 ≤ m
    · rw [maskByte_zero_full h8, ih (m - 8) (by omega)]
      have hb : b.toNat &&& (0xff : UInt8).toNat = b.toNat := by
        have := and_maskByte_zero b (Nat.le_refl 8)
        rw [maskByte_zero_full (Nat.le_refl 8)] at this
        simpa using this
      rw [hb]
      have e1 : 8 * (rest.length + 1) - m = 8 * rest.length - (m - 8) := by omega
      rw [e1]
      generalize he : 8 * rest.length - (m - 8) = e
      have hP : 2 ^ (8 * rest.length) = 2 ^ e * 2 ^ (8 * rest.length - e) := by
        rw [← Nat.pow_add]; congr 1; omega
      rw [hP, Nat.mul_left_comm, Nat.mul_add_div (Nat.pow_pos (by omega)), Nat.add_mul,
        Nat.mul_comm (2 ^ e)]
    · have hm8 : m ≤ 8 := by omega
      have hz : m - 8 = 0 := by omega
      rw [and_maskByte_zero b hm8, hz, ih 0 (by omega)]
      simp only [Nat.sub_zero]
      rw [Nat.div_eq_of_lt hr, Nat.zero_mul, Nat.add_zero]
      have e1 : 8 * (rest.length + 1) - m = 8 * rest.length + (8 - m) := by omega
      rw [e1, Nat.pow_add, ← Nat.div_div_eq_div_mul, Nat.mul_comm b.toNat,
        Nat.mul_add_div (Nat.pow_pos (by omega)), Nat.div_eq_of_lt hr, Nat.add_zero]
      rw [Nat.mul_assoc, Nat.mul_comm (2 ^ (8 - m))]

theorem ipToNat_maskIP {ip : List UInt8} {m : Nat} (h : ip.length = 16) (hm : m ≤ 128) :
    ipToNat (Net.maskIP ip m) = ipToNat ip / 2 ^ (128 - m) * 2 ^ (128 - m) := by
  have := ipToNat_maskIP_gen ip m (by omega)
  rw [h] at this
  exact this

end DnsVerif.Lpm
