/-
Record-level view of the line codec (`dnsdata/data.go`, `dnsdata/data_marshaltext.go`,
`dnsdata/preproc.go`):

* `Record` — one constructor per line type with the fields the Go structs keep after `UnmarshalText`;
* `parseRecord` — `Codec.DecodeLn` (every `UnmarshalText` + the accumulator's acceptance test);
* `recordOut` / `recordKVs` — every `MarshalMap`; `Codec.convertLine` factors through the two
  (`Proofs/MarshalText.lean : convertLine_eq`), which ties this file to the validated codec model;
* `marshalText` — every `MarshalText` (`putdomtext`, `putloctext`, `putlmaptext`, `putquotedtext`,
  `%d`, `net.IP.String`, `net.IPNet.String`), including the `!` range-point line which the codec
  model does not cover;
* `preprocess` — `Codec.Preprocess` for the RocksDB codec settings.

Core Lean only.
-/
import DnsVerif.Model.Codec
import DnsVerif.Model.Rearranger
import DnsVerif.Model.Svcb

namespace DnsVerif.MarshalText
open DnsVerif DnsVerif.Codec DnsVerif.Name DnsVerif.Net

abbrev IP := List UInt8

inductive Record where
  | soa (dom ns adm : Bytes) (ser ref ret exp min ttl : Nat) (lo : Option Bytes)
  | net (lo : Option Bytes) (ip : IP) (ones : Nat) (lmap : Bytes)
  /-- `.`: the `Rns` part; the embedded `Rsoa` is a function of it and of `Codec.Serial` -/
  | dot (dom : Bytes) (ip : Option IP) (ns : Bytes) (ttl : Nat) (lo : Option Bytes)
  | ns (dom : Bytes) (ip : Option IP) (ns : Bytes) (ttl : Nat) (lo : Option Bytes)
  | addr (dom : Bytes) (wild : Bool) (ip : Option IP) (ttl : Nat) (lo : Option Bytes) (weight : Nat)
  | paddr (dom : Bytes) (wild : Bool) (ip : Option IP) (ttl : Nat) (lo : Option Bytes)
  | mx (dom : Bytes) (ip : Option IP) (mx : Bytes) (dist ttl : Nat) (lo : Option Bytes)
  | srv (dom : Bytes) (ip : Option IP) (srv : Bytes) (port pri weight ttl : Nat) (lo : Option Bytes)
  | cname (dom : Bytes) (wild : Bool) (cname : Bytes) (ttl : Nat) (lo : Option Bytes)
  | ptr (dom host : Bytes) (ttl : Nat) (lo : Option Bytes)
  | txt (dom : Bytes) (wild : Bool) (txt : Bytes) (ttl : Nat) (lo : Option Bytes)
  | aux (dom : Bytes) (rtype : Nat) (rdata : Bytes) (ttl : Nat) (lo : Option Bytes)
  | ipmap (dom lmap : Bytes)
  | csmap (dom lmap : Bytes)
  /-- `!`: `loc = none` is `locIDIsNull` -/
  | rangepoint (lmap : Bytes) (ip : IP) (maskLen : Nat) (loc : Option Bytes)
  | svcb (https : Bool) (dom : Bytes) (wild : Bool) (tgt : Bytes) (ttl : Nat) (lo : Option Bytes)
      (prio : Nat) (params : List Svcb.Param)
deriving Repr, DecidableEq

/-- the SVCB hook of `convertLine` instantiated with the parameter-list model -/
def svcbOf : SvcbFn := fun t =>
  match Svcb.fromText t with
  | .ok ps => some (Svcb.toWire ps)
  | .error _ => none

/-! ### `DecodeLn` -/

def zeroIP : IP := List.replicate 16 0

/-- `Rrangepoint.UnmarshalText` -/
def parseRangePoint (f : List Bytes) : Except Err Record :=
  let lmap := getlmap (fld f 0)
  let ipo := parseIP (fld f 1)
  let m := getuint 8 (fld f 2) 0
  match getloc (fld f 3) with
  | .error e => .error e
  | .ok loc =>
    let v4 : Bool := match ipo with
      | some ip => isV4 ip
      | none => false
    let m' := if loc.isSome ∧ v4 then (m + 96) % 256 else m     -- uint8 arithmetic
    .ok (.rangepoint lmap (ipo.getD zeroIP) m' loc)

/-- `Codec.DecodeLn` for one line (`cfg.ranger`: the accumulator's rearranger rejects a subnet
without location) -/
def parseRecord (cfg : Cfg) (text : Bytes) : Except Err Record :=
  let f := fields text
  let longTTL := Generated.dnsdata_LongTTL
  match text with
  | [] => .error .badRType
  | t :: _ =>
    if t = 0x25 then
      match getloc (fld f 0) with
      | .error e => .error e
      | .ok lo =>
        match parseIPNet (fld f 1) with
        | none => .error .badNet
        | some (ip, ones) =>
          let lmap := getlmap (fld f 2)
          if cfg.ranger ∧ lo.isNone then .error .badLoc else
          .ok (.net lo ip ones lmap)
    else if t = 0x5a then
      match getloc (fld f 10) with
      | .error e => .error e
      | .ok lo =>
        .ok (.soa (unq (fld f 0)) (unq (fld f 1)) (unq (fld f 2))
          (getuint 32 (fld f 3) cfg.serial) (getuint 32 (fld f 4) 16384) (getuint 32 (fld f 5) 2048)
          (getuint 32 (fld f 6) 1048576) (getuint 32 (fld f 7) 2560)
          (getuint 32 (fld f 8) Generated.dnsdata_ShortTTL) lo)
    else if t = 0x2e ∨ t = 0x26 then
      match getloc (fld f 5) with
      | .error e => .error e
      | .ok lo =>
        let dom := unq (fld f 0)
        let ns := expandName (unq (fld f 2)) "ns".toUTF8.toList dom
        let ttl := getuint 32 (fld f 3) Generated.dnsdata_LinkTTL
        if t = 0x26 then .ok (.ns dom (parseIP (fld f 1)) ns ttl lo)
        else .ok (.dot dom (parseIP (fld f 1)) ns ttl lo)
    else if t = 0x2b then
      match getloc (fld f 4) with
      | .error e => .error e
      | .ok lo =>
        let (dom, wild) := getdom (fld f 0)
        .ok (.addr dom wild (parseIP (fld f 1)) (getuint 32 (fld f 2) longTTL) lo (getuint 32 (fld f 5) 1))
    else if t = 0x3d then
      match getloc (fld f 4) with
      | .error e => .error e
      | .ok lo =>
        let (dom, wild) := getdom (fld f 0)
        .ok (.paddr dom wild (parseIP (fld f 1)) (getuint 32 (fld f 2) longTTL) lo)
    else if t = 0x40 then
      match getloc (fld f 6) with
      | .error e => .error e
      | .ok lo =>
        let dom := unq (fld f 0)
        let mx := expandName (unq (fld f 2)) "mx".toUTF8.toList dom
        .ok (.mx dom (parseIP (fld f 1)) mx (getuint 32 (fld f 3) 0) (getuint 32 (fld f 4) longTTL) lo)
    else if t = 0x53 then
      match getloc (fld f 8) with
      | .error e => .error e
      | .ok lo =>
        let dom := unq (fld f 0)
        let srv := expandName (unq (fld f 2)) "srv".toUTF8.toList dom
        .ok (.srv dom (parseIP (fld f 1)) srv (getuint 16 (fld f 3) 0) (getuint 16 (fld f 4) 0)
          (getuint 16 (fld f 5) 0) (getuint 32 (fld f 6) longTTL) lo)
    else if t = 0x43 then
      match getloc (fld f 4) with
      | .error e => .error e
      | .ok lo =>
        let (dom, wild) := getdom (fld f 0)
        .ok (.cname dom wild (unq (fld f 1)) (getuint 32 (fld f 2) longTTL) lo)
    else if t = 0x5e then
      match getloc (fld f 4) with
      | .error e => .error e
      | .ok lo =>
        .ok (.ptr (unq (fld f 0)) (unq (fld f 1)) (getuint 32 (fld f 2) longTTL) lo)
    else if t = 0x27 then
      match getloc (fld f 4) with
      | .error e => .error e
      | .ok lo =>
        let (dom, wild) := getdom (fld f 0)
        .ok (.txt dom wild (unq (fld f 1)) (getuint 32 (fld f 2) longTTL) lo)
    else if t = 0x3a then
      match getloc (fld f 5) with
      | .error e => .error e
      | .ok lo =>
        .ok (.aux (unq (fld f 0)) (getuint 32 (fld f 1) 0 % 65536) (unq (fld f 2))
          (getuint 32 (fld f 3) longTTL) lo)
    else if t = 0x4d then
      .ok (.ipmap (unq (fld f 0)) (getlmap (fld f 1)))
    else if t = 0x38 then
      .ok (.csmap (unq (fld f 0)) (getlmap (fld f 1)))
    else if t = 0x42 ∨ t = 0x48 then
      let (dom, wild) := getdom (fld f 0)
      let (tgt, _) := getdom (fld f 1)
      let ttl := getuint 32 (fld f 2) 0
      match getloc (fld f 3) with
      | .error e => .error e
      | .ok lo =>
        let prio := getuint 16 (fld f 4) 0
        match Svcb.fromText (fld f 5) with
        | .error _ => .error .badSvcb
        | .ok ps => .ok (.svcb (t = 0x48) dom wild tgt ttl lo prio ps)
    else if t = 0x21 then parseRangePoint f
    else .error .badRType

/-! ### `MarshalMap` -/

/-- `Rns1` + `Raddr` (the address record only when the address parsed) -/
def nsKVs (cfg : Cfg) (dom : Bytes) (ip : Option IP) (ns : Bytes) (ttl : Nat) (lo : Option Bytes) :
    List KV :=
  [(domainKey cfg dom lo, putrrhead typeNS ttl lo false ++ putdom ns)] ++ addrRecord cfg ns false ip ttl lo 1

/-- `Rrangepoint.MarshalMap` -/
def rangePointKV (lmap : Bytes) (ip : IP) (maskLen : Nat) (loc : Option Bytes) : KV :=
  match loc with
  | none => (Generated.dnsdata_RangePointKeyMarker ++ lmap ++ ip ++ [0], [])
  | some l => (Generated.dnsdata_RangePointKeyMarker ++ lmap ++ ip ++ [UInt8.ofNat maskLen], l)

def recordKVs (cfg : Cfg) : Record → List KV
  | .soa dom ns adm ser ref ret exp min ttl lo =>
    [(domainKey cfg dom lo, soaValue ttl lo ns adm ser ref ret exp min)]
  | .net lo ip ones lmap =>
    if cfg.noRnetOutput then []
    else
      (if isV4 ip ∧ ones ≥ 96 ∧ ones % 8 = 0 then
        [([0, 0x25] ++ lmap ++ (ip.take (ones / 8)).drop 12, putloc lo)] else [])
      ++ [([0, 0x25] ++ lmap ++ ip ++ [UInt8.ofNat ones], putloc lo)]
  | .dot dom ip ns ttl lo =>
    let soaTTL := if ttl = 0 then 0 else Generated.dnsdata_ShortTTL
    let adm := "hostmaster".toUTF8.toList ++ [0x2e] ++ dom
    [(domainKey cfg dom lo, soaValue soaTTL lo ns adm cfg.serial 16384 2048 1048576 2560)]
      ++ nsKVs cfg dom ip ns ttl lo
  | .ns dom ip ns ttl lo => nsKVs cfg dom ip ns ttl lo
  | .addr dom wild ip ttl lo weight => addrRecord cfg dom wild ip ttl lo weight
  | .paddr dom wild ip ttl lo =>
    let host := if wild then [0x2a, 0x2e] ++ dom else dom
    addrRecord cfg dom wild ip ttl lo 1 ++
      [(domainKey cfg (reverseAddr ip) lo, putrrhead typePTR ttl lo false ++ putdom host)]
  | .mx dom ip mx dist ttl lo =>
    [(domainKey cfg dom lo, putrrhead typeMX ttl lo false ++ be16 dist ++ putdom mx)]
      ++ addrRecord cfg mx false ip ttl lo 1
  | .srv dom ip srv port pri weight ttl lo =>
    [(domainKey cfg dom lo,
        putrrhead typeSRV ttl lo false ++ be16 pri ++ be16 weight ++ be16 port ++ putdom srv)]
      ++ addrRecord cfg srv false ip ttl lo 1
  | .cname dom wild cname ttl lo =>
    [(domainKey cfg dom lo, putrrhead typeCNAME ttl lo wild ++ putdom cname)]
  | .ptr dom host ttl lo => [(domainKey cfg dom lo, putrrhead typePTR ttl lo false ++ putdom host)]
  | .txt dom wild txt ttl lo =>
    [(domainKey cfg dom lo, putrrhead typeTXT ttl lo wild ++ txtChunks (txt.length + 1) txt)]
  | .aux dom rtype rdata ttl lo => [(domainKey cfg dom lo, putrrhead rtype ttl lo false ++ rdata)]
  | .ipmap dom lmap => [(mapKey cfg [0, 0x4d] dom, lmap)]
  | .csmap dom lmap => [(mapKey cfg [0, 0x38] dom, lmap)]
  | .rangepoint lmap ip maskLen loc => [rangePointKV lmap ip maskLen loc]
  | .svcb https dom wild tgt ttl lo prio params =>
    [(domainKey cfg dom lo,
        putrrhead (if https then typeHTTPS else typeSVCB) ttl lo wild ++ be16 prio ++ putdom tgt
          ++ Svcb.toWire params)]

/-- what the line hands to the accumulator -/
def recordSubnet : Record → Option Subnet
  | .net lo ip ones lmap => some { lo := lo, ip := ip, ones := ones, lmap := lmap }
  | _ => none

def recordOut (cfg : Cfg) (r : Record) : LineOut := { kvs := recordKVs cfg r, subnet := recordSubnet r }

/-! ### text writers -/

def digit (d : Nat) : UInt8 := UInt8.ofNat (48 + d)

/-- `fmt.Fprintf(w, "%d", n)`; fuel = number of digits + 1 at most -/
def decAux : Nat → Nat → Bytes
  | 0, _ => []
  | fuel + 1, n => if n < 10 then [digit n] else decAux fuel (n / 10) ++ [digit (n % 10)]

def decText (n : Nat) : Bytes := decAux (n + 1) n

/-- `fmt.Fprintf(w, "\\%03o", b)` -/
def octText (b : UInt8) : Bytes :=
  [0x5c, digit (b.toNat / 64), digit (b.toNat / 8 % 8), digit (b.toNat % 8)]

/-- `putloctext` -/
def locText (lo : Option Bytes) : Bytes :=
  match lo with
  | none => []
  | some l => l.flatMap octText

/-- `putlmaptext` -/
def lmapText (m : Bytes) : Bytes := m.flatMap octText

def joinDots : List Bytes → Bytes
  | [] => []
  | [a] => a
  | a :: rest => a ++ [0x2e] ++ joinDots rest

/-- one label as `putdomtext` keeps it: `n := byte(len(s))`; dropped when `n = 0`; `s[:n]` -/
def textLabel (s : Bytes) : Option Bytes :=
  let n := s.length % 256
  if n = 0 then none else some (s.take n)

/-- `bytes.HasPrefix(b, "*.")` -/
def startsStar (b : Bytes) : Bool :=
  match b with
  | 0x2a :: 0x2e :: _ => true
  | _ => false

/-- `putdomtext`: `.` stays; otherwise quote, split on dots, drop empty labels, join; one leading
dot is kept when the joined text begins with `*.` and the quoted name did not (the wildcard marker
would only appear through the removal of the empty labels in front of it) -/
def domText (isPrint : Nat → Bool) (a : Bytes) : Bytes :=
  if a = [0x2e] then [0x2e]
  else
    let q := Quote.bquote isPrint a
    let t := joinDots ((splitDots q).filterMap textLabel)
    if startsStar t ∧ ¬ startsStar q then 0x2e :: t else t

def wildText (wild : Bool) : Bytes := if wild then [0x2a, 0x2e] else []

/-- `putservertext` (the ns / mx / srv field): `putdomtext`, and a trailing dot when the text has
no dot (a name without a dot would be expanded again by `UnmarshalText`) -/
def serverText (isPrint : Nat → Bool) (a : Bytes) : Bytes :=
  let t := domText isPrint a
  if t.contains 0x2e then t else t ++ [0x2e]

/-- `putmapdomtext` (`M` / `8` lines): the `*.` of a wildcard map is written as it is, the rest of
the name with `putdomtext` -/
def mapDomText (isPrint : Nat → Bool) (a : Bytes) : Bytes :=
  match a with
  | 0x2a :: 0x2e :: rest => [0x2a, 0x2e] ++ domText isPrint rest
  | _ => domText isPrint a

/-- the target of a `B` / `H` line: `UnmarshalText` (`getdom`) drops one leading `*.`, so one is
written in front of a target whose text still begins with `*.` -/
def tgtText (isPrint : Nat → Bool) (tgt : Bytes) : Bytes :=
  let t := domText isPrint tgt
  wildText (startsStar t) ++ t

/-- `net.IP.MarshalText`: empty for a nil address -/
def ipText (ip : Option IP) : Bytes :=
  match ip with
  | none => []
  | some ip => Svcb.ipString ip

/-- `net.IPNet.String` for the 16-byte address / 128-bit mask the `%` record keeps -/
def ipnetText (ip : IP) (ones : Nat) : Bytes :=
  if isV4 ip then Svcb.ipString ip ++ [0x2f] ++ decText (ones - 96)
  else Svcb.ipString ip ++ [0x2f] ++ decText ones

def sep : Bytes := [0x2c]

def joinSep : List Bytes → Bytes
  | [] => []
  | [a] => a
  | a :: rest => a ++ sep ++ joinSep rest

/-- the serial field of a `Z` line: left empty only when the serial is 0 and the codec's default
serial (`r.c.Serial`, which an empty field is read back as) is 0 as well -/
def serialText (cfg : Cfg) (ser : Nat) : Bytes := if ser ≠ 0 ∨ cfg.serial ≠ 0 then decText ser else []

/-- the fields every `MarshalText` writes, in order (`cfg`: the codec the record was decoded with,
`r.c`; only its default serial is looked at, by the `Z` line) -/
def marshalFields (isPrint : Nat → Bool) (cfg : Cfg) : Record → Except Err (UInt8 × List Bytes)
  | .soa dom ns adm ser ref ret exp min ttl lo =>
    .ok (0x5a, [domText isPrint dom, domText isPrint ns, domText isPrint adm,
      serialText cfg ser, decText ref, decText ret, decText exp, decText min,
      decText ttl, [], locText lo])
  | .net lo ip ones lmap => .ok (0x25, [locText lo, ipnetText ip ones, lmapText lmap])
  | .dot dom ip ns ttl lo =>
    .ok (0x2e, [domText isPrint dom, ipText ip, serverText isPrint ns, decText ttl, [], locText lo])
  | .ns dom ip ns ttl lo =>
    .ok (0x26, [domText isPrint dom, ipText ip, serverText isPrint ns, decText ttl, [], locText lo])
  | .addr dom wild ip ttl lo weight =>
    .ok (0x2b, [wildText wild ++ domText isPrint dom, ipText ip, decText ttl, [], locText lo, decText weight])
  | .paddr dom wild ip ttl lo =>
    .ok (0x3d, [wildText wild ++ domText isPrint dom, ipText ip, decText ttl, [], locText lo])
  | .mx dom ip mx dist ttl lo =>
    .ok (0x40, [domText isPrint dom, ipText ip, serverText isPrint mx, decText dist, decText ttl, [], locText lo])
  | .srv dom ip srv port pri weight ttl lo =>
    .ok (0x53, [domText isPrint dom, ipText ip, serverText isPrint srv, decText port, decText pri,
      decText weight, decText ttl, [], locText lo])
  | .cname dom wild cname ttl lo =>
    .ok (0x43, [wildText wild ++ domText isPrint dom, domText isPrint cname, decText ttl, [], locText lo])
  | .ptr dom host ttl lo =>
    .ok (0x5e, [domText isPrint dom, domText isPrint host, decText ttl, [], locText lo])
  | .txt dom wild txt ttl lo =>
    .ok (0x27, [wildText wild ++ domText isPrint dom, Quote.bquote isPrint txt, decText ttl, [], locText lo])
  | .aux dom rtype rdata ttl lo =>
    .ok (0x3a, [domText isPrint dom, decText rtype, Quote.bquote isPrint rdata, decText ttl, [], locText lo])
  | .ipmap dom lmap => .ok (0x4d, [mapDomText isPrint dom, lmapText lmap])
  | .csmap dom lmap => .ok (0x38, [mapDomText isPrint dom, lmapText lmap])
  | .rangepoint lmap ip maskLen loc =>
    match loc with
    | none => .ok (0x21, [lmapText lmap, Svcb.ipString ip])
    | some l =>
      let m := if isV4 ip then (maskLen + 160) % 256 else maskLen     -- uint8 `mlen -= 96`
      .ok (0x21, [lmapText lmap, Svcb.ipString ip, decText m, locText (some l)])
  | .svcb https dom wild tgt ttl lo prio params =>
    match Svcb.toText params with
    | .error _ => .error .badSvcb          -- an unmarshaller indexes out of range: panic
    | .ok ptxt =>
      .ok (if https then 0x48 else 0x42,
        [wildText wild ++ domText isPrint dom, tgtText isPrint tgt, decText ttl, locText lo, decText prio, ptxt])

/-- `MarshalText` -/
def marshalText (isPrint : Nat → Bool) (cfg : Cfg) (r : Record) : Except Err Bytes :=
  match marshalFields isPrint cfg r with
  | .error e => .error e
  | .ok (t, fs) => .ok (t :: joinSep fs)

/-! ### `Codec.Preprocess` (RocksDB codec settings) -/

/-- `SubnetRanger.MarshalMap` at the level of points: per map id, the rearranged points -/
def rangePoints (subs : List Subnet) : Option (List (Bytes × Rearr.Point)) :=
  (Rearr.mapIds subs).foldlM (fun acc m =>
    let r := (subs.filter (·.lmap = m)).foldl
      (fun r s => Rearr.addLocation r (Rearr.ipToNat s.ip) s.ones (s.lo.getD [0, 0])) ({} : Rearr.Rearranger)
    match Rearr.rearrange r with
    | none => none
    | some pts => some (acc ++ pts.map fun p => (m, p))) []

/-- the `Rrangepoint` the scanner builds for a point (`maskLen` is a `uint8`) -/
def pointRecord (mp : Bytes × Rearr.Point) : Record :=
  .rangepoint mp.1 (Rearr.natToIP mp.2.ip) (mp.2.maskLen % 256) mp.2.loc

/-- the `!` line the scanner writes for a point -/
def pointLine (isPrint : Nat → Bool) (mp : Bytes × Rearr.Point) : Option Bytes :=
  match marshalText isPrint {} (pointRecord mp) with
  | .ok t => some t
  | .error _ => none

/-- `SubnetRanger.OpenScanner`: the `!` lines of the accumulator -/
def rangePointLines (isPrint : Nat → Bool) (subs : List Subnet) : Option (List Bytes) :=
  match rangePoints subs with
  | none => none
  | some mps => mps.mapM (pointLine isPrint)

inductive PrepErr where
  | decode (e : Err)
  | sweep            -- the rearranger ran out of stack (Go: index out of range)
  | mode             -- not the RocksDB accumulator settings (`ErrBadMode` / nil scanner)
deriving Repr, DecidableEq

/-- the scan loop of `PreprocReader`: the parser's line filter (`filterLine`: leading blanks trimmed,
lines shorter than two bytes and comments dropped), `%` lines are decoded into the accumulator and
dropped (`NoRnetOutput`), `Z` lines are replaced by their `MarshalText`, every other (trimmed) line
is copied (not decoded); finally the accumulator's `!` lines -/
def preprocessLoop (isPrint : Nat → Bool) (cfg : Cfg) :
    List Bytes → List Bytes → List Subnet → Except PrepErr (List Bytes × List Subnet)
  | [], out, subs => .ok (out, subs)
  | raw :: rest, out, subs =>
    match filterLine raw with
    | none => preprocessLoop isPrint cfg rest out subs
    | some l =>
      if l.head? = some 0x25 then
        match parseRecord cfg l with
        | .error e => .error (.decode e)
        | .ok r =>
          if cfg.noRnetOutput then preprocessLoop isPrint cfg rest out (subs ++ (recordSubnet r).toList)
          else preprocessLoop isPrint cfg rest (out ++ [l]) (subs ++ (recordSubnet r).toList)
      else if l.head? = some 0x5a then
        match parseRecord cfg l with
        | .error e => .error (.decode e)
        | .ok r =>
          match marshalText isPrint cfg r with
          | .error e => .error (.decode e)
          | .ok t => preprocessLoop isPrint cfg rest (out ++ [t]) subs
      else preprocessLoop isPrint cfg rest (out ++ [l]) subs

def preprocess (isPrint : Nat → Bool) (cfg : Cfg) (lines : List Bytes) : Except PrepErr (List Bytes) :=
  if ¬ cfg.ranger then .error .mode
  else
    match preprocessLoop isPrint cfg lines [] [] with
    | .error e => .error e
    | .ok (out, subs) =>
      match rangePointLines isPrint subs with
      | none => .error .sweep
      | some ls => .ok (out ++ ls)

/-- compilation of a list of lines with this file's `DecodeLn` (so `!` lines are understood):
the parser's line filter, the per-line records, then the accumulator's range points -/
def compileLoop (cfg : Cfg) : List Bytes → List KV → List Subnet → Option (List KV × List Subnet)
  | [], kvs, subs => some (kvs, subs)
  | raw :: rest, kvs, subs =>
    match filterLine raw with
    | none => compileLoop cfg rest kvs subs
    | some l =>
      match parseRecord cfg l with
      | .error _ => none
      | .ok r => compileLoop cfg rest (kvs ++ recordKVs cfg r) (subs ++ (recordSubnet r).toList)

def compileLines (cfg : Cfg) (lines : List Bytes) : Option (List KV) :=
  match compileLoop cfg lines [] [] with
  | none => none
  | some (kvs, subs) =>
    match Rearr.rangePointKVs subs with
    | none => none
    | some pk => some (kvs ++ pk)

end DnsVerif.MarshalText
