/-
Model of `dnsdata/rearranger.go` (subnets → range points: `AddLocation`, `Rearrange` with its sort,
stack sweep and squash), `dnsdata/subnetranger.go` and `Rrangepoint.MarshalMap`, and of the CDB-side
accumulator (`Accum.updatePrefixSet` / `marshalPrefixSets`). Addresses are 128-bit numbers.
Core Lean only.
-/
import DnsVerif.Model.Codec

namespace DnsVerif.Rearr
open DnsVerif DnsVerif.Codec

def ipToNat (ip : List UInt8) : Nat := ip.foldl (fun acc b => acc * 256 + b.toNat) 0

def natToIP (n : Nat) : List UInt8 :=
  (List.range 16).map fun i => UInt8.ofNat (n / 256 ^ (15 - i) % 256)

def firstIPv4 : Nat := 0xffff * 2 ^ 32
def afterIPv4 : Nat := 2 ^ 48
def veryLastIP : Nat := 2 ^ 128 - 1

inductive Kind where
  | start
  | stop
deriving Repr, DecidableEq

structure Point where
  ip : Nat
  maskLen : Nat
  loc : Option Bytes        -- `none` = `locIDIsNull`
  kind : Kind
deriving Repr, DecidableEq

structure Rearranger where
  hasV4 : Bool := false
  hasV6 : Bool := false
  points : List Point := []
deriving Repr

/-- `AddLocation(ipnet, locID)`; the address is the (already masked) network address, `ones` the
prefix length on the 128-bit scale. A default route is the whole family: `::/0`, and `0.0.0.0/0`
(= `::ffff:0:0/96`); since the repair a longer prefix that merely starts at the first address of its
family (`0.0.0.0/8`, `::/64`) is an ordinary range (before it the tests looked at the address only). -/
def addLocation (r : Rearranger) (ip ones : Nat) (loc : Bytes) : Rearranger :=
  if ip = 0 ∧ ones = 0 then
    { r with hasV6 := true,
             points := r.points ++ [⟨0, ones, some loc, .start⟩, ⟨afterIPv4, ones, some loc, .start⟩] }
  else if ip = firstIPv4 ∧ ones = 96 then
    { r with hasV4 := true,
             points := r.points ++ [⟨firstIPv4, ones, some loc, .start⟩, ⟨afterIPv4, ones, some loc, .stop⟩] }
  else
    let size := 2 ^ (128 - ones)
    let start := ip / size * size            -- ipCleanMask
    let last := start + size - 1             -- ipFillUnmasked
    { r with points := r.points ++ [⟨start, ones, some loc, .start⟩]
        ++ (if last = veryLastIP then [] else [⟨last + 1, ones, none, .stop⟩]) }

/-- `rangeFrom` of an end point: the first address of the range that ends there. The model does not
store it; it is determined by the point: a declared block `[start, start + 2^(128-ones))` ends at
`ip = start + 2^(128-ones)` with `maskLen = ones`, and the only end point with mask length 0 is the
implicit IPv4 null range's (`::/0` has no end point), which starts at `firstIPv4`. -/
def rangeFromOf (p : Point) : Nat :=
  if p.maskLen = 0 then firstIPv4 else p.ip - 2 ^ (128 - p.maskLen)

/-- the comparator of the `sort.Slice` call: `true` = strictly before. Of two end points at one
address the innermost range (the one that starts last) comes first, then the longest prefix (since
the repair; before it only the prefix length was compared, which put the end of an IPv6 block ending
at `afterIPv4` before the end of the implicit IPv4 null range nested in it). -/
def pointLt (a b : Point) : Bool :=
  if a.ip ≠ b.ip then a.ip < b.ip
  else if a.kind ≠ b.kind then a.kind = .stop
  else if a.kind = .start then a.maskLen < b.maskLen
  else if rangeFromOf a ≠ rangeFromOf b then rangeFromOf a > rangeFromOf b
  else a.maskLen > b.maskLen

def insertPoint (p : Point) : List Point → List Point
  | [] => [p]
  | q :: qs => if pointLt p q then p :: q :: qs else q :: insertPoint p qs

/-- `sort.Slice` modelled as a stable insertion sort (ties are points equal in every compared
field, so any sort gives the same sequence up to the order of identical-key points) -/
def sortPoints (ps : List Point) : List Point := ps.foldl (fun acc p => insertPoint p acc) []

/-- the stack sweep: a start pushes its location, an end pops and takes the location (and mask
length) of the enclosing range. `none` = index out of range (Go would panic). -/
def sweep : List Point → List (Nat × Option Bytes) → Option (List Point)
  | [], _ => some []
  | p :: rest, stack =>
    match p.kind with
    | .start =>
      -- `resumesIPv6`: the pseudo start point right after the IPv4 range (the only start points at
      -- `afterIPv4` with mask length 0: `::/0`'s and the implicit one). When a declared IPv6 range
      -- contains the IPv4 range (`stackTop > 0`) that range simply continues: no push (since the
      -- repair; before it the point was pushed like any other and unbalanced the stack)
      if p.ip = afterIPv4 ∧ p.maskLen = 0 ∧ stack.length > 1 then
        match stack with
        | (m, l) :: _ => (sweep rest stack).map ({ p with maskLen := m, loc := l } :: ·)
        | [] => none
      else (sweep rest ((p.maskLen, p.loc) :: stack)).map (p :: ·)
    | .stop =>
      match stack with
      | _ :: (m, l) :: below => (sweep rest ((m, l) :: below)).map ({ p with maskLen := m, loc := l } :: ·)
      | _ => none

/-- squash: of consecutive points with the same address, the later one replaces the earlier when the
earlier's mask length is ≥ the later's, or when the later one is an end point (at one address the end
points come first and only the state after the last of them counts; since the repair - before it an
end point was treated like a start point, which left two points with one key after mask lengths
0, 81, 0) -/
def squash : List Point → List Point → List Point
  | acc, [] => acc.reverse
  | [], p :: rest => squash [p] rest
  | prev :: acc, p :: rest =>
    if prev.ip = p.ip ∧ (prev.maskLen ≥ p.maskLen ∨ p.kind = .stop) then squash (p :: acc) rest
    else squash (p :: prev :: acc) rest

/-- `Rearrange()` -/
def rearrange (r : Rearranger) : Option (List Point) :=
  if r.points.isEmpty then some []
  else
    let implicit4 : List Point :=
      if r.hasV4 then [] else [⟨firstIPv4, 0, none, .start⟩, ⟨afterIPv4, 0, none, .stop⟩]
    let implicit6 : List Point :=
      if r.hasV6 then [] else [⟨0, 0, none, .start⟩, ⟨afterIPv4, 0, none, .start⟩]
    match sweep (sortPoints (r.points ++ implicit4 ++ implicit6)) [] with
    | none => none
    | some swept => some (squash [] swept)

/-- `Rrangepoint.MarshalMap` -/
def pointKV (lmap : Bytes) (p : Point) : KV :=
  match p.loc with
  | none => (Generated.dnsdata_RangePointKeyMarker ++ lmap ++ natToIP p.ip ++ [0], [])
  | some l => (Generated.dnsdata_RangePointKeyMarker ++ lmap ++ natToIP p.ip ++ [UInt8.ofNat p.maskLen], l)

/-- the distinct map ids of a subnet list, in order of first appearance -/
def mapIds (subs : List Subnet) : List Bytes :=
  subs.foldl (fun acc s => if acc.contains s.lmap then acc else acc ++ [s.lmap]) []

/-- `SubnetRanger.MarshalMap`: one rearranger per map. `none` = a sweep ran out of stack. -/
def rangePointKVs (subs : List Subnet) : Option (List KV) :=
  (mapIds subs).foldlM (fun acc m =>
    let r := (subs.filter (·.lmap = m)).foldl
      (fun r s => addLocation r (ipToNat s.ip) s.ones (s.lo.getD [0, 0])) ({} : Rearranger)
    match rearrange r with
    | none => none
    | some pts => some (acc ++ pts.map (pointKV m))) []

/-- `Accum.marshalPrefixSets` (CDB codec): combined, IPv4 and IPv6 prefix-length sets, descending -/
def prefixSetKVs (subs : List Subnet) : List KV :=
  let mk (key : Bytes) (sel : Subnet → Bool) : KV :=
    (key, ((List.range 129).reverse.filter fun n => subs.any fun s => sel s && s.ones = n).map UInt8.ofNat)
  [mk [0, 0x2f] (fun _ => true), mk [0, 0x34] (fun s => Net.isV4 s.ip), mk [0, 0x36] (fun s => !Net.isV4 s.ip)]

end DnsVerif.Rearr
