/-
Model of `metrics/swindow.go` (sliding window: `Add`, the cleaner's tick, `Samples`) and of the
window part of `metrics/stats.go` (`Stats.Get`: sort, min, max, truncated average; all-zero export
for an empty window). Times are abstract clock readings (`Nat`, e.g. microseconds).
Core Lean only.
-/
namespace DnsVerif.Window

structure Sample where
  value : Int
  expires : Nat
deriving Repr, DecidableEq

abbrev Win := List Sample

/-- `Add(v)` at clock `now` with sample lifetime `life` -/
def add (w : Win) (life : Nat) (v : Int) (now : Nat) : Win := w ++ [{ value := v, expires := now + life }]

/-- one cleaner tick at clock `now`: drop the leading samples whose expiry is before `now` -/
def tick (w : Win) (now : Nat) : Win := w.dropWhile fun s => decide (s.expires < now)

/-- `Samples()` -/
def samples (w : Win) : List Int := w.map (·.value)

inductive Ev where
  | add (v : Int) (t : Nat)
  | tick (t : Nat)
deriving Repr, DecidableEq

def Ev.time : Ev → Nat
  | .add _ t => t
  | .tick t => t

def step (life : Nat) (w : Win) : Ev → Win
  | .add v t => add w life v t
  | .tick t => tick w t

def run (life : Nat) (evs : List Ev) : Win := evs.foldl (step life) []

/-! ### Stats.Get for one window -/

/-- insertion sort (Go: `sort.Slice` with `<`; any sort yields the same min/max/sum) -/
def insertSorted (x : Int) : List Int → List Int
  | [] => [x]
  | y :: ys => if x ≤ y then x :: y :: ys else y :: insertSorted x ys

def sortInts (l : List Int) : List Int := l.foldr insertSorted []

structure Export where
  min : Int
  max : Int
  avg : Int
deriving Repr, DecidableEq

/-- the three exported numbers; `sum / int64(len)` truncates toward zero -/
def exportOf (l : List Int) : Export :=
  match sortInts l with
  | [] => { min := 0, max := 0, avg := 0 }
  | x :: xs =>
    let s := x :: xs
    { min := x, max := s.getLast (by simp [s]), avg := Int.tdiv s.sum s.length }

end DnsVerif.Window
