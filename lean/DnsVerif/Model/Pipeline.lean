/-
The data-file pipeline, as pure functions: how a data file (a list of byte lines) becomes the
`Store` the handler model runs on (`compile`: the model codec of every line, the accumulator output
of the backend, the features record) and how the same file becomes the declared `Spec.Zone` the
Spec oracle answers from (`zoneOf`: the codec output decoded back into records / maps / subnets,
independent of the key layout). `Proofs/Pipeline.lean` proves that, for the v1 layouts, the store
`compile` builds holds exactly the rows of the records `zoneOf` declares. Core Lean only (the
driver links it natively).
-/
import DnsVerif.Model.Serve
import DnsVerif.Spec.Answer

namespace DnsVerif.Pipeline
open DnsVerif DnsVerif.Codec DnsVerif.Rearr DnsVerif.Loc DnsVerif.Serve

def serial : Nat := 1700000000

def cfgFor (b : Backend) : Cfg :=
  match b with
  | .cdb _ => { serial := serial }
  | .rdbV1 => { serial := serial, noRnetOutput := true, ranger := true }
  | .rdbV2 => { serial := serial, noRnetOutput := true, ranger := true, useV2Keys := true }

def featuresKV (cfg : Cfg) : KV :=
  (Generated.dnsdata_FeaturesKey, [if cfg.useV2Keys then 2 else 1, 0, 0, 0])

/-- the whole compilation: per-line records, accumulator output, features record -/
def compile (b : Backend) (svcb : SvcbFn) (lines : List Bytes) : Option Store :=
  let cfg := cfgFor b
  let r := lines.foldlM (fun (acc : List KV × List Subnet) raw =>
    match filterLine raw with
    | none => some acc
    | some l =>
      match convertLine cfg svcb l with
      | .error _ => none
      | .ok lo => some (acc.1 ++ lo.kvs, acc.2 ++ lo.subnet.toList)) ([], [])
  match r with
  | none => none
  | some (kvs, subs) =>
    let accKVs : Option (List KV) :=
      match b with
      | .cdb _ => some (prefixSetKVs subs)
      | _ => rangePointKVs subs
    accKVs.map fun a => Store.ofKVs (kvs ++ a ++ [featuresKV cfg])

/-! ### the Spec oracle: records, maps and subnets of the data file, independent of key layout -/

/-- decode one v1-layout (key, value) pair emitted by the codec into an abstract record / map -/
def decodeKV (kv : KV) : Option Spec.Rec × Option Spec.MapDecl :=
  let (k, v) := kv
  match k with
  | 0 :: t :: rest =>
    if (t = 0x4d ∨ t = 0x38) ∧ rest.length ≥ 2 then
      -- map: packed name then '=' or '*'
      let body := rest.take (rest.length - 1)
      match Name.unpack body, rest.getLast? with
      | some ls, some sfx =>
        (none, some { ecs := t = 0x38, owner := ls, wild := sfx = 0x2a, mapID := [v.getD 0 0, v.getD 1 0] })
      | _, _ => (none, none)
    else
      -- location tagged 0,x … or a control key; resource records have a 2-byte location prefix
      match Name.unpack (k.drop 2) with
      | some ls =>
        match extractRR v false, extractRR v true with
        | .row r, _ => (some { owner := ls, wild := false, loc := k.take 2, type := r.qtype, ttl := r.ttl,
                               weight := r.weight, rdata := r.rdata }, none)
        | _, .row r => (some { owner := ls, wild := true, loc := k.take 2, type := r.qtype, ttl := r.ttl,
                               weight := r.weight, rdata := r.rdata }, none)
        | _, _ => (none, none)
      | none => (none, none)
  | _ =>
    match Name.unpack (k.drop 2) with
    | some ls =>
      match extractRR v false, extractRR v true with
      | .row r, _ => (some { owner := ls, wild := false, loc := k.take 2, type := r.qtype, ttl := r.ttl,
                             weight := r.weight, rdata := r.rdata }, none)
      | _, .row r => (some { owner := ls, wild := true, loc := k.take 2, type := r.qtype, ttl := r.ttl,
                             weight := r.weight, rdata := r.rdata }, none)
      | _, _ => (none, none)
    | none => (none, none)

/-- the declared content of a data file (through the v1 / CDB codec configuration) -/
def zoneOf (lines : List Bytes) : Option Spec.Zone :=
  let cfg : Cfg := { serial := serial, noRnetOutput := true }
  let r := lines.foldlM (fun (acc : List KV × List Subnet) raw =>
    match filterLine raw with
    | none => some acc
    | some l =>
      match convertLine cfg (fun _ => none) l with
      | .error _ => none
      | .ok lo => some (acc.1 ++ lo.kvs, acc.2 ++ lo.subnet.toList)) ([], [])
  r.map fun (kvs, subs) =>
    let dec := kvs.map decodeKV
    { recs := dec.filterMap (·.1), maps := dec.filterMap (·.2),
      subnets := subs.map fun s => { mapID := s.lmap, net := ipToNat s.ip, ones := s.ones, loc := s.lo.getD [0, 0] } }

/-- no SVCB parameter parser (`B` / `H` lines are rejected) -/
def noSvcb : SvcbFn := fun _ => none

end DnsVerif.Pipeline
