/-
Model of `dnsdata/quote/quote.go` (`Bquote`, `Bunquote`) together with the parts of Go's
`strconv.Quote`, `strconv.UnquoteChar` and `unicode/utf8` they call.

`strconv.IsPrint` is a *parameter* (`isPrint : Nat → Bool`): the theorems in `Props/C17.lean`
hold for every such predicate; the driver is given Go's real table by the harness.

Core Lean only.
-/
import DnsVerif.Model.Bytes

namespace DnsVerif.Quote

open DnsVerif

/-! ### unicode/utf8 -/

def runeError : Nat := 0xFFFD

def isCont (b : UInt8) : Bool := 0x80 ≤ b.toNat && b.toNat ≤ 0xBF

/-- accept ranges of the second byte (Go's `acceptRanges`) -/
def lo3 (x0 : Nat) : Nat := if x0 = 0xE0 then 0xA0 else 0x80
def hi3 (x0 : Nat) : Nat := if x0 = 0xED then 0x9F else 0xBF
def lo4 (x0 : Nat) : Nat := if x0 = 0xF0 then 0x90 else 0x80
def hi4 (x0 : Nat) : Nat := if x0 = 0xF4 then 0x8F else 0xBF

/-- `utf8.DecodeRune`: `(rune, width)`; `(RuneError, 1)` for every invalid or short sequence,
`(RuneError, 0)` for the empty input. Follows the `first`/`acceptRanges` tables of the Go
implementation: overlong forms, surrogates and values above U+10FFFF are invalid. -/
def decodeRune : Bytes → Nat × Nat
  | [] => (runeError, 0)
  | b0 :: rest =>
    let x0 := b0.toNat
    if x0 < 0x80 then (x0, 1)
    else if 0xC2 ≤ x0 ∧ x0 ≤ 0xDF then
      match rest with
      | b1 :: _ =>
        if isCont b1 then ((x0 - 0xC0) * 64 + (b1.toNat - 0x80), 2) else (runeError, 1)
      | _ => (runeError, 1)
    else if 0xE0 ≤ x0 ∧ x0 ≤ 0xEF then
      match rest with
      | b1 :: b2 :: _ =>
        if lo3 x0 ≤ b1.toNat ∧ b1.toNat ≤ hi3 x0 ∧ isCont b2 then
          ((x0 - 0xE0) * 4096 + (b1.toNat - 0x80) * 64 + (b2.toNat - 0x80), 3)
        else (runeError, 1)
      | _ => (runeError, 1)
    else if 0xF0 ≤ x0 ∧ x0 ≤ 0xF4 then
      match rest with
      | b1 :: b2 :: b3 :: _ =>
        if lo4 x0 ≤ b1.toNat ∧ b1.toNat ≤ hi4 x0 ∧ isCont b2 ∧ isCont b3 then
          ((x0 - 0xF0) * 262144 + (b1.toNat - 0x80) * 4096 + (b2.toNat - 0x80) * 64
            + (b3.toNat - 0x80), 4)
        else (runeError, 1)
      | _ => (runeError, 1)
    else (runeError, 1)

/-- `utf8.ValidRune` -/
def validRune (r : Nat) : Bool := r < 0xD800 || (0xE000 ≤ r && r ≤ 0x10FFFF)

/-- `utf8.AppendRune` / `utf8.EncodeRune` (invalid runes encode as U+FFFD). -/
def encodeRune (r : Nat) : Bytes :=
  if r < 0x80 then [UInt8.ofNat r]
  else if r < 0x800 then [UInt8.ofNat (0xC0 + r / 64), UInt8.ofNat (0x80 + r % 64)]
  else if ¬ validRune r then [0xEF, 0xBF, 0xBD]
  else if r < 0x10000 then
    [UInt8.ofNat (0xE0 + r / 4096), UInt8.ofNat (0x80 + r / 64 % 64), UInt8.ofNat (0x80 + r % 64)]
  else
    [UInt8.ofNat (0xF0 + r / 262144), UInt8.ofNat (0x80 + r / 4096 % 64),
     UInt8.ofNat (0x80 + r / 64 % 64), UInt8.ofNat (0x80 + r % 64)]

/-! ### strconv.Quote -/

/-- `lowerhex[n]` for `n < 16` -/
def lowerhex (n : Nat) : UInt8 :=
  if n < 10 then UInt8.ofNat (48 + n) else UInt8.ofNat (87 + n)

def bslash : UInt8 := 0x5c
def dquote : UInt8 := 0x22

/-- `appendEscapedRune(buf, r, '"', false, false)` -/
def escapedRune (isPrint : Nat → Bool) (r : Nat) : Bytes :=
  if r = 0x22 ∨ r = 0x5c then [bslash, UInt8.ofNat r]
  else if isPrint r then encodeRune r
  else if r = 7 then [bslash, 0x61]        -- \a
  else if r = 8 then [bslash, 0x62]        -- \b
  else if r = 12 then [bslash, 0x66]       -- \f
  else if r = 10 then [bslash, 0x6e]       -- \n
  else if r = 13 then [bslash, 0x72]       -- \r
  else if r = 9 then [bslash, 0x74]        -- \t
  else if r = 11 then [bslash, 0x76]       -- \v
  else if r < 0x20 ∨ r = 0x7f then [bslash, 0x78, lowerhex (r / 16), lowerhex (r % 16)]
  else
    let r := if validRune r then r else runeError
    if r < 0x10000 then
      [bslash, 0x75, lowerhex (r / 4096 % 16), lowerhex (r / 256 % 16), lowerhex (r / 16 % 16),
       lowerhex (r % 16)]
    else
      [bslash, 0x55, lowerhex (r / 268435456 % 16), lowerhex (r / 16777216 % 16),
       lowerhex (r / 1048576 % 16), lowerhex (r / 65536 % 16), lowerhex (r / 4096 % 16),
       lowerhex (r / 256 % 16), lowerhex (r / 16 % 16), lowerhex (r % 16)]

/-- One iteration of the loop of `appendQuotedWith`: the escaped token for the rune at the head of
`s` and the number of input bytes it consumed (`s` non-empty). -/
def quoteStep (isPrint : Nat → Bool) (s : Bytes) : Bytes × Nat :=
  match s with
  | [] => ([], 0)
  | b0 :: _ =>
    let (r, width) := if b0.toNat < 0x80 then (b0.toNat, 1) else decodeRune s
    if width = 1 ∧ r = runeError then
      ([bslash, 0x78, lowerhex (b0.toNat / 16), lowerhex (b0.toNat % 16)], 1)
    else (escapedRune isPrint r, width)

/-- Body of `strconv.Quote` without the surrounding quote characters. Fuel = number of bytes. -/
def quoteBody (isPrint : Nat → Bool) : Nat → Bytes → Bytes
  | 0, _ => []
  | _, [] => []
  | fuel + 1, s =>
    let (tok, w) := quoteStep isPrint s
    tok ++ quoteBody isPrint fuel (s.drop w)

def strconvQuote (isPrint : Nat → Bool) (s : Bytes) : Bytes :=
  [dquote] ++ quoteBody isPrint s.length s ++ [dquote]

/-! ### bytes.ReplaceAll for the three patterns used by `Bquote` -/

/-- `bytes.ReplaceAll(s, [c], rep)` for a one-byte pattern. -/
def replaceByte (c : UInt8) (rep : Bytes) : Bytes → Bytes
  | [] => []
  | x :: xs => (if x = c then rep else [x]) ++ replaceByte c rep xs

/-- `bytes.ReplaceAll(s, []byte{a, b}, rep)`: leftmost, non-overlapping matches. -/
def replacePair (a b : UInt8) (rep : Bytes) : Bytes → Bytes
  | [] => []
  | [x] => [x]
  | x :: y :: rest =>
    if x = a ∧ y = b then rep ++ replacePair a b rep rest
    else x :: replacePair a b rep (y :: rest)

/-- `Bquote` -/
def bquote (isPrint : Nat → Bool) (b : Bytes) : Bytes :=
  let s := strconvQuote isPrint b
  let s := replaceByte 0x2c [bslash, 0x30, 0x35, 0x34] s     -- ","  -> \054
  let s := replaceByte 0x3a [bslash, 0x30, 0x37, 0x32] s     -- ":"  -> \072
  if s.length < 2 then b
  else
    let s := (s.drop 1).take (s.length - 2)
    replacePair bslash dquote [dquote] s

/-! ### strconv.UnquoteChar(s, 0) and Bunquote -/

inductive Err where
  | syntax
  | fuel
deriving DecidableEq, Repr

def unhex (b : UInt8) : Option Nat :=
  let c := b.toNat
  if 48 ≤ c ∧ c ≤ 57 then some (c - 48)
  else if 97 ≤ c ∧ c ≤ 102 then some (c - 87)
  else if 65 ≤ c ∧ c ≤ 70 then some (c - 55)
  else none

/-- Parse exactly `n` hex digits. -/
def hexN : Nat → Nat → Bytes → Option (Nat × Bytes)
  | 0, acc, s => some (acc, s)
  | _ + 1, _, [] => none
  | n + 1, acc, b :: s =>
    match unhex b with
    | some x => hexN n (acc * 16 + x) s
    | none => none

/-- The escape dispatcher of `strconv.UnquoteChar` (the byte after the backslash is `k`). -/
def unquoteEsc (k : Nat) (s : Bytes) : Except Err (Nat × Bool × Bytes) :=
  if k = 0x61 then .ok (7, false, s)
  else if k = 0x62 then .ok (8, false, s)
  else if k = 0x66 then .ok (12, false, s)
  else if k = 0x6e then .ok (10, false, s)
  else if k = 0x72 then .ok (13, false, s)
  else if k = 0x74 then .ok (9, false, s)
  else if k = 0x76 then .ok (11, false, s)
  else if k = 0x78 then
    match hexN 2 0 s with
    | some (v, t) => .ok (v, false, t)
    | none => .error .syntax
  else if k = 0x75 then
    match hexN 4 0 s with
    | some (v, t) => if validRune v then .ok (v, true, t) else .error .syntax
    | none => .error .syntax
  else if k = 0x55 then
    match hexN 8 0 s with
    | some (v, t) => if validRune v then .ok (v, true, t) else .error .syntax
    | none => .error .syntax
  else if 0x30 ≤ k ∧ k ≤ 0x37 then
    match s with
    | d1 :: d2 :: t =>
      if 0x30 ≤ d1.toNat ∧ d1.toNat ≤ 0x37 ∧ 0x30 ≤ d2.toNat ∧ d2.toNat ≤ 0x37 then
        let v := ((k - 0x30) * 8 + (d1.toNat - 0x30)) * 8 + (d2.toNat - 0x30)
        if v > 255 then .error .syntax else .ok (v, false, t)
      else .error .syntax
    | _ => .error .syntax
  else if k = 0x5c then .ok (0x5c, false, s)
  else .error .syntax     -- includes \' and \" (quote = 0)

/-- `strconv.UnquoteChar(s, 0)`: `(value, multibyte, tail)` -/
def unquoteChar (s : Bytes) : Except Err (Nat × Bool × Bytes) :=
  match s with
  | [] => .error .syntax
  | c :: rest =>
    if 0x80 ≤ c.toNat then
      let (r, size) := decodeRune s
      .ok (r, true, s.drop size)
    else if c ≠ bslash then .ok (c.toNat, false, rest)
    else
      match rest with
      | [] => .error .syntax
      | k :: s => unquoteEsc k.toNat s

/-- The loop of `Bunquote`. -/
def unquoteLoop : Nat → Bytes → Bytes → Except Err Bytes
  | _, [], acc => .ok acc
  | 0, _ :: _, _ => .error .fuel
  | fuel + 1, s, acc =>
    match unquoteChar s with
    | .error e => .error e
    | .ok (c, multibyte, tail) =>
      if c < 0x80 ∨ ¬ multibyte then unquoteLoop fuel tail (acc ++ [UInt8.ofNat c])
      else unquoteLoop fuel tail (acc ++ encodeRune c)

/-- `Bunquote` -/
def bunquote (b : Bytes) : Except Err Bytes :=
  if b.isEmpty then .ok b
  else if ¬ b.contains bslash then .ok b
  else unquoteLoop b.length b []

end DnsVerif.Quote
