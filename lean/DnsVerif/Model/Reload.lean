/-
Model of generation switching (C05): `FBDNSDB.Reload` / `AcquireReader` (`dnsserver/db.go`),
`db.DB.Reload` (`db/db.go`), `rdbdriver.Reload` / `cdbdriver.Reload`, and the database reads of one
`ServeDNSWithRCODE` call (`dnsserver/handler.go`).

What is transcribed

* A *backend instance* is one open `DBI` (a CDB mmap or one RocksDB secondary instance). The
  content a reader sees through an instance is summarised by a generation number `gen`.
  `db.NewReader` pins the `*db.DB` it was created from, i.e. one instance, for the whole query
  (`handler.go`: `acquireReaderGen` at entry, `defer reader.Close()`).
* `FBDNSDB.Reload` holds `reloadMu.Lock()` from before it reads `h.dbConfig.Path` until it returns;
  `acquireReaderGen` holds `reloadMu.RLock()` around `db.NewReader(h.dnsdb)`. So `qstart` (pin the
  served instance) and `reload` are atomic with respect to each other: each is ONE step here.
  The database reads of a query (`FindLocation`, `IsAuthoritative`, `FindAnswer`, `FindSOA`/`GetNs`,
  additional section) take no `reloadMu`; each is a `qread` step which may interleave anywhere,
  including in the middle of a reload (in the model: before or after the atomic reload step, which
  is the same thing because the only effect of a reload a reader can see — the content of its
  pinned instance changing — happens at one point, `CatchWithPrimary`).
* A `qread` is a *fetch from the backend*. The RocksDB reader keeps every fetched key in its
  per-request `rdb.Context.cache`; a second lookup of the same key inside one query (e.g.
  `FindAnswer` after `IsAuthoritative` already fetched the qname's key) is served from there and is
  not a new read. Different keys are fetched independently — each sees the content at its own time.
* `cdbdriver.Reload(path)` always opens the file again: a new instance with the content now on disk.
  `rdbdriver.Reload(path)`: `path == r.path` ⇒ `CatchWithPrimary()` on the SAME open instance — the
  content under every reader of that instance changes in place — and the same `DBI` is returned;
  other path ⇒ a new secondary instance is opened. Note the comparison is with the path of the
  served *instance*; a full reload naming the path already served is a catch-up too.
* `db.DB.Reload`: error from the driver ⇒ old DB; validation key missing ⇒ old DB (a freshly opened
  instance is destroyed; after a catch-up the instance *is* the old DB and **stays caught up**);
  timeout ⇒ old DB (a freshly opened instance is closed by the goroutine when it arrives; a
  catch-up keeps running and completes — modelled as completing within the step).
* `FBDNSDB.Reload` on success: `h.dnsdb = newDB; h.dbConfig.Path = newPath`; on error nothing.
* `publish path g` is the environment: the file / the RocksDB primary at `path` now holds `g`.

Not modelled: the response cache (C12), reference counts and closing (C06), the control-directory
watcher. Core Lean only.
-/
namespace DnsVerif.Reload

inductive Backend where
  | cdb | rdb
deriving Repr, DecidableEq

/-- one open backend instance -/
structure Inst where
  path : Nat
  gen : Nat
  /-- ghost: number of in-place catch-ups this instance received -/
  catchups : Nat := 0
deriving Repr, DecidableEq

structure Query where
  /-- the pinned instance -/
  inst : Nat
  /-- ghost: content generation of the pinned instance when it was pinned -/
  startGen : Nat
  /-- generations observed by the database reads so far, oldest first -/
  reads : List Nat := []
  done : Bool := false
deriving Repr, DecidableEq

structure Srv where
  backend : Backend
  /-- generation on disk per path; `none` = no database there -/
  disk : Nat → Option Nat
  insts : Nat → Inst
  ninst : Nat
  /-- `h.dnsdb` -/
  served : Nat
  /-- `h.dbConfig.Path` -/
  path : Nat
  queries : Nat → Query
  nq : Nat

inductive Kind where
  | full (p : Nat)
  | part
deriving Repr, DecidableEq

inductive Outcome where
  | ok | missingPath | openError | validationKeyMissing | timeout
deriving Repr, DecidableEq

inductive Step where
  | qstart
  | qread (i : Nat)
  | qfinish (i : Nat)
  | reload (k : Kind) (o : Outcome)
  | publish (p g : Nat)
deriving Repr, DecidableEq

/-- the server after `Load()` of `path`, which holds generation `g`; other paths per `disk` -/
def init (b : Backend) (disk : Nat → Option Nat) (path g : Nat) : Srv :=
  { backend := b
    disk := fun p => if p = path then some g else disk p
    insts := fun _ => { path := path, gen := g }
    ninst := 1, served := 0, path := path
    queries := fun _ => { inst := 0, startGen := g }, nq := 0 }

def setAt {α} (f : Nat → α) (i : Nat) (v : α) : Nat → α := fun j => if j = i then v else f j

@[simp] theorem setAt_same {α} (f : Nat → α) (i : Nat) (v : α) : setAt f i v i = v := by
  simp [setAt]

theorem setAt_other {α} (f : Nat → α) (i j : Nat) (v : α) (h : j ≠ i) : setAt f i v j = f j := by
  simp [setAt, h]

def servedGen (s : Srv) : Nat := (s.insts s.served).gen

/-- `newPath` in `FBDNSDB.Reload` -/
def target (s : Srv) : Kind → Nat
  | .full p => p
  | .part => s.path

/-- `rdbdriver.Reload`: `path == r.path` on the served instance -/
def isCatchup (s : Srv) (k : Kind) : Bool :=
  s.backend = .rdb && target s k == (s.insts s.served).path

/-- `CatchWithPrimary` on the served instance: its content becomes what is on disk now -/
def catchupServed (s : Srv) (d : Nat) : Srv :=
  let i := s.insts s.served
  { s with insts := setAt s.insts s.served { i with gen := d, catchups := i.catchups + 1 } }

/-- open a new instance on `p` (content `d`) and make it the served one -/
def switchTo (s : Srv) (p d : Nat) : Srv :=
  { s with insts := setAt s.insts s.ninst { path := p, gen := d }
           ninst := s.ninst + 1, served := s.ninst, path := p }

def reload (s : Srv) (k : Kind) (o : Outcome) : Srv :=
  let p := target s k
  match s.disk p with
  | none => s                       -- nothing there: open / catch-up fails whatever the label
  | some d =>
    if isCatchup s k then
      match o with
      | .ok => { catchupServed s d with path := p }
      | .validationKeyMissing => catchupServed s d   -- reload "fails", content already advanced
      | .timeout => catchupServed s d                -- the goroutine finishes the catch-up
      | .missingPath => s
      | .openError => s
    else
      match o with
      | .ok => switchTo s p d
      | _ => s                      -- the new instance, if any, is closed again

/-- does this reload step return `nil`? -/
def succeeds (s : Srv) (k : Kind) (o : Outcome) : Bool :=
  o = .ok && (s.disk (target s k)).isSome

def step (s : Srv) : Step → Srv
  | .qstart =>
    { s with queries := setAt s.queries s.nq { inst := s.served, startGen := servedGen s }
             nq := s.nq + 1 }
  | .qread i =>
    let q := s.queries i
    if i < s.nq ∧ q.done = false then
      { s with queries := setAt s.queries i { q with reads := q.reads ++ [(s.insts q.inst).gen] } }
    else s
  | .qfinish i =>
    let q := s.queries i
    if i < s.nq then { s with queries := setAt s.queries i { q with done := true } } else s
  | .reload k o => reload s k o
  | .publish p g => { s with disk := fun x => if x = p then some g else s.disk x }

def run (s : Srv) (steps : List Step) : Srv := steps.foldl step s

/-- one step of an operator who only moves forward: a publish never lowers the generation at a
path, and a successful reload never installs a generation below the served one -/
def fwd1 (s : Srv) : Step → Bool
  | .publish p g => (match s.disk p with | some d => decide (d ≤ g) | none => true)
  | .reload k o =>
    (match o with
     | .ok => (match s.disk (target s k) with | some d => decide (servedGen s ≤ d) | none => true)
     | _ => true)
  | _ => true

def forward (s : Srv) : List Step → Bool
  | [] => true
  | st :: rest => fwd1 s st && forward (step s st) rest

/-- only query steps -/
def quiet : List Step → Bool
  | [] => true
  | .qstart :: r => quiet r
  | .qread _ :: r => quiet r
  | .qfinish _ :: r => quiet r
  | _ :: _ => false

/-- a reload whose failure is not a no-op: the in-place catch-up has happened (or will complete)
although `Reload` returns an error -/
def lateEffect (s : Srv) (k : Kind) (o : Outcome) : Bool :=
  isCatchup s k && (o = .validationKeyMissing || o = .timeout)

/-- every in-place catch-up in the schedule finds no unfinished query on the served instance -/
def quiescentCatchups (s : Srv) : List Step → Bool
  | [] => true
  | st :: rest =>
    (match st with
     | .reload k _ =>
        !isCatchup s k || (List.range s.nq).all fun i =>
          (s.queries i).done || (s.queries i).inst != s.served
     | _ => true) && quiescentCatchups (step s st) rest

def allEq : List Nat → Bool
  | [] => true
  | a :: r => r.all (· == a)

/-- path of the last successful full reload, `p0` if there was none -/
def lastSwitch (s : Srv) (p0 : Nat) : List Step → Nat
  | [] => p0
  | st :: rest =>
    match st with
    | .reload (.full p) o => lastSwitch (step s st) (if succeeds s (.full p) o then p else p0) rest
    | _ => lastSwitch (step s st) p0 rest

end DnsVerif.Reload
