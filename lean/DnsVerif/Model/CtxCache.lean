/-
The per-request context cache of the RocksDB reader (`dnsdata/rdb/rdb.go`): `Context.cache`,
`RDB.get`, `RDB.FindClosest`, `Context.update`, over the abstract store of `Model/Store.lean`.
Core Lean only.

Go                                            model
--------------------------------------------  ---------------------------------------------------
`map[string]contextCacheEntry`                association list, newest binding first (`lookup` takes
                                              the first binding of a key, `set` conses: an assignment
                                              to a Go map overwrites)
`contextCacheEntry{key, data}`                `Entry` (`data` = the row's values; Go holds them as one
                                              length-prefixed byte string, `ReadNextChunk` splits it)
`rdb.db.Get` of a key that does not exist     `[]`  (cgo-rocksdb `Get` returns a nil slice, no error;
                                              a nil/empty value and "no values" are the same thing to
                                              every caller: `ReadNextChunk` gives `io.EOF` on both)
`iter.SeekForPrev(k)`, iterator not valid     `none`: `FindClosest` returns `(nil, nil, iter.GetError())`
                                              and stores NOTHING in the cache
RocksDB errors (`Get` error, iterator error)  not modelled (no lookup fails)

A context lives for exactly one request: `db.NewReader` (one per `ServeDNSWithRCODE`) calls
`rdbdriver.NewContext`, `Reader.Close` → `FreeContext` → `Context.Reset`, which is empty; no
context is ever reused.
-/
import DnsVerif.Model.Store

namespace DnsVerif.CtxCache
open DnsVerif DnsVerif.Rdb

/-- `contextCacheEntry` -/
structure Entry where
  key : Bytes
  data : List Bytes
deriving DecidableEq, Repr

/-- `Context.cache` : search key ↦ (found key, data) -/
abbrev Cache := List (Bytes × Entry)

/-- `ctx.cache[string(k)]` (value, ok) -/
def lookup (c : Cache) (k : Bytes) : Option Entry := (c.find? (·.1 = k)).map (·.2)

/-- `ctx.cache[string(k)] = e` -/
def set (c : Cache) (k : Bytes) (e : Entry) : Cache := (k, e) :: c

/-- `Context.update(searchKey, foundKey, data)`: the entry is stored under the search key and,
when the found key is a different one, under the found key as well -/
def cupdate (c : Cache) (searchKey foundKey : Bytes) (data : List Bytes) : Cache :=
  let e : Entry := ⟨foundKey, data⟩
  let c1 := set c searchKey e
  if searchKey ≠ foundKey then set c1 foundKey e else c1

/-- `RDB.get(key, ctx)`: the data of exactly this key (`[]` = Go's nil: no such key).
A cached entry whose found key is another key (stored by `FindClosest` under its search key) means
"this key does not exist". A miss asks the database and caches the answer under the key ITSELF,
also when the key does not exist (`ctx.update(key, key, nil)`). -/
def cget (s : Store) (c : Cache) (k : Bytes) : Cache × List Bytes :=
  match lookup c k with
  | some e => (c, if e.key = k then e.data else [])
  | none =>
    let d := s.get k
    (cupdate c k k d, d)

/-- `RDB.get` called by a caller that REUSES its key buffer: `get` stores the caller's slice in the
entry (`ctx.update(key, key, data)`, no copy), so on a miss the entry's key reads as whatever the
caller writes into that buffer afterwards (`k'`). `sortedDataReader.ForEachResourceRecord` does
this: it looks up `marker ++ name ++ location`, then overwrites the location bytes in place with
`00 00` and looks that key up. (`FindClosest` is not affected: the map key is a string copy and
the entry's key is the iterator's own copy.) -/
def cgetReused (s : Store) (c : Cache) (k k' : Bytes) : Cache × List Bytes :=
  match lookup c k with
  | some e => (c, if e.key = k then e.data else [])
  | none =>
    let d := s.get k
    (set c k ⟨k', d⟩, d)

/-- `RDB.FindClosest(key, ctx)`: a cached entry under the search key is returned as it is, whoever
stored it; otherwise `SeekForPrev`, and a valid position is cached. -/
def cfindClosest (s : Store) (c : Cache) (k : Bytes) : Cache × Option (Bytes × List Bytes) :=
  match lookup c k with
  | some e => (c, some (e.key, e.data))
  | none =>
    match s.seekForPrev k with
    | none => (c, none)
    | some (f, d) => (cupdate c k f d, some (f, d))

/-! ### sequences of lookups through one context -/

inductive Lookup where
  /-- `RDB.Find` / `RDB.ForEach` → `RDB.get` -/
  | exact (k : Bytes)
  /-- `RDB.FindClosest` -/
  | closest (k : Bytes)
  /-- an exact lookup whose caller afterwards overwrites its key buffer with `k'` (`cgetReused`) -/
  | exactReused (k k' : Bytes)
deriving DecidableEq, Repr

inductive Result where
  /-- what `get` returns -/
  | data (d : List Bytes)
  /-- what `FindClosest` returns: found key and its data -/
  | found (k : Bytes) (d : List Bytes)
  /-- `FindClosest` with no key `≤` the search key: `(nil, nil)` -/
  | invalid
deriving DecidableEq, Repr

def Lookup.key : Lookup → Bytes
  | .exact k => k
  | .closest k => k
  | .exactReused k _ => k

/-- the caller leaves its key buffer alone after the call -/
def Lookup.plain : Lookup → Bool
  | .exactReused _ _ => false
  | _ => true

/-- `(nil, nil)` or found key and data -/
def Result.ofClosest : Option (Bytes × List Bytes) → Result
  | some (f, d) => .found f d
  | none => .invalid

def step (s : Store) (c : Cache) : Lookup → Cache × Result
  | .exact k => ((cget s c k).1, .data (cget s c k).2)
  | .exactReused k k' => ((cgetReused s c k k').1, .data (cgetReused s c k k').2)
  | .closest k => ((cfindClosest s c k).1, .ofClosest (cfindClosest s c k).2)

/-- the results of a sequence of lookups issued through one context, starting from cache `c` -/
def runFrom (s : Store) : Cache → List Lookup → List Result
  | _, [] => []
  | c, l :: ls => let (c', r) := step s c l; r :: runFrom s c' ls

/-- … through one FRESH context (`NewContext`) -/
def runCached (s : Store) (ls : List Lookup) : List Result := runFrom s [] ls

/-- the uncached result: the lookup through a fresh context of its own -/
def uncached (s : Store) (l : Lookup) : Result := (step s [] l).2

def runUncached (s : Store) (ls : List Lookup) : List Result := ls.map (uncached s)

/-! ### `sortedDataReader.TryForEach` on the cache

`FindClosestKey(key)`, then `ForEach(key)` when the found key is the key itself. Result: the found
key and the rows handed to the callback. -/

def ctryForEach (s : Store) (c : Cache) (k : Bytes) : Cache × Option Bytes × List Bytes :=
  match cfindClosest s c k with
  | (c1, none) => (c1, none, [])
  | (c1, some (f, _)) =>
    if f = k then
      let (c2, d) := cget s c1 k
      (c2, some f, d)
    else (c1, some f, [])

/-- the same on the store (this is `tryForEach` of `Serve.findGo`) -/
def tryForEach (s : Store) (k : Bytes) : Option Bytes × List Bytes :=
  match s.seekForPrev k with
  | none => (none, [])
  | some (f, d) => if f = k then (some f, d) else (some f, [])

/-! ### the proposed repair

`FindClosest` takes a cached entry only when it has data (an entry without data is what `get` stored
for a key that does not exist; the iterator never delivers one), and `get` stores a COPY of the
caller's key. -/

def cfindClosestR (s : Store) (c : Cache) (k : Bytes) : Cache × Option (Bytes × List Bytes) :=
  let seek : Cache × Option (Bytes × List Bytes) :=
    match s.seekForPrev k with
    | none => (c, none)
    | some (f, d) => (cupdate c k f d, some (f, d))
  match lookup c k with
  | some e => if e.data ≠ [] then (c, some (e.key, e.data)) else seek
  | none => seek

def stepR (s : Store) (c : Cache) : Lookup → Cache × Result
  | .exact k => ((cget s c k).1, .data (cget s c k).2)
  | .exactReused k _ => ((cget s c k).1, .data (cget s c k).2)   -- the entry holds a copy of the key
  | .closest k => ((cfindClosestR s c k).1, .ofClosest (cfindClosestR s c k).2)

def runFromR (s : Store) : Cache → List Lookup → List Result
  | _, [] => []
  | c, l :: ls => (stepR s c l).2 :: runFromR s (stepR s c l).1 ls

def runCachedR (s : Store) (ls : List Lookup) : List Result := runFromR s [] ls

end DnsVerif.CtxCache
