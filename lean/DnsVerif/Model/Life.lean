/-
Model of the backend life cycle (C06): `db.DB` reference counting (`NewReader`, `Reader.Close`,
`Destroy`), `db.DB.Reload` (reload goroutine, timeout branch, `destroyNewDbi` handshake, validation
key), `FBDNSDB.Reload/AcquireReader/Close` (`dnsserver/db.go`).

A *backend* is a `DBI` (an open CDB mmap or RocksDB handle); a *wrapper* is a `*db.DB`.
Opening/closing/using a backend are the observable events. Core Lean only.
-/
namespace DnsVerif.Life

structure Backend where
  closes : Nat := 0      -- number of `Close()` calls received
  badUses : Nat := 0     -- calls received while already closed
deriving Repr, DecidableEq

def Backend.isOpen (b : Backend) : Bool := b.closes = 0

structure Wrapper where
  dbi : Nat              -- index of the backend
  refCount : Nat := 0
  destroyable : Bool := false
deriving Repr, DecidableEq

/-- what a reload goroutine that outlived its timeout will eventually return -/
inductive Late where
  | new      -- a freshly opened backend
  | same     -- the backend it was called on (RocksDB catch-up)
  | fail     -- (nil, error)
deriving Repr, DecidableEq

structure Pending where
  on : Nat               -- backend whose `Reload` method is still running
  w : Nat                -- the wrapper (`*db.DB`) the goroutine holds a reference on
  kind : Late
deriving Repr, DecidableEq

structure St where
  backends : List Backend := [{}]
  wrappers : List Wrapper := [{ dbi := 0 }]
  served : Nat := 0                 -- `h.dnsdb`
  readers : List Nat := []          -- live readers, each holding a wrapper index
  pending : List Pending := []      -- timed-out reload goroutines still running
  down : Bool := false
deriving Repr, DecidableEq

inductive Op where
  | acquire
  | use (i : Nat)
  | release (i : Nat)
  | reloadNewOk
  | reloadSameOk
  | reloadOpenError
  | reloadValFailNew
  | reloadValFailSame
  | reloadTimeoutDoneNew        -- goroutine already returned a new backend, timeout branch taken
  | reloadTimeoutPending (k : Late)
  | lateComplete                -- the oldest pending goroutine returns
  | shutdown
deriving Repr, DecidableEq

/-! ### primitive effects -/

def modifyAt {α} (l : List α) (i : Nat) (f : α → α) : List α :=
  match l[i]? with
  | some a => l.set i (f a)
  | none => l

/-- any call on backend `b` other than `Close` -/
def touch (s : St) (b : Nat) : St :=
  { s with backends := modifyAt s.backends b fun x =>
      if x.isOpen then x else { x with badUses := x.badUses + 1 } }

/-- `dbi.Close()` -/
def closeBackend (s : St) (b : Nat) : St :=
  { s with backends := modifyAt s.backends b fun x => { x with closes := x.closes + 1 } }

/-- open a new backend, returns its index -/
def openBackend (s : St) : St × Nat :=
  ({ s with backends := s.backends ++ [{}] }, s.backends.length)

def wrapperDbi (s : St) (w : Nat) : Nat := (s.wrappers[w]?.map (·.dbi)).getD 0

/-- `(*DB).Destroy` -/
def destroy (s : St) (w : Nat) : St :=
  match s.wrappers[w]? with
  | none => s
  | some wr =>
    let s1 := { s with wrappers := s.wrappers.set w { wr with destroyable := true } }
    if wr.refCount = 0 then closeBackend s1 wr.dbi else s1

/-- `NewReader(w)`: refCount++, `dbi.NewContext()` -/
def newReader (s : St) (w : Nat) : St :=
  match s.wrappers[w]? with
  | none => s
  | some wr =>
    touch { s with wrappers := s.wrappers.set w { wr with refCount := wr.refCount + 1 } } wr.dbi

/-- `(*DB).unref`: drop one reference; the last reference to a destroyed wrapper closes it -/
def unref (s : St) (w : Nat) : St :=
  match s.wrappers[w]? with
  | none => s
  | some wr =>
    let rc := wr.refCount - 1
    let s1 := { s with wrappers := s.wrappers.set w { wr with refCount := rc } }
    if wr.destroyable ∧ rc = 0 then closeBackend s1 wr.dbi else s1

/-- the reference `DB.Reload` takes for its goroutine before starting it -/
def pin (s : St) (w : Nat) : St :=
  match s.wrappers[w]? with
  | none => s
  | some wr => { s with wrappers := s.wrappers.set w { wr with refCount := wr.refCount + 1 } }

/-- `Reader.Close()`: `FreeContext`, refCount--, close when destroyable and last -/
def closeReader (s : St) (w : Nat) : St :=
  match s.wrappers[w]? with
  | none => s
  | some wr =>
    unref (touch s wr.dbi) w

/-- `ValidateDbKey` on a wrapper: reader, one `ForEach`, close reader -/
def validate (s : St) (w : Nat) : St :=
  let s1 := newReader s w
  let s2 := touch s1 (wrapperDbi s1 w)
  closeReader s2 w

def addWrapper (s : St) (b : Nat) : St × Nat :=
  ({ s with wrappers := s.wrappers ++ [{ dbi := b }] }, s.wrappers.length)

/-! ### the operations -/

/-- `DB.Reload` when the goroutine returned `newDBI` (index `nb`) without error before the
timeout, followed by `FBDNSDB.Reload`'s assignment. `keyOk` = validation key found. -/
def reloadReturned (s : St) (nb : Nat) (keyOk : Bool) : St :=
  let f := s.served
  let fb := wrapperDbi s f
  let (s1, nw) := addWrapper s nb
  if keyOk then
    let s2 := validate s1 nw
    if nb ≠ fb then
      let s3 := destroy s2 f
      { s3 with served := nw }
    else s2
  else
    -- validateDbKeyOrDestroy: on failure the candidate wrapper is destroyed, unless it merely wraps
    -- the backend that is still being served (catch-up reload)
    let s2 := validate s1 nw
    if nb ≠ fb then destroy s2 nw else s2

def step (s : St) (op : Op) : St :=
  match op with
  | .acquire =>
    if s.down then s
    else
      let s1 := newReader s s.served
      { s1 with readers := s1.readers ++ [s.served] }
  | .use i =>
    match s.readers[i]? with
    | none => s
    | some w => touch s (wrapperDbi s w)
  | .release i =>
    match s.readers[i]? with
    | none => s
    | some w =>
      let s1 := closeReader s w
      { s1 with readers := s1.readers.eraseIdx i }
  | .reloadNewOk =>
    if s.down then s else
    let (s1, nb) := openBackend s
    reloadReturned s1 nb true
  | .reloadSameOk =>
    if s.down then s else
    let fb := wrapperDbi s s.served
    reloadReturned (touch s fb) fb true
  | .reloadOpenError => s
  | .reloadValFailNew =>
    if s.down then s else
    let (s1, nb) := openBackend s
    reloadReturned s1 nb false
  | .reloadValFailSame =>
    if s.down then s else
    let fb := wrapperDbi s s.served
    reloadReturned (touch s fb) fb false
  | .reloadTimeoutDoneNew =>
    if s.down then s else
    let (s1, nb) := openBackend s
    closeBackend s1 nb
  | .reloadTimeoutPending k =>
    if s.down then s else
    -- the goroutine keeps its reference on the served wrapper until `dbi.Reload` returns
    let s1 := pin s s.served
    { s1 with pending := s1.pending ++ [{ on := wrapperDbi s s.served, w := s.served, kind := k }] }
  | .lateComplete =>
    match s.pending with
    | [] => s
    | p :: rest =>
      let s0 := { s with pending := rest }
      match p.kind with
      | .new =>
        -- `destroyNewDbi` is set: the late backend is closed by the goroutine
        let (s1, nb) := openBackend (unref s0 p.w)
        closeBackend s1 nb
      | .same => unref (touch s0 p.on) p.w     -- CatchWithPrimary ran on `p.on` until now
      | .fail => unref s0 p.w
  | .shutdown =>
    if s.down then s else
    let s1 := destroy s s.served
    { s1 with down := true }

def run (ops : List Op) : St := ops.foldl step {}

/-! ### observables -/

def render (s : St) : String :=
  let bs := s.backends.map fun b => s!"{b.closes}/{b.badUses}"
  s!"served={wrapperDbi s s.served} readers={s.readers.length} backends={bs}"

end DnsVerif.Life
