/-
Shared byte-level vocabulary of the model. Core Lean only (no Mathlib): this file is linked
into the native driver `dnsdrv`.
-/
namespace DnsVerif

abbrev Bytes := List UInt8

namespace Bytes

def hexDigit (n : Nat) : Char :=
  if n < 10 then Char.ofNat (48 + n) else Char.ofNat (87 + n)

def toHex (b : Bytes) : String :=
  String.ofList (b.flatMap fun x => [hexDigit (x.toNat / 16), hexDigit (x.toNat % 16)])

def unhexChar (c : Char) : Option Nat :=
  if '0' ≤ c ∧ c ≤ '9' then some (c.toNat - 48)
  else if 'a' ≤ c ∧ c ≤ 'f' then some (c.toNat - 87)
  else if 'A' ≤ c ∧ c ≤ 'F' then some (c.toNat - 55)
  else none

def ofHexChars : List Char → Option Bytes
  | [] => some []
  | [_] => none
  | a :: b :: rest =>
    match unhexChar a, unhexChar b, ofHexChars rest with
    | some x, some y, some r => some (UInt8.ofNat (x * 16 + y) :: r)
    | _, _, _ => none

/-- Parse a hex token; the token `-` denotes the empty byte string. -/
def ofHex (s : String) : Option Bytes :=
  if s = "-" then some [] else ofHexChars s.toList

/-- Render bytes as a hex token (`-` for empty so that tokens are never empty). -/
def hex (b : Bytes) : String := if b.isEmpty then "-" else toHex b

def ofString (s : String) : Bytes := s.toUTF8.toList

end Bytes
end DnsVerif
