/-
Model of the response cache of `ServeDNSWithRCODE` (`dnsserver/handler.go`) and of its interplay
with `FBDNSDB.Reload` / `acquireReaderGen` / `cacheAdd` (`dnsserver/db.go`). Core Lean only.

1. The cache key: `fmt.Sprintf("%.3d/%d/%d/%s", loc.LocID, qtype, qclass, name)` where `loc.LocID`
   is a `[2]byte` ARRAY — Go renders an array under `%d` as `[e0 e1]`, every element with the verb's
   flags, so `%.3d` gives `[001 002]`.
2. The protocol machine: generation counter, cache, in-flight queries; one step per lock-protected
   action of the real code.

What is *not* modelled: expiry after 1000 s (the clock is not controlled; an expired entry is removed
on lookup and the query proceeds as a miss, which is the `evict` step right before `lookup`), LRU
eviction policy (any entry may disappear at any time: `evict`), the mapping from the wire question
to `state.Name()` (miekg `UnpackDomainName` + `strings.ToLower`).
-/
import DnsVerif.Model.Bytes

namespace DnsVerif.Cache

/-! ### `fmt` rendering -/

/-- decimal digits of `n`, least significant first; `fuel > n` suffices (`fuel = n + 1` is used) -/
def digitsRev : Nat → Nat → List Nat
  | 0, _ => []
  | f + 1, n => if n < 10 then [n] else (n % 10) :: digitsRev f (n / 10)

def digitByte (d : Nat) : UInt8 := UInt8.ofNat (48 + d)

/-- Go `%d` of a non-negative integer -/
def decimal (n : Nat) : Bytes := ((digitsRev (n + 1) n).reverse).map digitByte

/-- Go `%.3d` of a non-negative integer: precision = minimum number of digits, zero padded -/
def decimal3 (n : Nat) : Bytes :=
  let d := decimal n
  List.replicate (3 - d.length) (48 : UInt8) ++ d

/-- elements of an array / slice under an integer verb: separated by one space -/
def joinSp : List Bytes → Bytes
  | [] => []
  | [x] => x
  | x :: y :: rest => x ++ (32 : UInt8) :: joinSp (y :: rest)

/-- Go `%.3d` of a byte array: `[` elements `]` -/
def array3 (a : Bytes) : Bytes :=
  (91 : UInt8) :: joinSp (a.map fun b => decimal3 b.toNat) ++ [(93 : UInt8)]

def slash : UInt8 := 47

/-- `fmt.Sprintf("%.3d/%d/%d/%s", loc.LocID, qtype, qclass, name)` -/
def cacheKey (loc : Bytes) (qtype qclass : Nat) (name : Bytes) : Bytes :=
  array3 loc ++ slash :: decimal qtype ++ slash :: decimal qclass ++ slash :: name

/-- the format literal the model transcribes (compared with the extracted one in `Props/C12`) -/
def cacheKeyFormat : String := "%.3d/%d/%d/%s"

/-- the key before commit 34f5759: `fmt.Sprintf("%.3d%.3d%.3d%s", …)` -/
def cacheKeyOld (loc : Bytes) (qtype qclass : Nat) (name : Bytes) : Bytes :=
  array3 loc ++ decimal3 qtype ++ decimal3 qclass ++ name

/-- `strings.ToLower` on an ASCII name -/
def lowerByte (b : UInt8) : UInt8 := if 65 ≤ b ∧ b ≤ 90 then b + 32 else b
def lower (n : Bytes) : Bytes := n.map lowerByte

/-! ### the protocol machine -/

/-- what the handler does with a query, as far as the cache is concerned -/
inductive Kind where
  | plain      -- computed response, not weighted: inserted
  | weighted   -- computed response with weighted selection: inserted only if `WRSTimeout > 0`
  | refused    -- looked up, computed, returned before the insertion
  | badvers    -- returned before the lookup
deriving DecidableEq, Repr

structure Entry (R : Type) where
  label : Nat          -- generation the response was computed from
  rsp : R
deriving DecidableEq, Repr

/-- what a query finally got -/
structure Sent (R : Type) where
  rsp : R
  label : Nat          -- generation the response was computed from
  acq : Nat            -- generation the query acquired
  hit : Bool
deriving DecidableEq, Repr

inductive Phase (R : Type) where
  | fresh                                  -- at `serve.start`
  | acquired (g : Nat)                     -- `acquireReaderGen` returned generation `g`
  | hit (g : Nat) (e : Entry R)            -- `lru.Get` found `e`
  | missed (g : Nat) (looked : Bool)       -- not found (`looked = false`: BADVERS, no lookup at all)
  | computed (g : Nat) (r : R)             -- at `serve.before-cache-insert`
  | inserted (g : Nat) (r : R)             -- past the insertion code, at `serve.before-write`
  | sent (o : Sent R)
deriving DecidableEq, Repr

structure Flight (Q R : Type) where
  q : Q
  phase : Phase R := .fresh
deriving DecidableEq, Repr

/-- the parameters: how a query is keyed and classified, the uncached handler, the configuration -/
structure Params (Q R : Type) where
  keyOf : Q → Bytes
  kindOf : Q → Kind
  resp : Nat → Q → R           -- the response computed from generation `g`
  wrs : Bool                   -- `WRSTimeout > 0`
  /-- `false` = the protocol before commit e06679e: `lru.Add` without the generation test -/
  genCheck : Bool := true

structure St (Q R : Type) where
  gen : Nat := 0
  cache : List (Bytes × Entry R) := []
  flights : List (Flight Q R) := []
deriving DecidableEq, Repr

inductive Step (Q : Type) where
  | start (q : Q)       -- a new query enters `ServeDNSWithRCODE`; its index is the number of earlier ones
  | acquire (i : Nat)
  | lookup (i : Nat)
  | compute (i : Nat)
  | insert (i : Nat)
  | send (i : Nat)
  | reload              -- `Reload` under the write lock: swap, `generation++`, `lru.Purge()`
  | evict (k : Bytes)   -- LRU eviction / expiry of one entry
deriving DecidableEq, Repr

variable {Q R : Type}

def cacheGet (c : List (Bytes × Entry R)) (k : Bytes) : Option (Entry R) :=
  (c.find? fun p => p.1 == k).map (·.2)

def cacheErase (c : List (Bytes × Entry R)) (k : Bytes) : List (Bytes × Entry R) :=
  c.filter fun p => !(p.1 == k)

def cachePut (c : List (Bytes × Entry R)) (k : Bytes) (e : Entry R) : List (Bytes × Entry R) :=
  (k, e) :: cacheErase c k

def insertable (P : Params Q R) (q : Q) : Bool :=
  match P.kindOf q with
  | .plain => true
  | .weighted => P.wrs
  | .refused => false
  | .badvers => false

def setPhase (s : St Q R) (i : Nat) (f : Flight Q R) (p : Phase R) : St Q R :=
  { s with flights := s.flights.set i { f with phase := p } }

def step (P : Params Q R) (s : St Q R) : Step Q → St Q R
  | .start q => { s with flights := s.flights ++ [{ q := q }] }
  | .acquire i =>
    match s.flights[i]? with
    | some f =>
      match f.phase with
      | .fresh => setPhase s i f (.acquired s.gen)
      | _ => s
    | none => s
  | .lookup i =>
    match s.flights[i]? with
    | some f =>
      match f.phase with
      | .acquired g =>
        if P.kindOf f.q = .badvers then setPhase s i f (.missed g false)
        else match cacheGet s.cache (P.keyOf f.q) with
          | some e => setPhase s i f (.hit g e)
          | none => setPhase s i f (.missed g true)
      | _ => s
    | none => s
  | .compute i =>
    match s.flights[i]? with
    | some f =>
      match f.phase with
      | .missed g _ => setPhase s i f (.computed g (P.resp g f.q))
      | _ => s
    | none => s
  | .insert i =>
    match s.flights[i]? with
    | some f =>
      match f.phase with
      | .computed g r =>
        let s1 := setPhase s i f (.inserted g r)
        if insertable P f.q && (!P.genCheck || g == s.gen) then
          { s1 with cache := cachePut s.cache (P.keyOf f.q) { label := g, rsp := r } }
        else s1
      | _ => s
    | none => s
  | .send i =>
    match s.flights[i]? with
    | some f =>
      match f.phase with
      | .hit g e => setPhase s i f (.sent { rsp := e.rsp, label := e.label, acq := g, hit := true })
      | .inserted g r => setPhase s i f (.sent { rsp := r, label := g, acq := g, hit := false })
      | _ => s
    | none => s
  | .reload => { s with gen := s.gen + 1, cache := [] }
  | .evict k => { s with cache := cacheErase s.cache k }

def runFrom (P : Params Q R) (s : St Q R) (steps : List (Step Q)) : St Q R := steps.foldl (step P) s

def run (P : Params Q R) (steps : List (Step Q)) : St Q R := runFrom P {} steps

/-- everything flight `i` was sent so far -/
def sentOf (s : St Q R) (i : Nat) : Option (Sent R) :=
  match s.flights[i]? with
  | some { phase := .sent o, .. } => some o
  | _ => none

/-! ### sequential histories -/

inductive Item (Q : Type) where
  | query (q : Q)
  | reload
  | evict (k : Bytes)
deriving DecidableEq, Repr

/-- a whole query, uninterrupted: the steps that do not apply (compute / insert after a hit) are no-ops -/
def querySteps (n : Nat) (q : Q) : List (Step Q) :=
  [.start q, .acquire n, .lookup n, .compute n, .insert n, .send n]

/-- the steps of a sequential history; `n` = number of queries started before -/
def seqSteps : Nat → List (Item Q) → List (Step Q)
  | _, [] => []
  | n, .query q :: t => querySteps n q ++ seqSteps (n + 1) t
  | n, .reload :: t => .reload :: seqSteps n t
  | n, .evict k :: t => .evict k :: seqSteps n t

/-- what the cache-less handler answers in the same history; `g` = current generation -/
def uncachedSeq (P : Params Q R) : Nat → List (Item Q) → List R
  | _, [] => []
  | g, .query q :: t => P.resp g q :: uncachedSeq P g t
  | g, .reload :: t => uncachedSeq P (g + 1) t
  | g, .evict _ :: t => uncachedSeq P g t

/-- the responses sent, in the order the queries were started (`none` = nothing sent yet) -/
def sentList (s : St Q R) : List (Option R) :=
  s.flights.map fun f => match f.phase with
    | .sent o => some o.rsp
    | _ => none

end DnsVerif.Cache
