/-
The database as the server sees it: an ordered multimap from byte-string keys to lists of values.
CDB (C16), the RocksDB multi-value store (C15) and the compilers (C07) are shown/validated to present
exactly this interface; here it is the abstract store the serving model runs on. Core Lean only.
-/
import DnsVerif.Model.MultiStore

namespace DnsVerif
open DnsVerif.Rdb

/-- grouped key → values (values in stored order) -/
abbrev Store := List (Bytes × List Bytes)

namespace Store

def get (s : Store) (k : Bytes) : List Bytes :=
  match s.find? (·.1 = k) with
  | some (_, vs) => vs
  | none => []

def insert (s : Store) (k v : Bytes) : Store :=
  if s.any (·.1 = k) then s.map fun (k', vs) => if k' = k then (k', vs ++ [v]) else (k', vs)
  else s ++ [(k, [v])]

def ofKVs (kvs : List (Bytes × Bytes)) : Store := kvs.foldl (fun s kv => s.insert kv.1 kv.2) []

/-- RocksDB `SeekForPrev(k)`: the entry with the greatest key `≤ k` in bytewise order -/
def seekForPrev (s : Store) (k : Bytes) : Option (Bytes × List Bytes) :=
  s.foldl (fun best e =>
    if bytesLe e.1 k then
      match best with
      | none => some e
      | some b => if bytesLt b.1 e.1 then some e else some b
    else best) none

end Store
end DnsVerif
