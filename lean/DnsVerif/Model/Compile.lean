/-
Model of the data-file compilers (C07):

* `dnsdata/parser.go`        `ParseStream` / `parse`: a pool of workers converts lines concurrently and
                             sends each line's records on a channel; accumulator and feature records
                             are sent after all lines; the first rejected line makes the parse fail.
* `dnsdata/rdb/rdb_builder.go`  `ScheduleAdd`, `sortDataset`, `createBuckets`, `saveBuckets`,
                             `ingestFiles`, `Execute`.
* `dnsdata/rdb/rdb_compiler.go` `compileBuilder`, `compileBatches` (batch splitting, the `limiter`
                             channel), on top of `Rdb.executeBatch` (Model/MultiStore, C15).
* `dnsdata/cdb/cdb.go`       `CreateCDBFromReader`: one `Put` per record in arrival order.

The per-line codec (`Codec.ConvertLn`), the accumulator and the feature record are inputs (black box):
`perLine : List (Option Pairs)` (`none` = the codec rejected the line) and `extra : Pairs`.
RocksDB (SST writer, ingestion, Get/Put) and the CDB file format (C16) are external.
Core Lean only.
-/
import DnsVerif.Model.MultiStore

namespace DnsVerif.Compile
open DnsVerif DnsVerif.Rdb

/-! ### parser -/

/-- `ConvertLn` result of one line; `none` = rejected (the worker returns the error) -/
abbrev LineOut := Option Pairs

/-- `parse`: fails iff some worker saw a rejected line (`errgroup.Wait` returns the first error);
otherwise every accepted line's records were sent. -/
def acceptAll : List LineOut → Option (List Pairs)
  | [] => some []
  | none :: _ => none
  | some p :: rest => (acceptAll rest).map (p :: ·)

/-- What the consumer of the results channel can see after a successful `ParseStream`: the chunks of
the lines in *some* order (workers race), then the accumulator chunk, then the feature chunk
(`extra` = the last two). -/
def Arrival (perLine : List Pairs) (extra : Pairs) (stream : Pairs) : Prop :=
  ∃ order : List Pairs, order.Perm perLine ∧ stream = order.flatten ++ extra

/-! ### RocksDB builder -/

inductive BErr where
  | panic        -- Go run-time panic (index out of range, division by zero, bad slice bounds)
  | emptyBucket  -- "Assertion failed: bucket %d is empty"
  | sstOrder     -- SST writer: keys must be added in strictly ascending order
  | overlap      -- ingestion: files have overlapping ranges
  | fuel
deriving DecidableEq, Repr

structure Bucket where
  startOffset : Nat
  endOffset : Nat
deriving DecidableEq, Repr

/-- the inner `for bucketEnd = …; bucketEnd < len(b.values); bucketEnd++` loop of `createBuckets`:
advance while `values[bucketEnd].key == values[bucketEnd-1].key`. -/
def scanEnd (keys : List Bytes) : Nat → Nat → Except BErr Nat
  | 0, _ => .error .fuel
  | fuel + 1, e =>
    if e < keys.length then
      match e with
      | 0 => .error .panic                       -- `b.values[-1]`
      | e' + 1 =>
        match keys[e' + 1]?, keys[e']? with
        | some a, some b => if a ≠ b then .ok (e' + 1) else scanEnd keys fuel (e' + 2)
        | _, _ => .error .panic
    else .ok e

/-- the outer `for i := 0; i < maxBucketNum; i++` loop; `rem = maxBucketNum - i`. -/
def bucketsLoop (keys : List Bytes) (bucketSize : Nat) : Nat → Nat → Except BErr (List Bucket)
  | 0, _ => .ok []
  | rem + 1, bucketStart =>
    let n := keys.length
    let bucketEnd : Except BErr Nat :=
      if rem = 0 then .ok n                       -- `i+1 == maxBucketNum`: the last bucket
      else scanEnd keys (n + 1) (min (bucketStart + bucketSize) n)
    match bucketEnd with
    | .error e => .error e
    | .ok e =>
      if e = n then .ok [⟨bucketStart, e⟩]        -- `break`
      else
        match bucketsLoop keys bucketSize rem e with
        | .error err => .error err
        | .ok bs => .ok (⟨bucketStart, e⟩ :: bs)

/-- `Builder.createBuckets(minBucketSize, maxBucketNum)` on the keys of `b.values` -/
def createBuckets (keys : List Bytes) (minBucketSize maxBucketNum : Nat) : Except BErr (List Bucket) :=
  if maxBucketNum = 0 then .error .panic           -- `len(b.values)/maxBucketNum`
  else bucketsLoop keys (max minBucketSize (keys.length / maxBucketNum)) maxBucketNum 0

/-- Go slice expression `b.values[s:e]` -/
def slice (vals : Pairs) (b : Bucket) : Except BErr Pairs :=
  if b.startOffset ≤ b.endOffset ∧ b.endOffset ≤ vals.length then
    .ok ((vals.drop b.startOffset).take (b.endOffset - b.startOffset))
  else .error .panic

/-- the item loop of one `saveBuckets` goroutine after the first item: `prevKey` is non-nil
(`copyBytes` never returns nil). Returns the sequence of `writer.Put` calls. -/
def saveGo : Pairs → Bytes → Bytes → KV
  | [], prevKey, acc => [(prevKey, acc)]                      -- the final "flush"
  | item :: rest, prevKey, acc =>
    if item.1 ≠ prevKey then (prevKey, acc) :: saveGo rest item.1 (appendValues [] [item.2])
    else saveGo rest item.1 (appendValues acc [item.2])

/-- `SSTFileWriter.Put` sequence: RocksDB rejects a key that is not above the previous one -/
def strictAsc : KV → Bool
  | [] => true
  | [_] => true
  | p :: q :: rest => bytesLt p.1 q.1 && strictAsc (q :: rest)

/-- one bucket → the content of its SST file -/
def saveBucket : Pairs → Except BErr KV
  | [] => .error .emptyBucket
  | item :: rest =>
    let puts := saveGo rest item.1 (appendValues [] [item.2])
    if strictAsc puts then .ok puts else .error .sstOrder

def saveBuckets (vals : Pairs) : List Bucket → Except BErr (List KV)
  | [] => .ok []
  | b :: bs =>
    match slice vals b with
    | .error e => .error e
    | .ok items =>
      match saveBucket items, saveBuckets vals bs with
      | .ok f, .ok fs => .ok (f :: fs)
      | .error e, _ => .error e
      | _, .error e => .error e

/-- `IngestSSTFiles` into the empty database: files (given in bucket order) must not overlap; the
database is then their union. -/
def ingest (files : List KV) : Except BErr KV :=
  if strictAsc files.flatten then .ok files.flatten else .error .overlap

/-- `Builder.Execute` after `sortDataset` produced `sorted` (any key-sorted permutation of the
scheduled pairs: `sort.Slice` is not stable). -/
def builderExecute (sorted : Pairs) (minBucketSize maxBucketNum : Nat) : Except BErr KV :=
  match createBuckets (sorted.map (·.1)) minBucketSize maxBucketNum with
  | .error e => .error e
  | .ok bs =>
    match saveBuckets sorted bs with
    | .error e => .error e
    | .ok files => ingest files

/-! ### batches -/

/-- state of the `store` closure of `compileBatches`: dispatched batches, current batch -/
structure BatchSt where
  dispatched : List Pairs := []
  cur : Pairs := []
  counter : Nat := 0

def storeOne (batchSize : Nat) (st : BatchSt) (r : Bytes × Bytes) : BatchSt :=
  let cur := st.cur ++ [r]
  let counter := st.counter + 1
  if counter = batchSize then { dispatched := st.dispatched ++ [cur], cur := [], counter := 0 }
  else { st with cur := cur, counter := counter }

/-- `opts.BatchSize <= 0 → DefaultBatchSize` -/
def effBatchSize (batchSize defaultBatchSize : Nat) : Nat :=
  if batchSize = 0 then defaultBatchSize else batchSize

/-- all batches of a run: the dispatched ones and the final flush (if non-empty) -/
def batches (batchSize : Nat) (stream : Pairs) : List Pairs :=
  let st := stream.foldl (storeOne batchSize) {}
  if st.cur.isEmpty then st.dispatched else st.dispatched ++ [st.cur]

/-- `db.ExecuteBatch` calls are serialised by `writeMutex`; `order` is the order in which the
goroutines (and the final flush) obtain it. -/
def runBatches (order : List Pairs) : Except Err KV :=
  order.foldlM (fun s b => executeBatch s b []) []

inductive Outcome (α : Type) where
  | ok (db : α)
  | fail
  | hang      -- blocks forever
deriving Repr

/-- `compileBatches`: `BatchNumParallel` only bounds how many batches are in flight (0 = no
limiter since the repair; before it an unbuffered limiter blocked the first full batch for ever);
the result is that of the batches in the order they obtain `writeMutex`. -/
def compileBatches (_batchSize _batchNumParallel : Nat) (_stream : Pairs) (order : List Pairs) :
    Outcome KV :=
  match runBatches order with
  | .ok db => .ok db
  | .error _ => .fail

/-! ### CDB -/

/-- `CreateCDBFromReader`: one `Put` per record in arrival order. The file is (C16) the multimap
with the values of a key in insertion order. -/
def cdbGet (stream : Pairs) (k : Bytes) : List Bytes := (stream.filter (·.1 = k)).map (·.2)

/-! ### reading a RocksDB result back -/

def rdbGet (db : KV) (k : Bytes) : Except Err (List Bytes) := forEach db k

/-! ### whole compilations

`lines` are the codec's per-line results in file order. For a successful parse `stream` is what
arrived on the channel (`Arrival`), `sorted` the dataset after `sortDataset`, `order` the order in
which the batches were executed. -/

/-- `rdb.Compile` with `UseBuilder` (`compileBuilder`): `builder.Execute()` runs on whatever arrived,
then `g.Wait()` reports the parser's error. -/
def compileBuilder (lines : List LineOut) (sorted : Pairs) (minBucketSize maxBucketNum : Nat) :
    Outcome KV :=
  match acceptAll lines with
  | none => .fail
  | some _ =>
    match builderExecute sorted minBucketSize maxBucketNum with
    | .ok db => .ok db
    | .error _ => .fail

/-- `rdb.Compile` without builder. `arrived` = number of records received when the parse failed. -/
def compileBatchesFull (lines : List LineOut) (batchSize batchNumParallel : Nat) (stream : Pairs)
    (order : List Pairs) (arrived : Nat) : Outcome KV :=
  match acceptAll lines with
  | none => let _ := arrived; .fail
  | some _ => compileBatches batchSize batchNumParallel stream order

/-- `cdb.CreateCDB`: the result is the record list in arrival order -/
def compileCdb (lines : List LineOut) (stream : Pairs) : Outcome Pairs :=
  match acceptAll lines with
  | none => .fail
  | some _ => .ok stream

end DnsVerif.Compile
