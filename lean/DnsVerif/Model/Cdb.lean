/-
Model of `go-cdb-mods` (writer.go, cdb.go, dump.go, make.go).

Two layers:
* structured: hash tables as lists of slots (`buildTable`, `probeAll`) — what the combinatorial
  theorems (`Props/C16.lean`) are about;
* byte-exact: `writeFile` produces the file image, `findNext` reads it exactly like `Cdb.find`
  (header lookup, `loop`/`kpos` context, wrap-around), `dump`/`make` the text format.

The hash function (spooky) is external: every entry carries its hash, supplied by the harness from
the real `spooky.Hash32`; the theorems hold for every hash function. Core Lean only.
-/
import DnsVerif.Model.Bytes

namespace DnsVerif.Cdb
open DnsVerif

def headerSize : Nat := 2048
def u32 : Nat := 4294967296

structure Entry where
  key : Bytes
  val : Bytes
  h : Nat
deriving Repr, DecidableEq

/-- `putNum`: little-endian uint32 -/
def putNum (n : Nat) : Bytes :=
  [UInt8.ofNat (n % 256), UInt8.ofNat (n / 256 % 256), UInt8.ofNat (n / 65536 % 256),
   UInt8.ofNat (n / 16777216 % 256)]

def getNum : Bytes → Nat
  | a :: b :: c :: d :: _ => a.toNat + b.toNat * 256 + c.toNat * 65536 + d.toNat * 16777216
  | _ => 0

/-! ### structured layer: one hash table -/

/-- a slot `(h, pos)`; `pos = 0` means empty -/
abbrev Slot := Nat × Nat

/-- Linear probing insertion of `writer.Close`: start at `(h / 256) % nslots`, advance (wrapping)
while the slot is occupied. `fuel` bounds the probe by the table size (the table is never full). -/
def probeInsert (tbl : List Slot) (s : Slot) : List Slot :=
  let n := tbl.length
  let rec go (fuel : Nat) (p : Nat) : List Slot :=
    match fuel with
    | 0 => tbl     -- unreachable when the table has a free slot
    | fuel + 1 =>
      match tbl[p]? with
      | none => tbl
      | some cur =>
        if cur.2 ≠ 0 then go fuel (if p + 1 = n then 0 else p + 1)
        else tbl.set p s
  if n = 0 then tbl else go n ((s.1 / 256) % n)

/-- the table built for one of the 256 buckets: `2 * len` slots -/
def buildTable (slots : List Slot) : List Slot :=
  slots.foldl probeInsert (List.replicate (2 * slots.length) (0, 0))

/-- The reader's probe sequence over one table for hash `kh`: positions of all records whose slot
hash equals `kh`, in probe order, stopping at the first empty slot or after `hslots` slots. -/
def probeAll (tbl : List Slot) (kh : Nat) : List Nat :=
  let n := tbl.length
  let rec go (fuel : Nat) (p : Nat) : List Nat :=
    match fuel with
    | 0 => []
    | fuel + 1 =>
      match tbl[p]? with
      | none => []
      | some cur =>
        if cur.2 = 0 then []
        else
          let rest := go fuel (if p + 1 = n then 0 else p + 1)
          if cur.1 = kh then cur.2 :: rest else rest
  if n = 0 then [] else go n ((kh / 256) % n)

/-! ### byte-exact writer -/

def recordBytes (e : Entry) : Bytes :=
  putNum (e.key.length % u32) ++ putNum (e.val.length % u32) ++ e.key ++ e.val

/-- positions `w.pos` of the records (uint32 arithmetic), and the position after the last one -/
def positions : Nat → List Entry → List Nat × Nat
  | pos, [] => ([], pos)
  | pos, e :: es =>
    let (ps, fin) := positions ((pos + 8 + e.key.length + e.val.length) % u32) es
    (pos :: ps, fin)

/-- slots of bucket `t` in insertion order -/
def bucketSlots (es : List Entry) (ps : List Nat) (t : Nat) : List Slot :=
  ((es.zip ps).filter fun ep => ep.1.h % 256 = t).map fun ep => (ep.1.h, ep.2)

def slotBytes (tbl : List Slot) : Bytes := tbl.flatMap fun s => putNum s.1 ++ putNum s.2

/-- the 256 tables: `(header entries, table bytes)` -/
def tables (es : List Entry) (ps : List Nat) : Nat → Nat → List (Nat × Nat) × Bytes
  | 0, _ => ([], [])
  | n + 1, pos =>
    let t := 255 - n
    let slots := bucketSlots es ps t
    if slots.isEmpty then
      let (hs, bs) := tables es ps n pos
      ((pos, 0) :: hs, bs)
    else
      let tbl := buildTable slots
      let nslots := tbl.length
      let (hs, bs) := tables es ps n ((pos + 8 * nslots) % u32)
      ((pos, nslots) :: hs, slotBytes tbl ++ bs)

/-- the complete file image written by `Put`* ; `Close` -/
def writeFile (es : List Entry) : Bytes :=
  let (ps, fin) := positions headerSize es
  let (hs, tb) := tables es ps 256 fin
  (hs.flatMap fun h => putNum h.1 ++ putNum h.2) ++ es.flatMap recordBytes ++ tb

/-! ### byte-exact reader (the mmapped file is an array: O(1) indexing as in the Go code) -/

inductive Res (α : Type) where
  | ok (a : α)
  | eof
  | panic      -- slice bounds out of range on the mmapped data
deriving Repr

abbrev File := Array UInt8

/-- little-endian uint32 at offset `p` (callers check the bounds first) -/
def numAt (file : File) (p : Nat) : Nat :=
  (file.getD p 0).toNat + (file.getD (p + 1) 0).toNat * 256 + (file.getD (p + 2) 0).toNat * 65536
    + (file.getD (p + 3) 0).toNat * 16777216

/-- `c.readNums(pos)`: `mmappedData[pos:pos+8]` -/
def readNums (file : File) (pos : Nat) : Option (Nat × Nat) :=
  if pos + 8 ≤ file.size then some (numAt file pos, numAt file (pos + 4)) else none

/-- `mmappedData[a:a+n]` as a list (callers check the bounds first) -/
def slice (file : File) (a n : Nat) : Bytes := (file.extract a (a + n)).toList

structure Ctx where
  loop : Nat := 0
  khash : Nat := 0
  kpos : Nat := 0
  hpos : Nat := 0
  hslots : Nat := 0
deriving Repr

/-- the scanning loop of `Cdb.find` -/
def findLoop (file : File) (key : Bytes) : Nat → Ctx → Res (Bytes × Ctx)
  | 0, _ => .eof
  | fuel + 1, c =>
    if c.loop < c.hslots then
      match readNums file c.kpos with
      | none => .panic
      | some (h, pos) =>
        if pos = 0 then .eof
        else
          let kpos1 := (c.kpos + 8) % u32
          let kpos2 := if kpos1 = (c.hpos + c.hslots * 8) % u32 then c.hpos else kpos1
          let c' := { c with loop := c.loop + 1, kpos := kpos2 }
          if h = c.khash then
            match readNums file pos with
            | none => .panic
            | some (rklen, rdlen) =>
              if rklen = key.length % u32 then
                let kstart := (pos + 8) % u32
                if kstart + key.length ≤ file.size then
                  if slice file kstart key.length = key then
                    let dpos := (pos + 8 + key.length) % u32
                    if dpos + rdlen ≤ file.size then .ok (slice file dpos rdlen, c')
                    else .panic
                  else findLoop file key fuel c'
                else .panic
              else findLoop file key fuel c'
          else findLoop file key fuel c'
    else .eof

/-- `Cdb.find` + the slice in `FindNext`: one step of the iterator. `hash` is the key's hash. -/
def findNext (file : File) (key : Bytes) (hash : Nat) (c : Ctx) : Res (Bytes × Ctx) :=
  if c.loop = 0 then
    match readNums file ((hash * 8) % 2048) with
    | none => .panic
    | some (hpos, hslots) =>
      if hslots = 0 then .eof
      else
        let c1 : Ctx := { loop := 0, khash := hash, hpos := hpos, hslots := hslots,
                          kpos := (hpos + ((hash / 256) % hslots) * 8) % u32 }
        findLoop file key (hslots + 1) c1
  else findLoop file key (c.hslots + 1) c

/-- `FindStart` then `FindNext` until EOF: all values under `key`. -/
def findAll (file : File) (key : Bytes) (hash : Nat) : Res (List Bytes) :=
  let rec go (fuel : Nat) (c : Ctx) (acc : List Bytes) : Res (List Bytes) :=
    match fuel with
    | 0 => .ok acc.reverse
    | fuel + 1 =>
      match findNext file key hash c with
      | .ok (v, c') => go fuel c' (v :: acc)
      | .eof => .ok acc.reverse
      | .panic => .panic
  go (file.size / 8 + 2) {} []

/-! ### dump / make -/

/-- `n ≤ l.length` without walking the whole list -/
def lenGe (l : Bytes) (n : Nat) : Bool := n == 0 || !(l.drop (n - 1)).isEmpty

def natDigits (n : Nat) : Bytes := (toString n).toUTF8.toList

/-- `Dump` with every `readNum` reading its full 4 bytes (`io.ReadFull`). `rest` is the unread
part of the file (a stream: `Dump` only ever reads forward), `pos` the file offset of its head.
Records are read until `pos` reaches `eod`. `none` = read error (unexpected EOF). -/
def dumpRecords : Nat → Bytes → Nat → Nat → Option Bytes
  | 0, _, _, _ => some []
  | fuel + 1, rest, pos, eod =>
    if pos < eod then
      if lenGe rest 8 then
        let klen := getNum rest
        let dlen := getNum (rest.drop 4)
        let body := rest.drop 8
        if lenGe body (klen + dlen) then
          let k := body.take klen
          let d := (body.drop klen).take dlen
          match dumpRecords fuel (body.drop (klen + dlen)) ((pos + 8 + klen + dlen) % u32) eod with
          | some out =>
            some ([0x2b] ++ natDigits klen ++ [0x2c] ++ natDigits dlen ++ [0x3a] ++ k ++ [0x2d, 0x3e]
                  ++ d ++ [0x0a] ++ out)
          | none => none
        else none
      else none
    else some []

def dump (file : Bytes) : Option Bytes :=
  if !lenGe file headerSize then none
  else
    match dumpRecords (file.length + 1) (file.drop headerSize) headerSize (getNum file) with
    | some b => some (b ++ [0x0a])
    | none => none

end DnsVerif.Cdb

namespace DnsVerif.Cdb

/-! ### make: the text format `+klen,dlen:key->data\n ... \n` -/

/-- the text `Dump` prints for a list of (key, data) pairs -/
def dumpText : List (Bytes × Bytes) → Bytes
  | [] => [0x0a]
  | (k, d) :: rest =>
    [0x2b] ++ natDigits k.length ++ [0x2c] ++ natDigits d.length ++ [0x3a] ++ k ++ [0x2d, 0x3e] ++ d
      ++ [0x0a] ++ dumpText rest

/-- `recReader.readNum(delim)`: decimal digits up to `delim` (`strconv.ParseUint(s, 10, 32)`) -/
def readNumUntil (delim : UInt8) : Bytes → Nat → Bool → Option (Nat × Bytes)
  | [], _, _ => none
  | c :: rest, acc, seen =>
    if c = delim then (if seen ∧ acc < u32 then some (acc, rest) else none)
    else if 0x30 ≤ c.toNat ∧ c.toNat ≤ 0x39 then readNumUntil delim rest (acc * 10 + (c.toNat - 0x30)) true
    else none

/-- `Make`'s record loop: parse the text back into (key, data) pairs. `none` = error/panic. -/
def makeParse : Nat → Bytes → Option (List (Bytes × Bytes))
  | 0, _ => none
  | _ + 1, [] => none
  | fuel + 1, c :: rest =>
    if c = 0x0a then some []
    else if c ≠ 0x2b then none
    else
      match readNumUntil 0x2c rest 0 false with
      | none => none
      | some (klen, r1) =>
        match readNumUntil 0x3a r1 0 false with
        | none => none
        | some (dlen, r2) =>
          if !lenGe r2 (klen + 2 + dlen + 1) then none
          else
            let k := r2.take klen
            let r3 := r2.drop klen
            match r3 with
            | 0x2d :: 0x3e :: r4 =>
              let d := r4.take dlen
              match r4.drop dlen with
              | 0x0a :: r5 =>
                match makeParse fuel r5 with
                | some es => some ((k, d) :: es)
                | none => none
              | _ => none
            | _ => none

end DnsVerif.Cdb
