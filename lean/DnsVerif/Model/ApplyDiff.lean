/-
Model of applying a line diff to a compiled RocksDB (C08):

* `dnsdata/rdb/applydiff.go`   `RDB.ApplyDiff(reader, serial)`: one codec for the whole diff (same
                               settings as the compiler, key layout read from the database), every
                               diff line is parsed (`dbdiff.Entry.ParseBytes`), its payload
                               (the line without its first byte) filtered the way the compiler
                               filters data lines (leading blanks trimmed; shorter than 2 bytes or
                               starting with `#`: `continue`), converted (`Entry.Convert` =
                               `Codec.ConvertLn`) and its records scheduled with `Batch.Add` /
                               `Batch.Del`;
                               the first malformed line returns an error before anything is written;
                               at the end ONE `ExecuteBatch` (Model/MultiStore, C15).
* `dnsdata/rdb/dbdiff/entry.go` `decodeOp`: first byte `+` or `-`, anything else is `ErrBadOp`.
* `dnsdata/parser.go`          `parse`: which lines of a data file reach the codec when compiling
                               (leading spaces trimmed, lines shorter than 2 bytes and `#` lines skipped).
* `dnsdata/rdb/rdb_compiler.go` compilation = `Add` of every record (C07 proves that builder and
                               batch compilers give, key by key, that multiset of values).

The per-line codec (`Codec.ConvertLn` for a fixed serial and key layout) is a black box
`Conv = Bytes → Option Pairs` (`none` = the codec rejects the line). A *preprocessed* file has no `%`
lines (`preproc.go` replaces them by the accumulator's `!` range-point lines), so the accumulator
emits nothing at the end of a compilation (`SubnetRanger.MarshalMap` over an empty map,
`NoPrefixSets`); the only record not coming from a line is the feature record (`extra`).
`ApplyDiff` never marshals the accumulator or the feature record.
Core Lean only.
-/
import DnsVerif.Model.MultiStore

namespace DnsVerif.ApplyDiff
open DnsVerif DnsVerif.Rdb

/-- `Codec.ConvertLn` of one fixed codec; `none` = error -/
abbrev Conv := Bytes → Option Pairs

/-! ### compiling a data file -/

/-- `bytes.TrimLeft(line, " ")` -/
def trimLeft : Bytes → Bytes
  | [] => []
  | c :: rest => if c = 32 then trimLeft rest else c :: rest

/-- the test of `parse`: `len(line) < 2 || bytes.HasPrefix(line, "#")` -/
def skippedByParser (l : Bytes) : Bool := l.length < 2 || l.head? = some 35

/-- the lines of a data file that reach the codec -/
def codecLines (file : List Bytes) : List Bytes :=
  (file.map trimLeft).filter fun l => !skippedByParser l

/-- `ConvertLn` on every line; `none` if one is rejected (the compilation fails) -/
def convertAll (conv : Conv) : List Bytes → Option (List Pairs)
  | [] => some []
  | l :: ls =>
    match conv l with
    | none => none
    | some r => (convertAll conv ls).map (r :: ·)

/-- the database holding exactly these records (`RDB.Add` of each) -/
def compileRecs (recs : Pairs) : KV := recs.foldl (fun s p => add s p.1 p.2) []

/-- compilation from the per-line record lists; `extra` = the feature record -/
def compileLines (perLine : List Pairs) (extra : Pairs) : KV := compileRecs (perLine.flatten ++ extra)

/-- `rdb.Compile` of a data file -/
def compileFile (conv : Conv) (extra : Pairs) (file : List Bytes) : Option KV :=
  (convertAll conv (codecLines file)).map fun perLine => compileLines perLine extra

/-! ### diff lines -/

inductive LineKind where
  | skip                    -- empty line, `#…`, or a payload the compiler would not read: `continue`
  | plus (payload : Bytes)  -- `+<data line>`; `payload` = what `ConvertLn` is given (trimmed)
  | minus (payload : Bytes) -- `-<data line>`
  | bad                     -- `ErrBadOp`
deriving DecidableEq, Repr

/-- after `ParseBytes`: `e.Bytes = bytes.TrimLeft(e.Bytes, " ")`, then
`if len(e.Bytes) < 2 || e.Bytes[0] == '#' { continue }` — the compiler's filter on the payload -/
def payloadKind (mk : Bytes → LineKind) (payload : Bytes) : LineKind :=
  let p := trimLeft payload
  if skippedByParser p then .skip else mk p

/-- the loop body of `RDB.ApplyDiff` up to `Convert`: the outer filter
(`len(line) < 1 || HasPrefix(line, "#")`), `Entry.ParseBytes` (`decodeOp`: first byte `+` / `-`,
anything else `ErrBadOp`), the payload filter -/
def classify : Bytes → LineKind
  | [] => .skip
  | c :: payload =>
    if c = 35 then .skip
    else if c = 43 then payloadKind .plus payload
    else if c = 45 then payloadKind .minus payload
    else .bad

inductive DErr where
  | parse            -- "parse error for input line"
  | convert          -- "conversion error for line"
  | batch (e : Err)  -- "database update failed"
deriving DecidableEq, Repr

/-- the scanning loop of `RDB.ApplyDiff`: `a` / `d` are `batch.addedPairs` / `batch.deletedPairs`
(in scheduling order). The first malformed line ends the call; nothing has touched the database. -/
def scanDiff (conv : Conv) : List Bytes → Pairs → Pairs → Except DErr (Pairs × Pairs)
  | [], a, d => .ok (a, d)
  | line :: rest, a, d =>
    match classify line with
    | .skip => scanDiff conv rest a d
    | .bad => .error .parse
    | .plus p =>
      match conv p with
      | none => .error .convert
      | some rs => scanDiff conv rest (a ++ rs) d
    | .minus p =>
      match conv p with
      | none => .error .convert
      | some rs => scanDiff conv rest a (d ++ rs)

/-- `RDB.ApplyDiff`. An error result means the database is still `s` (nothing was written: the
scan works on the in-memory batch, `ExecuteBatch` integrates in memory before its single write). -/
def applyDiff (conv : Conv) (s : KV) (diff : List Bytes) : Except DErr KV :=
  match scanDiff conv diff [] [] with
  | .error e => .error e
  | .ok (a, d) =>
    match executeBatch s a d with
    | .error e => .error (.batch e)
    | .ok s' => .ok s'

/-- the same on record lists: the records of the `+` lines and of the `-` lines in diff order -/
def applyRecs (s : KV) (plus minus : List Pairs) : Except Err KV :=
  executeBatch s plus.flatten minus.flatten

/-- successive diffs; stops at the first failing one -/
def applyChain (conv : Conv) (s : KV) (diffs : List (List Bytes)) : Except DErr KV :=
  diffs.foldlM (applyDiff conv) s

/-- the payloads of the `+` lines / `-` lines of a diff that reach the codec (trimmed), in order -/
def plusOf (diff : List Bytes) : List Bytes :=
  diff.filterMap fun l => match classify l with | .plus p => some p | _ => none

def minusOf (diff : List Bytes) : List Bytes :=
  diff.filterMap fun l => match classify l with | .minus p => some p | _ => none

/-- all records the codec emits for a list of (accepted) lines, in order -/
def recsOf (conv : Conv) (ls : List Bytes) : Pairs := (ls.filterMap conv).flatten

/-- what follows the operation byte `op` of a diff line, as written in the diff file -/
def payloadOf (op : UInt8) : Bytes → Option Bytes
  | [] => none
  | c :: p => if c = op then some p else none

/-- the raw payloads of the `+` lines / `-` lines of a diff file, in order -/
def rawPlusOf (diff : List Bytes) : List Bytes := diff.filterMap (payloadOf 43)

def rawMinusOf (diff : List Bytes) : List Bytes := diff.filterMap (payloadOf 45)

/-- a diff line `ApplyDiff` stops at: a bad operation byte, or a payload the codec rejects (a bare
`+` / `-`, a payload shorter than 2 bytes after trimming or a `#` payload is skipped, not an error) -/
def malformed (conv : Conv) (l : Bytes) : Bool :=
  match classify l with
  | .skip => false
  | .bad => true
  | .plus p => (conv p).isNone
  | .minus p => (conv p).isNone

end DnsVerif.ApplyDiff
