/-
Model of the front handler chain of a listener (C20): `fbserver/server.go` `Start` (assembly),
`fbserver/serve_mux.go` (question guard), `fbserver/maxanswer.go` (context value),
`fbserver/any.go` (RFC 8482 HINFO), `whoami/common.go` (name match rule), and the tail of the chain,
`dnsserver.FBDNSDB.ServeDNS`, as a PARAMETER `db : MaxAns → Query → Outcome`.

Messages are abstract: a `Query` is what `*dns.Msg` + the transport facts look like to a handler
after miekg unpacked the packet; a `Response` is the `*dns.Msg` handed to `WriteMsg`. The content
of the whoami answer is a parameter too (`who`); only *when* it is given is modelled.

Also transcribed, as explored library behaviour (not part of the repository's code): miekg/dns
v1.1.50 `defaultMsgAcceptFunc` + the reject branch of `Server.serveDNS` (`Transport` section), and
the size rule of coredns `request.Size`/`Scrub` with `dns.Msg.Truncate` as an abstract rule
(`TruncRule`).

Go index expressions that can go out of range (`r.Question[0]`) are explicit `Outcome.panic`s.
Core Lean only.
-/
import DnsVerif.Model.Bytes

namespace DnsVerif.Chain

/-! ### literals (miekg/dns constants and the literals written in `any.go`, `handler.go`) -/

def typeHINFO : Nat := 13
def typeANY : Nat := 255
def classINET : Nat := 1
def rcodeSuccess : Nat := 0
def rcodeFormatError : Nat := 1
def rcodeServerFailure : Nat := 2
def rcodeNotImplemented : Nat := 4
def opcodeQuery : Nat := 0
def opcodeNotify : Nat := 4
/-- `any.go`: `Cpu: "RFC 8482"` -/
def hinfoCpu : String := "RFC 8482"
/-- `any.go`: `Os: ""` -/
def hinfoOs : String := ""
/-- `any.go`: `Ttl: 86400` -/
def hinfoTtl : Nat := 86400
/-- `dnsserver/handler.go`: `DefaultMaxAnswer = 1` -/
def defaultMaxAnswer : Nat := 1
/-- `dns.MinMsgSize`, `dns.MaxMsgSize` -/
def minMsgSize : Nat := 512
def maxMsgSize : Nat := 65535

/-! ### abstract messages -/

inductive Proto where
  | udp | tcp
deriving Repr, DecidableEq

/-- A domain name as a Go `string` in presentation form, as miekg hands it to handlers: ASCII only
(bytes outside the printable range are spelled `\DDD`), so bytes = characters and `len` = `length`.
A character list rather than `String` so that the kernel can evaluate the examples. -/
abbrev Name := List Char

structure Question where
  name : Name
  qtype : Nat
  qclass : Nat
deriving Repr, DecidableEq

inductive RData where
  | hinfo (cpu os : String)
  /-- anything else (records made by the database handler / whoami): opaque -/
  | raw (wire : String)
deriving Repr, DecidableEq

structure RR where
  name : Name
  rtype : Nat
  cls : Nat
  ttl : Nat
  rdata : RData
deriving Repr, DecidableEq

structure Query where
  id : Nat := 0
  opcode : Nat := 0
  rd : Bool := false
  cd : Bool := false
  questions : List Question := []
  proto : Proto := .udp
  /-- UDP size of the OPT record, if the query carries one -/
  ednsSize : Option Nat := none
deriving Repr, DecidableEq

structure Response where
  id : Nat
  response : Bool
  opcode : Nat
  rd : Bool
  cd : Bool
  rcode : Nat
  aa : Bool := false
  tc : Bool := false
  question : List Question := []
  answer : List RR := []
  ns : List RR := []
  extra : List RR := []
  /-- the OPT pseudo record, opaque (`none`: the reply carries none) -/
  opt : Option String := none
deriving Repr, DecidableEq

/-- what a handler does with the `ResponseWriter` -/
inductive Outcome where
  | reply (r : Response)
  | noReply
  /-- a Go run-time panic (index out of range) -/
  | panic
deriving Repr, DecidableEq

abbrev MaxAns := Nat

/-- the part of `context.Context` the chain uses -/
structure Ctx where
  maxAns : Option Nat := none
deriving Repr, DecidableEq

abbrev Handler := Ctx → Query → Outcome

/-! ### miekg helpers used by the front handlers -/

/-- `dns.Msg.SetReply` -/
def setReply (q : Query) : Response :=
  { id := q.id
    response := true
    opcode := q.opcode
    rd := if q.opcode = opcodeQuery then q.rd else false
    cd := if q.opcode = opcodeQuery then q.cd else false
    rcode := rcodeSuccess
    question := q.questions.take 1 }

/-- `dns.HandleFailed`: `m.SetRcode(r, RcodeServerFailure); w.WriteMsg(m)` -/
def handleFailed (q : Query) : Outcome :=
  .reply { setReply q with rcode := rcodeServerFailure }

/-- `dns.IsFqdn` (v1.1.50): trailing dot that is not escaped (even number of backslashes before it) -/
def isFqdn (s : Name) : Bool :=
  match s.reverse with
  | '.' :: rest => (rest.takeWhile (· = '\\')).length % 2 = 0
  | _ => false

/-- `dns.Fqdn` -/
def fqdn (s : Name) : Name := if isFqdn s then s else s ++ ['.']

/-- `strings.ToLower` on the ASCII strings miekg produces -/
def toLower (s : Name) : Name := s.map Char.toLower

/-! ### the handlers -/

/-- `FBDNSDB.ServeDNS`: reads the max-answer value from the context, `DefaultMaxAnswer` if absent -/
def dbHandler (db : MaxAns → Query → Outcome) : Handler :=
  fun ctx q => db (ctx.maxAns.getD defaultMaxAnswer) q

/-- `whoami.NewWhoami`: `wh.whoamiDomain = strings.ToLower(dns.Fqdn(d))` -/
def newWhoami (d : Name) : Name := toLower (fqdn d)

/-- `whoami/common.go`: `len(name) != len(domain) || strings.ToLower(name) != domain` ⇒ next -/
def whoamiMatch (domain name : Name) : Bool :=
  !(name.length != domain.length || toLower name != domain)

def whoamiHandler (domain : Name) (who : Query → Outcome) (next : Handler) : Handler :=
  fun ctx q =>
    match q.questions with
    | [] => .panic                                  -- `r.Question[0]`
    | q0 :: _ => if whoamiMatch domain q0.name then who q else next ctx q

def hinfoRR (owner : Name) : RR :=
  { name := owner, rtype := typeHINFO, cls := classINET, ttl := hinfoTtl,
    rdata := .hinfo hinfoCpu hinfoOs }

/-- `anyHandler.ServeDNS` -/
def anyHandler (next : Handler) : Handler :=
  fun ctx q =>
    match q.questions with
    | [] => .panic                                  -- `r.Question[0]`
    | q0 :: _ =>
      if q0.qtype ≠ typeANY then next ctx q
      else .reply { setReply q with answer := [hinfoRR q0.name] }

/-- `maxAnswerHandler.ServeDNS`: `ctx = dnsserver.WithMaxAnswer(ctx, mh.maxAnswer)` -/
def maxAnswerHandler (n : Nat) (next : Handler) : Handler :=
  fun ctx q => next { ctx with maxAns := some n } q

/-- `serveMux.ServeDNS`: question guard, then the chain under `context.TODO()` -/
def serveMux (h : Handler) (q : Query) : Outcome :=
  if q.questions.length < 1 then handleFailed q else h {} q

/-! ### assembly (`Server.Start`) -/

structure Cfg where
  /-- `ServerConfig.WhoamiDomain` (`""`: handler not installed) -/
  whoamiDomain : Name := []
  /-- `ServerConfig.RefuseANY` -/
  refuseANY : Bool := false
  /-- the listener's value in `ServerConfig.IPAns` -/
  maxAns : Nat := 1
deriving Repr, DecidableEq

/-- `newMaxAnswerHandler` refuses `i <= 0` (then `Start` returns an error) -/
def Cfg.startable (cfg : Cfg) : Bool := 0 < cfg.maxAns

/-- the domain the installed whoami handler compares with:
`whoami.NewWhoami(strings.ToLower(dns.Fqdn(conf.WhoamiDomain)))` -/
def Cfg.domain (cfg : Cfg) : Name := newWhoami (toLower (fqdn cfg.whoamiDomain))

/-- handlers below the per-listener ones, in the order `Start` wraps them -/
def inner (cfg : Cfg) (who : Query → Outcome) (db : MaxAns → Query → Outcome) : Handler :=
  let h0 := dbHandler db
  let h1 := if cfg.whoamiDomain ≠ [] then whoamiHandler cfg.domain who h0 else h0
  if cfg.refuseANY then anyHandler h1 else h1

/-- what a listener's `dns.Server.Handler` does with an unpacked query -/
def chain (cfg : Cfg) (who : Query → Outcome) (q : Query) (db : MaxAns → Query → Outcome) : Outcome :=
  serveMux (maxAnswerHandler cfg.maxAns (inner cfg who db)) q

/-! ### classification of a query (used by the theorems and the driver) -/

def Query.qtype? (q : Query) : Option Nat := q.questions.head?.map (·.qtype)
def Query.name? (q : Query) : Option Name := q.questions.head?.map (·.name)

def anyRefused (cfg : Cfg) (q : Query) : Bool :=
  cfg.refuseANY && q.qtype? == some typeANY

def whoamiHit (cfg : Cfg) (q : Query) : Bool :=
  cfg.whoamiDomain != [] && (match q.name? with
    | some n => whoamiMatch cfg.domain n
    | none => false)

/-! ### Transport: miekg/dns `Server.serveDNS` before the handler (library, explored) -/

/-- the header fields `defaultMsgAcceptFunc` and the reject branch look at -/
structure Hdr where
  id : Nat := 0
  qr : Bool := false
  opcode : Nat := 0
  aa : Bool := false
  tc : Bool := false
  rd : Bool := false
  cd : Bool := false
  qdcount : Nat := 1
  ancount : Nat := 0
  nscount : Nat := 0
  arcount : Nat := 0
deriving Repr, DecidableEq

inductive Accept where
  | accept | reject | ignore | rejectNotImplemented
deriving Repr, DecidableEq

/-- `defaultMsgAcceptFunc` -/
def msgAccept (h : Hdr) : Accept :=
  if h.qr then .ignore
  else if h.opcode ≠ opcodeQuery ∧ h.opcode ≠ opcodeNotify then .rejectNotImplemented
  else if h.qdcount ≠ 1 then .reject
  else if h.ancount > 1 then .reject
  else if h.nscount > 1 then .reject
  else if h.arcount > 2 then .reject
  else .accept

/-- the reply of the reject branch: the request header turned into a response (sections dropped) -/
def rejectReply (h : Hdr) (rcode : Nat) : Response :=
  { id := h.id, response := true, opcode := h.opcode, rd := h.rd, cd := h.cd, rcode := rcode,
    aa := h.aa, tc := h.tc }

/-- `Server.serveDNS`: `unpacked = none` stands for a body that does not unpack -/
def serveDNS (h : Hdr) (unpacked : Option Query) (handler : Query → Outcome) : Outcome :=
  match msgAccept h with
  | .ignore => .noReply
  | .rejectNotImplemented => .reply (rejectReply h rcodeNotImplemented)
  | .reject => .reply (rejectReply h rcodeFormatError)
  | .accept =>
    match unpacked with
    | none => .reply (rejectReply h rcodeFormatError)
    | some q => handler q

/-- packet → reply of a listener -/
def listener (cfg : Cfg) (who : Query → Outcome) (h : Hdr) (unpacked : Option Query)
    (db : MaxAns → Query → Outcome) : Outcome :=
  serveDNS h unpacked (fun q => chain cfg who q db)

/-! ### Truncation (coredns `request.Size` / `Scrub`, `dns.Msg.Truncate` abstract) -/

/-- `request.Size()` = `edns.Size(proto, optSize)` -/
def sizeLimit (q : Query) : Nat :=
  match q.proto with
  | .tcp => maxMsgSize
  | .udp =>
    let s := q.ednsSize.getD 0
    if s < minMsgSize then minMsgSize else s

/-- abstract truncation rule: `size` is the packed length, `cut n r` what `Truncate(n)` leaves of a
reply that does not fit -/
structure TruncRule where
  size : Response → Nat
  cut : Nat → Response → Response
  /-- the result fits -/
  cut_fits : ∀ n r, size (cut n r) ≤ n
  /-- dropping answer or authority records sets TC -/
  cut_tc : ∀ n r, (cut n r).answer ≠ r.answer ∨ (cut n r).ns ≠ r.ns → (cut n r).tc = true

def fits (T : TruncRule) (r : Response) (n : Nat) : Bool := T.size r ≤ n

/-- `Scrub`: `reply.Truncate(r.Size())` -/
def scrub (T : TruncRule) (q : Query) (r : Response) : Response :=
  if fits T r (sizeLimit q) then r else T.cut (sizeLimit q) r

def scrubOutcome (T : TruncRule) (q : Query) : Outcome → Outcome
  | .reply r => .reply (scrub T q r)
  | o => o

/-- a database handler that computes a complete reply `core` and scrubs it before writing
(`writeAndLog`) -/
def scrubbedDb (T : TruncRule) (core : MaxAns → Query → Outcome) : MaxAns → Query → Outcome :=
  fun m q => scrubOutcome T q (core m q)

end DnsVerif.Chain
