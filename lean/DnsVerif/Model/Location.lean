/-
Model of the client → location step: `db/location.go` (`FindECS`, `FindLocation`, `EcsLocation`,
`ResolverLocation`, `findLocation`) and the two drivers' `FindMap` / `GetLocationByMap`
(`db/cdbdriver.go`, `db/rdbdriver.go` incl. `findMapInSortedData`). Go slice/index panics are an
explicit outcome. Core Lean only.
-/
import DnsVerif.Model.Store
import DnsVerif.Model.Rearranger

namespace DnsVerif.Loc
open DnsVerif DnsVerif.Name DnsVerif.Rdb

inductive Backend where
  | cdb (separateBitmap : Bool)
  | rdbV1
  | rdbV2
deriving Repr, DecidableEq

inductive Res (α : Type) where
  | ok (a : α)
  | err          -- an error return
  | panic        -- a Go run-time panic (index / slice bounds)
deriving Repr

/-- first value of a key, `none` when absent (CDB `FindNext` after `FindStart`, RocksDB
`FindFirst`/`Find`) -/
def first (s : Store) (k : Bytes) : Option Bytes := (s.get k).head?

/-! ### name → map id -/

/-- candidate keys of the label-by-label search: exact name, then wildcard at every ancestor -/
def mapKeys (mtype : Bytes) : Nat → Bytes → Bool → List Bytes
  | 0, _, _ => []
  | fuel + 1, domain, isFirst =>
    let k := mtype ++ domain ++ [if isFirst then 0x3d else 0x2a]
    match domain with
    | [] => [k]                       -- malformed; Go would panic on domain[0]
    | n :: rest => if n = 0 then [k] else k :: mapKeys mtype fuel (rest.drop n.toNat) false

/-- `FindMap` of the CDB driver and of the RocksDB driver with v1 keys -/
def findMapV1 (s : Store) (domain mtype : Bytes) : Option Bytes :=
  (mapKeys mtype (domain.length + 1) domain true).findSome? (first s)

/-- inner loop of `findCommonLongestPrefix`: compare `n` label bytes from index `j`;
`none` = index out of range (a Go panic) -/
def labelMatch (str1 str2 : Bytes) : Nat → Nat → Option Bool
  | _, 0 => some true
  | j, n + 1 =>
    match str1[j]?, str2[j]? with
    | some a, some b => if a ≠ b then some false else labelMatch str1 str2 (j + 1) n
    | _, _ => none

/-- `findCommonLongestPrefix(str1, str2)`; `none` = index out of range -/
def commonPrefix (str1 str2 : Bytes) : Nat → Nat → Option Nat
  | 0, i => some i
  | fuel + 1, i =>
    match str1[i]?, str2[i]? with
    | some a, some b =>
      if a ≠ b then some i
      else
        match labelMatch str1 str2 (i + 1) a.toNat with
        | none => none
        | some true => commonPrefix str1 str2 fuel (i + a.toNat + 1)
        | some false => some i
    | _, _ => some i

/-- the stored bytes of a RocksDB value (chunk-encoded list) -/
def rawValue (vals : List Bytes) : Bytes := appendValues [] vals

/-- `getLengthWithoutLastLabel(qName, qLength)`: byte-typed counter `i` -/
def lengthWithoutLastLabel (q : Bytes) (qLength : Nat) : Nat → Nat → Nat → Option Nat
  | 0, _, last => some (last + 1)
  | fuel + 1, i, last =>
    if i < (qLength % 256 + 255) % 256 then
      match q[i]? with
      | none => none
      | some n => lengthWithoutLastLabel q qLength fuel ((i + n.toNat + 1) % 256) i
    else some (last + 1)

/-- `findMapInSortedData` (RocksDB v2 keys). `k` has capacity `|rev| + 3`. -/
def findMapSorted (s : Store) (domain mtype : Bytes) : Res (Option Bytes) :=
  match reverseWire domain with
  | none => .panic
  | some rev =>
    let cap := rev.length + 3
    let rec go (fuel : Nat) (kBody : Bytes) (suffix : UInt8) : Res (Option Bytes) :=
      match fuel with
      | 0 => .ok none
      | fuel + 1 =>
        let k := kBody ++ [suffix]
        match s.seekForPrev k with
        | none => .ok none                                  -- iterator invalid: nil key → break
        | some (fk, vals) =>
          if fk = k then
            let raw := rawValue vals
            if raw.length < 4 then .panic else .ok (some (raw.drop 4))
          else if fk.length < 2 ∨ fk.take 2 ≠ mtype then .ok none
          else
            let foundLabel := (fk.drop 2).take (fk.length - 3)
            match commonPrefix rev foundLabel (rev.length + 1) 0 with
            | none => .panic
            | some length0 =>
              -- the wildcard map of the queried name itself does not cover it: go to the parent
              let length? : Option Nat :=
                if length0 = rev.length then (lengthWithoutLastLabel rev length0 256 0 0).map (· - 1)
                else some length0
              match length? with
              | none => .panic
              | some length =>
                if length = 0 ∧ kBody.length = 3 then .ok none       -- the root was the last candidate
                else if 2 + length + 2 > cap then .panic       -- k[:prefixLen+length+1+len(suffix)]
                else go fuel (mtype ++ (rev.take length) ++ [0]) 0x2a
    go (rev.length + 2) (mtype ++ rev) 0x3d

def findMap (b : Backend) (s : Store) (domain mtype : Bytes) : Res (Option Bytes) :=
  match b with
  | .rdbV2 => findMapSorted s domain mtype
  | _ => .ok (findMapV1 s domain mtype)

/-! ### (map id, client subnet) → location -/

/-- the client network as `GetLocationByMap` receives it -/
structure ClientNet where
  ip16 : List UInt8         -- `ipnet.IP.To16()`
  ipLen4 : Bool             -- `len(ipnet.IP) == 4`
  maskOnes : Nat            -- `ipnet.Mask.Size()` (0 for a nil mask)
  maskBits : Nat := 128     -- length of the mask in bits (32 or 128)
  maskValid : Bool := true  -- `false` when `net.CIDRMask` returned nil (prefix length > bits)
deriving Repr

def isIPv4 (c : ClientNet) : Bool := c.ipLen4 || c.ip16.take 12 = Net.v4Prefix

/-- `ipnet.IP.Mask(ipnet.Mask)` rendered as 16 bytes; the unmasked address when `Mask` returns nil
(length mismatch between address and mask) -/
def maskedClientIP (c : ClientNet) : List UInt8 :=
  if ¬ c.maskValid then c.ip16
  else if c.maskBits = 32 then
    if c.ipLen4 ∨ c.ip16.take 12 = Net.v4Prefix then Net.maskIP c.ip16 (c.maskOnes + 96) else c.ip16
  else if c.ipLen4 then c.ip16
  else Net.maskIP c.ip16 c.maskOnes

/-- RocksDB: `SeekForPrev` on `marker ++ map ++ ip ++ [masklen]` over the whole database -/
def getLocationRdb (s : Store) (c : ClientNet) (mapID : Bytes) : Res (Option Bytes × Nat) :=
  let req := (c.maskOnes + (if isIPv4 c then 96 else 0)) % 256
  let key := Generated.dnsdata_RangePointKeyMarker ++ mapID ++ maskedClientIP c ++ [UInt8.ofNat req]
  match s.seekForPrev key with
  | none => .ok (none, 0)
  | some (fk, vals) =>
    let raw := rawValue vals
    if raw.isEmpty then .ok (none, 0)
    else if fk.length ≠ key.length ∨ fk.take 6 ≠ key.take 6 then .ok (none, 0)   -- not a range point of this map
    else if raw.length < 4 then .err
    else
      let v := raw.drop 4
      let mlen := (fk.getLast?.getD 0).toNat
      if v.length = 2 then .ok (some v, mlen)
      else if v.length = 0 then .ok (none, mlen)
      else .err

/-- CDB: prefix-length set (descending), mask, exact lookup -/
def getLocationCdb (s : Store) (sep : Bool) (c : ClientNet) (mapID : Bytes) : Res (Option Bytes × Nat) :=
  let isv4 := c.ipLen4 || c.ip16.take 12 = Net.v4Prefix     -- `ipnet.IP.To4() != nil`
  let maxMask := (c.maskOnes + (if isv4 then 96 else 0)) % 256
  let bitmapKey : Bytes := if sep then (if isv4 then [0, 0x34] else [0, 0x36]) else [0, 0x2f]
  match first s bitmapKey with
  | none => .ok (none, 0)
  | some maskLens =>
    -- the key is masked in place, cumulatively, from the longest to the shortest length
    let rec go : List UInt8 → List UInt8 → Res (Option Bytes × Nat)
      | [], _ => .ok (none, 0)
      | m :: rest, ip =>
        if m.toNat > maxMask then go rest ip
        else if isv4 ∧ m.toNat < 96 then go rest ip      -- IPv6 prefix lengths never match an IPv4 client
        else
          let ip' := Net.maskIP ip m.toNat
          match first s ([0, 0x25] ++ mapID ++ ip' ++ [m]) with
          | some loc => .ok (some loc, m.toNat)
          | none => go rest ip'
    go maskLens c.ip16

def getLocation (b : Backend) (s : Store) (c : ClientNet) (mapID : Bytes) : Res (Option Bytes × Nat) :=
  match b with
  | .cdb sep => getLocationCdb s sep c mapID
  | _ => getLocationRdb s c mapID

structure Location where
  mapID : Bytes := [0, 0]
  mask : Nat := 0
  locID : Bytes := [0, 0]
deriving Repr, DecidableEq

/-- `findLocation(q, mtype, ipnet)` -/
def findLocation (b : Backend) (s : Store) (q mtype : Bytes) (c : ClientNet) : Res Location :=
  match findMap b s q mtype with
  | .err => .err
  | .panic => .panic
  | .ok m =>
    let mapID : Bytes := match m with
      | some v => [v.getD 0 0, v.getD 1 0]       -- copy(location.MapID[:], mapID)
      | none => [0, 0]
    match getLocation b s c mapID with
    | .err => .err
    | .panic => .panic
    | .ok (loc, mask) =>
      match loc with
      | some l => .ok { mapID := mapID, mask := mask % 256, locID := [l.getD 0 0, l.getD 1 0] }
      | none => .ok { mapID := mapID }

/-- an EDNS client-subnet option as unpacked from the wire -/
structure Ecs where
  family : Nat
  sourceMask : Nat
  scope : Nat
  addr : List UInt8          -- 4 bytes (family 1), 16 bytes (family 2), possibly empty
deriving Repr, DecidableEq

def to16 (a : List UInt8) : List UInt8 :=
  if a.length = 4 then Net.v4Prefix ++ a else if a.length = 16 then a else List.replicate 16 0

/-- `EcsLocation`: location (if any) and the scope to echo -/
def ecsLocation (b : Backend) (s : Store) (q : Bytes) (e : Ecs) : Res (Option Location × Nat) :=
  let bits := if e.family = 2 then 128 else 32
  let ones := if e.sourceMask ≤ bits then e.sourceMask else 0    -- CIDRMask returns nil when ones > bits
  let c : ClientNet := { ip16 := to16 e.addr, ipLen4 := e.addr.length = 4, maskOnes := ones,
                         maskBits := bits, maskValid := e.sourceMask ≤ bits }
  match findLocation b s q [0, 0x38] c with
  | .err => .err
  | .panic => .panic
  | .ok loc =>
    if loc.mapID = [0, 0] then .ok (none, 0)      -- no client-subnet map for the name: scope 0
    else if loc.locID ≠ [0, 0] then
      let sc := if e.family = 1 then (loc.mask + 256 - 96) % 256 else loc.mask
      .ok (some loc, sc)
    else .ok (none, if e.family = 2 then 48 else 24)

/-- `ResolverLocation` -/
def resolverLocation (b : Backend) (s : Store) (q : Bytes) (ip16 : List UInt8) : Res Location :=
  let v4 := ip16.take 12 = Net.v4Prefix
  findLocation b s q [0, 0x4d] { ip16 := ip16, ipLen4 := false, maskOnes := if v4 then 32 else 128,
                                 maskBits := if v4 then 32 else 128 }

/-- `FindLocation`: `(scope to echo if the query had ECS, location)`. The Go code recovers panics
here and turns them into an error. -/
def findLocationTop (b : Backend) (s : Store) (q : Bytes) (ecs : Option Ecs) (resolver : List UInt8) :
    Res (Option Nat × Location) :=
  let recov {α} : Res α → Res α
    | .panic => .err
    | r => r
  let (scope, loc?) : Res (Option Nat) × Option Location :=
    match ecs with
    | none => (.ok none, none)
    | some e =>
      match recov (ecsLocation b s q e) with
      | .ok (l, sc) => (.ok (some sc), l)
      | _ => (.err, none)
  match scope with
  | .ok sc =>
    let needResolver := match loc? with
      | none => true
      | some l => l.locID = [0, 0]
    if needResolver then
      match recov (resolverLocation b s q resolver) with
      | .ok l => .ok (sc, l)
      | _ => .err
    else .ok (sc, loc?.getD {})
  | _ => .err

end DnsVerif.Loc
