/-
Domain names as the data compiler and the server handle them: text form (`a.b.c`, bytes), wire form
(length-prefixed labels, terminated by 0), the reversed wire form of the v2 key layout, ASCII
lower-casing, wild-safe labels. Models `putdom`, `putreverseddom` (dnsdata/data.go),
`reverseZoneNameToBuffer`, `dnsLabelWildsafe`, `findCommonLongestPrefix`,
`getLengthWithoutLastLabel` (db/answer*.go). Core Lean only.
-/
import DnsVerif.Model.Bytes

namespace DnsVerif.Name
open DnsVerif

/-- `bytes.ToLower` on ASCII input (the generator and `WellFormed` keep names ASCII) -/
def lowerByte (b : UInt8) : UInt8 := if 0x41 ≤ b.toNat ∧ b.toNat ≤ 0x5a then UInt8.ofNat (b.toNat + 32) else b
def toLower (b : Bytes) : Bytes := b.map lowerByte

/-- `bytes.Split(a, ".")` -/
def splitDots : Bytes → List Bytes
  | [] => [[]]
  | c :: rest =>
    if c = 0x2e then [] :: splitDots rest
    else match splitDots rest with
      | [] => [[c]]
      | l :: ls => (c :: l) :: ls

/-- one label as `putdom` writes it: `n := byte(len(s))`; skipped when `n = 0`; `s[:n]` -/
def putLabel (s : Bytes) : Bytes :=
  let n := s.length % 256
  if n = 0 then [] else UInt8.ofNat n :: s.take n

/-- `putdom` -/
def putdom (a : Bytes) : Bytes := (splitDots a).flatMap putLabel ++ [0]

/-- `putreverseddom`: writes the whole label `s` (not `s[:n]`) after the truncated length byte -/
def putLabelRev (s : Bytes) : Bytes :=
  let n := s.length % 256
  if n = 0 then [] else UInt8.ofNat n :: s

def putreverseddom (a : Bytes) : Bytes := (splitDots a).reverse.flatMap putLabelRev ++ [0]

/-! ### wire-form names -/

/-- labels of a packed name (`none` if malformed / truncated); fuel = length -/
def labels : Nat → Bytes → Option (List Bytes)
  | 0, _ => none
  | _ + 1, [] => none
  | fuel + 1, n :: rest =>
    if n = 0 then some []
    else if rest.length < n.toNat then none
    else match labels fuel (rest.drop n.toNat) with
      | some ls => some (rest.take n.toNat :: ls)
      | none => none

def unpack (q : Bytes) : Option (List Bytes) := labels (q.length + 1) q

def pack (ls : List Bytes) : Bytes := ls.flatMap (fun l => UInt8.ofNat l.length :: l) ++ [0]

/-- `reverseZoneName` on a well-formed packed name -/
def reverseWire (q : Bytes) : Option Bytes := (unpack q).map fun ls => pack ls.reverse

/-- `dnsLabelWildsafe` -/
def wildsafeByte (c : UInt8) : Bool :=
  (0x61 ≤ c.toNat && c.toNat ≤ 0x7a) || (0x30 ≤ c.toNat && c.toNat ≤ 0x39) || c.toNat = 0x2d || c.toNat = 0x5f
def wildsafe (l : Bytes) : Bool := l.all wildsafeByte

/-- parent of a packed name: `q[1+q[0]:]` (callers check `q[0] ≠ 0`) -/
def parentWire : Bytes → Bytes
  | [] => []
  | n :: rest => rest.drop n.toNat

/-- all suffixes of a packed name from itself up to the root, as packed names -/
def ancestorsOrSelf : Nat → Bytes → List Bytes
  | 0, q => [q]
  | _ + 1, [] => [[]]
  | fuel + 1, n :: rest => if n = 0 then [[0]] else (n :: rest) :: ancestorsOrSelf fuel (rest.drop n.toNat)

end DnsVerif.Name
