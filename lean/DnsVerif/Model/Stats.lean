/-
Model of the statistics / query-log side effects of `ServeDNSWithRCODE` and `writeAndLog`
(dnsserver/handler.go): which counters one handled query increments and how often the logger is
called, as a function of the path taken and of the response actually sent. `Counter.name` gives the
literals of the Go source (the per-type counter is rendered `T<qtype>`: the name table is miekg's).
Core Lean only.
-/
namespace DnsVerif.Stats

inductive LocClass where
  | ecs | empty | dflt | fallbackDefault | resolver
deriving Repr, DecidableEq

inductive Counter where
  | queries
  | doBit
  | qtype (t : Nat)
  | location (c : LocClass)
  | cacheHit
  | cacheMissed
  | errIsAuthoritative
  | respRefused
  | respAuthoritative
  | respNotAuthoritative
  | notAuthoritative
  | nxdomain
  | refused
  | badvers
  | nodata
deriving Repr, DecidableEq

def Counter.name : Counter → String
  | .queries => "DNS_queries"
  | .doBit => "DNS_queries.edns0.do_bit"
  | .qtype t => s!"T{t}"
  | .location .ecs => "DNS_location.ecs"
  | .location .empty => "DNS_location.empty"
  | .location .dflt => "DNS_location.default"
  | .location .fallbackDefault => "DNS_location.fallback_default"
  | .location .resolver => "DNS_location.resolver"
  | .cacheHit => "DNS_cache.hit"
  | .cacheMissed => "DNS_cache.missed"
  | .errIsAuthoritative => "DNS_error.is_authoritative"
  | .respRefused => "DNS_response.refused"
  | .respAuthoritative => "DNS_response.authoritative"
  | .respNotAuthoritative => "DNS_response.not_authoritative"
  | .notAuthoritative => "DNS_queries_notauthoritative"
  | .nxdomain => "DNS_queries_nxdomain"
  | .refused => "DNS_queries_refused"
  | .badvers => "DNS_queries_badvers"
  | .nodata => "DNS_queries_nodata"

/-- how the handler finished -/
inductive Path where
  | badvers
  | locationError                       -- FindLocation failed / nil location: LogFailed, nothing written
  | handleFailed                        -- IsAuthoritative error: bare SERVFAIL via dns.HandleFailed
  | noReply                             -- a later error: nothing written, nothing logged
  | cacheHit (rcode : Nat) (aa answerEmpty : Bool)
  | reply (rcode : Nat) (aa answerEmpty : Bool)
deriving Repr, DecidableEq

structure Effects where
  counters : List Counter
  logCalls : Nat
  logFailedCalls : Nat
deriving Repr, DecidableEq

/-- the counters of `writeAndLog` for a message with this rcode / AA flag / answer emptiness -/
def writeCounters (rcode : Nat) (aa answerEmpty : Bool) : List Counter :=
  (if aa then [] else [.notAuthoritative])
  ++ (if rcode = 3 then [.nxdomain]
      else if rcode = 5 then [.refused]
      else if rcode = 16 then [.badvers]
      else if rcode = 0 ∧ answerEmpty then [.nodata]
      else [])

/-- everything one handled query does to the statistics and the log -/
def effects (qtype : Nat) (doBit cacheOn : Bool) (loc : LocClass) (p : Path) : Effects :=
  let base : List Counter := [.queries] ++ (if doBit then [.doBit] else []) ++ [.qtype qtype]
  let miss : List Counter := if cacheOn then [.cacheMissed] else []
  match p with
  | .badvers => { counters := base ++ writeCounters 16 false true, logCalls := 1, logFailedCalls := 0 }
  | .locationError => { counters := base, logCalls := 0, logFailedCalls := 1 }
  | .handleFailed =>
    { counters := base ++ [.location loc] ++ miss ++ [.errIsAuthoritative], logCalls := 0, logFailedCalls := 0 }
  | .noReply => { counters := base ++ [.location loc] ++ miss, logCalls := 0, logFailedCalls := 0 }
  | .cacheHit rcode aa ae =>
    { counters := base ++ [.location loc, .cacheHit] ++ writeCounters rcode aa ae,
      logCalls := 1, logFailedCalls := 0 }
  | .reply rcode aa ae =>
    { counters := base ++ [.location loc] ++ miss
        ++ (if rcode = 5 then [.respRefused]
            else if aa then [.respAuthoritative] else [.respNotAuthoritative])
        ++ writeCounters rcode aa ae,
      logCalls := 1, logFailedCalls := 0 }

/-- `loc.Mask > 0` ⇒ ecs; otherwise by location id -/
def locClass (mask : Nat) (locID : List UInt8) : LocClass :=
  if mask > 0 then .ecs
  else if locID = [0, 0] then .empty
  else if locID = [0, 1] then .dflt
  else if locID = [0, 2] then .fallbackDefault
  else .resolver

end DnsVerif.Stats
