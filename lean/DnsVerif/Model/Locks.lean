/-
C14 — a generic semantics of mutex / RWMutex protected accesses (core Lean only).

Threads (identified by a `Tid`) perform `acquire l mode`, `release l mode` and `access field write`
actions. The state is the multiset of currently held locks. An execution is ANY interleaving of
actions of ANY number of threads in which every `acquire` respects lock exclusion (an exclusive
acquire needs the lock free, a shared acquire needs it not exclusively held) — the program itself
is left completely arbitrary, so whatever is proved holds for every program and every schedule.

An *access row* (one line of the extracted lock table) claims: "the thread performing this access
holds these locks in these modes". Two rows are *co-enabled* when some reachable state has two
different threads each holding the locks of its row, i.e. both accesses can be the next step.
A *race* is a conflicting (same field, at least one write, both outside the initialisation phase)
co-enabled pair.
-/
namespace DnsVerif.Locks

abbrev Lock := String
abbrev Tid := Nat

/-- One held lock: who holds it, which lock, exclusively (`Lock`) or shared (`RLock`). -/
structure Held where
  tid : Tid
  lock : Lock
  excl : Bool
deriving DecidableEq, Repr

/-- The lock state: every lock currently held by some thread. -/
abbrev State := List Held

inductive Action where
  | acquire (l : Lock) (excl : Bool)
  | release (l : Lock) (excl : Bool)
  | access (field : String) (write : Bool)
deriving Repr

/-- Lock exclusion. `sync.Mutex.Lock` / `RWMutex.Lock` (excl) proceed only when nobody holds the
lock; `RWMutex.RLock` proceeds only when nobody holds it exclusively. (Go mutexes are not
re-entrant, so the requesting thread's own holdings count as well.) -/
def CanAcquire (s : State) (l : Lock) (excl : Bool) : Prop :=
  ∀ h ∈ s, h.lock = l → h.excl = false ∧ excl = false

inductive Step : State → Tid → Action → State → Prop where
  | acquire {s : State} {t : Tid} {l : Lock} {e : Bool} :
      CanAcquire s l e → Step s t (.acquire l e) (⟨t, l, e⟩ :: s)
  | release {s : State} {t : Tid} {l : Lock} {e : Bool} :
      Step s t (.release l e) (s.erase ⟨t, l, e⟩)
  | access {s : State} {t : Tid} {f : String} {w : Bool} :
      Step s t (.access f w) s

/-- States reachable by any interleaving of any threads' actions from "no lock held". -/
inductive Reachable : State → Prop where
  | init : Reachable []
  | step {s s' : State} {t : Tid} {a : Action} : Reachable s → Step s t a s' → Reachable s'

/-- One row of a lock table. -/
structure Access where
  field : String
  write : Bool
  /-- (lock, held exclusively) -/
  locks : List (Lock × Bool)
  /-- performed only before the object is shared -/
  init : Bool
deriving Repr

/-- Thread `t` is at access `a` in state `s`: it holds every lock of the row in the recorded mode. -/
def Holds (s : State) (t : Tid) (a : Access) : Prop :=
  ∀ p ∈ a.locks, (⟨t, p.1, p.2⟩ : Held) ∈ s

/-- Both accesses can be the next step of two different threads in some reachable state. -/
def CoEnabled (a b : Access) : Prop :=
  ∃ (s : State) (t₁ t₂ : Tid), Reachable s ∧ t₁ ≠ t₂ ∧ Holds s t₁ a ∧ Holds s t₂ b

def Conflict (a b : Access) : Prop :=
  a.field = b.field ∧ (a.write = true ∨ b.write = true) ∧ a.init = false ∧ b.init = false

/-- A data race: two conflicting accesses with no synchronisation ordering them. -/
def Race (a b : Access) : Prop := Conflict a b ∧ CoEnabled a b

/-- The decidable lockset criterion: some access is init-phase, or both are reads, or the two
locksets share a lock that at least one side holds exclusively. -/
def compatible (a b : Access) : Bool :=
  a.init || b.init || (!a.write && !b.write) ||
    a.locks.any fun l => b.locks.any fun m => l.1 == m.1 && (l.2 || m.2)

/-! ### Lock order -/

/-- A non-empty walk along lock-order edges. A lock-order deadlock (thread `i` holds `lᵢ` and waits
for `lᵢ₊₁`, cyclically) is a closed walk, since each (held, wanted) pair is an edge. -/
inductive Walk (es : List (Lock × Lock)) : Lock → Lock → Prop where
  | edge {a b : Lock} : (a, b) ∈ es → Walk es a b
  | cons {a b c : Lock} : (a, b) ∈ es → Walk es b c → Walk es a c

/-- Length of the longest edge path ending in `x`, explored to depth `fuel`. -/
def rank (es : List (Lock × Lock)) : Nat → Lock → Nat
  | 0, _ => 0
  | fuel + 1, x => es.foldl (fun acc e => if e.2 == x then max acc (rank es fuel e.1 + 1) else acc) 0

/-- Every edge goes strictly upwards in `rank` (computed with fuel = number of edges). -/
def rankedB (es : List (Lock × Lock)) : Bool :=
  es.all fun e => rank es es.length e.1 < rank es es.length e.2

end DnsVerif.Locks
