/-
Model of `/repo/dnsrocks/db/wrs.go` (weighted random sample of A / AAAA records). Core Lean only.

The model is generic in the key type `κ`: the theorems (Props/C11) take an arbitrary linear order
with a least element `zero`; the driver instantiates `κ := Float` and computes the keys with the
same expression as the Go code. The only operations the code performs on keys are `<` and `>`,
both expressed here through `<`.

Go code transcribed (quirks kept):

* `Add` rejects every type but A (1) and AAAA (28) *before* drawing a random number.
* a record with `Weight == 0` is counted in its family's counter and otherwise ignored: no random
  number is drawn, no key computed, the slice is not touched.
* the per-family counter is a `uint32` (wraps at 2^32) and counts every candidate, kept or not,
  of any weight.
* `MaxAnswers == 1`  → `checkAndReplaceRecord`: append to an empty slice, else overwrite slot 0 iff
  the new key is strictly larger (`wrsItem.Key > items[0].Key`); a newcomer loses ties.
* otherwise → `addRecord`: append while `len(items) < MaxAnswers` (an `int`; for `MaxAnswers ≤ 0`
  nothing is ever kept); else scan left to right with `minKey := key; idx := -1` and
  `if v.Key < minKey { minKey = v.Key; idx = i }`, i.e. find the FIRST slot holding the smallest
  kept key provided that key is strictly below the new key, and overwrite that slot.
* `record`: `localRand.Shuffle` (an arbitrary permutation of the kept items: NOT modelled, the
  answer is compared as a set) and then EVERY kept item is emitted, whatever its key.
* `WeightedAnswer`: `V4Count > 1 || V6Count > 1`.
-/

namespace DnsVerif.Wrs

/-- a kept item: its random key and its payload (TTL and address in the Go code) -/
structure Item (κ α : Type) where
  key : κ
  val : α
deriving Repr, DecidableEq

variable {κ α : Type} [LT κ] [DecidableLT κ]

/-- the `for i, v := range items { if v.Key < minKey { minKey = v.Key; idx = i } }` loop;
`idx = none` is Go's `-1`, `i` the index of the head of the remaining slice -/
def scanMin (minKey : κ) (idx : Option Nat) (i : Nat) : List (Item κ α) → Option Nat
  | [] => idx
  | v :: vs =>
    if v.key < minKey then scanMin v.key (some i) (i + 1) vs
    else scanMin minKey idx (i + 1) vs

/-- closure `addRecord` of `Wrs.Add` -/
def addRecord (maxAnswers : Int) (items : List (Item κ α)) (new : Item κ α) : List (Item κ α) :=
  if (items.length : Int) < maxAnswers then items ++ [new]
  else
    match scanMin new.key none 0 items with
    | none => items
    | some idx => items.set idx new

/-- closure `checkAndReplaceRecord` of `Wrs.Add` -/
def checkAndReplace (items : List (Item κ α)) (new : Item κ α) : List (Item κ α) :=
  match items with
  | [] => [new]
  | x :: rest => if x.key < new.key then new :: rest else items

/-- what `Add` does to the slice of one family -/
def addFam (maxAnswers : Int) (items : List (Item κ α)) (new : Item κ α) : List (Item κ α) :=
  if maxAnswers = 1 then checkAndReplace items new else addRecord maxAnswers items new

def typeA : Nat := 1
def typeAAAA : Nat := 28

structure State (κ α : Type) where
  maxAnswers : Int
  v4 : List (Item κ α) := []
  v4Count : Nat := 0
  v6 : List (Item κ α) := []
  v6Count : Nat := 0

inductive Err where
  | unsupportedType
deriving Repr, DecidableEq

/-- `Wrs.Add`; `weight` is `rec.Weight`, `new.key` the value of
`math.Pow(u·(1/MaxUint32), 1/weight)` drawn for this record (drawn, and looked at, only if the type
is supported and the weight is not 0) -/
def State.add (w : State κ α) (qtype : Nat) (weight : Nat) (new : Item κ α) :
    Except Err (State κ α) :=
  if qtype ≠ typeA ∧ qtype ≠ typeAAAA then .error .unsupportedType
  else if weight = 0 then
    if qtype = typeA then .ok { w with v4Count := (w.v4Count + 1) % 4294967296 }
    else .ok { w with v6Count := (w.v6Count + 1) % 4294967296 }
  else if qtype = typeA then
    .ok { w with v4Count := (w.v4Count + 1) % 4294967296, v4 := addFam w.maxAnswers w.v4 new }
  else
    .ok { w with v6Count := (w.v6Count + 1) % 4294967296, v6 := addFam w.maxAnswers w.v6 new }

/-- `ARecord` (up to the order of the result): the emission loop of `Wrs.record` after the shuffle
emits every kept item -/
def State.aRecord (w : State κ α) : List (Item κ α) := w.v4
/-- `AAAARecord` (up to the order of the result) -/
def State.aaaaRecord (w : State κ α) : List (Item κ α) := w.v6

/-- `WeightedAnswer` -/
def State.weightedAnswer (w : State κ α) : Bool := decide (w.v4Count > 1) || decide (w.v6Count > 1)

/-- a candidate as the callers present it: record type, weight, drawn key (meaningless for
weight 0: nothing is drawn), payload -/
structure Cand (κ α : Type) where
  qtype : Nat
  weight : Nat
  item : Item κ α

/-- the callers' loop (`FindAnswer.parseResult`, `AdditionalSectionForRecords.parseRecord`):
`Add` for every candidate, an error leaves the state unchanged (it is logged) -/
def run (maxAnswers : Int) (cands : List (Cand κ α)) : State κ α :=
  cands.foldl (fun w c => match w.add c.qtype c.weight c.item with
    | .ok w' => w'
    | .error _ => w) { maxAnswers := maxAnswers }

end DnsVerif.Wrs
