/-
Model of the RocksDB multi-value store of `dnsdata/rdb/rdb.go` + `rdb_util.go`:
value codec (`appendValues`, `delValue`, `ReadNextChunk`), `Add`, `Del`, `Batch`
(`getAffectedKeys`, `integrate`, `ExecuteBatch`), `Find`, `ForEach`.

RocksDB itself (Get/Put/Delete/GetMulti/WriteBatch atomicity) is external: it enters as the abstract
key-value map `KV`. Core Lean only.
-/
import DnsVerif.Model.Bytes

namespace DnsVerif.Rdb
open DnsVerif

/-! ### byte order (RocksDB bytewise comparator, Go `bytes.Compare`) -/

def bytesLt : Bytes → Bytes → Bool
  | [], [] => false
  | [], _ :: _ => true
  | _ :: _, [] => false
  | a :: as, b :: bs => if a.toNat < b.toNat then true else if b.toNat < a.toNat then false else bytesLt as bs

def bytesLe (a b : Bytes) : Bool := !bytesLt b a

/-! ### value codec -/

/-- `binary.LittleEndian.PutUint32(b, uint32(n))` (truncating like the Go conversion) -/
def le32 (n : Nat) : Bytes :=
  [UInt8.ofNat (n % 256), UInt8.ofNat (n / 256 % 256), UInt8.ofNat (n / 65536 % 256),
   UInt8.ofNat (n / 16777216 % 256)]

/-- `binary.LittleEndian.Uint32(data)` when at least 4 bytes are present -/
def rd32 : Bytes → Option Nat
  | a :: b :: c :: d :: _ => some (a.toNat + b.toNat * 256 + c.toNat * 65536 + d.toNat * 16777216)
  | _ => none

/-- `appendValues(data, newVals)` -/
def appendValues (data : Bytes) (newVals : List Bytes) : Bytes :=
  newVals.foldl (fun d v => d ++ le32 v.length ++ v) data

inductive Err where
  | unexpectedEOF
  | nxVal
  | nxKey
  | internal
  | fuel
deriving DecidableEq, Repr

/-- The scanning loop of `delValue`: `pre` is `data[:i]`, `rest` is `data[i:]`. -/
def delValueGo (value : Bytes) : Nat → Bytes → Bytes → Except Err Bytes
  | _, pre, [] => let _ := pre; .error .nxVal
  | 0, _, _ :: _ => .error .fuel
  | fuel + 1, pre, rest =>
    match rd32 rest with
    | none => .error .unexpectedEOF
    | some n =>
      let chunkLen := n + 4
      if chunkLen > rest.length then .error .unexpectedEOF
      else
        let v := (rest.take chunkLen).drop 4
        if v = value then .ok (pre ++ rest.drop chunkLen)
        else delValueGo value fuel (pre ++ rest.take chunkLen) (rest.drop chunkLen)

/-- `delValue(data, value)` -/
def delValue (data value : Bytes) : Except Err Bytes :=
  delValueGo value data.length [] data

/-- `ReadNextChunk`: `none` is `io.EOF`. -/
def readNextChunk (data : Bytes) : Except Err (Option (Bytes × Bytes)) :=
  match data with
  | [] => .ok none
  | _ =>
    match rd32 data with
    | none => .error .unexpectedEOF
    | some n =>
      let chunkLen := n + 4
      if data.length < chunkLen then .error .unexpectedEOF
      else .ok (some ((data.take chunkLen).drop 4, data.drop chunkLen))

/-- All chunks of a stored value (the loop of `ForEach`); error on malformed data. -/
def readAll : Nat → Bytes → Except Err (List Bytes)
  | _, [] => .ok []
  | 0, _ :: _ => .error .fuel
  | fuel + 1, data =>
    match readNextChunk data with
    | .error e => .error e
    | .ok none => .ok []
    | .ok (some (v, rest)) =>
      match readAll fuel rest with
      | .error e => .error e
      | .ok vs => .ok (v :: vs)

def decode (data : Bytes) : Except Err (List Bytes) := readAll data.length data

/-! ### the key-value store (RocksDB, abstract) -/

abbrev KV := List (Bytes × Bytes)

def KV.get (s : KV) (k : Bytes) : Option Bytes := (s.find? (·.1 = k)).map (·.2)
def KV.delete (s : KV) (k : Bytes) : KV := s.filter (·.1 ≠ k)
def KV.put (s : KV) (k v : Bytes) : KV := (k, v) :: s.delete k

/-- `RDB.Add` -/
def add (s : KV) (k v : Bytes) : KV :=
  s.put k (appendValues ((s.get k).getD []) [v])

/-- `RDB.Del` -/
def del (s : KV) (k v : Bytes) : Except Err KV :=
  match s.get k with
  | none => .error .nxKey
  | some data =>
    match delValue data v with
    | .error e => .error e
    | .ok nd => if nd.isEmpty then .ok (s.delete k) else .ok (s.put k nd)

/-- `RDB.ForEach` collecting the values: `(values seen, error?)` -/
def forEach (s : KV) (k : Bytes) : Except Err (List Bytes) :=
  decode ((s.get k).getD [])

/-! ### batches -/

abbrev Pairs := List (Bytes × Bytes)

/-- insertion into a key-sorted list, after all entries with an equal key (stable) -/
def insertSorted (p : Bytes × Bytes) : Pairs → Pairs
  | [] => [p]
  | q :: qs => if bytesLt p.1 q.1 then p :: q :: qs else q :: insertSorted p qs

/-- `kvList.Sort` (modelled as a stable sort; Go's `sort.Slice` may permute equal keys, which the
theorems cover by quantifying over every key-sorted permutation). -/
def sortPairs (ps : Pairs) : Pairs := ps.foldl (fun acc p => insertSorted p acc) []

/-- The merge loop of `getAffectedKeys`. -/
def affectedGo : Nat → Pairs → Pairs → Option Bytes → List Bytes → List Bytes
  | 0, _, _, _, keys => keys
  | fuel + 1, a, d, last, keys =>
    match a, d with
    | [], [] => keys
    | _, _ =>
      match a, last with
      | ap :: as, some lk =>
        if lk = ap.1 then affectedGo fuel as d last keys
        else affectedStep fuel a d last keys
      | _, _ => affectedStep fuel a d last keys
where
  /-- the part of the loop body after the duplicate test on `addedPairs` -/
  affectedStep (fuel : Nat) (a d : Pairs) (last : Option Bytes) (keys : List Bytes) : List Bytes :=
    match d, last with
    | dp :: ds, some lk =>
      if lk = dp.1 then affectedGo fuel a ds last keys
      else affectedPush fuel a d keys
    | _, _ => affectedPush fuel a d keys
  affectedPush (fuel : Nat) (a d : Pairs) (keys : List Bytes) : List Bytes :=
    match a, d with
    | ap :: as, dp :: ds =>
      if bytesLt ap.1 dp.1 then affectedGo fuel as d (some ap.1) (keys ++ [ap.1])
      else affectedGo fuel a ds (some dp.1) (keys ++ [dp.1])
    | ap :: as, [] => affectedGo fuel as [] (some ap.1) (keys ++ [ap.1])
    | [], dp :: ds => affectedGo fuel [] ds (some dp.1) (keys ++ [dp.1])
    | [], [] => keys

def affectedKeys (a d : Pairs) : List Bytes :=
  affectedGo (2 * (a.length + d.length) + 1) a d none []

/-- `integrate`: per key, append the batch's additions for that key, then delete its deletions.
Returns the new values, or an error (first failing deletion, or the "internal error" when pairs are
left over). -/
def integrateGo : List Bytes → List Bytes → Pairs → Pairs → Except Err (List Bytes)
  | [], [], a, d => if a.isEmpty ∧ d.isEmpty then .ok [] else .error .internal
  | k :: ks, v :: vs, a, d =>
    let adds := a.takeWhile (·.1 = k)
    let a' := a.dropWhile (·.1 = k)
    let v1 := adds.foldl (fun acc p => appendValues acc [p.2]) v
    let dels := d.takeWhile (·.1 = k)
    let d' := d.dropWhile (·.1 = k)
    match dels.foldlM (fun acc p => delValue acc p.2) v1 with
    | .error e => .error e
    | .ok v2 =>
      match integrateGo ks vs a' d' with
      | .error e => .error e
      | .ok rest => .ok (v2 :: rest)
  | _, _, _, _ => .error .internal

/-- `RDB.ExecuteBatch` (`adds`, `dels` in the order they were scheduled). -/
def executeBatch (s : KV) (adds dels : Pairs) : Except Err KV :=
  if adds.isEmpty ∧ dels.isEmpty then .ok s
  else
    let a := sortPairs adds
    let d := sortPairs dels
    let keys := affectedKeys a d
    let vals := keys.map fun k => (s.get k).getD []
    match integrateGo keys vals a d with
    | .error e => .error e
    | .ok newVals =>
      .ok ((keys.zip newVals).foldl
        (fun st kv => if kv.2.isEmpty then st.delete kv.1 else st.put kv.1 kv.2) s)

end DnsVerif.Rdb
