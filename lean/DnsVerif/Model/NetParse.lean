/-
Models of the Go standard-library parsers the data compiler relies on, on the grammar they accept:
`net.ParseIP` (via `netip.ParseAddr`: dotted quad, full / `::`-compressed hex IPv6, embedded IPv4
tail; zones rejected), `net.ParseCIDR`, `strconv.ParseUint(s, 10, bits)`.
These are external code: the functions below are validated against the real ones by the
correspondence checks on generated inputs. Core Lean only.
-/
import DnsVerif.Model.Bytes

namespace DnsVerif.Net
open DnsVerif

def isDigit (c : UInt8) : Bool := 0x30 ≤ c.toNat && c.toNat ≤ 0x39

/-- `strconv.ParseUint(s, 10, bits)`: digits only, at least one, value < 2^bits -/
def parseUint (bits : Nat) (s : Bytes) : Option Nat :=
  if s.isEmpty then none
  else
    let rec go : Bytes → Nat → Option Nat
      | [], acc => some acc
      | c :: rest, acc =>
        if isDigit c then
          let v := acc * 10 + (c.toNat - 0x30)
          if v < 2 ^ bits then go rest v else none
        else none
    go s 0

/-- `parseIPv4Fields`: exactly four decimal octets, no leading zeros, each ≤ 255 -/
def parseIPv4Fields (s : Bytes) : Option (List UInt8) :=
  let rec go : Bytes → (val digLen pos : Nat) → (prevDot first : Bool) → List UInt8 → Option (List UInt8)
    | [], val, digLen, pos, _, _, acc =>
      if pos < 3 then none else let _ := digLen; some (acc ++ [UInt8.ofNat val])
    | c :: rest, val, digLen, pos, prevDot, first, acc =>
      if isDigit c then
        if digLen = 1 ∧ val = 0 then none
        else
          let v := val * 10 + (c.toNat - 0x30)
          if v > 255 then none else go rest v (digLen + 1) pos false false acc
      else if c = 0x2e then
        if first ∨ rest.isEmpty ∨ prevDot then none
        else if pos = 3 then none
        else go rest 0 0 (pos + 1) true false (acc ++ [UInt8.ofNat val])
      else none
  go s 0 0 0 false true []

def hexVal (c : UInt8) : Option Nat :=
  let k := c.toNat
  if 0x30 ≤ k ∧ k ≤ 0x39 then some (k - 0x30)
  else if 0x61 ≤ k ∧ k ≤ 0x66 then some (k - 0x61 + 10)
  else if 0x41 ≤ k ∧ k ≤ 0x46 then some (k - 0x41 + 10)
  else none

/-- scan one hex group: `(digits consumed, value, rest)`; `none` on > 4 digits -/
def hexGroup : Bytes → Nat → Nat → Option (Nat × Nat × Bytes)
  | [], off, acc => some (off, acc, [])
  | c :: rest, off, acc =>
    match hexVal c with
    | none => some (off, acc, c :: rest)
    | some v =>
      let acc' := acc * 16 + v
      if off > 3 then none
      else if acc' > 65535 then none
      else hexGroup rest (off + 1) acc'

/-- main loop of `parseIPv6` after an optional leading `::`; `ip` = bytes parsed so far (length `i`) -/
def v6Loop : Nat → Bytes → List UInt8 → Option Nat → Option (List UInt8 × Option Nat × Bytes)
  | 0, s, ip, ell => some (ip, ell, s)
  | fuel + 1, s, ip, ell =>
    if ip.length ≥ 16 then some (ip, ell, s)
    else
      match hexGroup s 0 0 with
      | none => none
      | some (off, acc, rest) =>
        if off = 0 then none
        else
          match rest with
          | 0x2e :: _ =>
            -- trailing IPv4
            if ell.isNone ∧ ip.length ≠ 12 then none
            else if ip.length + 4 > 16 then none
            else match parseIPv4Fields s with
              | none => none
              | some v4 => some (ip ++ v4, ell, [])
          | _ =>
            let ip' := ip ++ [UInt8.ofNat (acc / 256), UInt8.ofNat (acc % 256)]
            match rest with
            | [] => some (ip', ell, [])
            | c :: r1 =>
              if c ≠ 0x3a then none
              else match r1 with
                | [] => none
                | c2 :: r2 =>
                  if c2 = 0x3a then
                    if ell.isSome then none
                    else if r2.isEmpty then some (ip', some ip'.length, [])
                    else v6Loop fuel r2 ip' (some ip'.length)
                  else v6Loop fuel r1 ip' ell

def parseIPv6 (s : Bytes) : Option (List UInt8) :=
  if s.contains 0x25 then none            -- zones are rejected by net.ParseIP
  else
    let (s1, ell0) : Bytes × Option Nat := match s with
      | 0x3a :: 0x3a :: r => (r, some 0)
      | _ => (s, none)
    if ell0.isSome ∧ s1.isEmpty then some (List.replicate 16 0)
    else
      match v6Loop 17 s1 [] ell0 with
      | none => none
      | some (ip, ell, rest) =>
        if ¬ rest.isEmpty then none
        else if ip.length < 16 then
          match ell with
          | none => none
          | some e => some (ip.take e ++ List.replicate (16 - ip.length) 0 ++ ip.drop e)
        else if ell.isSome then none
        else some ip

def v4Prefix : List UInt8 := [0, 0, 0, 0, 0, 0, 0, 0, 0, 0, 0xff, 0xff]

/-- `net.ParseIP`: the 16-byte form (IPv4 as IPv4-mapped), `none` for nil -/
def parseIP (s : Bytes) : Option (List UInt8) :=
  match s.find? (fun c => c = 0x2e ∨ c = 0x3a ∨ c = 0x25) with
  | some 0x2e => (parseIPv4Fields s).map (v4Prefix ++ ·)
  | some 0x3a => parseIPv6 s
  | _ => none

/-- `ip.To4() != nil` -/
def isV4 (ip : List UInt8) : Bool := ip.length = 16 ∧ ip.take 12 = v4Prefix

/-- was the *text* an IPv4 dotted quad (netip `Is4`; decides the bit length in ParseCIDR) -/
def textIsV4 (s : Bytes) : Bool :=
  match s.find? (fun c => c = 0x2e ∨ c = 0x3a ∨ c = 0x25) with
  | some 0x2e => true
  | _ => false

/-- `dtoi`: leading decimal digits, capped like the Go helper (`0xFFFFFF`) -/
def dtoi : Bytes → Nat → Nat → Option (Nat × Nat)
  | [], n, i => if i = 0 then none else some (n, i)
  | c :: rest, n, i =>
    if isDigit c then
      let n' := n * 10 + (c.toNat - 0x30)
      if n' ≥ 0xFFFFFF then none else dtoi rest n' (i + 1)
    else if i = 0 then none else some (n, i)

def maskByte (ones i : Nat) : UInt8 :=
  -- byte `i` of a mask with `ones` leading one bits
  let k := ones - 8 * i
  if ones ≤ 8 * i then 0 else if k ≥ 8 then 0xff else UInt8.ofNat (256 - 2 ^ (8 - k))

/-- `net.CIDRMask(ones, 128)` applied to a 16-byte address -/
def maskIP (ip : List UInt8) (ones : Nat) : List UInt8 :=
  ip.zipIdx.map fun (b, i) => UInt8.ofNat (b.toNat &&& (maskByte ones i).toNat)

/-- `net.ParseCIDR` followed by the normalisation in `Rnet.UnmarshalText`: network address in
16-byte form (host bits cleared) and prefix length on the 128-bit scale -/
def parseCIDR (s : Bytes) : Option (List UInt8 × Nat) :=
  match s.idxOf? 0x2f with
  | none => none
  | some i =>
    let addr := s.take i
    let mask := s.drop (i + 1)
    match parseIP addr with
    | none => none
    | some ip =>
      match dtoi mask 0 0 with
      | none => none
      | some (n, used) =>
        let bits := if textIsV4 addr then 32 else 128
        if used ≠ mask.length ∨ n > bits then none
        else
          let ones := if bits = 32 then n + 96 else n
          some (maskIP ip ones, ones)

/-- `parseipnet` + normalisation (dnsdata/data.go): CIDR, else a bare address (/32 or /128), else the
empty string = `0.0.0.0/0`; `none` = error -/
def parseIPNet (s : Bytes) : Option (List UInt8 × Nat) :=
  match parseCIDR s with
  | some r => some r
  | none =>
    match parseIP s with
    | some ip => some (ip, 128)
    | none => if s.isEmpty then some (v4Prefix ++ [0, 0, 0, 0], 96) else none

end DnsVerif.Net
