/-
Model of the query path: `db/answer.go` (row parsing, `IsAuthoritative`, `FindAnswer`, `FindSOA`),
`db/answer_sorted.go` (the closest-key search `find` used with v2 keys and its two clients),
`db/ns.go`, `db/utils.go` (`HasRecord`, `AdditionalSectionForRecords`) and the composition in
`dnsserver/handler.go` (`ServeDNSWithRCODE`, without cache — that is `Model/Cache.lean`).

Weighted selection (`db/wrs.go`) is *not* resolved here: an address group is returned as its
candidate list plus the maximum; which candidates are served is C11's matter and is compared
relationally. Go panics are explicit. Core Lean only.
-/
import DnsVerif.Model.Location

namespace DnsVerif.Serve
open DnsVerif DnsVerif.Name DnsVerif.Loc DnsVerif.Codec

/-! ### rows -/

structure Row where
  qtype : Nat
  ttl : Nat
  weight : Nat
  rdata : Bytes            -- `row[rec.Offset:]`
deriving Repr, DecidableEq

def rd16 (b : Bytes) : Option Nat :=
  match b with
  | a :: c :: _ => some (a.toNat * 256 + c.toNat)
  | _ => none

def rd32 (b : Bytes) : Option Nat :=
  match b with
  | a :: c :: d :: e :: _ => some (a.toNat * 16777216 + c.toNat * 65536 + d.toNat * 256 + e.toNat)
  | _ => none

inductive RowRes where
  | row (r : Row)
  | mismatch               -- `ErrWildcardMismatch`
  | panic                  -- slice bounds out of range on a short row
deriving Repr

/-- `ExtractRRFromRow(row, wildcard)` -/
def extractRR (row : Bytes) (wildcard : Bool) : RowRes :=
  match rd16 row, row[2]? with
  | some qtype, some ch =>
    let isWild := ch = 0x2a ∨ ch = 0x2b
    if wildcard ≠ decide isWild then .mismatch
    else
      let dpos := if ch = 0x3e ∨ ch = 0x2b then 5 else 3
      match rd32 (row.drop dpos) with
      | none => .panic
      | some ttl =>
        let off := dpos + 12
        if qtype = 28 ∨ qtype = 1 then
          match rd32 (row.drop off) with
          | none => .panic
          | some w => .row { qtype := qtype, ttl := ttl, weight := w, rdata := row.drop (off + 4) }
        else if row.length < off then .panic      -- `result[rec.Offset:]` in the callers
        else .row { qtype := qtype, ttl := ttl, weight := 0, rdata := row.drop off }
  | _, _ => .panic

/-! ### per-request view of the database -/

structure View where
  backend : Backend
  store : Store
  loc : Bytes               -- the client's location id (2 bytes, `[0,0]` = none)

def View.v2 (v : View) : Bool := v.backend = .rdbV2

/-- the resource-record key of a packed name for location `l` -/
def rrKey (v : View) (packed l : Bytes) : Option Bytes :=
  if v.v2 then (reverseWire packed).map fun r => Generated.dnsdata_ResourceRecordsKeyMarker ++ r ++ l
  else some (l ++ packed)

/-- `ForEachResourceRecord(name, loc, f)`: rows tagged with the client's location, then untagged -/
def rowsOf (v : View) (packed : Bytes) : List Bytes :=
  let tagged := if v.loc ≠ [0, 0] then (rrKey v packed v.loc).map v.store.get |>.getD [] else []
  tagged ++ ((rrKey v packed [0, 0]).map v.store.get |>.getD [])

/-! ### zone cut (label-by-label; `DataReader.IsAuthoritative`) -/

structure Cut where
  ns : Bool
  auth : Bool
  zoneCut : Bytes
deriving Repr, DecidableEq

inductive R (α : Type) where
  | ok (a : α)
  | err
  | panic
deriving Repr

/-- scan rows for SOA / NS (non-wildcard rows only); `none` = a short row (panic, recovered by
`ForEach` into an error) -/
def scanCut (rows : List Bytes) (ns auth : Bool) : Option (Bool × Bool) :=
  rows.foldlM (fun (acc : Bool × Bool) row =>
    match extractRR row false with
    | .panic => none
    | .mismatch => some acc
    | .row r => some (acc.1 || r.qtype = 2, acc.2 || r.qtype = 6)) (ns, auth)

def isAuthoritativeV1 (v : View) : Nat → Bytes → Bool → Bool → R Cut
  | 0, z, ns, auth => .ok ⟨ns, auth, z⟩
  | fuel + 1, z, ns, auth =>
    let tagged := if v.loc ≠ [0, 0] then v.store.get (v.loc ++ z) else []
    match scanCut tagged ns auth with
    | none => .err
    | some (ns1, auth1) =>
      let r2 := if ¬ (auth1 ∧ ns1) then scanCut (v.store.get ([0, 0] ++ z)) ns1 auth1 else some (ns1, auth1)
      match r2 with
      | none => .err
      | some (ns2, auth2) =>
        if ns2 then .ok ⟨ns2, auth2, z⟩
        else match z with
          | [] => .panic                      -- zoneCut[0] on an empty slice
          | n :: rest => if n = 0 then .ok ⟨ns2, auth2, z⟩ else isAuthoritativeV1 v fuel (rest.drop n.toNat) ns2 auth2

/-! ### answers -/

/-- an address candidate (weighted selection is applied by the caller) -/
structure Cand where
  ttl : Nat
  weight : Nat
  addr : Bytes
deriving Repr, DecidableEq

structure RR where
  name : Bytes              -- owner, wire form
  type : Nat
  cls : Nat
  ttl : Nat
  rdata : Bytes
deriving Repr, DecidableEq

/-- what `FindAnswer` accumulates -/
structure Ans where
  rrs : List RR := []                 -- non-address answers, in encounter order
  a4 : List Cand := []                -- A candidates seen (all rows matching, any weight)
  a6 : List Cand := []
  recordFound : Bool := false
deriving Repr

/-- `parseResult` of `FindAnswer` over the rows of one level -/
def scanAnswer (rows : List Bytes) (wildcard : Bool) (qnameOut : Bytes) (qtype : Nat) (acc : Ans) : Option Ans :=
  rows.foldlM (fun (a : Ans) row =>
    match extractRR row wildcard with
    | .panic => none
    | .mismatch => some a
    | .row r =>
      let a := { a with recordFound := true }
      if r.qtype = 5 ∨ r.qtype = qtype ∨ qtype = 255 then
        if r.qtype = 1 then some { a with a4 := a.a4 ++ [⟨r.ttl, r.weight, r.rdata⟩] }
        else if r.qtype = 28 then some { a with a6 := a.a6 ++ [⟨r.ttl, r.weight, r.rdata⟩] }
        else some { a with rrs := a.rrs ++ [⟨qnameOut, r.qtype, 1, r.ttl, r.rdata⟩] }
      else some a) acc

/-- `DataReader.FindAnswer` (v1 keys): exact name, then `*.parent` upwards while the stripped label
is wild-safe, not past the zone cut -/
def findAnswerV1 (v : View) (control qnameOut : Bytes) (qtype : Nat) : Nat → Bytes → Bool → Ans → Ans
  | 0, _, _, acc => acc
  | fuel + 1, q, wildcard, acc =>
    let tagged := if v.loc ≠ [0, 0] then v.store.get (v.loc ++ q) else []
    -- a panicking row is recovered inside ForEach; the walk goes on with what was gathered
    let acc1 := (scanAnswer tagged wildcard qnameOut qtype acc).getD acc
    let acc2 := (scanAnswer (v.store.get ([0, 0] ++ q)) wildcard qnameOut qtype acc1).getD acc1
    if acc2.recordFound then acc2
    else if q = control then acc2
    else match q with
      | [] => acc2
      | n :: rest =>
        if n = 0 then acc2
        else if ¬ wildsafe (rest.take n.toNat) then acc2
        else findAnswerV1 v control qnameOut qtype fuel (rest.drop n.toNat) true acc2

/-! ### the closest-key search of the v2 layout (`sortedDataReader.find`) -/

/-- state threaded through `find`'s callbacks -/
structure FindSt (σ : Type) where
  user : σ
  lastKey : Bytes := []

/-- One generic transcription of `find`. `pre qLength st` = `preIterationCheck` (may update state,
`none` = stop), `rows` are fed to `onRows`, `post` = `postIterationCheck` (`false` = stop).
`rev` is the reversed query name, its length `L`. Keys: `marker ++ rev[:qLength-1] ++ [0] ++ loc`. -/
def findGo {σ : Type} (v : View) (rev : Bytes)
    (pre : Nat → σ → Option σ) (onRows : List Bytes → σ → σ) (post : σ → σ × Bool) :
    Nat → Nat → σ → R σ
  | 0, _, st => .ok st
  | fuel + 1, qLength, st =>
    match pre qLength st with
    | none => .ok st
    | some st1 =>
      if qLength = 0 then .panic else          -- key[locationStart-1] with locationStart = 2
      let marker := Generated.dnsdata_ResourceRecordsKeyMarker
      let nameKey := marker ++ rev.take (qLength - 1) ++ [0]
      let key := nameKey ++ v.loc
      let tryForEach (k : Bytes) (st : σ) : Option Bytes × σ :=
        match v.store.seekForPrev k with
        | none => (none, st)
        | some (fk, vals) => if fk = k then (some fk, onRows vals st) else (some fk, st)
      let (k1, st2) := tryForEach key st1
      let (k, st3) : Option Bytes × σ :=
        match k1 with
        | some fk =>
          if v.loc ≠ [0, 0] ∧ fk.length = key.length ∧ fk.take (key.length - 2) = nameKey then
            tryForEach (nameKey ++ [0, 0]) st2
          else (k1, st2)
        | none => (k1, st2)
      let (st4, cont) := post st3
      if ¬ cont then .ok st4
      else
        let kk := k.getD []
        if kk.length < 2 ∨ kk.take 2 ≠ marker then .ok st4
        else if qLength = 1 then .ok st4
        else
          -- foundLabel := k[2 : len(k)-2]
          if kk.length < 4 then .panic else
          let foundLabel := (kk.drop 2).take (kk.length - 4)
          if foundLabel.isEmpty then .panic else    -- foundLabel[:len-1]
          let next : Option Nat :=
            if rev.take (qLength - 1) = foundLabel.take (foundLabel.length - 1) then
              lengthWithoutLastLabel rev qLength 256 0 0
            else (commonPrefix rev foundLabel (rev.length + 1) 0).map (· + 1)
          match next with
          | none => .panic
          | some nl => findGo v rev pre onRows post fuel nl st4

/-- `sortedDataReader.IsAuthoritative` -/
def isAuthoritativeV2 (v : View) (q : Bytes) : R Cut :=
  match reverseWire q with
  | none => .panic
  | some rev =>
    -- user state: (ns, auth, zoneCutLength, a row panicked)
    let pre := fun (qLength : Nat) (st : Bool × Bool × Nat × Bool) => some (st.1, st.2.1, qLength, st.2.2.2)
    let onRows := fun (rows : List Bytes) (st : Bool × Bool × Nat × Bool) =>
      match scanCut rows st.1 st.2.1 with
      | some (ns, auth) => (ns, auth, st.2.2.1, st.2.2.2)
      | none => (st.1, st.2.1, st.2.2.1, true)
    let post := fun (st : Bool × Bool × Nat × Bool) => (st, !st.1)
    match findGo v rev pre onRows post (rev.length + 2) rev.length (false, false, 0, false) with
    | .ok (ns, auth, zl, _) =>
      -- no NS on the path: the walk ends at the root, as in `DataReader.IsAuthoritative`
      .ok ⟨ns, auth, q.drop (q.length - (if ns then zl else 1))⟩
    | .err => .err
    | .panic => .panic

/-- `sortedDataReader.FindAnswer` -/
def findAnswerV2 (v : View) (q control qnameOut : Bytes) (qtype : Nat) : R Ans :=
  match reverseWire q with
  | none => .panic
  | some rev =>
    -- user state: (answer so far, wildcard flag, lastLength)
    let pre := fun (length : Nat) (st : Ans × Bool × Nat) =>
      -- the search has walked above the zone cut when the current prefix is shorter than it
      if length < control.length then none
      else
        -- labels between `length` and `lastLength` must be wild-safe
        let rec chk (fuel i : Nat) : Bool :=
          match fuel with
          | 0 => true
          | fuel + 1 =>
            if i < st.2.2 then
              match rev[i - 1]? with
              | none => true
              | some ll =>
                if wildsafe ((rev.drop i).take ll.toNat) then chk fuel (i + ll.toNat + 1) else false
            else true
        if chk (rev.length + 1) length then some (st.1, st.2.1, length) else none
    let onRows := fun (rows : List Bytes) (st : Ans × Bool × Nat) =>
      ((scanAnswer rows st.2.1 qnameOut qtype st.1).getD st.1, st.2.1, st.2.2)
    let post := fun (st : Ans × Bool × Nat) =>
      if st.1.recordFound then (st, false) else ((st.1, true, st.2.2), true)
    match findGo v rev pre onRows post (rev.length + 2) rev.length ({}, false, rev.length) with
    | .ok (a, _, _) => .ok a
    | .err => .err
    | .panic => .panic

/-! ### authority and additional sections -/

/-- `FindSOA`: the first visible non-wildcard SOA row of the cut -/
def findSOA (v : View) (zoneCut : Bytes) : List RR :=
  match (rowsOf v zoneCut).findSome? fun row =>
      match extractRR row false with
      | .row r => if r.qtype = 6 then some r else none
      | _ => none with
  | some r => [⟨zoneCut, 6, 1, r.ttl, r.rdata⟩]
  | none => []

/-- a name at the head of `rdata` (`dns.UnpackDomainName(result, rec.Offset)`), as wire bytes -/
def nameAt (rdata : Bytes) : Option Bytes :=
  (labels (rdata.length + 1) rdata).map pack

/-- `GetNs`: all visible NS rows of the cut, with the query's class -/
def getNs (v : View) (zoneCut : Bytes) (cls : Nat) : List RR :=
  (rowsOf v zoneCut).filterMap fun row =>
    match extractRR row false with
    | .row r => if r.qtype = 2 then (nameAt r.rdata).map fun n => ⟨zoneCut, 2, cls, r.ttl, n⟩ else none
    | _ => none

/-- an address group in a section: candidates and how many may be served -/
structure AddrGroup where
  name : Bytes
  type : Nat
  cls : Nat
  cands : List Cand
  max : Nat
deriving Repr, DecidableEq

structure Response where
  rcode : Nat
  aa : Bool
  answer : List RR
  answerAddrs : List AddrGroup
  ns : List RR
  extra : List AddrGroup
deriving Repr

/-- the target name an RR asks additional addresses for -/
def additionalTarget (rr : RR) : Option Bytes :=
  if rr.type = 2 then nameAt rr.rdata
  else if rr.type = 15 then nameAt (rr.rdata.drop 2)
  else if rr.type = 65 then some rr.name
  else none

/-- `AdditionalSectionForRecords` over one list of records. `present name type` = `HasRecord`.
The target is looked up under its lower-cased... no: under the name exactly as it appears in the
rdata (`dns.PackDomainName(name)` keeps case) while keys are lower-case. -/
def additionalFor (v : View) (cls : Nat) (records : List RR)
    (present : Bytes → Nat → List AddrGroup → Bool) (acc : List AddrGroup) : List AddrGroup :=
  records.foldl (fun acc rr =>
    match additionalTarget rr with
    | none => acc
    | some name =>
        let want4 := ¬ present name 1 acc
        let want6 := ¬ present name 28 acc
        if ¬ (want4 ∨ want6) then acc
        else
          let rows := rowsOf v (toLower name)     -- keys are lower-case; the target keeps its case
          let parsed := rows.filterMap fun row => match extractRR row false with
            | .row r => some r
            | _ => none
          let c4 := (parsed.filter (·.qtype = 1)).map fun r => (⟨r.ttl, r.weight, r.rdata⟩ : Cand)
          let c6 := (parsed.filter (·.qtype = 28)).map fun r => (⟨r.ttl, r.weight, r.rdata⟩ : Cand)
          acc ++ (if want6 ∧ ¬ c6.isEmpty then [⟨name, 28, cls, c6, 1⟩] else [])
              ++ (if want4 ∧ ¬ c4.isEmpty then [⟨name, 1, cls, c4, 1⟩] else [])) acc

/-! ### the handler -/

structure Query where
  qname : Bytes             -- packed, lower-cased (`state.Name()`)
  qnameOut : Bytes          -- packed, as asked (`state.QName()`); compared case-insensitively
  qtype : Nat
  qclass : Nat
  maxAns : Nat
deriving Repr

inductive Outcome where
  | reply (r : Response)
  | failedReply             -- `dns.HandleFailed`: a bare SERVFAIL is written
  | noReply                 -- SERVFAIL returned to the caller, nothing written by the handler
  | panic                   -- the handler goroutine panics (index out of range)
deriving Repr

def isAuthoritative (v : View) (q : Bytes) : R Cut :=
  if v.v2 then isAuthoritativeV2 v q else isAuthoritativeV1 v (q.length + 1) q false false

/-- does the group list / RR lists hold an A/AAAA record of this owner name (`HasRecord` compares
the presentation strings with `strings.EqualFold`: case-insensitively, since the repair; before it
the comparison was exact, so the additional section depended on the spelling the client used) -/
def hasAddr (answerAddrs : List AddrGroup) (name : Bytes) (t : Nat) (extra : List AddrGroup) : Bool :=
  (answerAddrs ++ extra).any fun g =>
    toLower g.name = toLower name ∧ g.type = t ∧ (g.cands.any fun c => c.weight > 0)

/-- `ServeDNSWithRCODE` after the location step, cache disabled, OPT handled by the caller -/
def serve (v : View) (q : Query) : Outcome :=
  match isAuthoritative v q.qname with
  | .err | .panic => .failedReply
  | .ok cut =>
    if ¬ cut.ns ∧ ¬ cut.auth then
      .reply { rcode := 5, aa := false, answer := [], answerAddrs := [], ns := [], extra := [] }
    else
      -- DS at a delegation: answered from the parent side
      let dsStep : R Cut :=
        if ¬ cut.auth ∧ q.qtype = 43 ∧ q.qname.head? ≠ some 0 then
          match q.qname with
          | [] => .panic
          | n :: rest =>
            match isAuthoritative v (rest.drop n.toNat) with
            | .ok c2 => .ok ⟨cut.ns, c2.auth, c2.zoneCut⟩
            | .err => .err
            | .panic => .panic
        else .ok cut
      match dsStep with
      | .panic => .panic
      | .err => .failedReply
      | .ok cut =>
        match (if cut.zoneCut.isEmpty then none else some ()) with
        | none => .panic
        | some _ =>
        let ans : R Ans :=
          if cut.auth then
            if v.v2 then findAnswerV2 v q.qname cut.zoneCut q.qnameOut q.qtype
            else .ok (findAnswerV1 v cut.zoneCut q.qnameOut q.qtype (q.qname.length + 1) q.qname false {})
          else .ok {}
        match ans with
        | .panic => .panic
        | .err => .noReply
        | .ok a =>
          let groups : List AddrGroup :=
            (if a.a4.isEmpty then [] else [⟨q.qnameOut, 1, 1, a.a4, q.maxAns⟩])
            ++ (if a.a6.isEmpty then [] else [⟨q.qnameOut, 28, 1, a.a6, q.maxAns⟩])
          let served (g : AddrGroup) : Bool := g.cands.any fun c => c.weight > 0
          let answerEmpty := a.rrs.isEmpty ∧ ¬ groups.any served
          let rcode := if cut.auth ∧ answerEmpty ∧ ¬ a.recordFound then 3 else 0
          let hasNsAnswer := a.rrs.any fun rr => rr.type = 2 ∧ toLower rr.name = cut.zoneCut
          let nsSec : List RR :=
            if cut.auth ∧ answerEmpty then findSOA v cut.zoneCut
            else if ¬ cut.auth ∧ ¬ hasNsAnswer then getNs v cut.zoneCut q.qclass
            else []
          let present := fun (name : Bytes) (t : Nat) (extra : List AddrGroup) => hasAddr groups name t extra
          let extra1 := additionalFor v q.qclass a.rrs present []
          let extra2 := additionalFor v q.qclass nsSec present extra1
          .reply { rcode := rcode, aa := cut.auth, answer := a.rrs, answerAddrs := groups, ns := nsSec,
                   extra := extra2 }

end DnsVerif.Serve
