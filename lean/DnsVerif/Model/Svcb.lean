/-
Model of `dnsdata/svcb` (svcb.go, marshallers.go, unmarshallers.go): `ParamList.FromText`,
`ToWire`, `ToText` with the seven value marshallers / unmarshallers, transcribed as written
(including the quirks: `bytes.Trim` strips any number of `"` on both ends, `uint16(len(value))`
truncates). Transcribes /repo after commits e9b4da5 (the loop of `FromText` skips empty `;`
segments; before, it stopped at the first one) and 368102c (`alpnMarshaller` rejects ids of length
0 or > 255; before, `byte(len(alpn))` truncated).

Go library calls are modelled on the grammar they accept and validated by the correspondence:
`bytes.Split`/`SplitN` (one-byte separator), `strconv.ParseUint(s,10,16)`, `net.ParseIP`
(= `netip.ParseAddr` without zone: dotted quad, hex IPv6 with `::`, embedded IPv4 tail),
`IP.To4`, `IP.String`, `strconv.FormatUint`, `base64.StdEncoding` (non-strict, ignores CR/LF),
`sort.SliceStable` (stable insertion sort).

A Go slice expression past the length is modelled as the outcome `panic` (Go checks against the
capacity, so the real code may read stale bytes instead; not reachable from `FromText` any more).

Independent of all that, `decodeRaw`/`decodeRFC` at the end of the file is a decoder written from
RFC 9460 §2.2 / §7 / §8 (wire format), not from the code.  Core Lean only.
-/
import DnsVerif.Model.Bytes

namespace DnsVerif.Svcb
open DnsVerif

inductive Err where
  | parse        -- no `=` in the segment
  | unknownKey
  | emptyValue
  | mandInvalid  -- mandatory names an unknown key
  | mandSelf     -- mandatory names itself
  | mandDup      -- mandatory names a key twice
  | ndaNonEmpty  -- no-default-alpn with a value
  | port
  | ip4Parse
  | ip4Not4
  | ech
  | ip6NoColon
  | ip6Parse
  | alpnLen      -- alpn id of length 0 or > 255
  | dupKey
  | mandMissing
  | panic
deriving DecidableEq, Repr

structure Param where
  key : Nat
  value : Bytes
deriving DecidableEq, Repr

/-! ### small library models -/

def str (s : String) : Bytes := s.toUTF8.toList

/-- `bytes.Split(b, []byte{sep})`: always at least one element -/
def splitOn (sep : UInt8) : Bytes → List Bytes
  | [] => [[]]
  | c :: cs =>
    if c = sep then [] :: splitOn sep cs
    else match splitOn sep cs with
      | [] => [[c]]
      | h :: t => (c :: h) :: t

/-- `bytes.SplitN(b, []byte{sep}, 2)` when the separator occurs: `(before, after)` -/
def cut (sep : UInt8) : Bytes → Option (Bytes × Bytes)
  | [] => none
  | c :: cs =>
    if c = sep then some ([], cs)
    else match cut sep cs with
      | none => none
      | some (a, b) => some (c :: a, b)

def intercalate (sep : Bytes) : List Bytes → Bytes
  | [] => []
  | [a] => a
  | a :: b :: rest => a ++ sep ++ intercalate sep (b :: rest)

def dquote : UInt8 := 0x22

/-- `bytes.Trim(v, "\"")` -/
def trimQuotes (v : Bytes) : Bytes :=
  (((v.dropWhile (· == dquote)).reverse).dropWhile (· == dquote)).reverse

def u16be (n : Nat) : Bytes := [UInt8.ofNat (n / 256 % 256), UInt8.ofNat (n % 256)]

/-- stable insertion sort by a numeric key (`sort.SliceStable` with `less = key i < key j`) -/
def insertBy {α} (k : α → Nat) (a : α) : List α → List α
  | [] => [a]
  | b :: bs => if k a ≤ k b then a :: b :: bs else b :: insertBy k a bs

def sortBy {α} (k : α → Nat) : List α → List α
  | [] => []
  | a :: as => insertBy k a (sortBy k as)

def isDigit (c : UInt8) : Bool := 0x30 ≤ c.toNat && c.toNat ≤ 0x39

def decVal (ds : Bytes) : Nat := ds.foldl (fun acc c => acc * 10 + (c.toNat - 0x30)) 0

/-- `strconv.ParseUint(s, 10, 16)` -/
def parseUint16 (s : Bytes) : Option Nat :=
  if s.isEmpty then none
  else if s.all isDigit then
    let v := decVal s
    if v < 65536 then some v else none
  else none

/-- `strconv.FormatUint(n, 10)` -/
def fmtDec (n : Nat) : Bytes := (Nat.toDigits 10 n).map fun c => UInt8.ofNat c.toNat

/-! #### net.ParseIP -/

def hexVal (c : UInt8) : Option Nat :=
  let k := c.toNat
  if 0x30 ≤ k ∧ k ≤ 0x39 then some (k - 0x30)
  else if 0x61 ≤ k ∧ k ≤ 0x66 then some (k - 0x61 + 10)
  else if 0x41 ≤ k ∧ k ≤ 0x46 then some (k - 0x41 + 10)
  else none

def isHex (c : UInt8) : Bool := (hexVal c).isSome

def hexNum (ds : Bytes) : Nat := ds.foldl (fun acc c => acc * 16 + (hexVal c).getD 0) 0

/-- one octet of a dotted quad: digits, no leading zero, ≤ 255 -/
def parseOctet (f : Bytes) : Option UInt8 :=
  if f.isEmpty then none
  else if !f.all isDigit then none
  else if f.length > 1 ∧ f.head? = some 0x30 then none
  else if f.length > 3 then none
  else if decVal f > 255 then none
  else some (UInt8.ofNat (decVal f))

/-- `parseIPv4Fields`: exactly four octets -/
def parseV4 (s : Bytes) : Option Bytes :=
  match splitOn 0x2e s with
  | [a, b, c, d] =>
    match parseOctet a, parseOctet b, parseOctet c, parseOctet d with
    | some a, some b, some c, some d => some [a, b, c, d]
    | _, _, _, _ => none
  | _ => none

/-- the main loop of `parseIPv6`; `out` are the bytes written so far (`i = out.length`).
Result: bytes written, position of the ellipsis, unconsumed input. -/
def parseV6Loop : Nat → Bytes → Bytes → Option Nat → Option (Bytes × Option Nat × Bytes)
  | 0, _, _, _ => none
  | fuel + 1, s, out, ell =>
    if out.length ≥ 16 then some (out, ell, s)
    else
      let digits := s.takeWhile isHex
      let rest := s.dropWhile isHex
      if digits.length > 4 then none
      else if digits.length = 0 then none
      else if rest.head? = some 0x2e then
        if ell.isNone ∧ out.length ≠ 12 then none
        else if out.length + 4 > 16 then none
        else match parseV4 s with
          | none => none
          | some four => some (out ++ four, ell, [])
      else
        let out := out ++ u16be (hexNum digits)
        match rest with
        | [] => some (out, ell, [])
        | c :: s1 =>
          if c ≠ 0x3a then none
          else match s1 with
            | [] => none
            | c2 :: s2 =>
              if c2 = 0x3a then
                if ell.isSome then none
                else if s2.isEmpty then some (out, some out.length, [])
                else parseV6Loop fuel s2 out (some out.length)
              else parseV6Loop fuel s1 out ell

def parseV6 (s : Bytes) : Option Bytes :=
  if s.contains 0x25 then none   -- zone (or empty zone): ParseIP returns nil
  else
    let lead : Bool := s.take 2 == [0x3a, 0x3a]
    let s := if lead then s.drop 2 else s
    let ell : Option Nat := if lead then some 0 else none
    if lead ∧ s.isEmpty then some (List.replicate 16 0)
    else match parseV6Loop 10 s [] ell with
      | none => none
      | some (out, ell, rest) =>
        if !rest.isEmpty then none
        else if out.length < 16 then
          match ell with
          | none => none
          | some e => some (out.take e ++ List.replicate (16 - out.length) 0 ++ out.drop e)
        else if ell.isSome then none
        else some out

def v4prefix : Bytes := [0, 0, 0, 0, 0, 0, 0, 0, 0, 0, 0xff, 0xff]

/-- `net.ParseIP`: the 16-byte form, `none` for nil -/
def parseIP (s : Bytes) : Option Bytes :=
  match s.find? (fun c => c == 0x2e || c == 0x3a || c == 0x25) with
  | some c =>
    if c = 0x2e then (parseV4 s).map (v4prefix ++ ·)
    else if c = 0x3a then parseV6 s
    else none
  | none => none

/-- `IP.To4` on a 16-byte address -/
def to4 (ip : Bytes) : Option Bytes :=
  if ip.length = 16 ∧ ip.take 12 = v4prefix then some (ip.drop 12) else none

def hexDigitLower (n : Nat) : UInt8 := if n < 10 then UInt8.ofNat (48 + n) else UInt8.ofNat (87 + n)

/-- lower-case hex without leading zeros (`appendHex`) -/
def fmtHex16 (n : Nat) : Bytes :=
  if n ≥ 4096 then [hexDigitLower (n / 4096 % 16), hexDigitLower (n / 256 % 16), hexDigitLower (n / 16 % 16), hexDigitLower (n % 16)]
  else if n ≥ 256 then [hexDigitLower (n / 256 % 16), hexDigitLower (n / 16 % 16), hexDigitLower (n % 16)]
  else if n ≥ 16 then [hexDigitLower (n / 16 % 16), hexDigitLower (n % 16)]
  else [hexDigitLower n]

def fmtV4 (b : Bytes) : Bytes := intercalate [0x2e] (b.map fun x => fmtDec x.toNat)

def groups16 : Bytes → List Nat
  | a :: b :: rest => (a.toNat * 256 + b.toNat) :: groups16 rest
  | _ => []

def leadingZeros : List Nat → Nat
  | 0 :: rest => leadingZeros rest + 1
  | _ => 0

/-- the search for the first longest run (≥ 2) of zero groups in `appendTo6` -/
def bestRun : List Nat → Nat → Nat × Nat → Nat × Nat
  | [], _, best => best
  | g :: rest, i, best =>
    let l := leadingZeros (g :: rest)
    bestRun rest (i + 1) (if l ≥ 2 ∧ l > best.2 then (i, l) else best)

def fmtV6 (b : Bytes) : Bytes :=
  let gs := groups16 b
  let (start, len) := bestRun gs 0 (0, 0)
  if len = 0 then intercalate [0x3a] (gs.map fmtHex16)
  else intercalate [0x3a] ((gs.take start).map fmtHex16) ++ [0x3a, 0x3a] ++
       intercalate [0x3a] ((gs.drop (start + len)).map fmtHex16)

/-- `net.IP(b).String()` for a 4- or 16-byte slice -/
def ipString (b : Bytes) : Bytes :=
  if b.length = 4 then fmtV4 b
  else match to4 b with
    | some v4 => fmtV4 v4
    | none => fmtV6 b

/-! #### base64.StdEncoding -/

def b64Val (c : UInt8) : Option Nat :=
  let k := c.toNat
  if 0x41 ≤ k ∧ k ≤ 0x5a then some (k - 0x41)
  else if 0x61 ≤ k ∧ k ≤ 0x7a then some (k - 0x61 + 26)
  else if 0x30 ≤ k ∧ k ≤ 0x39 then some (k - 0x30 + 52)
  else if k = 0x2b then some 62
  else if k = 0x2f then some 63
  else none

def b64Char (n : Nat) : UInt8 :=
  if n < 26 then UInt8.ofNat (0x41 + n)
  else if n < 52 then UInt8.ofNat (0x61 + n - 26)
  else if n < 62 then UInt8.ofNat (0x30 + n - 52)
  else if n = 62 then 0x2b else 0x2f

def b64pad : UInt8 := 0x3d

/-- quanta of the decoder after CR/LF have been removed -/
def b64DecodeGo : Bytes → Option Bytes
  | [] => some []
  | [a, b, c, d] =>
    match b64Val a, b64Val b with
    | some x, some y =>
      if c = b64pad then
        if d = b64pad then some [UInt8.ofNat ((x * 64 + y) / 16)] else none
      else match b64Val c with
        | none => none
        | some z =>
          let v := (x * 64 + y) * 64 + z
          if d = b64pad then some [UInt8.ofNat (v / 1024), UInt8.ofNat (v / 4 % 256)]
          else match b64Val d with
            | none => none
            | some w =>
              let v := v * 64 + w
              some [UInt8.ofNat (v / 65536), UInt8.ofNat (v / 256 % 256), UInt8.ofNat (v % 256)]
    | _, _ => none
  | a :: b :: c :: d :: rest =>
    match b64Val a, b64Val b, b64Val c, b64Val d, b64DecodeGo rest with
    | some x, some y, some z, some w, some r =>
      let v := ((x * 64 + y) * 64 + z) * 64 + w
      some (UInt8.ofNat (v / 65536) :: UInt8.ofNat (v / 256 % 256) :: UInt8.ofNat (v % 256) :: r)
    | _, _, _, _, _ => none
  | _ => none

def b64Decode (s : Bytes) : Option Bytes :=
  b64DecodeGo (s.filter fun c => c != 0x0a && c != 0x0d)

def b64Encode : Bytes → Bytes
  | [] => []
  | [a] =>
    let v := a.toNat
    [b64Char (v / 4), b64Char (v % 4 * 16), b64pad, b64pad]
  | [a, b] =>
    let v := a.toNat * 256 + b.toNat
    [b64Char (v / 1024), b64Char (v / 16 % 64), b64Char (v % 16 * 4), b64pad]
  | a :: b :: c :: rest =>
    let v := (a.toNat * 256 + b.toNat) * 256 + c.toNat
    b64Char (v / 262144) :: b64Char (v / 4096 % 64) :: b64Char (v / 64 % 64) :: b64Char (v % 64) ::
      b64Encode rest

/-! ### key names -/

/-- the names `mandatory alpn no-default-alpn port ipv4hint echconfig ipv6hint` as bytes (explicit, so
that the kernel can evaluate the model on concrete inputs) -/
def keyNames : List (Nat × Bytes) :=
  [(0, [0x6d, 0x61, 0x6e, 0x64, 0x61, 0x74, 0x6f, 0x72, 0x79]),
   (1, [0x61, 0x6c, 0x70, 0x6e]),
   (2, [0x6e, 0x6f, 0x2d, 0x64, 0x65, 0x66, 0x61, 0x75, 0x6c, 0x74, 0x2d, 0x61, 0x6c, 0x70, 0x6e]),
   (3, [0x70, 0x6f, 0x72, 0x74]),
   (4, [0x69, 0x70, 0x76, 0x34, 0x68, 0x69, 0x6e, 0x74]),
   (5, [0x65, 0x63, 0x68, 0x63, 0x6f, 0x6e, 0x66, 0x69, 0x67]),
   (6, [0x69, 0x70, 0x76, 0x36, 0x68, 0x69, 0x6e, 0x74])]

/-- `strToParamNum[name]` -/
def keyOfName (name : Bytes) : Option Nat :=
  (keyNames.find? fun kv => kv.2 = name).map (·.1)

/-- `paramNumToStr[k]` (the empty string for a key that is not in the map) -/
def nameOfKey (k : Nat) : Bytes :=
  match keyNames.find? fun kv => kv.1 = k with
  | some kv => kv.2
  | none => []

/-! ### value marshallers (marshallers.go) -/

def mandatoryLoop : List Bytes → List Nat → Except Err Bytes
  | [], _ => .ok []
  | v :: rest, seen =>
    match keyOfName v with
    | none => .error .mandInvalid
    | some k =>
      if k = 0 then .error .mandSelf
      else if seen.contains k then .error .mandDup
      else match mandatoryLoop rest (k :: seen) with
        | .error e => .error e
        | .ok b => .ok (u16be k ++ b)

def mandatoryMarshaller (input : Bytes) : Except Err Bytes :=
  let values := sortBy (fun v => (keyOfName v).getD 0) (splitOn 0x7c input)
  mandatoryLoop values []

def alpnLoop : List Bytes → Except Err Bytes
  | [] => .ok []
  | a :: rest =>
    if a.length = 0 ∨ a.length > 255 then .error .alpnLen
    else match alpnLoop rest with
      | .error e => .error e
      | .ok b => .ok (UInt8.ofNat a.length :: a ++ b)

def alpnMarshaller (input : Bytes) : Except Err Bytes := alpnLoop (splitOn 0x7c input)

def nodefaultalpnMarshaller (input : Bytes) : Except Err Bytes :=
  if input.length > 0 then .error .ndaNonEmpty else .ok []

def portMarshaller (input : Bytes) : Except Err Bytes :=
  match parseUint16 input with
  | none => .error .port
  | some p => .ok (u16be p)

def ipv4Loop : List Bytes → Except Err Bytes
  | [] => .ok []
  | a :: rest =>
    match parseIP a with
    | none => .error .ip4Parse
    | some ip =>
      match to4 ip with
      | none => .error .ip4Not4
      | some v4 =>
        match ipv4Loop rest with
        | .error e => .error e
        | .ok b => .ok (v4 ++ b)

def ipv4hintMarshaller (input : Bytes) : Except Err Bytes := ipv4Loop (splitOn 0x7c input)

def echMarshaller (input : Bytes) : Except Err Bytes :=
  match b64Decode input with
  | none => .error .ech
  | some b => .ok b

def ipv6Loop : List Bytes → Except Err Bytes
  | [] => .ok []
  | a :: rest =>
    if !a.contains 0x3a then .error .ip6NoColon
    else match parseIP a with
      | none => .error .ip6Parse
      | some ip =>
        match ipv6Loop rest with
        | .error e => .error e
        | .ok b => .ok (ip ++ b)

def ipv6hintMarshaller (input : Bytes) : Except Err Bytes := ipv6Loop (splitOn 0x7c input)

def marshalValue (k : Nat) (v : Bytes) : Except Err Bytes :=
  match k with
  | 0 => mandatoryMarshaller v
  | 1 => alpnMarshaller v
  | 2 => nodefaultalpnMarshaller v
  | 3 => portMarshaller v
  | 4 => ipv4hintMarshaller v
  | 5 => echMarshaller v
  | 6 => ipv6hintMarshaller v
  | _ => .error .unknownKey

/-- `param.fromText` -/
def paramFromText (text : Bytes) : Except Err Param :=
  match cut 0x3d text with
  | none => .error .parse
  | some (k, v) =>
    match keyOfName k with
    | none => .error .unknownKey
    | some knum =>
      if knum ≠ 2 ∧ v.length = 0 then .error .emptyValue
      else match marshalValue knum (trimQuotes v) with
        | .error e => .error e
        | .ok data => .ok ⟨knum, data⟩

/-- the loop of `ParamList.FromText`: empty segments are skipped -/
def parseSegs (seen : List Nat) : List Bytes → Except Err (List Param)
  | [] => .ok []
  | s :: rest =>
    if s.isEmpty then parseSegs seen rest
    else match paramFromText s with
      | .error e => .error e
      | .ok p =>
        if seen.contains p.key then .error .dupKey
        else match parseSegs (p.key :: seen) rest with
          | .error e => .error e
          | .ok ps => .ok (p :: ps)

/-- big-endian 16-bit numbers of a byte string; `none` = the slice expression panics (odd length) -/
def u16s : Bytes → Option (List Nat)
  | [] => some []
  | [_] => none
  | a :: b :: rest => (u16s rest).map ((a.toNat * 256 + b.toNat) :: ·)

/-- the `mandatory` check of `FromText` -/
def mandatoryCheck (ps : List Param) : Except Err Unit :=
  match ps.find? (·.key = 0) with
  | none => .ok ()
  | some m =>
    match u16s m.value with
    | none => .error .panic
    | some ks => if ks.all fun k => ps.any (·.key = k) then .ok () else .error .mandMissing

/-- `ParamList.FromText` on an empty list -/
def fromText (raw : Bytes) : Except Err (List Param) :=
  match parseSegs [] (splitOn 0x3b raw) with
  | .error e => .error e
  | .ok ps =>
    match mandatoryCheck ps with
    | .error e => .error e
    | .ok () => .ok (sortBy Param.key ps)

/-- `param.toWire` / `ParamList.ToWire` -/
def paramToWire (p : Param) : Bytes := u16be p.key ++ u16be p.value.length ++ p.value

def toWire (ps : List Param) : Bytes := ps.flatMap paramToWire

/-! ### value unmarshallers (unmarshallers.go); `none` = panic -/

def mandatoryUnmarshaller (v : Bytes) : Option Bytes :=
  (u16s v).map fun ks => intercalate [0x7c] (ks.map nameOfKey)

def alpnIds : Nat → Bytes → Option (List Bytes)
  | _, [] => some []
  | 0, _ => none
  | fuel + 1, l :: rest =>
    if rest.length < l.toNat then none
    else (alpnIds fuel (rest.drop l.toNat)).map (rest.take l.toNat :: ·)

def alpnUnmarshaller (v : Bytes) : Option Bytes :=
  (alpnIds v.length v).map (intercalate [0x7c])

def portUnmarshaller (v : Bytes) : Option Bytes :=
  match v with
  | a :: b :: _ => some (fmtDec (a.toNat * 256 + b.toNat))
  | _ => none

def chunks (n : Nat) : Nat → Bytes → Option (List Bytes)
  | _, [] => some []
  | 0, _ => none
  | fuel + 1, b => if b.length < n then none else (chunks n fuel (b.drop n)).map (b.take n :: ·)

def ipv4hintUnmarshaller (v : Bytes) : Option Bytes :=
  (chunks 4 v.length v).map fun as => intercalate [0x7c] (as.map ipString)

def ipv6hintUnmarshaller (v : Bytes) : Option Bytes :=
  (chunks 16 v.length v).map fun as => intercalate [0x7c] (as.map ipString)

def unmarshalValue (k : Nat) (v : Bytes) : Option Bytes :=
  match k with
  | 0 => mandatoryUnmarshaller v
  | 1 => alpnUnmarshaller v
  | 2 => some []
  | 3 => portUnmarshaller v
  | 4 => ipv4hintUnmarshaller v
  | 5 => some (b64Encode v)
  | 6 => ipv6hintUnmarshaller v
  | _ => none   -- nil function value

/-- `param.toText` -/
def paramToText (p : Param) : Option Bytes :=
  (unmarshalValue p.key p.value).map fun s => nameOfKey p.key ++ [0x3d, dquote] ++ s ++ [dquote]

def mapM' {α β} (f : α → Option β) : List α → Option (List β)
  | [] => some []
  | a :: as => match f a, mapM' f as with
    | some b, some bs => some (b :: bs)
    | _, _ => none

/-- `ParamList.ToText`; `.error .panic` when an unmarshaller indexes out of range -/
def toText (ps : List Param) : Except Err Bytes :=
  match mapM' paramToText ps with
  | none => .error .panic
  | some ts => .ok (intercalate [0x3b] ts)

/-! ### independent decoder, from RFC 9460

§2.2: the SvcParams part of the RDATA is a sequence of
`SvcParamKey (2 octets, network order) | length (2 octets) | SvcParamValue (length octets)`;
keys SHALL appear in strictly increasing numeric order; an RR is malformed if the RDATA ends
inside a SvcParam, if the keys are not strictly increasing, or if a value does not have the format
of its key (§7: alpn = non-empty list of 1..255-octet ids each prefixed by its length,
no-default-alpn = empty, port = 2 octets, ipv4hint / ipv6hint = non-empty list of 4 / 16 octet
addresses; §8: mandatory = non-empty list of 2-octet keys in strictly ascending order, never key 0,
each key present in the RR). `ech` (key 5) is an opaque blob here. -/

/-- §2.2 framing only -/
def decodeRaw : Nat → Bytes → Option (List (Nat × Bytes))
  | _, [] => some []
  | 0, _ => none
  | fuel + 1, k1 :: k0 :: l1 :: l0 :: rest =>
    let len := l1.toNat * 256 + l0.toNat
    if rest.length < len then none
    else (decodeRaw fuel (rest.drop len)).map ((k1.toNat * 256 + k0.toNat, rest.take len) :: ·)
  | _ + 1, _ => none

/-- the declared content of a parameter, as abstract data -/
inductive Value where
  | mandatory (keys : List Nat)
  | alpn (ids : List Bytes)
  | noDefaultAlpn
  | port (n : Nat)
  | ipv4hint (addrs : List Bytes)
  | ech (blob : Bytes)
  | ipv6hint (addrs : List Bytes)
  | other (key : Nat) (blob : Bytes)
deriving DecidableEq, Repr

def Value.key : Value → Nat
  | .mandatory _ => 0
  | .alpn _ => 1
  | .noDefaultAlpn => 2
  | .port _ => 3
  | .ipv4hint _ => 4
  | .ech _ => 5
  | .ipv6hint _ => 6
  | .other k _ => k

def strictlyIncreasing : List Nat → Bool
  | a :: b :: rest => a < b && strictlyIncreasing (b :: rest)
  | _ => true

def decodeAlpn : Nat → Bytes → Option (List Bytes)
  | _, [] => some []
  | 0, _ => none
  | fuel + 1, l :: rest =>
    if l.toNat = 0 then none
    else if rest.length < l.toNat then none
    else (decodeAlpn fuel (rest.drop l.toNat)).map (rest.take l.toNat :: ·)

def decodeAddrs (n : Nat) : Nat → Bytes → Option (List Bytes)
  | _, [] => some []
  | 0, _ => none
  | fuel + 1, b =>
    if b.length < n then none else (decodeAddrs n fuel (b.drop n)).map (b.take n :: ·)

def decodeKeys : Bytes → Option (List Nat)
  | [] => some []
  | [_] => none
  | a :: b :: rest => (decodeKeys rest).map ((a.toNat * 256 + b.toNat) :: ·)

/-- §7 / §8 value formats -/
def decodeValue (k : Nat) (v : Bytes) : Option Value :=
  match k with
  | 0 => match decodeKeys v with
    | some ks => if ks ≠ [] ∧ strictlyIncreasing ks ∧ !ks.contains 0 then some (.mandatory ks) else none
    | none => none
  | 1 => match decodeAlpn v.length v with
    | some ids => if ids ≠ [] then some (.alpn ids) else none
    | none => none
  | 2 => if v = [] then some .noDefaultAlpn else none
  | 3 => match v with
    | [a, b] => some (.port (a.toNat * 256 + b.toNat))
    | _ => none
  | 4 => match decodeAddrs 4 v.length v with
    | some as => if as ≠ [] then some (.ipv4hint as) else none
    | none => none
  | 5 => some (.ech v)
  | 6 => match decodeAddrs 16 v.length v with
    | some as => if as ≠ [] then some (.ipv6hint as) else none
    | none => none
  | k => some (.other k v)

def mandatoryPresent (vs : List Value) : Bool :=
  vs.all fun v => match v with
    | .mandatory ks => ks.all fun k => vs.any (·.key = k)
    | _ => true

/-- a conformant RFC 9460 reader of the SvcParams part of an RDATA: `none` = malformed -/
def decodeRFC (wire : Bytes) : Option (List Value) :=
  match decodeRaw wire.length wire with
  | none => none
  | some kvs =>
    if !strictlyIncreasing (kvs.map (·.1)) then none
    else match mapM' (fun kv => decodeValue kv.1 kv.2) kvs with
      | none => none
      | some vs => if mandatoryPresent vs then some vs else none

end DnsVerif.Svcb
