/-
Model of the line codec of `dnsdata/data.go`: `fields`, the `UnmarshalText` of every record type,
their `MarshalMap` (key/value emission for the v1 and v2 key layouts), the parser's line filter
(`dnsdata/parser.go`). The subnet accumulator (`%` lines → prefix sets / range points) is in
`Model/Rearranger.lean`; SVCB parameters in `Model/Svcb.lean` (hooked in through `svcbParams`).

Constants come from `Generated/Facts.lean` (re-extracted from the source on every run).
Core Lean only.
-/
import DnsVerif.Model.Bytes
import DnsVerif.Model.Quote
import DnsVerif.Model.Name
import DnsVerif.Model.NetParse
import DnsVerif.Generated.Facts

namespace DnsVerif.Codec
open DnsVerif DnsVerif.Name DnsVerif.Net

abbrev KV := Bytes × Bytes

structure Cfg where
  serial : Nat := 0
  useV2Keys : Bool := false
  /-- `Codec.NoRnetOutput`: `%` lines emit nothing themselves (RocksDB codec) -/
  noRnetOutput : Bool := false
  /-- `Acc.Ranger` enabled (RocksDB codec): every subnet is also handed to the rearranger, whose
  `AddLocation` rejects a subnet without a 2-byte location -/
  ranger : Bool := false
deriving Repr

inductive Err where
  | badLoc         -- a location field that does not unquote
  | badRType
  | badNet
  | badSvcb
deriving Repr, DecidableEq

/-! ### field splitting -/

def indexOf (c : UInt8) (b : Bytes) : Option Nat := b.idxOf? c

/-- `detectSep` -/
def detectSep (b : Bytes) : UInt8 :=
  match indexOf 0x3a b, indexOf 0x2c b with
  | none, _ => 0x2c
  | some i, some j => if j < i then 0x2c else 0x3a
  | some _, none => 0x3a

/-- `bytes.SplitN(b, sep, n)` for a one-byte separator -/
def splitN (sep : UInt8) : Nat → Bytes → List Bytes
  | 0, _ => []
  | 1, b => [b]
  | n + 2, b =>
    match indexOf sep b with
    | none => [b]
    | some i => b.take i :: splitN sep (n + 1) (b.drop (i + 1))

/-- `fields(text)`: at least `NUMFIELDS` fields (missing ones empty) -/
def fields (text : Bytes) : List Bytes :=
  let b := text.drop 1
  let f := splitN (detectSep b) Generated.dnsdata_NUMFIELDS b
  f ++ List.replicate (Generated.dnsdata_NUMFIELDS - f.length) []

def fld (f : List Bytes) (i : Nat) : Bytes := f.getD i []

/-! ### field decoders -/

/-- `quote.Bunquote` with the error ignored (the raw bytes are kept) -/
def unq (b : Bytes) : Bytes :=
  match Quote.bunquote b with
  | .ok r => r
  | .error _ => b

/-- `getloc`: `none` = no location (`Loc(nil)`); error when the field does not unquote -/
def getloc (b : Bytes) : Except Err (Option Bytes) :=
  match Quote.bunquote b with
  | .error _ => .error .badLoc
  | .ok q => if q.length = 2 then .ok (some q) else .ok none

/-- `getlmap`: first two bytes, zero padded -/
def getlmap (b : Bytes) : Bytes :=
  let q := unq b
  [q.getD 0 0, q.getD 1 0]

/-- `getdom`: unquoted name and the wildcard flag (`*.` prefix stripped) -/
def getdom (b : Bytes) : Bytes × Bool :=
  let d := unq b
  match d with
  | 0x2a :: 0x2e :: rest => (rest, true)
  | _ => (d, false)

def getuint (bits : Nat) (b : Bytes) (dflt : Nat) : Nat := (parseUint bits b).getD dflt

/-! ### value encoders -/

def be16 (n : Nat) : Bytes := [UInt8.ofNat (n / 256 % 256), UInt8.ofNat (n % 256)]
def be32 (n : Nat) : Bytes :=
  [UInt8.ofNat (n / 16777216 % 256), UInt8.ofNat (n / 65536 % 256), UInt8.ofNat (n / 256 % 256),
   UInt8.ofNat (n % 256)]

/-- `putloc`: two bytes -/
def putloc (lo : Option Bytes) : Bytes := lo.getD [0, 0]

/-- `putrrhead`: type, visibility marker (`=`/`*` untagged, `>`/`+` + location tagged), TTL, 8 unused bytes -/
def putrrhead (t ttl : Nat) (lo : Option Bytes) (wild : Bool) : Bytes :=
  let tagged : Bool := match lo with
    | some l => l != [0, 0]
    | none => false
  be16 t ++
  (if tagged then (if wild then [0x2b] else [0x3e]) ++ lo.getD [] else (if wild then [0x2a] else [0x3d]))
  ++ be32 ttl ++ [0, 0, 0, 0, 0, 0, 0, 0]

/-- `makedomainkey` -/
def domainKey (cfg : Cfg) (dom : Bytes) (lo : Option Bytes) : Bytes :=
  let d := toLower dom
  if cfg.useV2Keys then Generated.dnsdata_ResourceRecordsKeyMarker ++ putreverseddom d ++ putloc lo
  else putloc lo ++ putdom d

/-- `makemapkey` -/
def mapKey (cfg : Cfg) (mapID dom : Bytes) : Bytes :=
  let (d, suffix) : Bytes × UInt8 := match dom with
    | 0x2a :: 0x2e :: rest => (rest, 0x2a)
    | _ => (dom, 0x3d)
  let d := toLower d
  mapID ++ (if cfg.useV2Keys then putreverseddom d else putdom d) ++ [suffix]

def dotJoin (a b c : Bytes) : Bytes := a ++ [0x2e] ++ b ++ [0x2e] ++ c

/-- `x` → `x.<tag>.<dom>` when `x` has no dot -/
def expandName (x tag dom : Bytes) : Bytes := if x.contains 0x2e then x else dotJoin x tag dom

def typeA : Nat := 1
def typeNS : Nat := 2
def typeCNAME : Nat := 5
def typeSOA : Nat := 6
def typePTR : Nat := 12
def typeMX : Nat := 15
def typeTXT : Nat := 16
def typeAAAA : Nat := 28
def typeSRV : Nat := 33
def typeSVCB : Nat := 64
def typeHTTPS : Nat := 65

/-- `Raddr.MarshalMap` (nothing when the address did not parse) -/
def addrRecord (cfg : Cfg) (dom : Bytes) (wild : Bool) (ip : Option (List UInt8)) (ttl : Nat)
    (lo : Option Bytes) (weight : Nat) : List KV :=
  match ip with
  | none => []
  | some ip =>
    if isV4 ip then
      [(domainKey cfg dom lo, putrrhead typeA ttl lo wild ++ be32 weight ++ ip.drop 12)]
    else
      [(domainKey cfg dom lo, putrrhead typeAAAA ttl lo wild ++ be32 weight ++ ip)]

def lowerhexChar (n : Nat) : UInt8 := if n < 10 then UInt8.ofNat (48 + n) else UInt8.ofNat (87 + n)

def natText (n : Nat) : Bytes := (toString n).toUTF8.toList

/-- `Reverseaddr` (of a nil address: the loop over zero bytes leaves just `ip6.arpa`) -/
def reverseAddr (ip : Option (List UInt8)) : Bytes :=
  match ip with
  | none => "ip6.arpa".toUTF8.toList
  | some ip =>
    if isV4 ip then
      natText (ip.getD 15 0).toNat ++ [0x2e] ++ natText (ip.getD 14 0).toNat ++ [0x2e]
        ++ natText (ip.getD 13 0).toNat ++ [0x2e] ++ natText (ip.getD 12 0).toNat
        ++ ".in-addr.arpa".toUTF8.toList
    else
      (ip.reverse.flatMap fun v =>
        [lowerhexChar (v.toNat % 16), 0x2e, lowerhexChar (v.toNat / 16), 0x2e])
        ++ "ip6.arpa".toUTF8.toList

/-- TXT rdata: character strings of at most 127 bytes -/
def txtChunks : Nat → Bytes → Bytes
  | 0, _ => []
  | _ + 1, [] => []
  | fuel + 1, t =>
    let n := min t.length 127
    UInt8.ofNat n :: t.take n ++ txtChunks fuel (t.drop n)

/-- hook for SVCB parameter lists: text → wire bytes, `none` = rejected -/
abbrev SvcbFn := Bytes → Option Bytes

/-! ### one line -/

/-- what a `%` line contributes to the accumulator -/
structure Subnet where
  lo : Option Bytes
  ip : List UInt8
  ones : Nat
  lmap : Bytes
deriving Repr, DecidableEq

structure LineOut where
  kvs : List KV := []
  subnet : Option Subnet := none
deriving Repr

def soaValue (ttl : Nat) (lo : Option Bytes) (ns adm : Bytes) (ser ref ret exp min : Nat) : Bytes :=
  putrrhead typeSOA ttl lo false ++ putdom ns ++ putdom adm ++ be32 ser ++ be32 ref ++ be32 ret
    ++ be32 exp ++ be32 min

/-- `Codec.ConvertLn` for one (already filtered) line -/
def convertLine (cfg : Cfg) (svcb : SvcbFn) (text : Bytes) : Except Err LineOut :=
  let f := fields text
  let longTTL := Generated.dnsdata_LongTTL
  match text with
  | [] => .error .badRType
  | t :: _ =>
    if t = 0x25 then            -- % subnet
      match getloc (fld f 0) with
      | .error e => .error e
      | .ok lo =>
        match parseIPNet (fld f 1) with
        | none => .error .badNet
        | some (ip, ones) =>
          let lmap := getlmap (fld f 2)
          if cfg.ranger ∧ lo.isNone then .error .badLoc else
          let legacy : List KV :=
            if cfg.noRnetOutput then []
            else
              (if isV4 ip ∧ ones ≥ 96 ∧ ones % 8 = 0 then
                [([0, 0x25] ++ lmap ++ (ip.take (ones / 8)).drop 12, putloc lo)] else [])
              ++ [([0, 0x25] ++ lmap ++ ip ++ [UInt8.ofNat ones], putloc lo)]
          .ok { kvs := legacy, subnet := some { lo := lo, ip := ip, ones := ones, lmap := lmap } }
    else if t = 0x5a then       -- Z SOA
      match getloc (fld f 10) with
      | .error e => .error e
      | .ok lo =>
        let dom := unq (fld f 0)
        .ok { kvs := [(domainKey cfg dom lo,
          soaValue (getuint 32 (fld f 8) Generated.dnsdata_ShortTTL) lo (unq (fld f 1)) (unq (fld f 2))
            (getuint 32 (fld f 3) cfg.serial) (getuint 32 (fld f 4) 16384) (getuint 32 (fld f 5) 2048)
            (getuint 32 (fld f 6) 1048576) (getuint 32 (fld f 7) 2560))] }
    else if t = 0x2e ∨ t = 0x26 then   -- . and &
      match getloc (fld f 5) with
      | .error e => .error e
      | .ok lo =>
        let dom := unq (fld f 0)
        let ns := expandName (unq (fld f 2)) "ns".toUTF8.toList dom
        let ttl := getuint 32 (fld f 3) Generated.dnsdata_LinkTTL
        let nsKV : List KV := [(domainKey cfg dom lo, putrrhead typeNS ttl lo false ++ putdom ns)]
        let aKV := addrRecord cfg ns false (parseIP (fld f 1)) ttl lo 1
        if t = 0x26 then .ok { kvs := nsKV ++ aKV }
        else
          let soaTTL := if ttl = 0 then 0 else Generated.dnsdata_ShortTTL
          let adm := "hostmaster".toUTF8.toList ++ [0x2e] ++ dom
          .ok { kvs := [(domainKey cfg dom lo,
                  soaValue soaTTL lo ns adm cfg.serial 16384 2048 1048576 2560)] ++ nsKV ++ aKV }
    else if t = 0x2b then       -- + address
      match getloc (fld f 4) with
      | .error e => .error e
      | .ok lo =>
        let (dom, wild) := getdom (fld f 0)
        .ok { kvs := addrRecord cfg dom wild (parseIP (fld f 1)) (getuint 32 (fld f 2) longTTL) lo
                (getuint 32 (fld f 5) 1) }
    else if t = 0x3d then       -- = address + PTR
      match getloc (fld f 4) with
      | .error e => .error e
      | .ok lo =>
        let (dom, wild) := getdom (fld f 0)
        let ip := parseIP (fld f 1)
        let ttl := getuint 32 (fld f 2) longTTL
        let host := if wild then [0x2a, 0x2e] ++ dom else dom
        .ok { kvs := addrRecord cfg dom wild ip ttl lo 1 ++
                [(domainKey cfg (reverseAddr ip) lo, putrrhead typePTR ttl lo false ++ putdom host)] }
    else if t = 0x40 then       -- @ MX
      match getloc (fld f 6) with
      | .error e => .error e
      | .ok lo =>
        let dom := unq (fld f 0)
        let mx := expandName (unq (fld f 2)) "mx".toUTF8.toList dom
        let dist := getuint 32 (fld f 3) 0
        let ttl := getuint 32 (fld f 4) longTTL
        .ok { kvs := [(domainKey cfg dom lo, putrrhead typeMX ttl lo false ++ be16 dist ++ putdom mx)]
                ++ addrRecord cfg mx false (parseIP (fld f 1)) ttl lo 1 }
    else if t = 0x53 then       -- S SRV
      match getloc (fld f 8) with
      | .error e => .error e
      | .ok lo =>
        let dom := unq (fld f 0)
        let srv := expandName (unq (fld f 2)) "srv".toUTF8.toList dom
        let port := getuint 16 (fld f 3) 0
        let pri := getuint 16 (fld f 4) 0
        let weight := getuint 16 (fld f 5) 0
        let ttl := getuint 32 (fld f 6) longTTL
        .ok { kvs := [(domainKey cfg dom lo,
                  putrrhead typeSRV ttl lo false ++ be16 pri ++ be16 weight ++ be16 port ++ putdom srv)]
                ++ addrRecord cfg srv false (parseIP (fld f 1)) ttl lo 1 }
    else if t = 0x43 then       -- C CNAME
      match getloc (fld f 4) with
      | .error e => .error e
      | .ok lo =>
        let (dom, wild) := getdom (fld f 0)
        .ok { kvs := [(domainKey cfg dom lo,
                putrrhead typeCNAME (getuint 32 (fld f 2) longTTL) lo wild ++ putdom (unq (fld f 1)))] }
    else if t = 0x5e then       -- ^ PTR
      match getloc (fld f 4) with
      | .error e => .error e
      | .ok lo =>
        .ok { kvs := [(domainKey cfg (unq (fld f 0)) lo,
                putrrhead typePTR (getuint 32 (fld f 2) longTTL) lo false ++ putdom (unq (fld f 1)))] }
    else if t = 0x27 then       -- ' TXT
      match getloc (fld f 4) with
      | .error e => .error e
      | .ok lo =>
        let (dom, wild) := getdom (fld f 0)
        let txt := unq (fld f 1)
        .ok { kvs := [(domainKey cfg dom lo,
                putrrhead typeTXT (getuint 32 (fld f 2) longTTL) lo wild ++ txtChunks (txt.length + 1) txt)] }
    else if t = 0x3a then       -- : generic
      match getloc (fld f 5) with
      | .error e => .error e
      | .ok lo =>
        let rtype := getuint 32 (fld f 1) 0 % 65536
        .ok { kvs := [(domainKey cfg (unq (fld f 0)) lo,
                putrrhead rtype (getuint 32 (fld f 3) longTTL) lo false ++ unq (fld f 2))] }
    else if t = 0x4d then       -- M resolver map
      .ok { kvs := [(mapKey cfg [0, 0x4d] (unq (fld f 0)), getlmap (fld f 1))] }
    else if t = 0x38 then       -- 8 client-subnet map
      .ok { kvs := [(mapKey cfg [0, 0x38] (unq (fld f 0)), getlmap (fld f 1))] }
    else if t = 0x42 ∨ t = 0x48 then   -- B SVCB / H HTTPS
      let (dom, wild) := getdom (fld f 0)
      let (tgt, _) := getdom (fld f 1)
      let ttl := getuint 32 (fld f 2) 0
      match getloc (fld f 3) with
      | .error e => .error e
      | .ok lo =>
        let prio := getuint 16 (fld f 4) 0
        match svcb (fld f 5) with
        | none => .error .badSvcb
        | some wire =>
          .ok { kvs := [(domainKey cfg dom lo,
                  putrrhead (if t = 0x42 then typeSVCB else typeHTTPS) ttl lo wild ++ be16 prio
                    ++ putdom tgt ++ wire)] }
    else .error .badRType

/-- the parser's line filter (`parse` in parser.go): leading blanks trimmed, short lines and
comments skipped; `none` = skipped -/
def filterLine (line : Bytes) : Option Bytes :=
  let l := line.dropWhile (· = 0x20)
  if l.length < 2 then none
  else match l with
    | 0x23 :: _ => none
    | _ => some l

end DnsVerif.Codec
