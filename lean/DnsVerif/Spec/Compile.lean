/-
Spec for C07: what a compiled database must contain, written from the property statement and
independent of how any compiler works.

`perLine` = the records the line codec emits for each line of the data file (file order),
`extra` = the derived records (subnet tables / prefix sets, feature record).
The database is a map from key to a *multiset* of values: two value lists are the same result iff
one is a permutation of the other (`List.Perm`).
-/
import DnsVerif.Model.Bytes

namespace DnsVerif.Spec
open DnsVerif

/-- every record, nothing else: the values of key `k` are exactly the values of the records with
that key (listed in file order; the order is not part of the result). -/
def compileSpec (perLine : List (List (Bytes × Bytes))) (extra : List (Bytes × Bytes)) (k : Bytes) :
    List Bytes :=
  ((perLine.flatten ++ extra).filter (·.1 = k)).map (·.2)

/-- all accepted lines, or `none` if some line is rejected -/
def acceptedLines : List (Option (List (Bytes × Bytes))) → Option (List (List (Bytes × Bytes)))
  | [] => some []
  | none :: _ => none
  | some p :: rest => (acceptedLines rest).map (p :: ·)

/-- compilation fails iff some line is rejected; otherwise the result is `compileSpec` -/
def compileResult (lines : List (Option (List (Bytes × Bytes)))) (extra : List (Bytes × Bytes)) :
    Option (Bytes → List Bytes) :=
  (acceptedLines lines).map fun perLine => compileSpec perLine extra

end DnsVerif.Spec
