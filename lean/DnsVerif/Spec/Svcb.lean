/-
What a TinyDNS-style SVCB/HTTPS parameter text *declares*, as abstract RFC 9460 data
(`Svcb.Value`): the statement side of C18. Independent of the wire encoders of the model: nothing
here produces wire bytes. It shares with the model only the lexical layer of the text format
(`;` between parameters, `=` after the key, optional `"` around the value, `|` between values) and
the library-function models (`parseIP`, `parseUint16`, `b64Decode`).

Reading of the text format taken here: empty segments (`a;;b`, trailing `;`) are ignored; a
declaration is valid only if every value meets the RFC 9460 constraints of its key.
Core Lean only.
-/
import DnsVerif.Model.Svcb

namespace DnsVerif.Spec.Svcb
open DnsVerif DnsVerif.Svcb

def nodupNat : List Nat → Bool
  | [] => true
  | a :: as => !as.contains a && nodupNat as

/-- the declared value of key `k` from its (unquoted) text -/
def declValue (k : Nat) (v : Bytes) : Option Value :=
  match k with
  | 0 => (mapM' keyOfName (splitOn 0x7c v)).map fun ks => .mandatory (sortBy id ks)
  | 1 => some (.alpn (splitOn 0x7c v))
  | 2 => if v = [] then some .noDefaultAlpn else none
  | 3 => (parseUint16 v).map .port
  | 4 => (mapM' (fun a => (parseIP a).bind to4) (splitOn 0x7c v)).map .ipv4hint
  | 5 => (b64Decode v).map .ech
  | 6 => (mapM' (fun a => if a.contains 0x3a then parseIP a else none) (splitOn 0x7c v)).map .ipv6hint
  | _ => none

/-- RFC 9460 constraints on a declared value (§7, §8) -/
def valid : Value → Bool
  | .mandatory ks => !ks.isEmpty && nodupNat ks && !ks.contains 0
  | .alpn ids => !ids.isEmpty && ids.all fun i => 1 ≤ i.length && i.length ≤ 255
  | .noDefaultAlpn => true
  | .port n => n < 65536
  | .ipv4hint as => !as.isEmpty && as.all (·.length = 4)
  | .ech _ => true
  | .ipv6hint as => !as.isEmpty && as.all (·.length = 16)
  | .other _ _ => false

def declSeg (seg : Bytes) : Option Value :=
  match cut 0x3d seg with
  | none => none
  | some (k, v) =>
    match keyOfName k with
    | none => none
    | some knum => declValue knum (trimQuotes v)

/-- The declaration of a parameter text: the parameters in key order; `none` when the text is not
a valid declaration (syntax, value constraints, repeated key, `mandatory` naming an absent key). -/
def declared (t : Bytes) : Option (List Value) :=
  match mapM' declSeg ((splitOn 0x3b t).filter (!·.isEmpty)) with
  | none => none
  | some vs =>
    if vs.all valid && nodupNat (vs.map Value.key) && mandatoryPresent vs then
      some (sortBy Value.key vs)
    else none

end DnsVerif.Spec.Svcb
