/-
Spec for C01/C03/C04/C10: what a response must be, stated over *records* (owner, wildcard flag,
location tag, type, TTL, rdata, weight), *maps* and *subnets* — not over keys, rows or search
procedures. Written from the property statements and the tinydns-data semantics the project
documents. Executable, so it doubles as the oracle. Core Lean only; never imports `Generated`.
-/
import DnsVerif.Model.Name
import DnsVerif.Model.NetParse

namespace DnsVerif.Spec
open DnsVerif DnsVerif.Name

/-- a declared resource record -/
structure Rec where
  owner : List Bytes        -- labels, lower-case, leftmost first ([] = root)
  wild : Bool               -- declared as `*.owner`
  loc : Bytes               -- 2-byte location tag, `[0,0]` = untagged
  type : Nat
  ttl : Nat
  weight : Nat              -- A/AAAA only
  rdata : Bytes
deriving Repr, DecidableEq

structure MapDecl where
  ecs : Bool                -- `8` (client-subnet) or `M` (resolver) map
  owner : List Bytes
  wild : Bool
  mapID : Bytes
deriving Repr, DecidableEq

structure SubnetDecl where
  mapID : Bytes
  net : Nat                 -- network address as a 128-bit number (IPv4 as IPv4-mapped)
  ones : Nat                -- prefix length on the 128-bit scale
  loc : Bytes
deriving Repr, DecidableEq

structure Zone where
  recs : List Rec
  maps : List MapDecl
  subnets : List SubnetDecl
deriving Repr

/-! ### documented defaults (tinydns-data / dnsrocks documentation; literals, never extracted) -/

/-- default TTL of a record of wire type `t` emitted by a line of kind `prefix` without TTL field -/
def defaultTTL (linePrefix : UInt8) (t : Nat) : Nat :=
  if t = 6 then 2560                                   -- SOA (Z and . lines)
  else if linePrefix = 0x26 ∨ linePrefix = 0x2e then 259200   -- & and . lines: NS and its glue
  else 86400

/-- default SOA timers: refresh, retry, expire, minimum -/
def defaultSoaTimers : List Nat := [16384, 2048, 1048576, 2560]

/-! ### client → location (C03) -/

def v4Base : Nat := 0xffff * 2 ^ 32

/-- an address (or network) belongs to the IPv4 family iff it lies in `::ffff:0:0/96` and, for a
network, is no shorter than /96 -/
def isV4Addr (a : Nat) : Bool := a / 2 ^ 32 = 0xffff
def SubnetDecl.isV4 (s : SubnetDecl) : Bool := isV4Addr s.net && s.ones ≥ 96

def SubnetDecl.contains (s : SubnetDecl) (a : Nat) : Bool :=
  a / 2 ^ (128 - s.ones) = s.net / 2 ^ (128 - s.ones)

/-- longest-prefix match: the longest declared subnet of `mapID`, of the client's family, that
contains the client's address and is no longer than the client's own prefix -/
def lpm (subnets : List SubnetDecl) (mapID : Bytes) (clientV4 : Bool) (addr clientOnes : Nat) :
    Option SubnetDecl :=
  (subnets.filter fun s => s.mapID = mapID ∧ s.isV4 = clientV4 ∧ s.ones ≤ clientOnes ∧ s.contains addr).foldl
    (fun best s => match best with
      | none => some s
      | some b => if s.ones > b.ones then some s else some b) none

/-- name → map: the exact-name map, else the nearest enclosing wildcard map -/
def mapFor (maps : List MapDecl) (ecs : Bool) (q : List Bytes) : Option Bytes :=
  match maps.find? fun m => m.ecs = ecs ∧ ¬ m.wild ∧ m.owner = q with
  | some m => some m.mapID
  | none =>
    -- proper ancestors, nearest first
    let rec up : List Bytes → Option Bytes
      | [] => none
      | _ :: rest =>
        match maps.find? fun m => m.ecs = ecs ∧ m.wild ∧ m.owner = rest with
        | some m => some m.mapID
        | none => up rest
    up q

structure Client where
  resolver : Nat                    -- resolver address (IPv4 as IPv4-mapped)
  ecs : Option (Nat × Nat × Nat × Nat)   -- family, source prefix length, query scope, address (mapped)
deriving Repr

structure LocResult where
  loc : Bytes
  scope : Option Nat                -- scope prefix length to echo, when the query had a client subnet
deriving Repr, DecidableEq

def locate (z : Zone) (q : List Bytes) (c : Client) : LocResult :=
  let resolverLoc : Bytes :=
    match mapFor z.maps false q with
    | none => [0, 0]
    | some m =>
      match lpm z.subnets m (isV4Addr c.resolver) c.resolver 128 with
      | some s => s.loc
      | none => [0, 0]
  match c.ecs with
  | none => { loc := resolverLoc, scope := none }
  | some (family, src, _, addr) =>
    match mapFor z.maps true q with
    | none => { loc := resolverLoc, scope := some 0 }       -- no client-subnet map: scope 0
    | some m =>
      let v4 := family = 1
      let ones := if v4 then src + 96 else src
      match lpm z.subnets m v4 addr ones with
      | some s =>
        if s.loc = [0, 0] then { loc := resolverLoc, scope := some (if family = 2 then 48 else 24) }
        else { loc := s.loc, scope := some (if v4 then s.ones - 96 else s.ones) }
      | none => { loc := resolverLoc, scope := some (if family = 2 then 48 else 24) }

/-! ### the answer (C01, C04) -/

def visible (l : Bytes) (r : Rec) : Bool := r.loc = [0, 0] || r.loc = l

/-- proper-or-improper ancestors of a name, nearest first (the name itself, then parents … root) -/
def ancestorsOrSelf : List Bytes → List (List Bytes)
  | [] => [[]]
  | l :: rest => (l :: rest) :: ancestorsOrSelf rest

structure OutRR where
  owner : List Bytes
  type : Nat
  cls : Nat
  ttl : Nat
  rdata : Bytes
deriving Repr, DecidableEq

/-- an address group: served records are `min(max, #positive)` distinct positive-weight candidates -/
structure OutAddrs where
  owner : List Bytes
  type : Nat
  cls : Nat
  cands : List (Nat × Nat × Bytes)     -- ttl, weight, address
  max : Nat
deriving Repr, DecidableEq

structure Answer where
  rcode : Nat
  aa : Bool
  answer : List OutRR
  answerAddrs : List OutAddrs
  authority : List OutRR
  additional : List OutAddrs
deriving Repr

def wildsafeLabel (l : Bytes) : Bool := Name.wildsafe l

/-- labels of a wire-format name at the head of `b` -/
def nameLabels (b : Bytes) : Option (List Bytes) := Name.labels (b.length + 1) b

/-- the records answering `q` inside the zone cut at `cut`: the name's own records if it has any,
otherwise those of the closest wildcard `*.p` with `p` between `q` (exclusive) and the cut
(inclusive), all stripped labels being wild-safe -/
def recordsFor (recs : List Rec) (l : Bytes) (q cut : List Bytes) : List Rec :=
  let own := recs.filter fun r => r.owner = q ∧ ¬ r.wild ∧ visible l r
  if ¬ own.isEmpty then own
  else
    let rec up : List Bytes → List Rec
      | [] => []
      | lab :: rest =>
        if (lab :: rest) = cut then []
        else if ¬ wildsafeLabel lab then []
        else
          let w := recs.filter fun r => r.owner = rest ∧ r.wild ∧ visible l r
          if ¬ w.isEmpty then w else up rest
    up q

def answer (z : Zone) (q : List Bytes) (qtype qclass maxAns : Nat) (l : Bytes) : Answer :=
  let recs := z.recs
  let hasT (owner : List Bytes) (t : Nat) : Bool :=
    recs.any fun r => r.owner = owner ∧ ¬ r.wild ∧ r.type = t ∧ visible l r
  let cutOf (name : List Bytes) : Option (List Bytes) := (ancestorsOrSelf name).find? fun a => hasT a 2
  match cutOf q with
  | none => { rcode := 5, aa := false, answer := [], answerAddrs := [], authority := [], additional := [] }
  | some cut0 =>
    let auth0 := hasT cut0 6
    -- DS lives on the parent side of a zone cut
    let (cut, auth) : List Bytes × Bool :=
      if ¬ auth0 ∧ qtype = 43 ∧ q ≠ [] then
        match cutOf (q.drop 1) with
        | some c => (c, hasT c 6)
        | none => (cut0, false)       -- parent not served: non-authoritative, empty
      else (cut0, auth0)
    let parentServed := ¬ (¬ auth0 ∧ qtype = 43 ∧ q ≠ []) ∨ (cutOf (q.drop 1)).isSome
    let rs : List Rec := if auth then recordsFor recs l q cut else []
    let matching := rs.filter fun r => r.type = 5 ∨ r.type = qtype ∨ qtype = 255
    let plain := (matching.filter fun r => r.type ≠ 1 ∧ r.type ≠ 28).map fun r =>
      (⟨q, r.type, 1, r.ttl, r.rdata⟩ : OutRR)
    let grp (t : Nat) : List OutAddrs :=
      let c := (matching.filter (·.type = t)).map fun r => (r.ttl, r.weight, r.rdata)
      if c.isEmpty then [] else [⟨q, t, 1, c, maxAns⟩]
    let groups := grp 1 ++ grp 28
    let served (g : OutAddrs) : Bool := g.cands.any fun c => c.2.1 > 0
    let answerEmpty := plain.isEmpty ∧ ¬ groups.any served
    let rcode := if auth ∧ rs.isEmpty then 3 else 0
    let soa : List OutRR :=
      match recs.find? fun r => r.owner = cut ∧ ¬ r.wild ∧ r.type = 6 ∧ visible l r ∧ r.loc = l ∧ l ≠ [0, 0] with
      | some r => [⟨cut, 6, 1, r.ttl, r.rdata⟩]
      | none =>
        match recs.find? fun r => r.owner = cut ∧ ¬ r.wild ∧ r.type = 6 ∧ visible l r with
        | some r => [⟨cut, 6, 1, r.ttl, r.rdata⟩]
        | none => []
    let nsOf (c : List Bytes) : List OutRR :=
      (recs.filter fun r => r.owner = c ∧ ¬ r.wild ∧ r.type = 2 ∧ visible l r).map fun r =>
        ⟨c, 2, qclass, r.ttl, r.rdata⟩
    let authority : List OutRR :=
      if auth ∧ answerEmpty then soa
      else if ¬ auth ∧ parentServed then nsOf cut
      else []
    -- additional: one A and one AAAA group per NS / MX target (and per HTTPS owner) not already
    -- answered; addresses are looked up by the target's name (case-insensitively)
    let targets : List (List Bytes) :=
      (plain ++ authority).filterMap fun rr =>
        if rr.type = 2 then (nameLabels rr.rdata).map (·.map toLower)
        else if rr.type = 15 then (nameLabels (rr.rdata.drop 2)).map (·.map toLower)
        else if rr.type = 65 then some rr.owner
        else none
    let additional : List OutAddrs := targets.eraseDups.flatMap fun tname =>
      let alreadyHas (t : Nat) : Bool := groups.any fun g => g.owner = tname ∧ g.type = t ∧ served g
      let cand (t : Nat) : List (Nat × Nat × Bytes) :=
        (recs.filter fun r => r.owner = tname ∧ ¬ r.wild ∧ r.type = t ∧ visible l r).map fun r =>
          (r.ttl, r.weight, r.rdata)
      (if ¬ alreadyHas 28 ∧ ¬ (cand 28).isEmpty then [⟨tname, 28, qclass, cand 28, 1⟩] else [])
      ++ (if ¬ alreadyHas 1 ∧ ¬ (cand 1).isEmpty then [⟨tname, 1, qclass, cand 1, 1⟩] else [])
    { rcode := rcode, aa := auth, answer := plain, answerAddrs := groups, authority := authority,
      additional := additional }

end DnsVerif.Spec
