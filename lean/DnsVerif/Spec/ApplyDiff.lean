/-
Spec for C08, written from the property statement.

A database is a map from key to a *multiset* of values (`Spec.MultiMap`, value lists compared up to
`List.Perm`). The database of a data file holds exactly the records of its lines (plus the feature
record). A diff is a multiset of added lines and a multiset of removed lines.
-/
import DnsVerif.Spec.MultiMap

namespace DnsVerif.Spec
open DnsVerif

/-- the values of key `k` among a list of records -/
def valuesAt (recs : List (Bytes × Bytes)) (k : Bytes) : List Bytes :=
  (recs.filter (·.1 = k)).map (·.2)

/-- the database of a data file given by the records of each of its lines -/
def fileMap (perLine : List (List (Bytes × Bytes))) (extra : List (Bytes × Bytes)) : MultiMap :=
  ⟨valuesAt (perLine.flatten ++ extra)⟩

/-- equal as maps from key to multiset of values -/
def MultiMap.Equiv (m m' : MultiMap) : Prop := ∀ k, (m.get k).Perm (m'.get k)

/-- the database after a diff, when it applies: every removed record must be there (after the
additions), counted with multiplicity; otherwise the diff does not apply. Works on record lists
(`db` = all records of the database). -/
def diffResult (db plus minus : List (Bytes × Bytes)) : Option (List (Bytes × Bytes)) :=
  minus.foldlM (fun acc r => if r ∈ acc then some (acc.erase r) else none) (db ++ plus)

end DnsVerif.Spec
