/-
Spec for the sampled-metric part of C19, from the property statement: the exported numbers are
computed from exactly the samples added within the last window length.
-/
import DnsVerif.Model.Window

namespace DnsVerif.Spec.Stats
open DnsVerif.Window

/-- time of the last cleaner tick in a history (0 if none) -/
def lastTick : List Ev → Nat
  | [] => 0
  | .tick t :: rest => max t (lastTick rest)
  | .add _ _ :: rest => lastTick rest

/-- the samples a window must hold after a history: every added sample that had not expired at the
last cleaner tick, in the order added — nothing else. -/
def expected (life : Nat) (evs : List Ev) : List Int :=
  evs.filterMap fun
    | .add v t => if lastTick evs ≤ t + life then some v else none
    | .tick _ => none

/-- clock readings never go backwards -/
def Monotone : List Ev → Prop
  | [] => True
  | [_] => True
  | a :: b :: rest => a.time ≤ b.time ∧ Monotone (b :: rest)

end DnsVerif.Spec.Stats
