/-
Spec for C15: the store is a map from key to a list of values.
Written from the property statement, independent of the code's representation.
-/
import DnsVerif.Model.Bytes

namespace DnsVerif.Spec
open DnsVerif

/-- a map of lists; a key is present iff its list is non-empty.
(A structure rather than a bare function so that the compiled driver evaluates each update once.) -/
structure MultiMap where
  get : Bytes → List Bytes

def MultiMap.empty : MultiMap := ⟨fun _ => []⟩

def MultiMap.set (m : MultiMap) (k : Bytes) (vs : List Bytes) : MultiMap :=
  ⟨fun k' => if k' = k then vs else m.get k'⟩

/-- Add appends one value to the key's list. -/
def MultiMap.add (m : MultiMap) (k v : Bytes) : MultiMap :=
  let vs := m.get k ++ [v]
  m.set k vs

inductive DelErr where
  | noKey
  | noValue
deriving DecidableEq, Repr

/-- Del removes exactly one equal value (the key disappears with its last value, which is implicit
in "present iff non-empty"); fails without effect if the key or the value is absent. -/
def MultiMap.del (m : MultiMap) (k v : Bytes) : Except DelErr MultiMap :=
  let cur := m.get k
  if cur = [] then .error .noKey
  else if v ∈ cur then .ok (m.set k (cur.erase v))
  else .error .noValue

/-- A batch: all additions, then all deletions; any failing deletion fails the whole batch (and the
caller keeps the old map). -/
def MultiMap.batch (m : MultiMap) (adds dels : List (Bytes × Bytes)) : Option MultiMap :=
  let m1 := adds.foldl (fun acc p => acc.add p.1 p.2) m
  dels.foldlM (fun acc p =>
    let cur := acc.get p.1
    if p.2 ∈ cur then some (acc.set p.1 (cur.erase p.2)) else none) m1

end DnsVerif.Spec
