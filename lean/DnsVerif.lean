import DnsVerif.Model.Bytes
import DnsVerif.Model.Quote
